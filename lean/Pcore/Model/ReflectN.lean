/-
  C18 model — the Go reflection bridge: types/types.go, types/zinit.go, types/reflector.go and the `ReflectTo`
  methods of the value kinds, AS THE CODE IS NOW (after the fix: commits c519cc2, 63e30d0, fdc5ca3, bd96b25).

  Mirrors (file func → definition):
    types.go      wrap (type switch on the dynamic type)            → `wrap true`
    types.go      wrapReflected / WrapPrimitive (reached through a dereferenced pointer: `wrapReflected(c, vr.Elem())`)
                                                                    → `wrap false`
                    * `[]int`, `[]string`, `[]interface{}` hit WrapInts/WrapStrings/WrapInterfaces: nil → EMPTY array
                    * `[]byte` hits WrapBinary (nil-ness of the slice is kept inside the Binary)
                    * `map[string]string`, `map[string]interface{}` hit WrapStringTo…Map: nil → EMPTY hash
                    * every other nil slice / map / pointer / interface → undef (wrapReflected's IsNil test)
                    * unsigned kinds: `integerValue(int64(vr.Uint()))` — values ≥ 2^63 wrap around
    hashtype.go   sortedMap (sort.Slice by `key.String()`)           → `sortEntries` (by `keyText`)
    types.go      wrapReflectedType + zinit.go primitivePTypes       → `typeOf`
    integertype.go / floattype.go / … IsInstance                     → `inst` (only the type forms `typeOf` produces)
    reflector.go  ReflectTo / Reflect2; undeftype.go ReflectTo       → `reflectTo` (`.undef` → the zero value)
    integertype.go ReflectTo (SetInt / SetUint truncate, `*T` case)  → `truncS` / `truncU`
    floattype.go  ReflectTo (SetFloat; float32 conversion)           → parameter `r32` (trusted: Go's float64→float32→float64)
    stringtype.go / booleantype.go / binarytype.go ReflectTo
    arraytype.go  ReflectTo (slice, Go array with length check, pointer to either)
    hashtype.go   ReflectTo (MakeMap + SetMapIndex; an undef value in a map[..]interface{} is the nil interface)
                                                                    → `mapOf` (a Go map is kept as a list of entries in
                                                                       the canonical order `keyLt`; SetMapIndex = `mapSet`)

    types.go      wrapReflected, registry hit (`loadFromImplRegistry` → objecttype.go FromReflectedValue →
                  NewReflectedValue): a struct, or a POINTER to a struct, whose type was registered with
                  Reflector.TypeFromReflect becomes a `reflectedObject` that HOLDS the reflect.Value  → `Val.obj S isPtr g`
    types.go      wrapReflectedType, registry hit: the object type; `*S` → Optional[object type]      → `Ty.obj S`
    objecttype.go IsInstance / IsAssignable (same type, or an ancestor of the value's type)           → `inst (.obj S)`, `ancestors`
    objectvalue.go reflectedObject.ReflectTo (`value.Set(o.value)`)                                   → `reflectTo` struct arms

  Structs through a derived object type (px.New from an init hash / positionally, setValues, embedding) are modelled at the
  end of the file (own code ↔ model map there).  Every struct type of a term is registered by the harness (named
  registration with TypeFromReflect + AddTypes, the documented use), parent = the embedded first field's type.

  Not modelled (see props/C18.json): `reflect` itself (it is the parameter of the model: MakeSlice, SetMapIndex, Set,
  settable-ness behave as the Go documentation says), struct types that were never registered (plain-struct-hash) or
  are derived anonymously, the registry-mapped path (FromReflectedValue / ToReflectedValue of declared types), a struct
  field that is itself an interface{} and holds a struct / pointer to a struct (every other content IS modelled: a
  Runtime value, `Val.rt`), an embedded POINTER to a struct, fields that shadow a
  field of an embedded struct, tag forms outside name / value / type / kind over the literal and type grammar below,
  an interface{} that reaches `wrap`'s type switch holding anything but a scalar (containers come back with a Go type that
  Array.Reflect / Hash.ReflectTo INFER from the pcore value's type — implementation only, two known findings), map keys
  other than integers, strings and booleans, named types, NaN payloads.
  Strings are valid UTF-8.  Core-only file (linked into the driver).
-/
namespace Pcore.ReflectN

/-- a literal written in a struct tag (`value=>…`): integer, float (IEEE bits of the float64), 'string', true / false,
    undef, array `[l,…]` (`anil` / `acons`), hash with string keys `{'k'=>l,…}` (`hnil` / `hcons`) -/
inductive Lit where
  | int (i : Int) | flt (bits : Nat) | str (s : String) | bool (b : Bool) | undef
  | anil | acons (h t : Lit) | hnil | hcons (k v t : Lit)
  deriving DecidableEq, Repr, Inhabited

/-- a type written in a struct tag (`type=>…`): Integer[lo,hi], Float, String, Boolean, Any, Optional[T], Array[T],
    Hash[K,V] -/
inductive TTy where
  | int (lo hi : Int) | float | str | bool | any | opt (t : TTy) | array (t : TTy) | hash (k v : TTy)
  deriving DecidableEq, Repr, Inhabited

/-- attribute kinds (`kind=>…`); `normal` = no kind given -/
inductive Kind where
  | normal | constant | derived | givenOrDerived | reference
  deriving DecidableEq, Repr, Inhabited

/-- what the `puppet:"…"` tag of a struct field says (reflector.go ReflectFieldTags reads exactly the keys name, kind,
    value, type) plus the field's `Anonymous` flag -/
structure FTag where
  attr : Option String := none     -- `name=>'x'`
  dflt : Option Lit := none        -- `value=>LIT`
  anon : Bool := false             -- embedded field
  typ : Option TTy := none         -- `type=>T`
  kind : Kind := .normal           -- `kind=>constant|derived|given_or_derived|reference`
  deriving DecidableEq, Repr, Inhabited

/-- Go types assembled with reflect.  Width 0 = the platform `int` / `uint` (64 bit; a type distinct from int64).
    A struct type is the chain of its fields: `snil` is `struct{}`, `scons name tag ft rest` puts the field `name ft` in
    front of the struct type `rest` (`Modelled` demands that `rest` is a struct type). -/
inductive GoTy where
  | int (w : Nat) | uint (w : Nat) | float (w : Nat) | string | bool | iface
  | slice (e : GoTy) | map (k v : GoTy) | ptr (e : GoTy) | array (n : Nat) (e : GoTy)
  | snil | scons (name : String) (tag : FTag) (ft : GoTy) (rest : GoTy)
  deriving DecidableEq, Repr, Inhabited

def isStruct : GoTy → Bool
  | .snil => true | .scons .. => true | _ => false

/-- Go values.  Integers are mathematical integers inside the width's range (`hasType`); floats are the IEEE-754 bits of
    the float64 value; `nil` is the nil slice / map / pointer / interface, distinct from the empty `slice []` / `map []`;
    a non-nil map is its entry list in the canonical order `keyLt`. -/
inductive GoVal where
  | int (i : Int) | flt (bits : Nat) | str (s : String) | bool (b : Bool)
  | nil
  | slice (es : List GoVal) | arr (es : List GoVal) | map (es : List (GoVal × GoVal))
  | ptr (v : GoVal) | iface (t : GoTy) (v : GoVal)
  | st (fs : List GoVal)
  deriving Repr, Inhabited

/-- pcore values (the kinds the bridge produces) -/
inductive Val where
  | int (i : Int) | flt (bits : Nat) | str (s : String) | bool (b : Bool) | undef
  | bin (isNil : Bool) (bs : List Int)
  | arr (es : List Val) | hsh (es : List (Val × Val))
  /-- an instance of the object type derived from the struct type `S` (a `reflectedObject`): it HOLDS the Go value —
      the struct `g` itself (`isPtr = false`) or the pointer to it (`isPtr = true`) -/
  | obj (S : GoTy) (isPtr : Bool) (g : GoVal)
  /-- a Runtime value (`WrapRuntime`): it holds a Go value of the dynamic type `t` verbatim -/
  | rt (t : GoTy) (g : GoVal)
  deriving Repr, Inhabited

/-- pcore types (the forms `wrapReflectedType` produces) -/
inductive Ty where
  | int (lo hi : Int) | float (w : Nat) | str | bool | array (e : Ty) | hash (k v : Ty) | opt (t : Ty) | bin | any
  /-- the object type derived from (and registered for) the struct type `S` -/
  | obj (S : GoTy)
  deriving DecidableEq, Repr, Inhabited

def lookupAttr (n : String) : List (Val × Val) → Option Val
  | [] => none
  | (k, w) :: r => match k with
    | .str s => if s = n then some w else lookupAttr n r
    | _ => lookupAttr n r

/-- `==` of two floats that are not NaN, on bits: the same bits, or +0 and -0 -/
def fEq (a b : Nat) : Bool := a == b || (a % 2 ^ 63 == 0 && b % 2 ^ 63 == 0)

/-- the pcore value of a tag literal -/
def Lit.toVal : Lit → Val
  | .int i => .int i | .flt b => .flt b | .str s => .str s | .bool b => .bool b | .undef => .undef
  | .anil => .arr []
  | .acons h t => match toVal t with
    | .arr es => .arr (toVal h :: es)
    | _ => .arr [toVal h]
  | .hnil => .hsh []
  | .hcons k v t => match toVal t with
    | .hsh es => .hsh ((toVal k, toVal v) :: es)
    | _ => .hsh [(toVal k, toVal v)]

def Lit.len : Lit → Nat
  | .acons _ t => t.len + 1
  | .hcons _ _ t => t.len + 1
  | _ => 0

mutual
/-- `Value.Equals` between a declared default and a value: integertype.go / floattype.go (`==`: +0 equals -0) /
    stringtype.go / booleantype.go / undeftype.go Equals, arraytype.go Equals (element by element), hashtype.go Equals
    (same number of entries, every entry found under its key with an equal value: the order does not matter) -/
def litEq : Lit → Val → Bool
  | .int a, .int b => a == b
  | .flt a, .flt b => fEq a b
  | .str a, .str b => a == b
  | .bool a, .bool b => a == b
  | .undef, .undef => true
  | .anil, .arr [] => true
  | .acons h t, .arr (x :: xs) => litEq h x && litEq t (.arr xs)
  | .hnil, .hsh es => es.isEmpty
  | .hcons (.str s) v t, .hsh es =>
      t.len + 1 == es.length && (match lookupAttr s es with | some w => litEq v w | none => false) && hashIn t es
  | _, _ => false
def hashIn : Lit → List (Val × Val) → Bool
  | .hnil, _ => true
  | .hcons (.str s) v t, es => (match lookupAttr s es with | some w => litEq v w | none => false) && hashIn t es
  | _, _ => false
end

def bitsOf (w : Nat) : Nat := if w = 0 then 64 else w

def okWidth (w : Nat) : Bool := w = 0 || w = 8 || w = 16 || w = 32 || w = 64

/-! ### floats as bits -/

def fExp (b : Nat) : Nat := (b / 2 ^ 52) % 2048
def fMan (b : Nat) : Nat := b % 2 ^ 52

/-- finite float64 (neither ±Inf nor NaN) -/
def finite (b : Nat) : Bool := fExp b != 2047

/-- NaN: DeepEqual is not reflexive on it, so it is outside the quantifier -/
def isNaN (b : Nat) : Bool := fExp b == 2047 && fMan b != 0

/-- the float64 with these bits is exactly a float32 value (±0, ±Inf, normal or subnormal float32; NaN excluded) -/
def f32exact (b : Nat) : Bool :=
  b < 2 ^ 64 &&
  (let e := fExp b; let m := fMan b
   if e = 0 || e = 2047 then m = 0
   else if 897 ≤ e && e ≤ 1150 then m % 2 ^ 29 = 0
   else if 874 ≤ e && e ≤ 896 then m % 2 ^ (29 + (897 - e)) = 0
   else false)

/-- bits of math.MaxFloat32 as a float64 -/
def maxF32 : Nat := 0x47EFFFFFE0000000

/-! ### Go values: typing -/

def scalarTy : GoTy → Bool
  | .int w => okWidth w | .uint w => okWidth w | .float w => w = 32 || w = 64 | .string => true | .bool => true
  | _ => false

def keyTy : GoTy → Bool
  | .int w => okWidth w | .uint w => okWidth w | .string => true | .bool => true
  | _ => false

/-- the shapes the model covers: widths exist, map keys are integers / strings / booleans, a pointer does not point to a
    pointer or an interface (not "a pointer used as an optional") -/
def Modelled : GoTy → Bool
  | .int w => okWidth w | .uint w => okWidth w | .float w => w = 32 || w = 64
  | .string => true | .bool => true | .iface => true
  | .slice e => Modelled e
  | .array _ e => Modelled e
  | .map k v => keyTy k && Modelled v
  | .ptr e => (match e with | .ptr _ => false | .iface => false | _ => true) && Modelled e
  | .snil => true
  -- an embedded field is a struct
  | .scons _ tg ft rest => isStruct rest && (!tg.anon || isStruct ft) && Modelled ft && Modelled rest

def strLt (a b : String) : Bool := decide (a < b)

/-- canonical order of map keys: numeric, String order (= bytewise on UTF-8), false < true -/
def keyLt : GoVal → GoVal → Bool
  | .int a, .int b => a < b
  | .str a, .str b => strLt a b
  | .bool a, .bool b => !a && b
  | _, _ => false

def sortedKeys : List (GoVal × GoVal) → Bool
  | [] => true
  | [_] => true
  | a :: b :: r => keyLt a.1 b.1 && sortedKeys (b :: r)

def scalarHasType : GoTy → GoVal → Bool
  | .int w, .int i => -(2 ^ (bitsOf w - 1) : Int) ≤ i && i < 2 ^ (bitsOf w - 1)
  | .uint w, .int i => 0 ≤ i && i < 2 ^ bitsOf w
  | .float w, .flt b => if w = 32 then f32exact b else b < 2 ^ 64 && !isNaN b
  | .string, .str _ => true
  | .bool, .bool _ => true
  | _, _ => false

/-- a struct FIELD of type interface{} (it reaches `wrapReflected` as a reflect.Value of kind Interface, not `wrap`'s type
    switch): nil, or any Go value whose dynamic type is not a struct / pointer to a struct (those are objects when their
    type happens to be registered: outside the model).  What it holds is kept verbatim in a Runtime value, so nothing is
    demanded of it. -/
def ifaceField : GoVal → Bool
  | .nil => true
  | .iface t _ => !isStruct t && (match t with | .ptr e => !isStruct e | .iface => false | _ => true)
  | _ => false

def hasType : GoTy → GoVal → Bool
  | .int w, v => scalarHasType (.int w) v
  | .uint w, v => scalarHasType (.uint w) v
  | .float w, v => scalarHasType (.float w) v
  | .string, v => scalarHasType .string v
  | .bool, v => scalarHasType .bool v
  | .iface, .nil => true
  | .iface, .iface t v => scalarTy t && scalarHasType t v
  | .iface, _ => false
  | .slice _, .nil => true
  | .slice e, .slice es => es.all (hasType e)
  | .slice _, _ => false
  | .array n e, .arr es => es.length = n && es.all (hasType e)
  | .array _ _, _ => false
  | .map _ _, .nil => true
  | .map k v, .map es => es.all (fun kv => hasType k kv.1 && hasType v kv.2) && sortedKeys es
  | .map _ _, _ => false
  | .ptr _, .nil => true
  | .ptr e, .ptr v => hasType e v
  | .ptr _, _ => false
  | .snil, .st [] => true
  | .snil, _ => false
  | .scons _ _ ft rest, .st (v :: vs) =>
      (match ft with | .iface => ifaceField v | _ => hasType ft v) && hasType rest (.st vs)
  | .scons _ _ _ _, _ => false

/-- typing of a struct FIELD (the `scons` arm of `hasType`) -/
def fieldHasType (ft : GoTy) (v : GoVal) : Bool :=
  match ft with
  | .iface => ifaceField v
  | _ => hasType ft v

/-! ### Go → pcore value -/

/-- `int64(uint64)` -/
def u2i (i : Int) : Int := if i ≥ 2 ^ 63 then i - 2 ^ 64 else i

def wrapScalar : GoTy → GoVal → Val
  | .int _, .int i => .int i
  | .uint _, .int i => .int (u2i i)
  | .float _, .flt b => .flt b
  | .string, .str s => .str s
  | .bool, .bool b => .bool b
  | _, _ => .undef

/-- `Value.String()` of a key, the sort key of `sortedMap` -/
def keyText : Val → String
  | .int i => toString i
  | .str s => s
  | .bool b => if b then "true" else "false"
  | _ => ""

def insertEntry (e : Val × Val) : List (Val × Val) → List (Val × Val)
  | [] => [e]
  | x :: r => if keyText e.1 < keyText x.1 then e :: x :: r else x :: insertEntry e r

def sortEntries : List (Val × Val) → List (Val × Val)
  | [] => []
  | e :: r => insertEntry e (sortEntries r)

def intOf : GoVal → Int
  | .int i => i
  | _ => 0

/-- element types whose slice hits a dedicated arm of `wrap`'s type switch that maps nil to an EMPTY array -/
def nilToEmptySlice (e : GoTy) : Bool := e = .int 0 || e = .string || e = .iface

/-- `map[string]string` and `map[string]interface{}`: nil becomes an EMPTY hash -/
def nilToEmptyMap (k v : GoTy) : Bool := k = .string && (v = .string || v = .iface)

/-- `via = true`: the value reaches `types.wrap` as an interface{} (top level, slice / array element, map key / value);
    `via = false`: it is the pointee of a pointer and goes straight to `wrapReflected`. -/
def wrap (via : Bool) : GoTy → GoVal → Val
  | .int w, v => wrapScalar (.int w) v
  | .uint w, v => wrapScalar (.uint w) v
  | .float w, v => wrapScalar (.float w) v
  | .string, v => wrapScalar .string v
  | .bool, v => wrapScalar .bool v
  -- through `wrap`'s type switch the dynamic type decides (scalars: modelled); as a struct field (`wrapReflected`, kind
  -- Interface) the value falls through to `WrapRuntime(vr.Interface())`
  | .iface, .iface t v => if via then wrapScalar t v else .rt t v
  | .iface, _ => .undef
  | .slice e, .nil =>
      if via && e = .uint 8 then .bin true []
      else if via && nilToEmptySlice e then .arr []
      else .undef
  | .slice e, .slice es =>
      if via && e = .uint 8 then .bin false (es.map intOf)
      else .arr (es.map (wrap true e))
  | .slice _, _ => .undef
  | .array _ e, .arr es => .arr (es.map (wrap true e))
  | .array _ _, _ => .undef
  | .map k v, .nil => if via && nilToEmptyMap k v then .hsh [] else .undef
  | .map k v, .map es => .hsh (sortEntries (es.map fun kv => (wrap true k kv.1, wrap true v kv.2)))
  | .map _ _, _ => .undef
  -- a pointer to a registered struct is looked up in the implementation registry BEFORE it is dereferenced: the object
  -- holds the pointer
  | .ptr e, .ptr v => if isStruct e then .obj e true v else wrap false e v
  | .ptr _, _ => .undef
  -- a struct whose type is registered (TypeFromReflect): `FromReflectedValue` → `NewReflectedValue`, the object holds it
  | .snil, v => .obj .snil false v
  | .scons n tg ft rest, v => .obj (.scons n tg ft rest) false v

/-! ### Go type → pcore type -/

def minI64 : Int := -(2 ^ 63)
def maxI64 : Int := 2 ^ 63 - 1

def typeOf : GoTy → Ty
  | .int w => if w = 8 then .int (-128) 127 else if w = 16 then .int (-32768) 32767
              else if w = 32 then .int (-2147483648) 2147483647 else .int minI64 maxI64
  | .uint w => if w = 8 then .int 0 255 else if w = 16 then .int 0 65535
               else if w = 32 then .int 0 4294967295 else .int 0 maxI64
  | .float w => .float w
  | .string => .str
  | .bool => .bool
  | .iface => .any
  | .slice e => .array (typeOf e)
  | .array _ e => .array (typeOf e)
  | .map k v => .hash (typeOf k) (typeOf v)
  | .ptr e => .opt (typeOf e)
  | .snil => .obj .snil
  | .scons n tg ft rest => .obj (.scons n tg ft rest)

def TTy.toTy : TTy → Ty
  | .int lo hi => .int lo hi | .float => .float 64 | .str => .str | .bool => .bool | .any => .any
  | .opt t => .opt t.toTy | .array t => .array t.toTy | .hash k v => .hash k.toTy v.toTy

/-- the parent types of the object type derived from a struct type: the chain of the FIRST fields that are embedded
    structs (reflector.go InitializerFromTagged `i == 0 && f.Anonymous`; the harness passes the parent's type) -/
def ancestors : GoTy → List GoTy
  | .scons _ tg ft _ => if tg.anon && isStruct ft then ft :: ancestors ft else []
  | _ => []

/-- IsInstance for the type forms above -/
def inst : Ty → Val → Bool
  | .int lo hi, .int i => lo ≤ i && i ≤ hi
  | .int _ _, _ => false
  | .float w, .flt b => if w = 32 then b % 2 ^ 63 ≤ maxF32 else !isNaN b   -- the default Float has no bounds: ±Inf included
  | .float _, _ => false
  | .str, .str _ => true
  | .str, _ => false
  | .bool, .bool _ => true
  | .bool, _ => false
  | .array e, .arr es => es.all (inst e)
  | .array _, _ => false
  | .hash k v, .hsh es => es.all fun kv => inst k kv.1 && inst v kv.2
  | .hash _ _, _ => false
  | .opt _, .undef => true
  | .opt t, v => inst t v
  | .bin, .bin _ _ => true
  | .bin, _ => false
  | .any, _ => true
  -- objecttype.go IsInstance = IsAssignable(t, o.PType()): the same type or one of the value's type's ancestors
  | .obj S, .obj S' _ _ => S' = S || (ancestors S').contains S
  | .obj _, _ => false

/-! ### pcore value → Go -/

/-- `int8(x)`, `SetInt` on an 8-bit field, …: keep the low `b` bits, read as two's complement -/
def truncS (b : Nat) (i : Int) : Int :=
  let m := i % 2 ^ b
  if m ≥ 2 ^ (b - 1) then m - 2 ^ b else m

/-- `uint8(x)`, `SetUint` -/
def truncU (b : Nat) (i : Int) : Int := i % 2 ^ b

def zeroOf : GoTy → GoVal
  | .int _ => .int 0 | .uint _ => .int 0 | .float _ => .flt 0 | .string => .str "" | .bool => .bool false
  | .array n e => .arr (List.replicate n (zeroOf e))
  | .snil => .st []
  | .scons _ _ ft rest => match zeroOf rest with
    | .st vs => .st (zeroOf ft :: vs)
    | _ => .st [zeroOf ft]
  | _ => .nil

def mapOpt {α β : Type} (f : α → Option β) : List α → Option (List β)
  | [] => some []
  | a :: r => match f a, mapOpt f r with
    | some b, some bs => some (b :: bs)
    | _, _ => none

def pairOpt {α β : Type} : Option α → Option β → Option (α × β)
  | some a, some b => some (a, b)
  | _, _ => none

/-- `SetMapIndex` on a map kept in canonical order: replace the entry with an equal key or insert -/
def mapSet (k v : GoVal) : List (GoVal × GoVal) → List (GoVal × GoVal)
  | [] => [(k, v)]
  | x :: r =>
    if keyLt k x.1 then (k, v) :: x :: r
    else if keyLt x.1 k then x :: mapSet k v r
    else (k, v) :: r

def mapOf (l : List (GoVal × GoVal)) : List (GoVal × GoVal) :=
  l.foldl (fun m e => mapSet e.1 e.2 m) []

/-- `Reflector.ReflectTo(src, dest)` for a fresh settable `dest` of type `ty`; `none` = the call panics.
    `r32` is Go's float64 → float32 → float64 conversion on bits (trusted parameter). -/
def reflectTo (r32 : Nat → Nat) : GoTy → Val → Option GoVal
  -- runtimetype.go RuntimeValue.Reflect / ReflectTo: into interface{} the held value with its dynamic type; into any other
  -- destination only when the Go types are identical (`gt.AssignableTo(dest.Type())`)
  | ty, .rt t g => if ty = .iface then some (.iface t g) else if ty = t then some g else none
  -- interface{}: `dest.Set(src.Reflect(c))`; undef reflects to the invalid Value → nil interface
  | .iface, .int i => some (.iface (.int 64) (.int i))
  | .iface, .flt b => some (.iface (.float 64) (.flt b))
  | .iface, .str s => some (.iface .string (.str s))
  | .iface, .bool b => some (.iface .bool (.bool b))
  | .iface, .undef => some .nil
  -- objectvalue.go reflectedObject.Reflect: the struct (or the pointer) the object holds
  | .iface, .obj S p g => some (if p then .iface (.ptr S) (.ptr g) else .iface S g)
  | .iface, _ => none          -- Binary / Array / Hash into interface{}: the Go type is INFERRED from the value's type
                               -- (Array.Reflect → ReflectType(PType())): not modelled, implementation only (@refl)
  | .int w, .int i => some (.int (truncS (bitsOf w) i))
  | .int _, .undef => some (.int 0)
  | .int _, _ => none
  | .uint w, .int i => some (.int (truncU (bitsOf w) i))
  | .uint _, .undef => some (.int 0)
  | .uint _, _ => none
  | .float w, .flt b => some (.flt (if w = 32 then r32 b else b))
  | .float _, .undef => some (.flt 0)
  | .float _, _ => none
  | .string, .str s => some (.str s)
  | .string, .undef => some (.str "")
  | .string, _ => none
  | .bool, .bool b => some (.bool b)
  | .bool, .undef => some (.bool false)
  | .bool, _ => none
  | .slice e, .arr vs => (mapOpt (reflectTo r32 e) vs).map .slice
  | .slice e, .bin isNil bs =>
      if e = .uint 8 then some (if isNil then .nil else .slice (bs.map .int)) else none
  | .slice _, .undef => some .nil
  | .slice _, _ => none
  | .array n e, .arr vs => if vs.length = n then (mapOpt (reflectTo r32 e) vs).map .arr else none
  | .array n e, .undef => some (zeroOf (.array n e))
  | .array _ _, _ => none
  | .map k v, .hsh es =>
      (mapOpt (fun kv => pairOpt (reflectTo r32 k kv.1) (reflectTo r32 v kv.2)) es).map fun l => .map (mapOf l)
  | .map _ _, .undef => some .nil
  | .map _ _, _ => none
  -- pointers: every kind's ReflectTo allocates one level; Binary has no pointer arm; pointer-to-pointer and
  -- pointer-to-interface destinations are refused by every arm
  | .ptr _, .undef => some .nil
  | .ptr _, .bin _ _ => none
  -- objectvalue.go reflectedObject.ReflectTo: `value.Set(o.value)` — the object that holds the pointer goes into a pointer
  -- destination of its own type; an object that holds the struct would need `o.value.Addr()` (panics unless the struct
  -- happens to be addressable: outside the model, answered as a fault)
  | .ptr e, .obj S p g => if p && S = e then some (.ptr g) else none
  | .ptr e, v =>
      match e with
      | .ptr _ => none
      | .iface => none
      | .snil => none
      | .scons .. => none
      | _ => (reflectTo r32 e v).map .ptr
  -- a struct destination: only the object of that very struct type (`Set` panics on any other Go type), undef → zero struct
  | .snil, .obj S p g => if !p && S = .snil then some g else none
  | .snil, .undef => some (zeroOf .snil)
  | .snil, _ => none
  | .scons n tg ft rest, .obj S p g => if !p && S = .scons n tg ft rest then some g else none
  | .scons n tg ft rest, .undef => some (zeroOf (.scons n tg ft rest))
  | .scons _ _ _ _, _ => none

/-! ### which (type, value) pairs satisfy each half of the property -/

/-- the round trip reproduces the value: excludes exactly
    * a nil `[]int` / `[]string` / `[]interface{}` reached through `wrap` (comes back empty),
    * a nil `map[string]string` / `map[string]interface{}` reached through `wrap` (comes back empty),
    * a non-nil pointer to a nil slice / map (comes back as a nil pointer),
    * an interface{} holding anything but int64 / float64 / string / bool (comes back as int64 / float64). -/
def RtOK (via : Bool) : GoTy → GoVal → Bool
  | .iface, .iface t _ => !via || t = .int 64 || t = .float 64 || t = .string || t = .bool
  | .slice e, .nil => !(via && nilToEmptySlice e)
  | .slice e, .slice es => es.all (RtOK true e)
  | .array _ e, .arr es => es.all (RtOK true e)
  | .map k v, .nil => !(via && nilToEmptyMap k v)
  | .map _ v, .map es => es.all fun kv => RtOK true v kv.2
  | .ptr _, .ptr .nil => false
  | .ptr e, .ptr x => RtOK false e x
  | _, _ => true

/-- the derived type accepts the wrapped value: excludes exactly
    * unsigned values ≥ 2^63 (wrap to a negative Integer; the derived type is Integer[0, 2^63-1]),
    * ±Inf held in a float32 (the derived type is Float[-MaxFloat32, MaxFloat32]) and NaN,
    * `[]byte` reached through `wrap` (becomes a Binary; the derived type is Array[Integer[0,255]]),
    * nil slices and maps that wrap to undef (the derived Array / Hash type is not Optional). -/
def TaOK (via : Bool) : GoTy → GoVal → Bool
  | .uint _, .int i => i < 2 ^ 63
  | .float w, .flt b => if w = 32 then finite b else !isNaN b
  | .slice e, .nil => via && nilToEmptySlice e
  | .slice e, .slice es => !(via && e = .uint 8) && es.all (TaOK true e)
  | .array _ e, .arr es => es.all (TaOK true e)
  | .map k v, .nil => via && nilToEmptyMap k v
  | .map k v, .map es => es.all fun kv => TaOK true k kv.1 && TaOK true v kv.2
  | .ptr _, .ptr .nil => true
  | .ptr e, .ptr x => TaOK false e x
  | _, _ => true

/-! ### structs through a derived object type (the attribute list; struct TERMS are mapped onto it further down)

  reflector.go  TypeFromReflect / InitializerFromTagged / ReflectFieldTags → `Field` (attribute name = tag `name` or the
                first-to-lower Go name; attribute type = `typeOf`; tag `value=>X` declares the default X; a pointer field
                without one is Optional with the implicit default undef)                          → `Field.default`
  attribute.go  HasValue / Default(v) = `value != nil && value.Equals(v)`                         → `Field.isOpt`, `Field.isDefault`
  objecttype.go createAttributesInfo (required attributes first, then those with a value)        → `attrOrder`
  objectvalue.go reflectedObject.Get / InitHash (`wrapReflected` of the field; an attribute whose value equals its
                default is omitted)                                                               → `fieldVal`, `initHash`
  objecttype.go createNewFunction: the named-argument dispatch checks the hash against the init Struct type (an attribute
                with a value may be absent, no unknown keys), the positional one takes the required attributes and any
                prefix of the optional ones, each checked against its attribute type              → `namedCheck`, `posCheck`
  attributesinfo.go PositionalFromHash: one value per attribute, a missing one is its default (fillValueSlice), then the
                trailing values that equal their default are cut off (the loop's lower bound RequiredCount is implied:
                a required attribute has no default)                                              → `fillFromHash`, `trimDefaults`
  objectvalue.go setValues: attribute i gets values[i], or — when the slice is shorter — its declared default (else
                undef), each by `ReflectTo` into the field of that Go name                        → `restore`, `setValues`
  objectvalue.go reflectedObject.ReflectTo (the struct itself)                                    → `structOf`
  A field is inside the model (`flatField`) when its type is a modelled type (nested structs, pointers to structs, slices /
  maps of structs included), it is not itself an interface{} (such a field wraps to a Runtime value: not modelled) and
  its declared default is an integer, string or boolean that the attribute type accepts. -/

structure Field where
  name : String
  ty : GoTy
  dflt : Option Lit := none
  goName : String := ""
  /-- the attribute's type: the one derived from the Go type unless the tag declares another (`fieldOfDecl`) -/
  aty : Ty := typeOf ty
  kind : Kind := .normal
  deriving Repr, Inhabited

/-- the literal of the attribute's value: the declared default, else the implicit undef of an Optional attribute type
    (reflector.go ReflectFieldTags / attribute.go initialize: "Optional attributes have an implicit value of undef") -/
def Field.dlit (f : Field) : Option Lit :=
  match f.dflt with
  | some d => some d
  | none => match f.aty with
    | .opt _ => some .undef
    | _ => none

/-- the attribute's value (`HasValue`) -/
def Field.default (f : Field) : Option Val := f.dlit.map Lit.toVal

/-- objecttype.go createAttributesInfo / createInitType: an attribute with a value, or of kind given_or_derived, is
    optional (placed after the required ones, may be absent from the init hash) -/
def Field.isOpt (f : Field) : Bool := f.default.isSome || f.kind == .givenOrDerived

/-- attributesinfo: constants and derived attributes have no position in an instance (they are not in AttributesInfo,
    not in the init hash, never set on the struct) -/
def Field.stored (f : Field) : Bool := f.kind != .constant && f.kind != .derived

/-- `attr.Default(v)` = `value != nil && value.Equals(v)` -/
def Field.isDefault (f : Field) (v : Val) : Bool :=
  match f.dlit with
  | some d => litEq d v
  | none => false

/-- a literal that `Equals` only its own value: no float zero (+0 equals -0) and no hash of several entries (their
    order does not matter to `Equals`) inside it -/
def Lit.exact : Lit → Bool
  | .flt b => b % 2 ^ 63 != 0
  | .acons h t => h.exact && t.exact
  | .hcons k v t => (match t with | .hnil => true | _ => false) && (match k with | .str _ => true | _ => false) && v.exact
  | _ => true

def Field.exactDflt (f : Field) : Bool :=
  match f.dflt with
  | some d => d.exact && f.kind != .givenOrDerived
  | none => true

def fieldVal (fv : Field × GoVal) : Val := wrap false fv.1.ty fv.2

def attrOrder {α : Type} (p : α → Field) (l : List α) : List α :=
  l.filter (fun x => !(p x).isOpt) ++ l.filter (fun x => (p x).isOpt)

def isUndef : Val → Bool
  | .undef => true
  | _ => false

/-- objectvalue.go InitHash: `attr.HasValue() && v.Equals(attr.Value()) || attr.Kind() == givenOrDerived && v.Equals(undef)` -/
def Field.omitted (f : Field) (v : Val) : Bool := f.isDefault v || (f.kind == .givenOrDerived && isUndef v)

def initHash (fvs : List (Field × GoVal)) : List (Val × Val) :=
  (attrOrder (·.1) fvs).filterMap fun fv =>
    if fv.1.omitted (fieldVal fv) then none else some (.str fv.1.name, fieldVal fv)

/-- the hash with every attribute given -/
def fullHash (fvs : List (Field × GoVal)) : List (Val × Val) :=
  (attrOrder (·.1) fvs).map fun fv => (.str fv.1.name, fieldVal fv)

def knownKey (fs : List Field) : Val → Bool
  | .str s => fs.any fun f => f.name = s
  | _ => false

/-- init Struct type, one member: a given value must be an instance of the attribute type, only an attribute with a value
    may be absent -/
def attrCheck (ih : List (Val × Val)) (f : Field) : Bool :=
  match lookupAttr f.name ih with
  | some w => inst f.aty w
  | none => f.isOpt

def namedCheck (fs : List Field) (ih : List (Val × Val)) : Bool :=
  fs.all (attrCheck ih) && ih.all (fun kv => knownKey fs kv.1)

def allZip {α β : Type} (p : α → β → Bool) : List α → List β → Bool
  | a :: as, b :: bs => p a b && allZip p as bs
  | _, _ => true

/-- positional dispatch: all required attributes, then any prefix of the optional ones; every argument is checked -/
def posCheck (attrs : List Field) (args : List Val) : Bool :=
  (attrs.filter (fun f => !f.isOpt)).length ≤ args.length && args.length ≤ attrs.length &&
  allZip (fun f w => inst f.aty w) attrs args

def fillFromHash (attrs : List Field) (ih : List (Val × Val)) : List Val :=
  attrs.map fun f => (lookupAttr f.name ih).getD (f.default.getD .undef)

def trimDefaults : List Field → List Val → List Val
  | a :: as, v :: vs =>
    let r := trimDefaults as vs
    if r.isEmpty && a.isDefault v then [] else v :: r
  | _, _ => []

def restore : List Field → List Val → List Val
  | [], _ => []
  | a :: as, [] => a.default.getD .undef :: restore as []
  | _ :: as, v :: vs => v :: restore as vs

def zipFV : List Field → List Val → List (Field × Val)
  | a :: as, v :: vs => (a, v) :: zipFV as vs
  | _, _ => []

/-- `setValues`: every attribute's value goes into the field of its name -/
def setValues (r32 : Nat → Nat) (attrs : List Field) (vals : List Val) : Option (List (String × GoVal)) :=
  mapOpt (fun av : Field × Val => (reflectTo r32 av.1.ty av.2).map fun g => (av.1.name, g)) (zipFV attrs (restore attrs vals))

def lookupField (n : String) : List (String × GoVal) → Option GoVal
  | [] => none
  | (k, g) :: r => if k = n then some g else lookupField n r

/-- the struct behind the instance, fields in declaration order -/
def structOf (fs : List Field) (res : List (String × GoVal)) : Option (List GoVal) :=
  mapOpt (fun f => lookupField f.name res) fs

/-- `px.New(T, hash)` through the named-argument dispatch, then `ReflectTo` into a fresh struct; `none` when the hash
    is not an instance of the init Struct type -/
def newNamed (r32 : Nat → Nat) (fs : List Field) (ih : List (Val × Val)) : Option (List GoVal) :=
  let attrs := attrOrder id fs
  if namedCheck fs ih
  then (setValues r32 attrs (trimDefaults attrs (fillFromHash attrs ih))).bind (structOf fs)
  else none

/-- `px.New(T, v₁, …, vₖ)` through the positional dispatch (arguments in attribute order), then `ReflectTo` -/
def newPos (r32 : Nat → Nat) (fs : List Field) (args : List Val) : Option (List GoVal) :=
  let attrs := attrOrder id fs
  if posCheck attrs args then (setValues r32 attrs args).bind (structOf fs) else none

/-- a tag literal without a NaN -/
def Lit.noNaN : Lit → Bool
  | .flt b => b < 2 ^ 64 && !isNaN b
  | .acons h t => h.noNaN && t.noNaN
  | .hcons k v t => k.noNaN && v.noNaN && t.noNaN
  | _ => true

/-- a field inside the model: a modelled type, not itself an interface{}, and a declared default that the attribute type
    accepts (attribute.go: the type derivation asserts it; so integers only on integer fields within the width's range,
    arrays on slices / Go arrays, string-keyed hashes on maps, undef only on pointers …) -/
def flatField (f : Field) : Bool :=
  Modelled f.ty && (match f.dflt with | some d => d.noNaN && inst f.aty d.toVal | none => true)

/-! ### struct types as terms: fields, tags, embedding

  reflector.go  FieldName: the attribute name is the tag's `name`, else issue.FirstToLower of the Go name   → `attrName`
  reflector.go  InitializerFromTagged: the FIRST field, when embedded, is not an attribute: it is the parent (the harness
                passes the object type registered for it as the parent, as TypeSetFromReflect does); every other field —
                embedded or not — is an attribute                                                 → `ownFields`, `ancestors`
  objecttype.go collectAttributes(true): the parent's attributes (recursively), then the own        → `attrsOf`
  objectvalue.go reflectedObject.Get / setValues: `structVal().FieldByName(attr.GoName())` — Go's promotion finds the
                field of an embedded parent at any depth                                          → `flatVals`, `rebuild`
  A struct is inside the model (`structWF`) when its attribute names and Go names (over the whole parent chain) are
  distinct — a clash is an error of the type derivation (attribute) or resolved by depth (Go name): implementation only. -/

def lowerFirstL : List Char → List Char
  | [] => []
  | c :: r => if c = '_' then c :: lowerFirstL r else c.toLower :: r

/-- issue.FirstToLower: the first character that is not an underscore is lower-cased -/
def lowerFirst (s : String) : String := String.ofList (lowerFirstL s.toList)

def isOptTy : Ty → Bool
  | .opt _ => true
  | _ => false

/-- reflector.go ReflectFieldTags, the attribute's type before attribute.go sees it: the tag's `type`, else the type
    derived from the Go type; a declared value of undef makes it Optional ("Convenience") -/
def tagType (tg : FTag) (ft : GoTy) : Ty :=
  let t0 := match tg.typ with
    | some t => t.toTy
    | none => typeOf ft
  if !isOptTy t0 && tg.dflt == some .undef then .opt t0 else t0

/-- the attribute a field declares: name (tag `name`, else FirstToLower of the Go name), type (`tagType`; attribute.go
    initialize: an attribute of kind given_or_derived "is always optional"), declared value, kind -/
def fieldOfDecl (n : String) (tg : FTag) (ft : GoTy) : Field :=
  let t1 := tagType tg ft
  { name := tg.attr.getD (lowerFirst n), ty := ft, dflt := tg.dflt, goName := n,
    aty := if tg.kind == .givenOrDerived && !inst t1 .undef then .opt t1 else t1,
    kind := tg.kind }

/-- every field of a struct type as the attribute it declares (constants and derived ones included) -/
def allDecl : GoTy → List Field
  | .scons n tg ft rest => fieldOfDecl n tg ft :: allDecl rest
  | _ => []

/-- the fields of a struct type that are STORED attributes (`Field.stored`), in order -/
def declFields : GoTy → List Field
  | .scons n tg ft rest =>
      if (fieldOfDecl n tg ft).stored then fieldOfDecl n tg ft :: declFields rest else declFields rest
  | _ => []

/-- their values -/
def declVals : GoTy → List GoVal → List GoVal
  | .scons n tg ft rest, v :: vs =>
      if (fieldOfDecl n tg ft).stored then v :: declVals rest vs else declVals rest vs
  | _, _ => []

/-- the field values again: the stored ones from the list, the Go zero value for a constant / derived field (setValues
    never touches it) -/
def declBuild : GoTy → List GoVal → List GoVal
  | .scons n tg ft rest, vs =>
      if (fieldOfDecl n tg ft).stored then
        match vs with
        | v :: vs' => v :: declBuild rest vs'
        | [] => []
      else zeroOf ft :: declBuild rest vs
  | _, _ => []

/-- the attributes of an instance of the object type derived from a struct type (AttributesInfo before the
    required / optional reordering): the parent's, then the own -/
def attrsOf : GoTy → List Field
  | .scons n tg ft rest =>
      if tg.anon && isStruct ft then attrsOf ft ++ declFields rest else declFields (.scons n tg ft rest)
  | _ => []

/-- the Go values of the attributes, in the order of `attrsOf` (fields of the embedded parent are promoted) -/
def flatVals : GoTy → GoVal → List GoVal
  | .scons n tg ft rest, .st (v :: vs) =>
      if tg.anon && isStruct ft then flatVals ft v ++ declVals rest vs else declVals (.scons n tg ft rest) (v :: vs)
  | _, _ => []

/-- the struct with these attribute values -/
def rebuild : GoTy → List GoVal → GoVal
  | .scons n tg ft rest, vs =>
      if tg.anon && isStruct ft then
        .st (rebuild ft (vs.take (attrsOf ft).length) :: declBuild rest (vs.drop (attrsOf ft).length))
      else .st (declBuild (.scons n tg ft rest) vs)
  | _, _ => .st []

def nodupS : List String → Bool
  | [] => true
  | a :: r => !r.contains a && nodupS r

/-- every Go field name `FieldByName` can see from a struct: its own and, through embedded structs in any position,
    theirs -/
def promotedNames : GoTy → List String
  | .scons n tg ft rest => (n :: (if tg.anon && isStruct ft then promotedNames ft else [])) ++ promotedNames rest
  | _ => []

/-- the fields of a struct type with their tags -/
def tagsOf : GoTy → List (String × FTag × GoTy)
  | .scons n tg ft rest => (n, tg, ft) :: tagsOf rest
  | _ => []

/-- the fields that declare the type's OWN attributes: all but an embedded first field (the parent) -/
def ownTags : GoTy → List (String × FTag × GoTy)
  | .scons n tg ft rest => if tg.anon && isStruct ft then tagsOf rest else (n, tg, ft) :: tagsOf rest
  | _ => []

/-- all attributes (of every kind) of the object type of a struct type: the parent chain's, then the own -/
def chainDecl : GoTy → List Field
  | .scons n tg ft rest => if tg.anon && isStruct ft then chainDecl ft ++ allDecl rest else allDecl (.scons n tg ft rest)
  | _ => []

/-- the members an own attribute may clash with: all attributes of the parent -/
def parentMembers : GoTy → List Field
  | .scons _ tg ft _ => if tg.anon && isStruct ft then chainDecl ft else []
  | _ => []

def ptrLike : GoTy → Bool
  | .ptr _ => true
  | .iface => true
  | _ => false

/-- reflector.go ReflectFieldTags: "Optional attributes must be pointers" — checked for every field while the initializer
    of the type is assembled, before any attribute is created -/
def fieldErr1 (x : String × FTag × GoTy) : Option String :=
  if isOptTy (tagType x.2.1 x.2.2) && !ptrLike x.2.2 then some "PCORE_IMPOSSIBLE_OPTIONAL" else none

/-- attribute.go initialize, then annotatedmember.go assertOverride, for one attribute: a value (declared, or the
    implicit undef that ReflectFieldTags adds to an Optional type) cannot be combined with derived / given_or_derived and
    must be an instance of the type; a constant needs a value; an attribute the parent has too is never derived with
    `override => true` -/
def fieldErr2 (parents : List Field) (x : String × FTag × GoTy) : Option String :=
  let tg := x.2.1
  let t1 := tagType tg x.2.2
  let val : Option Val := match tg.dflt with
    | some d => some d.toVal
    | none => if isOptTy t1 then some .undef else none
  let overrideErr : Option String := match parents.find? (fun p => p.name == tg.attr.getD (lowerFirst x.1)) with
    | some p => if p.kind == .constant && tg.kind != .constant then some "PCORE_OVERRIDE_OF_FINAL"
                else some "PCORE_OVERRIDE_IS_MISSING"
    | none => none
  match val with
  | some v =>
      if tg.kind == .derived || tg.kind == .givenOrDerived then some "PCORE_ILLEGAL_KIND_VALUE_COMBINATION"
      else if !inst t1 v then some "PCORE_TYPE_MISMATCH" else overrideErr
  | none => if tg.kind == .constant then some "PCORE_CONSTANT_REQUIRES_VALUE" else overrideErr

/-- the error (issue code) that deriving the object type of the struct type `S` reports, if any: TypeFromReflect + AddTypes -/
def deriveErr (S : GoTy) : Option String :=
  match (ownTags S).findSome? fieldErr1 with
  | some e => some e
  | none => (ownTags S).findSome? (fieldErr2 (parentMembers S))

/-- the shapes of struct types inside the model: own attribute names distinct (a repeated name silently replaces the
    earlier attribute) and promoted Go names distinct (Go resolves a clash by depth or finds the name ambiguous) -/
def shapeOK (S : GoTy) : Bool :=
  nodupS ((ownTags S).map fun x => x.2.1.attr.getD (lowerFirst x.1)) && nodupS (promotedNames S)

/-- the object type can be derived (no error) and is inside the model: distinct attribute names over the parent chain,
    every (stored) attribute a modelled field -/
def structWF (S : GoTy) : Bool :=
  shapeOK S && (deriveErr S).isNone && nodupS ((attrsOf S).map (·.name)) && (attrsOf S).all flatField

/-- the order in which the harness registers the struct types of a type term (registerStructs: key, element, fields, then
    the struct itself; a type already seen is not registered again) -/
def regGo : Bool → GoTy → List GoTy → List GoTy
  | _, .slice e, acc => regGo true e acc
  | _, .ptr e, acc => regGo true e acc
  | _, .array _ e, acc => regGo true e acc
  | _, .map k v, acc => regGo true v (regGo true k acc)
  | self, .snil, acc => if self && !acc.contains .snil then acc ++ [.snil] else acc
  | self, .scons n tg ft rest, acc =>
      let acc' := regGo false rest (regGo true ft acc)
      if self && !acc'.contains (.scons n tg ft rest) then acc' ++ [.scons n tg ft rest] else acc'
  | _, _, acc => acc

def regOrder (ty : GoTy) : List GoTy := regGo true ty []

/-- the first derivation error in registration order: what registering the struct types of `ty` reports -/
def firstErr (ty : GoTy) : Option String := (regOrder ty).findSome? deriveErr

/-- every struct type that occurs in a type (the ones the harness registers) -/
def structsIn : GoTy → List GoTy
  | .slice e => structsIn e | .ptr e => structsIn e | .array _ e => structsIn e
  | .map k v => structsIn k ++ structsIn v
  | .snil => [.snil]
  | .scons n tg ft rest => .scons n tg ft rest :: (structsIn ft ++ (structsIn rest).drop 1)
  | _ => []

def zipFG : List Field → List GoVal → List (Field × GoVal)
  | a :: as, v :: vs => (a, v) :: zipFG as vs
  | _, _ => []

/-- attributes with their Go values -/
def objFVs (S : GoTy) (v : GoVal) : List (Field × GoVal) := zipFG (attrsOf S) (flatVals S v)

/-- `px.New(T, hash)` / `px.New(T, args…)` for the object type of the struct type `S`, reflected back into a fresh `S` -/
def newNamedS (r32 : Nat → Nat) (S : GoTy) (ih : List (Val × Val)) : Option GoVal :=
  (newNamed r32 (attrsOf S) ih).map (rebuild S)

def newPosS (r32 : Nat → Nat) (S : GoTy) (args : List Val) : Option GoVal :=
  (newPos r32 (attrsOf S) args).map (rebuild S)

/-! ### reflect.DeepEqual on Go values (NaN is outside the quantifier): floats by `==`, so +0 and -0 are equal -/
mutual
def goEq : GoVal → GoVal → Bool
  | .int a, .int b => a == b
  | .flt a, .flt b => fEq a b
  | .str a, .str b => a == b
  | .bool a, .bool b => a == b
  | .nil, .nil => true
  | .slice a, .slice b => goEqL a b
  | .arr a, .arr b => goEqL a b
  | .st a, .st b => goEqL a b
  | .map a, .map b => goEqM a b
  | .ptr a, .ptr b => goEq a b
  | .iface s a, .iface t b => s == t && goEq a b
  | _, _ => false
def goEqL : List GoVal → List GoVal → Bool
  | [], [] => true
  | x :: xs, y :: ys => goEq x y && goEqL xs ys
  | _, _ => false
def goEqM : List (GoVal × GoVal) → List (GoVal × GoVal) → Bool
  | [], [] => true
  | (k, x) :: xs, (l, y) :: ys => goEq k l && goEq x y && goEqM xs ys
  | _, _ => false
end

end Pcore.ReflectN
