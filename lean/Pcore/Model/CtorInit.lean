import Pcore.Model.CtorNew
/-!
# `InitType.IsInstance` / `IsAssignable` on the driver's alphabet (property C16: `Init[T]` describes what `T.new` takes)

Core Lean only.

| Go (types/inittype.go)                                   | Lean                         |
|----------------------------------------------------------|------------------------------|
| `InitType.IsInstance`                                    | `initIsInstance`             |
| `InitType.anySignature(… s.CallableWith(vs, nil))`       | `anyCallable c vs` (Model/DispatchCtors.lean) |
| `InitType.assertInitialized` / `Resolve` (CTOR_NOT_FOUND)| the `.error "CTOR_NOT_FOUND"` arm |
| `InitType.create`: the argument list handed to the constructor | `createArgs`           |
| `InitType.IsAssignable`                                  | `initIsAssignable`           |

Quirks reproduced
* `Init[T, a…]` (init arguments): the value is matched as ONE argument followed by the init arguments, also when it is an
  array; without init arguments a value that no signature accepts alone is tried expanded when it is an array.
* `Init[W]` for a type `W` without constructor (wrappers): `IsInstance` RAISES CTOR_NOT_FOUND (it resolves the constructor first).
* the default `Init` is `RichData`: every value of the alphabet is an instance.
* `IsAssignable` with a contained type hands a Tuple type to `Signature.IsAssignable`, i.e. to `CallableType.IsAssignable`, whose
  first test is "the other type is a Callable": the answer is `false` for EVERY type, `Init[T]` itself included (an
  observation recorded in findings/C16.json: the method cannot answer what its comment says).
-/
namespace Pcore.Dispatch.Alpha

section
variable (pf : List Char → Option Nat)

/-- the argument list `InitType.create` hands to the constructor -/
def createArgs (c : Ctor) (ia args : List Val) : List Val :=
  if !ia.isEmpty then args ++ ia
  else if anyCallable c args then args
  else match args with
    | [.arr vs] => vs
    | _ => args

/-- the signature test of `InitType.IsInstance` for a resolved constructor -/
def initInstTest (c : Ctor) (ia : List Val) (v : Val) : Bool :=
  if !ia.isEmpty then anyCallable c (v :: ia)
  else anyCallable c [v] || (match v with
    | .arr vs => anyCallable c vs
    | _ => false)

/-- `px.IsInstance(recv, v)` for the receivers of the `newm` op; `.error` is a raised issue -/
def initIsInstance : RecvTy → Val → Except String Bool
  | .plain t, v => .ok (inst t v)
  | .initDefault, _ => .ok true
  | .init t ia, v => match ctorOf pf t with
    | .none => .error "CTOR_NOT_FOUND"
    | .some c => .ok (initInstTest c ia v)

/-- `px.IsAssignable(Init[T, ia], o)` for a contained type `T`: false whatever `o` is (see the header) -/
def initIsAssignable (t : Ty) (_ia : List Val) (_o : Ty) : Except String Bool :=
  match ctorOf pf t with
  | .none => .error "CTOR_NOT_FOUND"
  | _ => .ok false

end

end Pcore.Dispatch.Alpha
