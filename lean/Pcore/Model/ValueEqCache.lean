import Pcore.Model.ValueEq
/-!
# The hidden state behind `Equals`, `Get`, `IncludesKey` and `ToKey` of a Hash: the lazily built index (property C07)

Core Lean only.  Mirrors `types/hashtype.go`:

| Go                                                                                   | Lean                      |
|--------------------------------------------------------------------------------------|---------------------------|
| `Hash.valueIndex` (`if hv.index == nil { for idx, entry … result[ToKey(key)] = idx }`; kept) | `buildIndex`, `CHash.valueIndex` |
| a Go `map[HashKey]int` (assignment to an existing key overwrites)                    | `idxPut`, `idxGet` (association list) |
| `Hash.get` / `Get` (`hv.entries[pos].value`)                                          | `CHash.get`               |
| `Hash.IncludesKey`                                                                    | `CHash.includesKey`       |
| `Hash.Equals` (same length; `for key, idx := range hv.valueIndex()`: the argument's index has the key and the two entries are Equal) | `CHash.equals` |
| `MutableHashValue.PutAll` (`mergeEntries` through the index, then `hv.index = nil`)   | `CHash.put`               |

Which caches a Hash / Array has is regenerated from the Go source (`Generated.cacheFacts`: `reducedType`, `detailedType`, `index`);
of those only `index` is read by the four methods above (the two type caches feed `PType` / `DetailedType`, C04's subject).
The state of the cache — absent, or built at any earlier moment — is the hidden state the property speaks about.
-/
namespace Pcore.ValueEq

/-- a Go `map[HashKey]int` -/
abbrev Index := List (Bytes × Nat)

def idxGet (m : Index) (k : Bytes) : Option Nat :=
  match m with
  | [] => none
  | (k', i) :: r => if k' == k then some i else idxGet r k

/-- `m[k] = i` -/
def idxPut (m : Index) (k : Bytes) (i : Nat) : Index :=
  match m with
  | [] => [(k, i)]
  | (k', j) :: r => if k' == k then (k', i) :: r else (k', j) :: idxPut r k i

/-- the loop of `valueIndex`: entry number `n`, `n+1`, … -/
def buildFrom (n : Nat) (m : Index) : List (Val × Val) → Index
  | [] => m
  | e :: es => buildFrom (n + 1) (idxPut m (kb e.1) n) es

def buildIndex (es : List (Val × Val)) : Index := buildFrom 0 [] es

/-- a Hash value with its hidden index (`none` = `hv.index == nil`) -/
structure CHash where
  entries : List (Val × Val)
  index : Option Index := none

/-- `hv.valueIndex()`: the cached index if there is one, else it is built and KEPT -/
def CHash.valueIndex (h : CHash) : CHash × Index :=
  match h.index with
  | some m => (h, m)
  | none => ({ h with index := some (buildIndex h.entries) }, buildIndex h.entries)

/-- what `force` in the harness does to a hash -/
def CHash.force (h : CHash) : CHash := h.valueIndex.1

/-- `hv.Get(k)` -/
def CHash.get (h : CHash) (k : Val) : CHash × Option Val :=
  let r := h.valueIndex
  (r.1, match idxGet r.2 (kb k) with
        | some i => (h.entries[i]?).map (·.2)
        | none => none)

/-- `hv.IncludesKey(k)` -/
def CHash.includesKey (h : CHash) (k : Val) : CHash × Bool :=
  let r := h.valueIndex
  (r.1, (idxGet r.2 (kb k)).isSome)

/-- `hv.entries[idx].Equals(ov.entries[ovIdx])`: a HashEntry against a HashEntry -/
def entryEq (a b : Val × Val) : Bool := veq a.1 b.1 && veq a.2 b.2

/-- `hv.Equals(ov)` -/
def CHash.equals (h o : CHash) : (CHash × CHash) × Bool :=
  let ro := o.valueIndex
  let rh := h.valueIndex
  ((rh.1, ro.1),
   h.entries.length == o.entries.length &&
   rh.2.all fun (key, idx) =>
     match idxGet ro.2 key with
     | some j =>
       (match h.entries[idx]?, o.entries[j]? with
        | some a, some b => entryEq a b
        | _, _ => false)
     | none => false)

/-- `MutableHashValue.Put`: `mergeEntries` with one entry (through the index: the entry at the indexed position is replaced, else
    the new entry is appended), then every cache is reset -/
def CHash.put (h : CHash) (k v : Val) : CHash :=
  let r := h.valueIndex
  { entries := (match idxGet r.2 (kb k) with
                | some i => h.entries.set i (k, v)
                | none => h.entries ++ [(k, v)]),
    index := none }

/-- the invariant the implementation maintains (entries are never changed behind an index: C08; `PutAll` resets it) -/
def CHash.Coherent (h : CHash) : Prop := h.index = none ∨ h.index = some (buildIndex h.entries)

end Pcore.ValueEq
