import Pcore.Model.Object
/-
  C17 model, second part — the declared schema of an object definition (`TypeObjectInitHash`, types/objecttype.go) and the
  Struct instance test `InitFromHash` starts with (`px.AssertInstance("object initializer", TypeObjectInitHash, initHash)`).

  Mirrors (file → definition):
    types/structtype.go  StructType.IsInstance      → `matchCount`, `structInst` (one pass over the MEMBERS: a missing key
                                                      must be optional, a present value must be an instance, and the number
                                                      of matched members must equal the number of entries of the hash — so a
                                                      member listed twice makes every hash holding that key fail)
    types/objecttype.go  TypeObjectInitHash         → the regenerated table `Pcore.Generated.objectSchema : Schema`
                         TypeTypeName / TypeMemberName(s) / TypeAttributes / TypeEquality → `sinst` on the value shapes an
                                                      object definition can hold (`SVal`); the source texts these rest on
                                                      are pinned by the side condition (`Schema.typeDefs`)
                         InitFromHash (first line)  → `defineChecked`
  Core-only file (linked into the driver).
-/
namespace Pcore.Object

/-- value types of the members of `TypeObjectInitHash`, as the extractor recognises them from the source text -/
inductive STy where
  | typeName | typeOrTypeName | parameters | attributes | constants | functions | equality | boolean | memberNames
  | annotations
  | unknown (src : String)
  deriving DecidableEq, Repr, Inhabited

structure Member where
  name : String
  optional : Bool
  ty : STy
  deriving DecidableEq, Repr, Inhabited

structure Schema where
  members : List Member
  /-- source text of the package-level definitions the member types rest on -/
  typeDefs : List (String × String)
  /-- keys `InitFromHash` reads from the init-hash -/
  readKeys : List String
  deriving DecidableEq, Repr, Inhabited

def wordChar (c : Char) : Bool :=
  c == '_' || ('a' ≤ c && c ≤ 'z') || ('A' ≤ c && c ≤ 'Z') || ('0' ≤ c && c ≤ '9')

/-- MemberNamePattern `\A[a-z_]\w*\z` -/
def memberName (s : String) : Bool :=
  match s.toList with
  | [] => false
  | c :: cs => (c == '_' || ('a' ≤ c && c ≤ 'z')) && cs.all wordChar

/-- TypeNamePattern `\A[A-Z][\w]*(?:::[A-Z][\w]*)*\z`: `true` = at the start of a segment -/
def typeNameGo : Bool → List Char → Bool
  | true, [] => false
  | true, c :: cs => ('A' ≤ c && c ≤ 'Z') && typeNameGo false cs
  | false, [] => true
  | false, c :: cs =>
    if c == ':' then
      match cs with
      | c' :: cs' => c' == ':' && typeNameGo true cs'
      | [] => false
    else wordChar c && typeNameGo false cs

def typeName (s : String) : Bool := typeNameGo true s.toList

/-- the values an object definition's init-hash can hold (its shape, as far as the schema looks) -/
inductive SVal where
  | str (s : String)
  | bool (b : Bool)
  | type                              -- a Type value
  | strs (l : List String)            -- an Array of strings
  | hashOf (keys : List String)       -- a Hash with these string keys whose values are types or hashes (never undef)
  deriving DecidableEq, Repr, Inhabited

/-- instance test of a member's value type on those shapes -/
def sinst : STy → SVal → Bool
  | .typeName, .str s => typeName s
  | .typeOrTypeName, .type => true
  | .typeOrTypeName, .str s => typeName s
  | .attributes, .hashOf ks => ks.all memberName          -- Hash[MemberName, NotUndef]
  | .parameters, .hashOf ks => ks.all memberName          -- Hash[MemberName, NotUndef]
  | .functions, .hashOf ks => ks.all (fun k => memberName k || k == "[]")   -- Hash[Variant[MemberName, Pattern[/^\[]$/]], NotUndef]
  | .constants, .hashOf ks => ks.all memberName           -- Hash[MemberName, Any]
  | .equality, .str s => memberName s                     -- Variant[MemberName, Array[MemberName]]
  | .equality, .strs l => l.all memberName
  | .boolean, .bool _ => true
  | .memberNames, .strs l => l.all memberName             -- Array[MemberName]
  | _, _ => false

/-- StructType.IsInstance: `none` = rejected while walking the members, `some n` = n members matched -/
def matchCount : List Member → List (String × SVal) → Option Nat
  | [], _ => some 0
  | m :: ms, h =>
    match h.lookup m.name with
    | none => if m.optional then matchCount ms h else none
    | some v => if sinst m.ty v then (matchCount ms h).map (· + 1) else none

def structInst (ms : List Member) (h : List (String × SVal)) : Bool := matchCount ms h == some h.length

/-- the init-hash of a definition as `InitFromHash` sees it: from parsed text (`type X = Object[{…}]`, `X{…}`: no `name`,
    no `parent` entry) or as a complete init-hash (both present) -/
def defHash (name : Option String) (parentKey : Bool) (d : Def) : List (String × SVal) :=
  (match name with | some n => [("name", SVal.str n)] | none => []) ++
  (if parentKey then [("parent", SVal.type)] else []) ++
  (if d.params.isEmpty then [] else [("type_parameters", SVal.hashOf (d.params.map (·.1)))]) ++
  (if d.attrs.isEmpty then [] else [("attributes", SVal.hashOf (d.attrs.map (·.name)))]) ++
  (if d.constants.isEmpty then [] else [("constants", SVal.hashOf (d.constants.map (·.1)))]) ++
  (if d.funcs.isEmpty then [] else [("functions", SVal.hashOf (d.funcs.map (·.name)))]) ++
  (match d.equality with
    | .absent => []
    | .one s => [("equality", SVal.str s)]
    | .many l => [("equality", SVal.strs l)]) ++
  (match d.includeType with | some b => [("equality_include_type", SVal.bool b)] | none => []) ++
  (match d.serialization with | some l => [("serialization", SVal.strs l)] | none => [])

/-- InitFromHash: the schema assertion first (TYPE_MISMATCH), then the definition proper.  The init-hash is tested without
    its `name` entry (the names of an op are generated by the harness and always match TypeNamePattern). -/
def defineChecked (ms : List Member) (env : List OType) (d : Def) : Except Code OType :=
  if structInst ms (defHash none d.parent.isSome d) then define env d else .error .typeMismatch

end Pcore.Object
