/-!
# Shape facts about pcore's context plumbing (property C14, tie 2) — core Lean only, standalone

`/verif/extract` (family `ctxfacts`, `extract/ctxfacts.go`) reads the Go sources with go/ast and regenerates
`Pcore/Generated/CtxFacts.lean`: one `List Act` per function, statement by statement.  This file holds the
vocabulary (`Act`), the record (`Facts`), the two tables written **by hand** from the sources (`factsNow` = /repo
HEAD, `factsBefore` = tag `verif-base`) and the decidable classification of a regenerated table.  Nothing here
executes anything: the meaning of a shape (which `Ver` of `Pcore.Model.Tls` it corresponds to) is assigned by
`Props/C14.lean`.

| Go                                                        | field of `Facts`     |
|-----------------------------------------------------------|----------------------|
| `px/context.go` `DoWithContext`                           | `doWithContext`      |
| `px/context.go` `Fork`                                    | `fork`               |
| `px/context.go` `Go`                                      | `goFn`               |
| `internal/context.go` `(*pxContext).Fork` (+ `clone`)     | `ctxFork`            |
| `internal/context.go` `(*pxContext).DoWithLoader`         | `doWithLoader`       |
| `internal/runtime.go` `(*rt).Do`                          | `rtDo`               |
| `internal/runtime.go` `(*rt).doWithRoot` (absent before)  | `rtDoWithRoot`       |
| `internal/runtime.go` `(*rt).Try`                         | `rtTry`              |
| `internal/runtime.go` `(*rt).TryWithParent`               | `rtTryWithParent`    |
| `internal/runtime.go` `(*rt).DoWithParent`, the path of a `px.Context` parent (`InitializeRuntime()` + then-branch) | `rtDoWithParentCtx` |
| `internal/runtime.go` `(*rt).RootContext`                 | `rtRootContext`      |
| `threadlocal/gid.go` `Init`, `Cleanup`, `Set`, `Get`      | `tlInit`, `tlCleanup`, `tlSet`, `tlGet` |

Conventions of the extractor (they are part of what a constructor *means*):
* names are resolved against the declaration: `‹ctx›` is the context variable in scope that is to become current
  (the parameter of `DoWithContext`, the result of `c.Fork()`, the parameter of an inner `func(root px.Context)`),
  `‹actor›` the function parameter, `‹recv›` the receiver, `‹save›` the variable bound by the save statement;
  a statement that uses another variable in that place is **not** recognised;
* in `(*pxContext).Fork` the statements `s := make([]T, len(‹recv›.stack))` and `copy(s, ‹recv›.stack)` emit nothing;
  they are what makes the later `clone.stack = s` a `stackFreshCopy`.  When `cloneStruct` is recognised and no
  statement assigns `clone.stack` (`clone.vars`), `stackAliased` (`varsAliased`) is emitted right after `cloneStruct`
  (`*clone = *c` copies the slice header / the map reference);
* a function that does not exist is `[.absent]`; anything else that is not recognised is `.unknown "<source>"`.
-/
namespace Pcore.CtxFacts

/-- recognised statements -/
inductive Act where
  -- px/context.go
  /-- `if ‹save›, ok := threadlocal.Get(PuppetContextKey); ok { thenActs } else { elseActs }` -/
  | ifGetCurrent (thenActs elseActs : List Act)
  /-- `defer func() { threadlocal.Set(PuppetContextKey, ‹save›) }()` -/
  | deferRestoreCurrent
  /-- `threadlocal.Init()` -/
  | tlInit
  /-- `defer threadlocal.Cleanup()` -/
  | deferTlCleanup
  /-- `threadlocal.Set(PuppetContextKey, ‹ctx›)` -/
  | setCurrent
  /-- `‹actor›(‹ctx›)` -/
  | callActor
  /-- `‹ctx› := ‹parent›.Fork()` (`cf := c.Fork()`, `ctx := ec.Fork()`) -/
  | forkContext
  /-- `go func() { body }()` -/
  | goStmt (body : List Act)
  /-- `Fork(CurrentContext(), ‹actor›)` -/
  | forkOfCurrent
  -- internal/context.go  (*pxContext).Fork
  /-- `clone := ‹recv›.clone()` where `clone()` is `clone := &pxContext{}; *clone = *c; clone.Context = c; return clone` -/
  | cloneStruct
  /-- `clone.loader = px.NewParentedLoader(clone.loader)` -/
  | wrapLoader
  /-- `clone.implRegistry = newParentedImplementationRegistry(clone.implRegistry)` -/
  | wrapRegistry
  /-- `clone.stack = s` with `s := make([]T, len(‹recv›.stack)); copy(s, ‹recv›.stack)` before it -/
  | stackFreshCopy
  /-- `clone.stack = ‹recv›.stack`, or `clone.stack` never assigned after `cloneStruct` -/
  | stackAliased
  /-- `if ‹recv›.vars != nil { cv := make(map[…]…, …); for k, v := range ‹recv›.vars { cv[k] = v }; clone.vars = cv }` -/
  | varsFreshCopyIfNonNil
  /-- `clone.vars = ‹recv›.vars`, or `clone.vars` never assigned after `cloneStruct` -/
  | varsAliased
  /-- `return clone` -/
  | returnClone
  -- internal/context.go  (*pxContext).DoWithLoader
  /-- `‹save› := ‹recv›.loader` -/
  | saveLoader
  /-- `defer func() { ‹recv›.loader = ‹save› }()` -/
  | deferRestoreLoader
  /-- `‹recv›.loader = ‹loader parameter›` -/
  | setLoader
  /-- `‹doer parameter›()` -/
  | callDoer
  -- internal/runtime.go
  /-- `InitializeRuntime()` -/
  | initRuntime
  /-- `‹ctx› := WithParent(context.Background(), ‹recv›.EnvironmentLoader(), ‹recv›.logger, topImplRegistry)` -/
  | newRootContext
  /-- `px.DoWithContext(‹ctx›, func(‹ctx'› px.Context) { body })` -/
  | doWithContextRoot (body : List Act)
  /-- `px.ResolveResolvables(‹ctx›)` -/
  | resolveResolvables
  /-- `‹recv›.doWithRoot(func(‹ctx› px.Context) { body })` -/
  | doWithRoot (body : List Act)
  /-- `‹recv›.DoWithParent(‹ctx›, ‹actor›)` -/
  | doWithParentRoot
  /-- `‹err› = ‹recv›.TryWithParent(‹ctx›, ‹actor›)` -/
  | tryWithParentRoot
  /-- the ORIGINAL `‹recv›.DoWithParent(‹recv›.RootContext(), ‹actor›)` -/
  | doWithParentOfRootContext
  /-- the ORIGINAL `return ‹recv›.TryWithParent(‹recv›.RootContext(), ‹actor›)` -/
  | returnTryWithParentOfRootContext
  /-- `px.DoWithContext(‹ctx›, ‹actor›)` -/
  | doWithContextActor
  /-- `defer func() { if r := recover(); r != nil { switch r := r.(type) { case error: ‹err› = r; case string:
      ‹err› = errors.New(r); default: panic(r) } } }()` -/
  | deferRecoverToError
  /-- `‹recv›.DoWithParent(‹parent›, func(c px.Context) { ‹err› = ‹actor›(c) })` -/
  | doWithParentAssignErr
  /-- bare `return` in a function whose only result is the named `‹err›` -/
  | returnNamed
  /-- `return ‹ctx›` -/
  | returnCtx
  -- threadlocal/gid.go
  /-- `gid := getg()` -/
  | getGid
  /-- `ls := make(map[string]interface{})` -/
  | makeTable
  /-- `tlsLock.Lock(); tls[gid] = ls; tlsLock.Unlock()` -/
  | tableAssignUnderLock
  /-- `tlsLock.Lock(); delete(tls, gid); tlsLock.Unlock()` -/
  | tableDeleteUnderLock
  /-- `tlsLock.RLock(); ls, ok := tls[gid]; tlsLock.RUnlock()` -/
  | tableLookupUnderRLock
  /-- `if !ok { panic(…) }` -/
  | panicIfNoTable
  /-- `ls[key] = value` -/
  | storeKey
  /-- `var found interface{}; if ok { found, ok = ls[key] }` -/
  | lookupKeyIfTable
  /-- `return found, ok` -/
  | returnFound
  -- both
  /-- the function does not exist -/
  | absent
  /-- anything else (normalised source text) -/
  | unknown (src : String)
  deriving Repr, Inhabited

namespace Act

/-- constructor number (declaration order) -/
def tag : Act → Nat
  | ifGetCurrent .. => 0 | deferRestoreCurrent => 1 | tlInit => 2 | deferTlCleanup => 3 | setCurrent => 4
  | callActor => 5 | forkContext => 6 | goStmt .. => 7 | forkOfCurrent => 8 | cloneStruct => 9 | wrapLoader => 10
  | wrapRegistry => 11 | stackFreshCopy => 12 | stackAliased => 13 | varsFreshCopyIfNonNil => 14 | varsAliased => 15
  | returnClone => 16 | saveLoader => 17 | deferRestoreLoader => 18 | setLoader => 19 | callDoer => 20
  | initRuntime => 21 | newRootContext => 22 | doWithContextRoot .. => 23 | resolveResolvables => 24
  | doWithRoot .. => 25 | doWithParentRoot => 26 | tryWithParentRoot => 27 | doWithParentOfRootContext => 28
  | returnTryWithParentOfRootContext => 29 | doWithContextActor => 30 | deferRecoverToError => 31
  | doWithParentAssignErr => 32 | returnNamed => 33 | returnCtx => 34 | getGid => 35 | makeTable => 36
  | tableAssignUnderLock => 37 | tableDeleteUnderLock => 38 | tableLookupUnderRLock => 39 | panicIfNoTable => 40
  | storeKey => 41 | lookupKeyIfTable => 42 | returnFound => 43 | absent => 44 | unknown .. => 45

/-- constructors without arguments -/
def isLeaf : Act → Bool
  | ifGetCurrent .. | goStmt .. | doWithContextRoot .. | doWithRoot .. | unknown .. => false
  | _ => true

/-- the leaf with a given number (anything for the other numbers) -/
def ofTag : Nat → Act
  | 1 => deferRestoreCurrent | 2 => tlInit | 3 => deferTlCleanup | 4 => setCurrent | 5 => callActor
  | 6 => forkContext | 8 => forkOfCurrent | 9 => cloneStruct | 10 => wrapLoader | 11 => wrapRegistry
  | 12 => stackFreshCopy | 13 => stackAliased | 14 => varsFreshCopyIfNonNil | 15 => varsAliased | 16 => returnClone
  | 17 => saveLoader | 18 => deferRestoreLoader | 19 => setLoader | 20 => callDoer | 21 => initRuntime
  | 22 => newRootContext | 24 => resolveResolvables | 26 => doWithParentRoot | 27 => tryWithParentRoot
  | 28 => doWithParentOfRootContext | 29 => returnTryWithParentOfRootContext | 30 => doWithContextActor
  | 31 => deferRecoverToError | 32 => doWithParentAssignErr | 33 => returnNamed | 34 => returnCtx | 35 => getGid
  | 36 => makeTable | 37 => tableAssignUnderLock | 38 => tableDeleteUnderLock | 39 => tableLookupUnderRLock
  | 40 => panicIfNoTable | 41 => storeKey | 42 => lookupKeyIfTable | 43 => returnFound | _ => absent

theorem ofTag_tag (x : Act) (h : x.isLeaf = true) : ofTag x.tag = x := by
  cases x <;> first | rfl | (simp [isLeaf] at h)

/-! Equality test.  Written by hand as a structural (mutual) recursion: `deriving DecidableEq` does not apply to a
type nested through `List`, and the derived `BEq` does not reduce under `decide`. -/
mutual
def beq : Act → Act → Bool
  | ifGetCurrent t₁ e₁, y => match y with
      | ifGetCurrent t₂ e₂ => beqList t₁ t₂ && beqList e₁ e₂
      | _ => false
  | goStmt b₁, y => match y with
      | goStmt b₂ => beqList b₁ b₂
      | _ => false
  | doWithContextRoot b₁, y => match y with
      | doWithContextRoot b₂ => beqList b₁ b₂
      | _ => false
  | doWithRoot b₁, y => match y with
      | doWithRoot b₂ => beqList b₁ b₂
      | _ => false
  | unknown s₁, y => match y with
      | unknown s₂ => s₁ == s₂
      | _ => false
  | x, y => x.isLeaf && y.isLeaf && x.tag == y.tag
def beqList : List Act → List Act → Bool
  | [], [] => true
  | x :: xs, y :: ys => beq x y && beqList xs ys
  | _, _ => false
end

instance : BEq Act := ⟨beq⟩

private theorem eq_of_leaf {x y : Act} (h : (x.isLeaf && y.isLeaf && x.tag == y.tag) = true) : x = y := by
  simp only [Bool.and_eq_true, beq_iff_eq] at h
  rw [← ofTag_tag x h.1.1, ← ofTag_tag y h.1.2, h.2]

mutual
theorem eq_of_beq : ∀ (x y : Act), beq x y = true → x = y
  | ifGetCurrent t₁ e₁, y, h => by
      cases y <;> simp only [beq, Bool.and_eq_true, Bool.false_eq_true] at h
      rw [eq_of_beqList _ _ h.1, eq_of_beqList _ _ h.2]
  | goStmt b₁, y, h => by
      cases y <;> simp only [beq, Bool.false_eq_true] at h
      rw [eq_of_beqList _ _ h]
  | doWithContextRoot b₁, y, h => by
      cases y <;> simp only [beq, Bool.false_eq_true] at h
      rw [eq_of_beqList _ _ h]
  | doWithRoot b₁, y, h => by
      cases y <;> simp only [beq, Bool.false_eq_true] at h
      rw [eq_of_beqList _ _ h]
  | unknown s₁, y, h => by
      cases y <;> simp only [beq, Bool.false_eq_true, beq_iff_eq] at h
      rw [h]
  | deferRestoreCurrent, _, h | tlInit, _, h | deferTlCleanup, _, h | setCurrent, _, h | callActor, _, h
  | forkContext, _, h | forkOfCurrent, _, h | cloneStruct, _, h | wrapLoader, _, h | wrapRegistry, _, h
  | stackFreshCopy, _, h | stackAliased, _, h | varsFreshCopyIfNonNil, _, h | varsAliased, _, h | returnClone, _, h
  | saveLoader, _, h | deferRestoreLoader, _, h | setLoader, _, h | callDoer, _, h | initRuntime, _, h
  | newRootContext, _, h | resolveResolvables, _, h | doWithParentRoot, _, h | tryWithParentRoot, _, h
  | doWithParentOfRootContext, _, h | returnTryWithParentOfRootContext, _, h | doWithContextActor, _, h
  | deferRecoverToError, _, h | doWithParentAssignErr, _, h | returnNamed, _, h | returnCtx, _, h | getGid, _, h
  | makeTable, _, h | tableAssignUnderLock, _, h | tableDeleteUnderLock, _, h | tableLookupUnderRLock, _, h
  | panicIfNoTable, _, h | storeKey, _, h | lookupKeyIfTable, _, h | returnFound, _, h | absent, _, h => by
      simp only [beq] at h
      exact eq_of_leaf h
theorem eq_of_beqList : ∀ (xs ys : List Act), beqList xs ys = true → xs = ys
  | [], [], _ => rfl
  | x :: xs, y :: ys, h => by
      simp only [beqList, Bool.and_eq_true] at h
      rw [eq_of_beq _ _ h.1, eq_of_beqList _ _ h.2]
  | [], _ :: _, h => by simp [beqList] at h
  | _ :: _, [], h => by simp [beqList] at h
end

mutual
theorem beq_refl : ∀ (x : Act), beq x x = true
  | ifGetCurrent t e => by simp only [beq, beqList_refl t, beqList_refl e, Bool.and_self]
  | goStmt b => by simp only [beq, beqList_refl b]
  | doWithContextRoot b => by simp only [beq, beqList_refl b]
  | doWithRoot b => by simp only [beq, beqList_refl b]
  | unknown s => by simp only [beq, BEq.rfl]
  | deferRestoreCurrent | tlInit | deferTlCleanup | setCurrent | callActor | forkContext | forkOfCurrent | cloneStruct
  | wrapLoader | wrapRegistry | stackFreshCopy | stackAliased | varsFreshCopyIfNonNil | varsAliased | returnClone
  | saveLoader | deferRestoreLoader | setLoader | callDoer | initRuntime | newRootContext | resolveResolvables
  | doWithParentRoot | tryWithParentRoot | doWithParentOfRootContext | returnTryWithParentOfRootContext
  | doWithContextActor | deferRecoverToError | doWithParentAssignErr | returnNamed | returnCtx | getGid | makeTable
  | tableAssignUnderLock | tableDeleteUnderLock | tableLookupUnderRLock | panicIfNoTable | storeKey
  | lookupKeyIfTable | returnFound | absent => by simp [beq, isLeaf]
theorem beqList_refl : ∀ (xs : List Act), beqList xs xs = true
  | [] => rfl
  | x :: xs => by simp only [beqList, beq_refl x, beqList_refl xs, Bool.and_self]
end

mutual
/-- `true` iff the statement is not, and does not contain, an `unknown`/`absent` -/
def clean : Act → Bool
  | ifGetCurrent t e => cleanList t && cleanList e
  | goStmt b => cleanList b
  | doWithContextRoot b => cleanList b
  | doWithRoot b => cleanList b
  | unknown _ => false
  | absent => false
  | _ => true
/-- `true` iff no `unknown`/`absent` occurs anywhere in the list (nested bodies included) -/
def cleanList : List Act → Bool
  | [] => true
  | x :: xs => clean x && cleanList xs
end

end Act

/-- list equality and membership through the hand-written `Act.beq` (they reduce under `decide`) -/
instance : BEq (List Act) := ⟨Act.beqList⟩

def has (xs : List Act) (a : Act) : Bool := xs.any (Act.beq a)

/-- one statement list per described function -/
structure Facts where
  doWithContext : List Act
  fork : List Act
  goFn : List Act
  ctxFork : List Act
  doWithLoader : List Act
  rtDo : List Act
  rtDoWithRoot : List Act
  rtTry : List Act
  rtTryWithParent : List Act
  rtDoWithParentCtx : List Act
  rtRootContext : List Act
  tlInit : List Act
  tlCleanup : List Act
  tlSet : List Act
  tlGet : List Act
  deriving Repr, Inhabited

def Facts.beq (f g : Facts) : Bool :=
  f.doWithContext == g.doWithContext && f.fork == g.fork && f.goFn == g.goFn && f.ctxFork == g.ctxFork &&
  f.doWithLoader == g.doWithLoader && f.rtDo == g.rtDo && f.rtDoWithRoot == g.rtDoWithRoot && f.rtTry == g.rtTry &&
  f.rtTryWithParent == g.rtTryWithParent && f.rtDoWithParentCtx == g.rtDoWithParentCtx &&
  f.rtRootContext == g.rtRootContext && f.tlInit == g.tlInit && f.tlCleanup == g.tlCleanup && f.tlSet == g.tlSet &&
  f.tlGet == g.tlGet

instance : BEq Facts := ⟨Facts.beq⟩

theorem Facts.eq_of_beq {f g : Facts} (h : (f == g) = true) : f = g := by
  cases f; cases g
  simp only [BEq.beq, Facts.beq, Bool.and_eq_true] at h
  obtain ⟨⟨⟨⟨⟨⟨⟨⟨⟨⟨⟨⟨⟨⟨h1, h2⟩, h3⟩, h4⟩, h5⟩, h6⟩, h7⟩, h8⟩, h9⟩, h10⟩, h11⟩, h12⟩, h13⟩, h14⟩, h15⟩ := h
  rw [Act.eq_of_beqList _ _ h1, Act.eq_of_beqList _ _ h2, Act.eq_of_beqList _ _ h3, Act.eq_of_beqList _ _ h4,
    Act.eq_of_beqList _ _ h5, Act.eq_of_beqList _ _ h6, Act.eq_of_beqList _ _ h7, Act.eq_of_beqList _ _ h8,
    Act.eq_of_beqList _ _ h9, Act.eq_of_beqList _ _ h10, Act.eq_of_beqList _ _ h11, Act.eq_of_beqList _ _ h12,
    Act.eq_of_beqList _ _ h13, Act.eq_of_beqList _ _ h14, Act.eq_of_beqList _ _ h15]

/-- /repo HEAD (after `fix: Do/Try left the context set and the goroutine-local table allocated; Fork copied the
parent context inside the child goroutine`), written by hand from the sources -/
def factsNow : Facts where
  doWithContext := [.ifGetCurrent [.deferRestoreCurrent] [.tlInit, .deferTlCleanup], .setCurrent, .callActor]
  fork := [.forkContext, .goStmt [.deferTlCleanup, .tlInit, .setCurrent, .callActor]]
  goFn := [.forkOfCurrent]
  ctxFork := [.cloneStruct, .wrapLoader, .wrapRegistry, .stackFreshCopy, .varsFreshCopyIfNonNil, .returnClone]
  doWithLoader := [.saveLoader, .deferRestoreLoader, .setLoader, .callDoer]
  rtDo := [.doWithRoot [.doWithParentRoot]]
  rtDoWithRoot := [.initRuntime, .newRootContext, .doWithContextRoot [.resolveResolvables, .callActor]]
  rtTry := [.doWithRoot [.tryWithParentRoot], .returnNamed]
  rtTryWithParent := [.deferRecoverToError, .doWithParentAssignErr, .returnNamed]
  rtDoWithParentCtx := [.initRuntime, .forkContext, .doWithContextActor]
  rtRootContext := [.initRuntime, .newRootContext, .tlInit, .setCurrent, .resolveResolvables, .returnCtx]
  tlInit := [.getGid, .makeTable, .tableAssignUnderLock]
  tlCleanup := [.getGid, .tableDeleteUnderLock]
  tlSet := [.getGid, .tableLookupUnderRLock, .panicIfNoTable, .storeKey]
  tlGet := [.getGid, .tableLookupUnderRLock, .lookupKeyIfTable, .returnFound]

/-- tag `verif-base` (the original code): `DoWithContext` never released the table it allocated, `Fork` copied the
parent inside the child goroutine, `Do`/`Try` ran on `RootContext()` (which sets the current context and never
restores it); `doWithRoot` did not exist -/
def factsBefore : Facts :=
  { factsNow with
    doWithContext := [.ifGetCurrent [.deferRestoreCurrent] [.tlInit], .setCurrent, .callActor]
    fork := [.goStmt [.deferTlCleanup, .tlInit, .forkContext, .setCurrent, .callActor]]
    rtDo := [.doWithParentOfRootContext]
    rtDoWithRoot := [.absent]
    rtTry := [.returnTryWithParentOfRootContext] }

inductive Shape where
  | now | before | other
  deriving DecidableEq, Repr, Inhabited

def classify (f : Facts) : Shape :=
  if f == factsNow then .now else if f == factsBefore then .before else .other

theorem classify_now {f : Facts} (h : classify f = .now) : f = factsNow := by
  unfold classify at h
  split at h
  · next hb => exact Facts.eq_of_beq hb
  · split at h <;> cases h

theorem classify_before {f : Facts} (h : classify f = .before) : f = factsBefore := by
  unfold classify at h
  split at h
  · cases h
  · split at h
    · next hb => exact Facts.eq_of_beq hb
    · cases h

/-! ## Which obligation does a table satisfy?

Every predicate is a `Bool` over the table alone and names one obligation of C14. -/

/-- `DoWithContext`: when a context was current, its restoration is deferred before the new one is set and the
actor runs -/
def restoresCurrent (f : Facts) : Bool :=
  match f.doWithContext with
  | [.ifGetCurrent t _, .setCurrent, .callActor] => t == [.deferRestoreCurrent]
  | _ => false

/-- `DoWithContext`: when nothing was current, the table it allocates (`Init`) is released by a deferred `Cleanup` -/
def releasesTable (f : Facts) : Bool :=
  match f.doWithContext with
  | [.ifGetCurrent _ e, .setCurrent, .callActor] => e == [.tlInit, .deferTlCleanup]
  | _ => false

/-- the body of the only top-level `go` statement of `Fork` -/
def goBody? : List Act → Option (List Act)
  | [.goStmt b] => some b
  | [.forkContext, .goStmt b] => some b
  | _ => none

/-- `Fork`: the parent context is copied (`c.Fork()`) by the caller, before the `go` statement, and not inside it;
`Go` passes the caller's current context -/
def forkCopiesInCaller (f : Facts) : Bool :=
  (match f.fork with
   | [.forkContext, .goStmt b] => !has b .forkContext && Act.cleanList b
   | _ => false)
  && f.goFn == [.forkOfCurrent]

/-- `Fork`: the goroutine registers the release of its table first, then allocates it, and sets the forked context
before it calls the function -/
def goroutineReleases (f : Facts) : Bool :=
  match goBody? f.fork with
  | some (.deferTlCleanup :: .tlInit :: rest) =>
      (rest == [.setCurrent, .callActor] || rest == [.forkContext, .setCurrent, .callActor])
  | _ => false

/-- `(*pxContext).Fork`: the clone gets its own stack and its own variable map and a parented loader -/
def ctxForkCopies (f : Facts) : Bool :=
  (match f.ctxFork with
   | .cloneStruct :: _ => true
   | _ => false)
  && has f.ctxFork .stackFreshCopy && has f.ctxFork .varsFreshCopyIfNonNil && has f.ctxFork .wrapLoader
  && !has f.ctxFork .stackAliased && !has f.ctxFork .varsAliased
  && f.ctxFork.getLast? == some .returnClone && Act.cleanList f.ctxFork

/-- `DoWithLoader`: the loader is saved, its restoration deferred, then replaced, then the doer runs -/
def loaderRestored (f : Facts) : Bool :=
  f.doWithLoader == [.saveLoader, .deferRestoreLoader, .setLoader, .callDoer]

/-- `Do`/`Try` run inside `doWithRoot`, which makes the new root current through `DoWithContext` (so it is restored
or released afterwards) instead of `RootContext()` -/
def doUsesScopedRoot (f : Facts) : Bool :=
  f.rtDo == [.doWithRoot [.doWithParentRoot]]
  && f.rtTry == [.doWithRoot [.tryWithParentRoot], .returnNamed]
  && f.rtDoWithRoot == [.initRuntime, .newRootContext, .doWithContextRoot [.resolveResolvables, .callActor]]

/-- `DoWithParent` with a `px.Context` parent runs the actor on a fork of the parent inside `DoWithContext`;
`TryWithParent` goes through it -/
def parentForkedAndScoped (f : Facts) : Bool :=
  f.rtDoWithParentCtx == [.initRuntime, .forkContext, .doWithContextActor]
  && f.rtTryWithParent == [.deferRecoverToError, .doWithParentAssignErr, .returnNamed]

/-- `threadlocal`: the table of tables is only touched under `tlsLock`, `Set` faults without a table -/
def tlsGuarded (f : Facts) : Bool :=
  f.tlInit == [.getGid, .makeTable, .tableAssignUnderLock]
  && f.tlCleanup == [.getGid, .tableDeleteUnderLock]
  && f.tlSet == [.getGid, .tableLookupUnderRLock, .panicIfNoTable, .storeKey]
  && f.tlGet == [.getGid, .tableLookupUnderRLock, .lookupKeyIfTable, .returnFound]

/-- all of the above -/
def allObligations (f : Facts) : Bool :=
  restoresCurrent f && releasesTable f && forkCopiesInCaller f && goroutineReleases f && ctxForkCopies f &&
  loaderRestored f && doUsesScopedRoot f && parentForkedAndScoped f && tlsGuarded f

theorem allObligations_now : allObligations factsNow = true := by decide

theorem allObligations_of_now {f : Facts} (h : classify f = .now) : allObligations f = true := by
  rw [classify_now h]; exact allObligations_now

/-- the original code fails exactly these three: `releasesTable`, `forkCopiesInCaller`, `doUsesScopedRoot` -/
theorem obligations_before :
    restoresCurrent factsBefore = true ∧ releasesTable factsBefore = false ∧
    forkCopiesInCaller factsBefore = false ∧ goroutineReleases factsBefore = true ∧
    ctxForkCopies factsBefore = true ∧ loaderRestored factsBefore = true ∧ doUsesScopedRoot factsBefore = false ∧
    parentForkedAndScoped factsBefore = true ∧ tlsGuarded factsBefore = true := by decide

example : classify factsNow = .now := by decide
example : classify factsBefore = .before := by decide
example : classify { factsNow with goFn := [.unknown "f()"] } = .other := by decide

end Pcore.CtxFacts
