import Pcore.Model.LoaderSeq
import Pcore.Model.LoaderTS
import Pcore.Model.LoaderDep
/-!
# The global level of the loaders: declared types, `ResolveResolvables`, the static loader as a writable root (property C12)

Mirrors `types/types.go` `registerResolvableType` / `PopDeclaredTypes`, `internal/context.go` `resolveResolvables` and
`internal/runtime.go` `InitializeRuntime` at HEAD; core Lean only.

| Go                                                                  | Lean                          |
|---------------------------------------------------------------------|-------------------------------|
| `types.resolvableTypes` — the process-wide list of declared, not yet resolved types | `SysQ.queue`     |
| `px.RegisterResolvableType(t)` (append)                              | `OpQ.reg`                     |
| `types.PopDeclaredTypes()` (take all, leave the list empty)           | `stepQ … (.rr l)` sets `queue := []` |
| `resolveResolvables(c)`: `l := c.Loader().(px.DefiningLoader)`; for each popped type `l.SetEntry(NewTypedName(NsType, rt.Name()), entry(rt))` — a redefinition panic ends the loop, the types behind it are lost | `rrLoop` |
| `InitializeRuntime`: `ResolveResolvables(NewContext(loader.StaticLoader, …))` — the definitions "during init" go to the static loader; every later `ResolveResolvables(c)` (`RootContext`, `Do`, `DoWithParent`) defines in `c.Loader()` | `.rr 0` on a tree whose node 0 is the static loader, `.rr l` elsewhere |
| `loader.StaticLoader` (`basicLoader` without parent): `LoadEntry = GetEntry`, `HasEntry`, `Discover`, `SetEntry`; `load` with a context ON it leaves its placeholder there | node 0 of `Sys` with `ps[0] = none` — a loader like any other |

The part of `resolveResolvables` after the `SetEntry` loop (`resolveTypes`: `Resolve` of every popped type, constructors,
annotations; declared constructors and Go functions) writes nothing a lookup of a TYPE name can see for the values used
here (aliases that are already resolved); the harness only declares such aliases.

A line has type-set leaves, dependency loaders, or neither (`stepX`).
-/
namespace Pcore.LoaderSeq

/-- one operation on a hierarchy with type-set leaves or with dependency loaders -/
def stepX (tss : List (Option TypeSet)) (dps : List (Option Mods)) (s : Sys) (op : Op) : Sys × Ans :=
  if dps.any Option.isSome then stepD dps s op else stepT tss s op

structure SysQ where
  sys : Sys
  queue : List (Name × V)
  deriving Repr, Inhabited

inductive OpQ where
  | op (o : Op)
  | reg (n : Name) (v : V)
  | rr (l : Nat)
  | addts (l : Nat) (name : String) (ver : Nat) (members : List (String × Nat))

/-- the `SetEntry` loop of `resolveResolvables` -/
def rrLoop (tss : List (Option TypeSet)) (dps : List (Option Mods)) (s : Sys) (l : Nat) : List (Name × V) → Sys × Ans
  | [] => (s, .ok)
  | (n, v) :: r =>
    match stepX tss dps s (.define l n v) with
    | (s1, .ok) => rrLoop tss dps s1 l r
    | (s1, a) => (s1, a)

/-! ### `px.AddTypes(c, typeSet)`: a type set as a provider of names

| Go                                                                  | Lean              |
|---------------------------------------------------------------------|-------------------|
| `px.AddTypes` for one resolved TypeSet: `l := c.DefiningLoader()`; `ResolveTypes(c, ts)`; then `l.SetEntry(NewTypedName(NsType, ts.Name()), entry(ts))` | `addTypeSet` |
| `internal/context.go` `resolveTypeSet`: for each member, in declaration order, `tn := NewTypedName(NsType, t.Name())` (the QUALIFIED name `Set::Member`), `le := l.LoadEntry(c, tn)`; a member the loader already knows (`le` has a value — its own or an ancestor's, whatever that value is) is SKIPPED silently; otherwise `l.SetEntry(tn, entry(t))` | `addMembers` |
| `typeSet.Equals`: name and versions only                             | `V.tset name ver` |

So "a TypeSet bound at `A` answers `A::B`" because its members are bound, one by one and under their qualified names, in
the loader the type set is added through — at that moment, and only where nothing resolved before.  A cached miss (nil
value) does not count as known (the seeded change C12-s6 made it count).  Lines with `addts` have no type-set LEAF
(`(ts …)` node); the loader addressed may sit below a dependency loader (its `LoadEntry` writes: `loadEntryD`).
-/

/-- the members of a type set as the loader will hold them: the alias `Set::Member = Integer[k,k]` -/
def memberName (tsName m : String) : Name := ⟨runtimeAuthority, "type", tsName ++ "::" ++ m⟩
def memberVal (tsName m : String) (k : Nat) : V := .al (tsName ++ "::" ++ m) k

/-- `resolveTypeSet` -/
def addMembers (dps : List (Option Mods)) (s : Sys) (l : Nat) (tsName : String) : List (String × Nat) → Sys × Ans
  | [] => (s, .ok)
  | (m, k) :: r =>
    match loadEntryD dps s (chain s.ps l) (memberName tsName m) with
    | (s1, .bad) => (s1, .reported "PCORE_INVALID_CHARACTERS_IN_NAME")
    | (s1, .ok (some (some _))) => addMembers dps s1 l tsName r            -- already known to the loader
    | (s1, .ok _) =>
      match define s1 l (memberName tsName m) (memberVal tsName m k) with
      | (s2, .ok) => addMembers dps s2 l tsName r
      | (s2, a) => (s2, a)

/-- `px.AddTypes(c, typeSet)` with `c.Loader()` = loader `l` -/
def addTypeSet (dps : List (Option Mods)) (s : Sys) (l : Nat) (tsName : String) (ver : Nat) (members : List (String × Nat)) :
    Sys × Ans :=
  match addMembers dps s l tsName members with
  | (s1, .ok) => define s1 l ⟨runtimeAuthority, "type", tsName⟩ (.tset tsName ver)
  | r => r

def stepQ (tss : List (Option TypeSet)) (dps : List (Option Mods)) (q : SysQ) : OpQ → SysQ × Ans
  | .addts l name ver members =>
    ({ q with sys := (addTypeSet dps q.sys l name ver members).1 }, (addTypeSet dps q.sys l name ver members).2)
  | .op o => ({ q with sys := (stepX tss dps q.sys o).1 }, (stepX tss dps q.sys o).2)
  | .reg n v => ({ q with queue := q.queue ++ [(n, v)] }, .ok)
  | .rr l => ({ sys := (rrLoop tss dps q.sys l q.queue).1, queue := [] }, (rrLoop tss dps q.sys l q.queue).2)

def runQ (tss : List (Option TypeSet)) (dps : List (Option Mods)) (q : SysQ) : List OpQ → SysQ × List Ans
  | [] => (q, [])
  | op :: ops =>
    let r := stepQ tss dps q op
    let r2 := runQ tss dps r.1 ops
    (r2.1, r.2 :: r2.2)

end Pcore.LoaderSeq
