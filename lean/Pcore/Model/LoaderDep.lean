import Pcore.Model.LoaderSeq
import Pcore.Model.LoaderTS
/-!
# The dependency loader inside the sequential loader model (property C12)

`px.NewDependencyLoader(modules)`: a loader WITHOUT parent that answers from its own entry map and, for a name it has no
entry for, asks its module loaders and KEEPS a value they answered in its own entry map (a miss is recorded there too, but asked
again next time).
Mirrors loader/dependency.go at HEAD; core Lean only.

| Go                                                                 | Lean                    |
|--------------------------------------------------------------------|-------------------------|
| `newDependencyLoader`: `index[ml.ModuleName()] = ml` for non-empty names, in declaration order (a later module of the same name replaces an earlier one) | `indexOf`, `indexEmpty` |
| `types/typedname.go` `Parts()`: lower-cased `::` segments, each must match `\A[A-Za-z][0-9A-Z_a-z]*\z`, else panic `InvalidCharactersInName` | `partsOf` (`none` = the panic) |
| `typedName.IsQualified` (`strings.Contains(name, "::")`)           | `isQualified`           |
| `dependencyLoader.find`: a qualified name whose first segment is an indexed module name is answered by THAT module alone (whatever it answers: nil, a cached miss, a value); otherwise the first module, in declaration order, whose `LoadEntry` has a value; otherwise the own entry (nil) | `depFind`, `depLoop` |
| `dependencyLoader.LoadEntry`: own entry if it has a VALUE; else (no entry, or a recorded miss) `find`: a value found is stored with `SetEntry` in the OWN map (over the recorded miss, if any); nothing found: the miss is recorded when there was no entry | `depLoadEntry` |
| `parentedLoader.LoadEntry` over a chain whose root may be a dependency loader (the root's `LoadEntry` writes) | `loadEntryD` |
| `load` (= `px.Load`) through such a chain                          | `loadD`                 |
| `HasEntry`, `GetEntry`, `Discover`, `SetEntry` of a dependency loader: inherited from `basicLoader` — the own map only | `LoaderSeq.step` unchanged (`stepD`) |

Shape (enforced by the driver and the harness; the table `dps` never changes, so it is a parameter like `tss`): a dependency
loader has no parent; its module loaders are plain (basic / parented) loaders declared before it whose ancestor chains hold
no dependency loader — as in `internal/runtime.go` `EnvironmentLoader`, where the modules are parented on the system loader.
Hence a chain holds at most one dependency loader, at its root, and a module's `LoadEntry` is the plain `loadEntryC`.

Quirks reproduced: a miss through the dependency loader is recorded THERE but is not final (fix 9d272bd of finding
C12-dependency-miss-sticky: the modules are asked again on the next lookup); a value is cached for good, so what the
dependency loader answered once it answers ever after, whatever its modules or their ancestors gain later; `HasEntry` and
`Discover` see only what was looked up before; a lookup through a CHILD of the dependency loader leaves the cached
miss in the dependency loader (an ancestor) as well as in the child; the index is keyed by the module name as given while
the segment is lower-cased (a module `M` is never picked by name); `Parts()` is evaluated — and may panic — only when some
module has a name and the name is qualified and the dependency loader holds no value for it yet.
-/
namespace Pcore.LoaderSeq

/-- the module loaders of a dependency loader: `ModuleName()` and the node each wraps, in declaration order -/
abbrev Mods := List (String × Nat)

/-- what a `LoadEntry` call hands back: an entry (or nil) — or the panic out of `Parts()` -/
inductive LE where
  | ok (e : Option (Option V))
  | bad
  deriving DecidableEq, Repr

def isLetter (c : Char) : Bool := ('a' ≤ c && c ≤ 'z') || ('A' ≤ c && c ≤ 'Z')
def isWord (c : Char) : Bool := isLetter c || ('0' ≤ c && c ≤ '9') || c == '_'

/-- `allowedCharacters.MatchString(part)` -/
def partOK : List Char → Bool
  | [] => false
  | c :: r => isLetter c && r.all isWord

/-- `typedName.Parts()`; `none` = panic `InvalidCharactersInName` -/
def partsOf (n : Name) : Option (List String) :=
  if (segsOf n).all (fun p => partOK p.toList) then some (segsOf n) else none

/-- `typedName.IsQualified()` -/
def isQualified (n : Name) : Bool := (segsOf n).length > 1

/-- `index[moduleName]` -/
def indexOf (mods : Mods) (name : String) : Option Nat :=
  (mods.reverse.find? fun m => m.1 == name && m.1 != "").map (·.2)

/-- `len(l.index) == 0` -/
def indexEmpty (mods : Mods) : Bool := mods.all fun m => m.1 == ""

/-- `ml.LoadEntry(c, name)` of a module loader (a plain loader on a chain without dependency loader) -/
def modLoadEntry (s : Sys) (m : Nat) (k : Key) : Option (Option V) := loadEntryC s.es (chain s.ps m) k

/-- the loop of `find`: the first module, in declaration order, that answers with a value -/
def depLoop (s : Sys) (k : Key) : Mods → Option V
  | [] => none
  | (_, m) :: r =>
    match modLoadEntry s m k with
    | some (some v) => some v
    | _ => depLoop s k r

/-- `dependencyLoader.find` -/
def depFind (s : Sys) (d : Nat) (mods : Mods) (n : Name) : LE :=
  let k := canon n
  let rest : LE :=
    match depLoop s k mods with
    | some v => .ok (some (some v))
    | none => .ok (lk k (s.ents d))                     -- "recursion … might have set the entry now"
  if !indexEmpty mods && isQualified n then
    match partsOf n with
    | none => .bad
    | some segs =>
      match indexOf mods (segs.headD "") with
      | some m => .ok (modLoadEntry s m k)               -- explicit loader for the given name takes precedence
      | none => rest
  else rest

/-- `dependencyLoader.LoadEntry` (after fix 9d272bd: a recorded miss is not final) -/
def depLoadEntry (s : Sys) (d : Nat) (mods : Mods) (n : Name) : Sys × LE :=
  match lk (canon n) (s.ents d) with
  | some (some v) => (s, .ok (some (some v)))              -- a cached VALUE is final
  | own =>                                                  -- no entry, or a recorded miss: `find` again
    match depFind s d mods n with
    | .bad => (s, .bad)
    | .ok e =>
      match e.join with
      | some v =>
        -- `entry = l.SetEntry(name, found)`: the key is absent or holds a recorded miss: stored, and handed back
        (s.setEnts d (setEntry (s.ents d) (canon n) (some v)).1, .ok (some (some v)))
      | none =>
        match own with
        | none => (s.setEnts d (setEntry (s.ents d) (canon n) none).1, .ok (some none))   -- the miss is recorded
        | _ => (s, .ok own)                                 -- the recorded miss stays and is handed back

/-- `parentedLoader.LoadEntry` along a chain whose root may be a dependency loader -/
def loadEntryD (dps : List (Option Mods)) (s : Sys) : List Nat → Name → Sys × LE
  | [], _ => (s, .ok none)
  | l :: anc, n =>
    match dps.getD l none with
    | some mods => depLoadEntry s l mods n
    | none =>
      match loadEntryD dps s anc n with
      | (s1, .bad) => (s1, .bad)
      | (s1, .ok (some (some v))) => (s1, .ok (some (some v)))
      | (s1, .ok _) => (s1, .ok (lk (canon n) (s1.ents l)))

/-- `px.Load(c, name)` with `c.Loader()` = loader `l` -/
def loadD (dps : List (Option Mods)) (s : Sys) (l : Nat) (n : Name) : Sys × Ans :=
  if n.auth ≠ runtimeAuthority then (s, .notfound)
  else
    match loadEntryD dps s (chain s.ps l) n with
    | (s1, .bad) => (s1, .reported "PCORE_INVALID_CHARACTERS_IN_NAME")
    | (s1, .ok none) => (s1.setEnts l (setEntry (s1.ents l) (canon n) none).1, .notfound)
    | (s1, .ok (some none)) => (s1, .notfound)
    | (s1, .ok (some (some v))) => (s1, .found v)

/-- one operation on a hierarchy some of whose roots are dependency loaders -/
def stepD (dps : List (Option Mods)) (s : Sys) : Op → Sys × Ans
  | .load l n => loadD dps s l n
  | op => step s op

def runD (dps : List (Option Mods)) (s : Sys) : List Op → Sys × List Ans
  | [] => (s, [])
  | op :: ops =>
    let r := stepD dps s op
    let r2 := runD dps r.1 ops
    (r2.1, r.2 :: r2.2)

/-- the shape the definitions above rely on: a dependency loader is a root, its modules are earlier plain loaders whose
    chains hold no dependency loader -/
def depShapeOK (ps : List (Option Nat)) (dps : List (Option Mods)) : Bool :=
  (List.range ps.length).all fun i =>
    match dps.getD i none with
    | none => true
    | some mods =>
      (ps.getD i none).isNone &&
      mods.all fun m => decide (m.2 < i) && (chain ps m.2).all fun a => (dps.getD a none).isNone

end Pcore.LoaderSeq
