/-!
# The specification: an insertion-ordered map (property C09)

Written from the property text only, without any index: an association list searched from the front.
`key : α → κ` decides when two keys are "equal" (for `types.Hash`: `px.ToKey`, i.e. value equality — that the
key function respects equality is property C07; for `hash.StringHash`: the identity on strings).

* `put`     replaces the entry with an equal key **in place**, or appends a new entry at the end;
* `delete`  removes exactly the entries with the given key, keeping the order of the others;
* `merge`   puts the entries of the second map one by one, in their order;
* `get`     finds the value of the (first) entry with the given key;
* `ofList`  a literal is the merge of its entries into the empty map (a repeated key keeps its first
            position and takes the later value).
Core Lean only.
-/
namespace Pcore.Coll.OMap
variable {α β κ : Type} [DecidableEq κ]

def keys (key : α → κ) (m : List (α × β)) : List κ := m.map (fun e => key e.1)

/-- position of the first entry with key `k` -/
def idx (key : α → κ) : List (α × β) → κ → Option Nat
  | [], _ => none
  | e :: es, k => if key e.1 = k then some 0 else (idx key es k).map (· + 1)

def getEntry (key : α → κ) : List (α × β) → κ → Option (α × β)
  | [], _ => none
  | e :: es, k => if key e.1 = k then some e else getEntry key es k

def get (key : α → κ) (m : List (α × β)) (k : κ) : Option β := (getEntry key m k).map (·.2)

def includes (key : α → κ) (m : List (α × β)) (k : κ) : Bool := (getEntry key m k).isSome

def put (key : α → κ) : List (α × β) → α × β → List (α × β)
  | [], e => [e]
  | x :: xs, e => if key x.1 = key e.1 then e :: xs else x :: put key xs e

def delete (key : α → κ) (m : List (α × β)) (k : κ) : List (α × β) := m.filter (fun e => !decide (key e.1 = k))

def deleteAll (key : α → κ) (m : List (α × β)) (ks : List κ) : List (α × β) :=
  m.filter (fun e => !ks.contains (key e.1))

def merge (key : α → κ) (a b : List (α × β)) : List (α × β) := b.foldl (put key) a

def ofList (key : α → κ) (l : List (α × β)) : List (α × β) := merge key [] l

/-! ### entry lists that are NOT ordered maps (a repeated key): what the later entry is -/

/-- the LAST entry with key `k` -/
def getLast (key : α → κ) : List (α × β) → κ → Option (α × β)
  | [], _ => none
  | e :: es, k =>
    match getLast key es k with
    | some x => some x
    | none => if key e.1 = k then some e else none

/-- position of the LAST entry with key `k` -/
def lidx (key : α → κ) : List (α × β) → κ → Option Nat
  | [], _ => none
  | e :: es, k =>
    match lidx key es k with
    | some i => some (i + 1)
    | none => if key e.1 = k then some 0 else none

end Pcore.Coll.OMap
