import Pcore.Model.StringHash
/-!
# Facts regenerated from hash/stringhash.go, and the StringHash model driven by them

`/verif/extract` (family `stringhash`) rewrites `Pcore/Generated/StringHashFacts.lean` on every check run: a
literal `ShFacts`.  What the facts mean lives here:

* `ShOK` — the decidable side condition: every method that writes a field of the receiver is one of
  `Put`/`Delete`/`ComputeIfAbsent` (which test `h.frozen` before their first write) or `Freeze` (writes only
  the flag); every other method writes nothing, hands no receiver state to other code and reads only what
  the model's observer reads; Delete erases the key, re-numbers with `index[k] = v - 1` for `v > p` and
  rebuilds the entries without position `p`; the miss path sets `index[key] = len(entries)` *before* the
  append; Copy builds a fresh slice and a fresh map and answers an unfrozen hash; Merge = Copy + PutAll;
  PutAll = Put of each entry; Get/Includes go through the index.
* `stepSHT facts` — the model **driven by the facts**: the position of the frozen test, the re-numbering
  function, the order of the miss path and Copy's flag are taken from the table, so a changed source
  changes what the model does (the driver runs `stepSHT Generated.shFacts`).
* `stepSHT_eq` (Proofs) — for ANY table with `ShOK`, `stepSHT facts = stepSH`; the C09 theorems are stated
  for any such table and instantiated on the generated one by `decide`.
Core Lean only.
-/
namespace Pcore.Coll
open GoMap

inductive Field where
  | entries | index | frozen
  | other (what : String)
  deriving DecidableEq, Repr

/-- where a method tests `h.frozen` -/
inductive Guard where
  | atStart                   -- first statement
  | afterHit                  -- right after `if p, ok := h.index[key]; ok { return … }`
  | none
  | unknown (src : String)
  deriving DecidableEq, Repr

/-- the body of `for k, v := range index { if v > p { … } }` in Delete -/
inductive Renum where
  | decAbove                  -- index[k] = v - 1
  | pMinus1Above              -- index[k] = p - 1   (the defect fixed by c7ffca4)
  | unknown (src : String)
  deriving DecidableEq, Repr

/-- the two statements that add a new key -/
inductive MissPath where
  | indexLenThenAppend        -- h.index[key] = len(h.entries); h.entries = append(h.entries, …)
  | appendThenIndexLen        -- the other way round: the index would point one past the entry
  | unknown (src : String)
  deriving DecidableEq, Repr

structure ShMethod where
  name : String
  guard : Guard
  writes : List Field
  reads : List Field
  calls : List String
  deriving DecidableEq, Repr

structure ShFacts where
  methods : List ShMethod
  renum : Renum
  deleteErasesKey : Bool
  deleteCutsEntry : Bool
  putMiss : MissPath
  ciaMiss : MissPath
  putHitReplacesValue : Bool
  copyFrozen : Option Bool
  copyFresh : Bool
  mergeIsCopyPutAll : Bool
  putAllIsPutEach : Bool
  getViaIndex : Bool
  includesViaIndex : Bool
  newIsEmptyUnfrozen : Bool
  emptyIsFrozen : Bool

namespace ShFacts

def method? (f : ShFacts) (n : String) : Option ShMethod := f.methods.find? (·.name == n)

def guardOf (f : ShFacts) (n : String) : Guard :=
  match f.method? n with
  | some m => m.guard
  | none => .unknown "no such method"

/-- the observers of the model and the only fields each may read -/
def observers : List (String × List Field) :=
  [("AllPair", [.entries]), ("AnyPair", [.entries]), ("EachKey", [.entries]), ("EachPair", [.entries]),
   ("EachValue", [.entries]), ("Empty", [.entries]), ("Keys", [.entries]), ("Values", [.entries]), ("Len", [.entries]),
   ("Frozen", [.frozen]), ("Includes", [.index]), ("Get", [.entries, .index]), ("GetOrDefault", [.entries, .index]),
   ("Equals", [.entries]), ("Copy", [.entries, .index]), ("Merge", []), ("PutAll", [])]

def subset (a b : List Field) : Bool := a.all (b.contains ·)

def methodOK (m : ShMethod) : Bool :=
  if m.name = "Put" then m.guard = .atStart && subset m.writes [.entries, .index] && m.calls = []
  else if m.name = "Delete" then m.guard = .atStart && subset m.writes [.entries, .index] && m.calls = []
  else if m.name = "ComputeIfAbsent" then m.guard = .afterHit && subset m.writes [.entries, .index] && m.calls = []
  else if m.name = "Freeze" then m.writes = [.frozen] && m.calls = []
  else
    match observers.find? (·.1 == m.name) with
    | some (_, reads) =>
      m.writes = [] && subset m.reads reads &&
        (if m.name = "Merge" then m.calls = ["Copy"] else if m.name = "PutAll" then m.calls = ["Put"] else m.calls = [])
    | none => false              -- a method the model does not know

def hasAll (f : ShFacts) : Bool :=
  (["Put", "Delete", "ComputeIfAbsent", "Freeze"] ++ observers.map (·.1)).all fun n => (f.method? n).isSome

end ShFacts

/-- the side condition under which `stepSHT facts` is the model the C09 theorems are about -/
def ShOK (f : ShFacts) : Bool :=
  f.methods.all ShFacts.methodOK && f.hasAll &&
  f.renum = .decAbove && f.deleteErasesKey && f.deleteCutsEntry &&
  f.putMiss = .indexLenThenAppend && f.ciaMiss = .indexLenThenAppend && f.putHitReplacesValue &&
  f.copyFrozen = some false && f.copyFresh && f.mergeIsCopyPutAll && f.putAllIsPutEach &&
  f.getViaIndex && f.includesViaIndex && f.newIsEmptyUnfrozen && f.emptyIsFrozen

/-! ### the model driven by the facts -/

def Renum.apply : Renum → Nat → Nat → Nat
  | .decAbove, p, v => if v > p then v - 1 else v
  | .pMinus1Above, p, v => if v > p then p - 1 else v    -- Go stores -1 for p = 0; here 0 (only used to show the defect)
  | .unknown _, _, v => v

def Guard.rejectsAtStart (g : Guard) (frozen : Bool) : Bool :=
  match g with
  | .atStart => frozen
  | _ => false

def Guard.rejectsAfterHit (g : Guard) (frozen : Bool) : Bool :=
  match g with
  | .afterHit => frozen
  | _ => false

namespace SH
variable {β : Type}

def appendT (mp : MissPath) (h : SH β) (k : String) (v : β) : SH β :=
  match mp with
  | .appendThenIndexLen => { h with index := set h.index k (h.entries.length + 1), entries := h.entries ++ [(k, v)] }
  | _ => h.append k v

def putT (f : ShFacts) (h : SH β) (k : String) (v : β) : SH β × Out β :=
  if (f.guardOf "Put").rejectsAtStart h.frozen then (h, .rejected) else
  match GoMap.get h.index k with
  | some p =>
    match h.entries[p]? with
    | some e => ({ h with entries := h.entries.set p (e.1, v) }, .val e.2)
    | none => (h, .fault)
  | none => if (f.guardOf "Put").rejectsAfterHit h.frozen then (h, .rejected) else (appendT f.putMiss h k v, .none)

def deleteT (f : ShFacts) (h : SH β) (k : String) : SH β × Out β :=
  if (f.guardOf "Delete").rejectsAtStart h.frozen then (h, .rejected) else
  match GoMap.get h.index k with
  | some p =>
    match h.entries[p]? with
    | some e =>
      ({ h with index := mapVals (f.renum.apply p) (if f.deleteErasesKey then erase h.index k else h.index),
                entries := h.entries.eraseIdx p }, .val e.2)
    | none => (h, .fault)
  | none => (h, .none)

def computeIfAbsentT (f : ShFacts) (h : SH β) (k : String) (dflt : β) : SH β × Out β :=
  if (f.guardOf "ComputeIfAbsent").rejectsAtStart h.frozen then (h, .rejected) else
  match GoMap.get h.index k with
  | some p =>
    match h.entries[p]? with
    | some e => (h, .val e.2)
    | none => (h, .fault)
  | none =>
    if (f.guardOf "ComputeIfAbsent").rejectsAfterHit h.frozen then (h, .rejected) else (appendT f.ciaMiss h k dflt, .val dflt)

def copyT (f : ShFacts) (h : SH β) : SH β := { h with frozen := f.copyFrozen.getD h.frozen }

def putAllT (f : ShFacts) (h : SH β) : List (String × β) → SH β × Out β
  | [] => (h, .unit)
  | e :: es =>
    match h.putT f e.1 e.2 with
    | (h', .rejected) => (h', .rejected)
    | (h', .fault) => (h', .fault)
    | (h', _) => putAllT f h' es

def mergeT (f : ShFacts) (h : SH β) (other : List (String × β)) : SH β × Out β := (h.copyT f).putAllT f other

end SH

def stepSHT {β : Type} (f : ShFacts) (h : SH β) : SOp β → SH β × Out β
  | .put k v => h.putT f k v
  | .delete k => h.deleteT f k
  | .get k => (h, h.get k)
  | .includes k => (h, boolOut (h.includes k))
  | .cia k v => h.computeIfAbsentT f k v
  | .copy => (h.copyT f, .unit)
  | .merge o => h.mergeT f o
  | .putAll o => h.putAllT f o
  | .freeze => (h.freeze, .unit)

def runSHT {β : Type} (f : ShFacts) (h : SH β) : List (SOp β) → List (Out β × List (String × β) × Bool) × SH β
  | [] => ([], h)
  | op :: ops =>
    let r := stepSHT f h op
    let t := runSHT f r.1 ops
    ((r.2, r.1.pairs, r.1.frozen) :: t.1, t.2)

end Pcore.Coll
