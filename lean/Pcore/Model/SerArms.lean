/-
  C10 — the types of the fact family `serarms` (extract/serarms.go → Pcore/Generated/SerArms.lean): the emit discipline
  of serialization/serializer.go as statement lists.  Core-only.
-/
namespace Pcore.Ser

/-- one statement of an emit primitive (`addData` / `addArray` / `addHash`) -/
inductive EAct where
  | incr                      -- sc.refIndex++
  | consume (m : String)      -- sc.consumer.<m>(…)   (for containers the children are emitted inside this call)
  | unknown (src : String)
  deriving DecidableEq, Repr, Inhabited

/-- what the de-duplication wrapper does in the branch that runs the emitter -/
inductive ProcShape where
  | recordAfter               -- pos := refIndex; doer(); if refIndex > pos { if not recorded { values[v] = pos } }
  | recordBefore              -- values[v] = refIndex; doer()                    (the code before the fix)
  | unknown (src : String)
  deriving DecidableEq, Repr, Inhabited

/-- one arm of toData's type switch -/
structure Arm where
  types : List String
  wrapped : Bool              -- the arm's first statement is the wrapper call
  calls : List String         -- methods of the receiver called in the arm (sorted; the wrapper is called "process")
  deriving DecidableEq, Repr, Inhabited

structure SerArms where
  addData : List EAct
  addArray : List EAct
  addHash : List EAct
  process : ProcShape
  stray : List String         -- consumer calls / refIndex writes outside the primitives and the wrapper
  toDataArms : List Arm
  hashCalls : List String     -- receiver methods called by valueToDataHash
  hashProcessSites : Nat      -- wrapper call sites in valueToDataHash
  helperCalls : List (String × List String)   -- receiver methods called by the other emitting helpers
  deriving Repr, Inhabited

/-- how the model executes the primitives: increments before / after the consumer call, and when the wrapper records -/
structure Emit where
  dataPre : Nat
  dataPost : Nat
  arrPre : Nat
  arrPost : Nat
  hashPre : Nat
  hashPost : Nat
  recordAfter : Bool
  deriving DecidableEq, Repr, Inhabited

/-- the discipline the theorems are proved for -/
def Emit.std : Emit := ⟨1, 0, 1, 0, 1, 0, true⟩

def incrsBefore : List EAct → Nat
  | [] => 0
  | .incr :: as => 1 + incrsBefore as
  | .consume _ :: _ => 0
  | .unknown _ :: as => incrsBefore as

def incrsAfter : List EAct → Nat
  | [] => 0
  | .consume _ :: as => as.countP (· == .incr)
  | _ :: as => incrsAfter as

def emitOf (a : SerArms) : Emit :=
  { dataPre := incrsBefore a.addData, dataPost := incrsAfter a.addData,
    arrPre := incrsBefore a.addArray, arrPost := incrsAfter a.addArray,
    hashPre := incrsBefore a.addHash, hashPost := incrsAfter a.addHash,
    recordAfter := a.process != .recordBefore }

/-- the arms the model's `toData` transcribes (types, wrapped in `process`?, receiver methods called) -/
def expectedArms : List Arm := [
  { types := ["*types.UndefValue", "px.Integer", "px.Float", "px.Boolean"], wrapped := false, calls := ["addData"] },
  { types := ["px.StringValue"], wrapped := false, calls := ["addData", "process"] },
  { types := ["*types.DefaultValue"], wrapped := false, calls := ["addHash", "pathToString", "toData"] },
  { types := ["*types.Hash"], wrapped := false, calls := ["addHash", "nonStringKeyedHashToData", "process", "toData", "withPath"] },
  { types := ["*types.Array"], wrapped := true, calls := ["addArray", "process", "toData", "withPath"] },
  { types := ["*types.Sensitive"], wrapped := true, calls := ["addHash", "process", "toData", "unknownToStringWithWarning", "withPath"] },
  { types := ["*types.Binary"], wrapped := true, calls := ["addData", "addHash", "process", "toData", "unknownToStringWithWarning"] },
  { types := ["default"], wrapped := false, calls := ["unknownToStringWithWarning", "valueToDataHash"] }]

def expectedHashCalls : List String :=
  ["addHash", "isKnownType", "pcoreTypeToData", "process", "toData", "unknownToStringWithWarning", "withPath"]

def expectedHelperCalls : List (String × List String) := [
  ("nonStringKeyedHashToData", ["addHash", "process", "toData", "toKeyExtendedHash", "unknownToStringWithWarning", "withPath"]),
  ("toKeyExtendedHash", ["addArray", "addHash", "process", "toData", "withPath"]),
  ("unknownToStringWithWarning", ["pathToString", "toData"]),
  ("pcoreTypeToData", ["isKnownType", "toData"])]

/-- the decidable side condition: every consumer position is paired with exactly one increment made BEFORE the
    consumer call (so the children of a container see the advanced counter), AddRef with none, the wrapper records
    after the emitter and only when a position was consumed, nothing emits behind the primitives' back, and the arms
    are the ones the model transcribes -/
def SerArmsOK (a : SerArms) : Bool :=
  a.addData == [.incr, .consume "Add"] && a.addArray == [.incr, .consume "AddArray"] &&
  a.addHash == [.incr, .consume "AddHash"] && a.process == .recordAfter && a.stray == [] &&
  a.toDataArms == expectedArms && a.hashCalls == expectedHashCalls && a.hashProcessSites == 6 &&
  a.helperCalls == expectedHelperCalls

end Pcore.Ser
