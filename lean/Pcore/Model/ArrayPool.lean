import Pcore.Model.ArrayImpl
import Pcore.Model.CollSpec
/-!
# A history over a pool of `types.Array` values, executed by the implementation model

The same steps `AOp` as the specification machine `stepASpec` (Model/CollSpec.lean), executed with the
loops of `Pcore.Model.ArrayImpl`.  Core Lean only.
-/
namespace Pcore.Coll
variable {α κ : Type} [DecidableEq κ]

def stepAImpl (key : α → κ) (le : α → α → Bool) (pool : List (List α)) : AOp α → List (List α) × AObs α
  | .lit vs => (pool ++ [vs], .made)
  | .add i v =>
    match pool[i]? with
    | some a => (pool ++ [Arr.add a v], .made)
    | none => (pool, .badRef)
  | .addAll i j =>
    match pool[i]?, pool[j]? with
    | some a, some b => (pool ++ [Arr.addAll a b], .made)
    | _, _ => (pool, .badRef)
  | .delete i v =>
    match pool[i]? with
    | some a => (pool ++ [Arr.delete key a v], .made)
    | none => (pool, .badRef)
  | .deleteAll i j =>
    match pool[i]?, pool[j]? with
    | some a, some b => (pool ++ [Arr.deleteAll key a b], .made)
    | _, _ => (pool, .badRef)
  | .slice i x y =>
    match pool[i]? with
    | some a =>
      match Arr.slice a x y with
      | some s => (pool ++ [s], .made)
      | none => (pool, .fault)
    | none => (pool, .badRef)
  | .unique i =>
    match pool[i]? with
    | some a => (pool ++ [Arr.unique key a], .made)
    | none => (pool, .badRef)
  | .sort i =>
    match pool[i]? with
    | some a => (pool ++ [Arr.sort le a], .made)
    | none => (pool, .badRef)
  | .eachSlice i n =>
    match pool[i]? with
    | some a =>
      match Arr.eachSlice n a with
      | some cs => (pool, .chunks cs)
      | none => (pool, .illegal)
    | none => (pool, .badRef)
  | .at i n =>
    match pool[i]? with
    | some a => (pool, .got (Arr.atInt a n))
    | none => (pool, .badRef)
  | .len i =>
    match pool[i]? with
    | some a => (pool, .num a.length)
    | none => (pool, .badRef)
  | .find i v =>
    match pool[i]? with
    | some a => (pool, .got (Arr.find (fun e => decide (key e = key v)) a))
    | none => (pool, .badRef)
  | .view i =>
    match pool[i]? with
    | some a => (pool, .elems a)
    | none => (pool, .badRef)

def runAImpl (key : α → κ) (le : α → α → Bool) (pool : List (List α)) : List (AOp α) → List (AObs α) × List (List α)
  | [] => ([], pool)
  | op :: ops =>
    let r := stepAImpl key le pool op
    let t := runAImpl key le r.1 ops
    (r.2 :: t.1, t.2)

end Pcore.Coll
