/-!
# Collections, pure layer (properties C08 / C09): values, List / OrderedMap operations as pure functions

Core Lean only (linked into the compiled driver).  An array value is a `List Val`; a hash value is a `List Val` whose
elements are `.ent k v` (Go: `[]*HashEntry`; a `*HashEntry` is itself a `px.Value`, which is why `Array.AddAll(hash)`
yields an array of entries).  Every operation of the model mirrors the Go method of the same name AS IT IS NOW
(after the `fix:` commits), including which `return` statement is taken — the return *site* is what the
implementation layer (`Model/SliceHeap.lean`) looks up in the regenerated idiom table.

Go function → Lean definition
* `types/arraytype.go` `Array.Add` → `opSem` case `add` (`xs ++ [x]`), `AddAll` → `addAll`, `Delete`/`Reject` → `arrDelete`,
  `DeleteAll` → `arrDeleteAll`, `Slice` → `Out.window`, `Map`/`Select`/`Reject` → `List.map`/`List.filter`,
  `Sort` → `sortVals`, `Flatten`/`flattenElements` → `Val.flat`/`flatL` (site r1 = "nothing to flatten: the receiver"),
  `Unique` → `dedupe` (sites r0: fewer than two elements, r1: nothing removed — both answer the receiver)
* `types/hashtype.go` `Hash.valueIndex` → `idxOf` (last position of a key), `mergeEntries` → `mergeEntries`,
  `Delete` → `hashDelete?`, `DeleteAll` → `hashDeleteAll?`, `Add`/`AddAll` → `merge` of a singleton / of a hash,
  `Map`, `MapValues`, `Select`, `Reject`, `SelectPairs`, `RejectPairs`, `Sort`, `Flatten`, `Unique`, `Keys`, `Values`,
  `Entries`, `Slice`; `MutableHashValue.Put/PutAll` → `Op.mput`/`mputAll` (a NEW pool entry; the old one is retired);
  `MutableHashValue.Delete/DeleteAll/Entries/Unique` (own methods since /repo 1d333d3: never the builder itself, a frozen
  copy or the Hash method's fresh result) → sites `mutDelete`/`mutDeleteAll`/`mutEntries`/`mutUnique`
* `types/types.go` `px.ToKey` (after "fix: hash keys of containers delimit their elements …") → `Val.key`: a two-element
  array and a hash entry have the same key, a hash's key does not depend on entry order.  `Equals` is modelled as equality
  of keys (their agreement is property C07's subject).
* harness conventions (`harness/c08/c08.go`): markers `~` inapplicable, `!` fault (Go panic), `^` slice bounds outside
  `0 ≤ i ≤ j ≤ len`, `-` observer; mapper / predicate / comparator alphabets `Fn`, `Pred`, `Val.render` order.
-/
namespace Pcore.Heap

inductive Val where
  | int (i : Int)
  | str (s : String)
  | undef
  | arr (xs : List Val)
  | hsh (es : List Val)        -- elements are `.ent k v`
  | ent (k v : Val)
  deriving Repr, Inhabited

/-- stable insertion sort (structural, so that the kernel can evaluate it on literals; lists here are short) -/
def insertBy {α : Type} (le : α → α → Bool) (x : α) : List α → List α
  | [] => [x]
  | y :: ys => if le x y then x :: y :: ys else y :: insertBy le x ys
def isortBy {α : Type} (le : α → α → Bool) : List α → List α
  | [] => []
  | x :: xs => insertBy le x (isortBy le xs)

def hexDigit (n : Nat) : Char :=
  if n < 10 then Char.ofNat (48 + n) else Char.ofNat (87 + n)

def hexOf (s : String) : String :=
  String.ofList (s.toUTF8.toList.flatMap fun b => [hexDigit (b.toNat / 16), hexDigit (b.toNat % 16)])

mutual
/-- canonical text (the harness's element walk); also the total order used for `Sort` -/
def Val.render : Val → String
  | .int i => s!"(i {i})"
  | .str s => "(s x" ++ hexOf s ++ ")"
  | .undef => "(u)"
  | .arr xs => "(a" ++ renderL xs ++ ")"
  | .hsh es => "(h" ++ renderH es ++ ")"
  | .ent k v => "(e " ++ k.render ++ " " ++ v.render ++ ")"
def renderL : List Val → String
  | [] => ""
  | x :: xs => " " ++ x.render ++ renderL xs
def renderH : List Val → String
  | [] => ""
  | .ent k v :: es => " (" ++ k.render ++ " " ++ v.render ++ ")" ++ renderH es
  | x :: es => " " ++ x.render ++ renderH es
end

mutual
/-- `px.ToKey`: equal values ⇔ equal keys (C07); an entry keys like the two-element array, a hash independent of order -/
def Val.key : Val → String
  | .int i => s!"i{i};"
  | .str s => s!"s{s.length}:{s}"
  | .undef => "u;"
  | .arr xs => "a(" ++ String.join (keyL xs) ++ ")"
  | .ent k v => "a(" ++ k.key ++ v.key ++ ")"
  | .hsh es => "h(" ++ String.join (isortBy (fun a b => decide (a ≤ b)) (keyL es)) ++ ")"
def keyL : List Val → List String
  | [] => []
  | x :: xs => x.key :: keyL xs
end

mutual
/-- `flattenElements`: arrays and hash entries are spliced recursively, hashes are not -/
def Val.flat : Val → List Val
  | .arr xs => flatL xs
  | .ent k v => k.flat ++ v.flat
  | v => [v]
def flatL : List Val → List Val
  | [] => []
  | x :: xs => x.flat ++ flatL xs
end

def Val.isNested : Val → Bool
  | .arr _ => true
  | .ent _ _ => true
  | _ => false

def hasDupStr : List String → Bool
  | [] => false
  | x :: xs => xs.contains x || hasDupStr xs

def entKey : Val → Val
  | .ent k _ => k
  | v => v
def entVal : Val → Val
  | .ent _ v => v
  | v => v

mutual
/-- a hash literal with two equal keys is outside this model (C09's subject) -/
def Val.dupKeys : Val → Bool
  | .hsh es => dupKeysL es || hasDupStr (entKeysL es)
  | .arr xs => dupKeysL xs
  | .ent k v => k.dupKeys || v.dupKeys
  | _ => false
def dupKeysL : List Val → Bool
  | [] => false
  | x :: xs => x.dupKeys || dupKeysL xs
def entKeysL : List Val → List String
  | [] => []
  | .ent k _ :: es => k.key :: entKeysL es
  | x :: es => x.key :: entKeysL es
end

/-! ### functions handed to Map / Select / Sort by the harness -/

inductive Fn | id | inc | wrap | k1 deriving Repr, DecidableEq
inductive Pred | all | none | isint | eq1 | iscoll deriving Repr, DecidableEq

def Fn.app : Fn → Val → Val
  | .id, v => v
  | .inc, .int i => .int (i + 1)
  | .inc, v => v
  | .wrap, v => .arr [v]
  | .k1, _ => .int 1

def Pred.app : Pred → Val → Bool
  | .all, _ => true
  | .none, _ => false
  | .isint, .int _ => true
  | .isint, _ => false
  | .eq1, v => v.key == (Val.int 1).key
  | .iscoll, .arr _ => true
  | .iscoll, .hsh _ => true
  | .iscoll, .ent _ _ => true
  | .iscoll, _ => false

def sortVals (xs : List Val) : List Val := isortBy (fun a b => decide (a.render ≤ b.render)) xs
def sortEnts (es : List Val) : List Val := isortBy (fun a b => decide ((entKey a).render ≤ (entKey b).render)) es

/-! ### pure List operations -/

def arrDelete (xs : List Val) (x : Val) : List Val := xs.filter (fun e => e.key != x.key)
def arrDeleteAll (xs ys : List Val) : List Val := xs.filter (fun e => !(ys.any (fun o => e.key == o.key)))

/-- `Unique`: first occurrence of every key, in order -/
def dedupeAux : List String → List Val → List Val
  | _, [] => []
  | seen, x :: xs => if seen.contains x.key then dedupeAux seen xs else x :: dedupeAux (x.key :: seen) xs
def dedupe (xs : List Val) : List Val := dedupeAux [] xs

/-! ### pure OrderedMap operations -/

/-- `valueIndex`: position of the key (the last one, should a key occur twice) -/
def idxOfAux (k : String) : List Val → Nat → Option Nat → Option Nat
  | [], _, acc => acc
  | e :: es, i, acc => idxOfAux k es (i + 1) (if (entKey e).key == k then some i else acc)
def idxOf (es : List Val) (k : String) : Option Nat := idxOfAux k es 0 none

/-- `mergeEntries`: copy the receiver, then replace in place (position from the RECEIVER's index) or append -/
def mergeEntries (es os : List Val) : List Val :=
  os.foldl (fun all e => match idxOf es (entKey e).key with
    | some i => all.set i e
    | none => all ++ [e]) es

def keepIdx (del : List Nat) : List Val → Nat → List Val
  | [], _ => []
  | e :: es, i => if del.contains i then keepIdx del es (i + 1) else e :: keepIdx del es (i + 1)

/-- `Hash.new(tree, 'tree')` (hashtype.go, first Go constructor of `Hash`): put `v` at `path`, creating nested hashes on
    the way; an existing non-hash value on the way makes the item a no-op.  After "fix: Hash.new(tree) answered a hash
    whose nested hashes are MutableHashValues" the nested builders are frozen into plain hashes, which is what this
    pure function yields. -/
def treeInsert : List Val → List Val → Val → List Val
  | es, [], _ => es
  | es, [k], v => mergeEntries es [.ent k v]
  | es, k :: rest, v =>
    match idxOf es k.key with
    | some i =>
      match es[i]? with
      | some (.ent _ (.hsh inner)) => mergeEntries es [.ent k (.hsh (treeInsert inner rest v))]
      | _ => es
    | none => mergeEntries es [.ent k (.hsh (treeInsert [] rest v))]

def treeBuild (items : List Val) : List Val :=
  items.foldl (fun es item => match item with
    | .arr [.arr path, v] => treeInsert es path v
    | _ => es) []

def isStr : Val → Bool
  | .str _ => true
  | _ => false

/-- the inputs of `tree` the harness admits: a non-empty array of `[path, int]` with non-empty paths of strings -/
def treeShape : Val → Bool
  | .arr (it :: its) => (it :: its).all fun item => match item with
    | .arr [.arr (k :: ks), .int _] => (k :: ks).all isStr
    | _ => false
  | _ => false

/-- `WrapHashFromArray` (hashtype.go): when the array's inferred element type is an Array type — i.e. it is non-empty and
    every element is an array or a hash entry — each element must be a pair `[k, v]`; otherwise the elements are taken
    two by two.  `none` = the Go code raises an argument error.  Equal keys are NOT merged. -/
def isPairish : Val → Bool
  | .arr _ => true
  | .ent _ _ => true
  | _ => false
def pairOf : Val → Option Val
  | .arr [k, v] => some (.ent k v)
  | .ent k v => some (.ent k v)
  | _ => none
def twoByTwo : List Val → Option (List Val)
  | [] => some []
  | [_] => none
  | k :: v :: rest => (twoByTwo rest).map (fun es => .ent k v :: es)
def pairsOfArray (ys : List Val) : Option (List Val) :=
  if !ys.isEmpty && ys.all isPairish then ys.mapM pairOf else twoByTwo ys

def pairsFlat : List Val → List Val
  | [] => []
  | e :: es => entKey e :: entVal e :: pairsFlat es

/-! ### histories -/

inductive Kind | arr | hsh | mut deriving Repr, DecidableEq

def Kind.isHash : Kind → Bool
  | .arr => false
  | _ => true

/-- an element argument: a literal or the pool value `n` itself -/
inductive Elem
  | lit (v : Val)
  | ref (n : Nat)
  deriving Repr

inductive Op
  | lit (v : Val) | parse (v : Val) | coll (cap : Int) (v : Val) | mnew | tree (v : Val)
  | add (r : Nat) (x : Elem) | addAll (r s : Nat) | delete (r : Nat) (x : Elem) | deleteAll (r s : Nat)
  | slice (r : Nat) (i j : Int) | map (r : Nat) (f : Fn) | select (r : Nat) (p : Pred) | reject (r : Nat) (p : Pred)
  | sort (r : Nat) | flatten (r : Nat) | unique (r : Nat) | at (r : Nat) (i : Int)
  | merge (r s : Nat) | keys (r : Nat) | values (r : Nat) | entries (r : Nat) | mapValues (r : Nat) (f : Fn)
  | selectPairs (r : Nat) (p : Pred) | rejectPairs (r : Nat) (p : Pred)
  | mput (r : Nat) (k v : Elem) | mputAll (r s : Nat) | get (r : Nat) (x : Elem)
  | chunk (r : Nat) (n k : Int)            -- the k-th slice EachSlice(n, …) hands to its consumer
  | asArray (r : Nat)
  | ser (r : Nat)                          -- serialization.NewSerializer(…).Convert(v, collector); collector.Value()
  | resolve (r : Nat)                      -- types.ResolveDeferred(c, v, scope)
  | obs (r : Nat) (s : Option Nat)          -- ptype dtype tostring tokey walk ser / equals
  deriving Repr

/-! ### return sites (keys of the regenerated idiom table), by how the result relates to the receiver -/

/-- sites whose result IS the receiver's value -/
inductive SameSite
  | arrFlatten1 | arrUnique0 | arrUnique1 | hashDelete1 | hashDeleteAll0 | hashUnique0 | hashEntries0
  deriving Repr, DecidableEq

/-- sites whose result is a window `[lo, hi)` of the receiver's value -/
inductive WinSite | arrSlice | hashSlice | arrEachSlice deriving Repr, DecidableEq

/-- sites whose result is a newly computed sequence -/
inductive NewSite
  | arrAdd | arrAddAll | arrDelete | arrDeleteAll | arrMap | arrSelect | arrReject | arrSort | arrFlatten0 | arrUnique2
  | hashAdd0 | hashAdd1 | hashAddAll0 | hashDelete0 | hashDeleteAll1 | hashMap | hashMapValues | hashSelect | hashReject
  | hashSelectPairs | hashRejectPairs | hashMerge | hashSort | hashFlatten0 | hashFlatten1 | hashKeys | hashValues
  | mutPutAll | hashEachSlice | hashAsArray | hashMapEntries | hashAddAll1
  /-- `MutableHashValue.Delete / DeleteAll / Entries / Unique` (after /repo 1d333d3: a frozen copy, or the fresh result of
      the Hash method) -/
  | mutDelete | mutDeleteAll | mutEntries | mutUnique
  deriving Repr, DecidableEq

/-- constructors -/
inductive CtorSite | wrapValues | wrapHash | buildArray | buildHash | newMutable | element deriving Repr, DecidableEq

def SameSite.key : SameSite → String
  | .arrFlatten1 => "Array.Flatten/r1" | .arrUnique0 => "Array.Unique/r0" | .arrUnique1 => "Array.Unique/r1"
  | .hashDelete1 => "Hash.Delete/r1" | .hashDeleteAll0 => "Hash.DeleteAll/r0" | .hashUnique0 => "Hash.Unique/r0"
  | .hashEntries0 => "Hash.Entries/r0"

def WinSite.key : WinSite → String
  | .arrSlice => "Array.Slice/r0" | .hashSlice => "Hash.Slice/r0" | .arrEachSlice => "Array.EachSlice/c0"

def NewSite.key : NewSite → String
  | .arrAdd => "Array.Add/r0" | .arrAddAll => "Array.AddAll/r0" | .arrDelete => "Array.Delete/r0"
  | .arrDeleteAll => "Array.DeleteAll/r0" | .arrMap => "Array.Map/r0" | .arrSelect => "Array.Select/r0"
  | .arrReject => "Array.Reject/r0" | .arrSort => "Array.Sort/r0" | .arrFlatten0 => "Array.Flatten/r0"
  | .arrUnique2 => "Array.Unique/r2" | .hashAdd0 => "Hash.Add/r0" | .hashAdd1 => "Hash.Add/r1"
  | .hashAddAll0 => "Hash.AddAll/r0" | .hashDelete0 => "Hash.Delete/r0" | .hashDeleteAll1 => "Hash.DeleteAll/r1"
  | .hashMap => "Hash.Map/r0" | .hashMapValues => "Hash.MapValues/r0" | .hashSelect => "Hash.Select/r0"
  | .hashReject => "Hash.Reject/r0" | .hashSelectPairs => "Hash.SelectPairs/r0" | .hashRejectPairs => "Hash.RejectPairs/r0"
  | .hashMerge => "Hash.Merge/r0" | .hashSort => "Hash.Sort/r0" | .hashFlatten0 => "Hash.Flatten/r0"
  | .hashFlatten1 => "Hash.Flatten/r1" | .hashKeys => "Hash.Keys/r0" | .hashValues => "Hash.Values/r0"
  | .mutPutAll => "MutableHashValue.PutAll/a0" | .hashEachSlice => "Hash.EachSlice/c0" | .hashAsArray => "Hash.AsArray/r0"
  | .hashMapEntries => "Hash.MapEntries/r0" | .hashAddAll1 => "Hash.AddAll/r1"
  | .mutDelete => "MutableHashValue.Delete/r0" | .mutDeleteAll => "MutableHashValue.DeleteAll/r0"
  | .mutEntries => "MutableHashValue.Entries/r0" | .mutUnique => "MutableHashValue.Unique/r0"

/-- the method a site belongs to (its in-place-write rows are `<method>/w<n>`) -/
def NewSite.method : NewSite → String
  | .arrAdd => "Array.Add" | .arrAddAll => "Array.AddAll" | .arrDelete => "Array.Delete"
  | .arrDeleteAll => "Array.DeleteAll" | .arrMap => "Array.Map" | .arrSelect => "Array.Select"
  | .arrReject => "Array.Reject" | .arrSort => "Array.Sort" | .arrFlatten0 => "Array.Flatten"
  | .arrUnique2 => "Array.Unique" | .hashAdd0 => "Hash.Add" | .hashAdd1 => "Hash.Add"
  | .hashAddAll0 => "Hash.AddAll" | .hashDelete0 => "Hash.Delete" | .hashDeleteAll1 => "Hash.DeleteAll"
  | .hashMap => "Hash.Map" | .hashMapValues => "Hash.MapValues" | .hashSelect => "Hash.Select"
  | .hashReject => "Hash.Reject" | .hashSelectPairs => "Hash.SelectPairs" | .hashRejectPairs => "Hash.RejectPairs"
  | .hashMerge => "Hash.Merge" | .hashSort => "Hash.Sort" | .hashFlatten0 => "Hash.Flatten"
  | .hashFlatten1 => "Hash.Flatten" | .hashKeys => "Hash.Keys" | .hashValues => "Hash.Values"
  | .mutPutAll => "MutableHashValue.PutAll" | .hashEachSlice => "Hash.EachSlice" | .hashAsArray => "Hash.AsArray"
  | .hashMapEntries => "Hash.MapEntries" | .hashAddAll1 => "Hash.AddAll"
  | .mutDelete => "MutableHashValue.Delete" | .mutDeleteAll => "MutableHashValue.DeleteAll"
  | .mutEntries => "MutableHashValue.Entries" | .mutUnique => "MutableHashValue.Unique"

def CtorSite.key : CtorSite → String
  | .wrapValues => "WrapValues/r0" | .wrapHash => "WrapHash/r0" | .buildArray => "BuildArray/r0"
  | .buildHash => "BuildHash/r0" | .newMutable => "NewMutableHash/r0" | .element => ""

/-- what one step does, decided from the CONTENTS of the values it uses (shared by both layers) -/
inductive Out
  | mark (m : String)
  /-- a constructor: a fresh backing array; `cap` = capacity asked for (never less than the length) -/
  | alloc (site : CtorSite) (k : Kind) (cap : Nat) (res : List Val)
  | same (site : SameSite) (k : Kind) (r : Nat)
  | window (site : WinSite) (k : Kind) (r : Nat) (lo hi : Int)
  /-- `kill`: the receiver is a mutable hash that this step supersedes -/
  | new (site : NewSite) (k : Kind) (r : Nat) (res : List Val) (kill : Bool)
  deriving Repr

abbrev Look := Nat → Option (Kind × List Val)

def elemVal (look : Look) : Elem → Option Val
  | .lit v => if v.dupKeys then none else some v
  | .ref n => match look n with
    | some (.arr, xs) => some (.arr xs)
    | some (.hsh, xs) => some (.hsh xs)
    | _ => none                         -- a mutable hash inside another value: outside the property

def inapplicable : Out := .mark "~"

def ctor (arrSite hashSite : CtorSite) (cap : Val → Nat) (v : Val) : Out :=
  if v.dupKeys then inapplicable else
  match v with
  | .arr xs => .alloc arrSite .arr (cap v) xs
  | .hsh es => .alloc hashSite .hsh (cap v) es
  | _ => inapplicable

def Val.len : Val → Nat
  | .arr xs => xs.length
  | .hsh es => es.length
  | _ => 0

mutual
/-- values that have a literal text the parser accepts (harness `literal`): no entries outside a hash, plain strings -/
def Val.hasLiteral : Val → Bool
  | .int _ => true
  | .undef => true
  | .str s => s.toList.all (fun c => c.isAlphanum || c == ' ' || c == '_')
  | .arr xs => hasLiteralL xs
  | .hsh es => hasLiteralH es
  | .ent _ _ => false
def hasLiteralL : List Val → Bool
  | [] => true
  | x :: xs => x.hasLiteral && hasLiteralL xs
def hasLiteralH : List Val → Bool
  | [] => true
  | .ent k v :: es => k.hasLiteral && v.hasLiteral && hasLiteralH es
  | _ :: _ => false
end

mutual
/-- values the rich-data serializer hands to a collector unchanged (serialization/serializer.go `toData`: scalars,
    arrays, hashes — the collector can do complex keys); a hash entry outside a hash is not Data -/
def Val.plain : Val → Bool
  | .ent _ _ => false
  | .arr xs => plainL xs
  | .hsh es => plainH es
  | _ => true
def plainL : List Val → Bool
  | [] => true
  | x :: xs => x.plain && plainL xs
def plainH : List Val → Bool
  | [] => true
  | .ent k v :: es => k.plain && v.plain && plainH es
  | _ :: _ => false
end

/-- array receiver -/
def arrSem (look : Look) (r : Nat) (xs : List Val) : Op → Out
  | .add _ x => match elemVal look x with
    | some v => .new .arrAdd .arr r (xs ++ [v]) false
    | none => inapplicable
  | .delete _ x => match elemVal look x with
    | some v => .new .arrDelete .arr r (arrDelete xs v) false
    | none => inapplicable
  | .addAll _ s => match look s with
    | some (_, ys) => .new .arrAddAll .arr r (xs ++ ys) false
    | none => inapplicable
  | .deleteAll _ s => match look s with
    | some (_, ys) => .new .arrDeleteAll .arr r (arrDeleteAll xs ys) false
    | none => inapplicable
  | .slice _ i j => .window .arrSlice .arr r i j
  | .map _ f => .new .arrMap .arr r (xs.map f.app) false
  | .select _ p => .new .arrSelect .arr r (xs.filter p.app) false
  | .reject _ p => .new .arrReject .arr r (xs.filter (fun e => !p.app e)) false
  | .sort _ => .new .arrSort .arr r (sortVals xs) false
  | .flatten _ => if xs.any Val.isNested then .new .arrFlatten0 .arr r (flatL xs) false else .same .arrFlatten1 .arr r
  | .unique _ =>
    if xs.length < 2 then .same .arrUnique0 .arr r
    else if (dedupe xs).length == xs.length then .same .arrUnique1 .arr r
    else .new .arrUnique2 .arr r (dedupe xs) false
  | .chunk _ n k =>
    if n < 1 then .mark "!"                -- EachSlice: a slice size below one is an argument error
    else if n > 64 || k < 0 || k * n ≥ (xs.length : Int) then inapplicable
    else .window .arrEachSlice .arr r (k * n) (min (xs.length : Int) ((k + 1) * n))
  | .ser _ => if plainL xs then .alloc .buildArray .arr xs.length xs else .mark "-"
  | .resolve _ => .new .arrMap .arr r xs false
  | .at _ i =>
    if i < 0 then inapplicable else
    match xs[i.toNat]? with
    | some (.arr ys) => .alloc .element .arr ys.length ys
    | some (.hsh es) => .alloc .element .hsh es.length es
    | _ => inapplicable
  | .obs _ none => .mark "-"
  | .obs _ (some s) => match look s with
    | some _ => .mark "-"
    | none => inapplicable
  | _ => inapplicable

/-- hash receiver (`mut` = a MutableHashValue; its `Hash` methods are the promoted ones) -/
def hashSem (look : Look) (r : Nat) (isMut : Bool) (es : List Val) : Op → Out
  | .add _ x =>
    match elemVal look x with
    | some (.ent k v) => .new .hashAdd0 .hsh r (mergeEntries es [.ent k v]) false
    | some (.arr [k, v]) => .new .hashAdd1 .hsh r (mergeEntries es [.ent k v]) false
    | some _ => .mark "!"
    | none => inapplicable
  | .delete _ x =>
    match elemVal look x with
    | some v => match idxOf es v.key with
      | some i => .new (if isMut then .mutDelete else .hashDelete0) .hsh r (es.eraseIdx i) false
      | none => if isMut then .new .mutDelete .hsh r es false else .same .hashDelete1 .hsh r
    | none => inapplicable
  | .addAll _ s => match look s with
    | some (.arr, ys) => match pairsOfArray ys with
      | some os => .new .hashAddAll1 .hsh r (mergeEntries es os) false
      | none => .mark "!"
    | some (_, os) => .new .hashAddAll0 .hsh r (mergeEntries es os) false
    | none => inapplicable
  | .deleteAll _ s =>
    match look s with
    | some (_, ks) =>
      let del := ks.filterMap (fun k => idxOf es k.key)
      if del.isEmpty then (if isMut then .new .mutDeleteAll .hsh r es false else .same .hashDeleteAll0 .hsh r)
      else .new (if isMut then .mutDeleteAll else .hashDeleteAll1) .hsh r (keepIdx del es 0) false
    | none => inapplicable
  | .merge _ s => match look s with
    | some (.arr, _) => inapplicable
    | some (_, os) => .new .hashMerge .hsh r (mergeEntries es os) false
    | none => inapplicable
  | .slice _ i j => .window .hashSlice .hsh r i j
  | .map _ f => .new .hashMap .arr r (es.map f.app) false
  | .mapValues _ f => .new .hashMapValues .hsh r (es.map (fun e => .ent (entKey e) (f.app (entVal e)))) false
  | .select _ p => .new .hashSelect .hsh r (es.filter p.app) false
  | .reject _ p => .new .hashReject .hsh r (es.filter (fun e => !p.app e)) false
  | .selectPairs _ p => .new .hashSelectPairs .hsh r (es.filter (fun e => p.app (entVal e))) false
  | .rejectPairs _ p => .new .hashRejectPairs .hsh r (es.filter (fun e => !p.app (entVal e))) false
  | .sort _ => .new .hashSort .hsh r (sortEnts es) false
  | .flatten _ =>
    let els := pairsFlat es
    if els.any Val.isNested then .new .hashFlatten0 .arr r (flatL els) false else .new .hashFlatten1 .arr r els false
  | .unique _ => if isMut then .new .mutUnique .hsh r es false else .same .hashUnique0 .hsh r
  | .entries _ => if isMut then .new .mutEntries .hsh r es false else .same .hashEntries0 .hsh r
  | .keys _ => .new .hashKeys .arr r (es.map entKey) false
  | .values _ => .new .hashValues .arr r (es.map entVal) false
  | .mput _ k v =>
    if !isMut then inapplicable else
    match elemVal look k, elemVal look v with
    | some k', some v' => .new .mutPutAll .mut r (mergeEntries es [.ent k' v']) true
    | _, _ => inapplicable
  | .chunk _ n k =>
    if n < 1 then .mark "!"
    else if n > 64 || k < 0 || k * n ≥ (es.length : Int) then inapplicable
    else .new .hashEachSlice .arr r ((es.drop (k * n).toNat).take n.toNat) false
  | .ser _ => if !isMut && plainH es then .alloc .buildHash .hsh es.length es else .mark "-"
  | .resolve _ => if isMut then inapplicable else .new .hashMapEntries .hsh r es false
  | .asArray _ => .new .hashAsArray .arr r (es.map (fun e => .arr [entKey e, entVal e])) false
  | .get _ x =>
    match elemVal look x with
    | some k => match idxOf es k.key with
      | some i => match es[i]? with
        | some (.ent _ (.arr ys)) => .alloc .element .arr ys.length ys
        | some (.ent _ (.hsh hs)) => .alloc .element .hsh hs.length hs
        | _ => inapplicable
      | none => inapplicable
    | none => inapplicable
  | .mputAll _ s =>
    match look s with
    | some (sk, os) => if !isMut || sk == .arr then inapplicable else .new .mutPutAll .mut r (mergeEntries es os) true
    | none => inapplicable
  | .obs _ none => .mark "-"
  | .obs _ (some s) => match look s with
    | some _ => .mark "-"
    | none => inapplicable
  | _ => inapplicable

def Op.recv? : Op → Option Nat
  | .lit _ | .parse _ | .coll _ _ | .mnew | .tree _ => none
  | .add r _ | .addAll r _ | .delete r _ | .deleteAll r _ | .slice r _ _ | .map r _ | .select r _ | .reject r _
  | .sort r | .flatten r | .unique r | .at r _ | .merge r _ | .keys r | .values r | .entries r | .mapValues r _
  | .selectPairs r _ | .rejectPairs r _ | .mput r _ _ | .mputAll r _ | .get r _ | .chunk r _ _ | .asArray r
  | .ser r | .resolve r | .obs r _ => some r

def opSem (look : Look) (op : Op) : Out :=
  match op with
  | .lit v => ctor .wrapValues .wrapHash Val.len v
  | .parse v => if v.hasLiteral then ctor .buildArray .buildHash (fun _ => 0) v else inapplicable
  | .coll c v => if c < 0 || c > 64 then inapplicable else ctor .buildArray .buildHash (fun _ => c.toNat) v
  | .mnew => .alloc .newMutable .mut 7 []
  | .tree v => match v with
    | .arr items => if treeShape v then .alloc .element .hsh 0 (treeBuild items) else inapplicable
    | _ => inapplicable
  | op =>
    match op.recv? with
    | none => inapplicable
    | some r =>
      match look r with
      | none => inapplicable
      | some (.arr, xs) => arrSem look r xs op
      | some (.hsh, es) => hashSem look r false es op
      | some (.mut, es) => hashSem look r true es op

/-! ### the pure interpreter -/

inductive PEntry
  | val (k : Kind) (xs : List Val)
  | mark (m : String)
  deriving Repr

structure PState where
  pool : List PEntry := []
  dead : List Nat := []        -- mutable hashes superseded by a later `mput`
  deriving Repr

def PState.look (s : PState) : Look := fun n =>
  if s.dead.contains n then none else
  match s.pool[n]? with
  | some (.val k xs) => some (k, xs)
  | _ => none

/-- bounds of `Slice(i, j)`: the harness admits `0 ≤ i ≤ j ≤ len` only -/
def winOK (len : Nat) (lo hi : Int) : Bool := decide (0 ≤ lo) && decide (lo ≤ hi) && decide (hi ≤ (len : Int))

def window (xs : List Val) (lo hi : Int) : List Val := (xs.drop lo.toNat).take (hi.toNat - lo.toNat)

def stepPure (s : PState) (op : Op) : PState :=
  match opSem s.look op with
  | .mark m => { s with pool := s.pool ++ [.mark m] }
  | .alloc _ k _ res => { s with pool := s.pool ++ [.val k res] }
  | .same _ k r => match s.look r with
    | some (_, xs) => { s with pool := s.pool ++ [.val k xs] }
    | none => { s with pool := s.pool ++ [.mark "~"] }
  | .window _ k r lo hi => match s.look r with
    | some (_, xs) =>
      if winOK xs.length lo hi then { s with pool := s.pool ++ [.val k (window xs lo hi)] }
      else { s with pool := s.pool ++ [.mark "^"] }
    | none => { s with pool := s.pool ++ [.mark "~"] }
  | .new _ k r res kill => { pool := s.pool ++ [.val k res], dead := if kill then r :: s.dead else s.dead }

def runPure (ops : List Op) : PState := ops.foldl stepPure {}

end Pcore.Heap
