import Pcore.Model.DispatchCtors
import Pcore.Model.CtorNum
import Pcore.Model.CtorBinary
import Pcore.Model.CtorTimespan
import Pcore.Model.CtorString
/-!
# `new` on the driver's alphabet: which constructor a receiver gets, and the whole call (property C16)

Core Lean only.

| Go                                                          | Lean                         |
|-------------------------------------------------------------|------------------------------|
| types/types.go `newInstance` constructor lookup by `Name()` (`px.Load(c, NewTypedName(NsConstructor, typ.Name()))`) | `ctorOf` |
| types/types.go `newInstance` / types/inittype.go `InitType.New` on a receiver of the alphabet | `recvOf`, `newModel` |

`pf` is `strconv.ParseFloat(·, 64)` (Model/CtorNum.lean), a parameter.

* a wrapper type has its own `Name()` — `Optional`, `NotUndef`, `Variant`, the name of an alias — under which no constructor
  is registered: `new` on it reports INSTANCE_DOES_NOT_RESPOND, and `Init[wrapper]` CTOR_NOT_FOUND, whatever is wrapped.
  The wrapped type's constructor is reached only by `CoerceTo` through `Optional` (Model/CtorCoerce.lean).
* `String` has the formatting constructor: its signature and the format-less scalar cases are modelled
  (Model/CtorString.lean); a call that needs the formatting machinery of C20 answers `UNMODELLED`, which `newModel` turns
  into "no answer" (the driver refuses the op; the generator never emits it).
-/
namespace Pcore.Dispatch.Alpha

section
variable (pf : List Char → Option Nat)

inductive CtorLookup where
  | none                    -- no constructor is registered under the type's name
  | some (c : Ctor)

/-- `px.Load(c, NewTypedName(NsConstructor, typ.Name()))` -/
def ctorOf : Ty → CtorLookup
  | .int _ _ => .some integerCtor
  | .float _ _ => .some (floatCtor pf)
  | .numeric => .some (numericCtor pf)
  | .bool => .some booleanCtor
  | .binary => .some binaryCtor
  | .timespan _ _ => .some timespanCtor
  | .arr _ _ _ => .some arrayCtor
  | .tuple _ => .some arrayCtor
  | .hash _ _ _ _ => .some hashCtor
  | .struct _ => .some hashCtor
  | .str _ _ => .some stringCtor
  | .enum _ => .none        -- `Enum`, `Pattern`: string types without a constructor of their own
  | _ => .none

/-- the receiver of the `newm` op: a type of the alphabet, `Init[T, initArgs…]` or the default `Init` -/
inductive RecvTy where
  | plain (t : Ty)
  | init (t : Ty) (initArgs : List Val)
  | initDefault

def recvOf : RecvTy → Option (Recv Ty Val)
  | .plain t => match ctorOf pf t with
    | .some c => some (.ctor t (ctorCall c))
    | .none => some (.noCtor t)
  | .init t ia => match ctorOf pf t with
    | .some c => some (.init t (initCall c ia))
    | .none => some .initNoCtor
  | .initDefault => some .initDefault

def newModel (r : RecvTy) (args : List Val) : Option (NewOutcome Val) :=
  match recvOf pf r with
  | none => none
  | some recv => match newInstance inst recv args with
    | .reported "UNMODELLED" => none
    | o => some o

end

end Pcore.Dispatch.Alpha
