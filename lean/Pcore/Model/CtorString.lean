import Pcore.Model.DispatchCtors
/-!
# The String constructor: its signature, and the format-less conversion of scalars (property C16, `new`)

Core Lean only.

| Go (types/stringtype.go)                                                        | Lean                  |
|---------------------------------------------------------------------------------|-----------------------|
| `newGoConstructor2("String", …)`: `(Any, Optional[Formats])`                    | `stringCtor` (creators) |
| `Formats = Variant[Default, String[1], TypeMap]`, `TypeMap = Hash[Type, Variant[Format, ContainerFormat]]` | `stringFormatsTy` — no `Type` value is in the alphabet, so the only TypeMap is the empty hash |
| the body without a format, `stringValue(px.ToString2(args[0], None))`, for a string, an integer, a boolean, undef, default | `plainText` (`strconv.FormatInt` = `Pcore.Syntax.intText`, Model/Num.lean) |

String FORMATTING (a format argument; floats, containers, binaries, timespans without one) is the subject of C20 and its model
(Model/Format.lean); it is not repeated here: the body answers `UNMODELLED` for those calls, the driver refuses the op and the
generator does not emit it.  What C16 needs from this constructor is the signature — which argument lists reach the body
(`Init[String]`, `anyCallable`) — and the final assertion against `String[n,m]` / `Enum` receivers for the plain cases.
-/
namespace Pcore.Dispatch.Alpha

def stringFormatsTy : Ty := .var [.default, .str 1 none, .hash .never .never 0 none]

/-- `px.ToString2(v, None)` for the scalars whose default text needs no formatting machinery -/
def plainText : Val → Option String
  | .str s => some s
  | .int n => some (String.ofList (Pcore.Syntax.intText n))
  | .bool b => some (if b then "true" else "false")
  | .undef => some "undef"
  | .default => some "default"
  | _ => none

def stringCtor : Ctor where
  creators := [ { ops := [.param .any, .optional stringFormatsTy], kind := .fn } ]
  body := fun _ args =>
    match args with
    | [v] => (match plainText v with
      | some s => .value (.str s)
      | none => .reported "UNMODELLED")
    | _ :: _ :: _ => .reported "UNMODELLED"
    | [] => .fault                            -- `args[0]` of an empty list

end Pcore.Dispatch.Alpha
