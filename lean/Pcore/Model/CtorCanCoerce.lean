import Pcore.Model.CtorCoerce
import Pcore.Model.CtorInit
/-!
# `types.CanCoerce` on the driver's alphabet (property C16: the question `CoerceTo` is asked beforehand)

Core Lean only.

| Go (types/coerce.go)                                              | Lean                         |
|-------------------------------------------------------------------|------------------------------|
| `CanCoerce` (instance test, one `Optional` removed, the switch)   | `canCoerce`; `canCore` is the switch |
| the `*ArrayType` arm (`oa.All`; a value that is no array is asked against the ELEMENT type) | `canCore (.arr …)` |
| the `*HashType` arm (`oh.All`: key, then value), the `*StructType` arm (`hm[key]`, the member's value type) | `canCore (.hash …)`, `canCore (.struct …)`, `canEntry` |
| the last line `NewInitType(typ, emptyArray).IsInstance(value, nil)` | `canInit` = `initIsInstance (.init t [])` |
| `All` (stops at the first `false`; a raised error passes through when it is reached) | `allOk` |

Quirks reproduced
* the answer for a type without constructor that the value is not an instance of (`Variant`, `NotUndef`, an alias, `Any`-like
  leaves, a second `Optional`) is not `false` but the RAISED error CTOR_NOT_FOUND (`InitType.IsInstance` resolves the constructor).
* `CanCoerce(Array[T], v)` for a `v` that is no array asks `CanCoerce(T, v)` — `CoerceTo` does not wrap such a value, it
  fails; and the last line accepts an array whose ELEMENTS fit a signature (`Init[T]` expands it) where `CoerceTo` hands the
  array itself to `new`.  `CanCoerce` answers `true` for more than `CoerceTo` can do; what holds is the other direction:
  whatever `CoerceTo` converts, `CanCoerce` said yes to (theorem `C16_can_coerce_complete`).
* sizes (Array / Hash) and missing Struct members are not looked at.
* the Object and Init arms are outside the alphabet.
-/
namespace Pcore.Dispatch.Alpha

/-- `All`: the first answer that is not `true` -/
def allOk : List (Except String Bool) → Except String Bool
  | [] => .ok true
  | r :: rs => match r with
    | .ok true => allOk rs
    | other => other

/-- `a && b` with `b` evaluated only when `a` is true -/
def andOk (a : Except String Bool) (b : Except String Bool) : Except String Bool :=
  match a with
  | .ok true => b
  | other => other

section
variable (pf : List Char → Option Nat)

/-- `NewInitType(typ, emptyArray).IsInstance(value, nil)` -/
def canInit (t : Ty) (v : Val) : Except String Bool := initIsInstance pf (.init t []) v

mutual
/-- `CanCoerce`; as for `coerceTo` the switch is written out here too so that the recursion is structural -/
def canCoerce : Ty → Val → Except String Bool
  | .opt t', v => if inst (.opt t') v then .ok true else canCore t' v
  | .arr e lo hi, v => if inst (.arr e lo hi) v then .ok true else
      match v with
      | .arr vs => allOk (vs.map fun x => canCoerce e x)
      | _ => canCoerce e v
  | .hash kt vt lo hi, v => if inst (.hash kt vt lo hi) v then .ok true else
      match v with
      | .hash es => allOk (es.map fun e => andOk (canCoerce kt e.1) (canCoerce vt e.2))
      | _ => .ok false
  | .struct ms, v => if inst (.struct ms) v then .ok true else
      match v with
      | .hash es => allOk (es.map fun e => canEntry ms e.1 e.2)
      | _ => .ok false
  | t, v => if inst t v then .ok true else canInit pf t v
/-- the switch of `CanCoerce` -/
def canCore : Ty → Val → Except String Bool
  | .arr e _ _, v => match v with
    | .arr vs => allOk (vs.map fun x => canCoerce e x)
    | _ => canCoerce e v
  | .hash kt vt _ _, v => match v with
    | .hash es => allOk (es.map fun e => andOk (canCoerce kt e.1) (canCoerce vt e.2))
    | _ => .ok false
  | .struct ms, v => match v with
    | .hash es => allOk (es.map fun e => canEntry ms e.1 e.2)
    | _ => .ok false
  | t, v => canInit pf t v
/-- the predicate of the Struct arm: the key is a string that names a member and the value can be coerced to the member's
    value type -/
def canEntry : List (String × Bool × Ty) → Val → Val → Except String Bool
  | [], _, _ => .ok false
  | (name, _, t) :: ms, k, x => match k with
    | .str s => if name = s then canCoerce t x else canEntry ms k x
    | _ => .ok false
end

end

end Pcore.Dispatch.Alpha
