import Pcore.Model.LatticeInfer
set_option linter.unusedSimpArgs false
/-!
  Inferred types and instance-of.

  Go → Lean map:
    <value>.PType()  (integertype.go, floattype.go, stringtype.go …; arraytype.go privateReducedType; hashtype.go privateReducedType)
                                                 → `ptype`  (arrays / hashes fold `commonType` left to right)
    px.DetailedValueType (types.go) ; arraytype.go privateDetailedType ; hashtype.go privateDetailedType
                                                 → `dtype`
    <X>type.go (t *XType) IsInstance             → the `.x` arm of `inst`  (`px.IsInstance(t, v)` = `t.IsInstance(v, nil)`; no
                                                   right-hand decomposition happens for values)
    typealiastype.go IsInstance for Data / RichData → `instData` / `instRich` (the resolved Variant unfolded over the value)
    tupletype.go IsInstance2                     → `instZip` ("last type repeats")
    structtype.go IsInstance                     → `instStruct` (matched-count against the hash length) with `hashGet`
    iterabletype.go IsInstance                   → through `elemType` (`Indexed.ElementType()` of arrays, hashes, strings)
    collectiontype.go IsInstance = IsAssignable(v.PType()) → arrays / hashes by their length
    objecttype.go IsInstance                     → object instances by ancestor path; a type value is an instance of the default
                                                   Object (through its meta type, an object type)
-/
namespace Pcore.Lat

section
variable (cfg : Cfg) (sfh : Bool)

mutual
def ptype : Val → Ty
  | .undef => .undef
  | .dflt => .dflt
  | .bool b => .bool (some b)
  | .int i => .int ⟨i, i⟩
  | .float f => .float f f
  | .str s => .strVal s
  | .regexp s => .regexp s
  | .binary _ => .bin
  | .tspan n => .tspan ⟨n, n⟩
  | .tstamp n => .tstamp ⟨n, n⟩
  | .array [] => .array .unit ⟨0, 0⟩
  | .array (v :: vs) => .array (ptypeFold (ptype v) vs) (Rng.exact ((vs.length + 1 : Nat) : Int))
  | .hash [] => .hash .unit .unit ⟨0, 0⟩
  | .hash ((k, v) :: es) =>
      .hash (ptypeFoldK (ptype k) es) (ptypeFoldV (ptype v) es) (Rng.exact ((es.length + 1 : Nat) : Int))
  | .sensitive v => .sensitive (ptype v)
  | .typ t => .typ t
  | .obj p => .object (some p)
termination_by v => v.w
decreasing_by all_goals (simp_wf; simp only [Val.w, Val.wl, Val.we] at *; omega)
def ptypeFold (acc : Ty) : List Val → Ty
  | [] => acc
  | v :: vs => ptypeFold (commonType cfg sfh acc (ptype v)) vs
termination_by vs => Val.wl vs
decreasing_by all_goals (simp_wf; simp only [Val.w, Val.wl, Val.we] at *; omega)
def ptypeFoldK (acc : Ty) : List (Val × Val) → Ty
  | [] => acc
  | (k, _) :: es => ptypeFoldK (commonType cfg sfh acc (ptype k)) es
termination_by es => Val.we es
decreasing_by all_goals (simp_wf; simp only [Val.w, Val.wl, Val.we] at *; omega)
def ptypeFoldV (acc : Ty) : List (Val × Val) → Ty
  | [] => acc
  | (_, v) :: es => ptypeFoldV (commonType cfg sfh acc (ptype v)) es
termination_by es => Val.we es
decreasing_by all_goals (simp_wf; simp only [Val.w, Val.wl, Val.we] at *; omega)
end

/-- the string of a string key (member name of the inferred Struct) -/
def keyName : Val → String
  | .str s => s
  | _ => ""

def isStrKey : Val → Bool
  | .str _ => true
  | _ => false
def isEmptyStrKey : Val → Bool
  | .str s => s == ""
  | _ => false

mutual
def dtype : Val → Ty
  | .array [] => .array .unit ⟨0, 0⟩
  | .array (v :: vs) => .tuple (dtype v :: dtypeL vs) none
  | .hash [] => .hash .unit .unit ⟨0, 0⟩
  | .hash ((k, v) :: es) =>
      if !(((k, v) :: es).all (fun e => isStrKey e.1)) then ptype cfg sfh (.hash ((k, v) :: es))
      else if ((k, v) :: es).any (fun e => isEmptyStrKey e.1) then
        .hash (dtypeFoldK (dtype k) es) (dtypeFoldV (dtype v) es) (Rng.exact ((es.length + 1 : Nat) : Int))
      else .struct (dtypeM ((k, v) :: es))
  | v => ptype cfg sfh v
termination_by v => v.w
decreasing_by all_goals (simp_wf; simp only [Val.w, Val.wl, Val.we] at *; omega)
def dtypeL : List Val → List Ty
  | [] => []
  | v :: vs => dtype v :: dtypeL vs
termination_by vs => Val.wl vs
decreasing_by all_goals (simp_wf; simp only [Val.w, Val.wl, Val.we] at *; omega)
def dtypeFoldK (acc : Ty) : List (Val × Val) → Ty
  | [] => acc
  | (k, _) :: es => dtypeFoldK (commonType cfg sfh acc (dtype k)) es
termination_by es => Val.we es
decreasing_by all_goals (simp_wf; simp only [Val.w, Val.wl, Val.we] at *; omega)
def dtypeFoldV (acc : Ty) : List (Val × Val) → Ty
  | [] => acc
  | (_, v) :: es => dtypeFoldV (commonType cfg sfh acc (dtype v)) es
termination_by es => Val.we es
decreasing_by all_goals (simp_wf; simp only [Val.w, Val.wl, Val.we] at *; omega)
/-- `NewStructElement(stringKey, detailedValueType)`: the key is Optional iff the value type accepts Undef -/
def dtypeM : List (Val × Val) → List Member
  | [] => []
  | (k, v) :: es =>
      (keyName k, asg cfg sfh (dtype v) .undef, dtype v) :: dtypeM es
termination_by es => Val.we es
decreasing_by all_goals (simp_wf; simp only [Val.w, Val.wl, Val.we] at *; omega)
end

/-- `Indexed.ElementType()`: none for values that are not `px.Indexed` -/
def elemType : Val → Option Ty
  | .array vs => (match ptype cfg sfh (.array vs) with | .array e _ => some e | _ => none)
  | .hash es => (match ptype cfg sfh (.hash es) with | .hash k v _ => some (.tuple [k, v] none) | _ => none)
  | .str _ => some (.strSz ⟨1, 1⟩)
  | _ => none

/-- is this hash key the string `name`? (`Hash.Get(stringValue(name))` compares keys) -/
def keyIsStr (name : String) : Val → Bool
  | .str s => s == name
  | _ => false

mutual
/-- Data = Variant[ScalarData, Undef, Array[Data], Hash[String, Data]] over a value -/
def instData : Val → Bool
  | .str _ | .int _ | .float _ | .bool _ => true
  | .undef => true
  | .array vs => instDataL vs
  | .hash es => instDataE es
  | _ => false
def instDataL : List Val → Bool
  | [] => true
  | v :: vs => instData v && instDataL vs
def instDataE : List (Val × Val) → Bool
  | [] => true
  | (k, v) :: es => isStrKey k && instData v && instDataE es
end

/-- key type of RichData's Hash member: Variant[String, Numeric] -/
def isRichKey : Val → Bool
  | .str _ | .int _ | .float _ => true
  | _ => false

def isScalarVal : Val → Bool
  | .str _ | .int _ | .float _ | .bool _ | .tspan _ | .tstamp _ | .regexp _ => true
  | _ => false

mutual
/-- RichData = Variant[Scalar, Binary, Default, Object, Type, TypeSet, Deferred, Undef, Array[RichData], Hash[Variant[String,Numeric], RichData]] -/
def instRich : Val → Bool
  | .array vs => instRichL vs
  | .hash es => instRichE es
  | .binary _ | .dflt | .undef | .obj _ | .typ _ => true
  | v => isScalarVal v
def instRichL : List Val → Bool
  | [] => true
  | v :: vs => instRich v && instRichL vs
def instRichE : List (Val × Val) → Bool
  | [] => true
  | (k, v) :: es => isRichKey k && instRich v && instRichE es
end

mutual
/-- `t.IsInstance(v)` -/
def inst (t : Ty) (v : Val) : Bool :=
  match t with
  | .any | .unit => true
  | .undef => (match v with | .undef => true | _ => false)
  | .dflt => (match v with | .dflt => true | _ => false)
  | .scalar => isScalarVal v
  | .scalarData => (match v with | .str _ | .int _ | .float _ | .bool _ => true | _ => false)
  | .numeric => (match v with | .int _ | .float _ => true | _ => false)
  | .data => instData v
  | .richData => instRich v
  | .str => (match v with | .str _ => true | _ => false)
  | .bin => (match v with | .binary _ => true | _ => false)
  | .int r => (match v with | .int i => r.contains i | _ => false)
  | .float lo hi => (match v with | .float f => decide (Fl.effLo lo ≤ f) && decide (f ≤ Fl.effHi hi) | _ => false)
  | .bool b => (match v with | .bool x => b.isNone || b == some x | _ => false)
  | .tspan r => (match v with | .tspan n => r.contains n | _ => false)
  | .tstamp r => (match v with | .tstamp n => r.contains n | _ => false)
  | .strSz r => (match v with | .str s => r.contains s.length | _ => false)
  | .strVal s => (match v with | .str s' => s == s' | _ => false)
  | .enum vs ci => (match v with | .str s => enumInst cfg vs ci s | _ => false)
  | .pattern rs => (match v with | .str s => rs.isEmpty || rxAny cfg rs s | _ => false)
  | .regexp src => (match v with | .regexp s => src == "" || src == s | _ => false)
  | .coll r =>
      (match v with
       | .array vs => r.contains vs.length
       | .hash es => r.contains es.length
       | _ => false)
  | .array e r =>
      (match v with
       | .array vs => r.contains vs.length && (e.isAny || instAll e vs)
       | _ => false)
  | .hash k x r => (match v with | .hash es => r.contains es.length && instEntries k x es | _ => false)
  | .tuple ts g =>
      (match v with
       | .array vs => (tupleSize ts g).contains vs.length && (ts.isEmpty || instZip ts vs)
       | _ => false)
  | .struct ms => (match v with | .hash es => instStruct ms es == some es.length | _ => false)
  | .variant ts => instAny ts v
  | .optional t => (match v with | .undef => true | _ => false) || inst t v
  | .notUndef t => !(match v with | .undef => true | _ => false) && inst t v
  | .typ t => (match v with | .typ u => asg cfg sfh t u | _ => false)
  | .sensitive t => (match v with | .sensitive x => inst t x | _ => false)
  | .runtime _ _ _ => false       -- `RuntimeType.IsInstance`: only a *RuntimeValue, which the value language does not have
  | .callable _ _ _ => false      -- `CallableType.IsInstance`: only a px.Lambda, which the value language does not have
  | .iterator _ => false          -- `IteratorType.IsInstance`: only a px.IteratorValue, which the value language does not have
  | .iterable t => (match elemType cfg sfh v with | some e => asg cfg sfh t e | none => false)
  | .object p =>
      (match v with
       | .obj q => (match p with | none => true | some pp => isPrefix pp q)
       | .typ _ => p.isNone
       | _ => false)
termination_by t.w + v.w
decreasing_by all_goals (simp_wf; simp only [Ty.w, Ty.wl, Ty.wm, Val.w, Val.wl, Val.we] at *; omega)
def instAll (e : Ty) (vs : List Val) : Bool :=
  match vs with
  | [] => true
  | v :: vs => inst e v && instAll e vs
termination_by e.w + Val.wl vs
decreasing_by all_goals (simp_wf; simp only [Ty.w, Ty.wl, Ty.wm, Val.w, Val.wl, Val.we] at *; omega)
def instEntries (k x : Ty) (es : List (Val × Val)) : Bool :=
  match es with
  | [] => true
  | (a, b) :: es => inst k a && inst x b && instEntries k x es
termination_by k.w + x.w + Val.we es
decreasing_by all_goals (simp_wf; simp only [Ty.w, Ty.wl, Ty.wm, Val.w, Val.wl, Val.we] at *; omega)
/-- `TupleType.IsInstance2` loop for a non-empty type list: the last type repeats -/
def instZip (ts : List Ty) (vs : List Val) : Bool :=
  match ts, vs with
  | _, [] => true
  | [], _ :: _ => true
  | [t], v :: vs => inst t v && instZip [t] vs
  | t :: t' :: ts, v :: vs => inst t v && instZip (t' :: ts) vs
termination_by Ty.wl ts + Val.wl vs
decreasing_by all_goals (simp_wf; simp only [Ty.w, Ty.wl, Ty.wm, Val.w, Val.wl, Val.we] at *; omega)
def instAny (ts : List Ty) (v : Val) : Bool :=
  match ts with
  | [] => false
  | t :: ts => inst t v || instAny ts v
termination_by Ty.wl ts + v.w
decreasing_by all_goals (simp_wf; simp only [Ty.w, Ty.wl, Ty.wm, Val.w, Val.wl, Val.we] at *; omega)
/-- `StructType.IsInstance` member loop: none = rejected; some k = k members found in the hash -/
def instStruct (ms : List Member) (es : List (Val × Val)) : Option Nat :=
  match ms with
  | [] => some 0
  | (n, o, t) :: ms =>
    match hashGetW n t es with
    | none => if o then instStruct ms es else none
    | some ok => if ok then (instStruct ms es).map (· + 1) else none
termination_by Ty.wm ms + Val.we es
decreasing_by all_goals (simp_wf; simp only [Ty.w, Ty.wl, Ty.wm, Val.w, Val.wl, Val.we] at *; omega)
/-- `ov.Get(name)` followed by `IsInstance(value type, found value)`: none = key absent -/
def hashGetW (n : String) (t : Ty) (es : List (Val × Val)) : Option Bool :=
  match es with
  | [] => none
  | (k, v) :: es =>
    if keyIsStr n k then some (inst t v) else hashGetW n t es
termination_by t.w + Val.we es
decreasing_by all_goals (simp_wf; simp only [Ty.w, Ty.wl, Ty.wm, Val.w, Val.wl, Val.we] at *; omega)
end

/-- `px.AssertInstance`: true = returns normally, false = raises TYPE_MISMATCH -/
def assertOk (t : Ty) (v : Val) : Bool := inst cfg sfh t v

/-- `describe` first scans the expected type for an unresolved TypeReference; the term language has none, the function is
    kept so that the guard's first test has a counterpart. -/
def hasTypeRef : Ty → Bool
  | _ => false

/-- `describe(expected, actual)` is empty: the TypeReference scan, then the assignability guard (typemismatchdescriber.go describe) -/
def descEmpty (e a : Ty) : Bool := !hasTypeRef e && asg cfg sfh e a

end
end Pcore.Lat
