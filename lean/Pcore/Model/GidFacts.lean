import Pcore.Model.Gid
/-!
# `threadlocal.getg` over the constants the sources really hold (property C14, tie 2) — core Lean only

`/verif/extract` (family `gidfacts`, `extract/gidfacts.go`) matches the body of `getg()` in `/repo/threadlocal/gid.go`
statement by statement against the one idiom this file models and regenerates `Pcore/Generated/GidFacts.lean` with the
constants found in the holes:

```go
func getg() int64 {
	const prefixLen = ‹prefixLen›                      // also accepted: no constant, a literal in the loop header
	var buf [‹bufLen›]byte
	l := runtime.Stack(buf[:‹stackLen›], false)        // `buf[:]` → stackLen = bufLen
	n := int64(‹acc0›)
	for i := ‹loopFrom›; i < l; i++ {                  // `prefixLen` → loopFrom = prefixLen
		d := buf[i]
		if d < ‹digitLo› || d > ‹digitHi› {
			break
		}
		n = n*‹base› + int64(d-‹digitSub›)
	}
	if n == ‹panicOn› {
		panic(…)
	}
	return n
}
```

A statement that does not fit is copied into `unknown` (normalised source text); a table with a non-empty `unknown` satisfies
no obligation.  `getgF f` / `getg64F f` are `Model/Gid.lean`'s `getg` / `getg64` with every constant taken from the table
`f`; for `factsNow` (the table written by hand from /repo HEAD) they ARE `getg` / `getg64` (`Proofs/GidFacts.lean`).

What the runtime writes is `stackBufF f n rest`: the dump `"goroutine " ++ digits n ++ rest` cut to the slice handed to
`runtime.Stack` (`min stackLen bufLen` bytes; Go rejects `buf[:k]` with `k > len(buf)` at compile time).

The obligation over the regenerated table (`Props/C14.lean: C14_gid_facts_*`, `C14_getg_impl`): the constants are the
standard ones (`std`) and the buffer has room for the prefix and the 19 digits of the largest `int64`
(`roomy`: `prefixLen + 19 ≤ min stackLen bufLen`).  `Proofs/GidFacts.lean` proves that for a standard table
`roomy` is EXACTLY what makes the parser return the printed id for every id below 2^63, and names the smallest id
that is cut when it fails (`firstCut`).
-/
namespace Pcore.GidFacts
open Pcore.Gid

structure Facts where
  /-- `const prefixLen = …` -/
  prefixLen : Nat
  /-- `var buf […]byte` -/
  bufLen : Nat
  /-- length of the slice handed to `runtime.Stack` -/
  stackLen : Nat
  /-- `n := int64(…)` -/
  acc0 : Nat
  /-- first index the loop looks at -/
  loopFrom : Nat
  /-- `d < …` -/
  digitLo : Nat
  /-- `d > …` -/
  digitHi : Nat
  /-- `n*…` -/
  base : Nat
  /-- `d-…` -/
  digitSub : Nat
  /-- `if n == … { panic }` -/
  panicOn : Nat
  /-- statements that do not fit the idiom -/
  unknown : List String
  deriving Repr, Inhabited, DecidableEq

/-- /repo HEAD, written by hand from `threadlocal/gid.go` -/
def factsNow : Facts where
  prefixLen := 10
  bufLen := 64
  stackLen := 64
  acc0 := 0
  loopFrom := 10
  digitLo := 0x30
  digitHi := 0x39
  base := 10
  digitSub := 0x30
  panicOn := 0
  unknown := []

/-- number of bytes `runtime.Stack` may write -/
def Facts.room (f : Facts) : Nat := min f.stackLen f.bufLen

/-- the constants of the digit loop are the standard ones: the loop starts right after `"goroutine "`, accepts exactly
`'0'..'9'`, accumulates in base ten from 0, and panics on 0 -/
def Facts.std (f : Facts) : Bool :=
  f.prefixLen == 10 && f.loopFrom == 10 && f.acc0 == 0 && f.digitLo == 0x30 && f.digitHi == 0x39 && f.base == 10 &&
  f.digitSub == 0x30 && f.panicOn == 0 && f.unknown.isEmpty

/-- the buffer has room for `"goroutine "` and the 19 digits of the largest `int64` -/
def Facts.roomy (f : Facts) : Bool := f.prefixLen + 19 ≤ f.room

/-- the loop's exit test `d < lo || d > hi` -/
def notDigitF (f : Facts) (d : UInt8) : Bool := d.toNat < f.digitLo || d.toNat > f.digitHi

/-- the loop, `int64` accumulator as its 64-bit two's-complement pattern (`d-sub` is a `byte` subtraction: modulo 256) -/
def scan64F (f : Facts) (n : Nat) : List UInt8 → Nat
  | [] => n
  | d :: ds =>
    if notDigitF f d then n
    else scan64F f ((n * f.base + (d.toNat + 256 - f.digitSub % 256) % 256) % 2 ^ 64) ds

/-- the same loop with an unbounded accumulator -/
def scanF (f : Facts) (n : Nat) : List UInt8 → Nat
  | [] => n
  | d :: ds =>
    if notDigitF f d then n
    else scanF f (n * f.base + (d.toNat + 256 - f.digitSub % 256) % 256) ds

/-- the bytes the loop runs over: `buf[loopFrom:l]`, `l ≤ room` -/
def windowF (f : Facts) (buf : List UInt8) : List UInt8 := (buf.take f.room).drop f.loopFrom

/-- `getg` with Go's `int64` arithmetic over the table's constants; `none` = the `panic` -/
def getg64F (f : Facts) (buf : List UInt8) : Option Int :=
  let n := scan64F f (f.acc0 % 2 ^ 64) (windowF f buf)
  if n = f.panicOn % 2 ^ 64 then none else some (toInt64 n)

/-- … with an unbounded accumulator -/
def getgF (f : Facts) (buf : List UInt8) : Option Nat :=
  let n := scanF f f.acc0 (windowF f buf)
  if n = f.panicOn then none else some n

/-- what `runtime.Stack(buf[:stackLen], false)` leaves in `buf[:l]` for goroutine `n` -/
def stackBufF (f : Facts) (n : Nat) (rest : List UInt8) : List UInt8 := (stackHeader n rest).take f.room

/-- the smallest id that does not fit: `10^(room - prefixLen)` has `room - prefixLen + 1` digits -/
def Facts.firstCut (f : Facts) : Nat := 10 ^ (f.room - f.prefixLen)

/-! ## what the driver prints -/

/-- what follows the id in a real dump -/
def restRunning : List UInt8 := bytes " [running]:\n"

/-- the table key the code computes for the goroutine whose id the runtime prints as `n` -/
def keyOf (f : Facts) (n : Nat) : Option Int := getg64F f (stackBufF f n restRunning)

/-- the key is the id -/
def exactAt (f : Facts) (n : Nat) : Bool := keyOf f n == some (n : Int)

/-- first id in `[from, from + count)` whose key is not the id -/
def firstInexact (f : Facts) (start count : Nat) : Option Nat :=
  (List.range count).findSome? fun i => if exactAt f (start + i) then none else some (start + i)

/-- `k` goroutines with ids `start+1 … start+k` are started one after the other by the goroutine `start` inside `pcore.Do`
(so it holds a table itself); each does `Init(); Set(ctx, own)` and parks; when all are parked each looks.
`own` = how many still find their own context: goroutine `i` does iff no goroutine started later has the same key (`Init`
of the later one replaced the table); `live` = number of distinct keys among all `k+1` goroutines (a goroutine whose `getg`
panics gets no table and finds nothing). -/
def liveSim (f : Facts) (start k : Nat) : Nat × Nat :=
  let keys := (List.range (k + 1)).map fun i => keyOf f (start + i)
  let own := ((List.range k).filter fun i =>
    match keys[i + 1]? with
    | some (some key) => !((keys.drop (i + 2)).contains (some key))
    | _ => false).length
  let live := ((keys.filterMap id).eraseDups).length
  (own, live)

end Pcore.GidFacts
