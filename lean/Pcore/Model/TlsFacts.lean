import Pcore.Model.Tls
import Pcore.Model.CtxFacts
import Pcore.Generated.CtxFacts
/-!
Which variant of the C14 model the code described by the regenerated shape table (`Pcore/Generated/CtxFacts.lean`, family
`ctxfacts` of /verif/extract) corresponds to.  Core-only: linked into the driver, which runs `implVer`.

* table = `factsNow` (hand-written shape of /repo HEAD)      → `Ver.now`  (the variant all C14 theorems are about)
* table = `factsBefore` (shape of tag `verif-base`)          → `Ver.before`
* anything else (an unrecognised or changed statement)        → `Ver.now`: the proved model keeps answering, so the
  correspondence run shows where the code departs from it, and `C14_facts_now` (Props/C14.lean) no longer checks.
-/
namespace Pcore.Tls
open Pcore.CtxFacts

def verOf : Shape → Ver
  | .now => .now
  | .before => .before
  | .other => .now

/-- the model variant selected by the regenerated table -/
def implVer : Ver := verOf (classify Pcore.Generated.ctxFacts)

end Pcore.Tls
