import Pcore.Model.CtorNew
/-!
# `types.CoerceTo` on the driver's alphabet (property C16: `new` reached through a type that wraps another)

Core Lean only.

| Go (types/coerce.go)                                        | Lean                          |
|-------------------------------------------------------------|-------------------------------|
| `coerceTo` (instance test, one `Optional` removed, the switch) | `coerceTo`; `coerceCore` is the switch |
| the `*ArrayType` arm (`oa.Map`, then the size test)         | `coerceCore (.arr …)`         |
| the `*HashType` arm (`oh.MapEntries`: key, then value; then the size test) | `coerceCore (.hash …)` |
| the `*StructType` arm (`HashedMembers`, `MapEntries`, `AssertInstance`) | `coerceCore (.struct …)`, `coerceEntry`, `finishStruct` |
| the last line `newInstance(c, typ, value)`                  | `newOne` (= `newModel` with the one argument) |
| `px.MismatchError` (issue TYPE_MISMATCH)                    | `.reported "TYPE_MISMATCH"`   |

Quirks reproduced
* exactly ONE `Optional` is removed, and only at the position where coercion starts for a value (top, element, key, value,
  member): `Optional[Optional[Integer]]` ends in `new` on `Optional[Integer]`, which has no constructor.
* `NotUndef`, `Variant`, `Tuple` and aliases are not looked into: they go to `new` as they are (Tuple has the Array
  constructor; the others report INSTANCE_DOES_NOT_RESPOND).
* a value that is not an array / hash is a mismatch for Array / Hash / Struct (it is not wrapped or converted), but an
  ELEMENT that is not an instance is converted by its own type's constructor.
* the Hash arm does not merge keys that become equal by coercion (`WrapHash` keeps every entry), the size test counts entries.
* the Struct arm leaves entries whose key is not a declared member alone and then asserts the whole hash.
* `Map` / `MapEntries` run left to right and the first error aborts: `seqResults` answers the first outcome that is not a value.
* the Object arm is outside the alphabet.
-/
namespace Pcore.Dispatch.Alpha

/-- the first outcome that is not a value, else the values -/
def seqResults : List (NewOutcome Val) → Except (NewOutcome Val) (List Val)
  | [] => .ok []
  | o :: rs => match o with
    | .value v => (match seqResults rs with
      | .ok vs => .ok (v :: vs)
      | .error e => .error e)
    | other => .error other

/-- the same over entries: key first, then value -/
def seqEntries : List (NewOutcome Val × NewOutcome Val) → Except (NewOutcome Val) (List (Val × Val))
  | [] => .ok []
  | (ok, ov) :: rs => match ok with
    | .value k => (match ov with
      | .value v => (match seqEntries rs with
        | .ok es => .ok ((k, v) :: es)
        | .error e => .error e)
      | other => .error other)
    | other => .error other

section
variable (pf : List Char → Option Nat)

/-- `newInstance(c, typ, value)` -/
def newOne (t : Ty) (v : Val) : NewOutcome Val :=
  match newModel pf (.plain t) [v] with
  | some o => o
  | none => .reported "UNMODELLED"

/-- the end of the Array arm: the size test on the coerced elements -/
def finishArr (lo : Nat) (hi : Option Nat) : Except (NewOutcome Val) (List Val) → NewOutcome Val
  | .error o => o
  | .ok rs => if decide (lo ≤ rs.length) && leMax rs.length hi then .value (.arr rs) else .reported "TYPE_MISMATCH"

/-- the end of the Hash arm: the size test on the coerced entries (nothing merges keys that became equal) -/
def finishHash (lo : Nat) (hi : Option Nat) : Except (NewOutcome Val) (List (Val × Val)) → NewOutcome Val
  | .error o => o
  | .ok es => if decide (lo ≤ es.length) && leMax es.length hi then .value (.hash es) else .reported "TYPE_MISMATCH"

/-- the end of the Struct arm: `px.AssertInstance(label, t, value)` -/
def finishStruct (ms : List (String × Bool × Ty)) : Except (NewOutcome Val) (List (Val × Val)) → NewOutcome Val
  | .error o => o
  | .ok es => assertInstance inst (.struct ms) (.hash es)

mutual
/-- `coerceTo`: the instance test, ONE `Optional` removed, then the switch (`coerceCore`).  The switch is written out for
    every kind of type here as well, so that each recursive call is on a strictly smaller type (structural recursion):
    `coerceTo t v = if inst t v then v else coerceCore (t without one Optional) v` is the theorem `coerceTo_eq` -/
def coerceTo : Ty → Val → NewOutcome Val
  | .opt t', v => if inst (.opt t') v then .value v else coerceCore t' v
  | .arr e lo hi, v => if inst (.arr e lo hi) v then .value v else
      match v with
      | .arr vs => finishArr lo hi (seqResults (vs.map fun x => coerceTo e x))
      | _ => .reported "TYPE_MISMATCH"
  | .hash kt vt lo hi, v => if inst (.hash kt vt lo hi) v then .value v else
      match v with
      | .hash es => finishHash lo hi (seqEntries (es.map fun e => (coerceTo kt e.1, coerceTo vt e.2)))
      | _ => .reported "TYPE_MISMATCH"
  | .struct ms, v => if inst (.struct ms) v then .value v else
      match v with
      | .hash es => finishStruct ms (seqEntries (es.map fun e => (.value e.1, coerceEntry ms e.1 e.2)))
      | _ => .reported "TYPE_MISMATCH"
  | t, v => if inst t v then .value v else newOne pf t v
/-- the `switch t := typ.(type)` of `coerceTo`: Array, Hash, Struct, and `newInstance(c, typ, value)` for everything else -/
def coerceCore : Ty → Val → NewOutcome Val
  | .arr e lo hi, v => match v with
    | .arr vs => finishArr lo hi (seqResults (vs.map fun x => coerceTo e x))
    | _ => .reported "TYPE_MISMATCH"
  | .hash kt vt lo hi, v => match v with
    | .hash es => finishHash lo hi (seqEntries (es.map fun e => (coerceTo kt e.1, coerceTo vt e.2)))
    | _ => .reported "TYPE_MISMATCH"
  | .struct ms, v => match v with
    | .hash es => finishStruct ms (seqEntries (es.map fun e => (.value e.1, coerceEntry ms e.1 e.2)))
    | _ => .reported "TYPE_MISMATCH"
  | t, v => newOne pf t v
/-- the mapper of the Struct arm: an entry whose key is the name of a member gets its value coerced to the member's value
    type (`hm[s.String()]`); every other entry stays as it is -/
def coerceEntry : List (String × Bool × Ty) → Val → Val → NewOutcome Val
  | [], _, x => .value x
  | (name, _, t) :: ms, k, x => match k with
    | .str s => if name = s then coerceTo t x else coerceEntry ms k x
    | _ => .value x
end

end

end Pcore.Dispatch.Alpha
