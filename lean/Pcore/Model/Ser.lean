import Pcore.Model.SerArms
import Pcore.Model.SpanCodec
/-
  C10 model — serialization/serializer.go, types/basiccollector.go, serialization/deserializer.go
  (the code as it is after the `fix:` commits "serializer recorded a position for a value whose emitter produced
  only a back-reference" and "Regexp values were serialized as generic objects…").

  Mirrors (file func → definition):
    serializer.go  NewSerializer / Convert (option handling)      → `mkCfg`
    serializer.go  context.values / refIndex                      → `St.vals` / `St.ref`
    serializer.go  addData / addHash / addArray                   → `addData` / `bump` at the head of every container
    serializer.go  process                                        → `seen` (the map lookup, skipped when dedupLevel = NoDedup)
                                                                    + `record` (the repaired bookkeeping after `doer()`)
    serializer.go  toData: case px.StringValue                    → `strData`
    serializer.go  toData (all other cases), nonStringKeyedHashToData, toKeyExtendedHash,
                   unknownToStringWithWarning, valueToDataHash (SerializeAsString branch), pcoreTypeToData
                                                                  → `toData` / `listData` / `pairsData` / `flatData` / `skeyData`
    basiccollector.go  Add / AddArray / AddHash / AddRef / Value  → `collect` / `collectList` (`values` = `List Slot`)
    deserializer.go  convert / convertHash / convertSensitive / convertOther / pcoreTypeHashToValue, `converted`
                                                                  → `convert` … with `DS.memo`

  Values carry object identity (`id`): two occurrences of the same id are the same Go object (pointer); the op syntax
  guarantees that equal ids carry equal subtrees.  The serializer's `map[px.Value]int` is keyed by `Key`: pointer
  identity for arrays, hashes, Sensitive, Binary and pointer leaves; CONTENT for strings, Timespan (a Go int64) and types
  (the harness interns types by text); integers, floats, booleans, undef and default never enter the map.

  How callbacks are rendered: every `toData` call emits exactly one event, so `toData` returns it; the `doer` of
  AddArray/AddHash becomes the child list.  The collector's `stack` is the Lean call stack (the list returned by
  `collectList` is `stack[top]`); BuildArray/BuildHash filling the container after its children is `Slot.open`
  replaced by `Slot.done` — a reference to a still-open container (a cyclic value, which the serializer never
  emits) is the explicit error `cyclic`.  `ds.converted[x] = h` happens in Go before the children are converted and
  here after; the difference is only visible on cyclic data.

  Leaf codecs inside the model: Binary (base64, `b64`/`unb64`, proved to invert), Timespan (the default format,
  Model/SpanCodec.lean, `parseSpan (printSpan ns) = some ns` proved), Regexp (SerializationString is the pattern source
  and decoding compiles that source: the identity on the text — only "the source compiles" is outside the model).
  Parameters (modelled, not verified — DESIGN.md §5): the other leaf codecs.  A leaf carries the two strings the real codec
  prints (`enc` = SerializationString(), `disp` = String()); decoding a `__pvalue` string for a known type name gives
  the leaf back.  Base64 is concrete (`b64` / `unb64`).  `String()` of floats and containers (needed only for
  non-string hash keys with rich_data=false and a consumer without complex keys) is not modelled: `V.dispOk`.
  Object instances are modelled for the object types of the harness's catalogue (`objTypes`; all attributes of type Any):
  an instance is its type name and the entries of its init hash; construction from the named arguments is assumed to
  give back an object with that init hash.  An object TYPE no loader knows travels the same way — as an instance of the
  meta type Pcore::ObjectType whose init hash is the definition (name, parent, attributes …) — and is modelled as such an
  instance; that the deserializer registers it with the loader (`newTypes`, `AddTypes`) is not modelled.
  Logging is ignored.  Core-only file (linked into the driver).
-/
namespace Pcore.Ser

inductive Kind where
  | rx | sv | svr | ts | tm | uri | ty
  | td      -- a named type the loader knows (alias or object type): `valueToDataHash` emits "Type" at level 2
  deriving DecidableEq, Repr, Inhabited

/-- `value.PType().Name()` as `pcoreTypeToData` emits it (all are known types, so a plain string) -/
def Kind.typeName : Kind → String
  | .rx => "Regexp" | .sv => "SemVer" | .svr => "SemVerRange" | .ts => "Timespan"
  | .tm => "Timestamp" | .uri => "URI" | .ty => "Type" | .td => "Type"

/-- the level at which the type name is emitted -/
def Kind.typeLevel : Kind → Nat
  | .td => 2 | _ => 1

/-- the kind a decoded leaf has: a named type comes back as a type -/
def Kind.canon : Kind → Kind
  | .td => .ty | k => k

/-- Timespan is a Go integer and types are interned: the serializer's map identifies them by content -/
def Kind.byContent : Kind → Bool
  | .ts => true | .ty => true | .td => true | _ => false

def Kind.all : List Kind := [.rx, .sv, .svr, .ts, .tm, .uri, .ty, .td]

/-- values with object identity -/
inductive V where
  | undef | dflt
  | bool (b : Bool) | int (i : Int) | flt (bits : Nat) | str (s : String)
  | bin (id : Nat) (bs : List UInt8)
  | leaf (id : Nat) (k : Kind) (enc disp : String)
  | sens (id : Nat) (v : V)
  | arr (id : Nat) (vs : List V)
  | hash (id : Nat) (es : List (V × V))
  | obj (id : Nat) (tn disp : String) (attrs : List (String × V))   -- object instance: type name, String(), init hash
  deriving Repr, Inhabited

/-- scalars a ValueConsumer receives through `Add` -/
inductive Sc where
  | undef | bool (b : Bool) | int (i : Int) | flt (bits : Nat) | str (s : String) | bin (bs : List UInt8)
  deriving DecidableEq, Repr, Inhabited

/-- the event tree: Add / AddRef / AddArray(doer) / AddHash(doer) -/
inductive Ev where
  | add (d : Sc) | ref (n : Nat) | arr (es : List Ev) | hsh (es : List Ev)
  deriving Repr, Inhabited

structure Opts where
  rich : Bool
  localRef : Bool
  dedup : Nat
  deriving Repr

structure Caps where
  bin : Bool
  cplx : Bool
  thr : Nat
  deriving Repr

/-- the effective configuration of one `Convert` call -/
structure Cfg where
  rich : Bool
  dedup : Nat
  bin : Bool
  cplx : Bool
  thr : Nat
  deriving Repr

/-- NewSerializer: local_reference=false forces NoDedup; Convert: MaxDedup is lowered to NoKeyDedup for a consumer
    without complex keys -/
def mkCfg (o : Opts) (c : Caps) : Cfg :=
  let d := if o.localRef then o.dedup else 0
  let d := if d ≥ 2 ∧ c.cplx = false then 1 else d
  { rich := o.rich, dedup := d, bin := c.bin, cplx := c.cplx, thr := c.thr }

inductive Key where
  | ptr (id : Nat) | str (s : String) | leaf (k : Kind) (enc : String)
  deriving DecidableEq, Repr

structure St where
  vals : List (Key × Nat)
  ref : Nat
  deriving Repr

def St.init : St := { vals := [], ref := 0 }

def bump (st : St) : St := { st with ref := st.ref + 1 }

def addData (d : Sc) (st : St) : Ev × St := (.add d, bump st)

/-- `process`, first half: `if sc.dedupLevel == NoDedup { doer() }` else the map lookup -/
def seen (c : Cfg) (k : Key) (st : St) : Option Nat :=
  if c.dedup = 0 then none else st.vals.lookup k

/-- `process`, second half (after `doer()` returned `r`): the position is recorded only when the emitter consumed
    one, and only if the value has not been recorded meanwhile -/
def record (c : Cfg) (k : Key) (pos : Nat) (r : Ev × St) : Ev × St :=
  if c.dedup = 0 then r
  else if r.2.ref > pos then
    match r.2.vals.lookup k with
    | some _ => r
    | none => (r.1, { r.2 with vals := (k, pos) :: r.2.vals })
  else r

/-- toData, case px.StringValue: de-duplicated iff dedupLevel ≥ level ∧ len(bytes) ≥ threshold -/
def strData (c : Cfg) (level : Nat) (s : String) (st : St) : Ev × St :=
  if c.dedup ≥ level ∧ s.utf8ByteSize ≥ c.thr then
    match seen c (.str s) st with
    | some r => (.ref r, st)
    | none => record c (.str s) st.ref (addData (.str s) st)
  else addData (.str s) st

/-- the first three children of a `{__ptype: T, __pvalue: …}` hash: toData(2,typeKey); toData(tl,T); toData(2,valueKey)
    (`tl` = 1 except for named types) -/
def head3 (c : Cfg) (tl : Nat) (tname : String) (st : St) : List Ev × St :=
  let r1 := strData c 2 "__ptype" st
  let r2 := strData c tl tname r1.2
  let r3 := strData c 2 "__pvalue" r2.2
  ([r1.1, r2.1, r3.1], r3.2)

/-! ### base64 (StdEncoding, strict, padded) -/

/-- the digit of value `n < 64` in the alphabet A–Z a–z 0–9 + / -/
def b64Digit (n : Nat) : Char :=
  if n < 26 then Char.ofNat (65 + n) else if n < 52 then Char.ofNat (71 + n)
  else if n < 62 then Char.ofNat (n - 4) else if n = 62 then '+' else '/'

def b64Char (n : Nat) : Char := b64Digit (n % 64)

def b64Chars : List UInt8 → List Char
  | [] => []
  | [a] =>
    let n := a.toNat * 65536
    [b64Char (n / 262144), b64Char (n / 4096), '=', '=']
  | [a, b] =>
    let n := a.toNat * 65536 + b.toNat * 256
    [b64Char (n / 262144), b64Char (n / 4096), b64Char (n / 64), '=']
  | a :: b :: c :: rest =>
    let n := a.toNat * 65536 + b.toNat * 256 + c.toNat
    b64Char (n / 262144) :: b64Char (n / 4096) :: b64Char (n / 64) :: b64Char n :: b64Chars rest

def b64 (bs : List UInt8) : String := String.ofList (b64Chars bs)

def b64Val (c : Char) : Option Nat :=
  if 'A' ≤ c ∧ c ≤ 'Z' then some (c.toNat - 'A'.toNat)
  else if 'a' ≤ c ∧ c ≤ 'z' then some (c.toNat - 'a'.toNat + 26)
  else if '0' ≤ c ∧ c ≤ '9' then some (c.toNat - '0'.toNat + 52)
  else if c = '+' then some 62 else if c = '/' then some 63 else none

/-- strict decoding: groups of four; padding only in the last group and only over zero bits -/
def unb64Chars : List Char → Option (List UInt8)
  | [] => some []
  | a :: b :: c :: d :: rest =>
    if d = '=' then
      if rest ≠ [] then none
      else if c = '=' then
        match b64Val a, b64Val b with
        | some x, some y =>
          let n := x * 262144 + y * 4096
          if n % 65536 = 0 then some [UInt8.ofNat (n / 65536)] else none
        | _, _ => none
      else
        match b64Val a, b64Val b, b64Val c with
        | some x, some y, some z =>
          let n := x * 262144 + y * 4096 + z * 64
          if n % 256 = 0 then some [UInt8.ofNat (n / 65536), UInt8.ofNat (n / 256 % 256)] else none
        | _, _, _ => none
    else
      match b64Val a, b64Val b, b64Val c, b64Val d, unb64Chars rest with
      | some x, some y, some z, some w, some r =>
        let n := x * 262144 + y * 4096 + z * 64 + w
        some (UInt8.ofNat (n / 65536) :: UInt8.ofNat (n / 256 % 256) :: UInt8.ofNat (n % 256) :: r)
      | _, _, _, _, _ => none
  | _ => none

def unb64 (s : String) : Option (List UInt8) := unb64Chars s.toList

/-! ### `String()` of a value (unknownToStringWithWarning) -/

def sensitiveText : String := "Sensitive [value redacted]"

/-- `value.String()`; for floats and containers (not modelled) a placeholder that `dispOk` excludes -/
def V.disp : V → String
  | .undef => "undef" | .dflt => "default"
  | .bool b => if b then "true" else "false"
  | .int i => toString i
  | .flt _ => "?float"
  | .str s => s
  | .bin _ bs => b64 bs
  | .leaf _ _ _ d => d
  | .sens _ _ => sensitiveText
  | .arr _ _ => "?array"
  | .hash _ _ => "?hash"
  | .obj _ _ d _ => d

def V.isStr : V → Bool
  | .str _ => true | _ => false

/-- `hash.AllKeysAreStrings()` -/
def allStrKeys : List (V × V) → Bool
  | [] => true
  | (k, _) :: es => k.isStr && allStrKeys es

def leafKey (id : Nat) (k : Kind) (enc : String) : Key :=
  if k.byContent then .leaf k enc else .ptr id

/-! ### the serializer -/

mutual
/-- `context.toData(level, value)`: the event emitted and the new state -/
def toData (c : Cfg) (level : Nat) : V → St → Ev × St
  | .undef, st => addData .undef st
  | .bool b, st => addData (.bool b) st
  | .int i, st => addData (.int i) st
  | .flt f, st => addData (.flt f) st
  | .str s, st => strData c level s st
  | .dflt, st =>
    if c.rich then
      -- addHash(1){ toData(2,typeKey); toData(1,defaultType) }
      let r1 := strData c 2 "__ptype" (bump st)
      let r2 := strData c 1 "Default" r1.2
      (.hsh [r1.1, r2.1], r2.2)
    else strData c 1 "default" st
  | .hash id es, st =>
    match seen c (.ptr id) st with
    | some r => (.ref r, st)
    | none =>
      if c.cplx || allStrKeys es then
        let r := pairsData c es (bump st)
        record c (.ptr id) st.ref (.hsh r.1, r.2)
      else if c.rich then
        -- toKeyExtendedHash: {__ptype: Hash, __pvalue: [k, v, k, v, …]}
        let h := head3 c 1 "Hash" (bump st)
        let r := flatData c es (bump h.2)
        record c (.ptr id) st.ref (.hsh (h.1 ++ [.arr r.1]), r.2)
      else
        -- nonStringKeyedHashToData with rich_data=false: keys through String()
        let r := skeyData c es (bump st)
        record c (.ptr id) st.ref (.hsh r.1, r.2)
  | .arr id vs, st =>
    match seen c (.ptr id) st with
    | some r => (.ref r, st)
    | none =>
      let r := listData c vs (bump st)
      record c (.ptr id) st.ref (.arr r.1, r.2)
  | .sens id v, st =>
    match seen c (.ptr id) st with
    | some r => (.ref r, st)
    | none =>
      if c.rich then
        let h := head3 c 1 "Sensitive" (bump st)
        let r := toData c 1 v h.2
        record c (.ptr id) st.ref (.hsh (h.1 ++ [r.1]), r.2)
      else record c (.ptr id) st.ref (strData c level sensitiveText st)
  | .bin id bs, st =>
    match seen c (.ptr id) st with
    | some r => (.ref r, st)
    | none =>
      if c.bin then record c (.ptr id) st.ref (addData (.bin bs) st)
      else if c.rich then
        let h := head3 c 1 "Binary" (bump st)
        let r := strData c 1 (b64 bs) h.2
        record c (.ptr id) st.ref (.hsh (h.1 ++ [r.1]), r.2)
      else record c (.ptr id) st.ref (strData c level (b64 bs) st)
  | .leaf id k enc disp, st =>
    if c.rich then
      -- valueToDataHash, SerializeAsString: {__ptype: <type name>, __pvalue: SerializationString()}
      match seen c (leafKey id k enc) st with
      | some r => (.ref r, st)
      | none =>
        let h := head3 c k.typeLevel k.typeName (bump st)
        let r := strData c 1 enc h.2
        record c (leafKey id k enc) st.ref (.hsh (h.1 ++ [r.1]), r.2)
    else strData c 1 disp st        -- unknownToStringWithWarning(1, value), outside `process`
  | .obj id tn disp attrs, st =>
    if c.rich then
      -- valueToDataHash, PuppetObject: {__ptype: <type name>, <init hash entries>}
      match seen c (.ptr id) st with
      | some r => (.ref r, st)
      | none =>
        let r1 := strData c 2 "__ptype" (bump st)
        let r2 := strData c 1 tn r1.2
        let r3 := attrsData c attrs r2.2
        record c (.ptr id) st.ref (.hsh (r1.1 :: r2.1 :: r3.1), r3.2)
    else strData c 1 disp st

/-- array elements: toData(1, elem) -/
def listData (c : Cfg) : List V → St → List Ev × St
  | [], st => ([], st)
  | v :: vs, st =>
    let r1 := toData c 1 v st
    let r2 := listData c vs r1.2
    (r1.1 :: r2.1, r2.2)

/-- hash entries: toData(2, key); toData(1, value) -/
def pairsData (c : Cfg) : List (V × V) → St → List Ev × St
  | [], st => ([], st)
  | (k, v) :: es, st =>
    let r1 := toData c 2 k st
    let r2 := toData c 1 v r1.2
    let r3 := pairsData c es r2.2
    (r1.1 :: r2.1 :: r3.1, r3.2)

/-- toKeyExtendedHash: keys and values as array elements, both at level 1 -/
def flatData (c : Cfg) : List (V × V) → St → List Ev × St
  | [], st => ([], st)
  | (k, v) :: es, st =>
    let r1 := toData c 1 k st
    let r2 := toData c 1 v r1.2
    let r3 := flatData c es r2.2
    (r1.1 :: r2.1 :: r3.1, r3.2)

/-- nonStringKeyedHashToData (rich_data=false): a string key as it is, any other key through String(), level 2 -/
def skeyData (c : Cfg) : List (V × V) → St → List Ev × St
  | [], st => ([], st)
  | (k, v) :: es, st =>
    let r1 := strData c 2 k.disp st
    let r2 := toData c 1 v r1.2
    let r3 := skeyData c es r2.2
    (r1.1 :: r2.1 :: r3.1, r3.2)

/-- init hash entries of an object: toData(2, name); toData(1, value) -/
def attrsData (c : Cfg) : List (String × V) → St → List Ev × St
  | [], st => ([], st)
  | (k, v) :: as, st =>
    let r1 := strData c 2 k st
    let r2 := toData c 1 v r1.2
    let r3 := attrsData c as r2.2
    (r1.1 :: r2.1 :: r3.1, r3.2)
end

/-- `NewSerializer(ctx, opts).Convert(v, consumer)` -/
def serialize (o : Opts) (cp : Caps) (v : V) : Ev := (toData (mkCfg o cp) 1 v St.init).1

/-! ### the same serializer, executing the emit discipline read from the code (fact family `serarms`)

`toDataE E` is `toData` with the three emit primitives and the wrapper `process` executed as the regenerated statement
lists say (`E = emitOf Generated.serArms`): `E.*Pre` increments before the consumer call (the children of a container
see them), `E.*Post` after it; `E.recordAfter = false` is the wrapper before the fix (records the position first).
The driver runs `toDataE`; the theorems are proved for `toData`, and `toDataE Emit.std = toData`
(`Proofs/SerArms.lean`), with `emitOf Generated.serArms = Emit.std` an obligation discharged by `decide` on every run. -/

def bumpN (n : Nat) (st : St) : St := { st with ref := st.ref + n }

def addDataE (E : Emit) (d : Sc) (st : St) : Ev × St := (.add d, bumpN (E.dataPre + E.dataPost) st)

/-- the wrapper before running the emitter: the old code recorded the position here -/
def enterE (E : Emit) (c : Cfg) (k : Key) (st : St) : St :=
  if E.recordAfter || c.dedup = 0 then st else { st with vals := (k, st.ref) :: st.vals }

def recordE (E : Emit) (c : Cfg) (k : Key) (pos : Nat) (r : Ev × St) : Ev × St :=
  if E.recordAfter then record c k pos r else r

def strDataE (E : Emit) (c : Cfg) (level : Nat) (s : String) (st : St) : Ev × St :=
  if c.dedup ≥ level ∧ s.utf8ByteSize ≥ c.thr then
    match seen c (.str s) st with
    | some r => (.ref r, st)
    | none => recordE E c (.str s) st.ref (addDataE E (.str s) (enterE E c (.str s) st))
  else addDataE E (.str s) st

def head3E (E : Emit) (c : Cfg) (tl : Nat) (tname : String) (st : St) : List Ev × St :=
  let r1 := strDataE E c 2 "__ptype" st
  let r2 := strDataE E c tl tname r1.2
  let r3 := strDataE E c 2 "__pvalue" r2.2
  ([r1.1, r2.1, r3.1], r3.2)

mutual
def toDataE (E : Emit) (c : Cfg) (level : Nat) : V → St → Ev × St
  | .undef, st => addDataE E .undef st
  | .bool b, st => addDataE E (.bool b) st
  | .int i, st => addDataE E (.int i) st
  | .flt f, st => addDataE E (.flt f) st
  | .str s, st => strDataE E c level s st
  | .dflt, st =>
    if c.rich then
      let r1 := strDataE E c 2 "__ptype" (bumpN E.hashPre st)
      let r2 := strDataE E c 1 "Default" r1.2
      (.hsh [r1.1, r2.1], bumpN E.hashPost r2.2)
    else strDataE E c 1 "default" st
  | .hash id es, st =>
    match seen c (.ptr id) st with
    | some r => (.ref r, st)
    | none =>
      if c.cplx || allStrKeys es then
        let r := pairsDataE E c es (bumpN E.hashPre (enterE E c (.ptr id) st))
        recordE E c (.ptr id) st.ref (.hsh r.1, bumpN E.hashPost r.2)
      else if c.rich then
        let h := head3E E c 1 "Hash" (bumpN E.hashPre (enterE E c (.ptr id) st))
        let r := flatDataE E c es (bumpN E.arrPre h.2)
        recordE E c (.ptr id) st.ref (.hsh (h.1 ++ [.arr r.1]), bumpN E.hashPost (bumpN E.arrPost r.2))
      else
        let r := skeyDataE E c es (bumpN E.hashPre (enterE E c (.ptr id) st))
        recordE E c (.ptr id) st.ref (.hsh r.1, bumpN E.hashPost r.2)
  | .arr id vs, st =>
    match seen c (.ptr id) st with
    | some r => (.ref r, st)
    | none =>
      let r := listDataE E c vs (bumpN E.arrPre (enterE E c (.ptr id) st))
      recordE E c (.ptr id) st.ref (.arr r.1, bumpN E.arrPost r.2)
  | .sens id v, st =>
    match seen c (.ptr id) st with
    | some r => (.ref r, st)
    | none =>
      if c.rich then
        let h := head3E E c 1 "Sensitive" (bumpN E.hashPre (enterE E c (.ptr id) st))
        let r := toDataE E c 1 v h.2
        recordE E c (.ptr id) st.ref (.hsh (h.1 ++ [r.1]), bumpN E.hashPost r.2)
      else recordE E c (.ptr id) st.ref (strDataE E c level sensitiveText (enterE E c (.ptr id) st))
  | .bin id bs, st =>
    match seen c (.ptr id) st with
    | some r => (.ref r, st)
    | none =>
      if c.bin then recordE E c (.ptr id) st.ref (addDataE E (.bin bs) (enterE E c (.ptr id) st))
      else if c.rich then
        let h := head3E E c 1 "Binary" (bumpN E.hashPre (enterE E c (.ptr id) st))
        let r := strDataE E c 1 (b64 bs) h.2
        recordE E c (.ptr id) st.ref (.hsh (h.1 ++ [r.1]), bumpN E.hashPost r.2)
      else recordE E c (.ptr id) st.ref (strDataE E c level (b64 bs) (enterE E c (.ptr id) st))
  | .leaf id k enc disp, st =>
    if c.rich then
      match seen c (leafKey id k enc) st with
      | some r => (.ref r, st)
      | none =>
        let h := head3E E c k.typeLevel k.typeName (bumpN E.hashPre (enterE E c (leafKey id k enc) st))
        let r := strDataE E c 1 enc h.2
        recordE E c (leafKey id k enc) st.ref (.hsh (h.1 ++ [r.1]), bumpN E.hashPost r.2)
    else strDataE E c 1 disp st
  | .obj id tn disp attrs, st =>
    if c.rich then
      match seen c (.ptr id) st with
      | some r => (.ref r, st)
      | none =>
        let r1 := strDataE E c 2 "__ptype" (bumpN E.hashPre (enterE E c (.ptr id) st))
        let r2 := strDataE E c 1 tn r1.2
        let r3 := attrsDataE E c attrs r2.2
        recordE E c (.ptr id) st.ref (.hsh (r1.1 :: r2.1 :: r3.1), bumpN E.hashPost r3.2)
    else strDataE E c 1 disp st
def listDataE (E : Emit) (c : Cfg) : List V → St → List Ev × St
  | [], st => ([], st)
  | v :: vs, st =>
    let r1 := toDataE E c 1 v st
    let r2 := listDataE E c vs r1.2
    (r1.1 :: r2.1, r2.2)
def pairsDataE (E : Emit) (c : Cfg) : List (V × V) → St → List Ev × St
  | [], st => ([], st)
  | (k, v) :: es, st =>
    let r1 := toDataE E c 2 k st
    let r2 := toDataE E c 1 v r1.2
    let r3 := pairsDataE E c es r2.2
    (r1.1 :: r2.1 :: r3.1, r3.2)
def flatDataE (E : Emit) (c : Cfg) : List (V × V) → St → List Ev × St
  | [], st => ([], st)
  | (k, v) :: es, st =>
    let r1 := toDataE E c 1 k st
    let r2 := toDataE E c 1 v r1.2
    let r3 := flatDataE E c es r2.2
    (r1.1 :: r2.1 :: r3.1, r3.2)
def skeyDataE (E : Emit) (c : Cfg) : List (V × V) → St → List Ev × St
  | [], st => ([], st)
  | (k, v) :: es, st =>
    let r1 := strDataE E c 2 k.disp st
    let r2 := toDataE E c 1 v r1.2
    let r3 := skeyDataE E c es r2.2
    (r1.1 :: r2.1 :: r3.1, r3.2)
def attrsDataE (E : Emit) (c : Cfg) : List (String × V) → St → List Ev × St
  | [], st => ([], st)
  | (k, v) :: as, st =>
    let r1 := strDataE E c 2 k st
    let r2 := toDataE E c 1 v r1.2
    let r3 := attrsDataE E c as r2.2
    (r1.1 :: r2.1 :: r3.1, r3.2)
end

/-- `Convert` with the emit discipline `E` -/
def serializeE (E : Emit) (o : Opts) (cp : Caps) (v : V) : Ev := (toDataE E (mkCfg o cp) 1 v St.init).1

/-- is `String()` of everything the serializer would stringify modelled?  (only keys of non-string-keyed hashes with
    rich_data=false and no complex-key support can be floats or containers) -/
def V.keyDispOk : V → Bool
  | .flt _ => false | .arr _ _ => false | .hash _ _ => false | _ => true

mutual
def V.dispOk (c : Cfg) : V → Bool
  | .sens _ v => v.dispOk c
  | .arr _ vs => dispOkList c vs
  | .hash _ es => dispOkPairs c (!c.cplx && !c.rich && !allStrKeys es) es
  | .obj _ _ _ as => dispOkAttrs c as
  | _ => true
def dispOkList (c : Cfg) : List V → Bool
  | [] => true
  | v :: vs => v.dispOk c && dispOkList c vs
def dispOkPairs (c : Cfg) (strung : Bool) : List (V × V) → Bool
  | [] => true
  | (k, v) :: es => (if strung then k.keyDispOk else k.dispOk c) && v.dispOk c && dispOkPairs c strung es
def dispOkAttrs (c : Cfg) : List (String × V) → Bool
  | [] => true
  | (_, v) :: as => v.dispOk c && dispOkAttrs c as
end

/-! ### the collector (types/basiccollector.go) -/

/-- one position of `BasicCollector.values` -/
inductive Slot where
  | opened                -- AddArray/AddHash registered the container; its children are still being added
  | done (v : V)
  deriving Repr, Inhabited

inductive CErr where
  | badRef        -- AddRef(n): index out of range
  | cyclic        -- AddRef(n) to a container that is still open (not modelled: a cyclic value)
  | oddHash       -- AddHash: st[i+1] out of range
  deriving DecidableEq, Repr

def ofSc : Sc → V
  | .undef => .undef | .bool b => .bool b | .int i => .int i | .flt f => .flt f | .str s => .str s
  | .bin bs => .bin 0 bs

def pairUp : List V → Option (List (V × V))
  | [] => some []
  | [_] => none
  | k :: v :: rest => (pairUp rest).map ((k, v) :: ·)

mutual
/-- feed one event: the value appended to `stack[top]` and the new `values`; a container created at position `p`
    gets identity `p` -/
def collect : Ev → List Slot → Except CErr (V × List Slot)
  | .add d, vals => .ok (ofSc d, vals ++ [.done (ofSc d)])
  | .ref n, vals =>
    match vals[n]? with
    | none => .error .badRef
    | some .opened => .error .cyclic
    | some (.done v) => .ok (v, vals)
  | .arr es, vals =>
    match collectList es (vals ++ [.opened]) with
    | .error e => .error e
    | .ok (kids, vals') =>
      let v := V.arr vals.length kids
      .ok (v, vals'.set vals.length (.done v))
  | .hsh es, vals =>
    match collectList es (vals ++ [.opened]) with
    | .error e => .error e
    | .ok (kids, vals') =>
      match pairUp kids with
      | none => .error .oddHash
      | some ps =>
        let v := V.hash vals.length ps
        .ok (v, vals'.set vals.length (.done v))
def collectList : List Ev → List Slot → Except CErr (List V × List Slot)
  | [], vals => .ok ([], vals)
  | e :: es, vals =>
    match collect e vals with
    | .error x => .error x
    | .ok (v, vals') =>
      match collectList es vals' with
      | .error x => .error x
      | .ok (vs, vals'') => .ok (v :: vs, vals'')
end

/-! ### the deserializer (serialization/deserializer.go) -/

inductive DErr where
  | badType           -- __ptype is not a string (ParseTypeValue fails)
  | unresolved        -- __ptype names no known type
  | badValue          -- __pvalue has the wrong shape (type assertion / index out of range / UnableToDeserializeValue)
  | unmodelled        -- object instances
  deriving DecidableEq, Repr

structure DS where
  memo : List (Nat × V)      -- dsContext.converted, keyed by the identity of the data container
  next : Nat                 -- identity of the next value created
  deriving Repr

def DS.init : DS := { memo := [], next := 0 }

/-- is this key the string `name`? -/
def V.isKey (name : String) : V → Bool
  | .str s => s == name | _ => false

def hasKey (name : String) : List (V × V) → Bool
  | [] => false
  | (k, _) :: es => k.isKey name || hasKey name es

/-- `hash.Get4(name)`: the index maps a key to its LAST entry -/
def lookupLast (name : String) : List (V × V) → Option V
  | [] => none
  | (k, v) :: es =>
    if k.isKey name && !hasKey name es then some v else lookupLast name es

/-- the object types the loader knows (the harness's catalogue) -/
def objTypes : List String := ["Verif::Pair", "Verif::Box", "Verif::Unit", "Pcore::ObjectType"]
def isObjType (tn : String) : Bool := objTypes.contains tn

def kindOfTypeName (tn : String) : Option Kind := Kind.all.find? (fun k => k.typeName == tn)

/-- `px.New(ctx, ParseTypeValue(tn), str)` for the leaf types (the codecs are parameters: decoding is assumed to invert
    `SerializationString`) -/
def decodeLeaf (tn s : String) (nid : Nat) : Except DErr V :=
  if tn = "Binary" then
    match unb64 s with
    | some bs => .ok (.bin 0 bs)
    | none => .error .badValue
  else if tn = "Timespan" then
    -- the real codec (Model/SpanCodec.lean): ParseTimespan with the default format; the value is its nanoseconds
    match parseSpan s with
    | some ns => .ok (.leaf nid .ts (printSpan ns) "")
    | none => .error .badValue
  else
    match kindOfTypeName tn with
    | some k => .ok (.leaf nid k s "")
    | none => .error .unresolved

/-- is the payload of a leaf what its codec prints?  Timespan: the default format of some number of nanoseconds
    (real codec); Regexp: any source text (the codec is the identity on it); the other kinds are abstract -/
def canonLeaf : Kind → String → Bool
  | .ts, enc => canonSpan enc
  | _, _ => true

mutual
/-- `dsContext.convert` -/
def convert : V → DS → Except DErr (V × DS)
  | .arr id vs, ds =>
    match ds.memo.lookup id with
    | some cv => .ok (cv, ds)
    | none =>
      match convList vs { ds with next := ds.next + 1 } with
      | .error e => .error e
      | .ok (vs', ds') =>
        let r := V.arr ds.next vs'
        .ok (r, { ds' with memo := (id, r) :: ds'.memo })
  | .hash id es, ds =>
    match ds.memo.lookup id with
    | some cv => .ok (cv, ds)
    | none =>
      match (if allStrKeys es then lookupLast "__ptype" es else none) with
      | some pt =>
        match pt with
        | .str tn =>
          if tn = "Hash" then
            -- convertHash
            match convPVHash es { ds with next := ds.next + 1 } with
            | .error e => .error e
            | .ok (es', ds') =>
              let r := V.hash ds.next es'
              .ok (r, { ds' with memo := (id, r) :: ds'.memo })
          else if tn = "Sensitive" then
            -- convertSensitive
            match convPVSens es { ds with next := ds.next + 1 } with
            | .error e => .error e
            | .ok (v', ds') =>
              let r := V.sens ds.next v'
              .ok (r, { ds' with memo := (id, r) :: ds'.memo })
          else if tn = "Default" then .ok (.dflt, ds)
          else
            -- convertOther / pcoreTypeHashToValue with a string __pvalue
            match lookupLast "__pvalue" es with
            | some (.str s) =>
              match decodeLeaf tn s ds.next with
              | .error e => .error e
              | .ok r => .ok (r, { memo := (id, r) :: ds.memo, next := ds.next + 1 })
            | some (.hash _ _) => .error .unmodelled
            | none =>
              -- pcoreTypeHashToValue with the hash minus `__ptype` as named arguments: px.New(type, args)
              if isObjType tn then
                match convAttrs es { ds with next := ds.next + 1 } with
                | .error e => .error e
                | .ok (as', ds') =>
                  let r := V.obj ds.next tn "" as'
                  .ok (r, { ds' with memo := (id, r) :: ds'.memo })
              else .error .unmodelled
            | some _ => .error .badValue
        | _ => .error .badType
      | none =>
        match convPairs es { ds with next := ds.next + 1 } with
        | .error e => .error e
        | .ok (es', ds') =>
          let r := V.hash ds.next es'
          .ok (r, { ds' with memo := (id, r) :: ds'.memo })
  | v, ds => .ok (v, ds)

def convList : List V → DS → Except DErr (List V × DS)
  | [], ds => .ok ([], ds)
  | v :: vs, ds =>
    match convert v ds with
    | .error e => .error e
    | .ok (v', ds') =>
      match convList vs ds' with
      | .error e => .error e
      | .ok (vs', ds'') => .ok (v' :: vs', ds'')

def convPairs : List (V × V) → DS → Except DErr (List (V × V) × DS)
  | [], ds => .ok ([], ds)
  | (k, v) :: es, ds =>
    match convert k ds with
    | .error e => .error e
    | .ok (k', ds1) =>
      match convert v ds1 with
      | .error e => .error e
      | .ok (v', ds2) =>
        match convPairs es ds2 with
        | .error e => .error e
        | .ok (es', ds3) => .ok ((k', v') :: es', ds3)

/-- convertHash: `hv.Get5("__pvalue", EmptyArray).(px.List)`, entries taken two at a time -/
def convPVHash : List (V × V) → DS → Except DErr (List (V × V) × DS)
  | [], ds => .ok ([], ds)
  | (k, v) :: es, ds =>
    if k.isKey "__pvalue" && !hasKey "__pvalue" es then
      match v with
      | .arr _ xs => convFlat xs ds
      | _ => .error .badValue
    else convPVHash es ds

/-- convertSensitive: `ds.convert(hash.Get5("__pvalue", px.Undef))` -/
def convPVSens : List (V × V) → DS → Except DErr (V × DS)
  | [], ds => .ok (.undef, ds)
  | (k, v) :: es, ds =>
    if k.isKey "__pvalue" && !hasKey "__pvalue" es then convert v ds
    else convPVSens es ds

/-- `hash.RejectPairs(key == "__ptype")` converted: the named arguments of the object -/
def convAttrs : List (V × V) → DS → Except DErr (List (String × V) × DS)
  | [], ds => .ok ([], ds)
  | (k, v) :: es, ds =>
    match k with
    | .str s =>
      if s = "__ptype" then convAttrs es ds
      else
        match convert v ds with
        | .error e => .error e
        | .ok (v', ds1) =>
          match convAttrs es ds1 with
          | .error e => .error e
          | .ok (as', ds2) => .ok ((s, v') :: as', ds2)
    | _ => .error .badValue

def convFlat : List V → DS → Except DErr (List (V × V) × DS)
  | [], ds => .ok ([], ds)
  | [_], _ => .error .badValue
  | k :: v :: rest, ds =>
    match convert k ds with
    | .error e => .error e
    | .ok (k', ds1) =>
      match convert v ds1 with
      | .error e => .error e
      | .ok (v', ds2) =>
        match convFlat rest ds2 with
        | .error e => .error e
        | .ok (es', ds3) => .ok ((k', v') :: es', ds3)
end

inductive Err where
  | coll (e : CErr) | deser (e : DErr)
  deriving Repr

/-- feed the event to a fresh deserializer and take `Value()` -/
def deserialize (e : Ev) : Except Err V :=
  match collect e [] with
  | .error x => .error (.coll x)
  | .ok (d, _) =>
    match convert d DS.init with
    | .error x => .error (.deser x)
    | .ok (v, _) => .ok v

/-! ### values without identity (what equality sees; Sensitive by content) -/

inductive D where
  | undef | dflt | bool (b : Bool) | int (i : Int) | flt (bits : Nat) | str (s : String)
  | bin (bs : List UInt8) | leaf (k : Kind) (enc : String) | sens (d : D)
  | arr (ds : List D) | hash (es : List (D × D)) | obj (tn : String) (attrs : List (String × D))
  deriving Repr, Inhabited

mutual
def V.abs : V → D
  | .undef => .undef | .dflt => .dflt | .bool b => .bool b | .int i => .int i | .flt f => .flt f | .str s => .str s
  | .bin _ bs => .bin bs | .leaf _ k enc _ => .leaf k.canon enc | .sens _ v => .sens v.abs
  | .arr _ vs => .arr (absList vs) | .hash _ es => .hash (absPairs es) | .obj _ tn _ as => .obj tn (absAttrs as)
def absList : List V → List D
  | [] => [] | v :: vs => v.abs :: absList vs
def absPairs : List (V × V) → List (D × D)
  | [] => [] | (k, v) :: es => (k.abs, v.abs) :: absPairs es
def absAttrs : List (String × V) → List (String × D)
  | [] => [] | (k, v) :: as => (k, v.abs) :: absAttrs as
end

end Pcore.Ser
