import Pcore.Model.ValueEqVer
/-!
# Model of value equality and hash keys (property C07)  — core Lean only

Mirrors the Go code of /repo **as it is now** (after the `fix:` commits), function by function:

| Go                                                                          | Lean                         |
|-----------------------------------------------------------------------------|------------------------------|
| `types/integertype.go  integerValue.ToKey`   (`{1,'i'}` + 8 bytes big endian)  | `intKey`, `be64`, `u64OfInt` |
| `types/floattype.go    floatValue.ToKey`     (`-0.0` keyed like `0.0`)         | `floatKey`, `fnorm`          |
| `types/floattype.go    floatValue.Equals`    (IEEE `==`: NaN ≠ NaN, 0.0 = -0.0) | `feq`                        |
| `types/stringtype.go   stringValue.ToKey`    (the raw bytes)                   | `kb (.str s) = s`            |
| `types/undeftype.go / defaulttype.go / booleantype.go  ToKey`                | `kb` (first three arms)      |
| `types/regexptype.go   Regexp.ToKey / Equals` (pattern source)               | `kb`, `veq`                  |
| `types/timespantype.go Timespan.ToKey / Equals / Int` (whole seconds only!)   | `tsSecs`, `timespanKey`, `veq` |
| `types/timestamptype.go Timestamp.ToKey / Equals` (seconds and nanoseconds)   | `timestampKey`, `veq`        |
| `types/binarytype.go   Binary.ToKey / Equals`                                | `kb`, `veq`                  |
| `types/types.go        appendElementKey`     (uvarint length, string marker)   | `frame`, `mark`, `ek`        |
| `encoding/binary       PutUvarint`                                            | `uvarint`                    |
| `types/arraytype.go    Array.ToKey / Equals / Unique`                        | `kb`, `kbL`, `veq`, `veqL`, `unique` |
| `types/hashtype.go     HashEntry.ToKey / Equals` (keyed like the 2-array)     | `kb`, `veq`                  |
| `types/hashtype.go     Hash.ToKey` (entries sorted by their element keys)     | `kbE`, `sortB`, `bytesLe`    |
| `types/hashtype.go     Hash.valueIndex / get / Get / IncludesKey`            | `lookupLast`, `hashGet`      |
| `types/hashtype.go     MutableHashValue.Put / mergeEntries`                  | `hashPut`                    |
| `types/hashtype.go     Hash.Equals` (iterates the receiver's *index*)          | `veqE`                       |
| `types/sensitivetype.go Sensitive.Equals` (never), no `ToKey` (→ INVALID_MAP_KEY) | `veq`, `keyable`, `key`  |
| `types/types.go        appendKey` type arm + `appendTypeParamKey`            | `tyKey`, `tyKeys`         |
| `types/tupletype.go    TupleType.ToKey`      (given-or-actual size)            | `tyKey (.tup …)`             |
| `XxxType.Equals / Parameters` for Any Undef String Integer Float Enum Array Variant Tuple Optional Type | `tyEq`, `tyEqR`, `tyKey` |
| the same for Default Unit Scalar ScalarData Numeric Binary Data RichData SemVerRange (`.nul`), Boolean[v], Collection[size], NotUndef Sensitive Iterable Iterator (`.un`), String[size] / String['v'] (`NewStringType`, `vcStringType.ToKey`), Regexp[/p/], Pattern (unordered, like Enum), TypeReference | `tyEq`, `tyKey`, `wrapParam`, `mkStr` |
| `OptionalType.Parameters / NotUndefType.Parameters`: a wrapped `String['v']` is handed out as the STRING `'v'` | `wrapParam true` |
| `px/equality.go        IncludesAll` (the *other* list's member receives the call) | `anyL`, `inclR`        |
| `types/types.go        px.ToKey`                                              | `key`                        |
| `types/uritype.go      UriValue.Equals / ToKey` (`URL().String()`)            | `veq`, `kb` (`.uri`)         |
| `types/semvertype.go   SemVer.Equals / ToKey` (`Version.Equals`, `Version.ToString`) | `veq`, `kb` (`.semver`), `ValueEqVer.verEq/verStr` |
| `types/semverrangetype.go SemVerRange.Equals / ToKey` (`VersionRange.Equals`; the key is `ToNormalizedString`, /repo fix 2f932dc) | `veq`, `kb` (`.vrange`), `ValueEqVer.rangesEq/normStr` |
| `types/typedname.go    typedName.Equals` (`MapKey() ==`), no `ToKey`           | `veq` (`.tname`), `mkTname`  |
| `types/deferred.go     deferred.Equals` (name and the arguments as an Array), no `ToKey` | `veq` (`.deferred`)  |
| `internal/parameter.go parameter.Equals` (name, captures, HasValue, type, Value()), no `ToKey` | `veq` (`.param`) |
| `types/types.go        appendKey` last arm (`INVALID_MAP_KEY` for a value without `ToKey`) | `keyable`            |
| `types/objectvalue.go  attributeSlice.Equals`, `equalityPositions`, `valueAt` (an instance of an Object type: by position for the same type, by attribute NAME across two types without `equality_include_type`), no `ToKey` | `veq` (`.obj`), `objPre`, `objSelAt`, `veqSel`, `OType` |

Quirks reproduced on purpose: a top-level string is keyed by its raw bytes (so it can collide with another value's key:
known finding C07-raw-string-key); `Variant`/`Enum`/`Pattern` equality ignores member order, and so do their keys since the
/repo fix of finding C07-type-member-order (`unorderedParams`); `Hash.Equals` compares, per distinct key *bytes*, only the last entry of the receiver with the
last entry of the argument (so repeated keys are invisible); an `Array` of two equals the `HashEntry` with the same
two values (both directions) and has the same key.

Go runtime faults: `px.ToKey` of a value that contains a `Sensitive` panics with `INVALID_MAP_KEY`; the model's `key`
answers `none` exactly then (`keyable`).  `Equals`, `Get`, `Unique` reach that panic only through a Hash *key* that
contains a Sensitive (`hashKeysKeyable`); the driver prints `unkeyable` for such operands (so does the harness).

A SemVerRange is keyed by its normalized form, a function of the parsed ranges `Equals` compares (it was keyed by the string
it was parsed from: `1.x` and `>=1.0.0 <2.0.0` were Equal with different keys — finding C07-semver-range-original-key,
repaired in /repo 2f932dc); the original string is still what `String()` prints (`rangeStr`).
TypedName, Deferred and Parameter values have no `ToKey`: `px.ToKey` reports `INVALID_MAP_KEY` for them (and for every
container that holds one), exactly as for a Sensitive — but they do have an `Equals`.

Not modelled (no theorem speaks about them): reflected objects (`reflectedObject`), `objectType.Equals` itself (an op states the
descriptor of the instance's type; the harness checks it against `AttributesInfo()` and checks that two catalogue types are
`Equals` exactly when their descriptors are equal), and every type other than those listed above and below (URI[..], Init with
arguments, Timespan / Timestamp ranges, TypeSet, Object and alias types other than Data / RichData).

Also modelled (rows added late): `| SemVer[range], Hash[K,V,size], Like, Runtime, Callable (parameter Tuple / return / block), Struct,
Init[T]: XxxType.Equals / Parameters / ToKey | tyEq, tyKey, structEntryKey, acceptsUndef, rxTyKey |`.
-/
namespace Pcore.ValueEq

/-! ## leaf encodings -/

/-- 8 bytes, big endian (`byte(n >> 56)`, …, `byte(n)`) -/
def be64 (n : Nat) : Bytes :=
  [UInt8.ofNat (n / 72057594037927936 % 256), UInt8.ofNat (n / 281474976710656 % 256),
   UInt8.ofNat (n / 1099511627776 % 256), UInt8.ofNat (n / 4294967296 % 256),
   UInt8.ofNat (n / 16777216 % 256), UInt8.ofNat (n / 65536 % 256),
   UInt8.ofNat (n / 256 % 256), UInt8.ofNat (n % 256)]

/-- two's complement image of an `int64` -/
def u64OfInt (i : Int) : Nat := (i % 18446744073709551616).toNat

def intKey (i : Int) : Bytes := [1, 0x69] ++ be64 (u64OfInt i)

/-- IEEE-754 double given by its bits -/
def fIsNaN (b : Nat) : Bool := b / 4503599627370496 % 2048 == 2047 && b % 4503599627370496 != 0
def fIsZero (b : Nat) : Bool := b == 0 || b == 9223372036854775808
/-- Go's `==` on float64 -/
def feq (a b : Nat) : Bool := !fIsNaN a && !fIsNaN b && (a == b || (fIsZero a && fIsZero b))
/-- `if fv == 0 { fv = 0 }` -/
def fnorm (b : Nat) : Nat := if fIsZero b then 0 else b
def floatKey (b : Nat) : Bytes := [1, 0x66] ++ be64 (fnorm b)

/-- `Timespan.Int()`: `Nanoseconds() / 1e9`, Go's integer division (truncation towards zero) -/
def tsSecs (nanos : Int) : Int := Int.tdiv nanos 1000000000
/-- `Timespan.ToKey`: the whole seconds only -/
def timespanKey (nanos : Int) : Bytes := [1, 0x44] ++ be64 (u64OfInt (tsSecs nanos))
/-- `Timestamp.ToKey`: `Unix()` then `Nanosecond()`, eight bytes each -/
def timestampKey (secs nanos : Int) : Bytes := [1, 0x54] ++ (be64 (u64OfInt secs) ++ be64 (u64OfInt nanos))

def boolKey (b : Bool) : Bytes := [1, 0x62, if b then 1 else 0]
def undefKey : Bytes := [1, 0x75]
def defaultKey : Bytes := [1, 0x64]

/-- `binary.PutUvarint`: 7 bits per byte, least significant group first, high bit = "more follow".
    `fuel` only makes the recursion structural; `uvarint` supplies enough of it. -/
def uvarintAux : Nat → Nat → Bytes
  | 0, n => [UInt8.ofNat n]
  | f + 1, n => if n < 128 then [UInt8.ofNat n] else UInt8.ofNat (n % 128 + 128) :: uvarintAux f (n / 128)

def uvarint (n : Nat) : Bytes := uvarintAux n n

/-- `appendElementKey`: the length of the element's key, then the key -/
def frame (bs : Bytes) : Bytes := uvarint bs.length ++ bs

/-- the marker `{1,'s'}` that `appendElementKey` puts in front of a string -/
def strMark : Bytes := [1, 0x73]

def ekStr (s : Bytes) : Bytes := frame (strMark ++ s)
def ekInt (i : Int) : Bytes := frame (intKey i)
def ekFloat (b : Nat) : Bytes := frame (floatKey b)
def ekDefault : Bytes := frame defaultKey
def ekBool (b : Bool) : Bytes := frame (boolKey b)

/-- Go string comparison (`sort.Strings`): bytewise lexicographic, a proper prefix first -/
def bytesLe : Bytes → Bytes → Bool
  | [], _ => true
  | _ :: _, [] => false
  | a :: as, b :: bs => if a < b then true else if b < a then false else bytesLe as bs

def insertB (x : Bytes) : List Bytes → List Bytes
  | [] => [x]
  | y :: ys => if bytesLe x y then x :: y :: ys else y :: insertB x ys

/-- `sort.Strings` (equal strings are indistinguishable, so stability does not matter) -/
def sortB : List Bytes → List Bytes
  | [] => []
  | x :: xs => insertB x (sortB xs)

/-- drop repeated neighbours (of a sorted list: the distinct members) -/
def dedupS : List Bytes → List Bytes
  | [] => []
  | [x] => [x]
  | x :: y :: r => if x == y then dedupS (y :: r) else x :: dedupS (y :: r)

def flat : List Bytes → Bytes
  | [] => []
  | x :: xs => x ++ flat xs

/-! ## types as values -/

def minInt : Int := -9223372036854775808
def maxInt : Int := 9223372036854775807
def maxFloatBits : Nat := 9218868437227405311        -- math.MaxFloat64
def negMaxFloatBits : Nat := 18442240474082181119    -- -math.MaxFloat64

/-- the types without parameters (`XxxType.Equals` is a bare type assertion; `Data` / `RichData` are the two built-in aliases) -/
inductive NulK where
  | dflt | unit | scalar | scalarData | numeric | binary | data | richData | semverRange
  deriving DecidableEq, Inhabited

/-- the types that wrap one type parameter, absent when it is `Any` (like Optional and Type) -/
inductive UnK where
  | notUndef | sensitive | iterable | iterator
  deriving DecidableEq, Inhabited

inductive Ty where
  | any | undef | str
  | int (lo hi : Int)
  | flt (lo hi : Nat)
  | enum (ci : Bool) (vals : List Bytes)
  | arr (e : Ty) (lo hi : Int)
  | var (ts : List Ty)
  | tup (ts : List Ty) (size : Option (Int × Int))
  | opt (t : Ty)
  | typ (t : Ty)
  | nul (k : NulK)
  | bool (v : Option Bool)              -- `Boolean`, `Boolean[true]`, `Boolean[false]`
  | coll (lo hi : Int)                  -- `Collection[size]`
  | un (k : UnK) (t : Ty)
  | strSize (lo hi : Int)               -- `scStringType`: `String[lo, hi]`
  | strVal (v : Bytes)                  -- `vcStringType`: `String['v']`
  | rx (pat : Bytes)                    -- `Regexp[/pat/]` (`[]` = the default)
  | pattern (pats : List Bytes)         -- `Pattern[/a/, /b/]`
  | tref (s : Bytes)                    -- `TypeReference['s']`
  | semverT (orig : Bytes) (rs : List ARange)   -- `SemVer[range]`: the string the range was parsed from, and the parsed ranges
  | hash (k v : Ty) (lo hi : Int)               -- `Hash[K, V, lo, hi]`
  | like (base : Ty) (nav : Bytes)              -- `Like[T, 'navigation']`
  -- `NewCallableType(params, return, block)`: each part present or absent (`has… = false`: the type beside it is ignored)
  | callable (has : Bool) (ts : List Ty) (hasR : Bool) (ret : Ty) (hasB : Bool) (blk : Ty)
  | runtime (rt name : Bytes) (pat : Option Bytes)   -- `Runtime['rt', 'name', Regexp[/pat/]]`
  | struct (es : List (Bytes × Bool × Ty))      -- `Struct[{…}]`: per member its name, "the key is Optional[name]", the value type
  | init (has : Bool) (t : Ty)                  -- `Init` (`has = false`) / `Init[T]` (no arguments: they are values)
  deriving Inhabited

def Ty.isAny : Ty → Bool
  | .any => true
  | _ => false

def Ty.isUnit : Ty → Bool
  | .nul .unit => true
  | _ => false

def Ty.name : Ty → Bytes
  | .any => [0x41, 0x6e, 0x79] | .undef => [0x55, 0x6e, 0x64, 0x65, 0x66] | .str => [0x53, 0x74, 0x72, 0x69, 0x6e, 0x67]
  | .int _ _ => [0x49, 0x6e, 0x74, 0x65, 0x67, 0x65, 0x72] | .flt _ _ => [0x46, 0x6c, 0x6f, 0x61, 0x74] | .enum _ _ => [0x45, 0x6e, 0x75, 0x6d]
  | .arr _ _ _ => [0x41, 0x72, 0x72, 0x61, 0x79] | .var _ => [0x56, 0x61, 0x72, 0x69, 0x61, 0x6e, 0x74] | .tup _ _ => [0x54, 0x75, 0x70, 0x6c, 0x65]
  | .opt _ => [0x4f, 0x70, 0x74, 0x69, 0x6f, 0x6e, 0x61, 0x6c] | .typ _ => [0x54, 0x79, 0x70, 0x65]
  | .nul .dflt => [0x44, 0x65, 0x66, 0x61, 0x75, 0x6c, 0x74] | .nul .unit => [0x55, 0x6e, 0x69, 0x74]
  | .nul .scalar => [0x53, 0x63, 0x61, 0x6c, 0x61, 0x72] | .nul .scalarData => [0x53, 0x63, 0x61, 0x6c, 0x61, 0x72, 0x44, 0x61, 0x74, 0x61]
  | .nul .numeric => [0x4e, 0x75, 0x6d, 0x65, 0x72, 0x69, 0x63] | .nul .binary => [0x42, 0x69, 0x6e, 0x61, 0x72, 0x79]
  | .nul .data => [0x44, 0x61, 0x74, 0x61] | .nul .richData => [0x52, 0x69, 0x63, 0x68, 0x44, 0x61, 0x74, 0x61]
  | .nul .semverRange => [0x53, 0x65, 0x6d, 0x56, 0x65, 0x72, 0x52, 0x61, 0x6e, 0x67, 0x65]
  | .bool _ => [0x42, 0x6f, 0x6f, 0x6c, 0x65, 0x61, 0x6e] | .coll _ _ => [0x43, 0x6f, 0x6c, 0x6c, 0x65, 0x63, 0x74, 0x69, 0x6f, 0x6e]
  | .un .notUndef _ => [0x4e, 0x6f, 0x74, 0x55, 0x6e, 0x64, 0x65, 0x66] | .un .sensitive _ => [0x53, 0x65, 0x6e, 0x73, 0x69, 0x74, 0x69, 0x76, 0x65]
  | .un .iterable _ => [0x49, 0x74, 0x65, 0x72, 0x61, 0x62, 0x6c, 0x65] | .un .iterator _ => [0x49, 0x74, 0x65, 0x72, 0x61, 0x74, 0x6f, 0x72]
  | .strSize _ _ => [0x53, 0x74, 0x72, 0x69, 0x6e, 0x67] | .strVal _ => [0x53, 0x74, 0x72, 0x69, 0x6e, 0x67]
  | .rx _ => [0x52, 0x65, 0x67, 0x65, 0x78, 0x70] | .pattern _ => [0x50, 0x61, 0x74, 0x74, 0x65, 0x72, 0x6e]
  | .tref _ => [0x54, 0x79, 0x70, 0x65, 0x52, 0x65, 0x66, 0x65, 0x72, 0x65, 0x6e, 0x63, 0x65]
  | .semverT _ _ => [0x53, 0x65, 0x6d, 0x56, 0x65, 0x72]
  | .hash _ _ _ _ => [0x48, 0x61, 0x73, 0x68] | .like _ _ => [0x4c, 0x69, 0x6b, 0x65]
  | .callable _ _ _ _ _ _ => [0x43, 0x61, 0x6c, 0x6c, 0x61, 0x62, 0x6c, 0x65]
  | .runtime _ _ _ => [0x52, 0x75, 0x6e, 0x74, 0x69, 0x6d, 0x65]
  | .struct _ => [0x53, 0x74, 0x72, 0x75, 0x63, 0x74]
  | .init _ _ => [0x49, 0x6e, 0x69, 0x74]

/-- `utils.ContainsAllStrings(a, b)`: every member of `b` occurs in `a` -/
def containsAll (a b : List Bytes) : Bool := b.all fun s => a.contains s

/-- `IntegerType.Parameters()` -/
def intParams (lo hi : Int) : Bytes :=
  if lo = minInt then (if hi = maxInt then [] else ekDefault ++ ekInt hi)
  else if hi = maxInt then ekInt lo else ekInt lo ++ ekInt hi

/-- `FloatType.Parameters()` (`==` on floats) -/
def fltParams (lo hi : Nat) : Bytes :=
  if feq lo negMaxFloatBits then (if feq hi maxFloatBits then [] else ekDefault ++ ekFloat hi)
  else if feq hi maxFloatBits then ekFloat lo else ekFloat lo ++ ekFloat hi

/-- `IntegerType.SizeParameters()` -/
def sizeParams (lo hi : Int) : Bytes := ekInt lo ++ (if hi = maxInt then ekDefault else ekInt hi)

def enumParams : List Bytes → Bytes
  | [] => []
  | s :: ss => ekStr s ++ enumParams ss

/-- `appendDelimited` of every key -/
def frames : List Bytes → Bytes
  | [] => []
  | k :: ks => frame k ++ frames ks

/-- `appendUnorderedTypeParamKeys`: the number of parameters, then the distinct element keys in ascending order — the key of a
    type whose `Equals` compares the parameters as a set of a given size (Variant, Enum, Pattern) -/
def unorderedParams (keys : List Bytes) : Bytes := ekInt keys.length ++ frames (dedupS (sortB keys))

/-- the element keys of the parameters of an Enum: the marked strings, then `true` when it is case-insensitive -/
def enumKeys (ci : Bool) (vals : List Bytes) : List Bytes := vals.map (strMark ++ ·) ++ (if ci then [boolKey true] else [])

mutual
/-- `isAssignable(t, Undef)`: the types of the model that accept `undef` (a Struct member whose value type does is written with
    another entry key) -/
def acceptsUndef : Ty → Bool
  | .any => true | .undef => true | .opt _ => true
  | .nul .unit => true | .nul .data => true | .nul .richData => true
  | .var ts => acceptsUndefL ts
  | _ => false
def acceptsUndefL : List Ty → Bool
  | [] => false
  | t :: ts => acceptsUndef t || acceptsUndefL ts
end

/-- the keys of the types `Optional['name']` and `NotUndef['name']` (how `StructType.Parameters()` writes some member keys) -/
def optStrKey (n : Bytes) : Bytes := [1, 0x74] ++ ekStr [0x4f, 0x70, 0x74, 0x69, 0x6f, 0x6e, 0x61, 0x6c] ++ ekStr n
def notUndefStrKey (n : Bytes) : Bytes := [1, 0x74] ++ ekStr [0x4e, 0x6f, 0x74, 0x55, 0x6e, 0x64, 0x65, 0x66] ++ ekStr n

/-- the entry key of a Struct member in `Parameters()`: the plain name when "optional key" and "value accepts undef" agree, else
    the type `Optional['name']` (optional key, the value does not accept undef) or `NotUndef['name']` (required key, it does) -/
def structEntryKey (n : Bytes) (optKey optVal : Bool) : Bytes :=
  if optKey then (if optVal then strMark ++ n else optStrKey n)
  else (if optVal then notUndefStrKey n else strMark ++ n)

/-- the key of a Regexp VALUE (`Regexp.ToKey`): what a Regexp / Pattern type has as a parameter -/
def rxKey (p : Bytes) : Bytes := [1, 0x72] ++ p

/-- `semver.MatchAll`: the one range `>=0.0.0-` (the range of the default SemVer type) -/
def matchAllR : List ARange := [.simple ⟨.ge, verMin⟩]

/-- the key of the type `Regexp[/p/]` (a parameter of a Runtime type) -/
def rxTyKey (p : Bytes) : Bytes := [1, 0x74] ++ ekStr [0x52, 0x65, 0x67, 0x65, 0x78, 0x70] ++ (if p.isEmpty then [] else frame (rxKey p))

/-- `TypeReference`'s default type string -/
def unresolvedRef : Bytes :=
  [0x55, 0x6e, 0x72, 0x65, 0x73, 0x6f, 0x6c, 0x76, 0x65, 0x64, 0x52, 0x65, 0x66, 0x65, 0x72, 0x65, 0x6e, 0x63, 0x65]

/-- the one parameter of a wrapper type, given the key `k` of the wrapped type `t`: absent when `t` is Any;
    `OptionalType.Parameters` / `NotUndefType.Parameters` (`quirk`) hand out the STRING `'v'` for a wrapped `String['v']` -/
def wrapParam (quirk : Bool) (t : Ty) (k : Bytes) : Bytes :=
  if t.isAny then []
  else match quirk, t with
    | true, .strVal v => if v.isEmpty then frame k else ekStr v
    | _, _ => frame k

/-- the size a Tuple's `Equals` and `ToKey` look at: the given one, else the number of types -/
def goaSize (n : Nat) : Option (Int × Int) → Int × Int
  | some s => s
  | none => (n, n)

mutual
/-- `appendKey`, type arm: `{1,'t'}`, the framed name, every parameter framed (`appendTypeParamKey`);
    `TupleType.ToKey` for Tuple -/
def tyKey : Ty → Bytes
  | .any => [1, 0x74] ++ ekStr Ty.any.name
  | .undef => [1, 0x74] ++ ekStr Ty.undef.name
  | .str => [1, 0x74] ++ ekStr Ty.str.name
  | .int lo hi => [1, 0x74] ++ ekStr (Ty.int lo hi).name ++ intParams lo hi
  | .flt lo hi => [1, 0x74] ++ ekStr (Ty.flt lo hi).name ++ fltParams lo hi
  | .enum ci vals => [1, 0x74] ++ ekStr (Ty.enum ci vals).name ++ unorderedParams (enumKeys ci vals)
  | .arr e lo hi =>
      -- `ArrayType.Parameters()`: the element type unless it is Any (kept for the size [0,0]: `Array[0, 0]` is the
      -- type of the empty array, whose element type is Unit — which is the one left out for that size), the size unless
      -- it is Integer[0]
      [1, 0x74] ++ ekStr [0x41, 0x72, 0x72, 0x61, 0x79] ++
        (if (e.isAny ∧ ¬ (lo = 0 ∧ hi = 0)) ∨ (e.isUnit ∧ (lo = 0 ∧ hi = 0)) then [] else frame (tyKey e)) ++
        (if lo = 0 ∧ hi = maxInt then [] else sizeParams lo hi)
  | .var ts => [1, 0x74] ++ ekStr [0x56, 0x61, 0x72, 0x69, 0x61, 0x6e, 0x74] ++ unorderedParams (tyKeyL ts)
  | .tup ts size =>
      [1, 0x74] ++ ekStr [0x54, 0x75, 0x70, 0x6c, 0x65] ++ tyKeys ts ++ sizeParams (goaSize ts.length size).1 (goaSize ts.length size).2
  | .opt t => [1, 0x74] ++ ekStr [0x4f, 0x70, 0x74, 0x69, 0x6f, 0x6e, 0x61, 0x6c] ++ wrapParam true t (tyKey t)
  | .typ t => [1, 0x74] ++ ekStr [0x54, 0x79, 0x70, 0x65] ++ wrapParam false t (tyKey t)
  | .nul k => [1, 0x74] ++ ekStr (Ty.nul k).name
  | .bool v => [1, 0x74] ++ ekStr (Ty.bool v).name ++ (match v with | none => [] | some b => ekBool b)
  | .coll lo hi => [1, 0x74] ++ ekStr (Ty.coll lo hi).name ++ (if lo = 0 ∧ hi = maxInt then [] else sizeParams lo hi)
  | .un k t => [1, 0x74] ++ ekStr (Ty.un k .any).name ++ wrapParam (k == .notUndef) t (tyKey t)
  | .strSize lo hi => [1, 0x74] ++ ekStr (Ty.strSize lo hi).name ++ intParams lo hi     -- `t.size.Parameters()`
  | .strVal v => [1, 0x74] ++ ekStr (Ty.strVal v).name ++ ekStr v                        -- `vcStringType.ToKey`
  | .rx p => rxTyKey p
  | .pattern ps => [1, 0x74] ++ ekStr (Ty.pattern ps).name ++ unorderedParams (ps.map rxKey)
  | .tref s => [1, 0x74] ++ ekStr (Ty.tref s).name ++ (if s = unresolvedRef then [] else ekStr s)
  -- `SemVerType.ToKey` (/repo fix 1eb7fb4): the NORMALIZED range, absent for `MatchAll`
  | .semverT o rs => [1, 0x74] ++ ekStr (Ty.semverT o rs).name ++ (if rangesEq rs matchAllR then [] else ekStr (normStr rs))
  -- `HashType.Parameters()`: nothing for the default, `0, 0` for the empty hash type (Unit, Unit, [0,0]), else both types and
  -- the size unless it is Integer[0]
  | .hash k v lo hi => [1, 0x74] ++ ekStr (Ty.hash k v lo hi).name ++
      (if (k.isAny ∧ v.isAny) ∧ (lo = 0 ∧ hi = maxInt) then []
       else if (k.isUnit ∧ v.isUnit) ∧ (lo = 0 ∧ hi = 0) then ekInt 0 ++ ekInt 0
       else frame (tyKey k) ++ (frame (tyKey v) ++ (if lo = 0 ∧ hi = maxInt then [] else sizeParams lo hi)))
  | .like b n => [1, 0x74] ++ ekStr (Ty.like b n).name ++ (if b.isAny ∧ n.isEmpty then [] else frame (tyKey b) ++ ekStr n)
  -- `CallableType.ToKey` (/repo fix a044786): the three parts `Equals` compares — parameter Tuple (through `TupleType.ToKey`),
  -- return type, block type — an absent one as undef (the model has neither a return nor a block type)
  | .callable h ts hr r hb b => [1, 0x74] ++ ekStr [0x43, 0x61, 0x6c, 0x6c, 0x61, 0x62, 0x6c, 0x65] ++
      (frame (if h then [1, 0x74] ++ ekStr [0x54, 0x75, 0x70, 0x6c, 0x65] ++ tyKeys ts ++ sizeParams ts.length ts.length
              else undefKey) ++
       (frame (if hr then tyKey r else undefKey) ++ frame (if hb then tyKey b else undefKey)))
  -- `RuntimeType.Parameters()` (/repo fixes 1cd0d3f, f14f4ca): nothing for the default only; else the runtime, the name unless
  -- it is empty AND no pattern follows, the pattern (a Regexp type) if there is one
  -- `StructType.Parameters()` is ONE hash; `appendTypeParamKey` (/repo fix 61b915c) writes byte 2, the number of entries, then
  -- per entry its key as an element key, byte 3, the value type as an element key; nothing for the default Struct
  | .struct es => [1, 0x74] ++ ekStr (Ty.struct es).name ++ (if es.isEmpty then [] else 2 :: (ekInt es.length ++ tyKeyS es))
  -- `InitType.Parameters()` without arguments: the type if there is one
  | .init h t => [1, 0x74] ++ ekStr (Ty.init h t).name ++ (if h then frame (tyKey t) else [])
  | .runtime rt n p => [1, 0x74] ++ ekStr (Ty.runtime rt n p).name ++
      (if (rt.isEmpty ∧ n.isEmpty) ∧ p.isNone then []
       else ekStr rt ++ ((if n.isEmpty ∧ p.isNone then [] else ekStr n) ++ (match p with | none => [] | some p => frame (rxTyKey p))))
def tyKeys : List Ty → Bytes
  | [] => []
  | t :: ts => frame (tyKey t) ++ tyKeys ts
/-- the element keys of the members of a Variant -/
def tyKeyL : List Ty → List Bytes
  | [] => []
  | t :: ts => tyKey t :: tyKeyL ts
/-- the entries of the parameter hash of a Struct -/
def tyKeyS : List (Bytes × Bool × Ty) → Bytes
  | [] => []
  | (n, o, v) :: es => frame (structEntryKey n o (acceptsUndef v)) ++ (3 :: (frame (tyKey v) ++ tyKeyS es))
end

mutual
/-- `a.Equals(b)` -/
def tyEq : Ty → Ty → Bool
  | .any, b => match b with | .any => true | _ => false
  | .undef, b => match b with | .undef => true | _ => false
  | .str, b => match b with | .str => true | _ => false
  | .int lo hi, b => match b with | .int lo' hi' => lo == lo' && hi == hi' | _ => false
  | .flt lo hi, b => match b with | .flt lo' hi' => feq lo lo' && feq hi hi' | _ => false
  | .enum ci vs, b =>
      match b with
      | .enum ci' vs' => ci == ci' && vs.length == vs'.length && containsAll vs vs' && containsAll vs' vs
      | _ => false
  | .arr e lo hi, b => match b with | .arr e' lo' hi' => (lo == lo' && hi == hi') && tyEq e e' | _ => false
  | .var ts, b =>
      match b with
      -- IncludesAll(t.types, ot.types): for every v of the receiver some ov of the argument with ov.Equals(v);
      -- IncludesAll(ot.types, t.types): for every v of the argument some ov of the receiver with ov.Equals(v)
      | .var us => ts.length == us.length && inclR ts us && us.all (fun v => anyL ts v)
      | _ => false
  | .tup ts sz, b =>
      match b with
      | .tup us sz' => ts.length == us.length && goaSize ts.length sz == goaSize us.length sz' && tyEqL ts us
      | _ => false
  | .opt t, b => match b with | .opt u => tyEq t u | _ => false
  | .typ t, b => match b with | .typ u => tyEq t u | _ => false
  | .nul k, b => match b with | .nul k' => k == k' | _ => false
  | .bool v, b => match b with | .bool v' => v == v' | _ => false
  | .coll lo hi, b => match b with | .coll lo' hi' => lo == lo' && hi == hi' | _ => false
  | .un k t, b => match b with | .un k' u => k == k' && tyEq t u | _ => false
  | .strSize lo hi, b => match b with | .strSize lo' hi' => lo == lo' && hi == hi' | _ => false
  | .strVal v, b => match b with | .strVal v' => v == v' | _ => false
  | .rx p, b => match b with | .rx p' => p == p' | _ => false
  | .pattern ps, b =>
      match b with
      | .pattern ps' => ps.length == ps'.length && containsAll ps ps' && containsAll ps' ps
      | _ => false
  | .tref s, b => match b with | .tref s' => s == s' | _ => false
  | .semverT _ rs, b => match b with | .semverT _ rs' => rangesEq rs rs' | _ => false
  | .hash k v lo hi, b => match b with | .hash k' v' lo' hi' => (lo == lo' && hi == hi') && tyEq k k' && tyEq v v' | _ => false
  | .like t n, b => match b with | .like t' n' => n == n' && tyEq t t' | _ => false
  -- `CallableType.Equals` (/repo fix 3d635fb): the parameter Tuples are both absent, or Equal (here: no explicit size, so the
  -- same number of members, pairwise Equal)
  | .callable h ts hr r hb bl, b =>
      match b with
      | .callable h' us hr' r' hb' bl' =>
        (h == h' && (!h || (ts.length == us.length && tyEqL ts us))) && ((hr == hr' && (!hr || tyEq r r')) && (hb == hb' && (!hb || tyEq bl bl')))
      | _ => false
  | .runtime rt n p, b => match b with | .runtime rt' n' p' => rt == rt' && n == n' && p == p' | _ => false
  | .struct es, b => match b with | .struct fs => es.length == fs.length && tyEqS es fs | _ => false
  | .init h t, b => match b with | .init h' u => h == h' && (!h || tyEq t u) | _ => false
termination_by structural a => a
/-- `b.Equals(a)` (the argument receives the call), by recursion on `a` -/
def tyEqR : Ty → Ty → Bool
  | .any, b => match b with | .any => true | _ => false
  | .undef, b => match b with | .undef => true | _ => false
  | .str, b => match b with | .str => true | _ => false
  | .int lo hi, b => match b with | .int lo' hi' => lo' == lo && hi' == hi | _ => false
  | .flt lo hi, b => match b with | .flt lo' hi' => feq lo' lo && feq hi' hi | _ => false
  | .enum ci vs, b =>
      match b with
      | .enum ci' vs' => ci' == ci && vs'.length == vs.length && containsAll vs' vs && containsAll vs vs'
      | _ => false
  | .arr e lo hi, b => match b with | .arr e' lo' hi' => (lo' == lo && hi' == hi) && tyEqR e e' | _ => false
  | .var ts, b =>
      match b with
      | .var us => us.length == ts.length && us.all (fun v => anyL ts v) && inclR ts us
      | _ => false
  | .tup ts sz, b =>
      match b with
      | .tup us sz' => us.length == ts.length && goaSize us.length sz' == goaSize ts.length sz && tyEqRL ts us
      | _ => false
  | .opt t, b => match b with | .opt u => tyEqR t u | _ => false
  | .typ t, b => match b with | .typ u => tyEqR t u | _ => false
  | .nul k, b => match b with | .nul k' => k' == k | _ => false
  | .bool v, b => match b with | .bool v' => v' == v | _ => false
  | .coll lo hi, b => match b with | .coll lo' hi' => lo' == lo && hi' == hi | _ => false
  | .un k t, b => match b with | .un k' u => k' == k && tyEqR t u | _ => false
  | .strSize lo hi, b => match b with | .strSize lo' hi' => lo' == lo && hi' == hi | _ => false
  | .strVal v, b => match b with | .strVal v' => v' == v | _ => false
  | .rx p, b => match b with | .rx p' => p' == p | _ => false
  | .pattern ps, b =>
      match b with
      | .pattern ps' => ps'.length == ps.length && containsAll ps' ps && containsAll ps ps'
      | _ => false
  | .tref s, b => match b with | .tref s' => s' == s | _ => false
  | .semverT _ rs, b => match b with | .semverT _ rs' => rangesEq rs' rs | _ => false
  | .hash k v lo hi, b => match b with | .hash k' v' lo' hi' => (lo' == lo && hi' == hi) && tyEqR k k' && tyEqR v v' | _ => false
  | .like t n, b => match b with | .like t' n' => n' == n && tyEqR t t' | _ => false
  | .callable h ts hr r hb bl, b =>
      match b with
      | .callable h' us hr' r' hb' bl' =>
        (h' == h && (!h || (us.length == ts.length && tyEqRL ts us))) && ((hr' == hr && (!hr || tyEqR r r')) && (hb' == hb && (!hb || tyEqR bl bl')))
      | _ => false
  | .runtime rt n p, b => match b with | .runtime rt' n' p' => rt' == rt && n' == n && p' == p | _ => false
  | .struct es, b => match b with | .struct fs => fs.length == es.length && tyEqRS es fs | _ => false
  | .init h t, b => match b with | .init h' u => h' == h && (!h || tyEqR t u) | _ => false
termination_by structural a => a
/-- pointwise `ts[i].Equals(us[i])` (lengths already compared) -/
def tyEqL : List Ty → List Ty → Bool
  | [], _ => true
  | t :: ts, us => match us with | u :: us' => tyEq t u && tyEqL ts us' | [] => false
termination_by structural ts => ts
def tyEqRL : List Ty → List Ty → Bool
  | [], _ => true
  | t :: ts, us => match us with | u :: us' => tyEqR t u && tyEqRL ts us' | [] => false
termination_by structural ts => ts
/-- `StructElement.Equals`, member by member: the key types (`String['n']` or `Optional['n']`) and the value types -/
def tyEqS : List (Bytes × Bool × Ty) → List (Bytes × Bool × Ty) → Bool
  | [], _ => true
  | (n, o, v) :: es, fs => match fs with | (n', o', v') :: fs' => (n == n' && o == o') && tyEq v v' && tyEqS es fs' | [] => false
termination_by structural es => es
def tyEqRS : List (Bytes × Bool × Ty) → List (Bytes × Bool × Ty) → Bool
  | [], _ => true
  | (n, o, v) :: es, fs => match fs with | (n', o', v') :: fs' => (n' == n && o' == o) && tyEqR v v' && tyEqRS es fs' | [] => false
termination_by structural es => es
/-- every `v` of `ts` has some `ov` in `us` with `ov.Equals(v)` -/
def inclR : List Ty → List Ty → Bool
  | [], _ => true
  | v :: ts, us => us.any (fun ov => tyEqR v ov) && inclR ts us
termination_by structural ts => ts
/-- some `ov` of `ts` with `ov.Equals(v)` -/
def anyL : List Ty → Ty → Bool
  | [], _ => false
  | ov :: ts, v => tyEq ov v || anyL ts v
termination_by structural ts => ts
end

/-! ## values -/

/-- what `attributeSlice.Equals` reads of an Object type: its identity (two catalogue types are `Equals` exactly when their
    descriptors are equal — checked on every run), `equality_include_type`, the attribute names by position (inherited ones
    first) and `AttributesInfo().EqualityAttributeIndex()` (every position when no `equality` is declared) -/
structure OType where
  name : Bytes
  incl : Bool
  names : List Bytes
  eqPos : List Nat
  deriving DecidableEq, Inhabited

inductive Val where
  | undef | dflt
  | bool (b : Bool)
  | int (i : Int)
  | float (bits : Nat)
  | str (s : Bytes)
  | regexp (src : Bytes)
  | binary (bs : Bytes)
  | array (vs : List Val)
  | hash (es : List (Val × Val))
  | entry (k v : Val)
  | sensitive (v : Val)
  | typ (t : Ty)
  | timespan (nanos : Int)
  | timestamp (secs nanos : Int)
  | uri (s : Bytes)                                   -- `URL().String()`
  | semver (v : Ver)
  | vrange (orig : Bytes) (rs : List ARange)          -- the original string (`[]` = none) and the parsed ranges
  | tname (auth ns name : Bytes)
  | deferred (name : Bytes) (args : List Val)
  | param (name : Bytes) (t : Ty) (hasV : Bool) (v : Val) (capt : Bool)   -- `v` = `Value()`: `undef` when there is none
  | obj (t : OType) (vs : List Val)                   -- an object instance: one value per attribute position (`valueAt`)
  deriving Inhabited

/-- what one attribute of the receiver is compared with -/
inductive Sel where
  | skip              -- the attribute does not participate in equality
  | fail              -- the argument has no counterpart: not Equal
  | cmp (w : Val)     -- `px.Equals(o.valueAt(ai, i), w)`

/-- `NameToPos()[n]` (names are unique within a type) -/
def posOf : List Bytes → Bytes → Option Nat
  | [], _ => none
  | m :: ms, n => if m == n then some 0 else (posOf ms n).map (· + 1)

/-- `attributeSlice.Equals`, before any value is compared: the same type, or two types that both declare
    `equality_include_type => false` and compare the same number of attributes -/
def objPre (t t' : OType) : Bool := t == t' || (!t.incl && !t'.incl && t.eqPos.length == t'.eqPos.length)

/-- the counterpart of the receiver's attribute `i` in the argument: the same position for the same type, else the attribute
    of the same NAME, which must participate in the argument's equality too -/
def objSelAt (t t' : OType) (ws : List Val) (i : Nat) : Sel :=
  if !t.eqPos.contains i then .skip
  else if t == t' then (match ws[i]? with | some w => .cmp w | none => .fail)
  else match t.names[i]? with
    | none => .fail
    | some n =>
      match posOf t'.names n with
      | none => .fail
      | some j => if t'.eqPos.contains j then (match ws[j]? with | some w => .cmp w | none => .fail) else .fail

def objSel (t t' : OType) (ws : List Val) (n : Nat) : List Sel := (List.range n).map (objSelAt t t' ws)

/-- `appendElementKey` marks a string element -/
def mark : Val → Bytes
  | .str _ => strMark
  | _ => []

mutual
/-- the bytes `px.ToKey` / `appendKey` produce (meaningful when `keyable`) -/
def kb : Val → Bytes
  | .undef => undefKey
  | .dflt => defaultKey
  | .bool b => boolKey b
  | .int i => intKey i
  | .float f => floatKey f
  | .str s => s
  | .regexp s => [1, 0x72] ++ s
  | .binary bs => [0, 0x42] ++ bs
  | .array vs => [0, 0x41] ++ kbL vs
  | .hash es => [0, 0x48] ++ flat (sortB (kbE es))
  | .entry k v => [0, 0x41] ++ (frame (mark k ++ kb k) ++ (frame (mark v ++ kb v) ++ []))
  | .sensitive _ => []
  | .typ t => tyKey t
  | .timespan n => timespanKey n
  | .timestamp s n => timestampKey s n
  | .uri s => [1, 0x55] ++ s
  | .semver v => [1, 0x76] ++ verStr v
  | .vrange _ rs => [1, 0x52] ++ normStr rs
  | .tname _ _ _ => []
  | .deferred _ _ => []
  | .param _ _ _ _ _ => []
  | .obj _ _ => []
/-- the framed element keys of an array, concatenated -/
def kbL : List Val → Bytes
  | [] => []
  | v :: vs => frame (mark v ++ kb v) ++ kbL vs
/-- the framed keys of the entries of a hash (each entry keyed like the array `[k, v]`) -/
def kbE : List (Val × Val) → List Bytes
  | [] => []
  | (k, v) :: es => frame ([0, 0x41] ++ (frame (mark k ++ kb k) ++ (frame (mark v ++ kb v) ++ []))) :: kbE es
end

/-- the key of an element of a container -/
def ek (v : Val) : Bytes := frame (mark v ++ kb v)

mutual
/-- `px.ToKey` does not panic -/
def keyable : Val → Bool
  | .sensitive _ => false
  | .tname _ _ _ => false
  | .deferred _ _ => false
  | .param _ _ _ _ _ => false
  | .obj _ _ => false
  | .array vs => keyableL vs
  | .hash es => keyableE es
  | .entry k v => keyable k && keyable v
  | _ => true
def keyableL : List Val → Bool
  | [] => true
  | v :: vs => keyable v && keyableL vs
def keyableE : List (Val × Val) → Bool
  | [] => true
  | (k, v) :: es => keyable k && keyable v && keyableE es
end

/-- `px.ToKey(v)`; `none` = panic `INVALID_MAP_KEY` -/
def key (v : Val) : Option Bytes := if keyable v then some (kb v) else none

/-- `Hash.valueIndex()[kbs]`: the index maps key bytes to the *last* entry that has them -/
def lookupLast (kbs : Bytes) : List (Val × Val) → Option (Val × Val)
  | [] => none
  | e :: es =>
    match lookupLast kbs es with
    | some r => some r
    | none => if kb e.1 == kbs then some e else none

/-- a later entry has the same key bytes (then this entry is not in the index) -/
def shadowed (k : Val) (later : List (Val × Val)) : Bool := later.any fun e => kb e.1 == kb k

mutual
/-- `x.Equals(y, nil)` -/
def veq : Val → Val → Bool
  | .undef, y => match y with | .undef => true | _ => false
  | .dflt, y => match y with | .dflt => true | _ => false
  | .bool a, y => match y with | .bool b => a == b | _ => false
  | .int a, y => match y with | .int b => a == b | _ => false
  | .float a, y => match y with | .float b => feq a b | _ => false
  | .str a, y => match y with | .str b => a == b | _ => false
  | .regexp a, y => match y with | .regexp b => a == b | _ => false
  | .binary a, y => match y with | .binary b => a == b | _ => false
  | .array vs, y =>
      match y with
      | .array ws => vs.length == ws.length && veqL vs ws
      | .entry k v => vs.length == 2 && veqL vs [k, v]
      | _ => false
  | .hash es, y =>
      match y with
      | .hash fs => es.length == fs.length && veqE es fs
      | _ => false
  | .entry k v, y =>
      match y with
      | .entry k' v' => veq k k' && veq v v'
      | .array ws => match ws with | [w1, w2] => veq k w1 && veq v w2 | _ => false
      | _ => false
  | .sensitive _, _ => false
  | .typ a, y => match y with | .typ b => tyEq a b | _ => false
  | .timespan a, y => match y with | .timespan b => tsSecs a == tsSecs b | _ => false
  | .timestamp s n, y => match y with | .timestamp s' n' => s == s' && n == n' | _ => false
  | .uri a, y => match y with | .uri b => a == b | _ => false
  | .semver a, y => match y with | .semver b => verEq a b | _ => false
  | .vrange _ rs, y => match y with | .vrange _ rs' => rangesEq rs rs' | _ => false
  | .tname a n m, y => match y with | .tname a' n' m' => mapKey a n m == mapKey a' n' m' | _ => false
  | .deferred n as, y => match y with | .deferred n' as' => n == n' && (as.length == as'.length && veqL as as') | _ => false
  | .param n t h v c, y =>
      match y with
      | .param n' t' h' v' c' => n == n' && c == c' && h == h' && tyEq t t' && veq v v'
      | _ => false
  | .obj t vs, y => match y with | .obj t' ws => objPre t t' && veqSel vs (objSel t t' ws vs.length) | _ => false
/-- pointwise `vs[i].Equals(ws[i])` (lengths already compared) -/
def veqL : List Val → List Val → Bool
  | [], _ => true
  | v :: vs, ws => match ws with | w :: ws' => veq v w && veqL vs ws' | [] => false
/-- the attribute values of the receiver, each against its counterpart -/
def veqSel : List Val → List Sel → Bool
  | [], _ => true
  | v :: vs, ss =>
    match ss with
    | s :: ss' => (match s with | .skip => true | .fail => false | .cmp w => veq v w) && veqSel vs ss'
    | [] => true
/-- `for key, idx := range hv.valueIndex()`: every entry of the receiver that is in its index finds, by key bytes, an
    entry of the argument's index that it `Equals` -/
def veqE : List (Val × Val) → List (Val × Val) → Bool
  | [], _ => true
  | (k, v) :: es, fs =>
    (if shadowed k es then true
     else match lookupLast (kb k) fs with
          | some (k', v') => veq k k' && veq v v'
          | none => false) && veqE es fs
end

/-- `Hash.Get(k)` -/
def hashGet (es : List (Val × Val)) (k : Val) : Option Val := (lookupLast (kb k) es).map (·.2)

/-- `MutableHashValue.Put` (`mergeEntries` with one entry): the entry indexed under the same key bytes is replaced in
    place, else the new entry is appended.  A `MutableHashValue` is otherwise the `Hash` it embeds: `Equals`, `ToKey`,
    `Get` are the promoted methods, and `Hash.Equals` accepts one as its argument. -/
def hashPut (es : List (Val × Val)) (k v : Val) : List (Val × Val) :=
  if es.any (fun e => kb e.1 == kb k) then es.map (fun e => if kb e.1 == kb k then (k, v) else e) else es ++ [(k, v)]

/-- `Array.Unique` / `UniqueValues`: first occurrence wins, by key -/
def uniqueAux (seen : List Bytes) : List Val → List Val
  | [] => []
  | v :: vs => if seen.contains (kb v) then uniqueAux seen vs else v :: uniqueAux (kb v :: seen) vs

def unique (vs : List Val) : List Val := uniqueAux [] vs

mutual
/-- every key of every hash inside the value can be keyed (else `Equals`/`Get` may panic while building an index) -/
def hashKeysKeyable : Val → Bool
  | .array vs => hashKeysKeyableL vs
  | .hash es => hashKeysKeyableE es
  | .entry k v => hashKeysKeyable k && hashKeysKeyable v
  | .sensitive v => hashKeysKeyable v
  | .deferred _ as => hashKeysKeyableL as
  | .param _ _ _ v _ => hashKeysKeyable v
  | .obj _ vs => hashKeysKeyableL vs
  | _ => true
def hashKeysKeyableL : List Val → Bool
  | [] => true
  | v :: vs => hashKeysKeyable v && hashKeysKeyableL vs
def hashKeysKeyableE : List (Val × Val) → Bool
  | [] => true
  | (k, v) :: es => keyable k && hashKeysKeyable k && hashKeysKeyable v && hashKeysKeyableE es
end

/-! ## smart constructors (the normalisations of the Go constructors) -/

/-- `NewVariantType`: a single member is returned as is -/
def mkVar : List Ty → Ty
  | [t] => t
  | ts => .var ts

/-- `NewEnumType`: no values → the default Enum (whatever the flag); values are lower-cased when case-insensitive
    (ASCII only in the model; the generator keeps to ASCII) -/
def mkEnum (ci : Bool) (vals : List Bytes) : Ty :=
  if vals.isEmpty then .enum false [] else .enum ci (if ci then vals.map (·.map lowerByte) else vals)

/-- `NewStringType(rng, s)`: a value wins; a negative lower bound is 0; the size `[0, default]` is the default String -/
def mkStr (lo hi : Int) (s : Bytes) : Ty :=
  if s.isEmpty then
    (if (if lo < 0 then 0 else lo) = 0 ∧ hi = maxInt then .str else .strSize (if lo < 0 then 0 else lo) hi)
  else .strVal s

/-- `NewStructElement(key, value)`: a plain string key becomes an optional key when the value type accepts undef;
    `kind` 0 = string key, 1 = `String['name']` / `NotUndef['name']` (required), 2 = `Optional['name']` -/
def mkStructElem (n : Bytes) (kind : Nat) (v : Ty) : Bytes × Bool × Ty :=
  (n, (if kind = 0 then acceptsUndef v else kind == 2), v)

/-- `newTypedName2`: one leading `::` of the name is dropped -/
def mkTname (auth ns name : Bytes) : Val := .tname auth ns (trimColons name)

/-- `NewTupleType`: no types and no size is the empty tuple `Tuple[0, 0]` (pcore fix 902262f); every other
    combination is kept as given (`Tuple[0, default]` without types is the default tuple, the same term) -/
def mkTup (ts : List Ty) (size : Option (Int × Int)) : Ty :=
  match ts, size with
  | [], none => .tup [] (some (0, 0))
  | ts, sz => .tup ts sz

end Pcore.ValueEq
