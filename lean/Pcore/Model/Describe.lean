import Pcore.Model.LatticeInst
set_option linter.unusedSimpArgs false
/-!
  The STRUCTURE of the type-mismatch describer (property C19): which mismatches `describe(expected, actual, path)` of
  /repo/internal/typemismatchdescriber.go reports — kind, path and the types / names / sizes each one carries — over the
  lattice term language `Ty`.  The English of `text()` is not modelled; what the canonical observation keeps of it is in
  `DescribeText.lean`.  Core Lean only (linked into the compiled driver).

  Go (internal/typemismatchdescriber.go) → Lean map
    pathType / pathElement                         → `PK` / `PE`;  `[]*pathElement` → `Path`;  pathWith(path, e) → `p ++ [e]`
    mismatch structs (one Go struct per kind)      → `Mismatch` (one constructor per struct; `basicEAMismatch` payloads:
                                                     typeMismatch `Exp × Ty`, patternMismatch `Ty × Ty`, size/count `Rng × Rng` —
                                                     the size constructors take `*types.IntegerType` and the only `setExpected`
                                                     that reaches them passes `NewIntegerType`, so the type assertions of
                                                     `from()/to()/text()` are discharged by the typing of the payload)
    mismatchClass / class()                        → `Cls` / `Mismatch.cls`
    canonicalPath                                  → `canonPath`;  chopPath → `chopPath`;  pathEquals → `==` on `Path`
    mergeMismatch                                  → `mergeMismatch` (`mergeExp`: the four Variant/non-Variant cases, `UniqueTypes` =
                                                     `uniqueA`, `NewVariantType` = `mkVarA`; sizes: the hull)
    mergeDescriptions                              → `mergeDescriptions` (`tryClasses` = the loop over the four classes, `foldMerge` =
                                                     the inner loop; `mismatches[0]` is the fault site `Fault.mergeHead`)
    unique                                         → the identity: it compares POINTERS and every mismatch is freshly allocated
                                                     (`copyMismatch` in `withPath`), so no two list elements are ever identical
    describe                                       → `describe` (TypeReference scan: the term language has none; assignability guard;
                                                     `internalDescribe(Normalize(e), e, a, path)` with `Normalize` = the identity as in
                                                     types.go normalize; fallback `newTypeMismatch` when nothing was established)
    internalDescribe (type switch)                 → `internalDescribe` (one arm per case; Callable / Init are outside `Ty`)
    describeVariantType                            → the `.variant` arm + `variantTail`; the member loop with its early return → `descVar`
                                                     (`addUndef` = "original is an Optional": `CopyAppend(ts, Undef)`)
    USER-DEFINED ALIASES.  `Ty` has no alias constructor (the lattice model sees aliases expanded).  In THIS model a ONE-MEMBER Variant
      term `.variant [t]` stands for a user alias whose resolved type is `t`: the Go constructors cannot build a one-member Variant
      (`NewVariantType(t)` answers `t`), so the term is free, and it is neutral for `asg` on either side (`asgAnyL [t] b = asg t b`,
      `asgAllR a [t] = asg a t`) exactly as `GuardedIsAssignable` resolves an alias.  The driver reads `(alias T)` as `.variant [T]` for the
      structure ops and prints payloads with the aliases expanded (as the harness encoder does).  An aliased ACTUAL type is "another
      kind" for every container arm (`actual.(*types.StructType)` fails on a `*TypeAliasType`) — which the term gives for free.
    describeTypeAliasType                          → the `.variant [t]` arm (user alias: `internalDescribe(resolved, alias, actual, path)`) and
                                                     the `.data` / `.richData` arms: `internalDescribe(resolved Variant, alias, …)` with the
                                                     resolved Variant's members inlined (`dataMembers` / `richMembers`; RichData's TypeSet and
                                                     Deferred members are the opaque atoms); `px.IsAssignable(resolved, a)` is `asg alias a`
    describeOptionalType                           → the `.optional` arm (original stays when it is an alias)
    describeEnumType / describePatternType         → the `.enum` / `.pattern` arms
    describeStructType                             → the `.struct` arm; the member loop + the extraneous-key loop → `structItems`
                                                     (`HashedMembersCloned`: last member of a name wins; `delete(h2,key)`; `ActualKeyType()`
                                                     strips the Optional so both key types are `String[name]`; the order of the
                                                     extraneous keys is Go map order — canonicalised by sorting in the observation)
    describeHashType                               → the `.hash` arm; loop → `hashItems`
    describeArrayType                              → the `.array` arm; loop (guarded by `!IsAssignable(et, at)`) → `arrTupItems`
    describeTupleType / describeTuple              → the `.tuple` arm (size mismatches are COUNT mismatches: `newCountMismatch`); loops →
                                                     `tupArrItems`, `tupTupItems` (only positions ≥ len(expected.types) are looked at, against
                                                     the LAST expected type: `expected.Types()[exl-1]` is the fault site `Fault.tupleLast`)
    describeCallableType                           → the `.callable` arm, `callTail`, `callBlock` (`ep.(*types.TupleType)`: a parameters type is always a
                                                     Tuple; for any other term the model describes it generically — total, and equal on every built type)
    describeAnyType                                → the default arm
  A loop body that recurses is an `Item.sub`; `descAll` runs the items in order (`append(descriptions, internalDescribe(...)...)`).

  Go runtime faults are explicit: `Res.fault` / `VRes.fault`; Props/C19.lean proves them unreachable.
  Termination: lexicographic in (weight of the actual type, head weight `Ty.hw` of the expected type): every descent into a
  container strictly shrinks the ACTUAL type; Variant / Optional / alias unfolding keeps it and shrinks the head weight.
-/
namespace Pcore.Desc
open Pcore.Lat

/-- `pathType` -/
inductive PK where
  | subject | entry | entryKey | parameter | ret | block | index | variant | signature
  deriving DecidableEq, Repr, Inhabited

/-- `pathElement` -/
structure PE where
  kind : PK
  key : String
  deriving DecidableEq, Repr, Inhabited

abbrev Path := List PE

/-- `&pathElement{strconv.Itoa(n), kind}` -/
def PE.nat (k : PK) (n : Nat) : PE := ⟨k, toString n⟩

/-- a `px.Type` the describer can hold that is not a Variant built by a merge: a lattice term, or one of the two members of
    RichData that the term language does not have -/
inductive Atom where
  | ty (t : Ty)
  | typeSet
  | deferred
  deriving Repr, Inhabited

/-- the `expectedType` of a type mismatch: a type as given (`atom`), or the Variant `mergeMismatch` built (`merged`) -/
inductive Exp where
  | atom (x : Atom)
  | merged (ms : List Atom)
  deriving Repr, Inhabited

def Exp.ofTy (t : Ty) : Exp := .atom (.ty t)

/-- `e.(*types.VariantType)` and its `Types()`: `inr` members, else `inl` the type itself -/
def Exp.split : Exp → Sum Atom (List Atom)
  | .atom (.ty (.variant [t])) => .inl (.ty (.variant [t]))      -- a user alias is no *VariantType
  | .atom (.ty (.variant ts)) => .inr (ts.map .ty)
  | .atom x => .inl x
  | .merged ms => .inr ms

inductive Mismatch where
  | unexpectedBlock (p : Path)
  | missingRequiredBlock (p : Path)
  | missingKey (p : Path) (key : String)
  | extraneousKey (p : Path) (key : String)
  | unresolvedTypeReference (p : Path) (key : String)
  | typeMismatch (p : Path) (expected : Exp) (actual : Ty)
  | patternMismatch (p : Path) (expected : Ty) (actual : Ty)
  | sizeMismatch (p : Path) (expected actual : Rng)
  | countMismatch (p : Path) (expected actual : Rng)
  deriving Repr, Inhabited

/-- `mismatchClass` -/
inductive Cls where
  | count | missingKey | missingRequiredBlock | extraneousKey | pattern | size | type | unexpectedBlock | unresolvedTypeReference
  deriving DecidableEq, Repr

def Mismatch.cls : Mismatch → Cls
  | .unexpectedBlock _ => .unexpectedBlock
  | .missingRequiredBlock _ => .missingRequiredBlock
  | .missingKey _ _ => .missingKey
  | .extraneousKey _ _ => .extraneousKey
  | .unresolvedTypeReference _ _ => .unresolvedTypeReference
  | .typeMismatch _ _ _ => .type
  | .patternMismatch _ _ _ => .pattern
  | .sizeMismatch _ _ _ => .size
  | .countMismatch _ _ _ => .count

def Mismatch.path : Mismatch → Path
  | .unexpectedBlock p | .missingRequiredBlock p | .missingKey p _ | .extraneousKey p _ | .unresolvedTypeReference p _
  | .typeMismatch p _ _ | .patternMismatch p _ _ | .sizeMismatch p _ _ | .countMismatch p _ _ => p

/-- `withPath` -/
def Mismatch.setPath (m : Mismatch) (q : Path) : Mismatch :=
  match m with
  | .unexpectedBlock _ => .unexpectedBlock q
  | .missingRequiredBlock _ => .missingRequiredBlock q
  | .missingKey _ k => .missingKey q k
  | .extraneousKey _ k => .extraneousKey q k
  | .unresolvedTypeReference _ k => .unresolvedTypeReference q k
  | .typeMismatch _ e a => .typeMismatch q e a
  | .patternMismatch _ e a => .patternMismatch q e a
  | .sizeMismatch _ e a => .sizeMismatch q e a
  | .countMismatch _ e a => .countMismatch q e a

/-- the Go runtime faults the describer could raise on data-dependent input -/
inductive Fault where
  | mergeHead      -- mergeDescriptions: `mismatches[0]` of an empty slice
  | tupleLast      -- describeTuple: `expected.Types()[exl-1]` with no types
  deriving DecidableEq, Repr

inductive Res where
  | ok (ms : List Mismatch)
  | fault (k : Fault)
  deriving Repr, Inhabited

/-! ### paths -/
/-- `canonicalPath`: without the variant and signature elements -/
def canonPath (p : Path) : Path := p.filter fun e => e.kind != .variant && e.kind != .signature

/-- `chopPath(m, index)`: drop the path element at `index` (none when the path is shorter) -/
def chopPath (m : Mismatch) (index : Nat) : Mismatch :=
  if index ≥ m.path.length then m else m.setPath (m.path.eraseIdx index)

/-! ### types held by mismatches -/
/-- `GuardedIsAssignable(TypeSet | Deferred, a)`: the receiver accepts none of the modelled types itself; what remains is the
    right-hand decomposition of types.go (Unit, NotUndef, Optional, alias, Variant) -/
def asgOpaque (cfg : Cfg) (sfh : Bool) : Ty → Bool
  | .unit => true
  | .notUndef nt => !asg cfg sfh nt .undef && asgOpaque cfg sfh nt
  | .variant bs => allO bs
  | _ => false
where allO : List Ty → Bool
  | [] => true
  | b :: bs => asgOpaque cfg sfh b && allO bs

/-- `px.IsAssignable(x, a)` -/
def Atom.accepts (cfg : Cfg) (sfh : Bool) (x : Atom) (a : Ty) : Bool :=
  match x with
  | .ty t => asg cfg sfh t a
  | .typeSet | .deferred => asgOpaque cfg sfh a

/-- `r.Equals(t, nil)` -/
def atomEq : Atom → Atom → Bool
  | .ty a, .ty b => tyEq a b
  | .typeSet, .typeSet => true
  | .deferred, .deferred => true
  | _, _ => false

/-- `types.UniqueTypes`: first occurrence wins, compared with `Equals` (the earlier member is the receiver) -/
def uniqueAAux (seen : List Atom) : List Atom → List Atom
  | [] => []
  | t :: ts => if seen.any (fun s => atomEq s t) then uniqueAAux seen ts else t :: uniqueAAux (t :: seen) ts

def uniqueA (ts : List Atom) : List Atom :=
  if ts.length < 2 then ts else uniqueAAux [] ts

/-- `types.NewVariantType(ts...)`: no member → the default Variant, one member → that member -/
def mkVarA : List Atom → Exp
  | [] => .merged []
  | [x] => .atom x
  | xs => .merged xs

/-- the four cases of `mergeMismatch` on two type mismatches -/
def mergeExp (et ot : Exp) : Exp :=
  match et.split, ot.split with
  | .inr ev, .inr ov => mkVarA (uniqueA (ev ++ ov))
  | .inr ev, .inl o => mkVarA (uniqueA (ev ++ [o]))
  | .inl e, .inr ov => mkVarA (uniqueA (e :: ov))
  | .inl e, .inl o => if !atomEq e o then .merged [e, o] else et

/-- `mergeMismatch(m, o, m.path())` -/
def mergeMismatch (m o : Mismatch) : Mismatch :=
  match m with
  | .typeMismatch p et a =>
      (match o with
       | .typeMismatch _ ot _ => .typeMismatch p (mergeExp et ot) a
       | _ => m)
  | .sizeMismatch p e a =>
      (match o with
       | .sizeMismatch _ e' _ | .countMismatch _ e' _ => .sizeMismatch p (e.hull e') a
       | _ => m)
  | .countMismatch p e a =>
      (match o with
       | .sizeMismatch _ e' _ | .countMismatch _ e' _ => .countMismatch p (e.hull e') a
       | _ => m)
  | .patternMismatch p _ a =>
      -- case expectedActualMismatch: `eam.setExpected(oam.expected())`; never reached (the pattern class is not merged)
      (match o with
       | .patternMismatch _ e' _ => .patternMismatch p e' a
       | _ => m)
  | m => m

/-- the inner loop of `mergeDescriptions`: fold `mergeMismatch` while the canonical paths agree -/
def foldMerge (prev : Mismatch) : List Mismatch → Option Mismatch
  | [] => some prev
  | curr :: rest =>
    if canonPath prev.path == canonPath curr.path then foldMerge (mergeMismatch prev curr) rest else none

/-- the loop over `[sm, missingRequiredBlock, unexpectedBlock, typeMismatch]` -/
def tryClasses (ds : List Mismatch) : List Cls → Res
  | [] => .ok ds
  | c :: cs =>
    let mm := ds.filter fun d => d.cls == c
    if mm.length == ds.length then
      match mm with
      | [] => .fault .mergeHead
      | m0 :: rest =>
        match foldMerge m0 rest with
        | some prev => .ok [prev]
        | none => tryClasses ds cs
    else tryClasses ds cs

/-- `mergeDescriptions(varyingPathPosition, sm, descriptions)` -/
def mergeDescriptions (pos : Nat) (sm : Cls) (ds : List Mismatch) : Res :=
  if ds.isEmpty then .ok [] else
  match tryClasses ds [sm, .missingRequiredBlock, .unexpectedBlock, .type] with
  | .fault k => .fault k
  | .ok [d] => .ok [chopPath d pos]
  | .ok ds' => .ok ds'

/-! ### the loops: what each container arm asks of `internalDescribe` -/
/-- one step of a loop body: a recursive description (`guarded`: only when `!IsAssignable(e, a)`) or a mismatch appended as is -/
inductive Item where
  | sub (e a : Ty) (pe : PE) (guarded : Bool)
  | leaf (m : Mismatch)
  deriving Repr, Inhabited

/-- `hm[name]` of `HashedMembersCloned`: the last member of that name -/
def lookupLast (n : String) : List Member → Option Member
  | [] => none
  | m :: ms =>
    match lookupLast n ms with
    | some r => some r
    | none => if m.1 == n then some m else none

/-- the keys left in the map, each once -/
def distinctNames : List Member → List String
  | [] => []
  | m :: ms => if (distinctNames ms).contains m.1 then distinctNames ms else m.1 :: distinctNames ms

/-- describeStructType, actual is a Struct: the loop over the expected members, then the keys left in `h2` -/
def structItems (p : Path) : List Member → List Member → List Item
  | [], h2 => (distinctNames h2).map fun k => .leaf (.extraneousKey p k)
  | (n, o, t) :: rest, h2 =>
    match lookupLast n h2 with
    | some (_, _, t') =>
        .sub (.strVal n) (.strVal n) ⟨.entryKey, n⟩ false :: .sub t t' ⟨.entry, n⟩ false ::
          structItems p rest (h2.filter fun m => m.1 != n)
    | none => (if o then [] else [.leaf (.missingKey p n)]) ++ structItems p rest h2

/-- `StructElement.Key()` -/
def memberKey (m : Member) : Ty := if m.2.1 then .optional (.strVal m.1) else .strVal m.1

/-- describeHashType, actual is a Struct -/
def hashItems (kt vt : Ty) : List Member → List Item
  | [] => []
  | m :: ms => .sub kt (memberKey m) ⟨.entryKey, m.1⟩ false :: .sub vt m.2.2 ⟨.entry, m.1⟩ false :: hashItems kt vt ms

/-- describeArrayType, actual is a Tuple -/
def arrTupItems (et : Ty) : List Ty → Nat → List Item
  | [], _ => []
  | a :: as, i => .sub et a (.nat .index i) true :: arrTupItems et as (i + 1)

/-- describeTuple, actual is an Array: every expected type against the element type -/
def tupArrItems (ae : Ty) : List Ty → Nat → List Item
  | [], _ => []
  | e :: es, i => .sub e ae (.nat .index i) false :: tupArrItems ae es (i + 1)

/-- describeTuple, actual is a Tuple: the positions at or beyond `exl`, against the last expected type -/
def tupTupItems (ext : Ty) (exl : Nat) : List Ty → Nat → List Item
  | [], _ => []
  | a :: as, i => (if i ≥ exl then [.sub ext a (.nat .index i) false] else []) ++ tupTupItems ext exl as (i + 1)

/-! ### termination weights -/
mutual
/-- head weight of an expected type: what `internalDescribe` may still unfold WITHOUT descending into the actual type -/
def hw : Ty → Nat
  | .variant ts => 2 + hwl ts
  | .optional t => 2 + hw t
  | .data => 20
  | .richData => 40
  | _ => 1
def hwl : List Ty → Nat
  | [] => 0
  | t :: ts => 2 + hw t + hwl ts
end

def Atom.hw : Atom → Nat
  | .ty t => Desc.hw t
  | _ => 1
def hwlA : List Atom → Nat
  | [] => 0
  | x :: xs => 2 + x.hw + hwlA xs

theorem hwlA_map (ts : List Ty) : hwlA (ts.map .ty) = hwl ts := by
  induction ts with
  | nil => simp [hwlA, hwl]
  | cons t ts ih => simp [hwlA, hwl, Atom.hw, ih]

def Item.aw : Item → Nat
  | .sub _ a _ _ => a.w
  | .leaf _ => 0
def Item.ew : Item → Nat
  | .sub e _ _ _ => hw e
  | .leaf _ => 0
def maxAW : List Item → Nat
  | [] => 0
  | i :: is => max i.aw (maxAW is)
def sumEW : List Item → Nat
  | [] => 0
  | i :: is => 1 + i.ew + sumEW is

theorem lookupLast_w {n : String} {ms : List Member} {m : Member} (h : lookupLast n ms = some m) : m.2.2.w < Ty.wm ms := by
  induction ms with
  | nil => simp [lookupLast] at h
  | cons x xs ih =>
    obtain ⟨xn, xo, xt⟩ := x
    simp only [lookupLast] at h
    cases hx : lookupLast n xs with
    | some r =>
      rw [hx] at h
      simp only [Option.some.injEq] at h
      subst h
      have := ih hx
      simp only [Ty.wm]; omega
    | none =>
      rw [hx] at h
      by_cases hn : xn = n
      · simp [hn] at h; subst h; simp only [Ty.wm]; omega
      · simp [hn] at h

theorem wm_filter_le (f : Member → Bool) (ms : List Member) : Ty.wm (ms.filter f) ≤ Ty.wm ms := by
  induction ms with
  | nil => simp [Ty.wm]
  | cons x xs ih =>
    obtain ⟨xn, xo, xt⟩ := x
    simp only [List.filter]
    cases f (xn, xo, xt) <;> simp only [Ty.wm] <;> omega

theorem maxAW_append (xs ys : List Item) : maxAW (xs ++ ys) = max (maxAW xs) (maxAW ys) := by
  induction xs with
  | nil => simp [maxAW]
  | cons x xs ih => simp only [List.cons_append, maxAW, ih]; omega

theorem maxAW_leaves {α} (f : α → Mismatch) (xs : List α) : maxAW (xs.map fun k => Item.leaf (f k)) = 0 := by
  induction xs with
  | nil => simp [maxAW]
  | cons x xs ih => simp [maxAW, Item.aw, ih]

theorem maxAW_structItems (p : Path) (ms h2 : List Member) : maxAW (structItems p ms h2) < 2 + Ty.wm h2 := by
  induction ms generalizing h2 with
  | nil => simp only [structItems]; rw [maxAW_leaves]; omega
  | cons m rest ih =>
    obtain ⟨n, o, t⟩ := m
    simp only [structItems]
    cases hl : lookupLast n h2 with
    | some r =>
      obtain ⟨rn, ro, t'⟩ := r
      have h1 := lookupLast_w hl
      have h2' := ih (h2.filter fun m => m.1 != n)
      have h3 := wm_filter_le (fun m => m.1 != n) h2
      simp only [maxAW, Item.aw, Ty.w] at *
      omega
    | none =>
      have h2' := ih h2
      simp only [maxAW_append]
      cases o <;> simp [maxAW, Item.aw] <;> omega

theorem maxAW_hashItems (kt vt : Ty) (ms : List Member) : maxAW (hashItems kt vt ms) < 2 + Ty.wm ms := by
  induction ms with
  | nil => simp only [hashItems, maxAW]; omega
  | cons m ms ih =>
    obtain ⟨n, o, t⟩ := m
    simp only [hashItems, maxAW, Item.aw, memberKey, Ty.wm]
    cases o <;> simp only [Ty.w, if_true, if_false, Bool.false_eq_true] <;> omega

theorem maxAW_arrTupItems (et : Ty) (as : List Ty) (i : Nat) : maxAW (arrTupItems et as i) < 2 + Ty.wl as := by
  induction as generalizing i with
  | nil => simp only [arrTupItems, maxAW]; omega
  | cons a as ih =>
    have := ih (i + 1)
    simp only [arrTupItems, maxAW, Item.aw, Ty.wl]; omega

theorem maxAW_tupArrItems (ae : Ty) (es : List Ty) (i : Nat) : maxAW (tupArrItems ae es i) < 2 + ae.w := by
  induction es generalizing i with
  | nil => simp only [tupArrItems, maxAW]; omega
  | cons e es ih =>
    have := ih (i + 1)
    simp only [tupArrItems, maxAW, Item.aw]; omega

theorem maxAW_tupTupItems (ext : Ty) (exl : Nat) (as : List Ty) (i : Nat) : maxAW (tupTupItems ext exl as i) < 2 + Ty.wl as := by
  induction as generalizing i with
  | nil => simp only [tupTupItems, maxAW]; omega
  | cons a as ih =>
    have := ih (i + 1)
    simp only [tupTupItems, maxAW_append, Ty.wl]
    by_cases h : i ≥ exl <;> simp [h, maxAW, Item.aw] <;> omega

/-! ### the describer -/
/-- the resolved type of the alias Data: `Variant[ScalarData, Undef, Array[Data], Hash[String, Data]]` -/
def dataMembers : List Atom :=
  [.ty .scalarData, .ty .undef, .ty (.array .data Rng.pos), .ty (.hash .str .data Rng.pos)]

/-- the resolved type of the alias RichData -/
def richMembers : List Atom :=
  [.ty .scalar, .ty .bin, .ty .dflt, .ty (.object none), .ty (.typ .any), .typeSet, .deferred, .ty .undef,
   .ty (.array .richData Rng.pos), .ty (.hash (.variant [.str, .numeric]) .richData Rng.pos)]

/-- `_, ok := original.(*types.TypeAliasType)` -/
def isAlias : Ty → Bool
  | .data | .richData => true
  | .variant [_] => true          -- a user alias (see the header)
  | _ => false

/-- `_, ok := actual.(*types.UndefType)` -/
def isUndef : Ty → Bool
  | .undef => true
  | _ => false

/-- `_, ok := original.(*types.OptionalType)` -/
def isOptional : Ty → Bool
  | .optional _ => true
  | _ => false

/-- result of the member loop of describeVariantType: `hit` = some member accepts the actual type (`return NoMismatch`) -/
inductive VRes where
  | acc (ds : List Mismatch)
  | hit
  | fault (k : Fault)
  deriving Repr, Inhabited

/-- `append(descriptions, more...)` where either side may have faulted (the left one first) -/
def Res.append : Res → Res → Res
  | .fault k, _ => .fault k
  | .ok _, .fault k => .fault k
  | .ok a, .ok b => .ok (a ++ b)

/-- one turn of the member loop: the description of this member, then the rest of the loop -/
def VRes.cons : Res → VRes → VRes
  | .fault k, _ => .fault k
  | .ok _, .fault k => .fault k
  | .ok _, .hit => .hit
  | .ok d, .acc ds => .acc (d ++ ds)

section
variable (cfg : Cfg) (sfh : Bool)

/-- the end of describeVariantType: merge, and for an alias one single mismatch on the alias -/
def variantTail (o a : Ty) (p : Path) : VRes → Res
  | .fault k => .fault k
  | .hit => .ok []
  | .acc vs =>
    match mergeDescriptions p.length .size vs with
    | .fault k => .fault k
    | .ok ds => if isAlias o && ds.length == 1 then .ok [.typeMismatch p (.ofTy o) a] else .ok ds

/-- `append`-free sequencing of describeCallableType: the parameter errors, and only when there are none what follows -/
def Res.orElse : Res → Res → Res
  | .fault k, _ => .fault k
  | .ok [], r => r
  | .ok ds, _ => .ok ds

/-- describeCallableType, the block: absent actual = Undef; a block type that does not accept it is a missing required block, any
    other one a type mismatch below a `block` path element -/
def callBlock (bl bl' : Option Ty) (p : Path) : Res :=
  match bl with
  | none => .ok []
  | some eb =>
    if asg cfg sfh eb (bl'.getD .undef) then .ok [] else
    match bl' with
    | none => .ok [.missingRequiredBlock p]
    | some ab => .ok [.typeMismatch (p ++ [⟨.block, ""⟩]) (.ofTy eb) ab]

/-- describeCallableType after the parameters: the return type (absent actual = Any; mismatch below a `return` path element), then the
    block -/
def callTail (rt bl rt' bl' : Option Ty) (p : Path) : Res :=
  match rt with
  | some er =>
      if asg cfg sfh er (rt'.getD .any) then callBlock cfg sfh bl bl' p
      else .ok [.typeMismatch (p ++ [⟨.ret, ""⟩]) (.ofTy er) (rt'.getD .any)]
  | none => callBlock cfg sfh bl bl' p

mutual
/-- `internalDescribe(expected, original, actual, path)` -/
def internalDescribe (e o a : Ty) (p : Path) : Res :=
  match e with
  | .variant [t] => internalDescribe t e a p          -- describeTypeAliasType: the alias becomes the original
  | .variant ts =>
      if asg cfg sfh e a then .ok [] else
      variantTail o a p (descVar (ts.map .ty) (isOptional o) 0 a p)
  | .data =>
      if asg cfg sfh .data a then .ok [] else
      variantTail .data a p (descVar dataMembers false 0 a p)
  | .richData =>
      if asg cfg sfh .richData a then .ok [] else
      variantTail .richData a p (descVar richMembers false 0 a p)
  | .struct ms =>
      (match a with
       | .struct ms' => descAll (structItems p ms ms') p
       | .hash k' v' r' =>
           if asg cfg sfh e a then .ok []
           else if (structSize ms).sub r' then .ok [.typeMismatch p (.ofTy o) (.hash k' v' Rng.pos)]
           else .ok [.sizeMismatch p (structSize ms) r']
       | _ => .ok [.typeMismatch p (.ofTy o) a])
  | .hash k v r =>
      (match a with
       | .struct ms' =>
           if r.sub (structSize ms') then descAll (hashItems k v ms') p
           else .ok [.sizeMismatch p r (structSize ms')]
       | .hash k' v' r' =>
           if asg cfg sfh e a then .ok []
           else if r.sub r' then .ok [.typeMismatch p (.ofTy o) (.hash k' v' Rng.pos)]
           else .ok [.sizeMismatch p r r']
       | _ => .ok [.typeMismatch p (.ofTy o) a])
  | .tuple ts g =>
      (match a with
       | .array e' r' =>
           if ts.isEmpty || asg cfg sfh e a then .ok []
           else if e'.isAny then .ok [.typeMismatch p (.ofTy o) a]
           else if !(tupleSize ts g).sub r' then .ok [.countMismatch p (tupleSize ts g) r']
           else descAll (tupArrItems e' ts 0) p
       | .tuple ts' g' =>
           if tyEq e a || asg cfg sfh e a then .ok []
           else if !(tupleSize ts g).sub (tupleSize ts' g') then .ok [.countMismatch p (tupleSize ts g) (tupleSize ts' g')]
           else if ts.length == 0 then .ok []
           else
             match ts.getLast? with
             | none => .fault .tupleLast
             | some ext => descAll (tupTupItems ext ts.length ts' 0) p
       | _ => .ok [.typeMismatch p (.ofTy o) a])
  | .array et r =>
      (match a with
       | .tuple ts' g' =>
           if r.sub (tupleSize ts' g') then descAll (arrTupItems et ts' 0) p
           else .ok [.sizeMismatch p r (tupleSize ts' g')]
       | .array e' r' =>
           if asg cfg sfh e a then .ok []
           else if r.sub r' then .ok [.typeMismatch p (.ofTy o) (.array e' Rng.pos)]
           else .ok [.sizeMismatch p r r']
       | _ => .ok [.typeMismatch p (.ofTy o) a])
  | .callable ps rt bl =>
      -- describeCallableType: the parameters through describeArgumentTuple (= describeTuple(ep, ep, actual parameters or the default
      -- Tuple, path): the SAME path, expected against actual — not in reverse as IsAssignable compares them), then `callTail`
      (match a with
       | .callable (some ap) rt' bl' =>
           (match ps with
            | some ep => Res.orElse (internalDescribe ep ep ap p) (callTail cfg sfh rt bl rt' bl' p)
            | none => callTail cfg sfh rt bl rt' bl' p)
       | .callable none rt' bl' =>
           (match ps with
            | some ep => Res.orElse (internalDescribe ep ep (.tuple [] (some Rng.pos)) p) (callTail cfg sfh rt bl rt' bl' p)
            | none => callTail cfg sfh rt bl rt' bl' p)
       | _ => .ok [.typeMismatch p (.ofTy o) a])
  | .optional t =>
      if isUndef a then .ok [] else internalDescribe t (if isAlias o then o else e) a p
  | .pattern _ => if asg cfg sfh e a then .ok [] else .ok [.patternMismatch p o a]
  | .enum _ _ => if asg cfg sfh e a then .ok [] else .ok [.patternMismatch p o a]
  | _ => if asg cfg sfh e a then .ok [] else .ok [.typeMismatch p (.ofTy o) a]
termination_by (a.w, hw e)
decreasing_by
  all_goals simp_wf
  all_goals first
    | (apply Prod.Lex.right; simp only [hw, hwl, hwlA_map, dataMembers, richMembers, hwlA, Atom.hw]; omega)
    | (apply Prod.Lex.left; simp only [Ty.w, Ty.wo, Ty.wl]; omega)
    | (apply Prod.Lex.left; simp only [Ty.w]
       first
        | exact maxAW_structItems _ _ _
        | exact maxAW_hashItems _ _ _
        | exact maxAW_arrTupItems _ _ _
        | exact maxAW_tupArrItems _ _ _
        | exact maxAW_tupTupItems _ _ _ _)

/-- run the items of a loop in order, appending what each yields -/
def descAll (items : List Item) (p : Path) : Res :=
  match items with
  | [] => .ok []
  | .leaf m :: rest => Res.append (.ok [m]) (descAll rest p)
  | .sub e a pe true :: rest =>
      if asg cfg sfh e a then descAll rest p
      else Res.append (internalDescribe e e a (p ++ [pe])) (descAll rest p)
  | .sub e a pe false :: rest => Res.append (internalDescribe e e a (p ++ [pe])) (descAll rest p)
termination_by (maxAW items, sumEW items)
decreasing_by
  all_goals simp_wf
  all_goals (try simp only [maxAW, sumEW, Item.aw, Item.ew])
  all_goals (rw [Prod.lex_def]; simp only []; omega)

/-- the member loop of describeVariantType from member number `i` on -/
def descVar (xs : List Atom) (addUndef : Bool) (i : Nat) (a : Ty) (p : Path) : VRes :=
  match xs with
  | [] =>
      if addUndef then
        (if asg cfg sfh .undef a then .hit else .acc [.typeMismatch (p ++ [PE.nat .variant i]) (.ofTy .undef) a])
      else .acc []
  | .ty t :: xs =>
      if asg cfg sfh t a then .hit
      else VRes.cons (internalDescribe t t a (p ++ [PE.nat .variant i])) (descVar xs addUndef (i + 1) a p)
  | x :: xs =>
      if asgOpaque cfg sfh a then .hit
      else VRes.cons (.ok [.typeMismatch (p ++ [PE.nat .variant i]) (.atom x) a]) (descVar xs addUndef (i + 1) a p)
termination_by (a.w, hwlA xs)
decreasing_by
  all_goals simp_wf
  all_goals (apply Prod.Lex.right; simp only [hwlA, Atom.hw]; omega)
end

/-- `describe(expected, actual, path)` -/
def describe (e a : Ty) (p : Path) : Res :=
  if asg cfg sfh e a then .ok [] else
  match internalDescribe cfg sfh e e a p with
  | .fault k => .fault k
  | .ok [] => .ok [.typeMismatch p (.ofTy e) a]
  | .ok ds => .ok ds

/-- the path `px.DescribeMismatch(name, …)` starts from: `{"function <name>:", subject}` -/
def subjectPath (name : String) : Path := [⟨.subject, "function " ++ name ++ ":"⟩]

end
end Pcore.Desc
