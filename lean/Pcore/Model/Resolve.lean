import Pcore.Model.Types
/-!
# The resolver's decision structure: parsed expression → type | reported error code          (property C06, second half)

Core Lean only.

`Context.ParseType(text)` = `types.Parse` then `DeferredType.Resolve`.  `Model/Types.lean` (C05) has the ACCEPTING half of the
resolver as `resolve : Expr → Option Ty` (which type an accepted expression denotes).  This file adds the REFUSING half —
which issue code is reported, in the order in which the implementation evaluates — and the places where the Go code indexes
or re-slices a slice it has sized itself (`newEnumType3`), as explicit `fault` results that `Props/C06.lean` proves
unreachable.

Code ↔ model map
* `internal/context.go pxContext.ParseType` (not a ResolvableType → `PCORE_FAILURE`)                → `resolveR` (last case)
* `types/deferredtype.go DeferredType.Resolve`: the parameters are resolved first, left to right, depth first
  (`resolveValue`: nested DeferredTypes, Arrays, Hashes key before value); the first panic wins; then `ResolveWithParams`
                                                                                                    → `resolveR`, `resolveArgR`, `resolveArgsR`, `resolveEntriesR`
* `types/resolver.go ResolveWithParams`: a core type without a positional creator → `PCORE_NOT_PARAMETERIZED_TYPE`;
  an unknown name is a TypeReference and gets ITS creator                                            → `createR`, `notParamNames`
* the `illegalArgumentType / illegalArgumentCount / illegalArguments` panics of every positional creator, in the order the
  creator tests its arguments; `NewRegexpType` → `PCORE_INVALID_REGEXP`; `NewRuntimeType` →
  `PCORE_GO_RUNTIME_TYPE_WITHOUT_GO_TYPE`                                                            → `diagK`
* `types/enumtype.go newEnumType3`, statement by statement: `enums = make([]string, top)`, `enums[idx] = …`,
  `enums = enums[:idx]`                                                                              → `enumLow`, `enumLoop`

`outside`: the expression mentions something this model does not have (a constructor call, `Init[…]`, `Like`, `Object[…]`,
`TypeSet[…]`, the leaf types with parameters, a name the loader may know).  `Expr.outsideB` decides that SYNTACTICALLY, before anything is evaluated, so that the harness can decide the
same thing on the implementation's parse result (twin: harness/syn `Modelled`).
-/
namespace Pcore.Syntax

inductive Code where
  | argType        -- PCORE_ILLEGAL_ARGUMENT_TYPE
  | argCount       -- PCORE_ILLEGAL_ARGUMENT_COUNT
  | args           -- PCORE_ILLEGAL_ARGUMENTS
  | invalidRegexp  -- PCORE_INVALID_REGEXP
  | goRuntime      -- PCORE_GO_RUNTIME_TYPE_WITHOUT_GO_TYPE
  | notParam       -- PCORE_NOT_PARAMETERIZED_TYPE
  | failure        -- PCORE_FAILURE
  deriving DecidableEq, Repr

def Code.name : Code → String
  | .argType => "PCORE_ILLEGAL_ARGUMENT_TYPE"
  | .argCount => "PCORE_ILLEGAL_ARGUMENT_COUNT"
  | .args => "PCORE_ILLEGAL_ARGUMENTS"
  | .invalidRegexp => "PCORE_INVALID_REGEXP"
  | .goRuntime => "PCORE_GO_RUNTIME_TYPE_WITHOUT_GO_TYPE"
  | .notParam => "PCORE_NOT_PARAMETERIZED_TYPE"
  | .failure => "PCORE_FAILURE"

inductive RFault where
  | index      -- `enums[idx] = …` with `idx ≥ len(enums)`
  | slice      -- `enums[:idx]` with `idx > cap(enums)`
  | nofuel     -- the recursion of a creator through nested Array arguments did not end within the nesting depth
  deriving DecidableEq, Repr

inductive RRes (α : Type) where
  | ok (a : α)
  | reported (c : Code)
  | outside
  | fault (k : RFault)
  deriving Repr

def RRes.map {α β : Type} (f : α → β) : RRes α → RRes β
  | .ok a => .ok (f a)
  | .reported c => .reported c
  | .outside => .outside
  | .fault k => .fault k

def RRes.bind {α β : Type} (x : RRes α) (f : α → RRes β) : RRes β :=
  match x with
  | .ok a => f a
  | .reported c => .reported c
  | .outside => .outside
  | .fault k => .fault k

/-! ### what lies outside the model (syntactic) -/

/-- the core types without a positional creator (`ResolveWithParams` raises NOT_PARAMETERIZED_TYPE for `Name[…]`) -/
def notParamNames : List Str :=
  ["Any", "Unit", "Undef", "Default", "Scalar", "ScalarData", "Numeric", "Data", "RichData", "Binary"].map String.toList

/-- is this (bare or parameterized) type name one the model answers for? -/
def nameModelled (env : Env) (n : Str) (hasParams : Bool) : Bool :=
  let c := canonName n
  if (kindOf c).isSome then true
  else if plainNames.contains c then (!hasParams || notParamNames.contains c)
  else !coreOther.contains c && env.unknown n

mutual
/-- the expression mentions something outside the model -/
def Expr.outsideB (env : Env) : Expr → Bool
  | .dtype n none => !nameModelled env n false
  | .dtype n (some ps) =>
    !nameModelled env n true || Expr.outsideL env ps
  | .arr es => Expr.outsideL env es
  | .hash es => Expr.outsideE env es
  | .entry k v => Expr.outsideB env k || Expr.outsideB env v
  | .call _ _ => true
  | .named _ _ => true
  | _ => false
def Expr.outsideL (env : Env) : List Expr → Bool
  | [] => false
  | e :: es => Expr.outsideB env e || Expr.outsideL env es
def Expr.outsideE (env : Env) : List (Expr × Expr) → Bool
  | [] => false
  | (k, v) :: es => Expr.outsideB env k || Expr.outsideB env v || Expr.outsideE env es
end

/-! ### `newEnumType3`, statement by statement -/

/-- the loop `args.EachWithIndex(func(arg, idx) …)` over the remaining arguments: `enums` is the slice (its length is what
    an index is checked against; its capacity is `top`), `ci` the flag -/
def enumLoop (top : Nat) : List Arg → Nat → List Str → Bool → RRes (List Str × Bool)
  | [], _, enums, ci => .ok (enums, ci)
  | arg :: rest, idx, enums, ci =>
    match arg with
    | .str s =>
      if idx < enums.length then enumLoop top rest (idx + 1) (enums.set idx s) ci      -- enums[idx] = string(str)
      else .fault .index
    | .bool b =>
      if idx + 1 = top then
        if idx ≤ top then enumLoop top rest (idx + 1) (enums.take idx) b              -- enums = enums[:idx]
        else .fault .slice
      else .reported .argType
    | _ => .reported .argType

/-- `newEnumType3(args)`; `fuel` bounds the recursion through a single Array argument -/
def enumLow (fuel : Nat) (args : List Arg) : RRes Ty :=
  match fuel with
  | 0 => .fault .nofuel
  | f + 1 =>
    match args with
    | [] => .ok (.enum [] false)
    | [.str s] => fin [s] false
    | [.arr as] => enumLow f as
    | [_] => .reported .argType
    | .arr as :: rest =>
      let l := as ++ rest
      if l.isEmpty then .ok (.enum [] false) else run l
    | _ => run args
where
  /-- `NewEnumType(enums, caseInsensitive)` -/
  fin (vs : List Str) (ci : Bool) : RRes Ty :=
    match newEnum vs ci with
    | some t => .ok t
    | none => .outside
  run (l : List Arg) : RRes Ty :=
    (enumLoop l.length l 0 (List.replicate l.length []) false).bind fun r => fin r.1 r.2

/-! ### which code a refusing creator reports -/

def Arg.isIntOrD : Arg → Bool
  | .int _ => true
  | .dflt => true
  | _ => false

def Arg.isFloatOrD : Arg → Bool
  | .float _ => true
  | .dflt => true
  | _ => false

/-- `min, max` given as two arguments, each an Integer or `default`: the type of the first, then of the second, then the
    range (`NewIntegerType`: min > max) -/
def diagTwo (a b : Arg) : Code :=
  if !a.isIntOrD then .argType else if !b.isIntOrD then .argType else .args

/-- `newPatternType3`: the first argument (by index) that is refused -/
def diagPattern (env : Env) : List Arg → Code
  | [] => .argType
  | a :: as =>
    match a with
    | .ty (.regexp _) => diagPattern env as
    | .rx _ => diagPattern env as
    | .str s => if s.isEmpty || env.rxOK s then diagPattern env as else .invalidRegexp
    | _ => .argType

/-- `tupleFromArgs` after flattening: a size whose minimum exceeds its maximum is ILLEGAL_ARGUMENTS (it is looked at before
    the member types), anything else that is refused is a member that is not a type -/
def diagTupleBody (l : List Arg) : Code :=
  match l.reverse with
  | [] => .argType
  | last :: restRev =>
    let mx : Option Int :=
      match last with
      | .dflt => some i64max
      | .int n => if n ≥ 0 then some n else none
      | _ => none
    match mx with
    | none => .argType
    | some m =>
      match restRev with
      | [] => .argType
      | .int mn :: _ => if (newInt mn m).isNone then .args else .argType
      | _ => if (newInt m restRev.length).isNone then .args else .argType

def diagTuple (args : List Arg) : Code :=
  match tupleFlat args with
  | none => .argType                      -- `Tuple[[…], x]` with x not an Integer type
  | some l => diagTupleBody l

/-- the code reported by the positional creator of `kd` for arguments it refuses (meaningful when `createK` is `none`) -/
def diagK (env : Env) (kd : TKind) (args : List Arg) : Code :=
  let fuel := argDepth (.arr args) + 1
  match kd with
  | .integer =>
    match args with
    | [] => .argCount
    | a :: rest =>
      if !a.isIntOrD then .argType
      else
        match rest with
        | [] => .args
        | [b] => if !b.isIntOrD then .argType else .args
        | _ => .argCount
  | .float =>
    match args with
    | [] => .argCount
    | a :: rest =>
      if !a.isFloatOrD then .argType
      else
        match rest with
        | [] => .args
        | [b] => if !b.isFloatOrD then .argType else .args
        | _ => .argCount
  | .string =>
    match args with
    | [a] =>
      match a with
      | .str _ => .args
      | .ty (.int _ _) => .args
      | .int _ => .args
      | _ => .argType
    | [a, b] =>
      match a, b with
      | .int _, .int _ => .args
      | _, _ => .argType
    | _ => .argCount
  | .boolean =>
    match args with
    | [_] => .argType
    | _ => .argCount
  | .enum => .argType                      -- (not used: Enum goes through `enumLow`)
  | .regexp =>
    match args with
    | [.str _] => .invalidRegexp
    | [_] => .argType
    | _ => .argCount
  | .pattern => patCode fuel args
  | .variant => .argType
  | .array =>
    let sz : List Arg :=
      match args with
      | .ty _ :: rest => rest
      | rest => rest
    match sz with
    | [_] => .argType
    | [a, b] => diagTwo a b
    | _ => .argCount
  | .hash =>
    if args.length = 1 ∨ args.length > 4 then .argCount
    else
      match args with
      | .ty _ :: rest =>
        match rest with
        | .ty _ :: sz =>
          match sz with
          | [a, b] => diagTwo a b
          | _ => .argType
        | _ => .argType
      | [a, b] => diagTwo a b
      | _ => .argType
  | .collection =>
    match args with
    | [_] => .argType
    | [a, b] => diagTwo a b
    | _ => .argCount
  | .tuple => diagTuple args
  | .struct => structCode fuel args
  | .callable =>
    match callableSplit args with
    | none => .argType
    | some p =>
      match (blockSplit p.2).2 with
      | [] => .argType
      | l => diagTuple l
  | .runtime =>
    if args.length > 3 then .argCount
    else
      match args with
      | [.str _] => .goRuntime
      | [.str _, .str _] => .goRuntime
      | [.str _, .str _, .ty (.regexp _)] => .goRuntime
      | _ => .argType
  | .typeRef =>
    match args with
    | [_] => .argType
    | _ => .argCount
  | .wrap _ =>
    match args with
    | [_] => .argType
    | _ => .argCount
where
  patCode (fuel : Nat) (args : List Arg) : Code :=
    match fuel with
    | 0 => .argType
    | f + 1 =>
      match args with
      | [.arr as] => patCode f as
      | _ => diagPattern env args
  structCode (fuel : Nat) (args : List Arg) : Code :=
    match fuel with
    | 0 => .argType
    | f + 1 =>
      match args with
      | [.arr as] => structCode f as
      | [_] => .argType
      | _ => .argCount

/-! ### the resolver -/

/-- the creator of a kind: the accepting half is `createK` (C05), the refusing half `diagK`; Enum runs the statement-level
    model -/
def createKR (env : Env) (kd : TKind) (args : List Arg) : RRes Ty :=
  match kd with
  | .enum => enumLow (argDepth (.arr args) + 1) args
  | _ =>
    match createK env kd args with
    | some t => .ok t
    | none => .reported (diagK env kd args)

/-- `ResolveWithParams(c, name, args)` -/
def createR (env : Env) (n : Str) (args : List Arg) : RRes Ty :=
  let c := canonName n
  match kindOf c with
  | some kd => createKR env kd args
  | none =>
    if plainNames.contains c then (if notParamNames.contains c then .reported .notParam else .outside)
    else if !coreOther.contains c ∧ env.unknown n then createKR env .typeRef args
    else .outside

/-- `Resolve(c, name)` for a bare name -/
def nameR (env : Env) (n : Str) : RRes Ty :=
  match resolveName env n with
  | some t => .ok t
  | none => .outside

mutual
/-- `DeferredType.Resolve` with the issue code of the first panic -/
def evalR (env : Env) : Expr → RRes Ty
  | .dtype n none => nameR env n
  | .dtype n (some ps) => (evalArgsR env ps).bind fun args => createR env n args
  | _ => .reported .failure
/-- `resolveValue` (a nested DeferredType is resolved like a top-level one; the two cases are written out so that every
    recursive call is on a sub-expression) -/
def evalArgR (env : Env) : Expr → RRes Arg
  | .dtype n none => (nameR env n).map .ty
  | .dtype n (some ps) => ((evalArgsR env ps).bind fun args => createR env n args).map .ty
  | .int i => .ok (.int i)
  | .float b => .ok (.float b)
  | .dflt => .ok .dflt
  | .str s => .ok (.str s)
  | .regexp s => .ok (.rx s)
  | .bool b => .ok (.bool b)
  | .undef => .ok .undef
  | .arr es => (evalArgsR env es).map .arr
  | .hash es => (evalEntriesR env es).map .hash
  | _ => .outside
def evalArgsR (env : Env) : List Expr → RRes (List Arg)
  | [] => .ok []
  | e :: es => (evalArgR env e).bind fun a => (evalArgsR env es).map fun as => a :: as
def evalEntriesR (env : Env) : List (Expr × Expr) → RRes (List (Arg × Arg))
  | [] => .ok []
  | (k, v) :: es =>
    (evalArgR env k).bind fun a => (evalArgR env v).bind fun b => (evalEntriesR env es).map fun r => (a, b) :: r
end

/-- `Context.ParseType` after a successful parse: a type, a reported issue, or "outside the model" -/
def resolveR (env : Env) (e : Expr) : RRes Ty :=
  if e.outsideB env then .outside else evalR env e

/-- the outcome of `Context.ParseType(text)` as the harness observes it -/
inductive TypeOutcome where
  | type (t : Ty)
  | reported (c : Code)
  | parseError (line col : Nat)
  | outside
  | fault
  deriving Repr

def parseTypeR (env : Env) (inp : List Sym) : TypeOutcome :=
  match parse env inp with
  | .value e =>
    match resolveR env e with
    | .ok t => .type t
    | .reported c => .reported c
    | .outside => .outside
    | .fault _ => .fault
  | .parseError l c => .parseError l c
  | .fault => .fault
  | .nofuel => .fault

end Pcore.Syntax
