import Pcore.Model.Coll
/-!
# Resolving (property C08): `types.ResolveDeferred`, `Deferred.Resolve`, `DeferredType.Resolve`

Core Lean only (linked into the compiled driver).  "Resolving" is one of the operations property C08 lists: it must not
change what any previously obtained value observably contains.  Two layers, as for the collections:

* the PURE layer `resolve sc v`: resolution as a function of (value, scope);
* the IMPLEMENTATION layer `resolveW W sc v`: the same walk over Go OBJECTS, where every statement of the Go code that
  assigns a field of a value (`Generated.fieldWrites`, family fieldwrites of /verif/extract) is executed as a write into
  the object: it returns the value AS IT IS AFTERWARDS together with the answer.  `Writes.ofTable` reads off the
  regenerated table which writes the resolving methods perform:
    - `DeferredType.Resolve` fills the memo field `resolved` under `if dt.resolved == nil` (the code as it is),
    - `(*deferred).Resolve` assigning `e.arguments` (the memoising refactoring of seeded change C08-s11) is NOT in the
      code; a table that has the row makes `resolveW` store the resolved argument list into the Deferred.

Go function → Lean definition
* `types/deferred.go` `ResolveDeferred` → `resolve` / `resolveL` (Array.Map) / `resolveH` (Hash.MapEntries: key and value;
  a `*HashEntry` anywhere else is answered as it is — the `default:` arm),
  `(*deferred).Resolve` → the `.dfr` arm + `finish` (`$name`: scope lookup, `UNKNOWN_VARIABLE`, no arguments = the
  variable itself, else `Array.Dig`; any other name: `px.Call`, `UNKNOWN_FUNCTION` — the harness registers `verif_list`)
* `types/arraytype.go` `Array.Dig` → `dig` / `digStep` (an undef key or an undef / scalar container answers undef; a hash
  is asked with `Get2`, whose `px.ToKey` raises `INVALID_MAP_KEY` for a key that holds a Deferred; an array with `At`
  for an integer key, undef when out of range or for any other key)
* `types/deferredtype.go` `(*DeferredType).Resolve` (no parameters) → `typeText` (`types.Resolve`: a core type, else a
  `TypeReference`); the memo field `resolved` is `RV.dty`'s second component
* `types.NewDeferred`, `NewDeferredType`, `WrapValues`, `WrapHash` → the constructors of `RV` (memo `none`)
-/
namespace Pcore.Immut
open Pcore.Heap (hexOf)

inductive RV where
  | int (i : Int)
  | str (s : String)
  | undef
  | arr (xs : List RV)
  | hsh (es : List RV)                          -- elements are `.ent k v`
  | ent (k v : RV)
  | dfr (name : String) (args : List RV)        -- *deferred{name, arguments}
  | dty (name : String) (memo : Option String)  -- *DeferredType{tn, params = nil, resolved}
  | ty (text : String)                          -- a resolved px.Type, by its text
  deriving Repr, Inhabited

/-! ### what can be observed of a value: the harness's walk (the memo of a DeferredType is not part of it: `ToString`
    prints name and parameters, `Equals` compares the name) -/

mutual
def RV.render : RV → String
  | .int i => s!"(i {i})"
  | .str s => "(s x" ++ hexOf s ++ ")"
  | .undef => "(u)"
  | .arr xs => "(a" ++ renderL xs ++ ")"
  | .hsh es => "(h" ++ renderH es ++ ")"
  | .ent k v => "(e " ++ k.render ++ " " ++ v.render ++ ")"
  | .dfr n as => "(d x" ++ hexOf n ++ renderL as ++ ")"
  | .dty n _ => "(dt x" ++ hexOf n ++ ")"
  | .ty t => "(t x" ++ hexOf t ++ ")"
def renderL : List RV → String
  | [] => ""
  | x :: xs => " " ++ x.render ++ renderL xs
def renderH : List RV → String
  | [] => ""
  | .ent k v :: es => " (" ++ k.render ++ " " ++ v.render ++ ")" ++ renderH es
  | x :: es => " " ++ x.render ++ renderH es
end

mutual
/-- the observable content: every memo forgotten -/
def RV.erase : RV → RV
  | .arr xs => .arr (eraseL xs)
  | .hsh es => .hsh (eraseL es)
  | .ent k v => .ent k.erase v.erase
  | .dfr n as => .dfr n (eraseL as)
  | .dty n _ => .dty n none
  | v => v
def eraseL : List RV → List RV
  | [] => []
  | x :: xs => x.erase :: eraseL xs
end

/-! ### `types.Resolve(c, name)` for a DeferredType without parameters -/

def coreTypeNames : List String := ["Integer", "String", "Any", "Boolean"]

def typeText (name : String) : String :=
  if coreTypeNames.contains name then name else "TypeReference['" ++ name ++ "']"

/-! ### `Array.Dig` -/

inductive RErr | unknownVariable | unknownFunction | invalidKey
  deriving Repr, DecidableEq

def RErr.text : RErr → String
  | .unknownVariable => "reported UNKNOWN_VARIABLE"
  | .unknownFunction => "reported UNKNOWN_FUNCTION"
  | .invalidKey => "reported INVALID_MAP_KEY"

mutual
/-- `px.ToKey` answers (does not raise `INVALID_MAP_KEY`): nothing deferred inside -/
def RV.hashable : RV → Bool
  | .dfr _ _ => false
  | .dty _ _ => false
  | .arr xs => hashableL xs
  | .hsh es => hashableL es
  | .ent k v => k.hashable && v.hashable
  | _ => true
def hashableL : List RV → Bool
  | [] => true
  | x :: xs => x.hashable && hashableL xs
end

/-- equality of SCALAR keys (the hashes that are dug into have scalar keys only: harness `scalarKeys`) -/
def sameKey : RV → RV → Bool
  | .int a, .int b => a == b
  | .str a, .str b => a == b
  | _, _ => false

/-- `Hash.Get2(k, undef)` over scalar keys -/
def hashGet (k : RV) : List RV → RV
  | [] => .undef
  | .ent k' v :: es => if sameKey k' k then v else hashGet k es
  | _ :: es => hashGet k es

/-- one step of the `Reduce2` in `Array.Dig` -/
def digStep (d k : RV) : Except RErr RV :=
  match k with
  | .undef => .ok .undef
  | _ =>
    match d with
    | .hsh es => if k.hashable then .ok (hashGet k es) else .error .invalidKey
    | .arr xs =>
      match k with
      | .int i => if i < 0 then .ok .undef else .ok (xs.getD i.toNat .undef)
      | _ => .ok .undef
    | _ => .ok .undef

def dig (d : RV) : List RV → Except RErr RV
  | [] => .ok d
  | k :: ks =>
    match digStep d k with
    | .error e => .error e
    | .ok d' => dig d' ks

/-- the scope is a hash with string keys: `scope.Get(stringValue(vn))` -/
def scopeGet (sc : List RV) (vn : String) : Option RV :=
  match sc with
  | [] => none
  | .ent (.str k) v :: es => if k == vn then some v else scopeGet es vn
  | _ :: es => scopeGet es vn

/-- `(*deferred).Resolve` once the arguments `da` are resolved -/
def varName? (name : String) : Option String :=
  match name.toList with
  | '$' :: cs => some (String.ofList cs)
  | _ => none

def finish (sc : List RV) (name : String) (da : List RV) : Except RErr RV :=
  match varName? name with
  | some vn =>
    match scopeGet sc vn with
    | none => .error .unknownVariable
    | some vv => if da.isEmpty then .ok vv else dig vv da
  | none => if name == "verif_list" then .ok (.arr da) else .error .unknownFunction

/-! ### the pure layer -/

mutual
def resolve (sc : List RV) : RV → Except RErr RV
  | .dfr name args =>
    match resolveL sc args with
    | .error e => .error e
    | .ok da => finish sc name da
  | .dty name _ => .ok (.ty (typeText name))
  | .arr xs =>
    match resolveL sc xs with
    | .error e => .error e
    | .ok ys => .ok (.arr ys)
  | .hsh es =>
    match resolveH sc es with
    | .error e => .error e
    | .ok fs => .ok (.hsh fs)
  | v => .ok v
def resolveL (sc : List RV) : List RV → Except RErr (List RV)
  | [] => .ok []
  | x :: xs =>
    match resolve sc x with
    | .error e => .error e
    | .ok y =>
      match resolveL sc xs with
      | .error e => .error e
      | .ok ys => .ok (y :: ys)
def resolveH (sc : List RV) : List RV → Except RErr (List RV)
  | [] => .ok []
  | .ent k v :: es =>
    match resolve sc k with
    | .error e => .error e
    | .ok k' =>
      match resolve sc v with
      | .error e => .error e
      | .ok v' =>
        match resolveH sc es with
        | .error e => .error e
        | .ok fs => .ok (.ent k' v' :: fs)
  | x :: es =>
    match resolveH sc es with
    | .error e => .error e
    | .ok fs => .ok (x :: fs)
end

/-! ### the regenerated facts: field writes outside construction (family fieldwrites) -/

inductive WKind | fresh | write | lazyFill | reset | elem
  deriving Repr, DecidableEq

/-- one assignment to a field of a struct behind a px.Value implementation: struct, field, enclosing function, kind -/
structure FieldWrite where
  ty : String
  field : String
  fn : String
  kind : WKind
  deriving Repr, DecidableEq

/-- which writes the resolving methods perform -/
structure Writes where
  /-- `(*deferred).Resolve` assigns `e.arguments` (any kind of write to that field in that method) -/
  dfrArgs : Bool
  /-- `(*DeferredType).Resolve` assigns `dt.resolved`: `none` = never, `some true` = only under `if dt.resolved == nil`
      (a memo filled once), `some false` = some other way (modelled as: overwritten on every call) -/
  dtyMemo : Option Bool
  deriving Repr, DecidableEq

def Writes.ofTable (t : List FieldWrite) : Writes where
  dfrArgs := t.any fun w => w.ty == "deferred" && w.field == "arguments" && w.fn == "deferred.Resolve"
  dtyMemo :=
    let rows := t.filter fun w => w.ty == "DeferredType" && w.field == "resolved" && w.fn == "DeferredType.Resolve"
    if rows.isEmpty then none else some (rows.all fun w => w.kind == .lazyFill)

/-! ### the implementation layer: the walk over objects, writes included

`resolveW W sc v = (v', answer)`: `v'` is the value as it is after the call (the same objects, fields possibly
assigned).  A failed call (a Go panic) leaves the writes made before the panic in place. -/

/-- `(*DeferredType).Resolve`: the answer and the memo afterwards -/
def dtyResolve (W : Writes) (name : String) (memo : Option String) : Option String × String :=
  match W.dtyMemo with
  | none => (memo, typeText name)
  | some true =>
    match memo with
    | some t => (some t, t)                       -- `if dt.resolved == nil { … }; return dt.resolved`
    | none => (some (typeText name), typeText name)
  | some false => (some (typeText name), typeText name)

mutual
def resolveW (W : Writes) (sc : List RV) : RV → RV × Except RErr RV
  | .dfr name args =>
    match resolveWL W sc args with
    | (args', .error e) => (.dfr name args', .error e)
    | (args', .ok da) =>
      -- with the write: `e.arguments = ResolveDeferred(c, e.arguments, scope).(*Array)` (only when there are arguments)
      (.dfr name (if W.dfrArgs && !args.isEmpty then da else args'), finish sc name da)
  | .dty name memo =>
    let r := dtyResolve W name memo
    (.dty name r.1, .ok (.ty r.2))
  | .arr xs =>
    match resolveWL W sc xs with
    | (xs', .error e) => (.arr xs', .error e)
    | (xs', .ok ys) => (.arr xs', .ok (.arr ys))
  | .hsh es =>
    match resolveWH W sc es with
    | (es', .error e) => (.hsh es', .error e)
    | (es', .ok fs) => (.hsh es', .ok (.hsh fs))
  | v => (v, .ok v)
def resolveWL (W : Writes) (sc : List RV) : List RV → List RV × Except RErr (List RV)
  | [] => ([], .ok [])
  | x :: xs =>
    match resolveW W sc x with
    | (x', .error e) => (x' :: xs, .error e)
    | (x', .ok y) =>
      match resolveWL W sc xs with
      | (xs', .error e) => (x' :: xs', .error e)
      | (xs', .ok ys) => (x' :: xs', .ok (y :: ys))
def resolveWH (W : Writes) (sc : List RV) : List RV → List RV × Except RErr (List RV)
  | [] => ([], .ok [])
  | .ent k v :: es =>
    match resolveW W sc k with
    | (k', .error e) => (.ent k' v :: es, .error e)
    | (k', .ok k2) =>
      match resolveW W sc v with
      | (v', .error e) => (.ent k' v' :: es, .error e)
      | (v', .ok v2) =>
        match resolveWH W sc es with
        | (es', .error e) => (.ent k' v' :: es', .error e)
        | (es', .ok fs) => (.ent k' v' :: es', .ok (.ent k2 v2 :: fs))
  | x :: es =>
    match resolveWH W sc es with
    | (es', .error e) => (x :: es', .error e)
    | (es', .ok fs) => (x :: es', .ok (x :: fs))
end

/-- resolutions under several scopes IN SEQUENCE on the same objects: the value afterwards and every answer -/
def resolveSeq (W : Writes) (v : RV) : List (List RV) → RV × List (Except RErr RV)
  | [] => (v, [])
  | sc :: scs =>
    let r := resolveW W sc v
    let rest := resolveSeq W r.1 scs
    (rest.1, r.2 :: rest.2)

mutual
/-- every memo of a value is empty or holds what resolution would compute (true of every freshly built value) -/
def RV.memoOK : RV → Bool
  | .arr xs => memoOKL xs
  | .hsh es => memoOKL es
  | .ent k v => k.memoOK && v.memoOK
  | .dfr _ as => memoOKL as
  | .dty n m => m == none || m == some (typeText n)
  | _ => true
def memoOKL : List RV → Bool
  | [] => true
  | x :: xs => x.memoOK && memoOKL xs
end

def answerText : Except RErr RV → String
  | .ok v => "ok " ++ v.render
  | .error e => e.text

end Pcore.Immut
