import Pcore.Model.Coll
/-!
# Resolving (property C08): `types.ResolveDeferred`, `Deferred.Resolve`, `DeferredType.Resolve`

Core Lean only (linked into the compiled driver).  "Resolving" is one of the operations property C08 lists: it must not
change what any previously obtained value observably contains.  Two layers, as for the collections:

* the PURE layer `resolve sc v`: resolution as a function of (value, scope);
* the IMPLEMENTATION layer `resolveW W sc v`: the same walk over Go OBJECTS, where every statement of the Go code that
  assigns a field of a value (`Generated.fieldWrites`, family fieldwrites of /verif/extract) is executed as a write into
  the object: it returns the value AS IT IS AFTERWARDS together with the answer.  `Writes.ofTable` reads off the
  regenerated table which writes the resolving methods perform:
    - `DeferredType.Resolve` fills the memo field `resolved` under `if dt.resolved == nil` (the code as it is),
    - `(*deferred).Resolve` assigning `e.arguments` (the memoising refactoring of seeded change C08-s11) is NOT in the
      code; a table that has the row makes `resolveW` store the resolved argument list into the Deferred.

Go function → Lean definition
* `types/deferred.go` `ResolveDeferred` → `resolve` / `resolveL` (Array.Map) / `resolveH` (Hash.MapEntries: key and value;
  a `*HashEntry` anywhere else is answered as it is — the `default:` arm),
  `(*deferred).Resolve` → the `.dfr` arm + `finish` (`$name`: scope lookup, `UNKNOWN_VARIABLE`, no arguments = the
  variable itself, else `Array.Dig`; any other name: `px.Call`, `UNKNOWN_FUNCTION` — the harness registers `verif_list`)
* `types/arraytype.go` `Array.Dig` → `dig` / `digStep` (an undef key or an undef / scalar container answers undef; a hash
  is asked with `Get2`, whose `px.ToKey` raises `INVALID_MAP_KEY` for a key that holds a Deferred; an array with `At`
  for an integer key, undef when out of range or for any other key)
* `types/deferredtype.go` `(*DeferredType).Resolve` → the `.dty` arm: without parameters `typeText` (`types.Resolve`: a core
  type, else a `TypeReference`); with parameters `resolveValue(c, WrapValues(dt.params))` — the same walk with the EMPTY
  scope (`v.Resolve(c, emptyMap)`) that also resolves a bare `*HashEntry` (`deep := true`; inside a Deferred's arguments
  `(*deferred).Resolve` goes back to `ResolveDeferred`: `deep := false`) — then `ResolveWithParams` → `paramTypeText` (the
  one-parameter wrappers Array / Optional / Type / NotUndef and Tuple, over parameters that are types: `W[Any]` prints `W`);
  the memo field `resolved` is `RV.dty`'s third component (filled on success only)
* `types.NewDeferred`, `NewDeferredType`, `WrapValues`, `WrapHash` → the constructors of `RV` (memo `none`)
-/
namespace Pcore.Immut
open Pcore.Heap (hexOf)

inductive RV where
  | int (i : Int)
  | str (s : String)
  | undef
  | arr (xs : List RV)
  | hsh (es : List RV)                          -- elements are `.ent k v`
  | ent (k v : RV)
  | dfr (name : String) (args : List RV)        -- *deferred{name, arguments}
  | dty (name : String) (params : List RV) (memo : Option String)  -- *DeferredType{tn, params ([] = nil), resolved}
  | ty (text : String)                          -- a resolved px.Type, by its text
  deriving Repr, Inhabited

/-! ### what can be observed of a value: the harness's walk (the memo of a DeferredType is not part of it: `ToString`
    prints name and parameters, `Equals` compares the name) -/

mutual
def RV.render : RV → String
  | .int i => s!"(i {i})"
  | .str s => "(s x" ++ hexOf s ++ ")"
  | .undef => "(u)"
  | .arr xs => "(a" ++ renderL xs ++ ")"
  | .hsh es => "(h" ++ renderH es ++ ")"
  | .ent k v => "(e " ++ k.render ++ " " ++ v.render ++ ")"
  | .dfr n as => "(d x" ++ hexOf n ++ renderL as ++ ")"
  | .dty n ps _ => "(dt x" ++ hexOf n ++ renderL ps ++ ")"
  | .ty t => "(t x" ++ hexOf t ++ ")"
def renderL : List RV → String
  | [] => ""
  | x :: xs => " " ++ x.render ++ renderL xs
def renderH : List RV → String
  | [] => ""
  | .ent k v :: es => " (" ++ k.render ++ " " ++ v.render ++ ")" ++ renderH es
  | x :: es => " " ++ x.render ++ renderH es
end

mutual
/-- the observable content: every memo forgotten -/
def RV.erase : RV → RV
  | .arr xs => .arr (eraseL xs)
  | .hsh es => .hsh (eraseL es)
  | .ent k v => .ent k.erase v.erase
  | .dfr n as => .dfr n (eraseL as)
  | .dty n ps _ => .dty n (eraseL ps) none
  | v => v
def eraseL : List RV → List RV
  | [] => []
  | x :: xs => x.erase :: eraseL xs
end

/-! ### `types.Resolve(c, name)` for a DeferredType without parameters -/

def coreTypeNames : List String := ["Integer", "String", "Any", "Boolean"]

def typeText (name : String) : String :=
  if coreTypeNames.contains name then name else "TypeReference['" ++ name ++ "']"

/-! ### `Array.Dig` -/

inductive RErr | unknownVariable | unknownFunction | invalidKey | illegalArgument
  deriving Repr, DecidableEq

def RErr.text : RErr → String
  | .unknownVariable => "reported UNKNOWN_VARIABLE"
  | .unknownFunction => "reported UNKNOWN_FUNCTION"
  | .invalidKey => "reported INVALID_MAP_KEY"
  | .illegalArgument => "reported ILLEGAL_ARGUMENT"

mutual
/-- `px.ToKey` answers (does not raise `INVALID_MAP_KEY`): nothing deferred inside -/
def RV.hashable : RV → Bool
  | .dfr _ _ => false
  | .dty _ _ _ => false
  | .arr xs => hashableL xs
  | .hsh es => hashableL es
  | .ent k v => k.hashable && v.hashable
  | _ => true
def hashableL : List RV → Bool
  | [] => true
  | x :: xs => x.hashable && hashableL xs
end

/-- equality of SCALAR keys (the hashes that are dug into have scalar keys only: harness `scalarKeys`) -/
def sameKey : RV → RV → Bool
  | .int a, .int b => a == b
  | .str a, .str b => a == b
  | _, _ => false

/-- `Hash.Get2(k, undef)` over scalar keys -/
def hashGet (k : RV) : List RV → RV
  | [] => .undef
  | .ent k' v :: es => if sameKey k' k then v else hashGet k es
  | _ :: es => hashGet k es

/-- one step of the `Reduce2` in `Array.Dig` -/
def digStep (d k : RV) : Except RErr RV :=
  match k with
  | .undef => .ok .undef
  | _ =>
    match d with
    | .hsh es => if k.hashable then .ok (hashGet k es) else .error .invalidKey
    | .arr xs =>
      match k with
      | .int i => if i < 0 then .ok .undef else .ok (xs.getD i.toNat .undef)
      | _ => .ok .undef
    | _ => .ok .undef

def dig (d : RV) : List RV → Except RErr RV
  | [] => .ok d
  | k :: ks =>
    match digStep d k with
    | .error e => .error e
    | .ok d' => dig d' ks

/-- the scope is a hash with string keys: `scope.Get(stringValue(vn))` -/
def scopeGet (sc : List RV) (vn : String) : Option RV :=
  match sc with
  | [] => none
  | .ent (.str k) v :: es => if k == vn then some v else scopeGet es vn
  | _ :: es => scopeGet es vn

/-- `(*deferred).Resolve` once the arguments `da` are resolved -/
def varName? (name : String) : Option String :=
  match name.toList with
  | '$' :: cs => some (String.ofList cs)
  | _ => none

def finish (sc : List RV) (name : String) (da : List RV) : Except RErr RV :=
  match varName? name with
  | some vn =>
    match scopeGet sc vn with
    | none => .error .unknownVariable
    | some vv => if da.isEmpty then .ok vv else dig vv da
  | none =>
    if name == "verif_list" then .ok (.arr da)
    else if name == "verif_first" then .ok (da.headD .undef)
    else .error .unknownFunction

/-! ### `ResolveWithParams` for the parameterised types of this model -/

/-- the texts of the parameters when every one of them is a type -/
def tyTexts : List RV → Option (List String)
  | [] => some []
  | .ty t :: xs => (tyTexts xs).map (t :: ·)
  | _ :: _ => none

def wrapperNames : List String := ["Array", "Optional", "Type", "NotUndef"]

/-- `Array[T]`, `Optional[T]`, `Type[T]`, `NotUndef[T]` (with `T = Any` the parameter is not printed) and `Tuple[T1, …]` -/
def paramTypeText (name : String) (args : List RV) : Except RErr String :=
  match tyTexts args with
  | none => .error .illegalArgument
  | some ts =>
    if wrapperNames.contains name then
      match ts with
      | [t] => .ok (if t == "Any" then name else name ++ "[" ++ t ++ "]")
      | _ => .error .illegalArgument
    else if name == "Tuple" && !ts.isEmpty then .ok ("Tuple[" ++ ", ".intercalate ts ++ "]")
    else .error .illegalArgument

/-! ### the pure layer

`deep = false`: `ResolveDeferred(c, ·, scope)`; `deep = true`: `resolveValue(c, ·)` (called with the empty scope; resolves a
bare hash entry too). -/

mutual
def resolve (deep : Bool) (sc : List RV) : RV → Except RErr RV
  | .dfr name args =>
    match resolveL false sc args with
    | .error e => .error e
    | .ok da => finish sc name da
  | .dty name ps _ =>
    if ps.isEmpty then .ok (.ty (typeText name)) else
    match resolveL true [] ps with
    | .error e => .error e
    | .ok as =>
      match paramTypeText name as with
      | .error e => .error e
      | .ok t => .ok (.ty t)
  | .arr xs =>
    match resolveL deep sc xs with
    | .error e => .error e
    | .ok ys => .ok (.arr ys)
  | .hsh es =>
    match resolveH deep sc es with
    | .error e => .error e
    | .ok fs => .ok (.hsh fs)
  | .ent k v =>
    if deep then
      match resolve deep sc k with
      | .error e => .error e
      | .ok k' =>
        match resolve deep sc v with
        | .error e => .error e
        | .ok v' => .ok (.ent k' v')
    else .ok (.ent k v)
  | v => .ok v
def resolveL (deep : Bool) (sc : List RV) : List RV → Except RErr (List RV)
  | [] => .ok []
  | x :: xs =>
    match resolve deep sc x with
    | .error e => .error e
    | .ok y =>
      match resolveL deep sc xs with
      | .error e => .error e
      | .ok ys => .ok (y :: ys)
def resolveH (deep : Bool) (sc : List RV) : List RV → Except RErr (List RV)
  | [] => .ok []
  | .ent k v :: es =>
    match resolve deep sc k with
    | .error e => .error e
    | .ok k' =>
      match resolve deep sc v with
      | .error e => .error e
      | .ok v' =>
        match resolveH deep sc es with
        | .error e => .error e
        | .ok fs => .ok (.ent k' v' :: fs)
  | x :: es =>
    match resolveH deep sc es with
    | .error e => .error e
    | .ok fs => .ok (x :: fs)
end

/-! ### the regenerated facts: field writes outside construction (family fieldwrites) -/

inductive WKind | fresh | write | lazyFill | reset | elem
  deriving Repr, DecidableEq

/-- one assignment to a field of a struct behind a px.Value implementation: struct, field, enclosing function, kind -/
structure FieldWrite where
  ty : String
  field : String
  fn : String
  kind : WKind
  deriving Repr, DecidableEq

/-- which writes the resolving methods perform -/
structure Writes where
  /-- `(*deferred).Resolve` assigns `e.arguments` (any kind of write to that field in that method) -/
  dfrArgs : Bool
  /-- `(*DeferredType).Resolve` assigns `dt.resolved`: `none` = never, `some true` = only under `if dt.resolved == nil`
      (a memo filled once), `some false` = some other way (modelled as: overwritten on every call) -/
  dtyMemo : Option Bool
  deriving Repr, DecidableEq

def Writes.ofTable (t : List FieldWrite) : Writes where
  -- (whatever function holds the statement: `Resolve` itself or a helper it calls; not the construction of a new object)
  dfrArgs := t.any fun w => w.ty == "deferred" && w.field == "arguments" && w.kind != .fresh
  dtyMemo :=
    let rows := t.filter fun w => w.ty == "DeferredType" && w.field == "resolved" && w.kind != .fresh
    if rows.isEmpty then none else some (rows.all fun w => w.kind == .lazyFill)

/-! ### the implementation layer: the walk over objects, writes included

`resolveW W sc v = (v', answer)`: `v'` is the value as it is after the call (the same objects, fields possibly
assigned).  A failed call (a Go panic) leaves the writes made before the panic in place. -/

/-- a memo that answers without resolving anything: only under the lazy policy (`if dt.resolved == nil { … }`) -/
def dtyHit (W : Writes) (memo : Option String) : Option String :=
  match W.dtyMemo with
  | some true => memo
  | _ => none

/-- the memo after a successful resolution to `t` -/
def dtyStore (W : Writes) (memo : Option String) (t : String) : Option String :=
  match W.dtyMemo with
  | none => memo
  | some _ => some t

mutual
def resolveW (W : Writes) (deep : Bool) (sc : List RV) : RV → RV × Except RErr RV
  | .dfr name args =>
    match resolveWL W false sc args with
    | (args', .error e) => (.dfr name args', .error e)
    | (args', .ok da) =>
      -- with the write: `e.arguments = ResolveDeferred(c, e.arguments, scope).(*Array)` (only when there are arguments)
      (.dfr name (if W.dfrArgs && !args.isEmpty then da else args'), finish sc name da)
  | .dty name ps memo =>
    match dtyHit W memo with
    | some t => (.dty name ps memo, .ok (.ty t))      -- `if dt.resolved == nil { … }; return dt.resolved`
    | none =>
      if ps.isEmpty then (.dty name ps (dtyStore W memo (typeText name)), .ok (.ty (typeText name))) else
      match resolveWL W true [] ps with
      | (ps', .error e) => (.dty name ps' memo, .error e)
      | (ps', .ok as) =>
        match paramTypeText name as with
        | .error e => (.dty name ps' memo, .error e)
        | .ok t => (.dty name ps' (dtyStore W memo t), .ok (.ty t))
  | .arr xs =>
    match resolveWL W deep sc xs with
    | (xs', .error e) => (.arr xs', .error e)
    | (xs', .ok ys) => (.arr xs', .ok (.arr ys))
  | .hsh es =>
    match resolveWH W deep sc es with
    | (es', .error e) => (.hsh es', .error e)
    | (es', .ok fs) => (.hsh es', .ok (.hsh fs))
  | .ent k v =>
    if deep then
      match resolveW W deep sc k with
      | (k', .error e) => (.ent k' v, .error e)
      | (k', .ok k2) =>
        match resolveW W deep sc v with
        | (v', .error e) => (.ent k' v', .error e)
        | (v', .ok v2) => (.ent k' v', .ok (.ent k2 v2))
    else (.ent k v, .ok (.ent k v))
  | v => (v, .ok v)
def resolveWL (W : Writes) (deep : Bool) (sc : List RV) : List RV → List RV × Except RErr (List RV)
  | [] => ([], .ok [])
  | x :: xs =>
    match resolveW W deep sc x with
    | (x', .error e) => (x' :: xs, .error e)
    | (x', .ok y) =>
      match resolveWL W deep sc xs with
      | (xs', .error e) => (x' :: xs', .error e)
      | (xs', .ok ys) => (x' :: xs', .ok (y :: ys))
def resolveWH (W : Writes) (deep : Bool) (sc : List RV) : List RV → List RV × Except RErr (List RV)
  | [] => ([], .ok [])
  | .ent k v :: es =>
    match resolveW W deep sc k with
    | (k', .error e) => (.ent k' v :: es, .error e)
    | (k', .ok k2) =>
      match resolveW W deep sc v with
      | (v', .error e) => (.ent k' v' :: es, .error e)
      | (v', .ok v2) =>
        match resolveWH W deep sc es with
        | (es', .error e) => (.ent k' v' :: es', .error e)
        | (es', .ok fs) => (.ent k' v' :: es', .ok (.ent k2 v2 :: fs))
  | x :: es =>
    match resolveWH W deep sc es with
    | (es', .error e) => (x :: es', .error e)
    | (es', .ok fs) => (x :: es', .ok (x :: fs))
end

/-- resolutions under several scopes IN SEQUENCE on the same objects: the value afterwards and every answer -/
def resolveSeq (W : Writes) (v : RV) : List (List RV) → RV × List (Except RErr RV)
  | [] => (v, [])
  | sc :: scs =>
    let r := resolveW W false sc v
    let rest := resolveSeq W r.1 scs
    (rest.1, r.2 :: rest.2)

/-- what a DeferredType resolves to (its parameters taken without their memos) -/
def dtyPure (name : String) (ps : List RV) : Option String :=
  match resolve false [] (.dty name (eraseL ps) none) with
  | .ok (.ty t) => some t
  | _ => none

mutual
/-- every memo of a value is empty or holds what resolution would compute (true of every freshly built value) -/
def RV.memoOK : RV → Bool
  | .arr xs => memoOKL xs
  | .hsh es => memoOKL es
  | .ent k v => k.memoOK && v.memoOK
  | .dfr _ as => memoOKL as
  | .dty n ps m => memoOKL ps && (m == none || m == dtyPure n ps)
  | _ => true
def memoOKL : List RV → Bool
  | [] => true
  | x :: xs => x.memoOK && memoOKL xs
end

def answerText : Except RErr RV → String
  | .ok v => "ok " ++ v.render
  | .error e => e.text

end Pcore.Immut
