import Pcore.Model.DescribeText
set_option linter.unusedSimpArgs false
/-!
  Callable expectations of the mismatch describer (property C19): `describeCallableType` of
  /repo/internal/typemismatchdescriber.go with the guard and the fallback of `describe`, for an expected Callable at the TOP of the
  expectation (a Callable nested inside a lattice type stays an implementation-side test: `Ty` has no Callable constructor).
  Core Lean only.

  Go → Lean
    *types.CallableType {paramsType, returnType, blockType}   → `CT` (`params`: types and given size of the parameter Tuple, lattice terms;
        `ret`: a lattice term; `block`: none, or (is it Optional[…]?, the block's Callable `CT0` — a Callable without a block of its own))
    CallableType.IsAssignable (callabletype.go)                → `asgC` / `asgC0`: all three absent → accepts every Callable; the return type accepts
        the other's (absent = Any); the parameters are compared IN REVERSE (the other's tuple accepts this one's; the other absent ⇒ this
        absent); block: absent ⇒ the other absent, else the other's block type accepts this one's (`asgBlk`)
    GuardedIsAssignable(Callable, lattice type)                → `asgOpaque` (the receiver accepts no modelled type; right-hand decomposition only)
    describeCallableType                                      → `describeCallableType`: parameters through `describeArgumentTuple` = the Tuple arm of
        `internalDescribe` (expected params against the actual params, absent = the default Tuple) — NOT in reverse; only when they yield
        nothing the return type (absent actual = Any; mismatch below a `return` path element), then the block (absent actual = Undef:
        a block type that does not accept it is a missing required block; else a type mismatch below a `block` path element)
    describe (guard, fallback)                                → `describeC`
-/
namespace Pcore.Desc
open Pcore.Lat

def CT.base (c : CT) : CT0 := ⟨c.params, c.ret⟩
def paramTuple (p : List Ty × Option Rng) : Ty := .tuple p.1 p.2

/-- the actual type: a Callable or a lattice type -/
inductive CAct where
  | callable (c : CT)
  | ty (t : Ty)
  deriving Repr, Inhabited

inductive CM where
  | param (m : Mismatch)                       -- from the description of the parameter tuples
  | missingRequiredBlock (p : Path)
  | blockTm (p : Path) (e a : Blk)             -- typeMismatch below `block`
  | returnTm (p : Path) (e a : Ty)             -- typeMismatch below `return`
  | topTm (p : Path) (e : CT) (a : CAct)       -- typeMismatch of the two types themselves
  deriving Repr, Inhabited

inductive CRes where
  | ok (ms : List CM)
  | fault (k : Fault)
  deriving Repr, Inhabited

section
variable (cfg : Cfg) (sfh : Bool)

/-- the shared part of CallableType.IsAssignable: return type and parameters -/
def asgRetParams (tp op : Option (List Ty × Option Rng)) (tr or : Option Ty) : Bool :=
  (match tr with
   | none => true
   | some r => asg cfg sfh r (or.getD .any)) &&
  (match op with
   | some o => (match tp with | none => false | some t => asg cfg sfh (paramTuple o) (paramTuple t))
   | none => tp.isNone)

/-- `t.IsAssignable(o)` for two Callables without block types -/
def asgC0 (t o : CT0) : Bool :=
  if t.ret.isNone && t.params.isNone then true else asgRetParams cfg sfh t.params o.params t.ret o.ret

/-- `GuardedIsAssignable(a, b)` on two block types -/
def asgBlk (a b : Blk) : Bool := (!b.1 || a.1) && asgC0 cfg sfh a.2 b.2

/-- `t.IsAssignable(o)` -/
def asgC (t o : CT) : Bool :=
  if t.ret.isNone && t.params.isNone && t.block.isNone then true else
  asgRetParams cfg sfh t.params o.params t.ret o.ret &&
  (match t.block with
   | none => o.block.isNone
   | some tb => (match o.block with | none => false | some ob => asgBlk cfg sfh ob tb))

/-- `px.IsAssignable(expected Callable, actual)` -/
def asgCA (e : CT) : CAct → Bool
  | .callable c => asgC cfg sfh e c
  | .ty t => asgOpaque cfg sfh t

/-- the block part of describeCallableType -/
def blockPart (e ca : CT) (p : Path) : CRes :=
  match e.block with
  | none => .ok []
  | some eb =>
    match ca.block with
    | none => if eb.1 then .ok [] else .ok [.missingRequiredBlock p]
    | some ab => if asgBlk cfg sfh eb ab then .ok [] else .ok [.blockTm (p ++ [⟨.block, ""⟩]) eb ab]

/-- the return-type part, then the block part -/
def retPart (e ca : CT) (p : Path) : CRes :=
  let ar := ca.ret.getD .any
  match e.ret with
  | some er => if asg cfg sfh er ar then blockPart cfg sfh e ca p else .ok [.returnTm (p ++ [⟨.ret, ""⟩]) er ar]
  | none => blockPart cfg sfh e ca p

/-- `describeArgumentTuple(ep, NilAs(DefaultTupleType, ap), path)` when the expected Callable declares parameters -/
def paramErrors (e ca : CT) (p : Path) : Res :=
  match e.params with
  | none => .ok []
  | some ep =>
      internalDescribe cfg sfh (paramTuple ep) (paramTuple ep)
        (match ca.params with | some ap => paramTuple ap | none => .tuple [] (some Rng.pos)) p

/-- `describeCallableType(expected, original = expected, actual, path)` -/
def describeCallableType (e : CT) (a : CAct) (p : Path) : CRes :=
  match a with
  | .ty _ => .ok [.topTm p e a]
  | .callable ca =>
    match paramErrors cfg sfh e ca p with
    | .fault k => .fault k
    | .ok (d :: ds) => .ok ((d :: ds).map .param)
    | .ok [] => retPart cfg sfh e ca p

/-- `describe(expected Callable, actual, path)` -/
def describeC (e : CT) (a : CAct) (p : Path) : CRes :=
  if asgCA cfg sfh e a then .ok [] else
  match describeCallableType cfg sfh e a p with
  | .fault k => .fault k
  | .ok [] => .ok [.topTm p e a]
  | .ok ds => .ok ds

/-- the mismatches of a Callable description as the describer's own mismatch structs (Callable payloads as `Atom.callable`) -/
def CM.toMismatch : CM → Mismatch
  | .param m => m
  | .missingRequiredBlock p => .missingRequiredBlock p
  | .blockTm p e a => .typeMismatchC p (.atom (.callable e.1 ⟨e.2.params, e.2.ret, none⟩)) (a.1, ⟨a.2.params, a.2.ret, none⟩)
  | .returnTm p e a => .typeMismatch p (.ofTy e) a
  | .topTm p e (.callable c) => .typeMismatchC p (.atom (.callable false e)) (false, c)
  | .topTm p e (.ty t) => .typeMismatch p (.atom (.callable false e)) t

/-- `describe(eBlock, aBlock.Signature(), path)` of describeSignatureBlock: the block type of a signature (Callable or
    Optional[Callable]: describeOptionalType hands the contained Callable to describeCallableType) against the signature of the
    block that was given -/
def describeBlk (eb : Blk) (ab : CT) (p : Path) : Res :=
  let ec : CT := ⟨eb.2.params, eb.2.ret, none⟩
  if asgC cfg sfh ec ab then .ok [] else
  match describeCallableType cfg sfh ec (.callable ab) p with
  | .fault k => .fault k
  | .ok [] => .ok [.typeMismatchC p (.atom (.callable eb.1 ec)) (false, ab)]
  | .ok ds => .ok (ds.map CM.toMismatch)

end
end Pcore.Desc
