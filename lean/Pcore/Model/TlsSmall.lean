import Pcore.Model.Tls
/-!
# Small-step interleaving semantics of the C14 model — core Lean only

`Pcore/Model/Tls.lean` executes a forked goroutine from start to end at a chosen later point (nested interleavings).  Here
a configuration is the shared state (`World`: goroutine-local tables, context heap, loader entries, log) plus one
continuation per goroutine, and ANY goroutine that has not ended may take the next micro-step (`Cfg.step i`).  The same
Go code is mirrored (`leafStep`, `forkCtx`, `tlInit/tlSet/tlCleanup`, … are shared with the big-step model); what the
big-step model does inside one call is cut here at every point where control returns to the interpreter of the program:

* `Frame.run p c`            — execute `p`, the body was handed context `c`;
* `Frame.parent id ctch p root` — `DoWithParent/TryWithParent(root, actor)` is about to be called (inside `doWithRoot`);
* `Frame.restoreCtx save`    — the deferred function of `px.DoWithContext`: `Set(key, save)` resp. `Cleanup()` (`none`);
* `Frame.restoreLoader c l`  — the deferred function of `DoWithLoader`;
* `Frame.catchK`             — a deferred `recover()` (harness `recover`, `TryWithParent`);
* `Frame.endG`, `Frame.endRoot` — bottom of a forked goroutine (its `defer threadlocal.Cleanup()` in `px.Fork`) / of the
  root goroutine.

A panic puts the goroutine in `panicking` mode: frames are popped, deferred ones run, until a `catchK`.
Atomicity: one micro-step is at most one call into pcore up to the point where it calls back the actor (e.g.
`DoWithContext` entry = `Get`, `Init`/`Set`) or one deferred function.  Inside these, goroutines do interleave in Go; the
state they touch there is the goroutine's own table entry and objects not yet published (fresh contexts/loaders) — the
lock-protected `tls` map itself is assumed linearizable (DESIGN §5).

Scheduling for the correspondence run (`runI`): the harness parks every goroutine before each leaf operation; a choice
`d` resumes runnable goroutine number `d mod #runnable` (ascending goroutine id), which then performs that leaf and
everything up to its next leaf or its end (`macroStep`).
-/
namespace Pcore.Tls

inductive Frame where
  | run (p : Prog) (c : CtxId)
  | parent (id : Nat) (ctch : Bool) (p : Prog) (root : CtxId)
  | restoreCtx (save : Option CtxId)
  | restoreLoader (c : CtxId) (l : List LoaderId)
  | catchK
  | endG
  | endRoot
  deriving Repr, DecidableEq, Inhabited

/-- one goroutine -/
structure GS where
  gid : Gid
  /-- a forked goroutine: the context `px.Fork` made for it -/
  ctx0 : CtxId
  started : Bool
  panicking : Bool := false
  k : List Frame
  deriving Repr, DecidableEq, Inhabited

structure Cfg where
  w : World
  gs : List GS

instance : Inhabited Cfg := ⟨⟨{}, []⟩⟩

/-- entry of `px.DoWithContext(cx, …)` up to the call of the actor: what the deferred function has to put back
    (`some save` / `none` = Cleanup), or `none` when `Set` panics -/
def dwcEnter (g : Gid) (cx : CtxId) (w : World) : Option (Option CtxId × World) :=
  match tlGet g ctxKey w with
  | some save =>
    match tlSet g ctxKey cx w with
    | none => none
    | some w1 => some (some save, note g cx w1)
  | none =>
    match tlSet g ctxKey cx (tlInit g w) with
    | none => none
    | some w1 => some (none, note g cx w1)

/-- the deferred function of `px.DoWithContext` -/
def dwcExit (g : Gid) (save : Option CtxId) (w : World) : Option World :=
  match save with
  | some s => tlSet g ctxKey s w
  | none => some (tlCleanup g w)

/-- result of one micro-step of a goroutine: itself, the world, a goroutine it started -/
structure StepR where
  g : GS
  w : World
  spawned : Option GS := none

def spawnS (g : GS) (k : List Frame) (c : CtxId) (p : Prog) (w : World) : StepR :=
  let fc := forkCtx c w
  { g := { g with k := k }
    w := { fc.2 with nextGid := fc.2.nextGid + 1 }
    spawned := some { gid := fc.2.nextGid, ctx0 := fc.1, started := false, k := [.run p fc.1, .endG] } }

def panicS (g : GS) (k : List Frame) (w : World) : StepR := { g := { g with k := k, panicking := true }, w := w }

/-- `pcore.Do` / `pcore.Try` up to the call of `DoWithParent`/`TryWithParent` -/
def doEnter (g : GS) (k : List Frame) (id : Nat) (ctch : Bool) (p : Prog) (w : World) : StepR :=
  let nc := newCtx { loader := [0] } w
  match dwcEnter g.gid nc.1 nc.2 with
  | none => panicS g k nc.2
  | some (save, w2) => { g := { g with k := .parent id ctch p nc.1 :: .restoreCtx save :: k }, w := w2 }

/-- one micro-step of goroutine `g` -/
def stepG (g : GS) (w : World) : StepR :=
  if !g.started then
    -- go func() { defer Cleanup(); Init(); Set(key, cf); doer(cf) }  — harness: the doer tags its context
    match tlSet g.gid ctxKey g.ctx0 (tlInit g.gid w) with
    | none => { g := g, w := w }
    | some w1 => { g := { g with started := true }, w := setTag g.ctx0 (1000 + g.gid) (note g.gid g.ctx0 w1) }
  else if g.panicking then
    match g.k with
    | [] => { g := { g with panicking := false }, w := w }
    | .run _ _ :: k => { g := { g with k := k }, w := w }
    | .parent _ _ _ _ :: k => { g := { g with k := k }, w := w }
    | .restoreCtx save :: k =>
      match dwcExit g.gid save w with
      | some w1 => { g := { g with k := k }, w := w1 }
      | none => { g := { g with k := k }, w := w }
    | .restoreLoader c l :: k => { g := { g with k := k }, w := ctxUpd c (fun y => { y with loader := l }) w }
    | .catchK :: k => { g := { g with k := k, panicking := false }, w := emit g.gid .recovered w }
    | .endG :: _ => { g := { g with k := [], panicking := false }, w := tlCleanup g.gid (emit g.gid (.done .panicked) w) }
    | .endRoot :: _ => { g := { g with k := [], panicking := false }, w := emit g.gid (.done .panicked) w }
  else
    match g.k with
    | [] => { g := g, w := w }
    | .run p c :: k =>
      match p with
      | .skip => { g := { g with k := k }, w := w }
      | .seq p q => { g := { g with k := .run p c :: .run q c :: k }, w := w }
      | .leaf l =>
        let r := leafStep g.gid c l w
        if r.1 = .panicked then panicS g k r.2 else { g := { g with k := k }, w := r.2 }
      | .recover p => { g := { g with k := .run p c :: .catchK :: k }, w := w }
      | .doctx id p =>
        let fc := forkCtx c w
        match dwcEnter g.gid fc.1 (setTag fc.1 id fc.2) with
        | none => panicS g k (setTag fc.1 id fc.2)
        | some (save, w2) => { g := { g with k := .run p fc.1 :: .restoreCtx save :: k }, w := w2 }
      | .dodo id p => doEnter g k id false p w
      | .dotry id p => doEnter g k id true p w
      | .doloader p =>
        let nl := newLoader w
        { g := { g with k := .run p c :: .restoreLoader c (w.ctxs c).loader :: k }
          w := ctxUpd c (fun y => { y with loader := nl.1 :: (w.ctxs c).loader }) nl.2 }
      | .fork p => spawnS g k c p w
      | .go p =>
        match tlGet g.gid ctxKey w with
        | none => panicS g k w
        | some cur => spawnS g k cur p w
    | .parent id ctch p root :: k =>
      let fc := forkCtx root w
      match dwcEnter g.gid fc.1 fc.2 with
      | none => panicS g k fc.2
      | some (save, w2) =>
        { g := { g with k := .run p fc.1 :: .restoreCtx save :: ((if ctch then [Frame.catchK] else []) ++ k) }
          w := setTag fc.1 id w2 }
    | .restoreCtx save :: k =>
      match dwcExit g.gid save w with
      | some w1 => { g := { g with k := k }, w := w1 }
      | none => panicS g k w
    | .restoreLoader c l :: k => { g := { g with k := k }, w := ctxUpd c (fun y => { y with loader := l }) w }
    | .catchK :: k => { g := { g with k := k }, w := w }
    | .endG :: _ => { g := { g with k := [] }, w := tlCleanup g.gid (emit g.gid (.done .normal) w) }
    | .endRoot :: _ => { g := { g with k := [] }, w := emit g.gid (.done .normal) w }

/-- goroutine number `i` takes one micro-step -/
def Cfg.step (i : Nat) (c : Cfg) : Cfg :=
  match c.gs[i]? with
  | none => c
  | some g =>
    let r := stepG g c.w
    { w := r.w, gs := c.gs.set i r.g ++ r.spawned.toList }

def GS.done (g : GS) : Bool := g.started && g.k.isEmpty

/-- the goroutine is parked before a leaf operation -/
def GS.atLeaf (g : GS) : Bool :=
  g.started && !g.panicking &&
    match g.k with
    | .run (.leaf _) _ :: _ => true
    | _ => false

/-- initial configuration: the fresh goroutine 0 is about to call `pcore.Do(p)` (tag 1000) -/
def Cfg.init (p : Prog) : Cfg :=
  { w := {}, gs := [{ gid := 0, ctx0 := 0, started := true, k := [.run (.dodo 1000 p) 0, .endRoot] }] }

/-- goroutine `i` runs until it is parked before its next leaf operation or has ended (first step unconditional) -/
def macroStep : Nat → Nat → Cfg → Cfg
  | 0, _, c => { c with w := { c.w with oof := true } }
  | f + 1, i, c =>
    let c1 := c.step i
    match c1.gs[i]? with
    | none => c1
    | some g => if g.done || g.atLeaf then c1 else macroStep f i c1

def runnable (c : Cfg) : List Nat :=
  (List.range c.gs.length).filter fun i => match c.gs[i]? with | some g => !g.done | none => false

/-- the controller: every decision consumes one choice (default 0 = the oldest runnable goroutine) -/
def sched : Nat → List Nat → Cfg → Cfg
  | 0, _, c => { c with w := { c.w with oof := c.w.oof || !(runnable c).isEmpty } }
  | f + 1, ch, c =>
    match runnable c with
    | [] => c
    | r :: rs =>
      let d := ch.headD 0
      let i := ((r :: rs)[d % (r :: rs).length]?).getD r
      sched f ch.tail (macroStep (f + 1) i c)

def fuelI (p : Prog) : Nat := 8 * p.size + 16

/-- one op of the harness under leaf-level interleaving -/
def runI (choices : List Nat) (p : Prog) : Cfg := sched (fuelI p) choices (Cfg.init p)

end Pcore.Tls
