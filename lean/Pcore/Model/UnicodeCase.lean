/-
  Go's simple case mapping — unicode/letter.go `to` over the table `unicode.CaseRanges`, as used by
  unicode.ToUpper / unicode.ToLower and therefore strings.ToUpper / strings.ToLower.  The table itself is regenerated
  from $GOROOT/src/unicode/tables.go into `Pcore/Generated/UnicodeCase.lean` (family unicodecase).
  Core-only file (linked into the driver).
-/
namespace Pcore.UnicodeCase

/-- one `CaseRange{Lo, Hi, d{upper, lower, title}}`; a delta of 1114112 is the constant `UpperLower` -/
structure CaseRange where
  lo : Nat
  hi : Nat
  up : Int
  low : Int
  title : Int
  unknown : String
  deriving Repr, DecidableEq

def upperLower : Int := 1114112

/-- `to(_case, r, caseRange)`: the ranges are sorted and disjoint, so the binary search finds the first (only) range
    that contains `r`.  `lower = false` is UpperCase (an even constant), `lower = true` LowerCase (odd). -/
def toCase (tbl : List CaseRange) (lower : Bool) (r : Nat) : Nat :=
  match tbl.find? (fun cr => cr.lo ≤ r && r ≤ cr.hi) with
  | none => r
  | some cr =>
    let delta := if lower then cr.low else cr.up
    if delta > 1114111 then
      -- "the characters at even offsets from the beginning of the sequence are upper case; the ones at odd offsets are
      --  lower … clearing or setting the low bit in the sequence offset"
      cr.lo + ((r - cr.lo) / 2 * 2 + (if lower then 1 else 0))
    else (Int.ofNat r + delta).toNat

/-- unicode.ToUpper -/
def toUpper (tbl : List CaseRange) (c : Char) : Char :=
  if c.toNat ≤ 127 then (if 'a'.toNat ≤ c.toNat ∧ c.toNat ≤ 'z'.toNat then Char.ofNat (c.toNat - 32) else c)
  else Char.ofNat (toCase tbl false c.toNat)

/-- unicode.ToLower -/
def toLower (tbl : List CaseRange) (c : Char) : Char :=
  if c.toNat ≤ 127 then (if 'A'.toNat ≤ c.toNat ∧ c.toNat ≤ 'Z'.toNat then Char.ofNat (c.toNat + 32) else c)
  else Char.ofNat (toCase tbl true c.toNat)

end Pcore.UnicodeCase
