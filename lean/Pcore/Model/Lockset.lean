/-!
# Lock-set discipline (second tie of C13)

`Access` is one row of the tables regenerated from loader/*.go (`locksets`) and internal/runtime.go (`rtLocksets`) by /verif/extract (family locksets): a read or write site of
a shared field with the mutexes syntactically held there.  Core Lean only; the table lives in `Generated/Locksets.lean`.
-/
namespace Pcore.Lockset

/-- how a mutex is held: `r` = RLock, `w` = Lock -/
inductive Mode where
  | r
  | w
  deriving DecidableEq, Repr

structure Access where
  fn : String
  field : String
  write : Bool
  held : List (String × Mode)
  init : Bool                       -- inside a package `init` function (runs before any goroutine exists)
  deriving DecidableEq, Repr

/-- the discipline of each shared field (hand-written; this is what the code is expected to follow) -/
inductive Discipline where
  | guardedBy (mutex : String)      -- every write under `mutex.Lock`, every read under `mutex.Lock` or `mutex.RLock`
  | immutable                       -- never written after construction
  deriving DecidableEq, Repr

def disciplineOf (field : String) : Option Discipline :=
  if field = "basicLoader.namedEntries" then some (.guardedBy "lock")
  else if field = "fileBasedLoader.locks" then some (.guardedBy "locksLock")
  else if field = "fileBasedLoader.index" then some (.guardedBy "lock")
  else if field = "loaderEntry.value" then some .immutable
  else if field = "dependencyLoader.index" then some .immutable
  else if field = "rt.systemLoader" then some (.guardedBy "lock")        -- internal/runtime.go: rt.lock
  else if field = "rt.environmentLoader" then some (.guardedBy "lock")
  else if field = "rt.settings" then some (.guardedBy "lock")
  else none                         -- in particular every `unknown: …` row

def holds (a : Access) (m : String) (md : Mode) : Bool := a.held.contains (m, md)

def accessOK (a : Access) : Bool :=
  a.init ||
  match disciplineOf a.field with
  | some (.guardedBy m) => if a.write then holds a m .w else (holds a m .w || holds a m .r)
  | some .immutable => !a.write
  | none => false

def locksetOK (tbl : List Access) : Bool := tbl.all accessOK

/-- the two accesses cannot overlap in time: both hold one mutex, at least one of them exclusively -/
def excl (a b : Access) : Bool :=
  a.held.any fun ha => b.held.any fun hb => ha.1 == hb.1 && (ha.2 == .w || hb.2 == .w)

/-- the executable converse: for a table that breaks the discipline, an offending access and — when there is one — a
    conflicting access of the same field that nothing keeps apart from it (the witness the check reports) -/
def raceWitness (tbl : List Access) : Option (Access × Option Access) :=
  match tbl.find? (fun a => !accessOK a) with
  | none => none
  | some a =>
    some (a, tbl.find? fun b => b.field == a.field && (a.write || b.write) && !b.init && !excl a b)

/-- READ sites recorded as being outside the lock (function, field) — none since fix 27da6a6 in /repo (`rt.SystemLoader`
    used to return `p.systemLoader` AFTER `p.lock.Unlock()`: a race with the write of `rt.Reset`, see
    `C13_rt_systemloader_read_raced_before_fix`).  The mechanism stays: a recorded site is exempted, every other site of
    the table must follow the discipline -/
def knownUnlockedReads : List (String × String) := []

def exempt (known : List (String × String)) (a : Access) : Bool := !a.write && known.contains (a.fn, a.field)

/-- the table without the recorded read sites -/
def withoutKnown (known : List (String × String)) (tbl : List Access) : List Access := tbl.filter fun a => !exempt known a

def locksetOKExcept (known : List (String × String)) (tbl : List Access) : Bool := locksetOK (withoutKnown known tbl)

end Pcore.Lockset
