import Pcore.Model.Files
/-!
# Fuel that provably suffices for the model of file-based loading (C15) — core Lean only

The 13 mutually recursive functions of `Pcore.Model.Files` take explicit fuel (recursion depth) and answer `Err.diverges`
when it runs out.  `Pcore/Proofs/FilesTermMain.lean` proves that `fuelBound` / `seqBound` below suffice for every tree,
module list, context loader, state and name (`C15_terminates`, `C15_terminates_seq`); the driver takes at least that much,
so the line it prints is never `diverges` for want of fuel.

Potential of a state: the number of *instantiable* pairs (loader, key) — a key with an origin in that loader's index, or
the loader's own module name (the `init_typeset` route) — the state holds nothing for.
-/
namespace Pcore.Files

def loaders (cfg : Cfg) : List Lid := .g :: cfg.via :: cfg.mods.map .m

/-- the pairs `instantiate` can ever proceed for -/
def instPairs (cfg : Cfg) : List (Lid × Key) :=
  (loaders cfg).flatMap fun l => ((idxKeys cfg l) ++ [[l.moduleName]]).map fun k => (l, k)

def pot (cfg : Cfg) (s : St) : Nat := (instPairs cfg).countP fun lk => (s.get lk.1 lk.2).isNone

/-- the largest number of members of a type-set body in the tree -/
def maxMembers : Tree → Nat
  | [] => 0
  | (_, .typ _ _ ts) :: r => max ts.length (maxMembers r)
  | _ :: r => maxMembers r

/-- fuel per instantiation level: routing (`|mods| + 7`), nested parent search (`3 * length`), member loop -/
def stepC (cfg : Cfg) (N : Nat) : Nat := cfg.mods.length + maxMembers cfg.tree + 3 * N + 14

/-- fuel `LoadEntry` needs at potential `W` when no name is longer than `N - W` -/
def LEn (cfg : Cfg) (N W : Nat) : Nat := (W + 1) * stepC cfg N

/-- the fuel that suffices for one lookup from state `s` -/
def fuelBound (cfg : Cfg) (s : St) (name : Name) : Nat :=
  LEn cfg (name.length + pot cfg s) (pot cfg s)

def maxLen : List Name → Nat
  | [] => 0
  | n :: ns => max n.length (maxLen ns)

/-- the fuel that suffices for a whole lookup sequence from state `s` -/
def seqBound (cfg : Cfg) (s : St) (names : List Name) : Nat :=
  LEn cfg (maxLen names + pot cfg s) (pot cfg s)

end Pcore.Files
