import Pcore.Model.Quote
/-!
# The parser of `types/parser.go`, as it is now (after the `fix:` commits)

Core Lean only.

Code ↔ model map
* `ParseFile` (incl. the `type X = …` / `type => …` prefix, `d.Value()`, `NamedType`)   → `parseFile`
* `parser.parse`                                 → `parseTop`
* `parser.element` + `parser.handleTypeArgs`     → `parseItem` (an *item* is an element followed by the `handleTypeArgs`
                                                    call that every caller makes right after it; the result carries the
                                                    look-ahead token that `handleTypeArgs` returns)
* `parser.array` / `parser.params`               → `arrayLoop` (parameter `close`), `convertHashEntries` → `cvt`
* `parser.hash`                                  → `hashLoop`
* `parser.nextToken` (sets `p.lt`)               → `readTok`;  `parser.location` → `PErr` + `locate`
* the deferred `recover` of `ParseFile`          → every `panic(error)` is `PR.err` (reported `PARSE_ERROR` with a location);
  a Go runtime fault would be `PR.fault` — the places where the Go code pops the collector or asserts `.(*Array)` are
  explicit (`FaultKind`), and `Props/C06.lean` proves them unreachable.

State.  The Go parser holds a reader (`p.sr`), the last token (`p.lt`) and a pending type name (`p.v`).  Here the reader is
the unconsumed input `rest` (+ the `bumped` flag), `p.lt` survives as the character count `lt` of the last token
(that is all `location` uses), and `p.v` never outlives `parseItem` (the Go code consumes it in the `handleTypeArgs`
call that immediately follows `element`).

Recursion.  `parseItem`, `arrayLoop` and `hashLoop` are mutually recursive exactly like `element/array/params/hash`.
They are defined by structural recursion on a fuel argument; `parseFile` supplies `2·|input| + 2`, and
`Props/C06.lean` (`C06_fuel_suffices`) proves that the `nofuel` result is unreachable — i.e. the recursive descent
terminates on every input because each recursive call is preceded by a token read that consumed at least one symbol.

Parameters (`Env`): `unicode.IsLetter`, `regexp.Compile` succeeds, `strconv.ParseFloat`, and — used by the type fragment
only (`Model/Types.lean`: the bounds of `Float[lo, hi]`) — the program-format text of a float (`floatGFormat`, i.e.
`fmt.Sprintf("%g")` post-processed), as a function of its IEEE-754 bits.
-/
namespace Pcore.Syntax

structure Env where
  isLetter : Char → Bool
  rxOK : Str → Bool
  pf : Str → Option Nat
  ff : Nat → Str := fun _ => []
  unknown : Str → Bool := fun _ => false    -- "this type name is not loadable in the context" (then it is a TypeReference)

inductive NKind where
  | alias | object | typeset
  deriving DecidableEq, Repr

/-- what `types.Parse` returns.  `call`: a `Deferred` value — `Foo(a, b)` is `call "new" ['Foo', a, b]`; the name of
    `Deferred(x, …)` is `x.String()`, modelled for the scalar kinds only (`none` otherwise, see `strOf`) -/
inductive Expr where
  | undef | dflt
  | bool (b : Bool)
  | int (i : Int)
  | float (bits : Nat)
  | str (s : Str)
  | regexp (s : Str)
  | arr (es : List Expr)
  | hash (es : List (Expr × Expr))
  | entry (k v : Expr)
  | dtype (name : Str) (params : Option (List Expr))
  | call (name : Option Str) (args : List Expr)
  | named (k : NKind) (name : Str)
  deriving Repr, Inhabited

/-- parser state right after a token has been read -/
structure PS where
  rest : List Sym
  bumped : Bool
  lt : Nat          -- utf8.RuneCountInString(p.lt.s)
  deriving Repr

/-- a reported parse error: where the reader stood, and how far `location` steps back (0 for a lexer error,
    which is raised while `p.lt` is nil) -/
structure PErr where
  rest : List Sym
  bumped : Bool
  sub : Nat
  deriving Repr, DecidableEq

inductive FaultKind where
  | notArray      -- `p.d.PopLast().(*Array)` on something that is not an Array
  | emptyParams   -- `ll.Slice(1, ll.Len())` on an empty list
  deriving Repr, DecidableEq

inductive PR (α : Type) where
  | ok (a : α)
  | err (e : PErr)
  | fault (k : FaultKind)
  | nofuel
  deriving Repr

def PR.bind {α β : Type} (x : PR α) (f : α → PR β) : PR β :=
  match x with
  | .ok a => f a
  | .err e => .err e
  | .fault k => .fault k
  | .nofuel => .nofuel

/-- `p.nextToken()` -/
def readTok (env : Env) (rest : List Sym) : PR (Tok × PS) :=
  match nextToken env.isLetter rest with
  | .err r b => .err ⟨r, b, 0⟩
  | .tok t r b => .ok (t, ⟨r, b, t.s.length⟩)

/-- a `panic(error)` raised by the parser proper: located at the last token read -/
def synErr (st : PS) : PErr := ⟨st.rest, st.bumped, st.lt⟩

/-- `handleTypeArgs()` when no type name is pending: read the look-ahead token -/
def after (env : Env) (v : Expr) (st : PS) : PR (Option (Expr × Tok × PS)) :=
  (readTok env st.rest).bind fun r => .ok (some (v, r.1, r.2))

/-- `convertHashEntries`: consecutive entries become one hash (`en` = pending entries, reversed) -/
def cvt : List Expr → List (Expr × Expr) → List Expr
  | [], [] => []
  | [], p :: en => [.hash (p :: en).reverse]
  | .entry k v :: es, en => cvt es ((k, v) :: en)
  | e :: es, [] => e :: cvt es []
  | e :: es, p :: en => .hash (p :: en).reverse :: e :: cvt es []

def keyword (s : Str) : Expr :=
  if s = "true".toList then .bool true
  else if s = "false".toList then .bool false
  else if s = "default".toList then .dflt
  else if s = "undef".toList then .undef
  else .str s

/-- `ll.At(0).String()` for the kinds whose default rendering is modelled -/
def strOf : Expr → Option Str
  | .str s => some s
  | .int i => some (intText i)
  | .bool b => some (if b then "true".toList else "false".toList)
  | .undef => some "undef".toList
  | .dflt => some "default".toList
  | _ => none

/-- `ll := p.d.PopLast().(*Array)` -/
def asArray : Expr → PR (List Expr)
  | .arr es => .ok es
  | _ => .fault .notArray

mutual
/-- `tk = p.element(t)` then (when `tk == nil`) `tk = p.handleTypeArgs()`.
    `none`: `t` does not start an element (Go: `element` returns `t`).
    `some (v, tk, st)`: the value added to the collector, the look-ahead token, the state after it. -/
def parseItem (env : Env) (fuel : Nat) (t : Tok) (st : PS) : PR (Option (Expr × Tok × PS)) :=
  match t.k with
  | .int =>
    match parseInt t.s with
    | none => .err (synErr st)
    | some i => after env (.int i) st
  | .float =>
    match env.pf t.s with
    | none => .err (synErr st)
    | some b => after env (.float b) st
  | .ident => after env (keyword t.s) st
  | .string => after env (.str t.s) st
  | .regexp => if env.rxOK t.s then after env (.regexp t.s) st else .err (synErr st)
  | .lbrack =>
    match fuel with
    | 0 => .nofuel
    | f + 1 => (arrayLoop env f .rbrack st [] none).bind fun r => after env r.1 r.2
  | .lparen =>
    match fuel with
    | 0 => .nofuel
    | f + 1 => (arrayLoop env f .rparen st [] none).bind fun r => after env r.1 r.2
  | .lcurly =>
    match fuel with
    | 0 => .nofuel
    | f + 1 => (hashLoop env f st []).bind fun r => after env (.hash r.1) r.2
  | .name =>
    -- p.v = &DeferredType{tn: t.s}; handleTypeArgs:
    (readTok env st.rest).bind fun r =>
      let tk := r.1
      let st1 := r.2
      match tk.k with
      | .lbrack =>
        match fuel with
        | 0 => .nofuel
        | f + 1 =>
          (arrayLoop env f .rbrack st1 [] none).bind fun r2 =>
            (asArray r2.1).bind fun es =>
              if es.isEmpty then .err (synErr r2.2)      -- "empty type parameter list"
              else after env (.dtype t.s (some es)) r2.2
      | .lcurly =>
        match fuel with
        | 0 => .nofuel
        | f + 1 => (hashLoop env f st1 []).bind fun r2 => after env (.dtype t.s (some [.hash r2.1])) r2.2
      | .lparen =>
        match fuel with
        | 0 => .nofuel
        | f + 1 =>
          (arrayLoop env f .rparen st1 [] none).bind fun r2 =>
            (asArray r2.1).bind fun es =>
              if t.s ≠ "Deferred".toList then after env (.call (some "new".toList) (.str t.s :: es)) r2.2
              else
                match es with
                | [] => .err (synErr r2.2)             -- `Deferred()` (the guard in front of `ll.Slice(1, …)`)
                | a :: as => after env (.call (strOf a) as) r2.2
      | _ => .ok (some (.dtype t.s none, tk, st1))
  | _ => .ok none

/-- `p.array()` (`close = rbrack`) / `p.params()` (`close = rparen`), entered after the opening token.
    `items`: elements so far, reversed; `rock`: `rockLhs`.  Returns the Array value and the state after `close`. -/
def arrayLoop (env : Env) (fuel : Nat) (close : TK) (st : PS) (items : List Expr) (rock : Option Expr) :
    PR (Expr × PS) :=
  match fuel with
  | 0 => .nofuel
  | f + 1 =>
    (readTok env st.rest).bind fun r =>
      let t := r.1
      let st1 := r.2
      (parseItem env f t st1).bind fun
        | none =>
          -- a closing token instead of an element: empty list or trailing comma (a dangling `x =>` is dropped)
          if t.k = close then .ok (.arr (cvt items.reverse []), st1) else .err (synErr st1)
        | some (v, tk, st2) =>
          let v' := match rock with
            | some l => Expr.entry l v
            | none => v
          if tk.k = close then .ok (.arr (cvt (v' :: items).reverse []), st2)
          else if tk.k = .comma then arrayLoop env f close st2 (v' :: items) none
          else if tk.k = .rocket then arrayLoop env f close st2 items (some v')
          else .err (synErr st2)

/-- `p.hash()`, entered after `{`; `items`: entries so far, reversed -/
def hashLoop (env : Env) (fuel : Nat) (st : PS) (items : List (Expr × Expr)) : PR (List (Expr × Expr) × PS) :=
  match fuel with
  | 0 => .nofuel
  | f + 1 =>
    (readTok env st.rest).bind fun r =>
      let t := r.1
      let st1 := r.2
      (parseItem env f t st1).bind fun
        | none => if t.k = .rcurly then .ok (items.reverse, st1) else .err (synErr st1)
        | some (k, tk, st2) =>
          if tk.k ≠ .rocket then .err (synErr st2)
          else
            (readTok env st2.rest).bind fun r2 =>
              (parseItem env f r2.1 r2.2).bind fun
                | none => .err (synErr r2.2)
                | some (v, tk2, st4) =>
                  if tk2.k = .rcurly then .ok (((k, v) :: items).reverse, st4)
                  else if tk2.k = .comma then hashLoop env f st4 ((k, v) :: items)
                  else .err (synErr st4)
end

/-- `p.parse(t)` followed by `d.Value()`; also returns the state after the final `end` token -/
def parseTop (env : Env) (fuel : Nat) (t : Tok) (st : PS) : PR (Expr × PS) :=
  (parseItem env fuel t st).bind fun
    | none => if t.k = .eoi then .ok (.undef, st) else .err (synErr st)
    | some (v, tk, st1) =>
      if tk.k = .rocket then
        -- a top level `x => y` is a singleton hash
        (readTok env st1.rest).bind fun r =>
          (parseItem env fuel r.1 r.2).bind fun
            | none => .err (synErr r.2)
            | some (v2, tk2, st3) => if tk2.k = .eoi then .ok (.hash [(v, v2)], st3) else .err (synErr st3)
      else if tk.k = .eoi then .ok (v, st1)
      else .err (synErr st1)

mutual
/-- can the value be (part of) a hash key?  `appendKey` raises INVALID_HASH_KEY for a DeferredType (a type name that is not
    yet resolved) and for a Deferred call, also inside arrays and hashes -/
def Expr.keyable : Expr → Bool
  | .dtype _ _ => false
  | .call _ _ => false
  | .named _ _ => false
  | .arr es => Expr.keyableL es
  | .hash es => Expr.keyableE es
  | .entry k v => Expr.keyable k && Expr.keyable v
  | _ => true
def Expr.keyableL : List Expr → Bool
  | [] => true
  | e :: es => Expr.keyable e && Expr.keyableL es
def Expr.keyableE : List (Expr × Expr) → Bool
  | [] => true
  | (k, v) :: es => Expr.keyable k && Expr.keyable v && Expr.keyableE es
end

/-- the keys of a hash literal are all usable as hash keys -/
def keysKeyable : List (Expr × Expr) → Bool
  | [] => true
  | (k, _) :: es => Expr.keyable k && keysKeyable es

/-- `NamedType(RuntimeNameAuthority, name, v)` as far as parsing observes it: which kind of type is created.
    `type X = Object[{…}]` looks the parent up in the init hash (`extractParentName2` → `Hash.Get4`), which computes the hash
    key of every KEY of the literal: a key that holds an unresolved type name or a call raises (INVALID_HASH_KEY, wrapped
    into a parse error by `ParseFile`'s recover).  The other forms (`TypeSet[{…}]`, `Parent{…}`, `{…}`) do not look
    anything up while parsing. -/
def namedType (name : Str) (v : Expr) (st : PS) : PR Expr :=
  match v with
  | .dtype n (some [.hash es]) =>
    if n = "Struct".toList then .ok (.named .alias name)
    else if n = "TypeSet".toList then .ok (.named .typeset name)
    else if n = "Object".toList ∧ keysKeyable es = false then .err (synErr st)
    else .ok (.named .object name)
  | .dtype _ _ => .ok (.named .alias name)
  | .hash _ => .ok (.named .object name)
  | _ => .err (synErr st)

def fuelFor (inp : List Sym) : Nat := 2 * inp.length + 2

/-- `ParseFile(_, content)` -/
def parseFile (env : Env) (inp : List Sym) : PR Expr :=
  let fuel := fuelFor inp
  (readTok env inp).bind fun r =>
    let t := r.1
    let st := r.2
    if t.k = .ident ∧ t.s = "type".toList then
      (readTok env st.rest).bind fun r2 =>
        match r2.1.k with
        | .name =>
          (readTok env r2.2.rest).bind fun r3 =>
            if r3.1.k ≠ .equal then .err (synErr r3.2)
            else
              (readTok env r3.2.rest).bind fun r4 =>
                (parseTop env fuel r4.1 r4.2).bind fun r5 => namedType r2.1.s r5.1 r5.2
        | .rocket =>
          (readTok env r2.2.rest).bind fun r3 =>
            (parseTop env fuel r3.1 r3.2).bind fun r5 => .ok (.hash [(.str "type".toList, r5.1)])
        | _ => .err (synErr r2.2)
    else (parseTop env fuel t st).bind fun r5 => .ok r5.1

/-! ### outcome as the harness observes it -/

inductive Outcome where
  | value (e : Expr)
  | parseError (line col : Nat)
  | fault
  | nofuel
  deriving Repr

/-- `parser.location`: the reader's line; its column minus the length of the last token, not below 0 -/
def locate (inp : List Sym) (e : PErr) : Nat × Nat :=
  let p := pos inp e.rest e.bumped
  (p.1, p.2 - e.sub)

def parse (env : Env) (inp : List Sym) : Outcome :=
  match parseFile env inp with
  | .ok e => .value e
  | .err e => let p := locate inp e; .parseError p.1 p.2
  | .fault _ => .fault
  | .nofuel => .nofuel

end Pcore.Syntax
