/-!
# Model of pcore's goroutine-local current context (property C14) — core Lean only

Mirrors the code of /repo **as it is now** (`Ver.now`, after `fix: Do/Try left the context set …`); `Ver.before`
is the original shape (tag `verif-base`) and is used only by the witness examples in `Props/C14.lean`.

| Go                                                                   | Lean                      |
|----------------------------------------------------------------------|---------------------------|
| `threadlocal/gid.go` `tls`, `Init`, `Cleanup`, `Get`, `Set`, `Delete`  | `World.tls`, `tlInit`, `tlCleanup`, `tlGet`, `tlSet`, `tlDelete` |
| `threadlocal/gid.go` `getg()` (goroutine id parsed from runtime.Stack) | the parameter `g : Gid`; a new goroutine gets the fresh id `World.nextGid` (DESIGN §5: trusted) |
| `threadlocal/verif_tls.go` `VerifLiveTables`                           | `live`                    |
| `px/context.go` `DoWithContext`                                        | `doWithContext`           |
| `px/context.go` `CurrentContext`                                       | `tlGet g ctxKey` (`Prog.obs`) |
| `px/context.go` `Fork`, `Go`                                           | `exec … (.fork p)`, `exec … (.go p)` + `runTask` (the goroutine body) |
| `internal/context.go` `pxContext.Fork` (+ `clone`)                     | `forkCtx`                 |
| `internal/context.go` `DoWithLoader`                                   | `exec … (.doloader p)`    |
| `internal/context.go` `Get`, `Set`, `StackPush`, `Stack`, `DefiningLoader` | `Prog.get/.set/.push/.obs`, head of `Ctx.loader` |
| `internal/runtime.go` `Do`, `Try`, `doWithRoot`, `DoWithParent`/`TryWithParent` (px.Context parent) | `doDo`, `doParent` |
| `internal/runtime.go` `RootContext` + original `Do`                    | `doDo .before`            |
| `loader/loader.go` `load`, `parentedLoader.LoadEntry`, `basicLoader.SetEntry` | `loadEntry`, `setEntry`, `Prog.load`, `Prog.deftype` |

Representation choices (all unobservable through the API used):
* a context is a heap object `World.ctxs : CtxId → Ctx`, mutated in place exactly where the Go code mutates through the pointer;
* a loader is the list of loader ids from itself up to its root (`parentedLoader.parent` is immutable), its entries live in
  `World.defs`; loader `0` is the shared environment loader, which no program writes to;
* `pxContext.vars == nil` and an empty map are identified (`Get` answers `(nil,false)` on both, `Fork` copies both to an
  equal value);
* implementation registry, logger and the embedded `context.Context` are not modelled; `ResolveResolvables` only moves
  Go `init()` registrations into the environment loader (no effect on user names).

Scheduling.  A goroutine started by `Fork`/`Go` is a `Task` in `World.pending`; it is run **to completion at any later
scheduling point** chosen by the oracle `World.sched` (one number is consumed before every leaf operation of whatever
goroutine is running: `0` = go on, `d+1` = run pending task number `d mod #pending` now), or after the root goroutine
has ended (`drain`).  The interleavings covered are therefore the nested ones (a goroutine is suspended at a leaf while
another one runs from start to end); the harness realises exactly these with gates.  Go's real scheduler and timing are
parameters (DESIGN §5).  Everything recurses on an explicit fuel (`Outcome.fuel` = not enough); `fuelFor` is enough.

The harness' own conventions are part of the model and marked `harness:` — the printable identity of a context
(`Ctx.tag`: the harness keeps a registry context object → number; it is NOT stored in the context, so that a context's
variable map goes through all of its states: never allocated, allocated with entries, allocated and emptied by `Delete`),
and the fresh parented loader handed to `DoWithLoader`.

nil vs empty map.  `pxContext.vars` is `nil` until the first `Set`; `Delete` never sets it back to `nil`.  The model does
not represent the difference between `nil` and an allocated empty map (`vars = []` stands for both).  This is sound for the
code as it is now because no modelled operation distinguishes them: `Get` answers `(nil,false)` on both, `Delete` is a
no-op on both, `Set` makes a one-entry map from both, and `Fork` gives the child `nil` for `nil` and a fresh empty map for
an empty map (`if c.vars != nil { copy }` after `*clone = *c`) — in either case a map the parent does not hold.  A change
that makes `Fork` treat the two differently (e.g. skipping the copy for an EMPTY map, which leaves the struct copy's alias
in place) is outside what the model can mirror; it is caught by the correspondence run (`(del k)` programs) and by the
regenerated fact `ctxFork … varsFreshCopyIfNonNil`.
-/
namespace Pcore.Tls

abbrev Gid := Nat
abbrev CtxId := Nat
abbrev LoaderId := Nat

/-- `px.PuppetContextKey` -/
def ctxKey : String := "puppet.context"

/-- leaf operations (each is preceded by a scheduling point) -/
inductive Leaf where
  | obs                               -- px.CurrentContext(): identity (tag), Stack()
  | set (k : String) (x : Nat)        -- c.Set(k, x)
  | get (k : String)                  -- c.Get(k)
  | del (k : String)                  -- c.Delete(k)
  | push (l : Nat)                    -- c.StackPush(loc l)
  | pop                               -- c.StackPop()   (on an empty stack: Go slices out of range = panic)
  | deftype (n : String)              -- c.DefiningLoader().SetEntry(type n, value)
  | load (n : String)                 -- px.Load(c, type n)
  | panic
  deriving Repr, DecidableEq, Inhabited

/-- programs (one goroutine's code) -/
inductive Prog where
  | skip
  | leaf (l : Leaf)
  | doctx (id : Nat) (p : Prog)       -- harness: x := c.Fork(); x.Set(tag,id);  px.DoWithContext(x, p)
  | dodo (id : Nat) (p : Prog)        -- pcore.Do(func(c){ harness: c.Set(tag,id); p })
  | dotry (id : Nat) (p : Prog)       -- pcore.Try(func(c) error { harness: c.Set(tag,id); p; return nil })
  | doloader (p : Prog)               -- harness: l := NewParentedLoader(c.Loader());  c.DoWithLoader(l, p)
  | fork (p : Prog)                   -- px.Fork(c, p)
  | go (p : Prog)                     -- px.Go(p)
  | seq (p q : Prog)
  | recover (p : Prog)                -- func(){ defer func(){ recover() }(); p }()
  deriving Repr, DecidableEq, Inhabited

@[match_pattern] abbrev Prog.obs : Prog := .leaf .obs
@[match_pattern] abbrev Prog.set (k : String) (x : Nat) : Prog := .leaf (.set k x)
@[match_pattern] abbrev Prog.get (k : String) : Prog := .leaf (.get k)
@[match_pattern] abbrev Prog.del (k : String) : Prog := .leaf (.del k)
@[match_pattern] abbrev Prog.push (l : Nat) : Prog := .leaf (.push l)
@[match_pattern] abbrev Prog.pop : Prog := .leaf .pop
@[match_pattern] abbrev Prog.deftype (n : String) : Prog := .leaf (.deftype n)
@[match_pattern] abbrev Prog.load (n : String) : Prog := .leaf (.load n)
@[match_pattern] abbrev Prog.panic : Prog := .leaf .panic

def Prog.size : Prog → Nat
  | .doctx _ p => p.size + 1 | .dodo _ p => p.size + 1 | .dotry _ p => p.size + 1 | .doloader p => p.size + 1
  | .fork p => p.size + 1 | .go p => p.size + 1 | .recover p => p.size + 1
  | .seq p q => p.size + q.size + 1
  | _ => 1

/-- `pxContext` (the modelled fields) -/
structure Ctx where
  loader : List LoaderId := []
  stack : List Nat := []
  vars : List (String × Nat) := []
  /-- harness: the number under which the harness' registry knows this context object (not a pcore field) -/
  tag : Option Nat := none
  deriving Repr, DecidableEq, Inhabited

/-- association lists: Go maps with string keys -/
def aget {α : Type} (k : String) : List (String × α) → Option α
  | [] => none
  | (k', v) :: r => if k' = k then some v else aget k r

def aset {α : Type} (k : String) (v : α) : List (String × α) → List (String × α)
  | [] => [(k, v)]
  | (k', v') :: r => if k' = k then (k, v) :: r else (k', v') :: aset k v r

def adel {α : Type} (k : String) : List (String × α) → List (String × α)
  | [] => []
  | (k', v') :: r => if k' = k then adel k r else (k', v') :: adel k r

inductive Outcome where
  | normal | panicked | fuel
  deriving Repr, DecidableEq, Inhabited

/-- observations -/
inductive Ev where
  /-- `px.CurrentContext()` (none = it panics with NoCurrentContext), the context handed to the running body,
      the current context's tag and stack -/
  | obs (cur : Option CtxId) (lex : CtxId) (tag : Option Nat) (stack : List Nat)
  | get (k : String) (v : Option Nat)
  | load (n : String) (found : Bool)
  | recovered
  | done (o : Outcome)
  deriving Repr, DecidableEq, Inhabited

/-- a goroutine created by `px.Fork` that has not run yet.  `Ver.now`: `ctx` is the already forked context;
    `Ver.before`: `ctx` is the parent's context, forked when the goroutine starts. -/
structure Task where
  gid : Gid
  ctx : CtxId
  prog : Prog
  deriving Repr, DecidableEq, Inhabited

structure World where
  tls : Gid → Option (List (String × CtxId)) := fun _ => none
  ctxs : CtxId → Ctx := fun _ => {}
  nextCtx : Nat := 0
  defs : LoaderId → List (String × Bool) := fun _ => []
  nextLoader : Nat := 1
  nextGid : Nat := 1
  pending : List Task := []
  sched : List Nat := []
  log : List (Gid × Ev) := []
  oof : Bool := false
  /-- ghost (never printed, never read by the semantics): which context was made current for which goroutine -/
  estab : List (Gid × CtxId) := []

instance : Inhabited World := ⟨{}⟩

inductive Ver where
  | now | before
  deriving Repr, DecidableEq

/-! ## threadlocal -/

def tlInit (g : Gid) (w : World) : World :=
  { w with tls := fun g' => if g' = g then some [] else w.tls g' }

def tlCleanup (g : Gid) (w : World) : World :=
  { w with tls := fun g' => if g' = g then none else w.tls g' }

def tlGet (g : Gid) (k : String) (w : World) : Option CtxId :=
  (w.tls g).bind (aget k)

/-- `none` = the Go code panics (`thread local not initialized for current go routine`) -/
def tlSet (g : Gid) (k : String) (v : CtxId) (w : World) : Option World :=
  match w.tls g with
  | none => none
  | some t => some { w with tls := fun g' => if g' = g then some (aset k v t) else w.tls g' }

def tlDelete (g : Gid) (k : String) (w : World) : World :=
  match w.tls g with
  | none => w
  | some t => { w with tls := fun g' => if g' = g then some (adel k t) else w.tls g' }

/-- `VerifLiveTables()`: goroutine ids are handed out below `nextGid` -/
def live (w : World) : Nat :=
  ((List.range w.nextGid).filter fun g => (w.tls g).isSome).length

/-! ## contexts and loaders -/

def ctxUpd (c : CtxId) (f : Ctx → Ctx) (w : World) : World :=
  { w with ctxs := fun i => if i = c then f (w.ctxs c) else w.ctxs i }

def newCtx (x : Ctx) (w : World) : CtxId × World :=
  (w.nextCtx, { w with ctxs := (fun i => if i = w.nextCtx then x else w.ctxs i), nextCtx := w.nextCtx + 1 })

/-- `px.NewParentedLoader`: a fresh, empty entry table -/
def newLoader (w : World) : LoaderId × World :=
  (w.nextLoader, { w with defs := (fun i => if i = w.nextLoader then [] else w.defs i), nextLoader := w.nextLoader + 1 })

/-- `pxContext.Fork`: stack copied, vars copied, loader wrapped in a new parented loader -/
def forkCtx (c : CtxId) (w : World) : CtxId × World :=
  newCtx { loader := (newLoader w).1 :: (w.ctxs c).loader, stack := (w.ctxs c).stack, vars := (w.ctxs c).vars,
           tag := none } (newLoader w).2

def setVar (c : CtxId) (k : String) (x : Nat) (w : World) : World :=
  ctxUpd c (fun y => { y with vars := aset k x y.vars }) w

/-- harness: the context object gets its number in the harness' registry -/
def setTag (c : CtxId) (id : Nat) (w : World) : World :=
  ctxUpd c (fun y => { y with tag := some id }) w

/-- `parentedLoader.LoadEntry` along the chain (parent first; a parent's placeholder or miss falls back to the own table);
    the last loader of the chain is a `basicLoader` -/
def loadEntry (defs : LoaderId → List (String × Bool)) : List LoaderId → String → Option Bool
  | [], _ => none
  | l :: rest, n =>
    match loadEntry defs rest n with
    | some true => some true
    | _ => aget n (defs l)

/-- `basicLoader.SetEntry` (`b = false`: the placeholder `&loaderEntry{nil,nil}`).  An existing value wins (same value:
    `ov == nv`; placeholder: `nv == nil`); a *different* value would panic — the harness never offers one. -/
def setEntry (l : LoaderId) (n : String) (b : Bool) (w : World) : World :=
  match aget n (w.defs l) with
  | some true => w
  | _ => { w with defs := fun i => if i = l then aset n b (w.defs l) else w.defs i }

def emit (g : Gid) (e : Ev) (w : World) : World := { w with log := w.log ++ [(g, e)] }

/-- ghost: `c` has just been made the current context of goroutine `g` by DoWithContext / Fork -/
def note (g : Gid) (c : CtxId) (w : World) : World := { w with estab := w.estab ++ [(g, c)] }

/-! ## px.DoWithContext -/

/-- ```go
    if saveCtx, ok := threadlocal.Get(PuppetContextKey); ok { defer func() { threadlocal.Set(PuppetContextKey, saveCtx) }() }
    else { threadlocal.Init(); defer threadlocal.Cleanup() }            // `before`: no deferred Cleanup
    threadlocal.Set(PuppetContextKey, ctx); actor(ctx)
    ``` -/
def doWithContext (v : Ver) (g : Gid) (cx : CtxId) (body : World → Outcome × World) (w : World) : Outcome × World :=
  match tlGet g ctxKey w with
  | some save =>
    match tlSet g ctxKey cx w with
    | none => (.panicked, w)
    | some w1 =>
      let r := body (note g cx w1)
      match tlSet g ctxKey save r.2 with
      | some w3 => (r.1, w3)
      | none => (if r.1 = .fuel then .fuel else .panicked, r.2)
  | none =>
    let w1 := tlInit g w
    match tlSet g ctxKey cx w1 with
    | none => (.panicked, w1)
    | some w2 =>
      let r := body (note g cx w2)
      (r.1, if v = .now then tlCleanup g r.2 else r.2)

/-- `DoWithParent(root, actor)` with a `px.Context` parent = `DoWithContext(root.Fork(), actor)`; with `ctch` it is
    `TryWithParent(root, actor)`: a deferred `recover()` around it turns a panic (error or string) into the returned
    error (harness: logged as a recovered panic) -/
def doParent (v : Ver) (g : Gid) (id : Nat) (ctch : Bool) (body : CtxId → World → Outcome × World) (root : CtxId)
    (w : World) : Outcome × World :=
  let r := doWithContext v g (forkCtx root w).1
    (fun w4 => body (forkCtx root w).1 (setTag (forkCtx root w).1 id w4)) (forkCtx root w).2
  if ctch = true ∧ r.1 = .panicked then (.normal, emit g .recovered r.2) else r

/-- `pcore.Do` (`ctch = false`) / `pcore.Try` (`ctch = true`) on goroutine `g`.
    now:    `doWithRoot(func(root){ DoWithParent(root, actor) })`, `doWithRoot` = `DoWithContext(new root, …)`
    before: `DoWithParent(RootContext(), actor)` where `RootContext` does `Init(); Set(key, root)` on the caller -/
def doDo (v : Ver) (g : Gid) (id : Nat) (ctch : Bool) (body : CtxId → World → Outcome × World) (w : World) : Outcome × World :=
  let root := (newCtx { loader := [0] } w).1
  let w1 := (newCtx { loader := [0] } w).2
  match v with
  | .now => doWithContext v g root (doParent v g id ctch body root) w1
  | .before =>
    let w2 := tlInit g w1
    match tlSet g ctxKey root w2 with
    | none => (.panicked, w2)
    | some w3 => doParent v g id ctch body root (note g root w3)

/-! ## goroutines -/

/-- the goroutine of `px.Fork`: `defer Cleanup(); Init(); [before: cf := c.Fork()]; Set(key, cf); doer(cf)`;
    harness: the doer first tags its context with `1000 + gid`, recovers a panic of the body and records the outcome -/
def runTask (v : Ver) (ex : Prog → Gid → CtxId → World → Outcome × World) (t : Task) (w : World) : World :=
  let w1 := tlInit t.gid w
  let fc := if v = .before then forkCtx t.ctx w1 else (t.ctx, w1)
  match tlSet t.gid ctxKey fc.1 fc.2 with
  | none => fc.2
  | some w3 =>
    let r := ex t.prog t.gid fc.1 (setTag fc.1 (1000 + t.gid) (note t.gid fc.1 w3))
    let w5 := emit t.gid (.done r.1) r.2
    tlCleanup t.gid { w5 with oof := w5.oof || r.1 = .fuel }

/-- a scheduling point: consume one oracle number, possibly run one pending goroutine to completion -/
def yield (v : Ver) (ex : Prog → Gid → CtxId → World → Outcome × World) (w : World) : World :=
  match w.sched with
  | [] => w
  | d :: s =>
    let w1 := { w with sched := s }
    if d = 0 then w1
    else
      match w1.pending[(d - 1) % w1.pending.length]? with
      | none => w1
      | some t => runTask v ex t { w1 with pending := w1.pending.eraseIdx ((d - 1) % w1.pending.length) }

/-- `px.Fork(c, doer)`; now: `cf := c.Fork()` happens here, in the caller -/
def spawn (v : Ver) (c : CtxId) (p : Prog) (w : World) : World :=
  let fc := if v = .now then forkCtx c w else (c, w)
  { fc.2 with nextGid := fc.2.nextGid + 1, pending := fc.2.pending ++ [{ gid := fc.2.nextGid, ctx := fc.1, prog := p }] }

/-- one leaf operation of goroutine `g` on the context `c` its body was handed -/
def leafStep (g : Gid) (c : CtxId) (l : Leaf) (w : World) : Outcome × World :=
  match l with
  | .obs =>
    match tlGet g ctxKey w with
    | none => (.normal, emit g (.obs none c none []) w)
    | some cur => (.normal, emit g (.obs (some cur) c (w.ctxs cur).tag (w.ctxs cur).stack) w)
  | .set k x => (.normal, setVar c k x w)
  | .get k => (.normal, emit g (.get k (aget k (w.ctxs c).vars)) w)
  | .del k => (.normal, ctxUpd c (fun y => { y with vars := adel k y.vars }) w)
  | .push l => (.normal, ctxUpd c (fun y => { y with stack := y.stack ++ [l] }) w)
  | .pop =>
    match (w.ctxs c).stack with
    | [] => (.panicked, w)                       -- `c.stack[:len(c.stack)-1]` with len 0: slice bounds out of range
    | _ :: _ => (.normal, ctxUpd c (fun y => { y with stack := y.stack.dropLast }) w)
  | .deftype n =>
    match (w.ctxs c).loader with
    | [] => (.panicked, w)                       -- `No defining loader found in context`
    | l :: _ => (.normal, setEntry l n true w)
  | .load n =>
    match loadEntry w.defs (w.ctxs c).loader n with
    | none =>
      match (w.ctxs c).loader with
      | [] => (.normal, emit g (.load n false) w)
      | l :: _ => (.normal, emit g (.load n false) (setEntry l n false w))
    | some b => (.normal, emit g (.load n b) w)
  | .panic => (.panicked, w)

/-- big-step execution of `p` by goroutine `g` whose body was handed context `c` -/
def exec (v : Ver) : Nat → Prog → Gid → CtxId → World → Outcome × World
  | 0, _, _, _, w => (.fuel, w)
  | f + 1, p, g, c, w =>
    match p with
    | .skip => (.normal, w)
    | .seq p q =>
      let r := exec v f p g c w
      match r.1 with
      | .normal => exec v f q g c r.2
      | o => (o, r.2)
    | .leaf l => leafStep g c l (yield v (exec v f) w)
    | .recover p =>
      let r := exec v f p g c w
      match r.1 with
      | .panicked => (.normal, emit g .recovered r.2)
      | o => (o, r.2)
    | .doctx id p =>
      let fc := forkCtx c w
      doWithContext v g fc.1 (fun w2 => exec v f p g fc.1 w2) (setTag fc.1 id fc.2)
    | .dodo id p =>
      doDo v g id false (fun cx w1 => exec v f p g cx w1) w
    | .dotry id p =>
      doDo v g id true (fun cx w1 => exec v f p g cx w1) w
    | .doloader p =>
      let save := (w.ctxs c).loader
      let nl := newLoader w
      let r := exec v f p g c (ctxUpd c (fun y => { y with loader := nl.1 :: save }) nl.2)
      (r.1, ctxUpd c (fun y => { y with loader := save }) r.2)
    | .fork p => (.normal, spawn v c p w)
    | .go p =>
      match tlGet g ctxKey w with
      | none => (.panicked, w)                     -- CurrentContext() panics
      | some cur => (.normal, spawn v cur p w)

/-- after the root goroutine has ended: the remaining goroutines run one after the other, oldest first -/
def drain (v : Ver) (fuel : Nat) : Nat → World → World
  | 0, w => { w with oof := w.oof || !w.pending.isEmpty }
  | n + 1, w =>
    match w.pending with
    | [] => w
    | t :: r => drain v fuel n (runTask v (exec v fuel) t { w with pending := r })

def fuelFor (p : Prog) : Nat := 2 * p.size + 8

/-- one op of the harness: a fresh goroutine `0` runs `pcore.Do(p)` (its context is tagged 1000), every goroutine it
    created is joined, then the goroutine-local tables are inspected -/
def run (v : Ver) (sched : List Nat) (p : Prog) : World :=
  let fuel := fuelFor p
  let r := exec v fuel (.dodo 1000 p) 0 0 { sched := sched }
  let w := emit 0 (.done r.1) r.2
  drain v fuel fuel { w with oof := w.oof || r.1 = .fuel }

end Pcore.Tls
