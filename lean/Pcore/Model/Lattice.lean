/-!
  Shared formal model of pcore's type lattice (properties C01 C02 C03 C04 C19): type terms `Ty`, values `Val`,
  ranges, the termination weights.  Core Lean only (linked into the compiled driver).

  The model mirrors the Go code AS IT IS at /repo HEAD (after the `fix:` commits), not the Puppet specification.
  File map (Go → Lean) is in the header of each `Lattice*.lean` file; this file holds the data types:

    types/*type.go  (one Go struct per type)            → `Ty`  (one constructor per Go type / per shared default)
    values (integerValue, stringValue, *Array, *Hash …) → `Val`
    *IntegerType used as a size / numeric range          → `Rng` (closed, Int64 bounds; `I64.max` plays "unbounded")

  Timestamp[min,max] (timestamptype.go) is inside the model since the extension round: `Ty.tstamp r` / `Val.tstamp n`, instants counted in
  nanoseconds since 0001-01-01T00:00:00Z (time.Time's own epoch; `tstampAll` = [MinTime, MaxTime] is the default type, which — like the code —
  does NOT reach instants before year 1).
  Iterator[T] (iteratortype.go) is inside the model too: `Ty.iterator t`, a covariant wrapper on the type level (assignability, Equals,
  Generic, the `commonType` arm); its values (px.IteratorValue) are not part of the value language, so `inst (.iterator _) v = false`.
  Runtime[runtime, name, pattern] (runtimetype.go, types WITHOUT a Go type) likewise: `Ty.runtime rt nm pat`, a leaf; its values
  (*RuntimeValue) are outside the value language.
  Callable[params, return, block] (callabletype.go) likewise: `Ty.callable ps rt bl`, each part an `Option Ty` (absent parts matter to the
  rule); lambdas are outside the value language.  Its rule is NOT transitive through the default Callable (known finding
  C03-trans-callable-top), so the proofs keep Callable outside the fragments of transitivity.
  Not modelled (second tier; harness-side predicates only, labelled as tests): Like, Init, Runtime types that carry a Go type,
  TypeReference, SemVer, SemVerRange, URI, TypeSet, the Pcore::* meta types as type terms, user-defined
  recursive aliases.  Non-recursive user aliases are expanded by the harness encoder.  The two built-in recursive aliases
  `Data` and `RichData` are constructors with direct recursive definitions.
-/
namespace Pcore.Lat

/-- closed integer range (an `*IntegerType` used as numeric range or as size constraint) -/
structure Rng where
  lo : Int
  hi : Int
  deriving DecidableEq, Repr, Inhabited

def I64.min : Int := -9223372036854775808
def I64.max : Int := 9223372036854775807

/-- `IntegerType.IsInstance2` -/
def Rng.contains (r : Rng) (i : Int) : Bool := decide (r.lo ≤ i) && decide (i ≤ r.hi)
/-- `IntegerType.IsAssignable`: `outer` accepts `inner` -/
def Rng.sub (outer inner : Rng) : Bool := decide (outer.lo ≤ inner.lo) && decide (inner.hi ≤ outer.hi)
/-- `IntegerTypePositive` -/
def Rng.pos : Rng := ⟨0, I64.max⟩
def Rng.all : Rng := ⟨I64.min, I64.max⟩
def Rng.exact (n : Int) : Rng := ⟨n, n⟩
/-- commonType on two Integer types -/
def Rng.hull (a b : Rng) : Rng := ⟨min a.lo b.lo, max a.hi b.hi⟩

/-- Floats are exact: a finite IEEE double is an integer multiple of 2^-1074, so it is represented by that
    integer; ±Inf are the two sentinels `±Fl.inf` beyond every finite double; NaN is outside the model
    (stated assumption).  Only the order is ever used. -/
abbrev Fl := Int
def Fl.inf : Int := 2 ^ 2200
/-- `math.MaxFloat64` = (2^53 - 1)·2^971, scaled by 2^1074 -/
def Fl.maxFinite : Int := (2 ^ 53 - 1) * 2 ^ 2045
/-- `FloatType.bounds`: a bound left at its default (±MaxFloat64) is no bound at all, the type includes the infinity beyond it.
    (On doubles `x ≤ -MaxFloat64` means `x` is `-MaxFloat64` or `-Inf` and the answer is `-Inf`; the `min` keeps the function
    below the identity on the integers beyond ±Fl.inf, which denote no double.) -/
def Fl.effLo (x : Int) : Int := if x ≤ -Fl.maxFinite then min x (-Fl.inf) else x
def Fl.effHi (x : Int) : Int := if Fl.maxFinite ≤ x then max x Fl.inf else x

theorem Fl.maxFinite_le_inf : Fl.maxFinite ≤ Fl.inf := by decide +kernel
theorem Fl.effLo_mono {a b : Int} (h : a ≤ b) : Fl.effLo a ≤ Fl.effLo b := by
  have := Fl.maxFinite_le_inf
  unfold Fl.effLo
  by_cases h1 : a ≤ -Fl.maxFinite <;> by_cases h2 : b ≤ -Fl.maxFinite <;> simp only [h1, h2, if_true, if_false] <;> omega
theorem Fl.effHi_mono {a b : Int} (h : a ≤ b) : Fl.effHi a ≤ Fl.effHi b := by
  have := Fl.maxFinite_le_inf
  unfold Fl.effHi
  by_cases h1 : Fl.maxFinite ≤ a <;> by_cases h2 : Fl.maxFinite ≤ b <;> simp only [h1, h2, if_true, if_false] <;> omega
theorem Fl.effLo_le (a : Int) : Fl.effLo a ≤ a := by
  unfold Fl.effLo
  by_cases h1 : a ≤ -Fl.maxFinite <;> simp only [h1, if_true, if_false] <;> omega
theorem Fl.le_effHi (a : Int) : a ≤ Fl.effHi a := by
  unfold Fl.effHi
  by_cases h1 : Fl.maxFinite ≤ a <;> simp only [h1, if_true, if_false] <;> omega
/-- the default bounds reach every double -/
theorem Fl.effLo_default_le {a : Int} (h : -Fl.inf ≤ a) : Fl.effLo (-Fl.maxFinite) ≤ Fl.effLo a := by
  have := Fl.maxFinite_le_inf
  unfold Fl.effLo
  by_cases h1 : a ≤ -Fl.maxFinite <;> simp only [h1, if_true, if_false, Int.le_refl] <;> omega
theorem Fl.effHi_le_default {a : Int} (h : a ≤ Fl.inf) : Fl.effHi a ≤ Fl.effHi Fl.maxFinite := by
  have := Fl.maxFinite_le_inf
  unfold Fl.effHi
  by_cases h1 : Fl.maxFinite ≤ a <;> simp only [h1, if_true, if_false, Int.le_refl] <;> omega
theorem Fl.effLo_default : Fl.effLo (-Fl.maxFinite) = -Fl.inf := by
  have := Fl.maxFinite_le_inf
  unfold Fl.effLo; simp only [Int.le_refl, if_true]; omega
theorem Fl.effHi_default : Fl.effHi Fl.maxFinite = Fl.inf := by
  have := Fl.maxFinite_le_inf
  unfold Fl.effHi; simp only [Int.le_refl, if_true]; omega
-- the elaborator must not evaluate the bounds when it builds equation lemmas for `asgRecv` / `inst` (2^2045)
attribute [irreducible] Fl.effLo Fl.effHi

inductive Ty where
  | any | unit | undef | dflt | scalar | scalarData | numeric | data | richData | str | bin
  | int (r : Rng)
  | float (lo hi : Fl)
  | bool (v : Option Bool)
  | tspan (r : Rng)
  | tstamp (r : Rng)                      -- Timestamp[min,max]; instants as nanoseconds since 0001-01-01T00:00:00Z (time.Time's own epoch)
  | strSz (r : Rng)                       -- scStringType
  | strVal (s : String)                   -- vcStringType
  | enum (vs : List String) (ci : Bool)
  | pattern (rs : List String)            -- regexp sources
  | regexp (src : String)                 -- "" = the default Regexp type
  | coll (r : Rng)
  | array (e : Ty) (r : Rng)
  | hash (k v : Ty) (r : Rng)
  | tuple (ts : List Ty) (given : Option Rng)     -- `size` (may be nil); givenOrActualSize is derived
  | struct (ms : List (String × Bool × Ty))       -- name, key is Optional[..], value type
  | variant (ts : List Ty)
  | optional (t : Ty) | notUndef (t : Ty) | typ (t : Ty) | sensitive (t : Ty) | iterable (t : Ty)
  | runtime (rt nm : String) (pat : Option String)   -- Runtime[runtime, name, pattern] (runtimetype.go) without a Go type; values outside the value language
  | callable (ps rt bl : Option Ty)        -- Callable[params, return, block] (callabletype.go): each part may be absent; no value of the value language is a lambda
  | iterator (t : Ty)                     -- Iterator[T] (iteratortype.go); its values (px.IteratorValue) are outside the value language
  | object (p : Option (List Nat))        -- none = default Object; some path = user object type by ancestor path
  deriving Repr, Inhabited

inductive Val where
  | undef | dflt
  | bool (b : Bool) | int (i : Int) | float (f : Fl) | str (s : String)
  | regexp (src : String) | binary (bs : List UInt8) | tspan (n : Int) | tstamp (n : Int)
  | array (vs : List Val)
  | hash (es : List (Val × Val))
  | sensitive (v : Val)
  | typ (t : Ty)
  | obj (p : List Nat)
  deriving Repr, Inhabited

abbrev Member := String × Bool × Ty

/-- is the Unit type -/
def Ty.isUnit : Ty → Bool
  | .unit => true
  | _ => false

/-- `t == anyTypeDefault` -/
def Ty.isAny : Ty → Bool
  | .any => true
  | _ => false

/-! ### termination weights (DESIGN Appendix B): every constructor / cons contributes ≥ 2 -/
mutual
def Ty.w : Ty → Nat
  | .scalar => 3 | .scalarData => 3 | .data => 5 | .richData => 12
  | .array e _ => 2 + e.w
  | .hash k v _ => 8 + k.w + v.w
  | .tuple ts _ => 2 + Ty.wl ts
  | .struct ms => 2 + Ty.wm ms
  | .variant ts => 2 + Ty.wl ts
  | .optional t => 2 + t.w | .notUndef t => 2 + t.w
  | .typ t => 2 + t.w | .sensitive t => 2 + t.w | .iterable t => 2 + t.w | .iterator t => 2 + t.w
  | .callable ps rt bl => 4 + Ty.wo ps + Ty.wo rt + Ty.wo bl
  | _ => 1
def Ty.wo : Option Ty → Nat
  | none => 0
  | some t => 2 + t.w
def Ty.wl : List Ty → Nat
  | [] => 0
  | t :: ts => 2 + t.w + Ty.wl ts
def Ty.wm : List Member → Nat
  | [] => 0
  | (_, _, t) :: ms => 8 + t.w + Ty.wm ms      -- 8: room for the entry type `Tuple[String[name], t]` (Iterable accepts Struct)
end

theorem Ty.w_pos (t : Ty) : 0 < t.w := by cases t <;> simp [Ty.w] <;> omega

mutual
def Val.w : Val → Nat
  | .array vs => 2 + Val.wl vs
  | .hash es => 2 + Val.we es
  | .sensitive v => 2 + v.w
  | _ => 1
def Val.wl : List Val → Nat
  | [] => 0
  | v :: vs => 2 + v.w + Val.wl vs
def Val.we : List (Val × Val) → Nat
  | [] => 0
  | (a, b) :: es => 2 + a.w + b.w + Val.we es
end

/-! ### structural equality on type terms (`deriving DecidableEq` does not work on nested inductives) -/
def optRngBeq : Option Rng → Option Rng → Bool
  | none, none => true
  | some a, some b => a == b
  | _, _ => false

mutual
def Ty.beq : Ty → Ty → Bool
  | .any, .any | .unit, .unit | .undef, .undef | .dflt, .dflt | .scalar, .scalar | .scalarData, .scalarData
  | .numeric, .numeric | .data, .data | .richData, .richData | .str, .str | .bin, .bin => true
  | .int r, .int r' => r == r'
  | .float l h, .float l' h' => l == l' && h == h'
  | .bool v, .bool v' => v == v'
  | .tspan r, .tspan r' => r == r'
  | .tstamp r, .tstamp r' => r == r'
  | .strSz r, .strSz r' => r == r'
  | .strVal s, .strVal s' => s == s'
  | .enum vs ci, .enum vs' ci' => vs == vs' && ci == ci'
  | .pattern rs, .pattern rs' => rs == rs'
  | .regexp s, .regexp s' => s == s'
  | .runtime r n p, .runtime r' n' p' => r == r' && n == n' && p == p'
  | .coll r, .coll r' => r == r'
  | .array e r, .array e' r' => Ty.beq e e' && r == r'
  | .hash k v r, .hash k' v' r' => Ty.beq k k' && Ty.beq v v' && r == r'
  | .tuple ts g, .tuple ts' g' => Ty.beqL ts ts' && optRngBeq g g'
  | .struct ms, .struct ms' => Ty.beqM ms ms'
  | .variant ts, .variant ts' => Ty.beqL ts ts'
  | .optional t, .optional t' => Ty.beq t t'
  | .notUndef t, .notUndef t' => Ty.beq t t'
  | .typ t, .typ t' => Ty.beq t t'
  | .sensitive t, .sensitive t' => Ty.beq t t'
  | .iterator t, .iterator t' => Ty.beq t t'
  | .callable p r b, .callable p' r' b' => Ty.beqO p p' && Ty.beqO r r' && Ty.beqO b b'
  | .iterable t, .iterable t' => Ty.beq t t'
  | .object p, .object p' => p == p'
  | _, _ => false
def Ty.beqO : Option Ty → Option Ty → Bool
  | none, none => true
  | some a, some b => Ty.beq a b
  | _, _ => false
def Ty.beqL : List Ty → List Ty → Bool
  | [], [] => true
  | a :: as, b :: bs => Ty.beq a b && Ty.beqL as bs
  | _, _ => false
def Ty.beqM : List Member → List Member → Bool
  | [], [] => true
  | (n, o, t) :: as, (n', o', t') :: bs => n == n' && o == o' && Ty.beq t t' && Ty.beqM as bs
  | _, _ => false
end

/-! ### derived sizes -/
/-- `TupleType.givenOrActualSize` -/
def tupleSize (ts : List Ty) : Option Rng → Rng
  | none => Rng.exact ts.length
  | some r => r

/-- `StructType.Size()`: [#members whose key is not Optional, #members] -/
def structSize (ms : List Member) : Rng :=
  ⟨((ms.filter (fun m => !m.2.1)).length : Nat), (ms.length : Nat)⟩

/-- prefix test on ancestor paths: the type with path `p` is `q` or an ancestor of `q` -/
def isPrefix : List Nat → List Nat → Bool
  | [], _ => true
  | _ :: _, [] => false
  | a :: as, b :: bs => a == b && isPrefix as bs

/-- Parameters of the model that stand for Go library functions (trusted base, §5):
    `rxMatch src s` = `regexp.MustCompile(src).MatchString(s)`; `lower` = `strings.ToLower`. -/
structure Cfg where
  rxMatch : String → String → Bool
  lower : String → String

end Pcore.Lat
