import Pcore.Model.Lex
/-!
# Number text ↔ value: `strconv.ParseInt(s, 0, 64)`, decimal rendering of integers, `strconv.ParseFloat(s, 64)`

Core Lean only.

Code ↔ model map
* `types/parser.go element: strconv.ParseInt(t.s, 0, 64)`  → `parseInt`  (sign, base prefix `0x`/`0b`/`0o`/leading `0` = octal,
  digits below the base, result within Int64; the underscore rule of base 0 is not modelled — the lexer never
  produces an underscore inside a number token)
* `types/integertype.go integerValue %p/%d` (`strconv.FormatInt(v, 10)`) → `intText`
* `types/parser.go element: strconv.ParseFloat(t.s, 64)`   → `parseFloat` : exact decimal → IEEE-754 binary64 bits with
  round-half-even, for the token shapes the lexer produces (`[+-]?D+(.D+)?([eE][+-]?D+)?`); `none` = `ErrRange`
  (overflow) or a shape the lexer cannot produce.  Go's conversion is correctly rounded, so an exact computation gives
  the same bits; this is exercised, not proved (DESIGN §3.4: decimal conversion is a parameter of the theorems).
-/
namespace Pcore.Syntax

def digitVal (c : Char) : Option Nat :=
  if isDigit c then some (c.toNat - '0'.toNat)
  else if isLower c then some (c.toNat - 'a'.toNat + 10)
  else if isUpper c then some (c.toNat - 'A'.toNat + 10)
  else none

/-- value of a digit string in `base`, continuing from `acc`; every digit must be below the base -/
def digitsVal (base : Nat) : Nat → Str → Option Nat
  | acc, [] => some acc
  | acc, c :: cs =>
    match digitVal c with
    | some d => if d < base then digitsVal base (acc * base + d) cs else none
    | none => none

def int64Bound : Nat := 9223372036854775808   -- 2^63

/-- `strconv.ParseInt(s, 0, 64)`; `none` = any `*NumError` (syntax or range) -/
def parseInt (s : Str) : Option Int :=
  let (neg, body) : Bool × Str :=
    match s with
    | '-' :: r => (true, r)
    | '+' :: r => (false, r)
    | r => (false, r)
  if body = [] then none else
  let (base, digs) : Nat × Str :=
    match body with
    | '0' :: x :: d :: r =>
      if x = 'x' ∨ x = 'X' then (16, d :: r)
      else if x = 'b' ∨ x = 'B' then (2, d :: r)
      else if x = 'o' ∨ x = 'O' then (8, d :: r)
      else (8, x :: d :: r)
    | '0' :: r => (8, r)
    | r => (10, r)
  match digitsVal base 0 digs with
  | none => none
  | some v =>
    if neg then (if v ≤ int64Bound then some (-(v : Int)) else none)
    else if v < int64Bound then some (v : Int) else none

/-! ### decimal rendering -/

def digitChar (d : Nat) : Char := Char.ofNat ('0'.toNat + d)

/-- decimal digits of a natural number, most significant first, no leading zero (`0` ↦ "0") -/
def natDigits (n : Nat) : Str :=
  if h : n < 10 then [digitChar n] else natDigits (n / 10) ++ [digitChar (n % 10)]
termination_by n
decreasing_by omega

/-- `strconv.FormatInt(i, 10)` -/
def intText (i : Int) : Str :=
  match i with
  | .ofNat n => natDigits n
  | .negSucc n => '-' :: natDigits (n + 1)

def hexDigitUpper (d : Nat) : Char :=
  if d < 10 then Char.ofNat ('0'.toNat + d) else Char.ofNat ('A'.toNat + (d - 10))

/-- `fmt.Sprintf("%X", n)` -/
def hexUpper (n : Nat) : Str :=
  if h : n < 16 then [hexDigitUpper n] else hexUpper (n / 16) ++ [hexDigitUpper (n % 16)]
termination_by n
decreasing_by omega

/-! ### decimal → binary64 -/

/-- a decimal literal: value = (-1)^neg · mant · 10^exp -/
structure Dec where
  neg : Bool
  mant : Nat
  exp : Int
  deriving Repr, DecidableEq

def takeDigits : Str → Str × Str
  | [] => ([], [])
  | c :: cs => if isDigit c then let r := takeDigits cs; (c :: r.1, r.2) else ([], c :: cs)

def digitsNat (ds : Str) : Nat := ds.foldl (fun a c => a * 10 + (c.toNat - '0'.toNat)) 0

/-- read `[+-]?D+(.D+)?([eE][+-]?D+)?` -/
def readDec (s : Str) : Option Dec :=
  let (neg, s1) : Bool × Str :=
    match s with
    | '-' :: r => (true, r)
    | '+' :: r => (false, r)
    | r => (false, r)
  let (ip, s2) := takeDigits s1
  if ip = [] then none else
  let (dot, fp, s3) : Bool × Str × Str :=
    match s2 with
    | '.' :: r => let q := takeDigits r; (true, q.1, q.2)
    | r => (false, [], r)
  if dot && fp.isEmpty then none else
  let mant := digitsNat (ip ++ fp)
  let e0 : Int := -(fp.length : Int)
  match s3 with
  | [] => some ⟨neg, mant, e0⟩
  | c :: r =>
    if c = 'e' ∨ c = 'E' then
      let (eneg, r1) : Bool × Str :=
        match r with
        | '-' :: q => (true, q)
        | '+' :: q => (false, q)
        | q => (false, q)
      let (ed, r2) := takeDigits r1
      if ed = [] ∨ r2 ≠ [] then none
      else
        let ev : Int := digitsNat ed
        some ⟨neg, mant, e0 + (if eneg then -ev else ev)⟩
    else none

def signBit (neg : Bool) : Nat := if neg then 2 ^ 63 else 0

/-- correctly rounded (half to even) binary64 bits of a decimal; `none` = overflow (`ErrRange`) -/
def decToBits (d : Dec) : Option Nat :=
  if d.mant = 0 then some (signBit d.neg) else
  let nd : Int := (natDigits d.mant).length
  let dp : Int := nd + d.exp
  if dp > 310 then none
  else if dp < -330 then some (signBit d.neg)
  else
    let num : Nat := if d.exp ≥ 0 then d.mant * 10 ^ d.exp.toNat else d.mant
    let den : Nat := if d.exp ≥ 0 then 1 else 10 ^ (-d.exp).toNat
    -- floor(log2 (num/den)) is l or l - 1
    let l : Int := (Nat.log2 num : Int) - (Nat.log2 den : Int)
    let ge (k : Int) : Bool :=   -- num/den ≥ 2^k
      if k ≥ 0 then decide (num ≥ den * 2 ^ k.toNat) else decide (num * 2 ^ (-k).toNat ≥ den)
    let fl : Int := if ge l then l else l - 1
    let e : Int := if fl - 52 < -1074 then -1074 else fl - 52
    let N : Nat := if e ≥ 0 then num else num * 2 ^ (-e).toNat
    let D : Nat := if e ≥ 0 then den * 2 ^ e.toNat else den
    let q0 := N / D
    let r := N % D
    let q := if 2 * r > D ∨ (2 * r = D ∧ q0 % 2 = 1) then q0 + 1 else q0
    let bits : Nat := (e + 1074).toNat * 2 ^ 52 + q
    if bits ≥ 2047 * 2 ^ 52 then none else some (signBit d.neg + bits)

/-- `strconv.ParseFloat(s, 64)` on lexer float tokens: IEEE bits, `none` = error -/
def parseFloat (s : Str) : Option Nat :=
  match readDec s with
  | none => none
  | some d => decToBits d

end Pcore.Syntax
