/-!
# The lexer of `types/lexer.go` over `utils/reader.go`, as it is now (after the `fix:` commits)

Core Lean only (this file is linked into the compiled driver).

Code ↔ model map
* `utils/reader.go  StringReader.Next / Peek`   → `Sym.rune` (what the reader reports for the symbol at the cursor),
                                                    the case split `[] | s :: tl` in every lexer function, `advance`/`pos`
                                                    (line/column as a function of the consumed prefix)
* `types/lexer.go   nextToken`                   → `nextTok` (the `inComment` flag is `consumeLineComment` inlined)
* `types/lexer.go   consumeString, consumeUnicodeEscape` → `lexStr` (modes `SMode`)
* `types/lexer.go   consumeRegexp`               → `lexRx` (modes `RMode`)
* `types/lexer.go   consumeNumber, consumeExponent, consumeUnsignedInteger, consumeHexInteger` → `lexNum` (modes `NMode`)
* `types/lexer.go   consumeIdentifier, consumeTypeName` → `lexIdent` (modes `IMode`)

How loops are modelled.  Every Go `for { … }` loop of the lexer reads the input through `sr.Next()` (consumes) or
`sr.Peek()` (does not).  Each loop becomes a function by **structural recursion on the remaining input**; the point in
the Go control flow ("after the `.`", "after the exponent sign", "inside `\u{`") is the *mode* argument.  A recursive
call is only ever made on the tail of the input, i.e. on a path on which the Go code called `Next()` on a decodable
symbol; a path that only `Peek`s either returns the token or panics.  That these definitions are accepted by Lean
without `partial`/fuel is the termination half of C06 for the lexer: the shape that hung the original lexer (an arm
that neither consumes nor leaves the loop) cannot be written down here.

Quirks mirrored (DESIGN.md Appendix A "Lexer/parser"):
* NUL is end of input for `nextToken` (but it *is* consumed, and it merely ends a `#` comment);
* a byte that does not decode **and a valid U+FFFD** are both reported as `utf8.RuneError` and never consumed;
* reading past the end bumps the column once (`bumped`);
* blanks are space, tab, newline only; `\r` is a bad character;
* numbers: sign must be followed by a digit; `0x` only when the *first* digit is `0` (so `012x5` lexes as one
  integer token that `ParseInt` then rejects); a fraction needs a digit after `.`; a second `.` or an `x` in a float
  panics without consuming; in the exponent digits a letter is consumed and then panics, a `.` panics unconsumed;
* strings: both quotes; escapes `\n \r \t \\ \$ \<quote> \u{X…}` (1–6 hex digits; an invalid code point is written
  as U+FFFD by `bytes.Buffer.WriteRune`); a raw newline or NUL ends the string with an error;
* regexps: `\/` is unescaped, every other `\x` is kept with its backslash (even `\` + newline), a raw newline or NUL
  is an error;
* identifiers `[a-z][A-Za-z0-9_]*(::[a-z_][A-Za-z0-9_]*)*`, type names `[A-Z][A-Za-z0-9_]*(::[A-Z][A-Za-z0-9_]*)*`.
-/
namespace Pcore.Syntax

abbrev Str := List Char

/-- one input symbol: a decoded character or one undecodable byte -/
inductive Sym where
  | chr (c : Char)
  | bad
  deriving DecidableEq, Repr, Inhabited

def runeError : Char := Char.ofNat 0xFFFD

/-- what `StringReader.Next`/`Peek` report: `none` is `utf8.RuneError` — an undecodable byte *or a valid U+FFFD*
    (`Next` does not advance over either) -/
def Sym.rune : Sym → Option Char
  | .bad => none
  | .chr c => if c = runeError then none else some c

def isDigit (c : Char) : Bool := '0' ≤ c && c ≤ '9'
def isUpper (c : Char) : Bool := 'A' ≤ c && c ≤ 'Z'
def isLower (c : Char) : Bool := 'a' ≤ c && c ≤ 'z'
def isHex (c : Char) : Bool := isDigit c || ('A' ≤ c && c ≤ 'F') || ('a' ≤ c && c ≤ 'f')
def isWord (c : Char) : Bool := c = '_' || isDigit c || isUpper c || isLower c

def hexVal (c : Char) : Nat :=
  if isDigit c then c.toNat - '0'.toNat
  else if 'A' ≤ c && c ≤ 'F' then c.toNat - 'A'.toNat + 10
  else c.toNat - 'a'.toNat + 10

/-- `bytes.Buffer.WriteRune(rune(v))`: a surrogate or a value above U+10FFFF is written as U+FFFD -/
def runeOfNat (v : Nat) : Char :=
  if v < 0xD800 ∨ (0xDFFF < v ∧ v < 0x110000) then Char.ofNat v else runeError

/-- token kinds (`tokenType` of lexer.go; `eoi` is `end`) -/
inductive TK where
  | eoi | name | ident | int | float | regexp | string
  | lbrack | rbrack | lcurly | rcurly | lparen | rparen | comma | dot | rocket | equal
  deriving DecidableEq, Repr, Inhabited

structure Tok where
  k : TK
  s : Str
  deriving DecidableEq, Repr, Inhabited

/-- outcome of one `nextToken` call.  `rest` is what the reader has not consumed; `bumped` = the reader was asked
    for a symbol at the very end of the input (its column was incremented once more).  `err` is a lexer `panic`. -/
inductive LexRes where
  | tok (t : Tok) (rest : List Sym) (bumped : Bool)
  | err (rest : List Sym) (bumped : Bool)
  deriving DecidableEq, Repr, Inhabited

/-! ### strings -/

inductive SMode where
  | norm | esc | uopen | udig (n : Nat) (v : Nat)
  deriving DecidableEq, Repr

/-- `consumeString(sr, q)` with `consumeUnicodeEscape` inlined; `acc` is the buffer, reversed -/
def lexStr (q : Char) : SMode → Str → List Sym → LexRes
  | _, _, [] => .err [] true
  | m, acc, s :: tl =>
    match s.rune with
    | none => .err (s :: tl) false
    | some c =>
      match m with
      | .norm =>
        if c = q then .tok ⟨.string, acc.reverse⟩ tl false
        else if c = '\x00' then .err tl false
        else if c = '\\' then lexStr q .esc acc tl
        else if c = '\n' then .err tl false
        else lexStr q .norm (c :: acc) tl
      | .esc =>
        if c = '\x00' then .err tl false
        else if c = 'n' then lexStr q .norm ('\n' :: acc) tl
        else if c = 'r' then lexStr q .norm ('\r' :: acc) tl
        else if c = 't' then lexStr q .norm ('\t' :: acc) tl
        else if c = '\\' then lexStr q .norm (c :: acc) tl
        else if c = '$' then lexStr q .norm (c :: acc) tl
        else if c = 'u' then lexStr q .uopen acc tl
        else if c = q then lexStr q .norm (c :: acc) tl
        else .err tl false
      | .uopen =>
        if c = '{' then lexStr q (.udig 0 0) acc tl else .err tl false
      | .udig n v =>
        if c = '}' ∧ 0 < n then lexStr q .norm (runeOfNat v :: acc) tl
        else if n < 6 ∧ isHex c then lexStr q (.udig (n + 1) (v * 16 + hexVal c)) acc tl
        else .err tl false

/-! ### regexps -/

inductive RMode where
  | norm | esc
  deriving DecidableEq, Repr

/-- `consumeRegexp(sr)` -/
def lexRx : RMode → Str → List Sym → LexRes
  | _, _, [] => .err [] true
  | m, acc, s :: tl =>
    match s.rune with
    | none => .err (s :: tl) false
    | some c =>
      match m with
      | .norm =>
        if c = '/' then .tok ⟨.regexp, acc.reverse⟩ tl false
        else if c = '\\' then lexRx .esc acc tl
        else if c = '\x00' then .err tl false
        else if c = '\n' then .err tl false
        else lexRx .norm (c :: acc) tl
      | .esc =>
        if c = '\x00' then .err tl false
        else if c = '/' then lexRx .norm (c :: acc) tl
        else lexRx .norm (c :: '\\' :: acc) tl

/-! ### numbers -/

inductive NMode where
  | intPart (firstZero : Bool)   -- consumeNumber with t = integer
  | fracStart                    -- after `.`: `sr.Next()` must be a digit
  | fracPart                     -- consumeNumber with t = float
  | expStart                     -- consumeExponent, first `sr.Next()`
  | expSign                      -- consumeExponent after `+`/`-`
  | expDigits                    -- consumeUnsignedInteger
  | hexStart                     -- after `0x`: `sr.Next()` must be a hex digit
  | hexDigits                    -- consumeHexInteger
  deriving DecidableEq, Repr

def intTok (acc : Str) (rest : List Sym) : LexRes := .tok ⟨.int, acc.reverse⟩ rest false
def floatTok (acc : Str) (rest : List Sym) : LexRes := .tok ⟨.float, acc.reverse⟩ rest false

/-- the number scanner; `isLetter` is `unicode.IsLetter` -/
def lexNum (isLetter : Char → Bool) : NMode → Str → List Sym → LexRes
  -- end of input: the Peek-loops return their token, the Next-points panic (and bump the column)
  | .intPart _, acc, [] => intTok acc []
  | .hexDigits, acc, [] => intTok acc []
  | .fracPart, acc, [] => floatTok acc []
  | .expDigits, acc, [] => floatTok acc []
  | .fracStart, _, [] => .err [] true
  | .expStart, _, [] => .err [] true
  | .expSign, _, [] => .err [] true
  | .hexStart, _, [] => .err [] true
  | m, acc, s :: tl =>
    match s.rune with
    | none =>
      -- RuneError is never consumed
      match m with
      | .intPart _ => intTok acc (s :: tl)
      | .hexDigits => intTok acc (s :: tl)
      | .fracPart => floatTok acc (s :: tl)
      | _ => .err (s :: tl) false          -- expDigits: "unicode error"; the Next-points: badToken
    | some c =>
      match m with
      | .intPart fz =>
        if c = '\x00' then intTok acc (s :: tl)
        else if isDigit c then lexNum isLetter (.intPart fz) (c :: acc) tl
        else if c = 'e' ∨ c = 'E' then lexNum isLetter .expStart (c :: acc) tl
        else if c = 'x' ∨ c = 'X' then
          (if fz then lexNum isLetter .hexStart (c :: acc) tl else .err (s :: tl) false)
        else if c = '.' then lexNum isLetter .fracStart (c :: acc) tl
        else intTok acc (s :: tl)
      | .fracStart =>
        if isDigit c then lexNum isLetter .fracPart (c :: acc) tl else .err tl false
      | .fracPart =>
        if c = '\x00' then floatTok acc (s :: tl)
        else if isDigit c then lexNum isLetter .fracPart (c :: acc) tl
        else if c = 'e' ∨ c = 'E' then lexNum isLetter .expStart (c :: acc) tl
        else if c = 'x' ∨ c = 'X' then .err (s :: tl) false
        else if c = '.' then .err (s :: tl) false
        else floatTok acc (s :: tl)
      | .expStart =>
        if c = '\x00' then .err tl false
        else if c = '+' ∨ c = '-' then lexNum isLetter .expSign (c :: acc) tl
        else if isDigit c then lexNum isLetter .expDigits (c :: acc) tl
        else .err tl false
      | .expSign =>
        if isDigit c then lexNum isLetter .expDigits (c :: acc) tl else .err tl false
      | .expDigits =>
        if c = '\x00' then floatTok acc (s :: tl)
        else if c = '.' then .err (s :: tl) false
        else if isDigit c then lexNum isLetter .expDigits (c :: acc) tl
        else if isLetter c then .err tl false
        else floatTok acc (s :: tl)
      | .hexStart =>
        if isHex c then lexNum isLetter .hexDigits (c :: acc) tl else .err tl false
      | .hexDigits =>
        if isHex c then lexNum isLetter .hexDigits (c :: acc) tl else intTok acc (s :: tl)

/-! ### identifiers and type names -/

inductive IMode where
  | body | colon1 | colon2
  deriving DecidableEq, Repr

/-- `consumeIdentifier` (`upper = false`) and `consumeTypeName` (`upper = true`) -/
def lexIdent (upper : Bool) : IMode → Str → List Sym → LexRes
  | .body, acc, [] => .tok ⟨if upper then .name else .ident, acc.reverse⟩ [] false
  | .colon1, _, [] => .err [] true
  | .colon2, _, [] => .err [] true
  | m, acc, s :: tl =>
    match s.rune with
    | none =>
      match m with
      | .body => .tok ⟨if upper then .name else .ident, acc.reverse⟩ (s :: tl) false
      | _ => .err (s :: tl) false
    | some c =>
      match m with
      | .body =>
        if c = ':' then lexIdent upper .colon1 (c :: acc) tl
        else if isWord c then lexIdent upper .body (c :: acc) tl
        else .tok ⟨if upper then .name else .ident, acc.reverse⟩ (s :: tl) false
      | .colon1 =>
        if c = ':' then lexIdent upper .colon2 (c :: acc) tl else .err tl false
      | .colon2 =>
        if (if upper then isUpper c else (isLower c || c = '_')) then lexIdent upper .body (c :: acc) tl
        else .err tl false

/-! ### nextToken -/

def mk (k : TK) (s : String) (rest : List Sym) : LexRes := .tok ⟨k, s.toList⟩ rest false

/-- the single-character tokens -/
def punctTok (c : Char) (tl : List Sym) : Option LexRes :=
  if c = '{' then some (mk .lcurly "{" tl)
  else if c = '}' then some (mk .rcurly "}" tl)
  else if c = '[' then some (mk .lbrack "[" tl)
  else if c = ']' then some (mk .rbrack "]" tl)
  else if c = '(' then some (mk .lparen "(" tl)
  else if c = ')' then some (mk .rparen ")" tl)
  else if c = ',' then some (mk .comma "," tl)
  else if c = '.' then some (mk .dot "." tl)
  else none

/-- after `=`: `sr.Peek() == '>'` -/
def eqTok (tl : List Sym) : LexRes :=
  match tl with
  | [] => mk .equal "=" tl
  | s2 :: tl2 => if s2.rune = some '>' then mk .rocket "=>" tl2 else mk .equal "=" tl

/-- after a sign `c`: `n := sr.Next()` must be a digit -/
def signTok (isLetter : Char → Bool) (c : Char) (tl : List Sym) : LexRes :=
  match tl with
  | [] => .err [] true
  | s2 :: tl2 =>
    match s2.rune with
    | none => .err (s2 :: tl2) false
    | some d => if isDigit d then lexNum isLetter (.intPart (d = '0')) [d, c] tl2 else .err tl2 false

/-- the `switch r` of `nextToken` for a character `c` (already consumed) that is neither blank, `#` nor NUL -/
def startTok (isLetter : Char → Bool) (c : Char) (tl : List Sym) : LexRes :=
  if c = '\'' ∨ c = '"' then lexStr c .norm [] tl
  else if c = '/' then lexRx .norm [] tl
  else
    match punctTok c tl with
    | some r => r
    | none =>
      if c = '=' then eqTok tl
      else if c = '-' ∨ c = '+' then signTok isLetter c tl
      else if isDigit c then lexNum isLetter (.intPart (c = '0')) [c] tl
      else if isUpper c then lexIdent true .body [c] tl
      else if isLower c then lexIdent false .body [c] tl
      else .err tl false

/-- `nextToken(sr)`; `inComment = true` is the inside of `consumeLineComment` -/
def nextTok (isLetter : Char → Bool) : Bool → List Sym → LexRes
  | _, [] => .tok ⟨.eoi, []⟩ [] true
  | ic, s :: tl =>
    match s.rune with
    | none => .err (s :: tl) false
    | some c =>
      if ic then
        (if c = '\x00' ∨ c = '\n' then nextTok isLetter false tl else nextTok isLetter true tl)
      else if c = '\x00' then .tok ⟨.eoi, []⟩ tl false
      else if c = ' ' ∨ c = '\t' ∨ c = '\n' then nextTok isLetter false tl
      else if c = '#' then nextTok isLetter true tl
      else startTok isLetter c tl

def nextToken (isLetter : Char → Bool) (inp : List Sym) : LexRes := nextTok isLetter false inp

/-! ### positions -/

/-- line and column of `StringReader` after consuming the given symbols, starting from `(l, c)`:
    `if c == '\n' { l++; c = 0 }; c++` -/
def advance : Nat → Nat → List Sym → Nat × Nat
  | l, c, [] => (l, c)
  | l, c, s :: tl => if s = .chr '\n' then advance (l + 1) 1 tl else advance l (c + 1) tl

/-- the reader's (line, column) when `rest` of `inp` is unconsumed -/
def pos (inp rest : List Sym) (bumped : Bool) : Nat × Nat :=
  let p := advance 1 0 (inp.take (inp.length - rest.length))
  (p.1, p.2 + (if bumped then 1 else 0))

end Pcore.Syntax
