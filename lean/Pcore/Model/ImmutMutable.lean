import Pcore.Model.SliceHeap
/-!
# MutableHashValue as an object (property C08)

Core Lean only.  `Model/Coll.lean` treats a `MutableHashValue` as a builder: `Put` makes a new pool entry and retires the
old one, and the operations that may answer "the receiver itself" are not executed on it.  This file models it as what
it is in the Go code — ONE object whose storage `Put`/`PutAll` replace — together with the `Hash` methods it inherits by
embedding (`type MutableHashValue struct { Hash }`: a promoted method runs with the receiver `&m.Hash`):

* a result with its own storage (`Keys`, `Values`, `Slice`, `Merge`, `Delete` of a key that is there, `DeleteAll` with a
  match): an immutable value, `MEntry.val`;
* `return hv` — `Hash.Delete` of an absent key (types/hashtype.go site `Hash.Delete/r1`), `Hash.DeleteAll` without a match
  (`/r0`), `Hash.Unique` (`/r0`), `Hash.Entries` (`/r0`).  THE CODE AS IT IS NOW (after /repo 1d333d3 "fix: Delete (absent
  key), DeleteAll (no match), Entries and Unique of a mutable hash answered the builder's own embedded Hash"):
  `MutableHashValue` has its own `Delete` / `DeleteAll` (through `own`: `hv.freeze()` when the Hash method answered the
  embedded receiver) and `Entries` / `Unique` (`hv.freeze()`): the answer is a copy, a value — `frozen = true`.
  BEFORE the fix (`frozen = false`) the promoted Hash methods answered the embedded `Hash` of the builder itself, typed
  `*Hash` (no `Put` method, `Equals` treats it as an ordinary hash) — `MEntry.alias`: it reads whatever the builder holds
  NOW.  Which of the two the driver runs is read off the regenerated idiom table (`mutFrozen`: the four
  `MutableHashValue.<Method>/r0` rows exist and are fresh).

Go function → Lean definition: `NewMutableHash` → `MOp.mnew`; `MutableHashValue.Put/PutAll` → `put`/`putAll` (the object's
entries become `mergeEntries`; no new pool value: the step's entry is the marker `-`); `Hash.Delete/DeleteAll/Unique/
Entries/Keys/Values/Slice/Merge` on a builder, an alias or a plain hash → `mstep`.
-/
namespace Pcore.Mut
open Pcore.Heap

inductive MEntry
  | obj (o : Nat)                     -- the MutableHashValue itself
  | alias (o : Nat)                   -- a `*Hash` that IS builder `o`
  | val (k : Kind) (xs : List Val)    -- an immutable value
  | mark (m : String)
  deriving Repr

structure MState where
  objs : List (List Val) := []        -- builder ↦ its current entries
  pool : List MEntry := []
  deriving Repr

inductive MOp
  | mnew
  | lit (v : Val)
  | put (m : Nat) (k v : Val)
  | putAll (m s : Nat)
  | delete (r : Nat) (k : Val)
  | deleteAll (r s : Nat)
  | unique (r : Nat)
  | entries (r : Nat)
  | keys (r : Nat)
  | values (r : Nat)
  | slice (r : Nat) (i j : Int)
  | merge (r s : Nat)
  deriving Repr

def MEntry.read (objs : List (List Val)) : MEntry → Option (List Val)
  | .obj o => objs[o]?
  | .alias o => objs[o]?
  | .val _ xs => some xs
  | .mark _ => none

/-- what pool entry `i` holds NOW -/
def MState.read (s : MState) (i : Nat) : Option (List Val) :=
  match s.pool[i]? with
  | some e => e.read s.objs
  | none => none

/-- a hash receiver: its content and what `return hv` answers for it -/
def MState.hashRecv (frozen : Bool) (s : MState) (r : Nat) : Option (List Val × MEntry) :=
  match s.pool[r]? with
  | some (.obj o) => (s.objs[o]?).map fun es => (es, if frozen then .val .hsh es else .alias o)
  | some (.alias o) => (s.objs[o]?).map fun es => (es, if frozen then .val .hsh es else .alias o)
  | some (.val .hsh es) => some (es, .val .hsh es)
  | _ => none

/-- any list-like argument: its content -/
def MState.listArg (s : MState) (r : Nat) : Option (List Val) :=
  match s.pool[r]? with
  | some (.mark _) => none
  | some e => e.read s.objs
  | none => none

def MState.push (s : MState) (e : MEntry) : MState := { s with pool := s.pool ++ [e] }

def scalarVal : Val → Bool
  | .int _ => true
  | .str _ => true
  | .undef => true
  | _ => false

def mstep (frozen : Bool) (s : MState) : MOp → MState
  | .mnew => { objs := s.objs ++ [[]], pool := s.pool ++ [.obj s.objs.length] }
  | .lit v =>
    if v.dupKeys then s.push (.mark "~") else
    match v with
    | .hsh es => s.push (.val .hsh es)
    | .arr xs => s.push (.val .arr xs)
    | _ => s.push (.mark "~")
  | .put m k v =>
    match s.pool[m]? with
    | some (.obj o) =>
      if !(scalarVal k && scalarVal v) then s.push (.mark "~") else
      { objs := s.objs.modify o (fun es => mergeEntries es [.ent k v]), pool := s.pool ++ [.mark "-"] }
    | _ => s.push (.mark "~")
  | .putAll m a =>
    match s.pool[m]?, s.hashRecv frozen a with
    | some (.obj o), some (os, _) =>
      { objs := s.objs.modify o (fun es => mergeEntries es os), pool := s.pool ++ [.mark "-"] }
    | _, _ => s.push (.mark "~")
  | .delete r k =>
    match s.hashRecv frozen r with
    | some (es, self) =>
      if !scalarVal k then s.push (.mark "~") else
      match idxOf es k.key with
      | some i => s.push (.val .hsh (es.eraseIdx i))
      | none => s.push self
    | none => s.push (.mark "~")
  | .deleteAll r a =>
    match s.hashRecv frozen r, s.listArg a with
    | some (es, self), some ks =>
      let del := ks.filterMap (fun k => idxOf es k.key)
      if del.isEmpty then s.push self else s.push (.val .hsh (keepIdx del es 0))
    | _, _ => s.push (.mark "~")
  | .unique r =>
    match s.hashRecv frozen r with
    | some (_, self) => s.push self
    | none => s.push (.mark "~")
  | .entries r =>
    match s.hashRecv frozen r with
    | some (_, self) => s.push self
    | none => s.push (.mark "~")
  | .keys r =>
    match s.hashRecv frozen r with
    | some (es, _) => s.push (.val .arr (es.map entKey))
    | none => s.push (.mark "~")
  | .values r =>
    match s.hashRecv frozen r with
    | some (es, _) => s.push (.val .arr (es.map entVal))
    | none => s.push (.mark "~")
  | .slice r i j =>
    match s.hashRecv frozen r with
    | some (es, _) => if winOK es.length i j then s.push (.val .hsh (window es i j)) else s.push (.mark "^")
    | none => s.push (.mark "~")
  | .merge r a =>
    match s.hashRecv frozen r, s.hashRecv frozen a with
    | some (es, _), some (os, _) => s.push (.val .hsh (mergeEntries es os))
    | _, _ => s.push (.mark "~")

/-- the four answers are copies: the regenerated idiom table (family sliceidioms) has a fresh row for each of
    `MutableHashValue.Delete / DeleteAll / Entries / Unique` (without the methods there is no row: `unknown`) -/
def mutFrozen (tbl : Table) : Bool :=
  ["MutableHashValue.Delete/r0", "MutableHashValue.DeleteAll/r0", "MutableHashValue.Entries/r0",
   "MutableHashValue.Unique/r0"].all fun k => tbl.find k == .mapIntoFresh || tbl.find k == .freshCopy

def mrun (frozen : Bool) (ops : List MOp) : MState := ops.foldl (mstep frozen) {}

/-- is pool entry `i` something other than the builder itself — a value somebody obtained? -/
def MState.isResult (s : MState) (i : Nat) : Bool :=
  match s.pool[i]? with
  | some (.val _ _) => true
  | some (.alias _) => true
  | _ => false

end Pcore.Mut
