/-
  C10 — the Timespan leaf codec, concretely: the default Timespan format `%D-%H:%M:%S.%-N`
  (types/timespantype.go: DefaultTimespanFormats[0]; Timespan.SerializationString → TimespanFormat.format2 with the
  segments day (total), hour, minute, second, nanosecond-fragment; TimespanFormat.parse over the regexp
  `\A-?([0-9]+)(-)([0-9]{1,2})(:)([0-9]{1,2})(:)([0-9]{1,2})(\.)([0-9]{1,9})\z`, fragmentSegment.nanoseconds
  = n * 10^(9 - len), a leading `-` negates) — the code as it is after the `fix:` commits on the sign, the fraction
  and the lossless SerializationString.  A Timespan is its number of nanoseconds (`Int`).
  Not modelled: the other seven default formats (tried after this one; the printed form always matches this one),
  user-supplied formats, the general format machinery.  Core-only.
-/
namespace Pcore.Ser

def digitChar (d : Nat) : Char := Char.ofNat (48 + d % 10)
def isDigit (c : Char) : Bool := decide ('0' ≤ c) && decide (c ≤ '9')
def digitVal (c : Char) : Nat := c.toNat - 48

/-- the `w` low decimal digits of `n`, zero padded (`%02d` for w = 2) -/
def padDigits : Nat → Nat → List Char
  | 0, _ => []
  | w + 1, n => padDigits w (n / 10) ++ [digitChar n]

/-- `%d` (structural on a fuel that is never exhausted: a number has fewer digits than its value) -/
def natDigitsF : Nat → Nat → List Char
  | 0, n => [digitChar n]
  | fuel + 1, n => if n < 10 then [digitChar n] else natDigitsF fuel (n / 10) ++ [digitChar n]

def natDigits (n : Nat) : List Char := natDigitsF n n

/-- strconv.ParseInt of a digit string -/
def digitsVal (cs : List Char) : Nat := cs.foldl (fun acc c => acc * 10 + digitVal c) 0

/-- the fraction `%-N`: `w` digits, trailing zeroes stripped, at least one digit (leading zeroes are kept) -/
def fracDigits : Nat → Nat → List Char
  | 0, _ => ['0']
  | 1, f => [digitChar f]
  | w + 2, f => if f % 10 = 0 then fracDigits (w + 1) (f / 10) else padDigits (w + 2) f

/-- the segments of a non-negative number of nanoseconds -/
def spanChars (n : Nat) : List Char :=
  natDigits (n / 1000000000 / 86400) ++ '-' :: (padDigits 2 (n / 1000000000 / 3600 % 24) ++ ':' ::
    (padDigits 2 (n / 1000000000 / 60 % 60) ++ ':' :: (padDigits 2 (n / 1000000000 % 60) ++ '.' ::
      fracDigits 9 (n % 1000000000))))

/-- `DefaultTimespanFormats[0].format(ts)`: one leading sign, then the segments of the absolute value -/
def printSpan (ns : Int) : String :=
  String.ofList (if ns < 0 then '-' :: spanChars ns.natAbs else spanChars ns.natAbs)

/-- the longest prefix of digits (what a group `([0-9]…)` followed by a literal non-digit matches) -/
def takeDigits : List Char → List Char × List Char
  | [] => ([], [])
  | c :: cs => if isDigit c then ((c :: (takeDigits cs).1), (takeDigits cs).2) else ([], c :: cs)

def expectChar (c : Char) : List Char → Option (List Char)
  | x :: xs => if x = c then some xs else none
  | [] => none

/-- the regexp groups and the sum of `segment.nanoseconds(group, multiplier)` -/
def parseSpanChars (cs : List Char) : Option Nat :=
  let d := takeDigits cs
  if d.1.length < 1 then none else
  (expectChar '-' d.2).bind fun r1 =>
  let h := takeDigits r1
  if h.1.length < 1 || h.1.length > 2 then none else
  (expectChar ':' h.2).bind fun r2 =>
  let m := takeDigits r2
  if m.1.length < 1 || m.1.length > 2 then none else
  (expectChar ':' m.2).bind fun r3 =>
  let s := takeDigits r3
  if s.1.length < 1 || s.1.length > 2 then none else
  (expectChar '.' s.2).bind fun r4 =>
  let f := takeDigits r4
  if f.1.length < 1 || f.1.length > 9 || !f.2.isEmpty then none else
  some (digitsVal d.1 * 86400000000000 + digitsVal h.1 * 3600000000000 + digitsVal m.1 * 60000000000 +
    digitsVal s.1 * 1000000000 + digitsVal f.1 * 10 ^ (9 - f.1.length))

/-- `ParseTimespan(str, DefaultTimespanFormats)` as far as the first format goes -/
def parseSpan (s : String) : Option Int :=
  match s.toList with
  | '-' :: cs => (parseSpanChars cs).map fun n => -(n : Int)
  | cs => (parseSpanChars cs).map fun n => (n : Int)

/-- is this payload the serialization string of a Timespan? -/
def canonSpan (s : String) : Bool :=
  match parseSpan s with
  | some ns => printSpan ns == s
  | none => false

end Pcore.Ser
