/-
  C20 model — string formatting (types/format.go, px/format.go and the ToString methods of the value kinds).

  Mirrors (file func → definition), the code AS IT IS NOW (after the `fix:` commits 4967a97 … 25b91c3 and the simpleFormat delimiter fix):
    px/format.go      FormatPattern                  → `matchPattern` (flags are ` [+#0{<(|-`, width `[1-9][0-9]*`, `.prec`, one letter)
    types/format.go   parseFormat, hasDelimOnce      → `parseFormat` (repeated-flag and two-delimiter errors in the code's order)
    types/format.go   simpleFormat/basicFormat, DefaultFormat, DefaultContainerFormats → `simpleFmt`, `basicFmt`, `defaultTree`, `defaultCF`
    types/format.go   unParse, ReplaceFormatChar, WithoutWidth → `unParse`, `replaceFormatChar`, `withoutWidth`
    types/format.go   goFormat                       → `goFormat` (the original format without the container delimiter flags)
    types/format.go   HasStringFlags, ApplyStringFlags → `hasStringFlags`, `applyStringFlags` (Go `%-W.Ps`: truncate to P runes, pad to W)
    types/format.go   indentation                    → `Ind` (`breaks`, `increase`, `subsequent`, `indenting`, `padding`)
    px/format.go      GetFormat                      → `getFormat` over keys that are parameterless types (`Key.accepts`)
    Go fmt            Fprintf parsing of one directive → `goParse`;  (*fmt).fmtInteger / pad → `goFmtInt`;  fmtS → `goFmtS`
    utils/strings.go  PuppetQuote, RegexpQuote, CapitalizeSegment(s) → `puppetQuote`, `regexpQuote`, `capitalizeSegment(s)`
    types/integertype.go integerValue.ToString       → `fmtInt` (`dxXo` → fmt; hand-written `p b B` → `intPbB`; `eEfgG` → float path; `c`, `s`)
    types/floattype.go   floatValue.ToString, floatGFormat, padNumber → `fmtFloat`, `floatGFormat`, `padNumber`
    types/stringtype.go  stringValue.ToString        → `fmtStr`
    types/booleantype.go, binarytype.go, defaulttype.go, undeftype.go, regexptype.go ToString → `fmtBool`, `fmtBinary`, `fmtDefault`, `fmtUndef`, `fmtRegexp`
    types/arraytype.go   Array.ToString2, childToString, isContainer → `fmtVal (.array …)`, `arrayAssemble`, `fmtElems`
    types/hashtype.go    Hash.ToString2, HashEntry.ToString → `fmtVal (.hash …)`, `hashAssemble`, `fmtPairs`, `fmtEntryArrs`

  Parameters (not modelled, DESIGN.md §3.4/§5): `FloatIO` — `sprintf` is Go's fmt.Sprintf of one float directive (the digits),
  `ofInt` is float64(int64), `toInt` is int64(float64).  Everything around them (which letters, the go format string handed
  over, floatGFormat's restoration of the fraction and its padding) is modelled.  strings.ToUpper/ToLower are Go's simple
  case mapping over the table regenerated from $GOROOT/src/unicode/tables.go (`Pcore.Generated.caseRanges`).
  Strings are sequences of Unicode scalar values (`List Char`); invalid UTF-8 is outside the model.
  Core-only file (linked into the driver).
-/
import Pcore.Generated.UnicodeCase
namespace Pcore.Format

abbrev Str := List Char

/-! ### results -/

inductive Code where
  | unsupported | invalidSpec | invalidDelimiter | repeatedFlag | failure
  | notInteger | illegalArguments          -- the Integer constructor
  deriving DecidableEq, Repr, Inhabited

/-- Go runtime / fmt faults that the code could exhibit on data-dependent input -/
inductive FaultKind where
  | goFmtNoVerb      -- fmt rendered %!(NOVERB) / %!(BADWIDTH): the format handed to fmt is not a fmt directive
  | goFmtBadVerb     -- fmt rendered %!c(type=value): a verb fmt does not know for the operand
  | sliceBounds      -- a slice expression out of range
  deriving DecidableEq, Repr, Inhabited

inductive Res where
  | text (s : Str)
  | reported (c : Code)
  | fault (k : FaultKind)
  deriving DecidableEq, Repr, Inhabited

def Res.bind (r : Res) (k : Str → Res) : Res :=
  match r with
  | .text s => k s
  | .reported c => .reported c
  | .fault f => .fault f

/-! ### numbers ↔ digits -/

def digitsAux (b : Nat) : Nat → Nat → List Nat → List Nat
  | 0, _, acc => acc
  | fuel + 1, n, acc => if n < b then n :: acc else digitsAux b fuel (n / b) (n % b :: acc)

/-- big-endian digits of `n` in base `b` (at least one digit) -/
def toDigits (b n : Nat) : List Nat := digitsAux b (n + 1) n []

def digitChar (upper : Bool) (d : Nat) : Char :=
  if d < 10 then Char.ofNat ('0'.toNat + d)
  else if upper then Char.ofNat ('A'.toNat + (d - 10)) else Char.ofNat ('a'.toNat + (d - 10))

def natStr (b : Nat) (upper : Bool) (n : Nat) : Str := (toDigits b n).map (digitChar upper)

def decimal (i : Int) : Str := if i < 0 then '-' :: natStr 10 false i.natAbs else natStr 10 false i.natAbs

def isDigit (c : Char) : Bool := '0' ≤ c && c ≤ '9'
def isLetter (c : Char) : Bool := ('a' ≤ c && c ≤ 'z') || ('A' ≤ c && c ≤ 'Z')

/-- strconv.Atoi on a digit string -/
def readNat (s : Str) : Nat := s.foldl (fun n c => n * 10 + (c.toNat - '0'.toNat)) 0

def spaces (n : Nat) : Str := List.replicate n ' '
def zeros (n : Nat) : Str := List.replicate n '0'

/-! ### the Format record -/

structure Fmt where
  alt : Bool
  left : Bool
  zeroPad : Bool
  letter : Char
  plus : Option Char        -- Go byte 0 ↦ none
  prec : Option Nat         -- Go -1 ↦ none
  width : Option Nat
  ldelim : Option Char      -- Go byte 0 ↦ none; `[ { ( < |` or ' '
  sep : Option Str          -- NoString ↦ none
  sep2 : Option Str
  orig : Str
  deriving DecidableEq, Repr, Inhabited

def isFlag (c : Char) : Bool :=
  c = ' ' || c = '[' || c = '+' || c = '#' || c = '0' || c = '{' || c = '<' || c = '(' || c = '|' || c = '-'

def isDelim (c : Char) : Bool := c = '[' || c = '{' || c = '<' || c = '(' || c = '|'

structure Pattern where
  flags : Str
  width : Option Nat
  prec : Option Nat
  letter : Char
  deriving DecidableEq, Repr

/-- `px.FormatPattern.FindStringSubmatch`: `\A%([ \[+#0{<(|-]*)([1-9][0-9]*)?(?:\.([0-9]+))?([a-zA-Z])\z` -/
def matchPattern (s : Str) : Option Pattern :=
  match s with
  | '%' :: rest =>
    let fl := rest.takeWhile isFlag
    let r1 := rest.dropWhile isFlag
    -- the flags group is greedy and takes every '0': a width starts with 1-9
    let wd := r1.takeWhile isDigit
    let r2 := r1.dropWhile isDigit
    let width := if wd.isEmpty then none else some (readNat wd)
    match r2 with
    | '.' :: r3 =>
      let pd := r3.takeWhile isDigit
      let r4 := r3.dropWhile isDigit
      if pd.isEmpty then none
      else match r4 with
        | [c] => if isLetter c then some ⟨fl, width, some (readNat pd), c⟩ else none
        | _ => none
    | [c] => if isLetter c then some ⟨fl, width, none, c⟩ else none
    | _ => none
  | _ => none

/-- `hasDelimOnce`: error = the flag occurs more than once -/
def hasOnce (flags : Str) (c : Char) : Except Code Bool :=
  match flags.count c with
  | 0 => .ok false
  | 1 => .ok true
  | _ => .error .repeatedFlag

def delimiters : List Char := ['[', '{', '(', '<', '|']

/-- the loop over `delimiters` of parseFormat -/
def findDelim (flags : Str) : List Char → Option Char → Except Code (Option Char)
  | [], found => .ok found
  | d :: ds, found => do
    if (← hasOnce flags d) then
      match found with
      | some _ => .error .invalidDelimiter
      | none => findDelim flags ds (some d)
    else findDelim flags ds found

/-- the largest width or precision fmt accepts (`maxFormatNumber`) -/
def maxFormatNumber : Nat := 1000000

def parseFormat (orig : Str) (sep sep2 : Option Str) : Except Code Fmt :=
  match matchPattern orig with
  | none => .error .invalidSpec
  | some p => do
    let hasSpace ← hasOnce p.flags ' '
    let hasPlus ← hasOnce p.flags '+'
    -- "A plus sign overrides a space"
    let plus : Option Char := if hasPlus then some '+' else if hasSpace then some ' ' else none
    let found ← findDelim p.flags delimiters none
    let ldelim := match found with
      | some d => some d
      | none => if hasSpace then some ' ' else none
    if p.width.getD 0 > maxFormatNumber || p.prec.getD 0 > maxFormatNumber then .error .invalidSpec
    else do
      let left ← hasOnce p.flags '-'
      let alt ← hasOnce p.flags '#'
      let zeroPad ← hasOnce p.flags '0'
      pure { alt := alt, left := left, zeroPad := zeroPad, letter := p.letter, plus := plus, prec := p.prec, width := p.width,
             ldelim := ldelim, sep := sep, sep2 := sep2, orig := orig }

/-- `newFormat` -/
def newFormat (orig : Str) : Except Code Fmt := parseFormat orig none none

def basicFmt (c : Char) (sep2 : Option Str) (ld : Option Char) : Fmt :=
  { alt := false, left := false, zeroPad := false, letter := c, plus := none, prec := none, width := none,
    ldelim := ld, sep := some [','], sep2 := sep2, orig := ['%', c] }

/-- `simpleFormat`: no left delimiter — a container formatted by a simple format uses its own default delimiters -/
def simpleFmt (c : Char) : Fmt := basicFmt c none none

def plusStr (f : Fmt) : Str := match f.plus with | some c => [c] | none => []
def delimStr (f : Fmt) : Str := match f.ldelim with | some d => if f.plus = some d then [] else [d] | none => []
def widthStr (f : Fmt) : Str := match f.width with | some w => natStr 10 false w | none => []
def precStr (f : Fmt) : Str := match f.prec with | some p => '.' :: natStr 10 false p | none => []

/-- `unParse`: `%`, `0`, the sign flag, `-`, the delimiter (unless it is the blank that doubles as the sign flag), `#`,
    width, `.precision`, letter -/
def unParse (f : Fmt) : Str :=
  ['%'] ++ (if f.zeroPad then ['0'] else []) ++ plusStr f ++ (if f.left then ['-'] else []) ++ delimStr f ++
  (if f.alt then ['#'] else []) ++ widthStr f ++ precStr f ++ [f.letter]

def replaceFormatChar (f : Fmt) (c : Char) : Fmt :=
  let nf := { f with letter := c }
  { nf with orig := unParse nf }

def withoutWidth (f : Fmt) : Fmt :=
  let nf := { f with width := none, left := false, zeroPad := false, alt := false }
  { nf with orig := unParse nf }

/-- the original format without the container delimiter flags: what is handed to Go's fmt -/
def goFormat (f : Fmt) : Str := f.orig.filter (fun c => !isDelim c)

def hasStringFlags (f : Fmt) : Bool := f.left || f.width.isSome || f.prec.isSome

/-! ### Go's fmt: one directive -/

structure GoSpec where
  sharp : Bool
  zero : Bool
  plus : Bool
  minus : Bool
  space : Bool
  wid : Option Nat
  prec : Option Nat
  verb : Char
  deriving DecidableEq, Repr, Inhabited

def isGoFlag (c : Char) : Bool := c = '#' || c = '0' || c = '+' || c = '-' || c = ' '

/-- fmt's `parsenum` refuses a number as soon as the part read so far exceeds 10^6 -/
def goNum (ds : Str) : Option Nat :=
  if readNat ds.dropLast > 1000000 then none else some (readNat ds)

/-- the optional `.precision` of a directive: `.` without digits is precision 0 -/
def goPrecPart : Str → Option (Option Nat) × Str
  | '.' :: r3 =>
    let pd := r3.takeWhile isDigit
    (if pd.isEmpty then some (some 0) else (goNum pd).map some, r3.dropWhile isDigit)
  | r2 => (some none, r2)

/-- `(*pp).doPrintf` on a format that consists of one directive and nothing else.  `none` = fmt reports
    %!(NOVERB) / %!(BADWIDTH) / %!(BADPREC) or finds extra text -/
def goParse (s : Str) : Option GoSpec :=
  match s with
  | '%' :: rest =>
    let fl := rest.takeWhile isGoFlag
    let r1 := rest.dropWhile isGoFlag
    let wd := r1.takeWhile isDigit
    let r2 := r1.dropWhile isDigit
    let wid : Option (Option Nat) := if wd.isEmpty then some none else (goNum wd).map some
    let pr := goPrecPart r2
    match wid, pr.1, pr.2 with
    | some w, some p, [verb] =>
      some { sharp := fl.contains '#', zero := fl.contains '0', plus := fl.contains '+', minus := fl.contains '-',
             space := fl.contains ' ', wid := w, prec := p, verb := verb }
    | _, _, _ => none
  | _ => none

/-- `(*fmt).pad`: pad to the width, left unless `minus`; zeros only when `zero` is (still) set and not `minus` -/
def goPad (minus zero : Bool) (wid : Option Nat) (s : Str) : Str :=
  match wid with
  | none => s
  | some w =>
    let n := w - s.length
    if minus then s ++ spaces n
    else if zero then zeros n ++ s else spaces n ++ s

/-- the sign fmtInteger writes: '-' for a negative operand, else '+' with the plus flag, else ' ' with the space flag -/
def signStr (neg plus space : Bool) : Str :=
  if neg then ['-'] else if plus then ['+'] else if space then [' '] else []

/-- fmtInteger's `prec`: "two ways to ask for extra leading zero digits: %.3d or %03d"; with `0` the width is the
    precision, minus one when a sign will be written -/
def goPrec (g : GoSpec) (neg : Bool) : Nat :=
  match g.prec with
  | some p => p
  | none =>
    match g.wid with
    | some w => if g.zero && !g.minus then (if neg || g.plus || g.space then w - 1 else w) else 0
    | none => 0

/-- fmtInteger after the digits `ds0` of the magnitude have been produced: zero fill to `prec`, the `#` prefixes
    (`0` for octal unless the first digit is a zero, `0x`/`0X`), the sign, then `pad` with the zero flag cleared -/
def goAbs (g : GoSpec) (base : Nat) (upper : Bool) (neg : Bool) (ds0 : Str) : Str :=
  let ds := zeros (goPrec g neg - ds0.length) ++ ds0
  let ds :=
    if g.sharp then
      if base = 8 then (if ds.head? = some '0' then ds else '0' :: ds)
      else if base = 16 then '0' :: (if upper then 'X' else 'x') :: ds
      else ds
    else ds
  goPad g.minus false g.wid (signStr neg g.plus g.space ++ ds)

/-- `(*fmt).fmtInteger` for a signed 64-bit operand; `base`, `upper` and the `0x` letter come from the verb -/
def goInteger (g : GoSpec) (base : Nat) (upper : Bool) (i : Int) : Str :=
  if g.prec = some 0 ∧ i.natAbs = 0 then
    -- "Precision of 0 and value of 0 means print nothing but padding"
    goPad g.minus false g.wid []
  else goAbs g base upper (decide (i < 0)) (natStr base upper i.natAbs)

/-- `fmt.Fprintf(b, goFormat(f), int64(iv))` for the verbs pcore uses -/
def goFmtInt (spec : Option GoSpec) (i : Int) : Res :=
  match spec with
  | none => .fault .goFmtNoVerb
  | some g =>
    if g.verb = 'd' then .text (goInteger g 10 false i)
    else if g.verb = 'x' then .text (goInteger g 16 false i)
    else if g.verb = 'X' then .text (goInteger g 16 true i)
    else if g.verb = 'o' then .text (goInteger g 8 false i)
    else .fault .goFmtBadVerb

/-- `(*fmt).fmtS`: truncate to `prec` runes, pad to `wid` -/
def goFmtS (minus zero : Bool) (wid prec : Option Nat) (s : Str) : Str :=
  let s := match prec with | some p => s.take p | none => s
  goPad minus zero wid s

/-! ### quoting -/

def hexUpper (n : Nat) : Str := natStr 16 true n

def puppetDoubleQuote (s : Str) : Str :=
  ['"'] ++ s.flatMap (fun c =>
    if c = '\t' then ['\\', 't'] else if c = '\n' then ['\\', 'n'] else if c = '\r' then ['\\', 'r']
    else if c = '"' then ['\\', '"'] else if c = '\\' then ['\\', '\\'] else if c = '$' then ['\\', '$']
    else if c.toNat < 0x20 || c.toNat = 0xFFFD then ['\\', 'u', '{'] ++ hexUpper c.toNat ++ ['}'] else [c]) ++ ['"']

/-- `PuppetQuote`: single-quoted unless a control character or U+FFFD occurs -/
def puppetQuote (s : Str) : Str :=
  if s.any (fun c => c.toNat < 0x20 || c.toNat = 0xFFFD) then puppetDoubleQuote s
  else ['\''] ++ s.flatMap (fun c =>
    if c = '\'' then ['\\', '\''] else if c = '\\' then ['\\', '\\'] else [c]) ++ ['\'']

/-- the loop of `RegexpQuote`: a backslash and the character after it are copied verbatim -/
def regexpQuoteLoop : Str → Bool → Str
  | [], _ => []
  | c :: cs, true => c :: regexpQuoteLoop cs false
  | c :: cs, false =>
    if c = '\\' then '\\' :: regexpQuoteLoop cs true
    else if c = '/' then '\\' :: '/' :: regexpQuoteLoop cs false
    else if c = '\n' then '\\' :: 'n' :: regexpQuoteLoop cs false
    else if c.toNat = 0 then "\\x00".toList ++ regexpQuoteLoop cs false
    else if c.toNat = 0xFFFD then "\\x{FFFD}".toList ++ regexpQuoteLoop cs false
    else c :: regexpQuoteLoop cs false

def regexpQuote (s : Str) : Str := ['/'] ++ regexpQuoteLoop s false ++ ['/']

/-- `ApplyStringFlags` -/
def applyStringFlags (f : Fmt) (s : Str) (quoted : Bool) : Str :=
  let s := if quoted then puppetQuote s else s
  if hasStringFlags f then goFmtS f.left false f.width f.prec s else s

/-! ### case mapping and white space (strings.ToUpper / ToLower / TrimSpace) -/

/-- unicode.ToUpper (strings.ToUpper maps rune by rune): Go's simple case mapping over the regenerated table -/
def goUpper (c : Char) : Char := Pcore.UnicodeCase.toUpper Pcore.Generated.caseRanges c

/-- unicode.ToLower -/
def goLower (c : Char) : Char := Pcore.UnicodeCase.toLower Pcore.Generated.caseRanges c

/-- unicode.IsSpace -/
def isSpace (c : Char) : Bool :=
  let n := c.toNat
  (9 ≤ n && n ≤ 13) || n = 0x20 || n = 0x85 || n = 0xA0 || n = 0x1680 || (0x2000 ≤ n && n ≤ 0x200A) ||
  n = 0x2028 || n = 0x2029 || n = 0x202F || n = 0x205F || n = 0x3000

def trimSpace (s : Str) : Str := ((s.dropWhile isSpace).reverse.dropWhile isSpace).reverse

def capitalizeSegment : Str → Str
  | [] => []
  | c :: cs => goUpper c :: cs.map goLower

/-- `ColonSplit.Split(s, -1)`: leftmost non-overlapping `::`; the accumulator holds the current segment reversed -/
def splitColons : Str → Str → List Str
  | [], acc => [acc.reverse]
  | ':' :: ':' :: rest, acc => acc.reverse :: splitColons rest []
  | c :: rest, acc => splitColons rest (c :: acc)

def capitalizeSegments (s : Str) : Str :=
  [':', ':'].intercalate ((splitColons s []).map capitalizeSegment)

/-! ### floats: parameters -/

structure FloatIO where
  /-- fmt.Sprintf(format, float64) for one float directive: the digits -/
  sprintf : Str → Nat → Str
  /-- float64(int64): IEEE bits of the nearest double -/
  ofInt : Int → Nat
  /-- int64(float64) (truncation; the platform's answer out of range) -/
  toInt : Nat → Int

/-- `padNumber` -/
def padNumber (f : Fmt) (s : Str) : Str :=
  match f.width with
  | none => s
  | some w =>
    let pad := w - s.length
    if pad = 0 then s
    else if f.left then s ++ spaces pad
    else if f.zeroPad then
      match s with
      | c :: cs => if c = '+' || c = '-' || c = ' ' then c :: (zeros pad ++ cs) else zeros pad ++ s
      | [] => zeros pad
    else spaces pad ++ s

/-- the float verbs of fmt that pcore uses -/
def isGoFloatVerb (c : Char) : Bool := c = 'e' || c = 'E' || c = 'f' || c = 'g' || c = 'G'

/-- `fmt.Sprintf(format, float64)`: the format must be one float directive, otherwise fmt answers with a `%!` marker
    (modelled as a fault) -/
def sprintfF (io : FloatIO) (fm : Str) (bits : Nat) : Except FaultKind Str :=
  match goParse fm with
  | none => .error .goFmtNoVerb
  | some g => if isGoFloatVerb g.verb then .ok (io.sprintf fm bits) else .error .goFmtBadVerb

/-- floatGFormat's precision: the given one, else 6 unless `#` -/
def gPrc (f : Fmt) : Int :=
  match f.prec with
  | some p => p
  | none => if f.alt then -1 else 6

/-- `totLen`: the characters `%g` printed, not counting a sign -/
def gDigits (str : Str) : Int :=
  match str with
  | c :: cs => if c = '+' || c = '-' || c = ' ' then cs.length else str.length
  | [] => 0

/-- how many zeros are `missing` after the digits `%g` printed -/
def gMissing (f : Fmt) (str : Str) : Int :=
  if gPrc f ≥ 0 then (if str.contains '.' then gPrc f - (gDigits str - 1) else gPrc f - gDigits str) else 0

/-- "Impossible to add a fraction part. Force scientific notation" -/
def gForced (f : Fmt) (str : Str) : Bool := decide (gPrc f ≥ 0) && !str.contains '.' && decide (gMissing f str = 0)

/-- the digits with the decimal point and the trailing zeros restored -/
def gRestored (f : Fmt) (str : Str) : Str :=
  str ++ (if str.contains '.' then [] else '.' :: (if gMissing f str = 0 then ['0'] else [])) ++ zeros (gMissing f str).toNat

/-- the part of `floatGFormat` after the first Sprintf: scientific notation is only padded; otherwise the fraction is
    restored, or scientific notation is forced with a second Sprintf -/
def floatGRest (io : FloatIO) (f : Fmt) (bits : Nat) (str : Str) : Except FaultKind Str :=
  let sc : Char := if f.letter = 'G' then 'E' else 'e'
  if str.contains sc then .ok (padNumber f str)
  else if gForced f str then sprintfF io (goFormat (replaceFormatChar f sc)) bits
  else .ok (padNumber f (gRestored f str))

/-- `floatGFormat` given the digit strings -/
def floatGFormat (io : FloatIO) (f : Fmt) (bits : Nat) : Except FaultKind Str :=
  match sprintfF io (goFormat (withoutWidth f)) bits with
  | .ok str => floatGRest io f bits str
  | .error k => .error k

def exceptRes (r : Except FaultKind Str) (k : Str → Str) : Res :=
  match r with
  | .ok s => .text (k s)
  | .error e => .fault e

def defaultFormatP : Fmt :=
  { alt := false, left := false, zeroPad := false, letter := 'g', plus := none, prec := none, width := none,
    ldelim := none, sep := none, sep2 := none, orig := ['%', 'g'] }
def defaultFormatS : Fmt := { defaultFormatP with alt := true, orig := ['%', '#', 'g'] }

/-! ### the scalar kinds -/

/-- hand-written `p b B` branch: the sign that is written in front of the radix prefix (binary only; the decimal
    program form keeps its sign with the digits): `-`, else the `+` / blank of the sign flag -/
def pbbSign (f : Fmt) (i : Int) : Str :=
  if f.letter = 'p' then []
  else if i < 0 then ['-']
  else match f.plus with
    | some c => [c]
    | none => []

/-- … `intString`: strconv.FormatInt without the separated sign; `%.Np` cuts the text to N characters -/
def pbbDigits (f : Fmt) (i : Int) : Str :=
  let radix := if f.letter = 'b' || f.letter = 'B' then 2 else 10
  let intString : Str := (if decide (i < 0) && f.letter = 'p' then ['-'] else []) ++ natStr radix false i.natAbs
  let numWidth := f.prec.getD 0
  if numWidth > 0 && numWidth < intString.length && f.letter = 'p' then intString.take numWidth else intString

/-- … `pfx`: `integerPrefixRadix` with `#` for a value other than 0 -/
def pbbPrefix (f : Fmt) (i : Int) : Str :=
  if f.alt && i ≠ 0 then (if f.letter = 'b' then ['0', 'b'] else if f.letter = 'B' then ['0', 'B'] else []) else []

/-- … `zeroPad`: to the precision; with the `0` flag (no `-`, no precision, not `p`) to the width -/
def pbbZeroPad (f : Fmt) (i : Int) : Nat :=
  if f.zeroPad && !f.left && f.prec.isNone && f.letter ≠ 'p' then
    f.width.getD 0 - (pbbSign f i).length - (pbbPrefix f i).length - (pbbDigits f i).length
  else f.prec.getD 0 - (pbbDigits f i).length

/-- the hand-written `p b B` branch of `integerValue.ToString`: blanks to the width (on the right with `-`), sign,
    prefix, zeros (blanks for `p`), digits -/
def intPbB (f : Fmt) (i : Int) : Str :=
  let sign := pbbSign f i
  let ds := pbbDigits f i
  let pfx := pbbPrefix f i
  let zeroPad := pbbZeroPad f i
  let spacePad := f.width.getD 0 - (sign.length + pfx.length + ds.length + zeroPad)
  (if f.left then [] else spaces spacePad) ++ sign ++ pfx ++
  (if f.letter = 'p' then spaces zeroPad else zeros zeroPad) ++ ds ++ (if f.left then spaces spacePad else [])

/-- `rune(int64(iv))` written with WriteRune: the low 32 bits as a signed value; anything that is not a Unicode
    scalar value is written as U+FFFD -/
def runeStr (i : Int) : Str :=
  let r := (i % 4294967296).toNat
  if r < 0xD800 ∨ (0xE000 ≤ r ∧ r ≤ 0x10FFFF) then [Char.ofNat r] else [Char.ofNat 0xFFFD]

def isIntLetter (c : Char) : Bool := c = 'd' || c = 'x' || c = 'X' || c = 'o'
def isPbB (c : Char) : Bool := c = 'p' || c = 'b' || c = 'B'
def isRadixLetter (c : Char) : Bool := c = 'd' || c = 'x' || c = 'X' || c = 'o' || c = 'b' || c = 'B'
def isFloatLetter (c : Char) : Bool := c = 'e' || c = 'E' || c = 'f' || c = 'g' || c = 'G'

/-- `integerValue.ToString` for the letters that do not go to the float path -/
def fmtIntCore (f : Fmt) (i : Int) : Res :=
  if isIntLetter f.letter then goFmtInt (goParse (goFormat f)) i
  else if isPbB f.letter then .text (intPbB f i)
  else if f.letter = 'c' then .text (applyStringFlags f (runeStr i) f.alt)
  else if f.letter = 's' then .text (applyStringFlags f (decimal i) f.alt)
  else .reported .unsupported

/-- `floatValue.ToString` -/
def fmtFloat (io : FloatIO) (f : Fmt) (bits : Nat) : Res :=
  if isRadixLetter f.letter then fmtIntCore f (io.toInt bits)
  else if f.letter = 'p' then exceptRes (floatGFormat io defaultFormatP bits) (fun s => applyStringFlags f s false)
  else if f.letter = 'e' || f.letter = 'E' || f.letter = 'f' then exceptRes (sprintfF io (goFormat f) bits) id
  else if f.letter = 'g' || f.letter = 'G' then exceptRes (floatGFormat io f bits) id
  else if f.letter = 's' then exceptRes (floatGFormat io defaultFormatS bits) (fun s => applyStringFlags f s f.alt)
  else .reported .unsupported

/-- `integerValue.ToString` -/
def fmtInt (io : FloatIO) (f : Fmt) (i : Int) : Res :=
  if isFloatLetter f.letter then fmtFloat io f (io.ofInt i) else fmtIntCore f i

def boolStr (b alt : Bool) (yes no : Str) : Str :=
  let s := if b then yes else no
  if alt then s.take 1 else s

/-- `booleanValue.ToString` -/
def fmtBool (io : FloatIO) (f : Fmt) (b : Bool) : Res :=
  if f.letter = 't' then .text (applyStringFlags f (boolStr b f.alt "true".toList "false".toList) false)
  else if f.letter = 'T' then .text (applyStringFlags f (boolStr b f.alt "True".toList "False".toList) false)
  else if f.letter = 'y' then .text (applyStringFlags f (boolStr b f.alt "yes".toList "no".toList) false)
  else if f.letter = 'Y' then .text (applyStringFlags f (boolStr b f.alt "Yes".toList "No".toList) false)
  else if isRadixLetter f.letter then fmtIntCore f (if b then 1 else 0)
  else if isFloatLetter f.letter then fmtFloat io f (io.ofInt (if b then 1 else 0))
  else if f.letter = 's' || f.letter = 'p' then .text (applyStringFlags f (boolStr b false "true".toList "false".toList) false)
  else .reported .unsupported

/-- `stringValue.ToString` -/
def fmtStr (f : Fmt) (s : Str) : Res :=
  if f.letter = 's' then .text (applyStringFlags f s false)
  else if f.letter = 'p' then .text (applyStringFlags f s true)
  else if f.letter = 'c' then .text (applyStringFlags f (capitalizeSegment s) f.alt)
  else if f.letter = 'C' then .text (applyStringFlags f (capitalizeSegments s) f.alt)
  else if f.letter = 'u' then .text (applyStringFlags f (s.map goUpper) f.alt)
  else if f.letter = 'd' then .text (applyStringFlags f (s.map goLower) f.alt)
  else if f.letter = 't' then .text (applyStringFlags f (trimSpace s) f.alt)
  else .reported .unsupported

def fmtDefault (f : Fmt) : Res :=
  if f.letter = 'd' || f.letter = 's' || f.letter = 'p' then .text (applyStringFlags f "default".toList false)
  else if f.letter = 'D' then .text (applyStringFlags f "Default".toList false)
  else .reported .unsupported

def fmtUndef (f : Fmt) : Res := .text (applyStringFlags f "undef".toList false)

def fmtRegexp (f : Fmt) (src : Str) : Res := .text (applyStringFlags f (regexpQuote src) false)

/-! base64 (encoding/base64 StdEncoding / URLEncoding, with padding) -/

def b64Char (url : Bool) (n : Nat) : Char :=
  if n < 26 then Char.ofNat ('A'.toNat + n)
  else if n < 52 then Char.ofNat ('a'.toNat + (n - 26))
  else if n < 62 then Char.ofNat ('0'.toNat + (n - 52))
  else if n = 62 then (if url then '-' else '+') else (if url then '_' else '/')

def base64 (url : Bool) : List Nat → Str
  | [] => []
  | [a] => [b64Char url (a / 4), b64Char url (a % 4 * 16), '=', '=']
  | [a, b] => [b64Char url (a / 4), b64Char url (a % 4 * 16 + b / 16), b64Char url (b % 16 * 4), '=']
  | a :: b :: c :: rest =>
    b64Char url (a / 4) :: b64Char url (a % 4 * 16 + b / 16) :: b64Char url (b % 16 * 4 + c / 64) :: b64Char url (c % 64) ::
      base64 url rest

/-- `Binary.ToString`; `utf8` is the decoding of the bytes when they are valid UTF-8 -/
def fmtBinary (f : Fmt) (bs : List Nat) (utf8 : Option Str) : Res :=
  let k (s : Str) : Res := .text (applyStringFlags f s f.alt)
  if f.letter = 's' then (match utf8 with | some s => k s | none => .reported .failure)
  else if f.letter = 'p' then k ("Binary('".toList ++ base64 false bs ++ "')".toList)
  else if f.letter = 'b' then k (base64 false bs ++ ['\n'])
  else if f.letter = 'B' then k (base64 false bs)
  else if f.letter = 'u' then k (base64 true bs)
  else if f.letter = 't' then k "Binary".toList
  else if f.letter = 'T' then k "BINARY".toList
  else .reported .unsupported

/-! ### values, format maps -/

mutual
inductive Val where
  | undef | dflt | bool (b : Bool) | int (i : Int) | float (bits : Nat)
  | str (s : Str) | regexp (src : Str) | binary (bs : List Nat) (utf8 : Option Str)
  | array (vs : List Val) | hash (es : List Entry)
inductive Entry where
  | mk (k v : Val)
end

inductive Kind where
  | int | float | str | bool | undef | dflt | bin | regexp | arr | hash
  deriving DecidableEq, Repr

/-- one row of the regenerated format-letter table (extract/formatletters.go): the `switch f.FormatChar()` of a kind -/
structure LetterRow where
  kind : Kind
  noSwitch : Bool            -- the ToString method has no switch on the letter (Undef, Regexp)
  handled : List Char        -- letters of the arms that format
  toFloat : List Char        -- … of which: handed over to floatValue.ToString
  toInt : List Char          -- … of which: handed over to integerValue.ToString
  documented : List Char     -- the literal passed to UnsupportedFormat
  unknown : List String      -- anything the extractor did not recognise
  deriving Repr

def Val.kind : Val → Kind
  | .undef => .undef | .dflt => .dflt | .bool _ => .bool | .int _ => .int | .float _ => .float
  | .str _ => .str | .regexp _ => .regexp | .binary _ _ => .bin | .array _ => .arr | .hash _ => .hash

def Val.isContainer : Val → Bool
  | .array _ | .hash _ => true
  | _ => false

/-- the parameterless types used as keys of a format map -/
inductive Key where
  | any | scalar | numeric | int | float | str | bool | bin | arr | hash | coll | undef | dflt | regexp
  | obj | typ                    -- the default Object and Type types: keys of DefaultFormats; no modelled value has these kinds
  deriving DecidableEq, Repr

/-- `px.IsAssignable(key, v.PType())` for parameterless key types -/
def Key.accepts : Key → Kind → Bool
  | .any, _ => true
  | .scalar, k => k = .int || k = .float || k = .str || k = .bool || k = .regexp
  | .numeric, k => k = .int || k = .float
  | .int, k => k = .int | .float, k => k = .float | .str, k => k = .str | .bool, k => k = .bool
  | .bin, k => k = .bin | .arr, k => k = .arr | .hash, k => k = .hash
  | .coll, k => k = .arr || k = .hash
  | .undef, k => k = .undef | .dflt, k => k = .dflt | .regexp, k => k = .regexp
  | .obj, _ => false | .typ, _ => false

/-- a Format with its container formats (`none` = nil: DefaultContainerFormats are used) -/
inductive FTree where
  | mk (f : Fmt) (cf : Option (List (Key × FTree)))

abbrev FMap := List (Key × FTree)

def FTree.f : FTree → Fmt | .mk f _ => f
def FTree.cf : FTree → Option FMap | .mk _ cf => cf

def defaultTree : FTree := .mk (simpleFmt 's') none

def defaultCF : FMap := [
  (.float, .mk (simpleFmt 'p') none), (.numeric, .mk (simpleFmt 'p') none),
  (.arr, .mk (basicFmt 'p' (some [',']) (some '[')) none), (.hash, .mk (basicFmt 'p' (some " => ".toList) (some '{')) none),
  (.bin, .mk (simpleFmt 'p') none), (.any, .mk (simpleFmt 'p') none)]

/-- `px.GetFormat` -/
def getFormat (m : FMap) (k : Kind) : FTree :=
  match m.find? (fun e => e.1.accepts k) with
  | some e => e.2
  | none => defaultTree

def cfOf (t : FTree) : FMap := t.cf.getD defaultCF

/-! ### per-type format maps given by the user: `newFormatContext3` → `mergeFormats(DefaultFormats, NewFormatMap(h))`
    (types/format.go).  The key types are the parameterless types of `Key`. -/

/-- `px.IsAssignable(a, b)` on the key types (tied to the lattice model by `Key.sub_eq_asg`, Proofs/FormatMerge.lean, and
    to the implementation by the driver op `keysub` on all pairs) -/
def Key.sub : Key → Key → Bool
  | .any, _ => true
  | .scalar, b => b = .scalar || b = .numeric || b = .int || b = .float || b = .str || b = .bool || b = .regexp
  | .numeric, b => b = .numeric || b = .int || b = .float
  | .coll, b => b = .coll || b = .arr || b = .hash
  | a, b => a = b

/-- `typeRank` -/
def Key.rank : Key → Nat
  | .numeric | .int | .float => 13
  | .str => 12
  | .arr => 4
  | .hash => 2
  | _ => 0

/-- `Type.String()` of the key types -/
def Key.name : Key → String
  | .any => "Any" | .scalar => "Scalar" | .numeric => "Numeric" | .int => "Integer" | .float => "Float" | .str => "String"
  | .bool => "Boolean" | .bin => "Binary" | .arr => "Array" | .hash => "Hash" | .coll => "Collection" | .undef => "Undef"
  | .dflt => "Default" | .regexp => "Regexp" | .obj => "Object" | .typ => "Type"

/-- how many of the keys accept `k` (`mergeFormats`, after fix 77ca16d: the primary sort key) -/
def acceptors (keys : List Key) (k : Key) : Nat := (keys.filter (fun o => Key.sub o k)).length

/-- the order of the merged map: more acceptors first (a key comes before every key that accepts it), then the lower
    rank, then the name — a lexicographic comparison of three totally ordered components, total on distinct keys, so
    EVERY sorting algorithm answers the same list (`sort.SliceStable` in Go, insertion sort here) -/
def entryLess (keys : List Key) (a b : Key) : Bool :=
  let na := acceptors keys a
  let nb := acceptors keys b
  if na != nb then decide (na > nb)
  else if a.rank != b.rank then decide (a.rank < b.rank)
  else decide (a.name < b.name)

/-- insert into a list sorted by `less` (stable: after the elements that are not greater) -/
def insSorted {α} (less : α → α → Bool) (x : α) : List α → List α
  | [] => [x]
  | y :: ys => if less x y then x :: y :: ys else y :: insSorted less x ys

def insertionSort {α} (less : α → α → Bool) (xs : List α) : List α :=
  xs.foldr (fun x acc => insSorted less x acc) []

def lookupKey (m : List (Key × FTree)) (k : Key) : Option FTree := (m.find? (fun e => e.1 = k)).map (·.2)

/-- `List.Unique()` on keys: the first occurrence stays, the order is kept -/
def dedupKeys : List Key → List Key
  | [] => []
  | k :: ks => k :: (dedupKeys ks).filter (fun o => o != k)

/-- the exact key type of a kind -/
def Kind.key : Kind → Key
  | .int => .int | .float => .float | .str => .str | .bool => .bool | .undef => .undef | .dflt => .dflt
  | .bin => .bin | .regexp => .regexp | .arr => .arr | .hash => .hash

/-- the default (lower) entries that stay: an entry is dropped when a DIFFERENT user key accepts its key -/
def normLowerOf (lo hi : List (Key × FTree)) : List (Key × FTree) :=
  lo.filter (fun e => !((hi.map (·.1)).any (fun h => h != e.1 && Key.sub h e.1)))

/-- the keys of the merged map in the order `mergeFormats` meets them: the remaining defaults, then the user's new keys -/
def mergedKeys (lo hi : List (Key × FTree)) : List Key :=
  dedupKeys ((normLowerOf lo hi).map (·.1) ++ hi.map (·.1))

/-- one entry per key: both sides → merged by `mt`, one side → that side's entry -/
def mergedEntries (mt : FTree → FTree → FTree) (lo hi : List (Key × FTree)) : List (Key × FTree) :=
  (mergedKeys lo hi).filterMap (fun k =>
    match lookupKey (normLowerOf lo hi) k, lookupKey hi k with
    | some l, some h => some (k, mt l h)
    | some l, none => some (k, l)
    | none, some h => some (k, h)
    | none, none => none)

/-- the final order of the merged map -/
def sortEntries (m : List (Key × FTree)) : List (Key × FTree) :=
  insertionSort (fun a b => entryLess (m.map (·.1)) a.1 b.1) m

mutual
/-- `merge(low, high)`: everything from `high`, the separators from `low` where `high` has none, the container formats merged -/
def mergeTree : Nat → FTree → FTree → FTree
  | 0, _, high => high
  | fuel + 1, low, high =>
    let sep := match high.f.sep with | some s => some s | none => low.f.sep
    let sep2 := match high.f.sep2 with | some s => some s | none => low.f.sep2
    .mk { high.f with sep := sep, sep2 := sep2 } (mergeMaps fuel low.cf high.cf)
/-- `mergeFormats(lower, higher)`; `none` = nil -/
def mergeMaps : Nat → Option (List (Key × FTree)) → Option (List (Key × FTree)) → Option (List (Key × FTree))
  | 0, _, higher => higher
  | fuel + 1, lower, higher =>
    match lower, higher with
    | none, h => h
    | some [], h => h
    | l, none => l
    | l, some [] => l
    | some lo, some hi => some (sortEntries (mergedEntries (mergeTree fuel) lo hi))
end

/-- `DefaultContainerFormats`, whose container entries hold `DefaultContainerFormats` again (a cycle in Go): unrolled
    `n` levels; at level 0 the entries hold nil, which RENDERS the same (`cfOf`) but merges differently — the driver
    refuses user maps nested deeper than the unrolling -/
def dcf : Nat → List (Key × FTree)
  | 0 =>
    [(.obj, .mk (basicFmt 'p' (some " => ".toList) (some '(')) none), (.typ, .mk (basicFmt 'p' (some " => ".toList) (some '(')) none),
     (.float, .mk (simpleFmt 'p') none), (.numeric, .mk (simpleFmt 'p') none),
     (.arr, .mk (basicFmt 'p' (some [',']) (some '[')) none), (.hash, .mk (basicFmt 'p' (some " => ".toList) (some '{')) none),
     (.bin, .mk (simpleFmt 'p') none), (.any, .mk (simpleFmt 'p') none)]
  | n + 1 =>
    [(.obj, .mk (basicFmt 'p' (some " => ".toList) (some '(')) (some (dcf n))), (.typ, .mk (basicFmt 'p' (some " => ".toList) (some '(')) (some (dcf n))),
     (.float, .mk (simpleFmt 'p') none), (.numeric, .mk (simpleFmt 'p') none),
     (.arr, .mk (basicFmt 'p' (some [',']) (some '[')) (some (dcf n))), (.hash, .mk (basicFmt 'p' (some " => ".toList) (some '{')) (some (dcf n))),
     (.bin, .mk (simpleFmt 'p') none), (.any, .mk (simpleFmt 'p') none)]

/-- `DefaultFormats` -/
def defaultFormats (n : Nat) : List (Key × FTree) :=
  [(.obj, .mk (basicFmt 'p' (some " => ".toList) (some '(')) (some (dcf n))), (.typ, .mk (basicFmt 'p' (some " => ".toList) (some '(')) (some (dcf n))),
   (.float, .mk (simpleFmt 'f') none), (.numeric, .mk (simpleFmt 'd') none),
   (.arr, .mk (basicFmt 'a' (some [',']) (some '[')) (some (dcf n))), (.hash, .mk (basicFmt 'h' (some " => ".toList) (some '{')) (some (dcf n))),
   (.bin, .mk (simpleFmt 'B') none), (.any, .mk (simpleFmt 's') none)]

/-- how deep the user's `string_formats` nest (a map without nested maps: 1) -/
def mapDepth : Nat → List (Key × FTree) → Nat
  | 0, _ => 0
  | fuel + 1, m => 1 + (m.map (fun e => match e.2.cf with | some m' => mapDepth fuel m' | none => 0)).foldl max 0

/-- the widest map anywhere in the user's tree -/
def mapWidth : Nat → List (Key × FTree) → Nat
  | 0, _ => 0
  | fuel + 1, m => (m.map (fun e => match e.2.cf with | some m' => mapWidth fuel m' | none => 0)).foldl max m.length

/-- the keys of every map of the user's tree are pairwise different (a Hash never holds a key twice) -/
def mapKeysDistinct : Nat → List (Key × FTree) → Bool
  | 0, _ => true
  | fuel + 1, m =>
    ((m.map (·.1)).eraseDups.length == m.length) &&
    m.all (fun e => match e.2.cf with | some m' => mapKeysDistinct fuel m' | none => true)

/-- the unrolling depth of the default tables and the fuel of the merge -/
def mergeDepth : Nat := 4

/-- `newFormatContext3(value, hash)`: the format map of the context -/
def contextMap (user : List (Key × FTree)) : List (Key × FTree) :=
  (mergeMaps (2 * mergeDepth + 2) (some (defaultFormats mergeDepth)) (some user)).getD []

/-! ### indentation -/

structure Ind where
  first : Bool
  indenting : Bool
  level : Nat
  deriving DecidableEq, Repr

def Ind.default : Ind := ⟨true, false, 0⟩
def Ind.breaks (i : Ind) : Bool := i.indenting && decide (i.level > 0) && !i.first
def Ind.increase (i : Ind) (indenting : Bool) : Ind := ⟨true, indenting, i.level + 1⟩
def Ind.withIndenting (i : Ind) (b : Bool) : Ind := { i with indenting := b }
def Ind.subsequent (i : Ind) : Ind := { i with first := false }
def Ind.padding (i : Ind) : Str := spaces (2 * i.level)

/-! ### containers -/

def delimPair (ld : Option Char) (dflt : Char) : Str × Str :=
  let d := ld.getD dflt
  if d = '[' then (['['], [']']) else if d = '{' then (['{'], ['}']) else if d = '(' then (['('], [')'])
  else if d = '<' then (['<'], ['>']) else if d = '|' then (['|'], ['|']) else ([], [])

def utf8Len (s : Str) : Nat := (s.map Char.utf8Size).sum

/-- the `szBreak` loop of Array.ToString2 -/
def szBreakLoop (w : Nat) : List (Str × Bool) → Nat → Bool
  | [], _ => false
  | (s, ah) :: rest, widest =>
    if ah then szBreakLoop w rest 0
    else let widest := widest + utf8Len s; if widest > w then true else szBreakLoop w rest widest

/-- the element loop of Array.ToString2 after the first element: `prev` = the previous element is a container -/
def arrayRest (f : Fmt) (sep pad : Str) (szBreak : Bool) : List (Str × Bool) → Bool → Str
  | [], _ => []
  | (s, ah) :: rest, prev =>
    sep ++ (if !ah && (szBreak || (f.alt && prev)) then '\n' :: pad else if !(f.alt && ah) then [' '] else []) ++ s ++
      arrayRest f sep pad szBreak rest ah

/-- `szBreak`: in alt mode with a width, the elements are broken one per line when a run of non-container elements
    is wider (in bytes) than the width -/
def szBreakOf (f : Fmt) (parts : List (Str × Bool)) : Bool :=
  f.alt && (match f.width with | some w => szBreakLoop w parts 0 | none => false)

/-- everything Array.ToString2 writes, given the rendered elements (text, isContainer) -/
def arrayAssemble (f : Fmt) (ind0 : Ind) (parts : List (Str × Bool)) : Str :=
  let ind := ind0.withIndenting (f.alt || ind0.indenting)
  let (l, r) := delimPair f.ldelim '['
  let childrenIndent := ind.increase f.alt
  let szBreak := szBreakOf f parts
  let sep := f.sep.getD [',']
  (if ind.breaks then '\n' :: ind.padding else []) ++ l ++
  (match parts with
   | [] => []
   | (s, ah) :: rest => (if szBreak && !ah then [' '] else []) ++ s ++ arrayRest f sep childrenIndent.padding szBreak rest ah) ++ r

def arrayChildInd (f : Fmt) (ind0 : Ind) : Ind :=
  ((ind0.withIndenting (f.alt || ind0.indenting)).increase f.alt).subsequent

def hashChildInd (f : Fmt) (ind0 : Ind) : Ind :=
  (ind0.withIndenting (f.alt || ind0.indenting)).increase f.alt

def hashEntries (assoc sep pad : Str) : List (Str × Str) → Str
  | [] => []
  | [(k, v)] => pad ++ k ++ assoc ++ v
  | (k, v) :: rest => pad ++ k ++ assoc ++ v ++ sep ++ hashEntries assoc sep pad rest

/-- everything Hash.ToString2 writes for the letters h s p, given the rendered keys and values -/
def hashAssemble (f : Fmt) (ind0 : Ind) (parts : List (Str × Str)) : Str :=
  let ind := ind0.withIndenting (f.alt || ind0.indenting)
  let (l, r) := delimPair f.ldelim '{'
  let sep := f.sep.getD [','] ++ (if f.alt then ['\n'] else [' '])
  let assoc := f.sep2.getD " => ".toList
  let pad := if f.alt then (ind.increase f.alt).padding else []
  (if ind.breaks then '\n' :: ind.padding else []) ++ l ++ (if f.alt then ['\n'] else []) ++
  hashEntries assoc sep pad parts ++ (if f.alt then '\n' :: ind.padding else []) ++ r

def isArrayLetter (c : Char) : Bool := c = 'a' || c = 's' || c = 'p'
def isHashLetter (c : Char) : Bool := c = 'h' || c = 's' || c = 'p'

/-- results of a list of children: the first error wins -/
inductive ResL (α : Type) where
  | ok (xs : List α)
  | err (r : Res)

def ResL.cons {α} (r : Res) (mk : Str → α) (rest : Unit → ResL α) : ResL α :=
  match r with
  | .text s => (match rest () with | .ok xs => .ok (mk s :: xs) | .err e => .err e)
  | e => .err e

mutual
/-- `v.ToString(b, ctx, g)` with ctx = (format map `m`, indentation `ind`) -/
def fmtVal (io : FloatIO) (m : FMap) (ind : Ind) : Val → Res
  | .undef => fmtUndef (getFormat m .undef).f
  | .dflt => fmtDefault (getFormat m .dflt).f
  | .bool b => fmtBool io (getFormat m .bool).f b
  | .int i => fmtInt io (getFormat m .int).f i
  | .float bits => fmtFloat io (getFormat m .float).f bits
  | .str s => fmtStr (getFormat m .str).f s
  | .regexp src => fmtRegexp (getFormat m .regexp).f src
  | .binary bs u => fmtBinary (getFormat m .bin).f bs u
  | .array vs =>
    let t := getFormat m .arr
    if !isArrayLetter t.f.letter then .reported .unsupported
    else match fmtElems io m (cfOf t) (arrayChildInd t.f ind) vs with
      | .ok parts => .text (arrayAssemble t.f ind parts)
      | .err e => e
  | .hash es =>
    let t := getFormat m .hash
    if t.f.letter = 'a' then
      -- WrapArray3(hv).ToString(b, s, g): an array of entries under the same map
      let ta := getFormat m .arr
      if !isArrayLetter ta.f.letter then .reported .unsupported
      else match fmtEntryArrs io (cfOf ta) (arrayChildInd ta.f ind) es with
        | .ok parts => .text (arrayAssemble ta.f ind parts)
        | .err e => e
    else if !isHashLetter t.f.letter then .reported .unsupported
    else match fmtPairs io m (cfOf t) (hashChildInd t.f ind) es with
      | .ok parts => .text (hashAssemble t.f ind parts)
      | .err e => e

/-- `childToString` for each element: a container child keeps the parent's map, any other child gets `cf` -/
def fmtElems (io : FloatIO) (m cf : FMap) (ci : Ind) : List Val → ResL (Str × Bool)
  | [] => .ok []
  | v :: vs =>
    ResL.cons (fmtVal io (if v.isContainer then m else cf) ci v) (fun s => (s, v.isContainer)) (fun _ => fmtElems io m cf ci vs)

def fmtPairs (io : FloatIO) (m cf : FMap) (ci : Ind) : List Entry → ResL (Str × Str)
  | [] => .ok []
  | .mk k v :: es =>
    match fmtVal io (if k.isContainer then m else cf) ci k with
    | .text sk =>
      ResL.cons (fmtVal io (if v.isContainer then m else cf) ci v) (fun sv => (sk, sv)) (fun _ => fmtPairs io m cf ci es)
    | e => .err e

/-- the entries of a hash formatted with `a`: each HashEntry is the array [k, v] under the map `m` -/
def fmtEntryArrs (io : FloatIO) (m : FMap) (ind : Ind) : List Entry → ResL (Str × Bool)
  | [] => .ok []
  | .mk k v :: es =>
    let t := getFormat m .arr
    let r : Res :=
      if !isArrayLetter t.f.letter then .reported .unsupported
      else
        let ci := arrayChildInd t.f ind
        match fmtVal io (if k.isContainer then m else cfOf t) ci k with
        | .text sk =>
          (match fmtVal io (if v.isContainer then m else cfOf t) ci v with
           | .text sv => .text (arrayAssemble t.f ind [(sk, k.isContainer), (sv, v.isContainer)])
           | e => e)
        | e => e
    ResL.cons r (fun s => (s, false)) (fun _ => fmtEntryArrs io m ind es)
end

/-- `px.ToString2(v, px.NewFormatContext2(DefaultIndentation, m, nil))` -/
def format (io : FloatIO) (m : FMap) (v : Val) : Res := fmtVal io m Ind.default v

/-- `px.ToString2(v, px.NewFormatContext(<type accepting v>, NewFormat(directive), DefaultIndentation))` -/
def formatDirective (io : FloatIO) (directive : Str) (v : Val) : Res :=
  match newFormat directive with
  | .error c => .reported c
  | .ok f => format io [(.any, .mk f none)] v

/-! ### `new(Integer, text, radix)` — types/integertype.go: the `Convertible` pattern of the constructor's signature and
    `intFromConvertible` (strconv.ParseInt with the given radix) -/

def isReSpace (c : Char) : Bool := c = ' ' || c = '\t' || c = '\n' || c = '\x0c' || c = '\r'
def isHexDigit (c : Char) : Bool := isDigit c || ('a' ≤ c && c ≤ 'f') || ('A' ≤ c && c ≤ 'F')
def isOctDigit (c : Char) : Bool := '0' ≤ c && c ≤ '7'
def isBinDigit (c : Char) : Bool := c = '0' || c = '1'

/-- a text without its leading `+` or `-` -/
def dropSign : Str → Str
  | '+' :: r => r
  | '-' :: r => r
  | s => s

/-- the leading `+` or `-` of a text -/
def signOf : Str → Str
  | '+' :: _ => ['+']
  | '-' :: _ => ['-']
  | _ => []

/-- the radix prefix `integerFromString` takes off: `0x`/`0X` for radix 16, `0b`/`0B` for radix 2, digits must follow -/
def dropRadixPrefix (radix : Nat) : Str → Str
  | '0' :: c :: r =>
    if !r.isEmpty && ((radix = 16 && (c = 'x' || c = 'X')) || (radix = 2 && (c = 'b' || c = 'B'))) then r else '0' :: c :: r
  | s => s

/-- the alternatives of `IntegerPattern` after sign and white space: `\\d+ | 0[xX][0-9A-Fa-f]+ | 0[bB][01]+` -/
def matchIntegerBody : Str → Bool
  | [] => false
  | '0' :: c :: r =>
    if c = 'x' || c = 'X' then !r.isEmpty && r.all isHexDigit
    else if c = 'b' || c = 'B' then !r.isEmpty && r.all isBinDigit
    else isDigit c && r.all isDigit
  | ds => ds.all isDigit

/-- `IntegerPattern`: `\\A[+-]?\\s*(?:\\d+|0[xX][0-9A-Fa-f]+|0[bB][01]+)\\z` -/
def matchIntegerPattern (s : Str) : Bool := matchIntegerBody ((dropSign s).dropWhile isReSpace)

/-- value of a digit for strconv.ParseUint: 0-9, a-z, A-Z -/
def parseDigit (c : Char) : Option Nat :=
  if '0' ≤ c ∧ c ≤ '9' then some (c.toNat - '0'.toNat)
  else if 'a' ≤ c ∧ c ≤ 'z' then some (c.toNat - 'a'.toNat + 10)
  else if 'A' ≤ c ∧ c ≤ 'Z' then some (c.toNat - 'A'.toNat + 10)
  else none

def parseDigits (base : Nat) : Str → Nat → Option Nat
  | [], acc => some acc
  | c :: cs, acc =>
    match parseDigit c with
    | some d => if d < base then parseDigits base cs (acc * base + d) else none
    | none => none

/-- `strconv.ParseInt(s, base, 64)` for an explicit base: sign, digits below the base, no prefix, the int64 range -/
def goParseInt (s : Str) (base : Nat) : Option Int :=
  let neg := s.head? = some '-'
  let ds := dropSign s
  if ds.isEmpty then none
  else match parseDigits base ds 0 with
    | some n => if neg then (if n ≤ 2^63 then some (-(n : Int)) else none) else (if n < 2^63 then some (n : Int) else none)
    | none => none

inductive IntRes where
  | int (i : Int)
  | reported (c : Code)
  deriving DecidableEq, Repr

/-- `integerFromString`: the sign, the white space after it and the prefix that denotes the given radix are taken off
    before strconv.ParseInt sees the text -/
def integerFromString (s : Str) (radix : Nat) : Option Int :=
  goParseInt (signOf s ++ dropRadixPrefix radix ((dropSign s).dropWhile isReSpace)) radix

/-- `px.New(c, Integer, text, radix)`: the signature check (Convertible = Pattern[IntegerPattern]) then intFromConvertible -/
def newInteger (s : Str) (radix : Nat) : IntRes :=
  if !matchIntegerPattern s then .reported .illegalArguments
  else match integerFromString s radix with
    | some i => .int i
    | none => .reported .notInteger

def letterRadix (c : Char) : Nat :=
  if c = 'x' || c = 'X' then 16 else if c = 'o' then 8 else if c = 'b' || c = 'B' then 2 else 10

end Pcore.Format
