import Pcore.Model.SliceHeap
/-!
# Collections, hidden per-value state (property C08): the lazily built caches

Core Lean only.  Besides its backing slice an `Array` holds `reducedType`, `detailedType`, a `Hash` additionally
`index` (types/arraytype.go `privateReducedType`/`privateDetailedType`, types/hashtype.go the same and `valueIndex`):
answers computed from the value's content on first demand and kept.  "Inferring its type, printing, hashing,
serializing, resolving" therefore DO write to the value — into these fields.  The model:

* a cache holds the CONTENT it was computed from (`Option (List Val)`; the cached answer is `f snapshot` for whatever
  function `f` of the content the field stands for — inferred type, detailed type, key index — so nothing about type
  inference has to be modelled: an observation through the cache is right iff the snapshot is the current content);
* caches belong to Go OBJECTS: a pool entry that is "the receiver itself" (`return av`) is the receiver's object and
  shares its caches; a `MutableHashValue` keeps its object across `Put`/`PutAll`, which replaces its storage and resets
  the caches the regenerated facts say it resets (`CacheFacts`, family cachefacts of /verif/extract);
* WHEN a cache is filled is not fixed: before every step an arbitrary list of (pool entry, field) fills happens
  (`sched`) — any operation, the harness's snapshots, another goroutine's reads … may have asked.  A fill is lazy: it
  stores the current content only if the field is empty (`if hv.index == nil { … }`).
-/
namespace Pcore.Heap

inductive CacheWrite
  | lazyFill                -- `recv.f = …` inside `if recv.f == nil { … }`
  | reset                   -- `recv.f = nil`
  | unknown (src : String)
  deriving Repr, DecidableEq

/-- emitted by /verif/extract (family cachefacts) -/
structure CacheFacts where
  /-- struct ↦ its fields other than the backing slice -/
  fields : List (String × List String)
  /-- every assignment to such a field: method, field, kind -/
  writes : List (String × String × CacheWrite)
  /-- methods that assign the receiver's backing slice -/
  mutators : List String
  deriving Repr

inductive CacheField | reduced | detailed | index deriving Repr, DecidableEq

def CacheField.name : CacheField → String
  | .reduced => "reducedType"
  | .detailed => "detailedType"
  | .index => "index"

/-- does mutator `m` reset cache `c`? -/
def CacheFacts.resets (f : CacheFacts) (m : String) (c : CacheField) : Bool :=
  f.writes.any (fun w => w.1 == m && w.2.1 == c.name && w.2.2 == .reset)

structure Cache where
  reduced : Option (List Val) := none
  detailed : Option (List Val) := none
  index : Option (List Val) := none

def Cache.get (c : Cache) : CacheField → Option (List Val)
  | .reduced => c.reduced
  | .detailed => c.detailed
  | .index => c.index

def Cache.set (c : Cache) (f : CacheField) (v : Option (List Val)) : Cache :=
  match f with
  | .reduced => { c with reduced := v }
  | .detailed => { c with detailed := v }
  | .index => { c with index := v }

/-- what the mutator `m` leaves of the caches -/
def resetCache (facts : CacheFacts) (m : String) (c : Cache) : Cache :=
  { reduced := if facts.resets m .reduced then none else c.reduced,
    detailed := if facts.resets m .detailed then none else c.detailed,
    index := if facts.resets m .index then none else c.index }

structure CState where
  hs : HState := {}
  /-- pool entry ↦ object -/
  obj : List Nat := []
  /-- next unused object id -/
  next : Nat := 0
  caches : Nat → Cache := fun _ => {}

/-- a lazy fill of cache `fld` of the object behind pool entry `i` (nothing happens for a marker or a retired entry) -/
def CState.fill (st : CState) (i : Nat) (fld : CacheField) : CState :=
  match st.hs.slice? i, st.obj[i]? with
  | some (_, sl), some o =>
    match (st.caches o).get fld with
    | some _ => st
    | none => { st with caches := fun o' => if o' = o then (st.caches o).set fld (some (st.hs.heap.read sl)) else st.caches o' }
  | _, _ => st

def CState.fills (st : CState) (fs : List (Nat × CacheField)) : CState :=
  fs.foldl (fun s p => s.fill p.1 p.2) st

/-- the object of the entry a step creates: the receiver's object when the code answers the receiver itself or when a
    mutable hash is changed (then with the caches its mutator leaves), a new object otherwise -/
def objOf (tbl : Table) (facts : CacheFacts) (st : CState) (op : Op) : Nat × Nat × (Nat → Cache) :=
  let fresh := (st.next, st.next + 1, st.caches)
  match opSem st.hs.look op with
  | .same site k r =>
    match st.hs.slice? r, st.obj[r]? with
    | some (k', _), some o =>
      if (tbl.find site.key).cls == .recv && k != .mut && k' != .mut then (o, st.next, st.caches) else fresh
    | _, _ => fresh
  | .new site k r _ true =>
    match st.hs.slice? r, st.obj[r]? with
    | some (k', _), some o =>
      if site == .mutPutAll && k == .mut && k' == .mut then
        (o, st.next, fun o' => if o' = o then resetCache facts site.method (st.caches o) else st.caches o')
      else fresh
    | _, _ => fresh
  | _ => fresh

/-- one step: the fills scheduled before it, then the operation -/
def stepC (P : Policy) (tbl : Table) (facts : CacheFacts) (sched : Nat → List (Nat × CacheField)) (st : CState) (op : Op) :
    CState :=
  let st1 := st.fills (sched st.hs.pool.length)
  let r := objOf tbl facts st1 op
  { hs := stepHeap P tbl st1.hs op, obj := st1.obj ++ [r.1], next := r.2.1, caches := r.2.2 }

def runC (P : Policy) (tbl : Table) (facts : CacheFacts) (sched : Nat → List (Nat × CacheField)) (ops : List Op) : CState :=
  ops.foldl (stepC P tbl facts sched) {}

/-- what an observation of field `fld` of pool value `i` is computed from: the cached snapshot if there is one, the
    current content otherwise -/
def observedContent (st : CState) (i : Nat) (fld : CacheField) : Option (List Val) :=
  match st.hs.slice? i, st.obj[i]? with
  | some (_, sl), some o =>
    match (st.caches o).get fld with
    | some snap => some snap
    | none => some (st.hs.heap.read sl)
  | _, _ => none

/-- every (pool entry, field) pair: the schedule "everything is asked for all the time" -/
def allFills (n : Nat) : List (Nat × CacheField) :=
  (List.range n).flatMap fun i => [(i, .reduced), (i, .detailed), (i, .index)]

end Pcore.Heap
