import Pcore.Model.Lex
/-!
# bytes → symbols: `utf8.DecodeRuneInString` as used by `StringReader`

Core Lean only.  One `Sym.bad` per byte that does not start a well-formed UTF-8 sequence (Go: `RuneError`, size 1):
continuation bytes on their own, over-long forms (C0, C1, E0 80–9F, F0 80–8F), surrogates (ED A0–BF), values above
U+10FFFF (F4 90+, F5–FF), and truncated sequences.  The reader never advances past a `bad` symbol, so only the
decoding up to the first one is ever observed.
-/
namespace Pcore.Syntax

def cont (b : UInt8) : Bool := 0x80 ≤ b && b ≤ 0xBF

/-- decode one symbol; the second component is the number of bytes it occupies (≥ 1) -/
def decode1 : List UInt8 → Sym × Nat
  | [] => (.bad, 1)
  | b0 :: r =>
    if b0 < 0x80 then (.chr (Char.ofNat b0.toNat), 1)
    else if 0xC2 ≤ b0 && b0 ≤ 0xDF then
      match r with
      | b1 :: _ =>
        if cont b1 then (.chr (Char.ofNat ((b0.toNat - 0xC0) * 64 + (b1.toNat - 0x80))), 2) else (.bad, 1)
      | [] => (.bad, 1)
    else if 0xE0 ≤ b0 && b0 ≤ 0xEF then
      match r with
      | b1 :: b2 :: _ =>
        let lo : UInt8 := if b0 = 0xE0 then 0xA0 else 0x80
        let hi : UInt8 := if b0 = 0xED then 0x9F else 0xBF
        if lo ≤ b1 && b1 ≤ hi && cont b2 then
          (.chr (Char.ofNat ((b0.toNat - 0xE0) * 4096 + (b1.toNat - 0x80) * 64 + (b2.toNat - 0x80))), 3)
        else (.bad, 1)
      | _ => (.bad, 1)
    else if 0xF0 ≤ b0 && b0 ≤ 0xF4 then
      match r with
      | b1 :: b2 :: b3 :: _ =>
        let lo : UInt8 := if b0 = 0xF0 then 0x90 else 0x80
        let hi : UInt8 := if b0 = 0xF4 then 0x8F else 0xBF
        if lo ≤ b1 && b1 ≤ hi && cont b2 && cont b3 then
          (.chr (Char.ofNat ((b0.toNat - 0xF0) * 262144 + (b1.toNat - 0x80) * 4096 + (b2.toNat - 0x80) * 64
                + (b3.toNat - 0x80))), 4)
        else (.bad, 1)
      | _ => (.bad, 1)
    else (.bad, 1)

def decodeAux : Nat → List UInt8 → List Sym
  | 0, _ => []
  | _, [] => []
  | fuel + 1, l => let d := decode1 l; d.1 :: decodeAux fuel (l.drop d.2)

/-- the whole input (each symbol takes at least one byte, so `length` steps suffice) -/
def decodeUtf8 (l : List UInt8) : List Sym := decodeAux l.length l

end Pcore.Syntax
