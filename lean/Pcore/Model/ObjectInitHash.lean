import Pcore.Model.Object
/-
  C17 model, third part — the InitHash of an object TYPE (the definition a resolved type prints as, and from which it is
  re-created: serialization, `String()`, `Object[…]` given a hash).

  Mirrors (file → definition):
    types/annotatedmember.go annotatedMember.initHash   → `Attr.decl` (type; `final => true` / `override => true` only when set)
    types/attribute.go       attribute.initHash         → `Attr.decl` (kind unless normal; the value — EXCEPT `undef` of an
                                                          attribute whose type is syntactically `Optional[…]` that is no
                                                          CONSTANT, which is left out as the implicit default; before the
                                                          fix 86875be also for a constant: `Attr.declValueBefore`)
    types/objecttype.go      objectType.initHash        → `typeDef` (attributes divided into `constants` — kind constant and
                                                          declared type = `Generalize(value.PType())` — and the others,
                                                          each group in declaration order; `type_parameters` as declared
                                                          (typeParameter.initHash strips the `Optional`); `equality`
                                                          always as an array;
                                                          `equality_include_type` only when false; `serialization`)
  Core-only file (linked into the driver).
-/
namespace Pcore.Object

/-- attribute.initHash: the value entry of the printed attribute (after the fix 86875be "the init hash of an Object type
    left out the value of a constant whose value is undef": a constant has no implicit value, its undef is written too) -/
def Attr.declValue (a : Attr) : Option Val :=
  if a.kind == .constant then a.value else
  match a.value, a.ty with
  | some .undef, .opt _ => none
  | v, _ => v

/-- … before that fix: the undef of EVERY attribute of a syntactically Optional type was left out -/
def Attr.declValueBefore (a : Attr) : Option Val :=
  match a.value, a.ty with
  | some .undef, .opt _ => none
  | v, _ => v

/-- attribute.initHash (+ annotatedMember.initHash): the declaration an attribute prints as -/
def Attr.decl (a : Attr) : AttrDecl :=
  { name := a.name, ty := a.ty, kind := a.kind, dflt := a.declValue, override := a.override,
    final := if a.final then some true else none }

/-- objectType.initHash: `a.Kind() == constant && px.Equals(a.Type(), px.Generalize(a.Value().PType()), nil)`
    (an array value is no constant of the driver's universe: its inferred type is C04's business) -/
def Attr.constLike (a : Attr) : Bool :=
  a.kind == .constant &&
    (match a.value with
     | some (.int _) => a.ty == .int
     | some (.str _) => a.ty == .str
     | some (.bool _) => a.ty == .bool
     | some (.float _) => a.ty == .float
     | some .undef => a.ty == .undefT
     | _ => false)

/-- objectType.initHash of a resolved level (`parent` = the number of the parent definition) -/
def typeDef (parent : Option Nat) (l : Level) : Def :=
  { parent := parent,
    attrs := (l.attrs.filter (fun a => !a.constLike)).map Attr.decl,
    constants := (l.attrs.filter Attr.constLike).map (fun a => (a.name, a.value.getD .undef)),
    equality := match l.equality with
      | none => .absent
      | some e => .many e,
    includeType := if l.includeType then none else some false,
    serialization := l.serialization,
    params := l.params,
    funcs := l.funcs }

/-- the own attributes of the re-created level: `attributes` first, then `constants` -/
def reorder (as : List Attr) : List Attr := as.filter (fun a => !a.constLike) ++ as.filter Attr.constLike

/-- the one shape `attribute.initHash` did not print back before the fix 86875be: a constant of an `Optional[…]` type with
    the value undef -/
def Attr.undefConstant (a : Attr) : Bool :=
  a.kind == .constant &&
    (match a.value, a.ty with
     | some .undef, .opt _ => true
     | _, _ => false)

/-- `typeDef` as it was before the fix 86875be (every printed value by `declValueBefore`) -/
def typeDefBefore (parent : Option Nat) (l : Level) : Def :=
  { typeDef parent l with
    attrs := (l.attrs.filter (fun a => !a.constLike)).map
      (fun a => { a.decl with dflt := a.declValueBefore }) }

end Pcore.Object
