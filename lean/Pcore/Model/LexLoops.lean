/-!
# The loop-exit facts of `types/lexer.go` (second tie of C06)

Core Lean only.  `extract/lexloops.go` regenerates `Pcore/Generated/LexLoops.lean` from the Go source on every check:
for every `for { … }` loop of the lexer, the arms of its switch — for which reader results an arm is taken (`Label`)
and how every path through it ends (`Out`).  This file says what such a table *means* (an abstract loop that reads
through a cursor) and which tables are accepted (`loopOK`); `Proofs/LexLoops.lean` proves that every accepted loop
makes progress on each iteration that returns to its head, so it terminates.

What the reader does (utils/reader.go): at the end of the input `Next()`/`Peek()` answer 0 and do not advance; on an
undecodable byte (and on U+FFFD) they answer `utf8.RuneError` and do not advance; otherwise `Next()` advances by one
character.  So an iteration that goes back to the loop head has made progress iff it called `Next()` while the cursor
stood on a character.
-/
namespace Pcore.LexLoops

/-- which reader results an arm is taken for -/
inductive Label where
  | zero                    -- `case 0` / `if r == 0`
  | runeError               -- `case utf8.RuneError`
  | char                    -- a character literal (ASCII, not NUL)
  | condRange               -- a condition that confines r to ASCII characters (`r >= '0' && r <= '9'` …)
  | dflt                    -- `default`, or no clause matches
  | other (src : String)    -- not recognised
  deriving DecidableEq, Repr

/-- how a path through an arm ends -/
inductive Out where
  | ret | panic | brk
  | loop (consumed guarded : Bool)   -- back to the loop head; `consumed`: `sr.Next()` was called in this iteration;
                                     -- `guarded`: that call sits under a label/test that confines r to ASCII characters
  | unknown (src : String)
  deriving DecidableEq, Repr

inductive Kind where
  | next | peek                      -- the iteration starts with `r := sr.Next()` / `r := sr.Peek()`
  | unknown (why : String)
  deriving DecidableEq, Repr

structure Arm where
  labels : List Label
  outs : List Out
  deriving DecidableEq, Repr

structure Loop where
  fn : String
  kind : Kind
  arms : List Arm
  deriving DecidableEq, Repr

/-- what stands at the cursor -/
inductive Cursor where
  | eof | err | chr
  deriving DecidableEq, Repr

def hasLabel (l : Loop) (x : Label) : Bool := l.arms.any fun a => a.labels.contains x

/-- is the arm taken when the reader answers for this cursor?  `default` takes whatever no explicit label claims. -/
def accepts (l : Loop) (a : Arm) : Cursor → Bool
  | .eof => a.labels.contains .zero || (a.labels.contains .dflt && !hasLabel l .zero)
  | .err => a.labels.contains .runeError || (a.labels.contains .dflt && !hasLabel l .runeError)
  | .chr => a.labels.any fun x => x = .char || x = .condRange || x = .dflt || x = .zero   -- NUL is a character too

/-- can this way of ending be reached for this cursor?  A guarded `Next()` is only reached on a character. -/
def reachable (o : Out) (c : Cursor) : Bool :=
  match o with
  | .loop _ true => c = .chr
  | _ => true

def isLoopOut : Out → Bool
  | .loop _ _ => true
  | _ => false

def knownLabel : Label → Bool
  | .other _ => false
  | _ => true

/-- the accepted tables: nothing unrecognised; and whenever an arm can go back to the loop head for some cursor, the
    cursor is a character and `Next()` has been called -/
def loopOK (l : Loop) : Bool :=
  (match l.kind with | .unknown _ => false | _ => true) &&
  l.arms.all fun a =>
    a.labels.all knownLabel &&
    a.outs.all fun o =>
      match o with
      | .unknown _ => false
      | .loop consumed _ =>
        consumed &&
        !(accepts l a .eof && reachable o .eof) &&
        !(accepts l a .err && reachable o .err)
      | _ => true

def loopsOK (ls : List Loop) : Bool := ls.all loopOK

/-- one iteration of the abstract loop with `n` characters left: `none` = the loop was left (return, panic, break),
    `some n'` = back at the loop head with `n'` characters left -/
inductive Step (l : Loop) : Nat → Option Nat → Prop where
  | exit (n : Nat) (c : Cursor) (a : Arm) (o : Out) :
      a ∈ l.arms → o ∈ a.outs → accepts l a c = true → reachable o c = true → isLoopOut o = false → Step l n none
  | back (n : Nat) (c : Cursor) (a : Arm) (consumed guarded : Bool) :
      a ∈ l.arms → Out.loop consumed guarded ∈ a.outs → accepts l a c = true →
      reachable (.loop consumed guarded) c = true → (c = .eof → n = 0) → (n = 0 → c ≠ .chr) →
      Step l n (some (if c = .chr ∧ consumed = true then n - 1 else n))

end Pcore.LexLoops
