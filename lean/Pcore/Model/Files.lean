/-!
# Model of pcore's file-based loading (property C15)  — core Lean only

Mirrors the Go code **as it is now** (HEAD of /repo, after the `fix:` commits 80f753b, 51b01c7, 8bf8d8e, 9d272bd):

| Go                                                             | Lean                                   |
|----------------------------------------------------------------|----------------------------------------|
| `types/typedname.go  newTypedName2` (TrimPrefix `::`), `Split` | `splitName`                            |
| `types/typedname.go  MapKey` (lower-cased name)                | `keyOf`                                |
| `types/typedname.go  Parts` (lower-case + `allowedCharacters`) | `partsOf`, `validPart`                 |
| `types/typedname.go  Parent`, `IsQualified`                    | `List.dropLast`, `qualified`           |
| `loader/smartpath.go TypedNames`                               | `typedNames`                           |
| `loader/smartpath.go EffectivePath`, `GenericPath`             | `effectivePath`, `SmartPath.generic`   |
| `loader/filebased.go newFileBasedLoader/newPuppetTypePath`     | `spOf` (the constructor as a function over path types: `Model/FilesCtor.lean`) |
| `loader/filebased.go addToIndex/ensureIndexed/findExistingPath`| `fileKeys`, `idx` (one walk of the tree, in the order given) |
| `loader/filebased.go LoadEntry`                                | `fbLoadEntry`                          |
| `loader/filebased.go find` (switch part / tail / parent search)| `find`, `findTail`, `parentSearch`     |
| `loader/filebased.go instantiate` (placeholder guard)          | `instantiate`                          |
| `loader/filebased.go GetContent` + hook `countRead`            | `St.addRead` in `instantiator`         |
| `loader/filebased.go HasEntry`, `Discover`                     | `hasEntry`, `discover`                 |
| `loader/instantiate.go InstantiatePuppetType`                  | `instantiator`                         |
| `px/context.go AddTypes`, `internal/context.go resolveTypes/resolveTypeSet` | `addTypes`, `resolveTS`   |
| `loader/loader.go basicLoader.SetEntry/GetEntry`, `load`       | `setEntry`, `St.get`, `load`           |
| `loader/loader.go parentedLoader.LoadEntry` (parent first)     | first lines of `fbLoadEntry`           |
| `loader/dependency.go LoadEntry / find`                        | `dLoadEntry`, `dFind`, `dMembers`, `dLoop` |

Parameters (not modelled, exercised by the correspondence run only): the OS file system (a tree is a list of
(path segments, body) **given in `filepath.Walk` order**; the driver sorts), the parser (`Body` says what
`types.ParseFile` + `types.NamedType` make of the content), the resolution of the fixed core-type expressions the
generated bodies use (`Variant[String,Integer]`, `Object[{attributes => {a => Integer}}]`: they only reach the static
loader, whose three names used by the generator are `staticTypes`).

Names are lists of segments (the text between `::`); the driver refuses names whose segments contain a `:` so that
string operations on `a::b` (`Split`, `LastIndex`, `Contains`) and list operations coincide.  Case mapping is ASCII.

Quirks kept on purpose:
* the instantiator defines the parsed type in the **context's** defining loader (`cfg.via`), not in the file loader that
  read the file; the file loader keeps a nil placeholder and answers from it afterwards;
* `find` never uses `EffectivePath`; the index is keyed by lower-cased names derived from the paths (`TypedNames`), so the
  letter case of *file names* is irrelevant and `init.pp` / `init_typeset.pp` at the top of a module are indexed without
  the module prefix;
* `Parts()` (and its character check) is only reached on some routes: a module loader for every name, the global loader
  never, the dependency loader for qualified names;
* `InstantiatePuppetType` compares the declared name with the requested one BEFORE `AddTypes`: a misnamed file binds nothing
  (`instantiator`: the `PCORE_WRONG_DEFINITION` branch raises without touching the entries; `C15_error_no_binding`);
* `SetEntry` of a freshly parsed alias/object over an existing definition is always an `ATTEMPT_TO_REDEFINE_TYPE` (the new
  type is not yet resolved, so `Equals` is false); two type sets with the same name are equal;
* the recursion `find → instantiate → AddTypes → resolveTypeSet → LoadEntry → find` is cut only by the placeholder that
  `instantiate` installs: every function takes explicit fuel and answers `Err.diverges` when it runs out.  `Cfg.guardInit
  = false` restores the code before fix 51b01c7 (the `init_typeset` route called the instantiator directly).  A fuel that
  provably suffices (`C15_terminates`) is computed by `Model/FilesFuel.lean`; the fuel is otherwise immaterial
  (`C15_fuel_irrelevant`).
-/
namespace Pcore.Files

abbrev Name := List String
abbrev Key := List String
abbrev Path := List String

/-- ASCII lower-casing (written over `toList` so that the kernel can evaluate it on literals) -/
def lowerS (s : String) : String := String.ofList (s.toList.map Char.toLower)

/-- `strings.HasSuffix` -/
def hasSuffix (s ext : String) : Bool := ext.toList.isSuffixOf s.toList
def keyOf (n : Name) : Key := n.map lowerS
def qualified (n : Name) : Bool := n.length ≥ 2

/-- `newTypedName2`: one leading `::` is dropped; then the segments between `::` -/
def splitName (s : String) : Name :=
  (if s.startsWith "::" then String.ofList (s.toList.drop 2) else s).splitOn "::"

def joinName (n : Name) : String := "::".intercalate n
def joinPath (p : Path) : String := "/".intercalate p

/-- `allowedCharacters = \A[A-Za-z][0-9A-Z_a-z]*\z` -/
def isAlpha (c : Char) : Bool := ('a' ≤ c && c ≤ 'z') || ('A' ≤ c && c ≤ 'Z')
def isWordCh (c : Char) : Bool := isAlpha c || ('0' ≤ c && c ≤ '9') || c = '_'
def validPart (s : String) : Bool :=
  match s.toList with
  | [] => false
  | c :: cs => isAlpha c && cs.all isWordCh

/-- `Parts()`: lower-cased segments, `none` = panic `PCORE_INVALID_CHARACTERS_IN_NAME` -/
def partsOf (n : Name) : Option Key :=
  let k := keyOf n
  if k.all validPart then some k else none

/-! ## smartpath.go -/

structure SmartPath where
  root : Path               -- loader.Path()
  relativePath : String     -- `types`
  extension : String        -- `.pp` (the model covers the non-empty extension branch only)
  moduleName : String
  moduleNameRelative : Bool
  deriving Repr

def SmartPath.generic (sp : SmartPath) : Path :=
  if sp.relativePath = "" then sp.root else sp.root ++ [sp.relativePath]

/-- `s[:len(s)-len(ext)]` -/
def stripExt (ext s : String) : String := String.ofList (s.toList.take (s.length - ext.length))

def stripLast (ext : String) : Path → Path
  | [] => []
  | [s] => [stripExt ext s]
  | s :: t :: rest => s :: stripLast ext (t :: rest)

/-- the top-level files `init` / `init_typeset` keep their bare name -/
def isSpecial : Path → Bool
  | [s] => s = "init" || s = "init_typeset"
  | _ => false

/-- `smartPath.TypedNames` for one namespace: the name implied by a path relative to the generic path -/
def typedNames (sp : SmartPath) (rel : Path) : List Name :=
  let parts := stripLast sp.extension rel
  if sp.moduleNameRelative && !isSpecial parts then [sp.moduleName :: parts] else [parts]

inductive EP where
  | invalid            -- `name.Parts()` panicked
  | none               -- `` (the name cannot live below this path)
  | path (p : Path)
  deriving Repr, DecidableEq

def appendExt (ext : String) : Path → Path
  | [] => []
  | [s] => [s ++ ext]
  | s :: t :: rest => s :: appendExt ext (t :: rest)

/-- `smartPath.EffectivePath` (`filepath.Join` is plain concatenation because `Parts()` admits identifiers only;
    a name without parts cannot occur) -/
def effectivePath (sp : SmartPath) (n : Name) : EP :=
  match partsOf n with
  | none => .invalid
  | some ps =>
    if sp.moduleNameRelative then
      match ps with
      | m :: rest@(_ :: _) => if m ≠ sp.moduleName then .none else .path (sp.generic ++ appendExt sp.extension rest)
      | _ => .none
    else .path (sp.generic ++ appendExt sp.extension ps)

/-! ## trees, loaders, state -/

inductive Kind where
  | alias | object | typeset | core
  deriving DecidableEq, Repr

/-- what `types.ParseFile` (+ `NamedType`) makes of a file's content -/
inductive Body where
  | typ (k : Kind) (name : Name) (types : List String)   -- `type name = …`; `types` only for a type set
  | bare                          -- a type expression without `type N =`: takes the requested name
  | malformed (line : Nat)        -- `PARSE_ERROR` on that line
  | nodef                         -- no type definition (empty file): `PCORE_NO_DEFINITION`
  | unreadable                    -- `ioutil.ReadFile` fails: `PCORE_UNABLE_TO_READ_FILE`
  deriving Repr, DecidableEq

abbrev Tree := List (Path × Body)

inductive Lid where
  | g                      -- global file-based loader (module name ``), root `env`
  | m (mod : String)       -- module loader, root `modules/<mod>`, module name `mod`; parent = g, or the system loader in the
                           -- flat topology.  `mod` may be the pseudo name `environment`: a loader the constructor and
                           -- `isGlobal()` treat as global (paths not module-name relative) while `find` filters qualified
                           -- names by it — the three kinds of loader `newFileBasedLoader` distinguishes are `g`,
                           -- `m "environment"` and `m <ordinary name>`
  | d                      -- dependency loader over all module loaders
  deriving DecidableEq, Repr

structure Def where
  kind : Kind
  name : Name              -- as defined (letter case kept)
  deriving DecidableEq, Repr

/-- `none` = the nil placeholder (`loaderEntry{nil, nil}`) -/
abbrev Entry := Option Def

structure Cfg where
  mods : List String       -- in dependency-loader order
  tree : Tree              -- in walk order
  via : Lid                -- the context's loader (also its defining loader)
  guardInit : Bool := true -- fix 51b01c7; `false` = the `init_typeset` route without the placeholder guard
  flat : Bool := false     -- loader topology: `false` = module loaders are children of the global loader and the dependency
                           -- loader holds the module loaders; `true` = the global loader is the FIRST MEMBER of the
                           -- dependency loader and every file loader is a child of the system loader

structure St where
  ents : List ((Lid × Key) × Entry) := []
  reads : List Path := []             -- one item per `GetContent` call, oldest first
  deriving Repr, DecidableEq

def St.get (s : St) (l : Lid) (k : Key) : Option Entry :=
  match s.ents.find? (fun e => e.1 = (l, k)) with
  | some e => some e.2
  | none => none

def putEnt (l : Lid) (k : Key) (e : Entry) : List ((Lid × Key) × Entry) → List ((Lid × Key) × Entry)
  | [] => [((l, k), e)]
  | x :: xs => if x.1 = (l, k) then ((l, k), e) :: xs else x :: putEnt l k e xs

def St.put (s : St) (l : Lid) (k : Key) (e : Entry) : St := { s with ents := putEnt l k e s.ents }
def St.addRead (s : St) (p : Path) : St := { s with reads := s.reads ++ [p] }

def isGlobalMod (m : String) : Bool := m = "" || m = "environment"

def Lid.moduleName : Lid → String
  | .m mod => mod
  | _ => ""

/-- `newFileBasedLoader` + `newPuppetTypePath`: the only registered `px.PathType` is `PuppetDataTypePath` (`types`, `.pp`);
    `moduleNameRelative = !(moduleName == "" || moduleName == "environment")` -/
def spOf : Lid → SmartPath
  | .m mod => { root := ["modules", mod], relativePath := "types", extension := ".pp", moduleName := mod,
                moduleNameRelative := !isGlobalMod mod }
  | _ => { root := ["env"], relativePath := "types", extension := ".pp", moduleName := "", moduleNameRelative := false }

def relOf (generic p : Path) : Option Path :=
  if generic.isPrefixOf p && p.length > generic.length then some (p.drop generic.length) else none

/-- `addToIndex`, one file: the keys under which the file is indexed by this smart path -/
def fileKeys (sp : SmartPath) (p : Path) : List Key :=
  match relOf sp.generic p with
  | none => []
  | some rel =>
    match rel.getLast? with
    | none => []
    | some last => if hasSuffix last sp.extension then (typedNames sp rel).map keyOf else []

/-- `findExistingPath`: the origins of a key, in walk order -/
def idx (cfg : Cfg) (l : Lid) (k : Key) : List Path :=
  (cfg.tree.filter (fun f => (fileKeys (spOf l) f.1).contains k)).map (·.1)

def idxKeys (cfg : Cfg) (l : Lid) : List Key :=
  (cfg.tree.flatMap (fun f => fileKeys (spOf l) f.1)).eraseDups

def bodyAt (t : Tree) (p : Path) : Option Body :=
  match t.find? (fun f => f.1 = p) with
  | some f => some f.2
  | none => none

/-- the static loader, as far as the generated names can reach it -/
def staticTypes : List (Key × Def) :=
  [(["integer"], ⟨.core, ["Integer"]⟩), (["string"], ⟨.core, ["String"]⟩), (["variant"], ⟨.core, ["Variant"]⟩)]

def sysLoad (n : Name) : Option Entry :=
  match staticTypes.find? (fun e => e.1 = keyOf n) with
  | some e => some (some e.2)
  | none => none

def staticHas (k : Key) : Bool := staticTypes.any (fun e => e.1 = k)

/-! ## the state-and-exception monad: a panic unwinds, the state it left behind stays -/

inductive Err where
  | reported (code : String) (file : Option Path) (line : Nat)
  | diverges
  deriving Repr, DecidableEq

inductive R (α : Type) where
  | ok (a : α) (s : St)
  | fail (e : Err) (s : St)

abbrev M (α : Type) := St → R α

instance : Monad M where
  pure a := fun s => .ok a s
  bind x f := fun s => match x s with
    | .ok a s' => f a s'
    | .fail e s' => .fail e s'

def raise {α : Type} (e : Err) : M α := fun s => .fail e s
def getSt : M St := fun s => .ok s s
def modifySt (f : St → St) : M Unit := fun s => .ok () (f s)

def invalidChars : Err := .reported "PCORE_INVALID_CHARACTERS_IN_NAME" none 0

def partsM (n : Name) : M Key :=
  match partsOf n with
  | some k => pure k
  | none => raise invalidChars

/-- `Equals` as `SetEntry` sees it: a freshly parsed alias/object is unresolved and equals nothing; two type sets are
    equal when their names are (version, authority and pcore version are the same in every generated body) -/
def defEquals (old new : Def) : Bool := old.kind = .typeset && new.kind = .typeset && old.name = new.name

/-- `basicLoader.SetEntry`; answers the entry in effect -/
def setEntry (l : Lid) (k : Key) (e : Entry) : M Entry := fun s =>
  match s.get l k with
  | none => .ok e (s.put l k e)
  | some none => .ok e (s.put l k e)
  | some (some old) =>
    match e with
    | none => .ok (some old) s
    | some new =>
      if defEquals old new then .ok (some old) s
      else .fail (.reported "PCORE_ATTEMPT_TO_REDEFINE_TYPE" none 0) s

def kindAt (i : Nat) : Kind := if i % 2 = 0 then .alias else .object

mutual

/-- `Loader.LoadEntry` of the loader `l` -/
def loadEntry : Nat → Cfg → Lid → Name → M (Option Entry)
  | 0, _, _, _ => raise .diverges
  | n+1, cfg, .d, name => dLoadEntry n cfg name
  | n+1, cfg, l, name => fbLoadEntry n cfg l name

/-- `fileBasedLoader.LoadEntry`: parent chain first (a nil-valued answer of the parent is replaced by the own cache),
    then the cache, then `find`; a miss is cached as a placeholder -/
def fbLoadEntry : Nat → Cfg → Lid → Name → M (Option Entry)
  | 0, _, _, _ => raise .diverges
  | n+1, cfg, l, name => do
    let pe ← (match l with
      | .m _ => if cfg.flat then pure (sysLoad name) else fbLoadEntry n cfg .g name
      | _ => pure (sysLoad name))
    let st ← getSt
    let entry := match pe with
      | some (some d) => some (some d)
      | _ => st.get l (keyOf name)
    match entry with
    | some e => pure (some e)
    | none =>
      let r ← find n cfg l name
      match r with
      | some e => pure (some e)
      | none =>
        let e ← setEntry l (keyOf name) none
        pure (some e)

/-- `fileBasedLoader.find`, the routing part -/
def find : Nat → Cfg → Lid → Name → M (Option Entry)
  | 0, _, _, _ => raise .diverges
  | n+1, cfg, l, name => do
    let mod := l.moduleName
    if qualified name then
      if mod ≠ "" then
        let ps ← partsM name
        if some mod ≠ ps.head? then pure none else findTail n cfg l name
      else findTail n cfg l name
    else if !isGlobalMod mod then
      let ps ← partsM name
      if some mod ≠ ps.head? then pure none
      else
        match idx cfg l ["init_typeset"] with
        | [] => pure none
        | o :: os =>
          if cfg.guardInit then
            let e ← instantiate n cfg l name (o :: os)
            match e with
            | some (some d) =>
              if d.kind = .typeset then pure e else raise (.reported "PCORE_NOT_EXPECTED_TYPESET" (some o) 0)
            | _ => pure e
          else
            -- the code before fix 51b01c7
            instantiator n cfg name (o :: os)
            let st ← getSt
            match st.get l (keyOf name) with
            | some (some d) =>
              if d.kind = .typeset then pure (some (some d)) else raise (.reported "PCORE_NOT_EXPECTED_TYPESET" (some o) 0)
            | _ => raise (.reported "PCORE_NOT_EXPECTED_TYPESET" (some o) 0)
    else findTail n cfg l name

/-- `find` after the switch: the index, then the parent type-set search -/
def findTail : Nat → Cfg → Lid → Name → M (Option Entry)
  | 0, _, _, _ => raise .diverges
  | n+1, cfg, l, name =>
    match idx cfg l (keyOf name) with
    | o :: os => instantiate n cfg l name (o :: os)
    | [] => if qualified name then parentSearch n cfg l name name.dropLast else pure none

/-- the `for tsName != nil` loop of `find` -/
def parentSearch : Nat → Cfg → Lid → Name → Name → M (Option Entry)
  | 0, _, _, _, _ => raise .diverges
  | _+1, _, _, _, [] => pure none
  | n+1, cfg, l, name, ts@(_ :: _) => do
    let st ← getSt
    match st.get l (keyOf ts) with
    | some _ => parentSearch n cfg l name ts.dropLast
    | none =>
      let _ ← find n cfg l ts
      -- `ts.Resolve(c)` under `DoWithLoader(l)`: the type set was resolved by `AddTypes` already
      let st ← getSt
      match st.get l (keyOf name) with
      | some te => pure (some te)
      | none => parentSearch n cfg l name ts.dropLast

/-- `fileBasedLoader.instantiate`: the placeholder guard -/
def instantiate : Nat → Cfg → Lid → Name → List Path → M (Option Entry)
  | 0, _, _, _, _ => raise .diverges
  | n+1, cfg, l, name, origins => do
    let st ← getSt
    match st.get l (keyOf name) with
    | none =>
      let _ ← setEntry l (keyOf name) none
      instantiator n cfg name origins
    | some _ => pure ()
    let st ← getSt
    pure (st.get l (keyOf name))

/-- `InstantiatePuppetType` (reads `sources[0]` through `GetContent`, which the hook counts) -/
def instantiator : Nat → Cfg → Name → List Path → M Unit
  | 0, _, _, _ => raise .diverges
  | _+1, _, _, [] => pure ()
  | n+1, cfg, name, p :: _ => do
    modifySt (·.addRead p)
    match bodyAt cfg.tree p with
    | none => raise (.reported "PCORE_UNABLE_TO_READ_FILE" (some p) 0)
    | some .unreadable => raise (.reported "PCORE_UNABLE_TO_READ_FILE" (some p) 0)
    | some (.malformed ln) => raise (.reported "PARSE_ERROR" (some p) ln)
    | some .nodef => raise (.reported "PCORE_NO_DEFINITION" (some p) 0)
    | some (.typ k nm ts) =>
      if keyOf nm ≠ keyOf name then raise (.reported "PCORE_WRONG_DEFINITION" (some p) 0)
      else addTypes n cfg ⟨k, nm⟩ ts
    | some .bare => addTypes n cfg ⟨.alias, name⟩ []

/-- `px.AddTypes` + `resolveTypes`: into the context's defining loader; a type set only after its members -/
def addTypes : Nat → Cfg → Def → List String → M Unit
  | 0, _, _, _ => raise .diverges
  | n+1, cfg, d, ts => do
    if d.kind = .typeset then
      resolveTS n cfg d.name ts 0
      let _ ← setEntry cfg.via (keyOf d.name) (some d)
      pure ()
    else
      let _ ← setEntry cfg.via (keyOf d.name) (some d)
      pure ()

/-- `resolveTypeSet`: every member is first looked up through the defining loader and only defined when unknown -/
def resolveTS : Nat → Cfg → Name → List String → Nat → M Unit
  | 0, _, _, _, _ => raise .diverges
  | _+1, _, _, [], _ => pure ()
  | n+1, cfg, tsName, t :: rest, i => do
    let tn := tsName ++ [t]
    let le ← loadEntry n cfg cfg.via tn
    match le with
    | some (some _) => pure ()
    | _ =>
      let _ ← setEntry cfg.via (keyOf tn) (some ⟨kindAt i, tn⟩)
      pure ()
    resolveTS n cfg tsName rest (i + 1)

/-- `dependencyLoader.LoadEntry` (after fix 80f753b: the entry `SetEntry` answers is returned; after fix 9d272bd: a recorded
    miss is not final).  A cached VALUE is final.  With no own entry, or a nil-valued one (a recorded miss), `find` runs
    (again); a found value is stored with `SetEntry` over the miss; a miss is recorded only when there was no own entry —
    otherwise the old nil-valued entry itself is answered (even when the dependency loader's cache gained a value for the
    name while `find` ran: the next lookup answers that) -/
def dLoadEntry : Nat → Cfg → Name → M (Option Entry)
  | 0, _, _ => raise .diverges
  | n+1, cfg, name => do
    let st ← getSt
    match st.get .d (keyOf name) with
    | some (some d) => pure (some (some d))
    | own =>
      let r ← dFind n cfg name
      let st ← getSt
      -- `find` may answer the very entry object the dependency loader holds (`ov == nv` in `SetEntry`): definitions of
      -- generated names are held by the defining loader only, so an equal definition in this cache is that object
      match r, st.get .d (keyOf name) with
      | some (some d), some (some d') =>
        if d = d' then pure (some (some d))
        else
          let e ← setEntry .d (keyOf name) (some d)
          pure (some e)
      | some (some d), _ =>
        let e ← setEntry .d (keyOf name) (some d)
        pure (some e)
      | _, _ =>
        match own with
        | none =>
          let e ← setEntry .d (keyOf name) none
          pure (some e)
        | some o => pure (some o)

/-- `dependencyLoader.find`: a QUALIFIED name goes to the module named by its first segment (`name.IsQualified()` guards
    the routing: an unqualified name is never routed by its first segment), every other name to every member in order -/
def dFind : Nat → Cfg → Name → M (Option Entry)
  | 0, _, _ => raise .diverges
  | n+1, cfg, name => do
    if !cfg.mods.isEmpty && qualified name then
      let ps ← partsM name
      match ps.head? with
      | some h => if cfg.mods.contains h then fbLoadEntry n cfg (.m h) name else dMembers n cfg name
      | none => dMembers n cfg name
    else dMembers n cfg name

/-- the `for _, ml := range l.loaders` loop: in the flat topology the global loader is the first member (it has no module
    name, so it is not in `l.index` and never an explicit target) -/
def dMembers : Nat → Cfg → Name → M (Option Entry)
  | 0, _, _ => raise .diverges
  | n+1, cfg, name =>
    if cfg.flat then do
      let e ← fbLoadEntry n cfg .g name
      match e with
      | some (some d) => pure (some (some d))
      | _ => dLoop n cfg cfg.mods name
    else dLoop n cfg cfg.mods name

def dLoop : Nat → Cfg → List String → Name → M (Option Entry)
  | 0, _, _, _ => raise .diverges
  | _+1, _, [], name => do
    let st ← getSt
    pure (st.get .d (keyOf name))
  | n+1, cfg, m :: rest, name => do
    let e ← fbLoadEntry n cfg (.m m) name
    match e with
    | some (some d) => pure (some (some d))
    | _ => dLoop n cfg rest name

end

/-! ## what a lookup observes -/

inductive Outcome where
  | found (d : Def)
  | notfound
  | failed (e : Err)
  deriving Repr, DecidableEq

/-- `loader.load` (`px.Load`) through the context's loader -/
def load (fuel : Nat) (cfg : Cfg) (name : Name) : M Outcome := do
  let e ← loadEntry fuel cfg cfg.via name
  match e with
  | none =>
    let _ ← setEntry cfg.via (keyOf name) none
    pure .notfound
  | some none => pure .notfound
  | some (some d) => pure (.found d)

/-- one lookup with the `recover` of the caller: the outcome and the state left behind -/
def loadS (fuel : Nat) (cfg : Cfg) (s : St) (name : Name) : Outcome × St :=
  match load fuel cfg name s with
  | .ok o s' => (o, s')
  | .fail e s' => (.failed e, s')

/-- a lookup sequence -/
def runLoads (fuel : Nat) (cfg : Cfg) : St → List Name → List Outcome × St
  | s, [] => ([], s)
  | s, n :: ns =>
    let (o, s') := loadS fuel cfg s n
    let (os, s'') := runLoads fuel cfg s' ns
    (o :: os, s'')

/-- a definition made BETWEEN lookups through the DefiningLoader of the file loader `l`, without any file:
    `px.AddTypes(c, px.NewNamedType(name, "Variant[String,Integer]"))` under `c.DoWithLoader(l)` — `SetEntry` of a fresh
    (unresolved) alias; its resolution only reaches the static loader -/
def defineIn (l : Lid) (name : Name) : M Unit := do
  let _ ← setEntry l (keyOf name) (some ⟨.alias, name⟩)
  pure ()

/-- with the `recover` of the caller -/
def defineS (s : St) (l : Lid) (name : Name) : Option Err × St :=
  match defineIn l name s with
  | .ok _ s' => (none, s')
  | .fail e s' => (some e, s')

/-- `HasEntry` of the context's loader (the file loaders answer from parent and index only, never from their cache) -/
def hasEntry (cfg : Cfg) (s : St) : Lid → Key → Bool
  | .d, k => match s.get .d k with
    | some (some _) => true
    | _ => false
  | .g, k => staticHas k || !(idx cfg .g k).isEmpty
  | .m mod, k => staticHas k || (!cfg.flat && !(idx cfg .g k).isEmpty) || !(idx cfg (.m mod) k).isEmpty

def sortKeys (ks : List Key) : List Key :=
  ks.mergeSort (fun a b => !(joinName b < joinName a))

/-- `Discover` with the predicate "type name unknown to the static loader"; sorted by map key -/
def discover (cfg : Cfg) (s : St) : Lid → List Key
  | .d => sortKeys ((s.ents.filterMap (fun e => match e with
      | ((.d, k), some _) => if staticHas k then none else some k
      | _ => none)))
  | .g => sortKeys ((idxKeys cfg .g).filter (fun k => !staticHas k))
  | .m mod =>
    let gk := if cfg.flat then [] else (idxKeys cfg .g).filter (fun k => !staticHas k)
    let mk := (idxKeys cfg (.m mod)).filter (fun k => !staticHas k && (cfg.flat || (idx cfg .g k).isEmpty))
    sortKeys (gk ++ mk)

/-- how often a path was read -/
def readCount (s : St) (p : Path) : Nat := (s.reads.filter (· = p)).length

end Pcore.Files
