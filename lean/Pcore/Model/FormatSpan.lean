/-
  C20 model — the format strings of a Timespan: `Timespan.Format(format)` (types/timespantype.go).

  Mirrors (file func → definition), the code AS IT IS NOW:
    TimespanFormatParser.parse, appendLiteral      → `spanParse` (`spanStep`: the states literal / pad / width; `%%`; the flags `-`
                                                     (no padding) and `_` (blanks), a leading `0`; the width; D H M S L N; the segments
                                                     of the HIGHEST unit present show the total, `markTotal`)
    badFormatSpecifier                             → `none` (reported PCORE_TIMESPAN_BAD_FORMAT_SPEC)
    TimespanFormat.format2                         → `spanFormat2` (one leading `-` and the segments of the absolute value — except for
                                                     MinInt64, whose segments are those of the negative number)
    valueSegment.createFormat / appendValue        → `valueFmt`, `fmtD` (the Go format string `%d` / `%Wd` / `%0Wd` handed to fmt: `goParse`,
                                                     `goFmtInt` of Format.lean — a width beyond fmt's limit is a `%!(NOVERB)` marker: `fault`)
    fragmentSegment.createFormat / appendValue     → `fragFmt` (`%-Wd`: LEFT justified), `fragAppend` (without the total and without `0`:
                                                     `%0*d` with the trailing zeroes stripped, regexp `\A([0-9]+?)0*\z`)
    day/hour/minute/second/millisecond/nanosecondSegment.appendTo → `segValue` (Go's `/` and `%` truncate: `Int.tdiv`, `Int.tmod`)
    utils/pow.go Int64Pow                          → `int64Pow10`
  The code as it is after the repairs 03fcfad (Int64Pow(b, 0) = 1) and 5257aa1 (a width beyond fmt's limit 10^6 is a bad format
  specifier) is `SpanCode.now`; the two repaired spots are switches of `SpanCode` so that the defects of the tree before them
  (`SpanCode.before`: Int64Pow(10, 0) = 0, hence an integer division by zero for a remainder nanosecond segment of width 0; any width
  reaches fmt) stay witnessed in Lean (`C20_span_…_before_fix`).
  Strings are sequences of Unicode scalar values.  Core-only file (linked into the driver).
-/
import Pcore.Model.Format
namespace Pcore.Format

/-- the two repaired spots of the code -/
structure SpanCode where
  powZeroIsOne : Bool      -- 03fcfad: utils.Int64Pow(b, 0) = 1 (was 0)
  widthLimit : Bool        -- 5257aa1: parse rejects a width above maxFormatNumber
  deriving DecidableEq, Repr

def SpanCode.now : SpanCode := ⟨true, true⟩
def SpanCode.before : SpanCode := ⟨false, false⟩

inductive SegKind where
  | day | hour | minute | second | milli | nano
  deriving DecidableEq, Repr

/-- `ordinal()`: nsecMax = 0 … dayMax = 5 -/
def SegKind.ordinal : SegKind → Nat
  | .day => 5 | .hour => 4 | .minute => 3 | .second => 2 | .milli => 1 | .nano => 0

def SegKind.defaultWidth : SegKind → Nat
  | .day => 1 | .hour => 2 | .minute => 2 | .second => 2 | .milli => 3 | .nano => 9

/-- a value segment: `pad` = padChar (`none` = 0 "no padding", `some '0'`, `some ' '`), `width` (`none` = -1) -/
structure VSeg where
  kind : SegKind
  pad : Option Char
  width : Option Nat
  useTotal : Bool
  deriving DecidableEq, Repr

inductive Seg where
  | lit (s : Str)
  | val (v : VSeg)
  deriving DecidableEq, Repr

inductive PState where
  | literal | pad | width
  deriving DecidableEq, Repr

structure PS where
  segs : List Seg
  highest : Option Nat      -- -1 ↦ none
  state : PState
  pad : Option Char
  width : Option Nat
  deriving Repr

/-- `appendLiteral`: a literal character joins the literal segment in front of it -/
def appendLiteral : List Seg → Char → List Seg
  | [], c => [.lit [c]]
  | [.lit s], c => [.lit (s ++ [c])]
  | [x], c => [x, .lit [c]]
  | x :: y :: rest, c => x :: appendLiteral (y :: rest) c

def letterKind (c : Char) : Option SegKind :=
  if c = 'D' then some .day else if c = 'H' then some .hour else if c = 'M' then some .minute
  else if c = 'S' then some .second else if c = 'L' then some .milli else if c = 'N' then some .nano else none

/-- the width after one more digit -/
def nextWidth : Option Nat → Nat → Nat
  | none, n => n
  | some w, n => w * 10 + n

/-- one character of the format; `none` = badFormatSpecifier -/
def spanStep (code : SpanCode) (ps : PS) (c : Char) : Option PS :=
  if ps.state = .literal then
    if c = '%' then some { ps with state := .pad, pad := some '0', width := none }
    else some { ps with segs := appendLiteral ps.segs c }
  else if c = '%' then some { ps with segs := appendLiteral ps.segs c, state := .literal }
  else if c = '-' then
    if ps.state ≠ .pad then none else some { ps with pad := none, state := .width }
  else if c = '_' then
    if ps.state ≠ .pad then none else some { ps with pad := some ' ', state := .width }
  else match letterKind c with
    | some k =>
      -- D sets `highest` unconditionally, the others raise it
      let h := match ps.highest with
        | none => some k.ordinal
        | some h => if k = .day || h < k.ordinal then some k.ordinal else some h
      some { ps with segs := ps.segs ++ [.val ⟨k, ps.pad, ps.width, false⟩], highest := h, state := .literal }
    | none =>
      if !isDigit c then none
      else if ps.state = .pad && c = '0' then some { ps with pad := some '0', state := .width }
      else
        let n := c.toNat - '0'.toNat
        let w' := nextWidth ps.width n
        -- "the fmt package does not accept such a width"
        if code.widthLimit && decide (w' > maxFormatNumber) then none
        else some { ps with width := some w', state := .width }

def spanSteps (code : SpanCode) : PS → Str → Option PS
  | ps, [] => some ps
  | ps, c :: cs => (spanStep code ps c).bind (fun ps' => spanSteps code ps' cs)

/-- the segments of the highest unit show the total -/
def markTotal (h : Nat) : List Seg → List Seg
  | [] => []
  | .val v :: rest => .val (if v.kind.ordinal = h then { v with useTotal := true } else v) :: markTotal h rest
  | s :: rest => s :: markTotal h rest

/-- `TimespanFormatParser.parse`; `none` = PCORE_TIMESPAN_BAD_FORMAT_SPEC -/
def spanParseC (code : SpanCode) (s : Str) : Option (List Seg) :=
  match spanSteps code ⟨[], none, .literal, some '0', none⟩ s with
  | none => none
  | some ps =>
    if ps.state ≠ .literal then none
    else match ps.highest with
      | none => some ps.segs
      | some h => some (markTotal h ps.segs)

def spanParse (s : Str) : Option (List Seg) := spanParseC .now s

/-! ### formatting -/

inductive SpanRes where
  | text (s : Str)
  | badSpec
  | fault
  deriving DecidableEq, Repr

def nsPerSec : Int := 1000000000
def nsPerMin : Int := 60000000000
def nsPerHour : Int := 3600000000000
def nsPerDay : Int := 86400000000000

/-- `fmt.Fprintf(buffer, format, n)` of one integer directive; a format fmt does not understand shows as a `%!` marker -/
def fmtD (fm : Str) (n : Int) : Option Str :=
  match goFmtInt (goParse fm) n with
  | .text s => some s
  | _ => none

/-- `valueSegment.createFormat` -/
def valueFmt (pad : Option Char) (w : Nat) : Str :=
  match pad with
  | none => "%d".toList
  | some c => if c = ' ' then ['%'] ++ natStr 10 false w ++ ['d'] else ['%', c] ++ natStr 10 false w ++ ['d']

/-- `fragmentSegment.createFormat` -/
def fragFmt (pad : Option Char) (w : Nat) : Str :=
  match pad with
  | none => "%d".toList
  | some _ => "%-".toList ++ natStr 10 false w ++ ['d']

/-- `trimTrailingZeroes.ReplaceAllString(s, "$1")`: a digit string loses its trailing zeroes but keeps one character; anything else
    (the `-` of a negative number) is left alone -/
def trimZeroes (s : Str) : Str :=
  if s.isEmpty || !s.all isDigit then s
  else
    let t := (s.reverse.dropWhile (· = '0')).reverse
    if t.isEmpty then s.take 1 else t

/-- `fragmentSegment.appendValue` -/
def fragAppend (v : VSeg) (n : Int) : Option Str :=
  let w := v.width.getD v.kind.defaultWidth
  if !(v.useTotal || v.pad = some '0') then
    -- fmt.Sprintf(`%0*d`, w, n): a width argument beyond fmt's limit is %!(BADWIDTH)
    if w > 1000000 then none
    else some (trimZeroes (goInteger ⟨false, true, false, false, false, some w, none, 'd'⟩ 10 false n))
  else fmtD (fragFmt v.pad w) n

/-- `utils.Int64Pow(10, e)` for the exponents that occur (before 03fcfad: 0 for the exponent 0) -/
def int64Pow10 (code : SpanCode) (e : Nat) : Int := if e = 0 && !code.powZeroIsOne then 0 else (10 : Int) ^ e

/-- the number a segment shows (Go's integer division and remainder truncate towards zero); `none` = integer divide by zero -/
def segValue (code : SpanCode) (v : VSeg) (ns : Int) : Option Int :=
  match v.kind with
  | .day => some (ns.tdiv nsPerDay)
  | .hour => some (if v.useTotal then ns.tdiv nsPerHour else (ns.tdiv nsPerHour).tmod 24)
  | .minute => some (if v.useTotal then ns.tdiv nsPerMin else (ns.tdiv nsPerMin).tmod 60)
  | .second => some (if v.useTotal then ns.tdiv nsPerSec else (ns.tdiv nsPerSec).tmod 60)
  | .milli => some (if v.useTotal then ns.tdiv 1000000 else (ns.tdiv 1000000).tmod 1000)
  | .nano =>
    let w := v.width.getD 9
    if w < 9 then
      let x := ns.tdiv (int64Pow10 code (9 - w))
      if v.useTotal then some x
      else if int64Pow10 code w = 0 then none else some (x.tmod (int64Pow10 code w))
    else some (if v.useTotal then ns else ns.tmod nsPerSec)

/-- `segment.appendTo` -/
def segText (code : SpanCode) (s : Seg) (ns : Int) : Option Str :=
  match s with
  | .lit l => some l
  | .val v =>
    match segValue code v ns with
    | none => none
    | some n =>
      match v.kind with
      | .milli | .nano => fragAppend v n
      | _ => fmtD (valueFmt v.pad (v.width.getD v.kind.defaultWidth)) n

def segsText (code : SpanCode) : List Seg → Int → Option Str
  | [], _ => some []
  | s :: rest, ns =>
    match segText code s ns, segsText code rest ns with
    | some a, some b => some (a ++ b)
    | _, _ => none

/-- `TimespanFormat.format2` -/
def spanFormat2 (code : SpanCode) (segs : List Seg) (ns : Int) : SpanRes :=
  let neg := decide (ns < 0) && decide (ns ≠ -9223372036854775808)
  match segsText code segs (if neg then -ns else ns) with
  | some s => .text ((if neg then ['-'] else []) ++ s)
  | none => .fault

/-- `Timespan.Format(format)` -/
def spanFormatC (code : SpanCode) (fm : Str) (ns : Int) : SpanRes :=
  match spanParseC code fm with
  | none => .badSpec
  | some segs => spanFormat2 code segs ns

/-- … of the code as it is now -/
def spanFormat (fm : Str) (ns : Int) : SpanRes := spanFormatC .now fm ns

end Pcore.Format
