/-!
  A concrete mini regular-expression engine for the DRIVER only (DESIGN §3.5).  In the theorems the matcher is the
  parameter `Cfg.rxMatch` (any function), so they hold for Go's RE2 engine as for any other; the correspondence check
  needs a computable instance.  Language: literal characters, `.`, classes `[abc]` `[a-c]` `[^a]`, concatenation, `|`,
  `*`, `( )`, `^`, `$`.  Matching is Go's `MatchString`: unanchored search.  Brzozowski derivatives, structurally total.
  The agreement of this matcher with Go's `regexp` on the generated patterns is checked line by line (`rxmatch` ops).
-/
namespace Pcore.Rx

inductive Rx where
  | eps | void
  | chr (c : Char)
  | dot            -- any character except newline
  | all            -- any character (used for the unanchored search only)
  | cls (neg : Bool) (items : List (Char × Char))
  | cat (a b : Rx) | alt (a b : Rx) | star (a : Rx)
  | bol | eol
  deriving Repr, Inhabited

def mkCat : Rx → Rx → Rx
  | .void, _ => .void
  | _, .void => .void
  | .eps, b => b
  | a, .eps => a
  | a, b => .cat a b

def mkAlt : Rx → Rx → Rx
  | .void, b => b
  | a, .void => a
  | a, b => .alt a b

/-- can `r` match the empty string here?  `atStart` / `atEnd`: position is the beginning / the end of the input -/
def nullable (atStart atEnd : Bool) : Rx → Bool
  | .eps => true
  | .void | .chr _ | .dot | .all | .cls _ _ => false
  | .cat a b => nullable atStart atEnd a && nullable atStart atEnd b
  | .alt a b => nullable atStart atEnd a || nullable atStart atEnd b
  | .star _ => true
  | .bol => atStart
  | .eol => atEnd

def inItems (c : Char) : List (Char × Char) → Bool
  | [] => false
  | (lo, hi) :: rest => (lo ≤ c && c ≤ hi) || inItems c rest

/-- derivative by the character `c` read at a position that is (`atStart`) or is not the beginning of the input -/
def deriv (atStart : Bool) (c : Char) : Rx → Rx
  | .eps | .void | .bol | .eol => .void
  | .chr d => if c = d then .eps else .void
  | .dot => if c = '\n' then .void else .eps
  | .all => .eps
  | .cls neg items => if inItems c items != neg then .eps else .void
  | .cat a b =>
      mkAlt (mkCat (deriv atStart c a) b) (if nullable atStart false a then deriv atStart c b else .void)
  | .alt a b => mkAlt (deriv atStart c a) (deriv atStart c b)
  | .star a => mkCat (deriv atStart c a) (.star a)

def fullMatch (r : Rx) (atStart : Bool) : List Char → Bool
  | [] => nullable atStart true r
  | c :: cs => fullMatch (deriv atStart c r) false cs

/-- Go `MatchString`: some substring matches -/
def search (r : Rx) (s : String) : Bool :=
  fullMatch (.cat (.star .all) (.cat r (.star .all))) true s.toList

/-! ### parser of the mini language (fuel = input length; `none` = not in the mini language) -/
def isSpecial (c : Char) : Bool :=
  c = '(' || c = ')' || c = '[' || c = ']' || c = '|' || c = '*' || c = '.' || c = '^' || c = '$' || c = '\\' ||
  c = '+' || c = '?' || c = '{' || c = '}'

/-- class items up to the closing bracket -/
def parseItems : Nat → List Char → List (Char × Char) → Option (List (Char × Char) × List Char)
  | 0, _, _ => none
  | _ + 1, [], _ => none
  | _ + 1, ']' :: rest, acc => some (acc.reverse, rest)
  | n + 1, lo :: '-' :: hi :: rest, acc =>
      if hi = ']' then parseItems n ('-' :: hi :: rest) ((lo, lo) :: acc) else parseItems n rest ((lo, hi) :: acc)
  | n + 1, c :: rest, acc => parseItems n rest ((c, c) :: acc)

def stars : Rx → List Char → Rx × List Char
  | r, '*' :: rest => stars (.star r) rest
  | r, rest => (r, rest)

mutual
def parseAlt : Nat → List Char → Option (Rx × List Char)
  | 0, _ => none
  | n + 1, cs =>
    match parseCat n cs with
    | none => none
    | some (a, '|' :: rest) =>
      (match parseAlt n rest with
       | some (b, rest') => some (.alt a b, rest')
       | none => none)
    | some (a, rest) => some (a, rest)
def parseCat : Nat → List Char → Option (Rx × List Char)
  | 0, _ => none
  | n + 1, cs =>
    match cs with
    | [] => some (.eps, [])
    | '|' :: _ => some (.eps, cs)
    | ')' :: _ => some (.eps, cs)
    | _ =>
      match parseAtom n cs with
      | none => none
      | some (a, rest) =>
        let (a', rest') := stars a rest
        (match parseCat n rest' with
         | some (b, rest'') => some (mkCat a' b, rest'')
         | none => none)
def parseAtom : Nat → List Char → Option (Rx × List Char)
  | 0, _ => none
  | n + 1, cs =>
    match cs with
    | [] => none
    | '(' :: rest =>
      (match parseAlt n rest with
       | some (r, ')' :: rest') => some (r, rest')
       | _ => none)
    | '[' :: '^' :: rest =>
      (match parseItems (rest.length + 1) rest [] with
       | some (items, rest') => some (.cls true items, rest')
       | none => none)
    | '[' :: rest =>
      (match parseItems (rest.length + 1) rest [] with
       | some (items, rest') => some (.cls false items, rest')
       | none => none)
    | '.' :: rest => some (.dot, rest)
    | '^' :: rest => some (.bol, rest)
    | '$' :: rest => some (.eol, rest)
    | c :: rest => if isSpecial c then none else some (.chr c, rest)
end

def parse (src : String) : Option Rx :=
  match parseAlt (3 * src.length + 3) src.toList with
  | some (r, []) => some r
  | _ => none

/-- the concrete matcher; a source outside the mini language matches nothing (the driver refuses such ops) -/
def rxMatch (src s : String) : Bool :=
  match parse src with
  | some r => search r s
  | none => false

/-- ASCII lower-casing (the generators keep upper-case non-ASCII letters away from case-insensitive Enums) -/
def lowerAscii (s : String) : String := s.map Char.toLower

end Pcore.Rx
