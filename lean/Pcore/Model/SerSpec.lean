import Pcore.Model.Ser
/-
  C10 — specification-level definitions: what the property theorems talk about (stream laws, the meaning of a
  back-reference, the reference-free stream, the sharing hypothesis as a decidable check).  They are in a Model file
  (core-only) because the driver evaluates `sharedB` on every op value: the hypothesis `Shared` of
  `C10_refs_wellformed` / `C10_roundtrip_partial` is thereby checked at run time for everything the harness generates.
-/
namespace Pcore.Ser

/-! ### stream laws -/

mutual
/-- positions an event consumes in the consumer (Add / AddArray / AddHash: one each; AddRef: none) -/
def Ev.npos : Ev → Nat
  | .add _ => 1 | .ref _ => 0
  | .arr es => 1 + nposList es
  | .hsh es => 1 + nposList es
def nposList : List Ev → Nat
  | [] => 0 | e :: es => e.npos + nposList es
end

def Ev.isStr : Ev → Bool
  | .add (.str _) => true | _ => false

def Ev.isBin : Ev → Bool
  | .add (.bin _) => true | _ => false

/-- children of a hash: an even number, alternating key, value; with `sk` every key is a plain string -/
def hkeys (sk : Bool) : List Ev → Bool
  | [] => true
  | [_] => false
  | k :: _ :: r => (!sk || k.isStr) && hkeys sk r

mutual
/-- stream law: hashes alternate (`hkeys`), with `sk` all keys are strings, with `nb` no Binary is handed over -/
def Ev.wf (sk nb : Bool) : Ev → Bool
  | .add d => !(nb && (Ev.add d).isBin)
  | .ref _ => true
  | .arr es => wfList sk nb es
  | .hsh es => hkeys sk es && wfList sk nb es
def wfList (sk nb : Bool) : List Ev → Bool
  | [] => true | e :: es => e.wf sk nb && wfList sk nb es
end

/-! ### what a stream means once its references are resolved -/

mutual
/-- resolve the back-references of one event; `env` holds, per position consumed so far, the resolved event at that
    position (`none` while the container at that position is still open).  Fails on a reference to a position that
    does not exist yet or is still open. -/
def expand : Ev → List (Option Ev) → Option (Ev × List (Option Ev))
  | .add d, env => some (.add d, env ++ [some (.add d)])
  | .ref n, env =>
    match env[n]? with
    | some (some x) => some (x, env)
    | _ => none
  | .arr es, env =>
    match expandList es (env ++ [none]) with
    | none => none
    | some (es', env1) => some (.arr es', env1.set env.length (some (.arr es')))
  | .hsh es, env =>
    match expandList es (env ++ [none]) with
    | none => none
    | some (es', env1) => some (.hsh es', env1.set env.length (some (.hsh es')))
def expandList : List Ev → List (Option Ev) → Option (List Ev × List (Option Ev))
  | [], env => some ([], env)
  | e :: es, env =>
    match expand e env with
    | none => none
    | some (e', env1) =>
      match expandList es env1 with
      | none => none
      | some (es', env2) => some (e' :: es', env2)
end

/-! ### the reference-free stream -/

def ptypeEv : Ev := .add (.str "__ptype")
def pvalueEv : Ev := .add (.str "__pvalue")
def typed (tn : String) (x : Ev) : Ev := .hsh [ptypeEv, .add (.str tn), pvalueEv, x]

mutual
/-- what the serializer emits for `v` when nothing is de-duplicated (independent of level and state) -/
def plain (c : Cfg) : V → Ev
  | .undef => .add .undef | .bool b => .add (.bool b) | .int i => .add (.int i) | .flt f => .add (.flt f)
  | .str s => .add (.str s)
  | .dflt => if c.rich then .hsh [ptypeEv, .add (.str "Default")] else .add (.str "default")
  | .hash _ es =>
    if c.cplx || allStrKeys es then .hsh (plainPairs c es)
    else if c.rich then typed "Hash" (.arr (plainPairs c es))
    else .hsh (plainSKeys c es)
  | .arr _ vs => .arr (plainList c vs)
  | .sens _ v => if c.rich then typed "Sensitive" (plain c v) else .add (.str sensitiveText)
  | .bin _ bs =>
    if c.bin then .add (.bin bs) else if c.rich then typed "Binary" (.add (.str (b64 bs))) else .add (.str (b64 bs))
  | .leaf _ k enc disp => if c.rich then typed k.typeName (.add (.str enc)) else .add (.str disp)
  | .obj _ tn disp as => if c.rich then .hsh (ptypeEv :: .add (.str tn) :: plainAttrs c as) else .add (.str disp)
def plainList (c : Cfg) : List V → List Ev
  | [] => [] | v :: vs => plain c v :: plainList c vs
def plainPairs (c : Cfg) : List (V × V) → List Ev
  | [] => [] | (k, v) :: es => plain c k :: plain c v :: plainPairs c es
def plainSKeys (c : Cfg) : List (V × V) → List Ev
  | [] => [] | (k, v) :: es => .add (.str k.disp) :: plain c v :: plainSKeys c es
def plainAttrs (c : Cfg) : List (String × V) → List Ev
  | [] => [] | (k, v) :: as => .add (.str k) :: plain c v :: plainAttrs c as
end

/-! ### the sharing hypothesis, decidable -/

mutual
def Ev.beq : Ev → Ev → Bool
  | .add a, .add b => a == b
  | .ref a, .ref b => a == b
  | .arr a, .arr b => beqList a b
  | .hsh a, .hsh b => beqList a b
  | _, _ => false
def beqList : List Ev → List Ev → Bool
  | [], [] => true
  | a :: as, b :: bs => a.beq b && beqList as bs
  | _, _ => false
end

mutual
/-- (identity, reference-free event) of every identified node, pre-order -/
def keysOf (c : Cfg) : V → List (Key × Ev)
  | .hash id es => (.ptr id, plain c (.hash id es)) :: keysOfPairs c es
  | .arr id vs => (.ptr id, plain c (.arr id vs)) :: keysOfList c vs
  | .sens id v => (.ptr id, plain c (.sens id v)) :: keysOf c v
  | .bin id bs => [(.ptr id, plain c (.bin id bs))]
  | .leaf id k enc disp => [(leafKey id k enc, plain c (.leaf id k enc disp))]
  | .obj id tn disp as => (.ptr id, plain c (.obj id tn disp as)) :: keysOfAttrs c as
  | _ => []
def keysOfList (c : Cfg) : List V → List (Key × Ev)
  | [] => [] | v :: vs => keysOf c v ++ keysOfList c vs
def keysOfPairs (c : Cfg) : List (V × V) → List (Key × Ev)
  | [] => [] | (k, v) :: es => keysOf c k ++ keysOf c v ++ keysOfPairs c es
def keysOfAttrs (c : Cfg) : List (String × V) → List (Key × Ev)
  | [] => [] | (_, v) :: as => keysOf c v ++ keysOfAttrs c as
end

/-- the assignment read off a table: strings by content, everything else by its first entry -/
def Fof (tbl : List (Key × Ev)) : Key → Ev
  | .str s => .add (.str s)
  | k => (tbl.lookup k).getD (.add .undef)

mutual
def cohB (c : Cfg) (tbl : List (Key × Ev)) : V → Bool
  | .hash id es => (Fof tbl (.ptr id)).beq (plain c (.hash id es)) && cohBPairs c tbl es
  | .arr id vs => (Fof tbl (.ptr id)).beq (plain c (.arr id vs)) && cohBList c tbl vs
  | .sens id v => (Fof tbl (.ptr id)).beq (plain c (.sens id v)) && cohB c tbl v
  | .bin id bs => (Fof tbl (.ptr id)).beq (plain c (.bin id bs))
  | .leaf id k enc disp => (Fof tbl (leafKey id k enc)).beq (plain c (.leaf id k enc disp))
  | .obj id tn disp as => (Fof tbl (.ptr id)).beq (plain c (.obj id tn disp as)) && cohBAttrs c tbl as
  | _ => true
def cohBList (c : Cfg) (tbl : List (Key × Ev)) : List V → Bool
  | [] => true | v :: vs => cohB c tbl v && cohBList c tbl vs
def cohBPairs (c : Cfg) (tbl : List (Key × Ev)) : List (V × V) → Bool
  | [] => true | (k, v) :: es => cohB c tbl k && cohB c tbl v && cohBPairs c tbl es
def cohBAttrs (c : Cfg) (tbl : List (Key × Ev)) : List (String × V) → Bool
  | [] => true | (_, v) :: as => cohB c tbl v && cohBAttrs c tbl as
end

/-- decidable sharing check: every node agrees with the first node of its identity -/
def sharedB (c : Cfg) (v : V) : Bool := cohB c (keysOf c v) v


end Pcore.Ser
