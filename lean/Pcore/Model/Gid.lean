/-!
# Model of `threadlocal.getg` — the goroutine-id parser (property C14) — core Lean only

`/repo/threadlocal/gid.go`:

```go
func getg() int64 {
	const prefixLen = 10 // Length of prefix "goroutine "
	var buf [64]byte
	l := runtime.Stack(buf[:64], false)
	n := int64(0)
	for i := prefixLen; i < l; i++ {
		d := buf[i]
		if d < 0x30 || d > 0x39 {
			break
		}
		n = n*10 + int64(d-0x30)
	}
	if n == 0 {
		panic(fmt.Errorf(`unable to retrieve id of current go routine`))
	}
	return n
}
```

| Go                                                        | Lean                                                    |
|-----------------------------------------------------------|---------------------------------------------------------|
| `const prefixLen = 10`                                    | `prefixLen`                                             |
| `var buf [64]byte`, `buf[:64]`                            | `bufLen`                                                |
| `l := runtime.Stack(buf[:64], false)`; the bytes `buf[:l]` | the argument `buf : List UInt8` of `getg` (`l = buf.length`; `getg` looks at `buf.take bufLen` only, so it is total on any list) |
| what `runtime.Stack` writes for goroutine `N`             | `stackBuf N rest` = `(stackHeader N rest).take bufLen`, `stackHeader N rest` = `"goroutine " ++ digits N ++ rest` (`rest` = `" [running]:\n…frames…"`, a parameter) |
| the runtime's decimal printing of the id (`print(gp.goid)`) | `digits`                                              |
| `d < 0x30 \|\| d > 0x39`                                  | `notDigit`                                              |
| `for i := prefixLen; i < l; i++ { … break … n = n*10 + int64(d-0x30) }` | `scan` (ℕ accumulator), `scan64` (int64 accumulator: two's-complement bit pattern, `% 2^64` after every step) — called on `(buf.take bufLen).drop prefixLen` = `buf[10:l]` |
| `int64` bit pattern read as a signed number               | `toInt64`                                               |
| `if n == 0 { panic(…) }; return n`                        | `getg … = none` / `some n` (ℕ arithmetic), `getg64` (int64 arithmetic, result in `Int`) |

The Go code computes in `int64`; `getg64` is the faithful model (`n*10 + d` wraps modulo 2^64 and is read as a signed
number; Go's signed multiplication/addition wrap exactly like the unsigned ones on the bit pattern).  `getg` is the same
loop with an unbounded accumulator; `Proofs/Gid.lean` proves they agree exactly for ids below 2^63
(`getg64_stackBuf_iff`).

`digits` recurses on `n / 10` with an explicit fuel (`n + 1` is always enough: `digitsFuel_eq`), so that it is
structurally recursive and the kernel can evaluate it in `decide` examples.

Trusted (not modelled, DESIGN §5): that `runtime.Stack(buf, false)` really writes `"goroutine "`, the decimal id of the
calling goroutine without leading zeros, then `" ["`; and returns the number of bytes written (`≤ len(buf)`).
-/

namespace Pcore.Gid

/-- `const prefixLen = 10 // Length of prefix "goroutine "` -/
def prefixLen : Nat := 10

/-- `var buf [64]byte` / `buf[:64]` -/
def bufLen : Nat := 64

/-- the UTF-8 bytes of a string, as a list -/
def bytes (s : String) : List UInt8 := s.toUTF8.data.toList

/-- `"goroutine "` — what `runtime.Stack` writes before the id -/
def goPrefix : List UInt8 := bytes "goroutine "

/-- the loop's exit test `d < 0x30 || d > 0x39` -/
def notDigit (d : UInt8) : Bool := d < 0x30 || d > 0x39

/-- the loop `for …; i < l; i++ { d := buf[i]; if notDigit d { break }; n = n*10 + int64(d-0x30) }` over the remaining bytes
`buf[i:l]`, accumulator in ℕ (no overflow) -/
def scan (n : Nat) : List UInt8 → Nat
  | [] => n                                            -- `i < l` is false
  | d :: ds =>
    if notDigit d then n                               -- `break`
    else scan (n * 10 + (d - 0x30).toNat) ds           -- `n = n*10 + int64(d-0x30)`

/-- the same loop with the `int64` accumulator represented by its 64-bit two's-complement pattern `n < 2^64` -/
def scan64 (n : Nat) : List UInt8 → Nat
  | [] => n
  | d :: ds =>
    if notDigit d then n
    else scan64 ((n * 10 + (d - 0x30).toNat) % 2 ^ 64) ds

/-- a 64-bit pattern read as a signed `int64` -/
def toInt64 (u : Nat) : Int := if u < 2 ^ 63 then (u : Int) else (u : Int) - 2 ^ 64

/-- the bytes the loop runs over: `buf[prefixLen:l]` with `l ≤ 64` -/
def window (buf : List UInt8) : List UInt8 := (buf.take bufLen).drop prefixLen

/-- `getg` with an unbounded accumulator; `none` = the `panic` of `if n == 0` -/
def getg (buf : List UInt8) : Option Nat :=
  let n := scan 0 (window buf)
  if n = 0 then none else some n

/-- `getg` with Go's `int64` arithmetic; `none` = the `panic` of `if n == 0` -/
def getg64 (buf : List UInt8) : Option Int :=
  let n := scan64 0 (window buf)
  if n = 0 then none else some (toInt64 n)

/-! ## what `runtime.Stack` writes -/

/-- the ASCII digit for `k < 10` -/
def digitByte (k : Nat) : UInt8 := (0x30 + k).toUInt8

/-- decimal rendering, most significant digit first; `fuel` bounds the recursion on `n / 10` -/
def digitsFuel : Nat → Nat → List UInt8
  | 0, _ => []
  | fuel + 1, n => if n < 10 then [digitByte n] else digitsFuel fuel (n / 10) ++ [digitByte (n % 10)]

/-- the decimal rendering the runtime prints: no leading zeros, `digits 0 = [0x30]`
(`digits_eq`: `digits n = if n < 10 then [digitByte n] else digits (n / 10) ++ [digitByte (n % 10)]`) -/
def digits (n : Nat) : List UInt8 := digitsFuel (n + 1) n

/-- the full (untruncated) first line and frames of goroutine `n`'s stack dump; `rest` is everything after the id -/
def stackHeader (n : Nat) (rest : List UInt8) : List UInt8 := goPrefix ++ digits n ++ rest

/-- what `runtime.Stack(buf[:64], false)` leaves in `buf[:l]`: the dump truncated to the buffer -/
def stackBuf (n : Nat) (rest : List UInt8) : List UInt8 := (stackHeader n rest).take bufLen

end Pcore.Gid
