import Pcore.Props.C12
open Pcore.LoaderSeq
#print axioms C12_placeholder
