import Pcore.Props.C12
open Pcore.LoaderSeq
#print axioms C12_load
#print axioms C12_load_foreign
#print axioms C12_lookups_pure
#print axioms C12_has
#print axioms C12_get
#print axioms C12_writeonce
#print axioms C12_writeonce_run
#print axioms C12_redefine
#print axioms C12_redefine_equal
#print axioms C12_define_new
#print axioms C12_stable
#print axioms C12_stable_ops
#print axioms C12_miss_then_define
#print axioms C12_case
#print axioms C12_case_ops
#print axioms C12_wf_run
#print axioms C12_discover
#print axioms C12_ts_load
#print axioms C12_ts_has
#print axioms C12_ts_lookups_pure
#print axioms C12_ts_define
#print axioms C12_ts_other
#print axioms C12_ts_member_shadows
#print axioms C12_assertion_fault_before_fix
#print axioms C12_discover_placeholder_before_fix
