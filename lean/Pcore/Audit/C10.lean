import Pcore.Props.C10
open Pcore.Ser
#print axioms C10_positions
#print axioms C10_hash_alternation
#print axioms C10_caps
#print axioms C10_refs_wellformed
#print axioms C10_roundtrip_partial
#print axioms C10_shared_of_check
#print axioms C10_reserved_key_collision
#print axioms unb64_b64
#print axioms C10_arms_ok
#print axioms C10_table
#print axioms C10_impl_positions
#print axioms C10_impl_caps
#print axioms C10_impl_refs_wellformed
#print axioms C10_impl_roundtrip
#print axioms C10_span_codec
#print axioms C10_span_canonical
#print axioms mkCfg_keys
#print axioms Inv.init
#print axioms Rel.init
#print axioms CInv.init
#print axioms MInv.init
