import Pcore.Props.C10
open Pcore.Ser
