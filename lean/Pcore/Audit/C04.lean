import Pcore.Props.C04
open Pcore.Lat
#print axioms C04_ptype_scalar
#print axioms C04_dtype_scalar
#print axioms C04_dtype_struct
#print axioms C04_ptype
#print axioms C04_dtype
#print axioms C04_common_fam
#print axioms C04_ptype_of_family
#print axioms C04_generalize_partial
#print axioms C04_accepts_sound_partial
#print axioms C04_accepts_sound
#print axioms C04_common_unit
#print axioms C04_common_accepts_left
#print axioms C04_common_tail
#print axioms C04_generalize_float_inf_repaired
#print axioms C04_scalar_timespan_repaired
#print axioms C04_accepts_complete_fails_object
#print axioms C04_dtype_full_fails_emptykey
#print axioms C04_common_iterable_repaired
#print axioms C04_generalize_variant_partial
#print axioms C04_common_partial
#print axioms C04_common_full_fails_unit
#print axioms C04_ptype_typ
#print axioms C04_common_famT
#print axioms C04_dtype_typ
#print axioms C04_accepts_sound_typ
