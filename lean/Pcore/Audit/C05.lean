import Pcore.Props.C05
open Pcore.Syntax
#print axioms C05_string
#print axioms C05_regexp
#print axioms C05_regexp_escaped_slash_fails
#print axioms C05_regexp_raw_newline_fails
#print axioms C05_int
#print axioms C05_value_roundtrip
