import Pcore.Props.C05
open Pcore.Syntax
#print axioms C05_placeholder
