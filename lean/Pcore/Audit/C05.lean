import Pcore.Props.C05
open Pcore.Syntax
#print axioms C05_string
#print axioms C05_regexp
#print axioms C05_regexp_escaped_slash_fails
#print axioms C05_regexp_raw_newline_fails
#print axioms C05_int
#print axioms C05_value_roundtrip
#print axioms C05_type_roundtrip_partial
#print axioms C05_type_reprint
#print axioms C05_exact_string_prints_plain
#print axioms C05_struct_key_forms
#print axioms C05_callable_unit_dropped
#print axioms C05_callable_leading_tuple
#print axioms C05_typed_value_roundtrip
#print axioms C05_runtime_pattern_without_name_before_fix
#print axioms C05_runtime_pattern_without_name_repaired
#print axioms C05_float_text_lexes
#print axioms C05_float_leaf
