import Pcore.Props.C15
open Pcore.Files
#print axioms C15_path_name
#print axioms C15_index_iff
#print axioms C15_reserved_names
#print axioms C15_once
#print axioms C15_once_from
#print axioms C15_once_needs_guard
#print axioms C15_found_sound
#print axioms C15_name
#print axioms C15_name_fresh
#print axioms C15_found_iff_global
#print axioms C15_absent_global
#print axioms C15_error_global
#print axioms C15_module_outcome
#print axioms C15_found_iff_module
#print axioms C15_dependency_outcome
#print axioms C15_found_iff_dependency
#print axioms C15_absent_module
#print axioms C15_misnamed_no_line
#print axioms C15_duplicate_redefine
