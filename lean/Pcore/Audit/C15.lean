import Pcore.Props.C15
