import Pcore.Props.C18
open Pcore.Reflect
