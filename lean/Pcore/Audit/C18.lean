import Pcore.Props.C18
open Pcore.Reflect
#print axioms C18_roundtrip
#print axioms C18_type_accepts
#print axioms C18_bridge
#print axioms C18_roundtrip_iff
#print axioms C18_type_accepts_iff
#print axioms C18_int_width
#print axioms C18_uint_width
#print axioms C18_roundtrip_unsigned_wraps
#print axioms C18_map_any_order
#print axioms C18_struct
#print axioms C18_defaults_restored
#print axioms C18_nil_slice_becomes_empty
#print axioms C18_nil_map_becomes_empty
#print axioms C18_ptr_to_nil_collapses
#print axioms C18_iface_int_width
#print axioms C18_iface_float_width
#print axioms C18_roundtrip_full_fails
#print axioms C18_uint64_overflow
#print axioms C18_float_inf_rejected
#print axioms C18_float64_inf_repaired
#print axioms C18_bytes_become_binary
#print axioms C18_nil_slice_undef_rejected
#print axioms C18_nil_map_undef_rejected
#print axioms C18_type_accepts_full_fails
