import Pcore.Props.C01
open Pcore.Lat
#print axioms C01_sound_partial
#print axioms C01_sound_rule_on
#print axioms C01_undef_complete
#print axioms C01_full_fails_iterable_elem
#print axioms C01_full_fails_iterable_binary
#print axioms C01_sfh_witness
#print axioms C01_unsound_only_by_rule
#print axioms C01_sound_type_receiver
#print axioms C01_type_callable_witness
#print axioms C01_sound_type_receiver_callable
