import Pcore.Props.C14
open Pcore.Tls
#print axioms C14_stub
