import Pcore.Props.C14
open Pcore.Tls
#print axioms C14_current_exec
#print axioms C14_current
#print axioms C14_restore
#print axioms C14_restore_doctx
#print axioms C14_restore_do
#print axioms C14_restore_try
#print axioms C14_restore_loader
#print axioms C14_confined
#print axioms C14_fork_view
#print axioms C14_fork_isolated_partial
#print axioms C14_child_view_stable
#print axioms C14_child_invisible
#print axioms C14_fork_isolated_defs
#print axioms C14_fork_isolated
#print axioms C14_child_defs_invisible
#print axioms C14_loads_unaffected
#print axioms C14_released
#print axioms C14_released_goroutine
#print axioms C14_before_not_released
#print axioms C14_before_try_not_released
#print axioms C14_before_nested_do_not_restored
#print axioms C14_before_fork_copy_late
#print axioms C14_before_fork_shares_context
