import Pcore.Props.C20
open Pcore.Format
#print axioms C20_letters
#print axioms C20_directive_go
#print axioms C20_unparse_go
#print axioms C20_total_map
#print axioms C20_total
#print axioms C20_reported
#print axioms C20_unsupported_iff
#print axioms C20_unsupported_iff_directive
#print axioms C20_unsupported_array
#print axioms C20_unsupported_hash
#print axioms C20_int_ref_partial
#print axioms C20_int_ref_fails_zero
#print axioms C20_int_ref_fails_alt_zeropad
#print axioms C20_radix_back
#print axioms C20_bin_ref
#print axioms C20_ctor_back
#print axioms C20_ctor_back_fails
#print axioms C20_width
#print axioms C20_pad_side_text
#print axioms C20_pad_side_pbB
#print axioms C20_pad_side_int
#print axioms C20_container_alt
#print axioms C20_alt_line_break
#print axioms C20_container_rec
#print axioms C20_container_array
#print axioms C20_container_hash
