import Pcore.Props.C08
open Pcore.Heap
#print axioms C08_idioms_safe
#print axioms C08_refine
#print axioms C08_stable
#print axioms C08_sealed
#print axioms C08_impl
#print axioms C08_appendToReceiver_breaks
#print axioms C08_appendToReceiver_refutes
#print axioms C08_resliceThenAppend_breaks
#print axioms C08_inPlace_breaks
#print axioms C08_caches_safe
#print axioms C08_cache_coherent
#print axioms C08_stale_cache_breaks
#print axioms C08_pointer_stable
#print axioms C08_new_results_fresh
#print axioms C08_sort_fresh
#print axioms C08_observers_heap_unchanged
open Pcore.Immut
#print axioms C08_field_writes_safe
#print axioms C08_resolve_frame
#print axioms C08_resolve_history_free
#print axioms C08_resolve_impl
#print axioms C08_resolve_memo_breaks
#print axioms C08_serializer_reads_only
#print axioms C08_mutator_calls_safe
#print axioms C08_alias_accessors_reviewed
open Pcore.Mut
#print axioms C08_mutable_results_partial
#print axioms C08_mutable_alias_sites
#print axioms C08_mutable_alias_changes_before_fix
#print axioms C08_mutable_alias_refutes_before_fix
#print axioms C08_mutable_frozen_immutable
#print axioms C08_mutable_sites_frozen
#print axioms C08_mutable_impl
