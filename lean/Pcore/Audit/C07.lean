import Pcore.Props.C07
open Pcore.ValueEq
#print axioms C07_refl
#print axioms C07_symm
#print axioms C07_trans
#print axioms C07_no_fault
#print axioms C07_key_inj
#print axioms C07_key_iff
#print axioms C07_key_iff_fails_raw_string
#print axioms C07_key_iff_fails_member_order
#print axioms C07_not_key_iff_full
#print axioms C07_get_fails_raw_string
#print axioms C07_unique_fails_raw_string
#print axioms C07_unique_fails_member_order
#print axioms C07_type_key_iff
#print axioms C07_type_ordered_imp_eq
#print axioms C07_get_sound
#print axioms C07_get_complete
#print axioms C07_get
#print axioms C07_unique_sub
#print axioms C07_unique_cover
#print axioms C07_unique_distinct
#print axioms tyKey_sound
#print axioms TopSafe_of_not_str
#print axioms TopSafe_of_str
#print axioms TypeKeysAgree_of_no_types
#print axioms TypeKeysAgree_of_ordered
