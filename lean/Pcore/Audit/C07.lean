import Pcore.Props.C07
