import Pcore.Props.C13
open Pcore.LoaderConc Pcore.Lockset Pcore.LazyCache Pcore.Instantiate
#print axioms C13_writeonce
#print axioms C13_writeonce_reach
#print axioms C13_agree
#print axioms C13_found_has_source
#print axioms C13_nocrash
#print axioms C13_sc_partial
#print axioms C13_load_answer
#print axioms C13_full_fails
#print axioms C13_miss_window_crash_before_fix
#print axioms C13_once
#print axioms C13_once_bound
#print axioms C13_placeholder_visible
#print axioms C13_cfg_of_table
#print axioms C13_lazy_caches
#print axioms C13_publish_order_fails
#print axioms C13_publish_ok
#print axioms C13_cache_half_built
#print axioms C13_lockset_norace
#print axioms C13_lockset_ok
#print axioms C13_impl_norace
open Pcore.ConcQueue
#print axioms C13_queue_sites_ok
#print axioms C13_queue_cfg_current
#print axioms C13_queue_reslice_loses
#print axioms C13_queue_keep_resolves_twice
