import Pcore.Props.C13
open Pcore.LoaderConc
#print axioms C13_placeholder
