import Pcore.Props.C13
open Pcore.LoaderConc Pcore.Lockset Pcore.LazyCache Pcore.Instantiate
#print axioms C13_writeonce
#print axioms C13_writeonce_reach
#print axioms C13_agree
#print axioms C13_found_has_source
#print axioms C13_nocrash
#print axioms C13_sc_partial
#print axioms C13_load_answer
#print axioms C13_discover_sandwich
#print axioms C13_discover_answer
#print axioms C13_full_fails
#print axioms C13_miss_window_crash_before_fix
#print axioms C13_once
#print axioms C13_once_bound
#print axioms C13_once_errors
#print axioms C13_broken_never_bound
#print axioms C13_placeholder_visible
#print axioms C13_cfg_of_table
#print axioms C13_lazy_caches
#print axioms C13_publish_order_fails
#print axioms C13_publish_ok
#print axioms C13_cache_half_built
#print axioms C13_lazy_caches_slow
#print axioms C13_publish_completion_ok
#print axioms C13_cache_never_narrow
#print axioms C13_impl_never_narrow
#print axioms C13_cache_fold_narrow
#print axioms C13_lockset_norace
#print axioms C13_lockset_ok
#print axioms C13_impl_norace
#print axioms C13_rt_lockset_ok
#print axioms C13_rt_norace
#print axioms C13_rt_lockset_clean
#print axioms C13_rt_systemloader_read_raced_before_fix
open Pcore.ConcQueue
#print axioms C13_queue_sites_ok
#print axioms C13_queue_cfg_current
#print axioms C13_queue_reslice_loses
#print axioms C13_queue_keep_resolves_twice
#print axioms C13_queue_cfg_of_table
#print axioms C13_queue_once
#print axioms C13_queue_declared_only
#print axioms C13_queue_exactly_once
#print axioms C13_queue_bound_before_resolve
#print axioms C13_queue_reads_popped
#print axioms C13_queue_impl_exactly_once
#print axioms C13_queue_full_fails_reslice
#print axioms C13_queue_full_fails_keep
-- added by the audit (notes/audit-C13.md): the witness of the per-level reading of C13_agree, and the three helper lemmas of
-- the lock-set section that live in the Props file
#print axioms C13_agree_is_per_level
#print axioms Pcore.Lockset.holds_iff
#print axioms Pcore.Lockset.excl_of_held
#print axioms Pcore.Lockset.guarded_holds
