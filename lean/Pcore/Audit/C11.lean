import Pcore.Props.C11
open Pcore.Json
#print axioms C11_table_ok
#print axioms C11_write
#print axioms C11_valid
#print axioms C11_read_write
#print axioms C11_impl_valid
#print axioms C11_impl_read_write
#print axioms C11_pref_collision
#print axioms C11_pb_value
#print axioms C11_pb_stream
#print axioms C11_pb_events
#print axioms C11_pb_arms_ok
#print axioms C11_impl_pb
#print axioms pbArmsOK_mem
#print axioms pb_value
#print axioms pb_values
#print axioms pb_entries
#print axioms pb_stream
#print axioms pb_streams
#print axioms pb_streames
#print axioms isStrKey_ofSer
#print axioms wf_ofSer
#print axioms wfs_ofSers
#print axioms wfkv_ofSers
#print axioms C11_wf_of_serializer_stream
#print axioms C11_serializer_output_valid
#print axioms C11_read_write_full_fails
