import Pcore.Props.C11
open Pcore.Json
#print axioms C11_table_ok
#print axioms C11_write
#print axioms C11_valid
#print axioms C11_read_write
#print axioms C11_impl_valid
#print axioms C11_impl_read_write
#print axioms C11_pref_collision
#print axioms C11_pb_value
#print axioms C11_pb_stream
#print axioms C11_pb_events
#print axioms C11_pb_arms_ok
#print axioms C11_impl_pb
