import Pcore.Props.C06
open Pcore.Syntax
#print axioms C06_lex_progress
#print axioms C06_lex_suffix
#print axioms C06_terminates
#print axioms C06_no_fault
#print axioms C06_outcome
#print axioms C06_location
#print axioms C06_loops_exit
#print axioms C06_loops_progress
#print axioms C06_loops_terminate
