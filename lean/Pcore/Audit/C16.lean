import Pcore.Props.C16
open Pcore.Dispatch
#print axioms C16_builder_inv
#print axioms C16_builder_arith
#print axioms C16_builder_rejects
#print axioms C16_resolves
#print axioms C16_first
#print axioms C16_first_conv
#print axioms C16_safe
#print axioms C16_nomatch
#print axioms C16_decl
#print axioms C16_run_first
#print axioms C16_run_nomatch
#print axioms C16_run_no_fault
#print axioms C16_new
#print axioms C16_new_outside
#print axioms Alpha.C16_newm
#print axioms Alpha.C16_ctor_no_fault
#print axioms Alpha.C16_new_struct
#print axioms C16_call_stateless
#print axioms C16_call_history_free
#print axioms C16_runSeq_first
#print axioms C16_fn_facts
