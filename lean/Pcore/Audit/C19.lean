import Pcore.Props.C19
open Pcore.Lat
#print axioms C19_empty_iff
#print axioms C19_assert_iff
#print axioms C19_nonempty_iff
#print axioms C19_assert_sound
