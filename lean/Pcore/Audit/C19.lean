import Pcore.Props.C19
open Pcore.Lat
#print axioms C19_empty_iff
#print axioms C19_assert_iff
#print axioms C19_nonempty_iff
#print axioms C19_assert_sound
#print axioms C19_assert_described_partial
#print axioms C19_assert_described_fails_iterable_binary
#print axioms C19_empty_iff_anyrule
open Pcore.Desc
#print axioms C19_describe_total
#print axioms C19_describe_empty_iff
#print axioms C19_describe_nonempty
#print axioms C19_describe_justified
#print axioms C19_path_valid
#print axioms C19_prefix_kept
#print axioms C19_names_subject
#print axioms C19_missingKey_real
#print axioms C19_missingKey_real_any
#print axioms C19_extraneousKey_real
#print axioms C19_sizeMismatch_merged_hull
#print axioms C19_sizeMismatch_real_false
#print axioms C19_typeMismatch_nested_wrapper
#print axioms C19_typeMismatch_real_false
#print axioms C19_signatures_total
#print axioms C19_signatures_fault_nilSize
#print axioms C19_signatures_fault_nilParams
#print axioms C19_signatures_fault_paramIndex
#print axioms C19_sizeMismatch_real_partial
#print axioms C19_countMismatch_real_partial
#print axioms C19_typeMismatch_real_partial
#print axioms C19_patternMismatch_real_partial
#print axioms C19_skeleton_agrees
#print axioms C19_assert_message_partial
