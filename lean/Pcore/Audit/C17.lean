import Pcore.Props.C17
open Pcore.Object
#print axioms C17_wf_define
#print axioms C17_wf_env
#print axioms C17_wf_noSerialization
#print axioms C17_schema_partial
#print axioms C17_schema_table_ok
#print axioms C17_schema_admits
#print axioms C17_schema
#print axioms C17_schema_impl
#print axioms C17_get
#print axioms C17_get_constant
#print axioms C17_get_named
#print axioms C17_pos_named
#print axioms C17_inithash
#print axioms C17_equals_total
#print axioms C17_equality
#print axioms C17_equality_symmetric
#print axioms C17_include_type_honoured
#print axioms C17_subtype
#print axioms C17_subtype_strict
#print axioms C17_type_inithash_partial
#print axioms C17_type_inithash_same
#print axioms C17_type_inithash_constant_undef
#print axioms C17_instance_closure
#print axioms C17_assignable_closure
#print axioms C17_get_named_plain
#print axioms C17_named_notundef_undef
