import Pcore.Props.C03
open Pcore.Lat
#print axioms C03_refl
#print axioms C03_top
#print axioms C03_unit
#print axioms C03_variant
#print axioms C03_optional
#print axioms C03_mono_array
#print axioms C03_mono_hash_key
#print axioms C03_mono_hash_value
#print axioms C03_mono_variant
#print axioms C03_mono_optional
#print axioms C03_mono_notUndef
#print axioms C03_mono_type
#print axioms C03_mono_sensitive
#print axioms C03_mono_iterable
#print axioms C03_widen_int
#print axioms C03_widen_float
#print axioms C03_widen_timespan
#print axioms C03_widen_string
#print axioms C03_widen_collection
#print axioms C03_widen_array
#print axioms C03_widen_hash
#print axioms C03_trans_partial
#print axioms C03_trans_fails_sfh
#print axioms C03_trans_fails_iterable
#print axioms C03_trans_false
