import Pcore.Props.C09
open Pcore.Coll
#print axioms C09_spec_get_put
#print axioms C09_spec_keys_put
#print axioms C09_spec_get_delete
#print axioms C09_spec_keys_delete
#print axioms C09_spec_nodup_put
#print axioms C09_spec_nodup_delete
#print axioms C09_spec_nodup_merge
#print axioms C09_spec_nodup_ofList
#print axioms C09_sh_inv
#print axioms C09_sh_inv_new
#print axioms C09_sh_index_iff
#print axioms C09_sh_refine
#print axioms C09_sh_refine_new
#print axioms C09_sh_no_fault
#print axioms C09_sh_delete_keeps_reachable
#print axioms C09_sh_frozen
#print axioms C09_sh_frozen_rejected
#print axioms C09_hash_inv
#print axioms C09_hash_refine_partial
#print axioms C09_hash_index_iff
#print axioms C09_mutable_putAll
#print axioms C09_hash_literal_dup_keys
#print axioms C09_hash_refine_full_fails
