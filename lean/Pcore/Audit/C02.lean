import Pcore.Props.C02
open Pcore.Lat
#print axioms C02_inst_iff_den
#print axioms C02_struct_counting
#print axioms C02_int_inclusive
#print axioms C02_string_counts_characters
#print axioms C02_enum_never_admits_unlisted
#print axioms C02_pattern_empty_string
#print axioms C02_optional
#print axioms C02_notundef
#print axioms C02_type_exact
#print axioms C02_iterator_empty
