import Pcore.Proofs.LatDenMain
import Pcore.Proofs.LatSoundMain
set_option linter.unusedSimpArgs false
set_option linter.unusedVariables false
/-! C01: the instance relation does not depend on the exempt Struct-from-Hash rule (for types without `Type[..]` / `Iterable[..]`),
    hence every unsound acceptance of the code is an acceptance that the rule-off relation does not grant. -/
namespace Pcore.Lat
variable (cfg : Cfg)

/-- hereditarily no `Type[..]` and no `Iterable[..]`: the two places where the instance relation asks an assignability question -/
def Ty.Plain (t : Ty) : Prop :=
  match t with
  | .iterable _ | .typ _ => False
  | .array e _ => Ty.Plain e
  | .hash k v _ => Ty.Plain k ∧ Ty.Plain v
  | .tuple ts _ => ∀ t', ∀ (_ : t' ∈ ts), Ty.Plain t'
  | .struct ms => ∀ m, ∀ (_ : m ∈ ms), Ty.Plain m.2.2
  | .variant ts => ∀ t', ∀ (_ : t' ∈ ts), Ty.Plain t'
  | .optional t' | .notUndef t' | .sensitive t' | .iterator t' => Ty.Plain t'
  | _ => True
termination_by t.w
decreasing_by
  all_goals simp_wf
  all_goals (try simp only [Ty.w, Ty.wl, Ty.wm] at *)
  all_goals first
    | omega
    | (have := Ty.w_lt_wl ‹_ ∈ _›; omega)
    | (have := Ty.w_lt_wm ‹_ ∈ _›; omega)

/-- the set denotation of a plain type is the same for both settings of the rule -/
theorem den_sfh : ∀ (n : Nat) (t : Ty) (v : Val), t.w ≤ n → t.Plain → (Den cfg true t v ↔ Den cfg false t v) := by
  intro n
  induction n with
  | zero => intro t v h; have := Ty.w_pos t; omega
  | succ n ih =>
    intro t v hw hp
    cases t with
    | bool r => cases r <;> (unfold Den; exact Iff.rfl)
    | object p => cases p <;> (unfold Den; exact Iff.rfl)
    | iterable _ => unfold Ty.Plain at hp; exact absurd hp id
    | typ _ => unfold Ty.Plain at hp; exact absurd hp id
    | array e r =>
      unfold Ty.Plain at hp; simp only [Ty.w] at hw
      unfold Den
      constructor <;> rintro ⟨vs, rfl, hr, hall⟩ <;> refine ⟨vs, rfl, hr, fun x hx => ?_⟩
      · exact (ih e x (by omega) hp).1 (hall x hx)
      · exact (ih e x (by omega) hp).2 (hall x hx)
    | hash k x r =>
      unfold Ty.Plain at hp; simp only [Ty.w] at hw
      unfold Den
      constructor <;> rintro ⟨es, rfl, hr, hall⟩ <;> refine ⟨es, rfl, hr, fun e he => ?_⟩
      · exact ⟨(ih k e.1 (by omega) hp.1).1 (hall e he).1, (ih x e.2 (by omega) hp.2).1 (hall e he).2⟩
      · exact ⟨(ih k e.1 (by omega) hp.1).2 (hall e he).1, (ih x e.2 (by omega) hp.2).2 (hall e he).2⟩
    | tuple ts g =>
      unfold Ty.Plain at hp; simp only [Ty.w] at hw
      unfold Den
      constructor <;> rintro ⟨vs, rfl, hr, hall⟩ <;> refine ⟨vs, rfl, hr, fun i t' x ht hx => ?_⟩
      · have hm := List.mem_of_getElem? ht
        exact (ih t' x (by have := Ty.w_lt_wl hm; omega) (hp t' hm)).1 (hall i t' x ht hx)
      · have hm := List.mem_of_getElem? ht
        exact (ih t' x (by have := Ty.w_lt_wl hm; omega) (hp t' hm)).2 (hall i t' x ht hx)
    | struct ms =>
      unfold Ty.Plain at hp; simp only [Ty.w] at hw
      unfold Den
      constructor <;> rintro ⟨es, rfl, hdecl, hreq⟩ <;> refine ⟨es, rfl, fun e he => ?_, hreq⟩
      · obtain ⟨m, hm, hk, hd⟩ := hdecl e he
        exact ⟨m, hm, hk, (ih m.2.2 e.2 (by have := Ty.w_lt_wm hm; omega) (hp m hm)).1 hd⟩
      · obtain ⟨m, hm, hk, hd⟩ := hdecl e he
        exact ⟨m, hm, hk, (ih m.2.2 e.2 (by have := Ty.w_lt_wm hm; omega) (hp m hm)).2 hd⟩
    | variant ts =>
      unfold Ty.Plain at hp; simp only [Ty.w] at hw
      unfold Den
      constructor <;> rintro ⟨t', hm, hd⟩
      · exact ⟨t', hm, (ih t' v (by have := Ty.w_lt_wl hm; omega) (hp t' hm)).1 hd⟩
      · exact ⟨t', hm, (ih t' v (by have := Ty.w_lt_wl hm; omega) (hp t' hm)).2 hd⟩
    | optional t' =>
      unfold Ty.Plain at hp; simp only [Ty.w] at hw
      unfold Den
      constructor <;> rintro (h | h)
      · exact Or.inl h
      · exact Or.inr ((ih t' v (by omega) hp).1 h)
      · exact Or.inl h
      · exact Or.inr ((ih t' v (by omega) hp).2 h)
    | notUndef t' =>
      unfold Ty.Plain at hp; simp only [Ty.w] at hw
      unfold Den
      constructor <;> rintro ⟨h1, h2⟩
      · exact ⟨h1, (ih t' v (by omega) hp).1 h2⟩
      · exact ⟨h1, (ih t' v (by omega) hp).2 h2⟩
    | sensitive t' =>
      unfold Ty.Plain at hp; simp only [Ty.w] at hw
      unfold Den
      constructor <;> rintro ⟨x, rfl, h⟩
      · exact ⟨x, rfl, (ih t' x (by omega) hp).1 h⟩
      · exact ⟨x, rfl, (ih t' x (by omega) hp).2 h⟩
    | _ => unfold Den; exact Iff.rfl

theorem Ty.Plain.ref : ∀ (n : Nat) (t : Ty), t.w ≤ n → t.Plain → t.Ref := by
  intro n
  induction n with
  | zero => intro t h; have := Ty.w_pos t; omega
  | succ n ih =>
    intro t hw hp
    cases t <;> unfold Ty.Ref <;> (try trivial) <;> unfold Ty.Plain at hp <;> simp only [Ty.w] at hw
    · exact ih _ (by omega) hp
    · exact ⟨ih _ (by omega) hp.1, ih _ (by omega) hp.2⟩
    · exact fun t' hm => ih t' (by have := Ty.w_lt_wl hm; omega) (hp t' hm)
    · exact fun m hm => ih m.2.2 (by have := Ty.w_lt_wm hm; omega) (hp m hm)
    · exact fun t' hm => ih t' (by have := Ty.w_lt_wl hm; omega) (hp t' hm)
    · exact ih _ (by omega) hp
    · exact ih _ (by omega) hp
    · exact ih _ (by omega) hp
    · exact hp
    · exact ih _ (by omega) hp

theorem Ty.Plain.frag : ∀ (n : Nat) (t : Ty), t.w ≤ n → t.Plain → t.Frag false := by
  intro n
  induction n with
  | zero => intro t h; have := Ty.w_pos t; omega
  | succ n ih =>
    intro t hw hp
    cases t <;> unfold Ty.Frag <;> (try trivial) <;> unfold Ty.Plain at hp <;> simp only [Ty.w] at hw
    · exact ih _ (by omega) hp
    · exact ⟨ih _ (by omega) hp.1, ih _ (by omega) hp.2⟩
    · exact fun t' hm => ih t' (by have := Ty.w_lt_wl hm; omega) (hp t' hm)
    · exact ⟨rfl, fun m hm => ih m.2.2 (by have := Ty.w_lt_wm hm; omega) (hp m hm)⟩
    · exact fun t' hm => ih t' (by have := Ty.w_lt_wl hm; omega) (hp t' hm)
    · exact ih _ (by omega) hp
    · exact ih _ (by omega) hp
    · exact absurd hp id
    · exact ih _ (by omega) hp
    · exact hp
    · exact ih _ (by omega) hp

/-- the instance relation of a plain type is the same for both settings of the rule -/
theorem inst_sfh (t : Ty) (v : Val) (wt : Ty.WF cfg t) (pt : t.Plain) (ok : v.OK) :
    inst cfg true t v = inst cfg false t v := by
  have r := Ty.Plain.ref t.w t (Nat.le_refl _) pt
  have h1 := inst_iff_den cfg true t.w t v (Nat.le_refl _) wt r ok
  have h2 := inst_iff_den cfg false t.w t v (Nat.le_refl _) wt r ok
  have h3 := den_sfh cfg t.w t v (Nat.le_refl _) pt
  cases ha : inst cfg true t v <;> cases hb : inst cfg false t v <;> simp_all

end Pcore.Lat
