import Pcore.Proofs.SerMemo
/-! Helper lemmas for C10, part 6: with de-duplication off (`local_reference=false` or `dedup_level=0`) the serializer
    emits exactly the reference-free stream `plain`, whatever the level and the state. -/
namespace Pcore.Ser

theorem strData_nodedup (c : Cfg) (h : c.dedup = 0) (level : Nat) (s : String) (st : St) :
    (strData c level s st).1 = .add (.str s) := by
  unfold strData
  split
  · simp [seen, h]
  · rfl

theorem head3_nodedup (c : Cfg) (h : c.dedup = 0) (tl : Nat) (tn : String) (st : St) :
    (head3 c tl tn st).1 = [ptypeEv, .add (.str tn), pvalueEv] := by
  simp [head3, strData_nodedup c h, ptypeEv, pvalueEv]

mutual
theorem toData_nodedup (c : Cfg) (h : c.dedup = 0) : ∀ (level : Nat) (v : V) (st : St), (toData c level v st).1 = plain c v
  | _, .undef, _ => by simp [toData, plain]
  | _, .bool _, _ => by simp [toData, plain]
  | _, .int _, _ => by simp [toData, plain]
  | _, .flt _, _ => by simp [toData, plain]
  | level, .str s, st => by simp [toData, plain, strData_nodedup c h]
  | _, .dflt, st => by
      simp only [toData, plain]
      split <;> simp [strData_nodedup c h, ptypeEv]
  | _, .hash id es, st => by
      simp only [toData, plain, seen, h, if_true]
      split
      · simp [pairsData_nodedup c h es]
      · split
        · simp [head3_nodedup c h, flatData_nodedup c h es, typed]
        · simp [skeyData_nodedup c h es]
  | _, .arr id vs, st => by
      simp only [toData, plain, seen, h, if_true]
      simp [listData_nodedup c h vs]
  | level, .sens id v, st => by
      simp only [toData, plain, seen, h, if_true]
      split
      · simp [head3_nodedup c h, toData_nodedup c h 1 v, typed]
      · simp [strData_nodedup c h]
  | level, .bin id bs, st => by
      simp only [toData, plain, seen, h, if_true]
      split
      · simp
      · split
        · simp [head3_nodedup c h, strData_nodedup c h, typed]
        · simp [strData_nodedup c h]
  | _, .leaf id k enc disp, st => by
      simp only [toData, plain, seen, h, if_true]
      split
      · simp [head3_nodedup c h, strData_nodedup c h, typed]
      · simp [strData_nodedup c h]
  | _, .obj id tn disp attrs, st => by
      simp only [toData, plain, seen, h, if_true]
      split
      · simp [strData_nodedup c h, attrsData_nodedup c h attrs, ptypeEv]
      · simp [strData_nodedup c h]
theorem listData_nodedup (c : Cfg) (h : c.dedup = 0) : ∀ (vs : List V) (st : St), (listData c vs st).1 = plainList c vs
  | [], _ => by simp [listData, plainList]
  | v :: vs, st => by simp [listData, plainList, toData_nodedup c h 1 v, listData_nodedup c h vs]
theorem pairsData_nodedup (c : Cfg) (h : c.dedup = 0) : ∀ (es : List (V × V)) (st : St),
    (pairsData c es st).1 = plainPairs c es
  | [], _ => by simp [pairsData, plainPairs]
  | (k, v) :: es, st => by
      simp [pairsData, plainPairs, toData_nodedup c h 2 k, toData_nodedup c h 1 v, pairsData_nodedup c h es]
theorem flatData_nodedup (c : Cfg) (h : c.dedup = 0) : ∀ (es : List (V × V)) (st : St),
    (flatData c es st).1 = plainPairs c es
  | [], _ => by simp [flatData, plainPairs]
  | (k, v) :: es, st => by
      simp [flatData, plainPairs, toData_nodedup c h 1 k, toData_nodedup c h 1 v, flatData_nodedup c h es]
theorem skeyData_nodedup (c : Cfg) (h : c.dedup = 0) : ∀ (es : List (V × V)) (st : St),
    (skeyData c es st).1 = plainSKeys c es
  | [], _ => by simp [skeyData, plainSKeys]
  | (k, v) :: es, st => by
      simp [skeyData, plainSKeys, strData_nodedup c h, toData_nodedup c h 1 v, skeyData_nodedup c h es]
theorem attrsData_nodedup (c : Cfg) (h : c.dedup = 0) : ∀ (as : List (String × V)) (st : St),
    (attrsData c as st).1 = plainAttrs c as
  | [], _ => by simp [attrsData, plainAttrs]
  | (k, v) :: as, st => by
      simp [attrsData, plainAttrs, strData_nodedup c h, toData_nodedup c h 1 v, attrsData_nodedup c h as]
end

mutual
/-- `plain` looks at rich_data and the consumer's capabilities only -/
theorem plain_congr (c c' : Cfg) (h1 : c'.rich = c.rich) (h2 : c'.bin = c.bin) (h3 : c'.cplx = c.cplx) :
    ∀ (v : V), plain c' v = plain c v
  | .undef => by simp [plain]
  | .bool _ => by simp [plain]
  | .int _ => by simp [plain]
  | .flt _ => by simp [plain]
  | .str _ => by simp [plain]
  | .dflt => by simp [plain, h1]
  | .hash _ es => by
      simp [plain, h1, h3, plainPairs_congr c c' h1 h2 h3 es, plainSKeys_congr c c' h1 h2 h3 es]
  | .arr _ vs => by simp [plain, plainList_congr c c' h1 h2 h3 vs]
  | .sens _ v => by simp [plain, h1, plain_congr c c' h1 h2 h3 v]
  | .bin _ _ => by simp [plain, h1, h2]
  | .leaf _ _ _ _ => by simp [plain, h1]
  | .obj _ _ _ as => by simp [plain, h1, plainAttrs_congr c c' h1 h2 h3 as]
theorem plainList_congr (c c' : Cfg) (h1 : c'.rich = c.rich) (h2 : c'.bin = c.bin) (h3 : c'.cplx = c.cplx) :
    ∀ (vs : List V), plainList c' vs = plainList c vs
  | [] => by simp [plainList]
  | v :: vs => by simp [plainList, plain_congr c c' h1 h2 h3 v, plainList_congr c c' h1 h2 h3 vs]
theorem plainPairs_congr (c c' : Cfg) (h1 : c'.rich = c.rich) (h2 : c'.bin = c.bin) (h3 : c'.cplx = c.cplx) :
    ∀ (es : List (V × V)), plainPairs c' es = plainPairs c es
  | [] => by simp [plainPairs]
  | (k, v) :: es => by
      simp [plainPairs, plain_congr c c' h1 h2 h3 k, plain_congr c c' h1 h2 h3 v, plainPairs_congr c c' h1 h2 h3 es]
theorem plainSKeys_congr (c c' : Cfg) (h1 : c'.rich = c.rich) (h2 : c'.bin = c.bin) (h3 : c'.cplx = c.cplx) :
    ∀ (es : List (V × V)), plainSKeys c' es = plainSKeys c es
  | [] => by simp [plainSKeys]
  | (k, v) :: es => by
      simp [plainSKeys, plain_congr c c' h1 h2 h3 v, plainSKeys_congr c c' h1 h2 h3 es]
theorem plainAttrs_congr (c c' : Cfg) (h1 : c'.rich = c.rich) (h2 : c'.bin = c.bin) (h3 : c'.cplx = c.cplx) :
    ∀ (as : List (String × V)), plainAttrs c' as = plainAttrs c as
  | [] => by simp [plainAttrs]
  | (k, v) :: as => by
      simp [plainAttrs, plain_congr c c' h1 h2 h3 v, plainAttrs_congr c c' h1 h2 h3 as]
end

end Pcore.Ser
