import Pcore.Proofs.LatTransDFold
set_option linter.unusedSimpArgs false
set_option linter.unusedVariables false
/-! C03, transitivity stage 4: the two unmodelled members of RichData, the `TypeSet` type and the `Deferred` meta type, exist in the
    model only as the acceptance predicates `accTypeSet a` / `accDeferred a` ("a accepts TypeSet / Deferred").  Transitivity with them
    on the right: if `a ⊒ b` and `b` accepts the member, so does `a` (`accTypeSet_mono`, `accDeferred_mono`). -/
namespace Pcore.Lat
variable (cfg : Cfg) (sfh : Bool)

/-- what the two predicates have in common -/
structure AccLike (P : Ty → Bool) : Prop where
  any : P .any = true
  ofRich : ∀ a : Ty, asg cfg sfh a .richData = true → P a = true
  data : P .data = false
  var : ∀ ts, P (.variant ts) = true ↔ ∃ m ∈ ts, P m = true
  opt : ∀ x, P (.optional x) = P x
  nu : ∀ x, P (.notUndef x) = P x
  /-- a plain type with the predicate is Any, RichData (handled apart) or one that only accepts through the rules below -/
  base : ∀ b : Ty, b.plainR = true → P b = true → b = .any ∨ b = .object none
  obj : P (.object none) = true → ∀ a : Ty, asg cfg sfh a (.object none) = true → P a = true

theorem accLike_typeSet : AccLike cfg sfh accTypeSet where
  any := rfl
  ofRich := fun a h => (asg_rich_comps cfg sfh h).ts
  data := rfl
  var := fun ts => by
    rw [← accTypeSet_accL_iff ts]; conv => lhs; unfold accTypeSet
  opt := fun x => by conv => lhs; unfold accTypeSet
  nu := fun x => by conv => lhs; unfold accTypeSet
  base := fun b hp h => by cases b <;> simp [Ty.plainR] at hp <;> simp [accTypeSet] at h; left; rfl
  obj := fun h => by simp [accTypeSet] at h

/-- what accepts the default Object type accepts the Deferred meta type (an object type) -/
theorem accDeferred_of_obj : ∀ (n : Nat) (a : Ty), a.w ≤ n → asg cfg sfh a (.object none) = true → accDeferred a = true := by
  intro n
  induction n with
  | zero => intro a h; have := Ty.w_pos a; omega
  | succ n ih =>
    intro a hw h
    rw [asg_plain_r cfg sfh _ _ rfl] at h
    simp only [Bool.or_eq_true] at h
    rcases h with (h | h) | h
    · cases a <;> simp [Ty.isAny] at h; rfl
    · have := sameNullary_eq h; subst this; rfl
    · have lf : ∀ t : Ty, t.isAny = false → sameNullary t (.object none) = false → asgRecv cfg sfh t (.object none) = false →
          asg cfg sfh t (.object none) = false := by
        intro t h1 h2 h3; rw [asg_plain_r cfg sfh _ _ rfl]; simp [h1, h2, h3]
      cases a with
      | any => rfl
      | unit => rfl
      | richData => rfl
      | object p =>
        unfold asgRecv at h
        cases p with
        | none => rfl
        | some pp => simp at h
      | variant as =>
        simp only [Ty.w] at hw
        unfold asgRecv at h; rw [asgAnyL_iff] at h
        obtain ⟨x, hx, h⟩ := h
        unfold accDeferred; rw [accDeferred_accL_iff]
        exact ⟨x, hx, ih x (by have := Ty.w_lt_wl hx; omega) h⟩
      | optional x =>
        simp only [Ty.w] at hw
        unfold asgRecv at h
        simp only [Bool.or_eq_true] at h
        rcases h with h | h
        · rw [lf .undef rfl rfl (by unfold asgRecv; rfl)] at h; cases h
        · unfold accDeferred; exact ih x (by omega) h
      | notUndef x =>
        simp only [Ty.w] at hw
        unfold asgRecv at h
        simp only [Bool.and_eq_true] at h
        unfold accDeferred; exact ih x (by omega) h.2
      | scalar =>
        exfalso
        unfold asgRecv at h
        simp only [Bool.or_eq_true] at h
        rcases h with ((((h | h) | h) | h) | h) | h
        · rw [lf .str rfl rfl (by unfold asgRecv; rfl)] at h; cases h
        · rw [lf .numeric rfl rfl (by unfold asgRecv; rfl)] at h; cases h
        · rw [lf (.bool none) rfl rfl (by unfold asgRecv; rfl)] at h; cases h
        · rw [lf (.regexp "") rfl rfl (by unfold asgRecv; rfl)] at h; cases h
        · rw [lf (.tspan Rng.all) rfl rfl (by unfold asgRecv; rfl)] at h; cases h
        · rw [lf (.tstamp tstampAll) rfl rfl (by unfold asgRecv; rfl)] at h; cases h
      | scalarData =>
        exfalso
        unfold asgRecv at h
        simp only [Bool.or_eq_true] at h
        rcases h with ((h | h) | h) | h
        · rw [lf .str rfl rfl (by unfold asgRecv; rfl)] at h; cases h
        · rw [lf (.int Rng.all) rfl rfl (by unfold asgRecv; rfl)] at h; cases h
        · rw [lf (.bool none) rfl rfl (by unfold asgRecv; rfl)] at h; cases h
        · rw [lf floatAll rfl rfl (by unfold floatAll asgRecv; rfl)] at h; cases h
      | data =>
        exfalso
        have : asg cfg sfh .data (.object none) = false := by simp [asg, asgRecv, sameNullary, isStringFamily, floatAll]
        rw [asg_plain_r cfg sfh _ _ rfl] at this
        simp [Ty.isAny, sameNullary, h] at this
      | enum vs ci => exfalso; unfold asgRecv at h; split at h <;> simp [isStringFamily] at h
      | _ => exfalso; unfold asgRecv at h; simp [isStringFamily] at h

theorem accLike_deferred : AccLike cfg sfh accDeferred where
  any := rfl
  ofRich := fun a h => (asg_rich_comps cfg sfh h).de
  data := rfl
  var := fun ts => by
    rw [← accDeferred_accL_iff ts]; conv => lhs; unfold accDeferred
  opt := fun x => by conv => lhs; unfold accDeferred
  nu := fun x => by conv => lhs; unfold accDeferred
  base := fun b hp h => by
    cases b <;> simp [Ty.plainR] at hp <;> (try (simp [accDeferred] at h; done))
    · left; rfl
    · rename_i p; cases p
      · right; rfl
      · simp [accDeferred] at h
  obj := fun _ a h => accDeferred_of_obj cfg sfh a.w a (Nat.le_refl _) h

/-- `a ⊒ b` and `b` accepts the unmodelled member: so does `a` -/
theorem acc_mono {P : Ty → Bool} (hP : AccLike cfg sfh P) : ∀ (n : Nat) (a b : Ty), a.w + b.w ≤ n → a.TD sfh → b.TD sfh →
    asg cfg sfh a b = true → P b = true → P a = true := by
  intro n
  induction n with
  | zero => intro a b h; have := Ty.w_pos a; omega
  | succ n ih =>
    intro a b hw fa fb h hb
    have plain : b.plainR = true → P a = true := by
      intro hp
      rcases hP.base b hp hb with rfl | rfl
      · exact hP.ofRich a (acceptsD_any cfg sfh a.w a (Nat.le_refl _) fa h _)
      · exact hP.obj hb a h
    cases b with
    | unit => unfold Ty.TD at fb; exact absurd fb id
    | data => rw [hP.data] at hb; cases hb
    | richData => exact hP.ofRich a h
    | optional x =>
      unfold Ty.TD at fb; simp only [Ty.w] at hw
      rw [hP.opt] at hb
      exact ih a x (by omega) fa fb (asg_optional_parts cfg sfh h).2 hb
    | variant bs =>
      unfold Ty.TD at fb; simp only [Ty.w] at hw
      obtain ⟨x, hx, hpx⟩ := (hP.var bs).1 hb
      exact ih a x (by have := Ty.w_lt_wl hx; omega) fa (fb x hx) (asg_variant_parts cfg sfh h x hx) hpx
    | notUndef x =>
      have fb' := fb; unfold Ty.TD at fb'; simp only [Ty.w] at hw
      have hb' := hb; rw [hP.nu] at hb'
      by_cases hx : asg cfg sfh x .undef = true
      · by_cases hA : a.isAny = true
        · cases a <;> simp [Ty.isAny] at hA; exact hP.any
        have hr := asg_nu_fall cfg sfh (bool_false_of_ne_true hA) hx h
        rcases recvNUD_cases cfg sfh a x fa hx hr with h' | ⟨as, y, rfl, hy, hyb⟩ | ⟨y, rfl, hy⟩ | ⟨y, rfl, hy⟩
        · subst h'; exact hP.any
        · unfold Ty.TD at fa; simp only [Ty.w] at hw
          exact (hP.var as).2 ⟨y, hy, ih y _ (by have := Ty.w_lt_wl hy; simp only [Ty.w]; omega) (fa y hy) fb hyb hb⟩
        · unfold Ty.TD at fa; simp only [Ty.w] at hw
          rw [hP.opt]; exact ih y _ (by simp only [Ty.w]; omega) fa fb hy hb
        · unfold Ty.TD at fa; simp only [Ty.w] at hw
          rw [hP.nu]
          rcases hy with hy | hy
          · exact ih y x (by omega) fa fb' hy hb'
          · exact ih y _ (by simp only [Ty.w]; omega) fa fb hy hb
      · exact ih a x (by omega) fa fb' (asg_nu_strict cfg sfh (bool_false_of_ne_true hx) h) hb'
    | _ => exact plain rfl

theorem accTypeSet_mono (a b : Ty) (fa : a.TD sfh) (fb : b.TD sfh) (h : asg cfg sfh a b = true) (hb : accTypeSet b = true) :
    accTypeSet a = true := acc_mono cfg sfh (accLike_typeSet cfg sfh) (a.w + b.w) a b (Nat.le_refl _) fa fb h hb

theorem accDeferred_mono (a b : Ty) (fa : a.TD sfh) (fb : b.TD sfh) (h : asg cfg sfh a b = true) (hb : accDeferred b = true) :
    accDeferred a = true := acc_mono cfg sfh (accLike_deferred cfg sfh) (a.w + b.w) a b (Nat.le_refl _) fa fb h hb

end Pcore.Lat
