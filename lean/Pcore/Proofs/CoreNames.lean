import Pcore.Model.Resolve
/-!
Second tie of the resolver model (C06): the hand-written classification of core type names (`kindOf`, `plainNames`,
`coreOther`, `spellings` of `Model/Types.lean`) against the table `coreTypes` of `types/zinit.go`, which
`extract/coretypes.go` regenerates into `Pcore/Generated/CoreTypes.lean` on every check.
-/
namespace Pcore.Syntax

/-- what the model makes of a type name that `coreTypes` holds -/
inductive NameClass where
  | kind (k : TKind)     -- a parameterized type of the fragment
  | plain                -- a parameterless name of the fragment (its parameters, if it takes any, are outside)
  | other                -- a core type outside the model
  deriving DecidableEq, Repr

def nameClass (n : Str) : Option NameClass :=
  let c := canonName n
  match kindOf c with
  | some k => some (.kind k)
  | none => if plainNames.contains c then some .plain else if coreOther.contains c then some .other else none

/-- the constructor of the default type of a canonical name: `Default<Name>Type` (`URI` is `DefaultUriType`) -/
def ctorOf (c : Str) : String :=
  "Default" ++ (if c = "URI".toList then "Uri" else String.ofList c) ++ "Type"

/-- every name the model classifies -/
def modelNames : List Str := allKinds.map TKind.name ++ plainNames ++ coreOther ++ spellings.map (·.1)

/-- the side condition on the regenerated table: every row's name is classified by the model and bound to the constructor
    of its canonical name (so a second spelling points at the type the model says it does), and every name the model
    classifies is in the table (so the model has no core name the code lacks) -/
def coreTableOK (tbl : List (String × String)) : Bool :=
  (tbl.all fun r => (nameClass r.1.toList).isSome && r.2 == ctorOf (canonName r.1.toList)) &&
  (modelNames.all fun n => tbl.any fun r => r.1.toList == n)

/-- for ANY table accepted by the side condition, every name of the table is classified by the model … -/
theorem coreTable_known (tbl : List (String × String)) (h : coreTableOK tbl = true) (n c : String) (hc : (n, c) ∈ tbl) :
    (nameClass n.toList).isSome = true := by
  simp only [coreTableOK, Bool.and_eq_true, List.all_eq_true] at h
  have hr := h.1 (n, c) hc
  simp only [Bool.and_eq_true] at hr
  exact hr.1

/-- … and a classified name never falls through to the loader: what it resolves to does not depend on which names the
    context knows (`Env.unknown`) -/
theorem classified_not_loaded (env : Env) (u : Str → Bool) (m : Str) (h : (nameClass m).isSome = true) :
    resolveName env m = resolveName { env with unknown := u } m := by
  unfold nameClass at h
  unfold resolveName
  simp only at h ⊢
  cases hk : kindOf (canonName m) with
  | some kd => rfl
  | none =>
    rw [hk] at h
    simp only at h ⊢
    by_cases hp : plainNames.contains (canonName m) = true
    · have hp' : canonName m ∈ plainNames := by simpa using hp
      simp [hp']
    · simp only [hp, Bool.false_eq_true, if_false] at h ⊢
      by_cases ho : coreOther.contains (canonName m) = true
      · have ho' : canonName m ∈ coreOther := by simpa using ho
        simp [ho']
      · simp only [ho, Bool.false_eq_true, if_false] at h
        simp at h

end Pcore.Syntax
