import Pcore.Proofs.Files
/-!
C15, "a name without a file stays absent without side effects", for every context loader: when no loader has an origin
for the name or for any of its prefixes (and the module named by its first segment has no `init_typeset`), a lookup never
answers `found`, reads nothing, and changes the caches by nil placeholders only.  One induction on the fuel over the eight
functions that can be reached (the instantiating ones cannot).
-/
namespace Pcore.Files

section
variable (cfg : Cfg) (name0 : Name) (s0 : St)

/-- the names on the search route of `name0`: its non-empty prefixes -/
def OnRoute (nm : Name) : Prop := nm ≠ [] ∧ nm <+: name0

/-- nothing to load anywhere on the route -/
structure AbsentRoute : Prop where
  noOrigin : ∀ l nm, OnRoute name0 nm → idx cfg l (keyOf nm) = []
  noInit : ∀ mod, (keyOf name0).head? = some mod → idx cfg (.m mod) ["init_typeset"] = []
  noStatic : ∀ nm, OnRoute name0 nm → sysLoad nm = none

/-- no cache holds a definition for a name on the route -/
def NoDef (s : St) : Prop := ∀ l nm d, OnRoute name0 nm → s.get l (keyOf nm) ≠ some (some d)

/-- `s` differs from `s0` by nil placeholders only -/
def Frame (s : St) : Prop := ∀ l k, s.get l k = s0.get l k ∨ (s0.get l k = none ∧ s.get l k = some none)

def InvA (s : St) : Prop := s.reads = s0.reads ∧ Frame s0 s

abbrev SpecA (x : M (Option Entry)) : Prop :=
  ∀ s, InvA s0 s → wp x (fun r s' => InvA s0 s' ∧ ∀ d, r ≠ some (some d)) (InvA s0) s

structure AllAbsent (n : Nat) : Prop where
  loadEntry : ∀ l nm, OnRoute name0 nm → SpecA s0 (loadEntry n cfg l nm)
  fbLoadEntry : ∀ l nm, OnRoute name0 nm → SpecA s0 (fbLoadEntry n cfg l nm)
  find : ∀ l nm, OnRoute name0 nm → SpecA s0 (find n cfg l nm)
  findTail : ∀ l nm, OnRoute name0 nm → SpecA s0 (findTail n cfg l nm)
  parentSearch : ∀ l nm ts, OnRoute name0 nm → (ts = [] ∨ OnRoute name0 ts) → SpecA s0 (parentSearch n cfg l nm ts)
  dLoadEntry : ∀ nm, OnRoute name0 nm → SpecA s0 (dLoadEntry n cfg nm)
  dFind : ∀ nm, OnRoute name0 nm → SpecA s0 (dFind n cfg nm)
  dMembers : ∀ nm, OnRoute name0 nm → SpecA s0 (dMembers n cfg nm)
  dLoop : ∀ mods nm, OnRoute name0 nm → SpecA s0 (dLoop n cfg mods nm)

variable {cfg name0 s0}

theorem noDef_of_frame (h0 : NoDef name0 s0) {s : St} (hf : Frame s0 s) : NoDef name0 s := by
  intro l nm d hr hget
  cases hf l (keyOf nm) with
  | inl h => exact h0 l nm d hr (by rw [← h]; exact hget)
  | inr h => rw [h.2] at hget; cases hget

theorem frame_put_placeholder (h0 : NoDef name0 s0) {s : St} (hs : InvA s0 s) (l : Lid) (nm : Name)
    (hr : OnRoute name0 nm) : InvA s0 (s.put l (keyOf nm) none) := by
  refine ⟨hs.1, ?_⟩
  intro l' k'
  rw [get_put]
  by_cases hk : (l', k') = (l, keyOf nm)
  · rw [if_pos hk]
    obtain ⟨rfl, rfl⟩ := Prod.mk.inj hk
    cases hs.2 l' (keyOf nm) with
    | inl h =>
      cases hg : s0.get l' (keyOf nm) with
      | none => exact Or.inr ⟨rfl, rfl⟩
      | some e =>
        cases e with
        | none => exact Or.inl rfl
        | some d => exact absurd hg (h0 l' nm d hr)
    | inr h => exact Or.inr ⟨h.1, rfl⟩
  · rw [if_neg hk]; exact hs.2 l' k'

/-- a placeholder for a name on the route -/
theorem absent_setEntry (h0 : NoDef name0 s0) {s : St} (hs : InvA s0 s) (l : Lid) (nm : Name) (hr : OnRoute name0 nm) :
    wp (setEntry l (keyOf nm) none) (fun e s' => InvA s0 s' ∧ e = none) (InvA s0) s := by
  rw [wp_setEntry]
  cases hg : s.get l (keyOf nm) with
  | none => exact ⟨frame_put_placeholder h0 hs l nm hr, rfl⟩
  | some o =>
    cases o with
    | none => exact ⟨frame_put_placeholder h0 hs l nm hr, rfl⟩
    | some old => exact absurd hg (noDef_of_frame h0 hs.2 l nm old hr)

theorem onRoute_dropLast {nm : Name} (hr : OnRoute name0 nm) : nm.dropLast = [] ∨ OnRoute name0 nm.dropLast := by
  by_cases h : nm.dropLast = []
  · exact Or.inl h
  · exact Or.inr ⟨h, List.IsPrefix.trans (List.dropLast_prefix nm) hr.2⟩

theorem head_onRoute {nm : Name} (hr : OnRoute name0 nm) : (keyOf nm).head? = (keyOf name0).head? := by
  obtain ⟨hne, t, ht⟩ := hr
  cases nm with
  | nil => exact absurd rfl hne
  | cons a rest => rw [← ht]; simp [keyOf]

variable (ha : AbsentRoute cfg name0) (h0 : NoDef name0 s0)
include ha h0

theorem astep_parentSearch {n : Nat} (ih : AllAbsent cfg name0 s0 n) (l : Lid) (nm ts : Name) (hr : OnRoute name0 nm)
    (hts : ts = [] ∨ OnRoute name0 ts) : SpecA s0 (parentSearch (n+1) cfg l nm ts) := by
  intro s hs
  cases ts with
  | nil => simp only [parentSearch]; exact ⟨hs, fun d h => by cases h⟩
  | cons t rest =>
    have hts' : OnRoute name0 (t :: rest) := by
      cases hts with
      | inl h => cases h
      | inr h => exact h
    simp only [parentSearch, wp_bind, wp_getSt]
    cases hg : s.get l (keyOf (t :: rest)) with
    | some v => simp only []; exact ih.parentSearch l nm _ hr (onRoute_dropLast hts') s hs
    | none =>
      simp only [wp_bind]
      refine wp_mono (ih.find l (t :: rest) hts' s hs) ?_ (fun _ h => h)
      intro _ s1 ⟨hs1, _⟩
      simp only [wp_getSt]
      cases hg1 : s1.get l (keyOf nm) with
      | some te =>
        simp only [wp_pure]
        refine ⟨hs1, fun d h => ?_⟩
        have : te = some d := by injection h
        subst this
        exact noDef_of_frame h0 hs1.2 l nm d hr hg1
      | none => simp only []; exact ih.parentSearch l nm _ hr (onRoute_dropLast hts') s1 hs1

theorem astep_findTail {n : Nat} (ih : AllAbsent cfg name0 s0 n) (l : Lid) (nm : Name) (hr : OnRoute name0 nm) :
    SpecA s0 (findTail (n+1) cfg l nm) := by
  intro s hs
  simp only [findTail, ha.noOrigin l nm hr]
  by_cases hq : qualified nm = true
  · rw [if_pos hq]; exact ih.parentSearch l nm nm.dropLast hr (onRoute_dropLast hr) s hs
  · rw [if_neg hq]; exact ⟨hs, fun d h => by cases h⟩

theorem astep_find {n : Nat} (ih : AllAbsent cfg name0 s0 n) (l : Lid) (nm : Name) (hr : OnRoute name0 nm) :
    SpecA s0 (find (n+1) cfg l nm) := by
  intro s hs
  simp only [find]
  have hnone : InvA s0 s ∧ ∀ d, (none : Option Entry) ≠ some (some d) := ⟨hs, fun d h => by cases h⟩
  by_cases hq : qualified nm = true
  · rw [if_pos hq]
    by_cases hm : l.moduleName ≠ ""
    · rw [if_pos hm]
      simp only [wp_bind, wp_partsM]
      cases hp : partsOf nm with
      | none => exact hs
      | some ps =>
        simp only []
        by_cases hh : some l.moduleName ≠ ps.head?
        · rw [if_pos hh]; exact hnone
        · rw [if_neg hh]; exact ih.findTail l nm hr s hs
    · rw [if_neg hm]; exact ih.findTail l nm hr s hs
  · rw [if_neg hq]
    by_cases hg : (!isGlobalMod l.moduleName) = true
    · rw [if_pos hg]
      simp only [wp_bind, wp_partsM]
      cases hp : partsOf nm with
      | none => exact hs
      | some ps =>
        simp only []
        by_cases hh : some l.moduleName ≠ ps.head?
        · rw [if_pos hh]; exact hnone
        · rw [if_neg hh]
          -- the module is the one named by the first segment of `name0`: it has no `init_typeset`
          have hps : ps = keyOf nm := by
            unfold partsOf at hp
            by_cases hv : (keyOf nm).all validPart = true
            · simp only [hv, if_true] at hp; exact (Option.some.inj hp).symm
            · simp only [hv] at hp; cases hp
          have hhead : (keyOf name0).head? = some l.moduleName := by
            rw [← head_onRoute hr, ← hps]
            by_cases h' : some l.moduleName = ps.head?
            · exact h'.symm
            · exact absurd h' hh
          have hgm : isGlobalMod l.moduleName = false := by simpa using hg
          have hl : l = .m l.moduleName := by
            cases l with
            | m mod => rfl
            | g => simp [Lid.moduleName, isGlobalMod] at hgm
            | d => simp [Lid.moduleName, isGlobalMod] at hgm
          have hi : idx cfg l ["init_typeset"] = [] := by
            rw [hl]; exact ha.noInit _ hhead
          rw [hi]; exact hnone
    · rw [if_neg hg]; exact ih.findTail l nm hr s hs

theorem astep_fbLoadEntry {n : Nat} (ih : AllAbsent cfg name0 s0 n) (l : Lid) (nm : Name) (hr : OnRoute name0 nm) :
    SpecA s0 (fbLoadEntry (n+1) cfg l nm) := by
  intro s hs
  simp only [fbLoadEntry, wp_bind]
  have h1 : wp (match l with
      | .m _ => if cfg.flat then pure (sysLoad nm) else fbLoadEntry n cfg .g nm
      | _ => pure (sysLoad nm))
      (fun r s' => InvA s0 s' ∧ ∀ d, r ≠ some (some d)) (InvA s0) s := by
    cases l with
    | m mod =>
      simp only []
      by_cases hf : cfg.flat = true
      · rw [if_pos hf]; exact ⟨hs, fun d h => by rw [ha.noStatic nm hr] at h; cases h⟩
      · rw [if_neg hf]; exact ih.fbLoadEntry .g nm hr s hs
    | g => exact ⟨hs, fun d h => by rw [ha.noStatic nm hr] at h; cases h⟩
    | d => exact ⟨hs, fun d h => by rw [ha.noStatic nm hr] at h; cases h⟩
  refine wp_mono h1 ?_ (fun _ h => h)
  intro pe s1 ⟨hs1, hpe⟩
  simp only [wp_getSt]
  have hrest : ∀ entry : Option Entry, (∀ d, entry ≠ some (some d)) →
      wp (match entry with
          | some e => pure (some e)
          | none => do
            let r ← find n cfg l nm
            match r with
              | some e => pure (some e)
              | none => do
                let e ← setEntry l (keyOf nm) none
                pure (some e))
        (fun r s' => InvA s0 s' ∧ ∀ d, r ≠ some (some d)) (InvA s0) s1 := by
    intro entry hentry
    cases entry with
    | some e => exact ⟨hs1, hentry⟩
    | none =>
      simp only [wp_bind]
      refine wp_mono (ih.find l nm hr s1 hs1) ?_ (fun _ h => h)
      intro r s2 ⟨hs2, hr2⟩
      cases r with
      | some e => exact ⟨hs2, hr2⟩
      | none =>
        simp only [wp_bind]
        refine wp_mono (absent_setEntry h0 hs2 l nm hr) ?_ (fun _ h => h)
        intro e s3 ⟨hs3, he⟩
        exact ⟨hs3, fun d h => by rw [he] at h; cases h⟩
  have hstate : ∀ d, s1.get l (keyOf nm) ≠ some (some d) := fun d => noDef_of_frame h0 hs1.2 l nm d hr
  match pe, hpe with
  | some (some d), hpe => exact absurd rfl (hpe d)
  | some none, _ => exact hrest _ hstate
  | none, _ => exact hrest _ hstate

theorem astep_loadEntry {n : Nat} (ih : AllAbsent cfg name0 s0 n) (l : Lid) (nm : Name) (hr : OnRoute name0 nm) :
    SpecA s0 (loadEntry (n+1) cfg l nm) := by
  intro s hs
  cases l with
  | d => simp only [loadEntry]; exact ih.dLoadEntry nm hr s hs
  | g => simp only [loadEntry]; exact ih.fbLoadEntry .g nm hr s hs
  | m mod => simp only [loadEntry]; exact ih.fbLoadEntry (.m mod) nm hr s hs

theorem astep_dLoop {n : Nat} (ih : AllAbsent cfg name0 s0 n) (mods : List String) (nm : Name) (hr : OnRoute name0 nm) :
    SpecA s0 (dLoop (n+1) cfg mods nm) := by
  intro s hs
  cases mods with
  | nil =>
    simp only [dLoop, wp_bind, wp_getSt, wp_pure]
    exact ⟨hs, fun d => noDef_of_frame h0 hs.2 .d nm d hr⟩
  | cons m rest =>
    simp only [dLoop, wp_bind]
    refine wp_mono (ih.fbLoadEntry (.m m) nm hr s hs) ?_ (fun _ h => h)
    intro e s1 ⟨hs1, he⟩
    match e, he with
    | some (some d), he => exact absurd rfl (he d)
    | some none, _ => exact ih.dLoop rest nm hr s1 hs1
    | none, _ => exact ih.dLoop rest nm hr s1 hs1

theorem astep_dFind {n : Nat} (ih : AllAbsent cfg name0 s0 n) (nm : Name) (hr : OnRoute name0 nm) :
    SpecA s0 (dFind (n+1) cfg nm) := by
  intro s hs
  simp only [dFind]
  by_cases hc : (!cfg.mods.isEmpty && qualified nm) = true
  · rw [if_pos hc]
    simp only [wp_bind, wp_partsM]
    cases hp : partsOf nm with
    | none => exact hs
    | some ps =>
      simp only []
      cases hh : ps.head? with
      | none => exact ih.dMembers nm hr s hs
      | some h =>
        simp only []
        by_cases hm : cfg.mods.contains h = true
        · rw [if_pos hm]; exact ih.fbLoadEntry (.m h) nm hr s hs
        · rw [if_neg hm]; exact ih.dMembers nm hr s hs
  · rw [if_neg hc]; exact ih.dMembers nm hr s hs

theorem astep_dMembers {n : Nat} (ih : AllAbsent cfg name0 s0 n) (nm : Name) (hr : OnRoute name0 nm) :
    SpecA s0 (dMembers (n+1) cfg nm) := by
  intro s hs
  simp only [dMembers]
  by_cases hf : cfg.flat = true
  · rw [if_pos hf]
    simp only [wp_bind]
    refine wp_mono (ih.fbLoadEntry .g nm hr s hs) ?_ (fun _ h => h)
    intro e s1 ⟨hs1, he⟩
    match e, he with
    | some (some d), he => exact absurd rfl (he d)
    | some none, _ => exact ih.dLoop cfg.mods nm hr s1 hs1
    | none, _ => exact ih.dLoop cfg.mods nm hr s1 hs1
  · rw [if_neg hf]; exact ih.dLoop cfg.mods nm hr s hs

theorem astep_dLoadEntry {n : Nat} (ih : AllAbsent cfg name0 s0 n) (nm : Name) (hr : OnRoute name0 nm) :
    SpecA s0 (dLoadEntry (n+1) cfg nm) := by
  intro s hs
  simp only [dLoadEntry, wp_bind, wp_getSt]
  -- the body after the cache test, for an own entry that is absent or a recorded miss
  have hbody : ∀ own : Option Entry, (∀ d, own ≠ some (some d)) →
      wp (do
        let r ← dFind n cfg nm
        let st ← getSt
        match r, st.get .d (keyOf nm) with
        | some (some d), some (some d') =>
          if d = d' then pure (some (some d))
          else do
            let e ← setEntry .d (keyOf nm) (some d)
            pure (some e)
        | some (some d), _ => do
          let e ← setEntry .d (keyOf nm) (some d)
          pure (some e)
        | _, _ =>
          match own with
          | none => do
            let e ← setEntry .d (keyOf nm) none
            pure (some e)
          | some o => pure (some o)) (fun r s' => InvA s0 s' ∧ ∀ d, r ≠ some (some d)) (InvA s0) s := by
    intro own hown
    simp only [wp_bind]
    refine wp_mono (ih.dFind nm hr s hs) ?_ (fun _ h => h)
    intro r s1 ⟨hs1, hr1⟩
    simp only [wp_getSt]
    have hgen : wp (match own with
        | none => do
          let e ← setEntry .d (keyOf nm) none
          pure (some e)
        | some o => pure (some o)) (fun r s' => InvA s0 s' ∧ ∀ d, r ≠ some (some d)) (InvA s0) s1 := by
      cases own with
      | none =>
        simp only [wp_bind]
        refine wp_mono (absent_setEntry h0 hs1 .d nm hr) ?_ (fun _ h => h)
        intro e s2 ⟨hs2, he⟩
        exact ⟨hs2, fun d h => by rw [he] at h; cases h⟩
      | some o =>
        refine ⟨hs1, fun d h => ?_⟩
        have : o = some d := by injection h
        exact hown d (by rw [this])
    match r, hr1, s1.get .d (keyOf nm) with
    | some (some d), hr1, _ => exact absurd rfl (hr1 d)
    | some none, _, _ => exact hgen
    | none, _, _ => exact hgen
  match hg : s.get .d (keyOf nm) with
  | some (some d) => exact absurd hg (noDef_of_frame h0 hs.2 .d nm d hr)
  | some none => exact hbody (some none) (fun d h => by cases h)
  | none => exact hbody none (fun d h => by cases h)

theorem allAbsent : ∀ n, AllAbsent cfg name0 s0 n
  | 0 => by
    constructor <;> intros <;> intro s hs <;>
      simp only [loadEntry, fbLoadEntry, find, findTail, parentSearch, dLoadEntry, dFind, dMembers, dLoop, wp_raise] <;>
        exact hs
  | n+1 =>
    have ih := allAbsent n
    { loadEntry := astep_loadEntry ha h0 ih
      fbLoadEntry := astep_fbLoadEntry ha h0 ih
      find := astep_find ha h0 ih
      findTail := astep_findTail ha h0 ih
      parentSearch := astep_parentSearch ha h0 ih
      dLoadEntry := astep_dLoadEntry ha h0 ih
      dFind := astep_dFind ha h0 ih
      dMembers := astep_dMembers ha h0 ih
      dLoop := astep_dLoop ha h0 ih }

theorem absent_load (hne : name0 ≠ []) (fuel : Nat) (s : St) (hs : InvA s0 s) :
    wp (load fuel cfg name0) (fun o s' => InvA s0 s' ∧ ∀ d, o ≠ .found d) (InvA s0) s := by
  have hr : OnRoute name0 name0 := ⟨hne, List.prefix_refl _⟩
  unfold load
  simp only [wp_bind]
  refine wp_mono ((allAbsent ha h0 fuel).loadEntry cfg.via name0 hr s hs) ?_ (fun _ h => h)
  intro e s1 ⟨hs1, he⟩
  match e, he with
  | none, _ =>
    simp only [wp_bind]
    refine wp_mono (absent_setEntry h0 hs1 cfg.via name0 hr) ?_ (fun _ h => h)
    intro _ s2 ⟨hs2, _⟩
    exact ⟨hs2, fun d h => by cases h⟩
  | some none, _ => exact ⟨hs1, fun d h => by cases h⟩
  | some (some d), he => exact absurd rfl (he d)

theorem absent_loadS (hne : name0 ≠ []) (fuel : Nat) :
    (∀ d, (loadS fuel cfg s0 name0).1 ≠ .found d) ∧ (loadS fuel cfg s0 name0).2.reads = s0.reads ∧
      Frame s0 (loadS fuel cfg s0 name0).2 := by
  have hinit : InvA s0 s0 := ⟨rfl, fun _ _ => Or.inl rfl⟩
  have h := absent_load ha h0 hne fuel s0 hinit
  unfold wp at h
  unfold loadS
  cases hx : load fuel cfg name0 s0 with
  | ok a s' => rw [hx] at h; exact ⟨h.2, h.1.1, h.1.2⟩
  | fail e s' =>
    rw [hx] at h
    refine ⟨?_, h.1, h.2⟩
    intro d hd
    cases hd

end

end Pcore.Files
