import Pcore.Model.DescribeText
set_option linter.unusedSimpArgs false
set_option linter.unusedVariables false
/-!
  Helper lemmas for C19 (structure of the mismatch describer): totality (no fault constructor is reachable).
-/
namespace Pcore.Desc
open Pcore.Lat

/-! ### mergeDescriptions never indexes an empty slice -/
theorem tryClasses_ok (ds : List Mismatch) (hne : ds ≠ []) (cs : List Cls) : ∃ r, tryClasses ds cs = .ok r := by
  induction cs with
  | nil => exact ⟨ds, rfl⟩
  | cons c cs ih =>
    simp only [tryClasses]
    split
    · rename_i hlen
      split
      · rename_i hnil
        rw [hnil] at hlen
        have h0 : ds.length = 0 := by simp at hlen; omega
        exact absurd (List.eq_nil_of_length_eq_zero h0) hne
      · split
        · exact ⟨_, rfl⟩
        · exact ih
    · exact ih

theorem mergeDescriptions_ok (pos : Nat) (sm : Cls) (ds : List Mismatch) : ∃ r, mergeDescriptions pos sm ds = .ok r := by
  unfold mergeDescriptions
  by_cases h : ds.isEmpty
  · simp [h]
  · have hne : ds ≠ [] := by intro h'; simp [h'] at h
    obtain ⟨r, hr⟩ := tryClasses_ok ds hne [sm, .missingRequiredBlock, .unexpectedBlock, .type]
    simp only [h, hr]
    match r with
    | [] => exact ⟨_, rfl⟩
    | [d] => exact ⟨_, rfl⟩
    | d :: d' :: r' => exact ⟨_, rfl⟩

theorem variantTail_ok (o a : Ty) (p : Path) (v : VRes) (hv : ∀ k, v ≠ .fault k) : ∃ r, variantTail o a p v = .ok r := by
  cases v with
  | fault k => exact absurd rfl (hv k)
  | hit => exact ⟨_, rfl⟩
  | acc vs =>
    obtain ⟨r, hr⟩ := mergeDescriptions_ok p.length .size vs
    simp only [variantTail, hr]
    split <;> exact ⟨_, rfl⟩

theorem Res.append_ok {a b : Res} (ha : ∃ r, a = .ok r) (hb : ∃ r, b = .ok r) : ∃ r, Res.append a b = .ok r := by
  obtain ⟨x, rfl⟩ := ha; obtain ⟨y, rfl⟩ := hb; exact ⟨_, rfl⟩

theorem VRes.cons_nofault {d : Res} {v : VRes} (hd : ∃ r, d = .ok r) (hv : ∀ k, v ≠ .fault k) : ∀ k, VRes.cons d v ≠ .fault k := by
  obtain ⟨x, rfl⟩ := hd
  cases v with
  | fault k => exact absurd rfl (hv k)
  | hit => intro k; simp [VRes.cons]
  | acc ds => intro k; simp [VRes.cons]

theorem callBlock_ok (cfg : Cfg) (sfh : Bool) (bl bl' : Option Ty) (p : Path) : ∃ r, callBlock cfg sfh bl bl' p = .ok r := by
  unfold callBlock
  split
  · exact ⟨_, rfl⟩
  · split
    · exact ⟨_, rfl⟩
    · split <;> exact ⟨_, rfl⟩

theorem callTail_ok (cfg : Cfg) (sfh : Bool) (rt bl rt' bl' : Option Ty) (p : Path) : ∃ r, callTail cfg sfh rt bl rt' bl' p = .ok r := by
  unfold callTail
  split
  · split
    · exact callBlock_ok cfg sfh _ _ _
    · exact ⟨_, rfl⟩
  · exact callBlock_ok cfg sfh _ _ _

theorem Res.orElse_ok {a b : Res} (ha : ∃ r, a = .ok r) (hb : ∃ r, b = .ok r) : ∃ r, Res.orElse a b = .ok r := by
  obtain ⟨x, rfl⟩ := ha
  cases x with
  | nil => simpa [Res.orElse] using hb
  | cons d ds => exact ⟨_, rfl⟩

theorem getLast?_ne_none {α} (l : List α) (h : ¬ (l.length == 0) = true) : ∃ x, l.getLast? = some x := by
  cases l with
  | nil => simp at h
  | cons a l => exact ⟨_, List.getLast?_eq_some_getLast (by simp)⟩

section
variable (cfg : Cfg) (sfh : Bool)

/-- no Go runtime fault of the modelled sites is reachable: the three mutual functions always return normally -/
theorem describe_total :
    (∀ e o a p, ∃ r, internalDescribe cfg sfh e o a p = .ok r) ∧
    (∀ items p, ∃ r, descAll cfg sfh items p = .ok r) ∧
    (∀ xs u i a p, ∀ k, descVar cfg sfh xs u i a p ≠ .fault k) := by
  apply internalDescribe.mutual_induct cfg sfh
    (fun e o a p => ∃ r, internalDescribe cfg sfh e o a p = .ok r)
    (fun items p => ∃ r, descAll cfg sfh items p = .ok r)
    (fun xs u i a p => ∀ k, descVar cfg sfh xs u i a p ≠ .fault k)
  all_goals intros
  all_goals try (
    simp only [internalDescribe, descAll, descVar, *, if_true, if_false, Bool.false_eq_true, Bool.or_true, Bool.true_or, Bool.or_false,
      Bool.not_true, not_false_eq_true, imp_self, implies_true]
    try first
      | exact ⟨_, rfl⟩
      | (apply variantTail_ok; assumption)
      | assumption
      | (intro hk; cases hk)
      | (apply Res.append_ok <;> first | assumption | exact ⟨_, rfl⟩)
      | exact callTail_ok cfg sfh _ _ _ _ _
      | (apply Res.orElse_ok; assumption; exact callTail_ok cfg sfh _ _ _ _ _)
      | (apply VRes.cons_nofault <;> first | assumption | exact ⟨_, rfl⟩)
      | (rename_i _ hlen hnone _; obtain ⟨x, hx⟩ := getLast?_ne_none _ hlen; rw [hx] at hnone; cases hnone))
end
end Pcore.Desc
