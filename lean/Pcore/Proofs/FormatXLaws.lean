import Pcore.Proofs.FormatX
/-! The extended model: unsupported ⇔ letter outside the set, width where the code applies the string flags, the container
    laws over any key system, and the refinement "on the ten kinds of Format.lean under the 16 default keys the extended model
    IS the model of Format.lean". -/
namespace Pcore.Format

/-! ### unsupported-format ⇔ letter outside the set (every kind that is not a container; a Type without parameters) -/

/-- not a container and no parameter list to format: the rendering depends on the value's own format only -/
def XVal.isLeaf : XVal → Bool
  | .array _ | .hash _ | .obj _ _ => false
  | .typ _ (_ :: _) => false
  | .talias _ _ | .otype _ _ | .otypeX _ _ => false
  | _ => true

theorem typeFinish_text_reported (f : Fmt) (name ps : Str) (c : Code) : typeFinish f name (.text ps) ≠ .reported c := by
  unfold typeFinish
  simp only [Res.bind]
  split <;> simp

theorem fmtX_reported_leaf {κ : Type} (ks : KeySys κ) (io : FloatIO) (m : GMap κ) (ind : Ind) (v : XVal)
    (hv : v.isLeaf = true) (c : Code) (h : fmtX ks io m ind v = .reported c) :
    (c = .unsupported ∧ acceptsX v.kind (getG ks m v).f.letter = false) ∨
    (c = .failure ∧ (getG ks m v).f.letter = 's' ∧ ∃ bs, v = .binary bs none) := by
  cases v with
  | undef => simp [fmtX, fmtUndef] at h
  | dflt => simp only [fmtX] at h; exact Or.inl (fmtDefault_reported _ c h)
  | bool b => simp only [fmtX] at h; exact Or.inl (fmtBool_reported io _ b c h)
  | int i => simp only [fmtX] at h; exact Or.inl (fmtInt_reported io _ i c h)
  | float bits => simp only [fmtX] at h; exact Or.inl (fmtFloat_reported io _ bits c h)
  | str s => simp only [fmtX] at h; exact Or.inl (fmtStr_reported _ s c h)
  | regexp src => simp [fmtX, fmtRegexp] at h
  | binary bs u =>
    simp only [fmtX] at h
    rcases fmtBinary_reported _ bs u c h with h' | ⟨h1, h2, h3⟩
    · exact Or.inl h'
    · exact Or.inr ⟨h1, h2, bs, by rw [h3]⟩
  | semver t => simp only [fmtX] at h; exact Or.inl (fmtSemVer_reported _ t c h)
  | semverRange t n => simp only [fmtX] at h; exact Or.inl (fmtSemVerRange_reported _ t n c h)
  | uri t => simp only [fmtX] at h; exact Or.inl (fmtUri_reported _ t c h)
  | tspan ns => simp [fmtX, fmtTspan] at h
  | tstamp t => simp [fmtX, fmtTstamp] at h
  | sensitive v => simp [fmtX, fmtSensitive] at h
  | typ name ps =>
    cases ps with
    | cons p ps => simp [XVal.isLeaf] at hv
    | nil =>
      simp only [fmtX] at h
      split at h
      · rename_i hl
        cases h
        refine Or.inl ⟨rfl, ?_⟩
        simp only [isTypeLetter, Bool.not_eq_true', Bool.or_eq_false_iff, decide_eq_false_iff_not] at hl
        simp [acceptsX, modelLettersX, XVal.kind, hl.1, hl.2]
      · exact absurd h (typeFinish_text_reported _ _ _ _)
  | talias name r => simp [XVal.isLeaf] at hv
  | otype name ih => simp [XVal.isLeaf] at hv
  | otypeX d ih => simp [XVal.isLeaf] at hv
  | obj name es => simp [XVal.isLeaf] at hv
  | array vs => simp [XVal.isLeaf] at hv
  | hash es => simp [XVal.isLeaf] at hv

theorem fmtX_of_not_accepts {κ : Type} (ks : KeySys κ) (io : FloatIO) (m : GMap κ) (ind : Ind) (v : XVal)
    (hv : v.isContainer = false) (h : acceptsX v.kind (getG ks m v).f.letter = false) :
    fmtX ks io m ind v = .reported .unsupported := by
  cases v with
  | undef => simp [acceptsX, modelLettersX, XVal.kind] at h
  | dflt => simp only [fmtX]; exact fmtDefault_of_not_accepts _ h
  | bool b => simp only [fmtX]; exact fmtBool_of_not_accepts io _ b h
  | int i => simp only [fmtX]; exact fmtInt_of_not_accepts io _ i h
  | float bits => simp only [fmtX]; exact fmtFloat_of_not_accepts io _ bits h
  | str s => simp only [fmtX]; exact fmtStr_of_not_accepts _ s h
  | regexp src => simp [acceptsX, modelLettersX, XVal.kind] at h
  | binary bs u => simp only [fmtX]; exact fmtBinary_of_not_accepts _ bs u h
  | semver t => simp only [fmtX]; exact fmtSemVer_of_not_accepts _ t h
  | semverRange t n => simp only [fmtX]; exact fmtSemVerRange_of_not_accepts _ t n h
  | uri t => simp only [fmtX]; exact fmtUri_of_not_accepts _ t h
  | tspan ns => simp [acceptsX, modelLettersX, XVal.kind] at h
  | tstamp t => simp [acceptsX, modelLettersX, XVal.kind] at h
  | sensitive v => simp [acceptsX, modelLettersX, XVal.kind] at h
  | typ name ps =>
    simp [acceptsX, modelLettersX, XVal.kind] at h
    have hl : isTypeLetter (getG ks m (.typ name ps)).f.letter = false := by simp [isTypeLetter, h]
    cases ps <;> simp only [fmtX, hl, Bool.not_false, if_true]
  | talias name r => simp [acceptsX, modelLettersX, XVal.kind] at h
  | otype name ih =>
    simp [acceptsX, modelLettersX, XVal.kind] at h
    have hl : isTypeLetter (getG ks m (.otype name ih)).f.letter = false := by simp [isTypeLetter, h]
    simp only [fmtX, hl, Bool.not_false, if_true]
  | otypeX d ih => simp [XVal.isContainer] at hv
  | obj name es => simp [XVal.isContainer] at hv
  | array vs => simp [XVal.isContainer] at hv
  | hash es => simp [XVal.isContainer] at hv

theorem isLeaf_not_container (v : XVal) (h : v.isLeaf = true) : v.isContainer = false := by
  cases v <;> simp [XVal.isLeaf, XVal.isContainer] at h ⊢

theorem fmtX_unsupported_iff {κ : Type} (ks : KeySys κ) (io : FloatIO) (m : GMap κ) (ind : Ind) (v : XVal)
    (hv : v.isLeaf = true) :
    fmtX ks io m ind v = .reported .unsupported ↔ acceptsX v.kind (getG ks m v).f.letter = false := by
  constructor
  · intro h
    rcases fmtX_reported_leaf ks io m ind v hv _ h with h' | h'
    · exact h'.2
    · cases h'.1
  · exact fmtX_of_not_accepts ks io m ind v (isLeaf_not_container v hv)

/-! ### width: where the code applies the string flags the width is reached -/

theorem typeFinish_width (f : Fmt) (name : Str) (r : Res) (w : Nat) (hw : f.width = some w) (s : Str)
    (h : typeFinish f name r = .text s) : w ≤ s.length := by
  unfold typeFinish at h
  cases r with
  | text ps =>
    have hf : hasStringFlags f = true := by simp [hasStringFlags, hw]
    simp only [Res.bind, hf, Bool.or_true, if_true] at h
    cases h
    exact applyStringFlags_width f _ _ w hw
  | reported c => simp [Res.bind] at h
  | fault e => simp [Res.bind] at h

/-- the kinds of the extended model whose arms apply the string flags: SemVer, URI, SemVerRange (every letter they format, after
    fix 5c2f826), Type -/
theorem fmtX_width_flagged {κ : Type} (ks : KeySys κ) (io : FloatIO) (m : GMap κ) (ind : Ind) (v : XVal) (w : Nat)
    (hk : v.kind = .semver ∨ v.kind = .uri ∨ v.kind = .semverRange ∨ v.kind = .typ ∨ v.kind = .otype)
    (hw : (getG ks m v).f.width = some w) (s : Str) (h : fmtX ks io m ind v = .text s) : w ≤ s.length := by
  cases v with
  | otype name ih =>
    simp only [fmtX] at h
    split at h
    · cases h
    · exact typeFinish_width _ _ _ w hw s h
  | otypeX d ih =>
    simp only [fmtX] at h
    split at h
    · cases h
    · exact typeFinish_width _ _ _ w hw s h
  | semver t =>
    simp only [fmtX, fmtSemVer] at h
    split at h
    · cases h; exact applyStringFlags_width _ _ _ w hw
    · split at h
      · cases h; exact applyStringFlags_width _ _ _ w hw
      · cases h
  | uri t =>
    simp only [fmtX, fmtUri] at h
    split at h
    · cases h; exact applyStringFlags_width _ _ _ w hw
    · split at h
      · cases h; exact applyStringFlags_width _ _ _ w hw
      · cases h
  | semverRange t n =>
    simp only [fmtX, fmtSemVerRange] at h
    split at h
    · cases h; exact applyStringFlags_width _ _ _ w hw
    · split at h
      · cases h; exact applyStringFlags_width _ _ _ w hw
      · cases h
  | typ name ps =>
    cases ps with
    | nil =>
      simp only [fmtX] at h
      split at h
      · cases h
      · exact typeFinish_width _ _ _ w hw s h
    | cons p ps =>
      simp only [fmtX] at h
      split at h
      · cases h
      · exact typeFinish_width _ _ _ w hw s h
  | _ => simp [XVal.kind] at hk

/-- **width, every kind but the four whose ToString never looks at the width** (Timespan, Timestamp, Sensitive, type alias): a value
    that is not a container, rendered under a format with width `w`, is at least `w` runes wide (for Integer / Float / Boolean the
    letters whose digits come from fmt's float code excepted, as in `fmtVal_width`) -/
theorem fmtX_width_leaf {κ : Type} (ks : KeySys κ) (io : FloatIO) (m : GMap κ) (ind : Ind) (v : XVal) (hv : v.isContainer = false)
    (hk : v.kind ≠ .tspan ∧ v.kind ≠ .tstamp ∧ v.kind ≠ .sensitive ∧ v.kind ≠ .talias)
    (w : Nat) (hw : (getG ks m v).f.width = some w) (hgo : GoOK (getG ks m v).f)
    (hfl : isFloatLetter (getG ks m v).f.letter = false ∨ (v.kind ≠ .int ∧ v.kind ≠ .float ∧ v.kind ≠ .bool))
    (s : Str) (h : fmtX ks io m ind v = .text s) : w ≤ s.length := by
  have hnf : ∀ k, v.kind = k → (k = .int ∨ k = .float ∨ k = .bool) → isFloatLetter (getG ks m v).f.letter = false := by
    intro k hk' hk''
    rcases hfl with h' | h'
    · exact h'
    · rw [hk'] at h'; rcases hk'' with rfl | rfl | rfl <;> simp at h'
  cases v with
  | undef => simp [fmtX, fmtUndef] at h; rw [← h]; exact applyStringFlags_width _ _ _ w hw
  | dflt => simp only [fmtX] at h; exact fmtDefault_width _ w hw s h
  | bool b => simp only [fmtX] at h; exact fmtBool_width io _ b w hw hgo (hnf .bool rfl (by simp)) s h
  | int i => simp only [fmtX] at h; exact fmtInt_width io _ i w hw hgo (hnf .int rfl (by simp)) s h
  | float bits => simp only [fmtX] at h; exact fmtFloat_width io _ bits w hw hgo (hnf .float rfl (by simp)) s h
  | str x => simp only [fmtX] at h; exact fmtStr_width _ x w hw s h
  | regexp src => simp [fmtX, fmtRegexp] at h; rw [← h]; exact applyStringFlags_width _ _ _ w hw
  | binary bs u => simp only [fmtX] at h; exact fmtBinary_width _ bs u w hw s h
  | semver t => exact fmtX_width_flagged ks io m ind _ w (by simp [XVal.kind]) hw s h
  | semverRange t n => exact fmtX_width_flagged ks io m ind _ w (by simp [XVal.kind]) hw s h
  | uri t => exact fmtX_width_flagged ks io m ind _ w (by simp [XVal.kind]) hw s h
  | typ name ps => exact fmtX_width_flagged ks io m ind _ w (by simp [XVal.kind]) hw s h
  | otype name ih => exact fmtX_width_flagged ks io m ind _ w (by simp [XVal.kind]) hw s h
  | otypeX d ih => simp [XVal.isContainer] at hv
  | tspan ns => simp [XVal.kind] at hk
  | tstamp t => simp [XVal.kind] at hk
  | sensitive x => simp [XVal.kind] at hk
  | talias name r => simp [XVal.kind] at hk
  | obj name es => simp [XVal.isContainer] at hv
  | array vs => simp [XVal.isContainer] at hv
  | hash es => simp [XVal.isContainer] at hv

/-! ### the container laws, over any key system -/

/-- the children of a container render to the texts `texts` -/
def ChildrenTextX {κ : Type} (ks : KeySys κ) (io : FloatIO) (m cf : GMap κ) (ci : Ind) : List XVal → List Str → Prop
  | [], [] => True
  | v :: vs, s :: ss => fmtX ks io (if v.isContainer then m else cf) ci v = .text s ∧ ChildrenTextX ks io m cf ci vs ss
  | _, _ => False

/-- the (text, is a container) pairs `Array.ToString2` assembles -/
def partsOf : List XVal → List Str → List (Str × Bool)
  | v :: vs, s :: ss => (s, v.isContainer) :: partsOf vs ss
  | _, _ => []

theorem partsOf_texts : ∀ (vs : List XVal) (ss : List Str), vs.length = ss.length → (partsOf vs ss).map (·.1) = ss
  | [], [], _ => rfl
  | v :: vs, s :: ss, h => by simp [partsOf, partsOf_texts vs ss (by simpa using h)]
  | [], _ :: _, h => by simp at h
  | _ :: _, [], h => by simp at h

theorem childrenTextX_length {κ : Type} (ks : KeySys κ) (io : FloatIO) (m cf : GMap κ) (ci : Ind) :
    ∀ (vs : List XVal) (ss : List Str), ChildrenTextX ks io m cf ci vs ss → vs.length = ss.length
  | [], [], _ => rfl
  | v :: vs, s :: ss, h => by simp [childrenTextX_length ks io m cf ci vs ss h.2]
  | [], _ :: _, h => by simp [ChildrenTextX] at h
  | _ :: _, [], h => by simp [ChildrenTextX] at h

theorem fmtElemsX_of_children {κ : Type} (ks : KeySys κ) (io : FloatIO) (m cf : GMap κ) (ci : Ind) :
    ∀ (vs : List XVal) (texts : List Str), ChildrenTextX ks io m cf ci vs texts →
      fmtElemsX ks io m cf ci vs = .ok (partsOf vs texts)
  | [], [], _ => by simp [fmtElemsX, partsOf]
  | v :: vs, s :: ss, h => by
    have ih := fmtElemsX_of_children ks io m cf ci vs ss h.2
    simp only [fmtElemsX, h.1, ResL.cons, ih, partsOf]
  | [], _ :: _, h => by simp [ChildrenTextX] at h
  | _ :: _, [], h => by simp [ChildrenTextX] at h

/-- the entries of a hash render to the key and value texts -/
def EntriesTextX {κ : Type} (ks : KeySys κ) (io : FloatIO) (m cf : GMap κ) (ci : Ind) : List XEntry → List (Str × Str) → Prop
  | [], [] => True
  | .mk k v :: es, (sk, sv) :: ss =>
    fmtX ks io (if k.isContainer then m else cf) ci k = .text sk ∧
    fmtX ks io (if v.isContainer then m else cf) ci v = .text sv ∧ EntriesTextX ks io m cf ci es ss
  | _, _ => False

theorem fmtPairsX_of_entries {κ : Type} (ks : KeySys κ) (io : FloatIO) (m cf : GMap κ) (ci : Ind) :
    ∀ (es : List XEntry) (texts : List (Str × Str)), EntriesTextX ks io m cf ci es texts → fmtPairsX ks io m cf ci es = .ok texts
  | [], [], _ => by simp [fmtPairsX]
  | .mk k v :: es, (sk, sv) :: ss, h => by
    have ih := fmtPairsX_of_entries ks io m cf ci es ss h.2.2
    simp only [fmtPairsX, h.1, h.2.1, ResL.cons, ih]
  | [], _ :: _, h => by simp [EntriesTextX] at h
  | _ :: _, [], h => by simp [EntriesTextX] at h

/-- **structural recursion, arrays** (alt or not): what `Array.ToString2` writes is `arrayAssemble` of the element renderings
    under the element context -/
theorem fmtX_array_assemble {κ : Type} (ks : KeySys κ) (io : FloatIO) (m : GMap κ) (ind : Ind) (vs : List XVal) (texts : List Str)
    (hl : isArrayLetter (getG ks m (.array vs)).f.letter = true)
    (hc : ChildrenTextX ks io m (cfOfG ks (getG ks m (.array vs))) (arrayChildInd (getG ks m (.array vs)).f ind) vs texts) :
    fmtX ks io m ind (.array vs) = .text (arrayAssemble (getG ks m (.array vs)).f ind (partsOf vs texts)) := by
  have hp := fmtElemsX_of_children ks io m _ _ vs texts hc
  simp only [fmtX, hl, Bool.not_true, Bool.false_eq_true, if_false, hp, arrayOf]

/-- **container law, arrays** (non-alt): left delimiter ++ intercalate (separator ++ blank) (element renderings) ++ right delimiter -/
theorem fmtX_array {κ : Type} (ks : KeySys κ) (io : FloatIO) (m : GMap κ) (ind : Ind) (vs : List XVal) (texts : List Str)
    (hl : isArrayLetter (getG ks m (.array vs)).f.letter = true) (halt : (getG ks m (.array vs)).f.alt = false)
    (hind : ind.indenting = false)
    (hc : ChildrenTextX ks io m (cfOfG ks (getG ks m (.array vs))) (arrayChildInd (getG ks m (.array vs)).f ind) vs texts) :
    fmtX ks io m ind (.array vs) =
      .text ((delimPair (getG ks m (.array vs)).f.ldelim '[').1 ++
        ((getG ks m (.array vs)).f.sep.getD [','] ++ [' ']).intercalate texts ++ (delimPair (getG ks m (.array vs)).f.ldelim '[').2) := by
  rw [fmtX_array_assemble ks io m ind vs texts hl hc, arrayAssemble_nonalt _ _ _ halt hind,
    partsOf_texts vs texts (childrenTextX_length ks io m _ _ vs texts hc)]

theorem hashAssembleD_false (f : Fmt) (ind : Ind) (parts : List (Str × Str)) :
    hashAssembleD f ind false parts = hashAssemble f ind parts := by
  simp [hashAssembleD, hashAssemble]

theorem hashAssembleD_nonalt (f : Fmt) (ind : Ind) (paren : Bool) (parts : List (Str × Str)) (hf : f.alt = false)
    (hi : ind.indenting = false) :
    hashAssembleD f ind paren parts =
      (if paren then ['('] else (delimPair f.ldelim '{').1) ++
        (f.sep.getD [','] ++ [' ']).intercalate (parts.map (fun p => p.1 ++ f.sep2.getD " => ".toList ++ p.2)) ++
      (if paren then [')'] else (delimPair f.ldelim '{').2) := by
  unfold hashAssembleD
  simp only [hf, hi, Ind.withIndenting, Ind.breaks, Bool.or_self, Bool.false_and, Bool.false_eq_true, if_false,
    hashEntries_eq]
  cases paren <;> simp

/-- **structural recursion, hashes** (letters h s p, alt or not) -/
theorem fmtX_hash_assemble {κ : Type} (ks : KeySys κ) (io : FloatIO) (m : GMap κ) (ind : Ind) (es : List XEntry)
    (texts : List (Str × Str))
    (hl : isHashLetter (getG ks m (.hash es)).f.letter = true)
    (hc : EntriesTextX ks io m (cfOfG ks (getG ks m (.hash es))) (hashChildInd (getG ks m (.hash es)).f ind) es texts) :
    fmtX ks io m ind (.hash es) = .text (hashAssemble (getG ks m (.hash es)).f ind texts) := by
  have hp := fmtPairsX_of_entries ks io m _ _ es texts hc
  have hna : (getG ks m (.hash es)).f.letter ≠ 'a' := by
    intro h; rw [h] at hl; simp [isHashLetter] at hl
  simp only [fmtX, hna, if_false, hl, Bool.not_true, Bool.false_eq_true, hp, hashOf, hashAssembleD_false]

/-- **container law, hashes** (non-alt, letters h s p) -/
theorem fmtX_hash {κ : Type} (ks : KeySys κ) (io : FloatIO) (m : GMap κ) (ind : Ind) (es : List XEntry) (texts : List (Str × Str))
    (hl : isHashLetter (getG ks m (.hash es)).f.letter = true) (halt : (getG ks m (.hash es)).f.alt = false)
    (hind : ind.indenting = false)
    (hc : EntriesTextX ks io m (cfOfG ks (getG ks m (.hash es))) (hashChildInd (getG ks m (.hash es)).f ind) es texts) :
    fmtX ks io m ind (.hash es) =
      .text ((delimPair (getG ks m (.hash es)).f.ldelim '{').1 ++
        ((getG ks m (.hash es)).f.sep.getD [','] ++ [' ']).intercalate
          (texts.map (fun p => p.1 ++ (getG ks m (.hash es)).f.sep2.getD " => ".toList ++ p.2)) ++
        (delimPair (getG ks m (.hash es)).f.ldelim '{').2) := by
  rw [fmtX_hash_assemble ks io m ind es texts hl hc, hashAssemble_nonalt _ _ _ halt hind]

/-- **object instances** (non-alt, letters h s p): the type name, then the init hash between `(` and `)` whatever delimiter the
    format gives -/
theorem fmtX_obj {κ : Type} (ks : KeySys κ) (io : FloatIO) (m : GMap κ) (ind : Ind) (name : Str) (es : List XEntry)
    (texts : List (Str × Str)) (hn : name ≠ [])
    (hl : isHashLetter (getG ks m (.obj name es)).f.letter = true) (halt : (getG ks m (.obj name es)).f.alt = false)
    (hind : ind.indenting = false)
    (hc : EntriesTextX ks io m (cfOfG ks (getG ks m (.obj name es))) (hashChildInd (getG ks m (.obj name es)).f ind) es texts) :
    fmtX ks io m ind (.obj name es) =
      .text (name ++ (['('] ++
        ((getG ks m (.obj name es)).f.sep.getD [','] ++ [' ']).intercalate
          (texts.map (fun p => p.1 ++ (getG ks m (.obj name es)).f.sep2.getD " => ".toList ++ p.2)) ++ [')'])) := by
  have hp := fmtPairsX_of_entries ks io m _ _ es texts hc
  have hna : (getG ks m (.obj name es)).f.letter ≠ 'a' := by
    intro h; rw [h] at hl; simp [isHashLetter] at hl
  have hb : ind.breaks = false := by simp [Ind.breaks, hind]
  have hne : name.isEmpty = false := by cases name <;> simp at hn ⊢
  simp only [fmtX, hne, Bool.false_eq_true, hna, if_false, hl, Bool.not_true, Bool.false_eq_true, hp, hashOf, Res.bind, hb,
    hashAssembleD_nonalt _ _ _ _ halt hind, if_true, List.nil_append]

/-- **Type values**: the name, then the parameters formatted as an Array under the same map and `ctx.Subsequent()`; `#s`
    quotes and the string flags apply to the whole text -/
theorem fmtX_typ {κ : Type} (ks : KeySys κ) (io : FloatIO) (m : GMap κ) (ind : Ind) (name : Str) (p : XVal) (ps : List XVal)
    (hl : isTypeLetter (getG ks m (.typ name (p :: ps))).f.letter = true) :
    fmtX ks io m ind (.typ name (p :: ps)) =
      typeFinish (getG ks m (.typ name (p :: ps))).f name (fmtX ks io m ind.ctxSubsequent (.array (p :: ps))) := by
  simp only [fmtX, hl, Bool.not_true, Bool.false_eq_true, if_false]

/-- a type alias is its name, whatever the letter and the flags — except under `%#b` -/
theorem fmtX_alias {κ : Type} (ks : KeySys κ) (io : FloatIO) (m : GMap κ) (ind : Ind) (name : Str) (r : XVal)
    (hn : name ≠ "UnresolvedAlias".toList)
    (hb : ¬ ((getG ks m (.talias name r)).f.alt = true ∧ (getG ks m (.talias name r)).f.letter = 'b')) :
    fmtX ks io m ind (.talias name r) = .text name := by
  simp only [fmtX, hn, if_false]
  split
  · rfl
  · rename_i h
    exfalso
    apply hb
    simpa using h

/-- a named object type is its name (with `#s` quoting and the string flags) -/
theorem fmtX_otype_named {κ : Type} (ks : KeySys κ) (io : FloatIO) (m : GMap κ) (ind : Ind) (name : Str) (ih : List OEntry)
    (hn : name ≠ []) (hl : isTypeLetter (getG ks m (.otype name ih)).f.letter = true) :
    fmtX ks io m ind (.otype name ih) = typeFinish (getG ks m (.otype name ih)).f [] (.text name) := by
  have : name.isEmpty = false := by cases name <;> simp at hn ⊢
  simp only [fmtX, hl, this, Bool.not_true, Bool.not_false, Bool.false_eq_true, if_false, if_true]

/-- an anonymous object type is `Object[{` … `}]` around the entries of its init hash, one level in (two for the members of
    `attributes` / `functions`), with `#s` quoting and the string flags on the whole -/
theorem fmtX_otype_anon {κ : Type} (ks : KeySys κ) (io : FloatIO) (m : GMap κ) (ind : Ind) (ih : List OEntry)
    (hl : isTypeLetter (getG ks m (.otype [] ih)).f.letter = true) :
    fmtX ks io m ind (.otype [] ih) =
      typeFinish (getG ks m (.otype [] ih)).f []
        ((otypeEntries ks io m (cfOfG ks (getG ks m (.otype [] ih))) (getG ks m (.otype [] ih)).f
            (ind.increase (getG ks m (.otype [] ih)).f.alt)
            ((ind.increase (getG ks m (.otype [] ih)).f.alt).increase (getG ks m (.otype [] ih)).f.alt) true ih).bind fun s =>
          .text ("Object[{".toList ++ s ++ (if (getG ks m (.otype [] ih)).f.alt then '\n' :: ind.padding else []) ++ "}]".toList)) := by
  simp only [fmtX, hl, Bool.not_true, Bool.false_eq_true, if_false, List.isEmpty_nil, Bool.not_true]

/-- an object type in a context with the property `expanded` is written as an anonymous one is: `Object[{` … `}]` around the entries of
    its init hash (which then holds its name) — the default Object type excepted -/
theorem fmtX_otype_expanded {κ : Type} (ks : KeySys κ) (io : FloatIO) (m : GMap κ) (ind : Ind) (ih : List OEntry)
    (hl : isTypeLetter (getG ks m (.otypeX false ih)).f.letter = true) :
    fmtX ks io m ind (.otypeX false ih) =
      typeFinish (getG ks m (.otypeX false ih)).f []
        ((otypeEntries ks io m (cfOfG ks (getG ks m (.otypeX false ih))) (getG ks m (.otypeX false ih)).f
            (ind.increase (getG ks m (.otypeX false ih)).f.alt)
            ((ind.increase (getG ks m (.otypeX false ih)).f.alt).increase (getG ks m (.otypeX false ih)).f.alt) true ih).bind fun s =>
          .text ("Object[{".toList ++ s ++ (if (getG ks m (.otypeX false ih)).f.alt then '\n' :: ind.padding else []) ++ "}]".toList)) := by
  simp only [fmtX, hl, Bool.not_true, Bool.false_eq_true, if_false]

/-- the letter of a container is checked before anything else -/
theorem fmtX_array_unsupported {κ : Type} (ks : KeySys κ) (io : FloatIO) (m : GMap κ) (ind : Ind) (vs : List XVal)
    (hl : isArrayLetter (getG ks m (.array vs)).f.letter = false) : fmtX ks io m ind (.array vs) = .reported .unsupported := by
  simp [fmtX, hl]

theorem fmtX_hash_unsupported {κ : Type} (ks : KeySys κ) (io : FloatIO) (m : GMap κ) (ind : Ind) (es : List XEntry)
    (hl : isHashLetter (getG ks m (.hash es)).f.letter = false) (ha : (getG ks m (.hash es)).f.letter ≠ 'a') :
    fmtX ks io m ind (.hash es) = .reported .unsupported := by
  simp [fmtX, hl, ha]

theorem fmtX_obj_unsupported {κ : Type} (ks : KeySys κ) (io : FloatIO) (m : GMap κ) (ind : Ind) (name : Str) (es : List XEntry)
    (hn : name ≠ [])
    (hl : isHashLetter (getG ks m (.obj name es)).f.letter = false) (ha : (getG ks m (.obj name es)).f.letter ≠ 'a') :
    fmtX ks io m ind (.obj name es) = .reported .unsupported := by
  have hne : name.isEmpty = false := by cases name <;> simp at hn ⊢
  simp [fmtX, hne, hl, ha, Res.bind]

/-- an instance of an anonymous object type is written as the Hash of its init hash (after the line break of the context) -/
theorem fmtX_obj_anon {κ : Type} (ks : KeySys κ) (io : FloatIO) (m : GMap κ) (ind : Ind) (es : List XEntry) :
    fmtX ks io m ind (.obj [] es) =
      (fmtX ks io m ind (.hash es)).bind fun s => .text ((if ind.breaks then '\n' :: ind.padding else []) ++ s) := by
  simp only [fmtX, List.isEmpty_nil, if_true, List.append_nil]

/-- a container reports unsupported-format for its own letter exactly when the letter is outside its set — otherwise the
    result is the composition of the element results -/
theorem fmtX_array_own_letter {κ : Type} (ks : KeySys κ) (io : FloatIO) (m : GMap κ) (ind : Ind) (vs : List XVal) :
    acceptsX .arr (getG ks m (.array vs)).f.letter = isArrayLetter (getG ks m (.array vs)).f.letter := by
  simp [acceptsX, modelLettersX, modelLetters, isArrayLetter, Bool.or_assoc]

end Pcore.Format
