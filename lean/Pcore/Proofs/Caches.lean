import Pcore.Model.Caches
import Pcore.Proofs.SliceHeapRefine
/-!
C08 helper lemmas, part 3: the lazily built caches stay coherent with the content they were computed from
(`CInv`, preserved by fills and by steps under `IdiomsSafe` + `CachesSafe`).
-/
namespace Pcore.Heap

/-! ### the side condition on the regenerated cache facts -/

def expectedFields : List (String × List String) :=
  [("Array", ["reducedType", "detailedType"]), ("Hash", ["reducedType", "detailedType", "index"]),
   ("MutableHashValue", ["embedded Hash"])]

/-- * the hidden state of a value is exactly the caches the model knows (a new field is a new obligation);
    * a cache field is only ever filled lazily (`if recv.f == nil { recv.f = … }`) or reset;
    * the only method that replaces a value's backing slice is `MutableHashValue.PutAll`, and it resets EVERY cache. -/
def cachesSafeB (f : CacheFacts) : Bool :=
  f.fields == expectedFields &&
  f.writes.all (fun w => w.2.2 == .lazyFill || w.2.2 == .reset) &&
  f.mutators == ["MutableHashValue.PutAll"] &&
  [CacheField.reduced, .detailed, .index].all (fun c => f.resets "MutableHashValue.PutAll" c)

def CachesSafe (f : CacheFacts) : Prop := cachesSafeB f = true

instance (f : CacheFacts) : Decidable (CachesSafe f) := by unfold CachesSafe; infer_instance

theorem safe_resets {f : CacheFacts} (h : CachesSafe f) (c : CacheField) :
    f.resets NewSite.mutPutAll.method c = true := by
  unfold CachesSafe cachesSafeB at h
  simp only [Bool.and_eq_true, List.all_eq_true] at h
  have := h.2 c (by cases c <;> simp)
  exact this

theorem Cache.get_set (c : Cache) (f f' : CacheField) (v : Option (List Val)) :
    (c.set f v).get f' = if f' = f then v else c.get f' := by
  cases f <;> cases f' <;> simp [Cache.set, Cache.get]

theorem resetCache_none {facts : CacheFacts} (h : CachesSafe facts) (c : Cache) (fld : CacheField) :
    (resetCache facts NewSite.mutPutAll.method c).get fld = none := by
  have h1 := safe_resets h .reduced
  have h2 := safe_resets h .detailed
  have h3 := safe_resets h .index
  cases fld <;> simp [resetCache, Cache.get, h1, h2, h3]

/-! ### facts about one heap step -/

theorem read_append_list (h cs : Heap) (sl : Slice) (ha : sl.arr < h.length) : Heap.read (h ++ cs) sl = Heap.read h sl := by
  unfold Heap.read Heap.cells
  simp [List.getD, List.getElem?_append_left ha]

theorem stepHeap_pool (P : Policy) (tbl : Table) (s : HState) (op : Op) :
    ∃ e, (stepHeap P tbl s op).pool = s.pool ++ [e] := by
  unfold stepHeap
  cases hop : opSem s.look op with
  | mark m => exact ⟨_, rfl⟩
  | alloc site k cap res => exact ⟨_, rfl⟩
  | same site k r =>
    simp only
    cases hs : s.slice? r with
    | none => exact ⟨_, rfl⟩
    | some p => exact ⟨_, rfl⟩
  | window site k r lo hi =>
    simp only
    cases hs : s.slice? r with
    | none => exact ⟨_, rfl⟩
    | some p =>
      simp only
      split <;> exact ⟨_, rfl⟩
  | new site k r res kill => exact ⟨_, rfl⟩

/-- the retired entries only grow, and only by the receiver of a killing step -/
theorem stepHeap_dead (P : Policy) (tbl : Table) (s : HState) (op : Op) :
    (stepHeap P tbl s op).dead = (match opSem s.look op with
      | .new _ _ r _ true => r :: s.dead
      | _ => s.dead) := by
  unfold stepHeap
  cases hop : opSem s.look op with
  | mark m => rfl
  | alloc site k cap res => rfl
  | same site k r =>
    simp only
    cases hs : s.slice? r with
    | none => rfl
    | some p => rfl
  | window site k r lo hi =>
    simp only
    cases hs : s.slice? r with
    | none => rfl
    | some p =>
      simp only
      split <;> rfl
  | new site k r res kill => cases kill <;> rfl

theorem stepHeap_dead_mono (P : Policy) (tbl : Table) (s : HState) (op : Op) (i : Nat)
    (h : (stepHeap P tbl s op).dead.contains i = false) : s.dead.contains i = false := by
  rw [stepHeap_dead] at h
  split at h
  · simp only [List.contains_cons, Bool.or_eq_false_iff] at h
    exact h.2
  · exact h

/-- a `same` site answered by `return recv` pushes the receiver's own header and changes nothing else -/
theorem stepHeap_same_recv (P : Policy) (tbl : Table) (s : HState) (op : Op) (site : SameSite) (k k' : Kind) (r : Nat)
    (recv : Slice) (hop : opSem s.look op = .same site k r) (hs : s.slice? r = some (k', recv))
    (hc : (tbl.find site.key).cls = .recv) :
    stepHeap P tbl s op = { s with pool := s.pool ++ [.val k recv] } := by
  unfold stepHeap
  rw [hop]
  simp only
  rw [hs]
  simp only
  rw [produce_recv _ _ _ _ _ _ _ _ _ hc]
  rfl

/-- live entries after a step: the live entries before it (minus a killed receiver), and possibly the new one -/
theorem slice?_after (P : Policy) (tbl : Table) (s : HState) (op : Op) (i : Nat) (k : Kind) (sl : Slice)
    (h : (stepHeap P tbl s op).slice? i = some (k, sl)) :
    (i < s.pool.length ∧ s.slice? i = some (k, sl)) ∨
    (i = s.pool.length ∧ (stepHeap P tbl s op).pool[s.pool.length]? = some (.val k sl)) := by
  obtain ⟨e, he⟩ := stepHeap_pool P tbl s op
  unfold HState.slice? at h
  split at h
  · cases h
  · rename_i hd
    have hd' : s.dead.contains i = false := stepHeap_dead_mono P tbl s op i (by simpa using hd)
    rw [he] at h
    by_cases hi : i < s.pool.length
    · left
      refine ⟨hi, ?_⟩
      rw [List.getElem?_append_left hi] at h
      unfold HState.slice?
      simp only [hd', Bool.false_eq_true, if_false]
      exact h
    · right
      have hge : s.pool.length ≤ i := Nat.le_of_not_lt hi
      rw [List.getElem?_append_right hge] at h
      by_cases hi2 : i = s.pool.length
      · subst hi2
        refine ⟨rfl, ?_⟩
        rw [he, List.getElem?_append_right (Nat.le_refl _)]
        simp only [Nat.sub_self, List.getElem?_cons_zero] at h ⊢
        cases e with
        | mark m => simp at h
        | val k2 s2 =>
          simp only [Option.some.injEq, Prod.mk.injEq] at h
          obtain ⟨rfl, rfl⟩ := h
          rfl
      · have : i - s.pool.length ≠ 0 := by omega
        cases hn : i - s.pool.length with
        | zero => exact absurd hn this
        | succ n => rw [hn] at h; simp at h

/-- a killed receiver is not live afterwards -/
theorem slice?_killed (P : Policy) (tbl : Table) (s : HState) (op : Op) (site : NewSite) (k : Kind) (r : Nat) (res : List Val)
    (hop : opSem s.look op = .new site k r res true) : (stepHeap P tbl s op).slice? r = none := by
  unfold HState.slice?
  rw [stepHeap_dead, hop]
  simp

/-! ### the invariant -/

structure CInv (st : CState) : Prop where
  wf : st.hs.WF
  len : st.obj.length = st.hs.pool.length
  bound : ∀ (i o : Nat), st.obj[i]? = some o → o < st.next
  empty : ∀ (o : Nat), st.next ≤ o → ∀ fld, (st.caches o).get fld = none
  /-- COHERENCE: a cached answer of a live value was computed from exactly what the value holds now -/
  coh : ∀ (i : Nat) (k : Kind) (sl : Slice) (o : Nat), st.hs.slice? i = some (k, sl) → st.obj[i]? = some o →
    ∀ fld snap, (st.caches o).get fld = some snap → snap = st.hs.heap.read sl
  /-- live entries of one object hold the same content; a mutable hash's object has one live entry -/
  share : ∀ (i j : Nat) (ki kj : Kind) (si sj : Slice) (o : Nat), st.hs.slice? i = some (ki, si) → st.hs.slice? j = some (kj, sj) →
    st.obj[i]? = some o → st.obj[j]? = some o →
    st.hs.heap.read si = st.hs.heap.read sj ∧ ((ki = .mut ∨ kj = .mut) → i = j)

theorem CInv.init : CInv {} where
  wf := by intro e he; cases he
  len := rfl
  bound := by intro i o h; simp at h
  empty := by intro o _ fld; cases fld <;> rfl
  coh := by intro i k sl o h; simp [HState.slice?] at h
  share := by intro i j ki kj si sj o h; simp [HState.slice?] at h

theorem CInv.fill {st : CState} (inv : CInv st) (i : Nat) (fld : CacheField) : CInv (st.fill i fld) := by
  unfold CState.fill
  split
  · rename_i k sl o hs ho
    split
    · exact inv
    · rename_i hnone
      refine ⟨inv.wf, inv.len, inv.bound, ?_, ?_, inv.share⟩
      · intro o' ho' fld'
        have ho'' : st.next ≤ o' := ho'
        have : o' ≠ o := by have := inv.bound i o ho; omega
        simp only [this, if_false]
        exact inv.empty o' ho'' fld'
      · intro j kj sj o' hsj hoj fld' snap hget
        simp only at hget
        by_cases hoo : o' = o
        · subst hoo
          simp only [if_true] at hget
          rw [Cache.get_set] at hget
          by_cases hf : fld' = fld
          · simp only [hf, if_true, Option.some.injEq] at hget
            rw [← hget]
            exact (inv.share i j k kj sl sj o' hs hsj ho hoj).1
          · simp only [hf, if_false] at hget
            exact inv.coh j kj sj o' hsj hoj fld' snap hget
        · simp only [hoo, if_false] at hget
          exact inv.coh j kj sj o' hsj hoj fld' snap hget
  · exact inv

theorem CInv.fills {st : CState} (inv : CInv st) (fs : List (Nat × CacheField)) : CInv (st.fills fs) := by
  unfold CState.fills
  induction fs generalizing st with
  | nil => exact inv
  | cons p fs ih => exact ih (inv.fill p.1 p.2)

theorem CState.fill_hs (st : CState) (i : Nat) (fld : CacheField) : (st.fill i fld).hs = st.hs := by
  unfold CState.fill
  split
  · split <;> rfl
  · rfl

theorem CState.fills_hs (st : CState) (fs : List (Nat × CacheField)) : (st.fills fs).hs = st.hs := by
  unfold CState.fills
  induction fs generalizing st with
  | nil => rfl
  | cons p fs ih => simp only [List.foldl_cons]; rw [ih, CState.fill_hs]

/-- reads of slices that were live before a step are the same after it (sealing) -/
theorem read_after (P : Policy) (tbl : Table) (ht : IdiomsSafe tbl) (s : HState) (hw : s.WF) (op : Op) (i : Nat) (k : Kind)
    (sl : Slice) (h : s.slice? i = some (k, sl)) : (stepHeap P tbl s op).heap.read sl = s.heap.read sl := by
  obtain ⟨cs, hcs⟩ := step_sealed P tbl ht s op
  rw [hcs]
  exact read_append_list _ _ _ (hw _ (slice?_mem h) k sl rfl)

theorem getElem?_snoc_lt {α : Type} (l : List α) (a : α) (i : Nat) (h : i < l.length) : (l ++ [a])[i]? = l[i]? :=
  List.getElem?_append_left h

theorem getElem?_snoc_eq {α : Type} (l : List α) (a : α) : (l ++ [a])[l.length]? = some a := by
  rw [List.getElem?_append_right (Nat.le_refl _)]; simp

/-- a step with a NEW object for the entry it creates -/
theorem CInv.step_fresh (P : Policy) (tbl : Table) (ht : IdiomsSafe tbl) {st : CState} (inv : CInv st) (op : Op) :
    CInv { hs := stepHeap P tbl st.hs op, obj := st.obj ++ [st.next], next := st.next + 1, caches := st.caches } := by
  have hwf := (step_refines P tbl ht st.hs inv.wf op).2
  obtain ⟨e, he⟩ := stepHeap_pool P tbl st.hs op
  refine ⟨hwf, ?_, ?_, ?_, ?_, ?_⟩
  · simp only [List.length_append, List.length_cons, List.length_nil, he, inv.len]
  · intro i o ho
    simp only at ho
    by_cases hi : i < st.obj.length
    · rw [getElem?_snoc_lt _ _ _ hi] at ho
      have := inv.bound i o ho
      show o < st.next + 1
      omega
    · have hge : st.obj.length ≤ i := Nat.le_of_not_lt hi
      rw [List.getElem?_append_right hge] at ho
      cases hn : i - st.obj.length with
      | zero => rw [hn] at ho; simp at ho; show o < st.next + 1; omega
      | succ n => rw [hn] at ho; simp at ho
  · intro o ho fld
    exact inv.empty o (by simp only at ho; omega) fld
  · intro i k sl o hs ho fld snap hget
    simp only at hs ho hget ⊢
    rcases slice?_after P tbl st.hs op i k sl hs with ⟨hi, hs1⟩ | ⟨hi, _⟩
    · rw [getElem?_snoc_lt _ _ _ (by rw [inv.len]; exact hi)] at ho
      rw [read_after P tbl ht st.hs inv.wf op i k sl hs1]
      exact inv.coh i k sl o hs1 ho fld snap hget
    · subst hi
      rw [← inv.len, getElem?_snoc_eq] at ho
      simp only [Option.some.injEq] at ho
      subst ho
      rw [inv.empty st.next (Nat.le_refl _) fld] at hget
      cases hget
  · intro i j ki kj si sj o hsi hsj hoi hoj
    simp only at hsi hsj hoi hoj ⊢
    rcases slice?_after P tbl st.hs op i ki si hsi with ⟨hi, hs1⟩ | ⟨hi, _⟩
    · rw [getElem?_snoc_lt _ _ _ (by rw [inv.len]; exact hi)] at hoi
      rcases slice?_after P tbl st.hs op j kj sj hsj with ⟨hj, hs2⟩ | ⟨hj, _⟩
      · rw [getElem?_snoc_lt _ _ _ (by rw [inv.len]; exact hj)] at hoj
        rw [read_after P tbl ht st.hs inv.wf op i ki si hs1, read_after P tbl ht st.hs inv.wf op j kj sj hs2]
        exact inv.share i j ki kj si sj o hs1 hs2 hoi hoj
      · subst hj
        rw [← inv.len, getElem?_snoc_eq] at hoj
        simp only [Option.some.injEq] at hoj
        have := inv.bound i o hoi
        omega
    · subst hi
      rw [← inv.len, getElem?_snoc_eq] at hoi
      simp only [Option.some.injEq] at hoi
      rcases slice?_after P tbl st.hs op j kj sj hsj with ⟨hj, hs2⟩ | ⟨hj, hp⟩
      · rw [getElem?_snoc_lt _ _ _ (by rw [inv.len]; exact hj)] at hoj
        have := inv.bound j o hoj
        omega
      · subst hj
        rename_i hp1
        rw [hp1] at hp
        simp only [Option.some.injEq, HEntry.val.injEq] at hp
        obtain ⟨_, rfl⟩ := hp
        exact ⟨rfl, fun _ => rfl⟩

/-- a step that answers the receiver itself: the new entry is the receiver's object -/
theorem CInv.step_same (P : Policy) (tbl : Table) (ht : IdiomsSafe tbl) {st : CState} (inv : CInv st) (op : Op)
    (site : SameSite) (k k' : Kind) (r : Nat) (recv : Slice) (o : Nat)
    (hop : opSem st.hs.look op = .same site k r) (hs : st.hs.slice? r = some (k', recv)) (ho : st.obj[r]? = some o)
    (hc : (tbl.find site.key).cls = .recv) (hk : k ≠ .mut) (hk' : k' ≠ .mut) :
    CInv { hs := stepHeap P tbl st.hs op, obj := st.obj ++ [o], next := st.next, caches := st.caches } := by
  have hwf := (step_refines P tbl ht st.hs inv.wf op).2
  have hstep := stepHeap_same_recv P tbl st.hs op site k k' r recv hop hs hc
  have hnew : (stepHeap P tbl st.hs op).pool[st.hs.pool.length]? = some (.val k recv) := by
    rw [hstep]; exact getElem?_snoc_eq _ _
  have hheap : (stepHeap P tbl st.hs op).heap = st.hs.heap := by rw [hstep]
  refine ⟨hwf, ?_, ?_, inv.empty, ?_, ?_⟩
  · rw [hstep]; simp [inv.len]
  · intro i o' ho'
    simp only at ho'
    by_cases hi : i < st.obj.length
    · rw [getElem?_snoc_lt _ _ _ hi] at ho'
      exact inv.bound i o' ho'
    · have hge : st.obj.length ≤ i := Nat.le_of_not_lt hi
      rw [List.getElem?_append_right hge] at ho'
      cases hn : i - st.obj.length with
      | zero =>
        rw [hn] at ho'; simp at ho'
        subst ho'
        exact inv.bound r o ho
      | succ n => rw [hn] at ho'; simp at ho'
  · intro i ki sl o' hsi hoi fld snap hget
    simp only at hsi hoi hget ⊢
    rw [hheap]
    rcases slice?_after P tbl st.hs op i ki sl hsi with ⟨hi, hs1⟩ | ⟨hi, hp⟩
    · rw [getElem?_snoc_lt _ _ _ (by rw [inv.len]; exact hi)] at hoi
      exact inv.coh i ki sl o' hs1 hoi fld snap hget
    · subst hi
      rw [hnew] at hp
      simp only [Option.some.injEq, HEntry.val.injEq] at hp
      obtain ⟨_, rfl⟩ := hp
      rw [← inv.len, getElem?_snoc_eq] at hoi
      simp only [Option.some.injEq] at hoi
      subst hoi
      exact inv.coh r k' recv o hs ho fld snap hget
  · intro i j ki kj si sj o' hsi hsj hoi hoj
    simp only at hsi hsj hoi hoj ⊢
    rw [hheap]
    rcases slice?_after P tbl st.hs op i ki si hsi with ⟨hi, hs1⟩ | ⟨hi, hp⟩
    · rw [getElem?_snoc_lt _ _ _ (by rw [inv.len]; exact hi)] at hoi
      rcases slice?_after P tbl st.hs op j kj sj hsj with ⟨hj, hs2⟩ | ⟨hj, hp2⟩
      · rw [getElem?_snoc_lt _ _ _ (by rw [inv.len]; exact hj)] at hoj
        exact inv.share i j ki kj si sj o' hs1 hs2 hoi hoj
      · subst hj
        rw [hnew] at hp2
        simp only [Option.some.injEq, HEntry.val.injEq] at hp2
        obtain ⟨rfl, rfl⟩ := hp2
        rw [← inv.len, getElem?_snoc_eq] at hoj
        simp only [Option.some.injEq] at hoj
        subst hoj
        have h := inv.share i r ki k' si recv o hs1 hs hoi ho
        refine ⟨h.1, ?_⟩
        intro hm
        rcases hm with hm | hm
        · have := h.2 (Or.inl hm)
          subst this
          rw [hs] at hs1
          simp only [Option.some.injEq, Prod.mk.injEq] at hs1
          exact absurd (hs1.1 ▸ hm) hk'
        · exact absurd hm hk
    · subst hi
      rw [hnew] at hp
      simp only [Option.some.injEq, HEntry.val.injEq] at hp
      obtain ⟨rfl, rfl⟩ := hp
      rw [← inv.len, getElem?_snoc_eq] at hoi
      simp only [Option.some.injEq] at hoi
      subst hoi
      rcases slice?_after P tbl st.hs op j kj sj hsj with ⟨hj, hs2⟩ | ⟨hj, hp2⟩
      · rw [getElem?_snoc_lt _ _ _ (by rw [inv.len]; exact hj)] at hoj
        have h := inv.share r j k' kj recv sj o hs hs2 ho hoj
        refine ⟨h.1, ?_⟩
        intro hm
        rcases hm with hm | hm
        · exact absurd hm hk
        · have := h.2 (Or.inr hm)
          subst this
          rw [hs] at hs2
          simp only [Option.some.injEq, Prod.mk.injEq] at hs2
          exact absurd (hs2.1 ▸ hm) hk'
      · subst hj
        rw [hnew] at hp2
        simp only [Option.some.injEq, HEntry.val.injEq] at hp2
        obtain ⟨_, rfl⟩ := hp2
        exact ⟨rfl, fun _ => rfl⟩

/-- a step that changes a mutable hash: the new entry continues the receiver's object, whose caches the mutator
    has reset; the receiver's entry is retired -/
theorem CInv.step_kill (P : Policy) (tbl : Table) (ht : IdiomsSafe tbl) (facts : CacheFacts) (hf : CachesSafe facts)
    {st : CState} (inv : CInv st) (op : Op) (k : Kind) (r : Nat) (res : List Val) (recv : Slice) (o : Nat)
    (hop : opSem st.hs.look op = .new .mutPutAll k r res true) (hs : st.hs.slice? r = some (.mut, recv))
    (ho : st.obj[r]? = some o) :
    CInv { hs := stepHeap P tbl st.hs op, obj := st.obj ++ [o], next := st.next,
           caches := fun o' => if o' = o then resetCache facts NewSite.mutPutAll.method (st.caches o) else st.caches o' } := by
  have hwf := (step_refines P tbl ht st.hs inv.wf op).2
  obtain ⟨e, he⟩ := stepHeap_pool P tbl st.hs op
  have hdead := slice?_killed P tbl st.hs op _ k r res hop
  -- a live old entry is not the receiver, hence not of the receiver's object
  have hother : ∀ i ki si, i < st.hs.pool.length → (stepHeap P tbl st.hs op).slice? i = some (ki, si) →
      st.hs.slice? i = some (ki, si) → st.obj[i]? ≠ some o := by
    intro i ki si _ hl hs1 hoi
    have := (inv.share i r ki .mut si recv o hs1 hs hoi ho).2 (Or.inr rfl)
    subst this
    rw [hdead] at hl
    cases hl
  refine ⟨hwf, ?_, ?_, ?_, ?_, ?_⟩
  · simp only [List.length_append, List.length_cons, List.length_nil, he, inv.len]
  · intro i o' ho'
    simp only at ho'
    by_cases hi : i < st.obj.length
    · rw [getElem?_snoc_lt _ _ _ hi] at ho'
      exact inv.bound i o' ho'
    · have hge : st.obj.length ≤ i := Nat.le_of_not_lt hi
      rw [List.getElem?_append_right hge] at ho'
      cases hn : i - st.obj.length with
      | zero =>
        rw [hn] at ho'; simp at ho'
        subst ho'
        exact inv.bound r o ho
      | succ n => rw [hn] at ho'; simp at ho'
  · intro o' ho' fld
    have hb := inv.bound r o ho
    have hne : o' ≠ o := by have : st.next ≤ o' := ho'; omega
    simp only [hne, if_false]
    exact inv.empty o' ho' fld
  · intro i ki sl o' hsi hoi fld snap hget
    simp only at hsi hoi hget ⊢
    rcases slice?_after P tbl st.hs op i ki sl hsi with ⟨hi, hs1⟩ | ⟨hi, _⟩
    · rw [getElem?_snoc_lt _ _ _ (by rw [inv.len]; exact hi)] at hoi
      have hne : o' ≠ o := by
        intro heq; subst heq
        exact hother i ki sl hi hsi hs1 hoi
      simp only [hne, if_false] at hget
      rw [read_after P tbl ht st.hs inv.wf op i ki sl hs1]
      exact inv.coh i ki sl o' hs1 hoi fld snap hget
    · subst hi
      rw [← inv.len, getElem?_snoc_eq] at hoi
      simp only [Option.some.injEq] at hoi
      subst hoi
      simp only [if_true] at hget
      rw [resetCache_none hf] at hget
      cases hget
  · intro i j ki kj si sj o' hsi hsj hoi hoj
    simp only at hsi hsj hoi hoj ⊢
    rcases slice?_after P tbl st.hs op i ki si hsi with ⟨hi, hs1⟩ | ⟨hi, hp⟩
    · rw [getElem?_snoc_lt _ _ _ (by rw [inv.len]; exact hi)] at hoi
      rcases slice?_after P tbl st.hs op j kj sj hsj with ⟨hj, hs2⟩ | ⟨hj, _⟩
      · rw [getElem?_snoc_lt _ _ _ (by rw [inv.len]; exact hj)] at hoj
        rw [read_after P tbl ht st.hs inv.wf op i ki si hs1, read_after P tbl ht st.hs inv.wf op j kj sj hs2]
        exact inv.share i j ki kj si sj o' hs1 hs2 hoi hoj
      · subst hj
        rw [← inv.len, getElem?_snoc_eq] at hoj
        simp only [Option.some.injEq] at hoj
        subst hoj
        exact absurd hoi (hother i ki si hi hsi hs1)
    · subst hi
      rw [← inv.len, getElem?_snoc_eq] at hoi
      simp only [Option.some.injEq] at hoi
      subst hoi
      rcases slice?_after P tbl st.hs op j kj sj hsj with ⟨hj, hs2⟩ | ⟨hj, hp2⟩
      · rw [getElem?_snoc_lt _ _ _ (by rw [inv.len]; exact hj)] at hoj
        exact absurd hoj (hother j kj sj hj hsj hs2)
      · subst hj
        rw [hp] at hp2
        simp only [Option.some.injEq, HEntry.val.injEq] at hp2
        obtain ⟨_, rfl⟩ := hp2
        exact ⟨rfl, fun _ => rfl⟩

/-- COHERENCE is an invariant of every step, whatever is asked for in between -/
theorem CInv.step (P : Policy) (tbl : Table) (ht : IdiomsSafe tbl) (facts : CacheFacts) (hf : CachesSafe facts)
    (sched : Nat → List (Nat × CacheField)) {st : CState} (inv : CInv st) (op : Op) :
    CInv (stepC P tbl facts sched st op) := by
  unfold stepC
  simp only
  have inv1 := inv.fills (sched st.hs.pool.length)
  generalize st.fills (sched st.hs.pool.length) = st1 at inv1 ⊢
  unfold objOf
  simp only
  cases hop : opSem st1.hs.look op with
  | mark m => exact inv1.step_fresh P tbl ht op
  | alloc site k cap res => exact inv1.step_fresh P tbl ht op
  | window site k r lo hi => exact inv1.step_fresh P tbl ht op
  | same site k r =>
    simp only
    cases hs : st1.hs.slice? r with
    | none => exact inv1.step_fresh P tbl ht op
    | some p =>
      obtain ⟨k', recv⟩ := p
      cases ho : st1.obj[r]? with
      | none => exact inv1.step_fresh P tbl ht op
      | some o =>
        simp only
        split
        · rename_i hcond
          simp only [Bool.and_eq_true, beq_iff_eq, bne_iff_ne, ne_eq] at hcond
          exact inv1.step_same P tbl ht op site k k' r recv o hop hs ho hcond.1.1 hcond.1.2 hcond.2
        · exact inv1.step_fresh P tbl ht op
  | new site k r res kill =>
    cases kill with
    | false => exact inv1.step_fresh P tbl ht op
    | true =>
      simp only
      cases hs : st1.hs.slice? r with
      | none => exact inv1.step_fresh P tbl ht op
      | some p =>
        obtain ⟨k', recv⟩ := p
        cases ho : st1.obj[r]? with
        | none => exact inv1.step_fresh P tbl ht op
        | some o =>
          simp only
          split
          · rename_i hcond
            simp only [Bool.and_eq_true, beq_iff_eq] at hcond
            obtain ⟨⟨rfl, rfl⟩, rfl⟩ := hcond
            exact inv1.step_kill P tbl ht facts hf op _ r res recv o hop hs ho
          · exact inv1.step_fresh P tbl ht op

theorem CInv.run (P : Policy) (tbl : Table) (ht : IdiomsSafe tbl) (facts : CacheFacts) (hf : CachesSafe facts)
    (sched : Nat → List (Nat × CacheField)) (ops : List Op) : CInv (runC P tbl facts sched ops) := by
  unfold runC
  have : ∀ st : CState, CInv st → CInv (ops.foldl (stepC P tbl facts sched) st) := by
    induction ops with
    | nil => intro st h; exact h
    | cons op ops ih => intro st h; exact ih _ (h.step P tbl ht facts hf sched op)
  exact this {} CInv.init

/-- the heap component of a run with caches is the run without them -/
theorem runC_hs (P : Policy) (tbl : Table) (facts : CacheFacts) (sched : Nat → List (Nat × CacheField)) (ops : List Op) :
    (runC P tbl facts sched ops).hs = runHeap P tbl ops := by
  unfold runC runHeap
  have : ∀ st : CState, (ops.foldl (stepC P tbl facts sched) st).hs = ops.foldl (stepHeap P tbl) st.hs := by
    induction ops with
    | nil => intro st; rfl
    | cons op ops ih =>
      intro st
      simp only [List.foldl_cons]
      rw [ih]
      unfold stepC
      simp only [CState.fills_hs]
  exact this {}

end Pcore.Heap
