import Pcore.Proofs.DescribePos
import Pcore.Proofs.LatWF
set_option linter.unusedSimpArgs false
set_option linter.unusedVariables false
/-!
  C19 helper lemmas: positions of the EXPECTED type alone (`Pos`), and well-formedness (Struct member names pairwise
  different) is inherited along a walk, which turns the "or the expected Struct names a member twice" escape of the missing-key
  condition into "absent from the actual Struct".
-/
namespace Pcore.Desc
open Pcore.Lat

/-- `s` is a position of the expected type `e`: what the path of a mismatch may look like, whatever the actual type -/
inductive Pos : Ty → Bool → Path → Prop where
  | nil (e oc) : Pos e oc []
  | opt {t oc oc' s} : Pos t oc' s → Pos (.optional t) oc s
  | silent {e oc xs t s} : members e oc = some xs → Atom.ty t ∈ xs → Pos t false s → Pos e oc s
  | explicit {e oc xs i t s} : members e oc = some xs → xs[i]? = some (.ty t) → Pos t false s → Pos e oc (PE.nat .variant i :: s)
  | opq {e oc xs i y} : members e oc = some xs → xs[i]? = some y → Pos e oc [PE.nat .variant i]
  | entryS {ms : List Member} {n o t oc s} : (n, o, t) ∈ ms → Pos t false s → Pos (.struct ms) oc (⟨.entry, n⟩ :: s)
  | keyS {ms : List Member} {n o t oc s} : (n, o, t) ∈ ms → Pos (.strVal n) false s → Pos (.struct ms) oc (⟨.entryKey, n⟩ :: s)
  | entryH {k v r n oc s} : Pos v false s → Pos (.hash k v r) oc (⟨.entry, n⟩ :: s)
  | keyH {k v r n oc s} : Pos k false s → Pos (.hash k v r) oc (⟨.entryKey, n⟩ :: s)
  | idxA {et r i oc s} : Pos et false s → Pos (.array et r) oc (PE.nat .index i :: s)
  | idxT {ts g i t oc s} : (ts[i]? = some t ∨ (ts.length ≤ i ∧ ts.getLast? = some t)) → Pos t false s →
      Pos (.tuple ts g) oc (PE.nat .index i :: s)
  | callP {ep rt bl oc s} : Pos ep false s → Pos (.callable (some ep) rt bl) oc s
  | callRet {ps er bl oc} : Pos (.callable ps (some er) bl) oc [⟨.ret, ""⟩]
  | callBlk {ps rt eb oc} : Pos (.callable ps rt (some eb)) oc [⟨.block, ""⟩]

theorem Reach.toPos {e a oc s x a'} (h : Reach e a oc s x a') : Pos e oc s := by
  induction h with
  | refl => exact .nil _ _
  | opt _ ih => exact .opt ih
  | silent hm hin _ ih => exact .silent hm hin ih
  | explicit hm hi _ ih => exact .explicit hm hi ih
  | opq hm hi _ => exact .opq hm hi
  | opqSilent => exact .nil _ _
  | entryS hin _ _ _ ih => exact .entryS hin ih
  | keyS hin _ _ _ ih => exact .keyS hin ih
  | entryH _ _ ih => exact .entryH ih
  | keyH _ _ ih => exact .keyH ih
  | idxAT _ _ ih => exact .idxA ih
  | idxTA hi _ ih => exact .idxT (.inl hi) ih
  | idxTT hl hle _ _ ih => exact .idxT (.inr ⟨hle, hl⟩) ih
  | callP _ ih => exact .callP ih
  | callRet => exact .callRet
  | callBlk => exact .callBlk

theorem wf_of_mem_members {cfg : Cfg} {e : Ty} {oc : Bool} {xs : List Atom} {t : Ty} (hw : Ty.WF cfg e)
    (hm : members e oc = some xs) (hin : Atom.ty t ∈ xs) : Ty.WF cfg t := by
  cases e <;> simp only [members, Option.some.injEq, reduceCtorEq] at hm
  case data =>
    subst hm
    simp only [dataMembers, List.mem_cons, Atom.ty.injEq, List.mem_nil_iff, or_false] at hin
    rcases hin with rfl | rfl | rfl | rfl <;> simp [Ty.WF]
  case richData =>
    subst hm
    simp only [richMembers, List.mem_cons, Atom.ty.injEq, List.mem_nil_iff, or_false, reduceCtorEq, false_or] at hin
    rcases hin with rfl | rfl | rfl | rfl | rfl | rfl | rfl | rfl <;> simp [Ty.WF]
  case variant ts =>
    subst hm
    rw [Ty.WF] at hw
    rcases List.mem_append.mp hin with h | h
    · obtain ⟨t', ht', heq⟩ := List.mem_map.mp h
      simp only [Atom.ty.injEq] at heq; subst heq
      exact hw t' ht'
    · cases oc
      · simp at h
      · simp only [if_true, List.mem_singleton, Atom.ty.injEq] at h; subst h; simp [Ty.WF]

theorem wf_callable_parts {cfg : Cfg} {p r k : Option Ty} (h : Ty.WF cfg (.callable p r k)) :
    (∀ t, p = some t → Ty.WF cfg t) ∧ (∀ t, r = some t → Ty.WF cfg t) ∧ (∀ t, k = some t → Ty.WF cfg t) := by
  unfold Ty.WF at h
  refine ⟨?_, ?_, ?_⟩ <;> (intro t ht; subst ht; first | exact h.1 | exact h.2.1 | exact h.2.2)

/-- well-formedness of the expected type is inherited by every expected sub-term a walk reaches -/
theorem Reach.wf {cfg : Cfg} {e a oc s e' a'} (h : Reach e a oc s (.ty e') a') (hw : Ty.WF cfg e) : Ty.WF cfg e' := by
  generalize hx : Atom.ty e' = x at h
  induction h with
  | refl => simp only [Atom.ty.injEq] at hx; subst hx; exact hw
  | opt _ ih => rw [Ty.WF] at hw; exact ih hw hx
  | silent hm hin _ ih => exact ih (wf_of_mem_members hw hm hin) hx
  | explicit hm hi _ ih => exact ih (wf_of_mem_members hw hm (List.mem_of_getElem? hi)) hx
  | opq _ _ hno => exact absurd hx.symm (hno _)
  | opqSilent _ _ hno => exact absurd hx.symm (hno _)
  | entryS hin _ _ _ ih => rw [Ty.WF] at hw; exact ih (hw.2 _ hin) hx
  | keyS _ _ _ _ ih => exact ih (by simp [Ty.WF]) hx
  | entryH _ _ ih => rw [Ty.WF] at hw; exact ih hw.2 hx
  | keyH _ _ ih => rw [Ty.WF] at hw; exact ih hw.1 hx
  | idxAT _ _ ih => rw [Ty.WF] at hw; exact ih hw hx
  | idxTA hi _ ih => rw [Ty.WF] at hw; exact ih (hw _ (List.mem_of_getElem? hi)) hx
  | idxTT hl _ _ _ ih => rw [Ty.WF] at hw; exact ih (hw _ (List.mem_of_getLast? hl)) hx
  | callP _ ih => exact ih ((wf_callable_parts hw).1 _ rfl) hx
  | callRet => simp only [Atom.ty.injEq] at hx; subst hx; exact (wf_callable_parts hw).2.1 _ rfl
  | callBlk => simp only [Atom.ty.injEq] at hx; subst hx; exact (wf_callable_parts hw).2.2 _ rfl

end Pcore.Desc
