import Pcore.Model.LoaderTS
import Pcore.Proofs.LoaderSeq
/-! Type-set leaves: the lookup against its specification (helper lemmas for C12_ts_*). -/
namespace Pcore.LoaderSeq

/-- specification (from the property text and the meaning of a type set): the ancestors' binding of the name (outermost
    first; the leaf's own entry map never holds a value), otherwise the member the name denotes, otherwise the name taken
    relative to the type set -/
def tsResolve (s : Sys) (l : Nat) (t : TypeSet) (n : Name) : List String → Option V
  | [] => none
  | hd :: rest =>
    match resolve s l (canon (withSegs n (hd :: rest))) with
    | some v => some v
    | none =>
      match tsGetType t n (hd :: rest) with
      | some v => some v
      | none => if !rest.isEmpty && hd = t.name then tsResolve s l t n rest else none

/-- the two side conditions of `C12_ts_load`, for every name the lookup reaches (the name, then its forms relative to the
    type set): (1) a member name is not also bound along the chain — the known finding's class; (2) a name that can be
    taken relative to the type set has no cached miss in the leaf's own entry map — true of every state a history
    produces, because the leaf only ever caches a miss under a name that can NOT be taken relative (`tsLoadEntry`) -/
def TSReach (s : Sys) (l : Nat) (t : TypeSet) (n : Name) : List String → Prop
  | [] => True
  | hd :: rest =>
    ((tsGetType t n (hd :: rest)).isSome = true → resolve s l (canon (withSegs n (hd :: rest))) = none) ∧
    ((!rest.isEmpty && hd = t.name) = true → lk (canon (withSegs n (hd :: rest))) (s.ents l) = none) ∧
    TSReach s l t n rest

instance decTSReach (s : Sys) (l : Nat) (t : TypeSet) (n : Name) : (segs : List String) → Decidable (TSReach s l t n segs)
  | [] => isTrue trivial
  | hd :: rest => by
    unfold TSReach
    have := decTSReach s l t n rest
    infer_instance

theorem resolve_eq_join (s : Sys) (l : Nat) (k : Key) : resolve s l k = (loadEntryC s.es (chain s.ps l) k).join := by
  rw [loadEntryC_join]; rfl

theorem loadEntryC_placeholder (s : Sys) (l : Nat) (k : Key) (h : loadEntryC s.es (chain s.ps l) k = some none) :
    lk k (s.ents l) = some none := by
  rw [chain_eq] at h
  simp only [loadEntryC] at h
  split at h
  · cases h
  · exact h

theorem tsLoadEntry_spec (s : Sys) (l : Nat) (t : TypeSet) (n : Name) (segs : List String) (hne : segs ≠ [])
    (h : TSReach s l t n segs) : (tsLoadEntry s l t n segs).2.join = tsResolve s l t n segs := by
  induction segs with
  | nil => exact absurd rfl hne
  | cons hd rest ih =>
    simp only [tsLoadEntry, tsResolve]
    obtain ⟨h1, h2, h3⟩ := h
    cases hg : tsGetType t n (hd :: rest) with
    | some v =>
      have := h1 (by simp [hg])
      simp [this]
    | none =>
      simp only
      rw [resolve_eq_join]
      cases hl : loadEntryC s.es (chain s.ps l) (canon (withSegs n (hd :: rest))) with
      | some e =>
        cases e with
        | none =>
          have hp := loadEntryC_placeholder s l _ hl
          by_cases hc : (!rest.isEmpty && hd = t.name) = true
          · rw [h2 hc] at hp; cases hp
          · simp [hc]
        | some v => simp
      | none =>
        by_cases hc : (!rest.isEmpty && hd = t.name) = true
        · have hr : rest ≠ [] := by
            intro e; subst e; simp at hc
          simp only [Option.join, hc, if_true]
          exact ih hr h3
        · simp [hc]

/-- a lookup through a type-set leaf changes no binding of any loader (it can only cache a miss in the leaf's own map) -/
theorem tsLoadEntry_bound (s : Sys) (l : Nat) (t : TypeSet) (n : Name) (segs : List String) (l' : Nat) (k' : Key) :
    bound (tsLoadEntry s l t n segs).1 l' k' = bound s l' k' := by
  induction segs with
  | nil => rfl
  | cons hd rest ih =>
    simp only [tsLoadEntry]
    split
    · rfl
    · split
      · rfl
      · split
        · exact ih
        · cases h : bound s l' k' with
          | none => exact bound_setEnts_setEntry_none s l' l k' _ none h (Or.inl rfl)
          | some v => exact bound_setEnts_setEntry_mono s l' l k' _ none v h

theorem tsHas_spec (s : Sys) (l : Nat) (t : TypeSet) (n : Name) (segs : List String) :
    tsHas s l t n segs = (tsResolve s l t n segs).isSome := by
  induction segs with
  | nil => rfl
  | cons hd rest ih =>
    simp only [tsHas, tsResolve, hasC_eq]
    have hr : (List.findSome? (fun a => bound s a (canon (withSegs n (hd :: rest)))) (chain s.ps l).reverse) =
        resolve s l (canon (withSegs n (hd :: rest))) := rfl
    rw [hr]
    cases h1 : resolve s l (canon (withSegs n (hd :: rest))) with
    | some v => simp
    | none =>
      cases h2 : tsGetType t n (hd :: rest) with
      | some v => simp
      | none =>
        by_cases hc : (!rest.isEmpty && hd = t.name) = true
        · simp only [Option.isSome_none, Bool.false_or, hc, if_true, ← ih]
          simp only [Bool.and_eq_true] at hc
          simp
        · simp only [Option.isSome_none, Bool.false_or, hc]
          simp only [Bool.and_eq_true, not_and] at hc
          by_cases he : (!rest.isEmpty) = true
          · have := hc he
            simp [this]
          · simp [he]

/-! ### `stepT` on a type-set leaf, unfolded -/

theorem stepT_load (tss : List (Option TypeSet)) (s : Sys) (l : Nat) (t : TypeSet) (n : Name) (ht : tsOf tss l = some t)
    (ha : n.auth = runtimeAuthority) :
    stepT tss s (.load l n) = ((tsLoadEntry s l t n (segsOf n)).1, ansOf (tsLoadEntry s l t n (segsOf n)).2.join) := by
  unfold stepT
  simp only [ht, ha, ne_eq, not_true_eq_false, if_false]

theorem stepT_load_foreign (tss : List (Option TypeSet)) (s : Sys) (l : Nat) (t : TypeSet) (n : Name)
    (ht : tsOf tss l = some t) (ha : n.auth ≠ runtimeAuthority) : stepT tss s (.load l n) = (s, .notfound) := by
  unfold stepT
  simp only [ht, ne_eq, ha, not_false_eq_true, if_true]

theorem stepT_has (tss : List (Option TypeSet)) (s : Sys) (l : Nat) (t : TypeSet) (n : Name) (ht : tsOf tss l = some t) :
    stepT tss s (.has l n) = (s, .bool (tsHas s l t n (segsOf n))) := by
  unfold stepT
  simp only [ht]

theorem stepT_define (tss : List (Option TypeSet)) (s : Sys) (l p : Nat) (t : TypeSet) (n : Name) (v : V)
    (ht : tsOf tss l = some t) (hp : s.ps.getD l none = some p) : stepT tss s (.define l n v) = define s p n v := by
  unfold stepT
  simp only [ht, hp]

theorem stepT_plain (tss : List (Option TypeSet)) (s : Sys) (op : Op) (h : tsOf tss op.loader = none) :
    stepT tss s op = step s op := by
  cases op with
  | load l n => unfold stepT; simp only [Op.loader] at h; simp only [h]
  | define l n v => unfold stepT; simp only [Op.loader] at h; simp only [h]
  | has l n => unfold stepT; simp only [Op.loader] at h; simp only [h]
  | get l n => rfl
  | discover l p => unfold stepT; simp only [Op.loader] at h; simp only [h]

end Pcore.LoaderSeq
