import Pcore.Proofs.LatReflAll
set_option linter.unusedSimpArgs false
set_option linter.unusedVariables false
/-! Left-weakening for EVERY right-hand side (C03 widening laws without the `NoAliasR` side condition): `left_weaken` stopped at a
    built-in alias on the right because `a ⊒ Data` is not a question to the receiver rule; here the two aliases are extra hypotheses
    (`left_weaken_all`), which are vacuous for every receiver that rejects Undef (`left_weaken_nu`: Data and RichData both contain Undef) —
    the case of all range-carrying receivers of the widening laws. -/
namespace Pcore.Lat
variable (cfg : Cfg) (sfh : Bool)

/-- `left_weaken` with the two aliases as extra hypotheses: no side condition on the right-hand type -/
theorem left_weaken_all (a a' : Ty)
    (hR : ∀ b, RecvPos cfg sfh b → asg cfg sfh a b = true → asg cfg sfh a' b = true)
    (hD : asg cfg sfh a .data = true → asg cfg sfh a' .data = true)
    (hRD : asg cfg sfh a .richData = true → asg cfg sfh a' .richData = true) :
    ∀ (n : Nat) (b : Ty), b.w ≤ n → asg cfg sfh a b = true → asg cfg sfh a' b = true := by
  intro n
  induction n with
  | zero => intro b h; have := Ty.w_pos b; omega
  | succ n ih =>
    intro b hw h
    cases b with
    | unit => exact asg_unit_r cfg sfh a'
    | data => exact hD h
    | richData => exact hRD h
    | optional ot =>
      simp only [Ty.w] at hw
      have h12 : asg cfg sfh a .undef = true ∧ asg cfg sfh a ot = true := by
        rw [asg_optional_r] at h
        simp only [Bool.or_eq_true, Bool.and_eq_true] at h
        rcases h with h | h
        · exact ⟨asg_of_isAny cfg sfh h _, asg_of_isAny cfg sfh h _⟩
        · exact h
      rw [asg_optional_r]
      simp only [Bool.or_eq_true, Bool.and_eq_true]
      right
      exact ⟨ih .undef (by simp [Ty.w]; omega) h12.1, ih ot (by omega) h12.2⟩
    | variant bs =>
      simp only [Ty.w] at hw
      have hall : ∀ t ∈ bs, asg cfg sfh a t = true := by
        rw [asg_variant_r] at h
        simp only [Bool.or_eq_true] at h
        rcases h with h | h
        · exact fun t _ => asg_of_isAny cfg sfh h t
        · exact (asgAllR_iff cfg sfh a bs).1 h
      rw [asg_variant_r]
      simp only [Bool.or_eq_true]
      right
      rw [asgAllR_iff]
      intro t hm
      exact ih t (by have := Ty.w_lt_wl hm; omega) (hall t hm)
    | notUndef nt =>
      simp only [Ty.w] at hw
      by_cases hc : asg cfg sfh nt .undef = true
      · exact hR _ (Or.inr ⟨nt, rfl, hc⟩) h
      · have hc' : asg cfg sfh nt .undef = false := by cases hh : asg cfg sfh nt .undef <;> simp_all
        have h1 : asg cfg sfh a nt = true := by
          rw [asg_notUndef_r] at h
          simp only [Bool.or_eq_true] at h
          rcases h with h | h
          · exact asg_of_isAny cfg sfh h _
          · simpa [hc'] using h
        rw [asg_notUndef_r]
        simp only [hc', Bool.not_false, if_true, Bool.or_eq_true]
        right; exact ih nt (by omega) h1
    | _ => exact hR _ (Or.inl rfl) h

/-- a receiver that rejects Undef accepts neither Data nor RichData (both contain Undef): the alias hypotheses are vacuous -/
theorem left_weaken_nu (a a' : Ty)
    (hR : ∀ b, RecvPos cfg sfh b → asg cfg sfh a b = true → asg cfg sfh a' b = true)
    (hu : asg cfg sfh a .undef = false) (b : Ty) (h : asg cfg sfh a b = true) : asg cfg sfh a' b = true := by
  apply left_weaken_all cfg sfh a a' hR _ _ b.w b (Nat.le_refl _) h
  · intro hd; have := (asg_data_comps cfg sfh hd).2.1; rw [hu] at this; cases this
  · intro hd; have := (asg_rich_comps cfg sfh hd).un; rw [hu] at this; cases this

theorem noAliasR_of_plain {b : Ty} (hp : b.plainR = true) : b.NoAliasR := by
  cases b <;> simp [Ty.plainR] at hp <;> (unfold Ty.NoAliasR; trivial)

/-- the receiver-level hypothesis of `left_weaken`, from a widening law proved for alias-free right-hand sides, for a receiver whose
    own rule rejects every NotUndef -/
theorem hR_of_noAliasR (a a' : Ty) (hw : ∀ b, b.NoAliasR → asg cfg sfh a b = true → asg cfg sfh a' b = true)
    (hnu : ∀ nt, asgRecv cfg sfh a (.notUndef nt) = false) :
    ∀ b, RecvPos cfg sfh b → asg cfg sfh a b = true → asg cfg sfh a' b = true := by
  intro b hp h
  rcases hp with hp | ⟨nt, rfl, hnt⟩
  · exact hw b (noAliasR_of_plain hp) h
  · exfalso
    rw [asg_notUndef_r, hnt] at h
    have ha : a.isAny = false := by
      cases a <;> simp [Ty.isAny]
      have := hnu nt; unfold asgRecv at this; simp at this
    simp [ha, hnu nt] at h

theorem undef_false_of_recv (a : Ty) (ha : a.isAny = false) (hs : sameNullary a .undef = false)
    (hr : asgRecv cfg sfh a .undef = false) : asg cfg sfh a .undef = false := by
  rw [asg_plain_r cfg sfh _ _ rfl]; simp [ha, hs, hr]

/-! ### the widening laws for every right-hand side -/
theorem widen_int_all (r r' : Rng) (hr : r'.sub r = true) (b : Ty) (h : asg cfg sfh (.int r) b = true) :
    asg cfg sfh (.int r') b = true :=
  left_weaken_nu cfg sfh _ _ (hR_of_noAliasR cfg sfh _ _ (fun b hb h => widen_int cfg sfh r r' hr b hb h)
    (fun nt => by unfold asgRecv; rfl)) (undef_false_of_recv cfg sfh _ rfl rfl (by unfold asgRecv; rfl)) b h

theorem widen_tspan_all (r r' : Rng) (hr : r'.sub r = true) (b : Ty) (h : asg cfg sfh (.tspan r) b = true) :
    asg cfg sfh (.tspan r') b = true :=
  left_weaken_nu cfg sfh _ _ (hR_of_noAliasR cfg sfh _ _ (fun b hb h => widen_tspan cfg sfh r r' hr b hb h)
    (fun nt => by unfold asgRecv; rfl)) (undef_false_of_recv cfg sfh _ rfl rfl (by unfold asgRecv; rfl)) b h

theorem widen_float_all (lo hi lo' hi' : Fl) (hlo : lo' ≤ lo) (hhi : hi ≤ hi') (b : Ty)
    (h : asg cfg sfh (.float lo hi) b = true) : asg cfg sfh (.float lo' hi') b = true :=
  left_weaken_nu cfg sfh _ _ (hR_of_noAliasR cfg sfh _ _ (fun b hb h => widen_float cfg sfh lo hi lo' hi' hlo hhi b hb h)
    (fun nt => by unfold asgRecv; rfl)) (undef_false_of_recv cfg sfh _ rfl rfl (by unfold asgRecv; rfl)) b h

theorem widen_strSz_all (r r' : Rng) (hr : r'.sub r = true) (b : Ty) (h : asg cfg sfh (.strSz r) b = true) :
    asg cfg sfh (.strSz r') b = true :=
  left_weaken_nu cfg sfh _ _ (hR_of_noAliasR cfg sfh _ _ (fun b hb h => widen_strSz cfg sfh r r' hr b hb h)
    (fun nt => by unfold asgRecv; rfl)) (undef_false_of_recv cfg sfh _ rfl rfl (by unfold asgRecv; rfl)) b h

theorem widen_coll_all (r r' : Rng) (hr : r'.sub r = true) (b : Ty) (h : asg cfg sfh (.coll r) b = true) :
    asg cfg sfh (.coll r') b = true :=
  left_weaken_nu cfg sfh _ _ (hR_of_noAliasR cfg sfh _ _ (fun b hb h => widen_coll cfg sfh r r' hr b hb h)
    (fun nt => by unfold asgRecv; rfl)) (undef_false_of_recv cfg sfh _ rfl rfl (by unfold asgRecv; rfl)) b h

theorem widen_array_all (e : Ty) (r r' : Rng) (hr : r'.sub r = true) (b : Ty) (h : asg cfg sfh (.array e r) b = true) :
    asg cfg sfh (.array e r') b = true :=
  left_weaken_nu cfg sfh _ _ (hR_of_noAliasR cfg sfh _ _ (fun b hb h => widen_array cfg sfh e r r' hr b hb h)
    (fun nt => by unfold asgRecv; rfl)) (undef_false_of_recv cfg sfh _ rfl rfl (by unfold asgRecv; rfl)) b h

theorem widen_hash_all (k v : Ty) (r r' : Rng) (hr : r'.sub r = true) (b : Ty) (h : asg cfg sfh (.hash k v r) b = true) :
    asg cfg sfh (.hash k v r') b = true :=
  left_weaken_nu cfg sfh _ _ (hR_of_noAliasR cfg sfh _ _ (fun b hb h => widen_hash cfg sfh k v r r' hr b hb h)
    (fun nt => by unfold asgRecv; rfl)) (undef_false_of_recv cfg sfh _ rfl rfl (by unfold asgRecv; rfl)) b h

theorem widen_tuple_all (ts : List Ty) (r r' : Rng) (hr : r'.sub r = true) (b : Ty)
    (h : asg cfg sfh (.tuple ts (some r)) b = true) : asg cfg sfh (.tuple ts (some r')) b = true :=
  left_weaken_nu cfg sfh _ _ (hR_of_noAliasR cfg sfh _ _ (fun b hb h => widen_tuple cfg sfh ts r r' hr b hb h)
    (fun nt => by unfold asgRecv; rfl)) (undef_false_of_recv cfg sfh _ rfl rfl (by unfold asgRecv; rfl)) b h

end Pcore.Lat
