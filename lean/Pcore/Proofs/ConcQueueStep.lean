import Pcore.Proofs.ConcQueueInv
/-! The declare / resolve queue, `fresh` variant: every atomic step of every thread keeps the invariant. -/
namespace Pcore.ConcQueue

/-- what a thread reads through the slice it took over is what the slice held when it was popped -/
theorem slotAt_eq {heap : List (List (Option Item))} {q s : Slice} {b : List Item} {i : Nat} (h : SliceOK heap q s b)
    (hi : i < s.len) : slotAt heap s i = b[i]? := by
  obtain ⟨_, h2⟩ := h
  obtain ⟨_, _, h3⟩ := h2 (by omega)
  have : (readSlice heap s)[i]? = (b.map some)[i]? := by rw [h3]
  unfold readSlice at this
  rw [List.getElem?_take_of_lt hi, List.getElem?_map] at this
  unfold slotAt
  rw [List.getD_eq_getElem?_getD, this]
  cases b[i]? <;> rfl

theorem no_fault_append {log : List Ans} {a : Ans} (h : ∀ ev, Ans.fault ev ∉ log) (ha : ∀ ev, a ≠ Ans.fault ev) :
    ∀ ev, Ans.fault ev ∉ log ++ [a] := by
  intro ev hm
  rcases List.mem_append.mp hm with hm | hm
  · exact h ev hm
  · simp only [List.mem_singleton] at hm
    exact ha ev hm.symm

/-- taking the list over (`PopDeclaredTypes`, fresh variant) -/
theorem Inv_pop (cfg : Cfg) (hv : cfg.variant = .fresh) (c : Config) (i : Nat) (rest : List QOp) (log : List Ans)
    (h : Inv c) (hi : c.th[i]? = some { pc := .idle, ops := .resolve :: rest, log := log }) :
    Inv { sh := (popQ cfg c.sh).1,
          th := c.th.set i { pc := .bindRead (popQ cfg c.sh).2 (qItems c.sh) 0 [], ops := rest, log := log } } := by
  have hlen : c.sh.q.len = (qItems c.sh).length := by
    have := readSlice_length c.sh.heap c.sh.q h.w2
    rw [h.w3, List.length_map] at this
    exact this.symm
  have hf := h.f _ (List.mem_of_getElem? hi)
  unfold popQ
  rw [hv]
  by_cases hpos : c.sh.q.len > 0
  · simp only [hpos, if_true]
    have fr : Frame c.sh.heap c.sh.q (c.sh.heap ++ [List.replicate cfg.cap0 none]) { arr := c.sh.heap.length, len := 0 } :=
      ⟨fun a ha _ => getD_append_lt _ _ _ _ ha, by rw [List.length_append]; omega, Or.inr (Nat.le_refl _)⟩
    have hq0 : qItems { c.sh with heap := c.sh.heap ++ [List.replicate cfg.cap0 none], q := { arr := c.sh.heap.length, len := 0 } } = [] := by
      simp [qItems, readSlice]
    refine { w1 := ?_, w2 := Nat.zero_le _, w3 := ?_, p := ?_, a1 := ?_, a2 := ?_, a3 := ?_, f := ?_ }
    · show c.sh.heap.length < (c.sh.heap ++ [_]).length
      rw [List.length_append]; simp
    · rw [hq0]; simp [readSlice]
    · intro u hu
      rcases List.mem_or_eq_of_mem_set hu with hu | rfl
      · exact PCok_frame fr _ (h.p u hu)
      · refine ⟨⟨hlen, fun _ => ⟨Nat.ne_of_lt h.w1, ?_, ?_⟩⟩, Nat.zero_le _⟩
        · show c.sh.q.arr < (c.sh.heap ++ [_]).length
          rw [List.length_append]; have := h.w1; omega
        · show readSlice (c.sh.heap ++ [_]) c.sh.q = _
          unfold readSlice
          rw [getD_append_lt _ _ _ _ h.w1]
          exact h.w3
    · intro x
      rw [hq0]
      have := h.a1 x
      have := occ_set batch x c.th i _ { pc := .bindRead c.sh.q (qItems c.sh) 0 [], ops := rest, log := log } hi
      simp only [batch, List.count_nil] at this ⊢
      omega
    · intro x
      have := h.a2 x
      have := occ_set bdone x c.th i _ { pc := .bindRead c.sh.q (qItems c.sh) 0 [], ops := rest, log := log } hi
      simp only [bdone, List.take_zero, List.count_nil] at this ⊢
      omega
    · intro x
      have := h.a3 x
      have := occ_set rdone x c.th i _ { pc := .bindRead c.sh.q (qItems c.sh) 0 [], ops := rest, log := log } hi
      simp only [rdone, List.count_nil] at this ⊢
      omega
    · intro u hu
      rcases List.mem_or_eq_of_mem_set hu with hu | rfl
      · exact h.f u hu
      · exact hf
  · simp only [hpos, if_false]
    have hq0 : qItems c.sh = [] := by
      have : (qItems c.sh).length = 0 := by omega
      exact List.eq_nil_of_length_eq_zero this
    refine Inv_update c i _ _ c.sh h hi rfl rfl rfl ?_ ?_ ?_ ?_ hf
    · exact ⟨⟨hlen, fun hl => absurd hl hpos⟩, Nat.zero_le _⟩
    · intro x; simp [batch, hq0]
    · intro x; simp [bdone]
    · intro x; simp [rdone]

/-- every atomic step of every thread keeps the invariant -/
theorem Inv_step (cfg : Cfg) (hv : cfg.variant = .fresh) (c : Config) (i : Nat) (h : Inv c) : Inv (stepAt cfg c i) := by
  unfold stepAt
  cases hi : c.th[i]? with
  | none => exact h
  | some t =>
    simp only
    have hmem : t ∈ c.th := List.mem_of_getElem? hi
    have hp := h.p t hmem
    have hf := h.f t hmem
    obtain ⟨pc, ops, log⟩ := t
    cases pc with
    | idle =>
      cases ops with
      | nil =>
        simp only [stepThread]
        rw [set_self _ _ _ hi]
        exact h
      | cons op rest =>
        cases op with
        | decl =>
          simp only [stepThread]
          refine Inv_update { sh := declare cfg c.sh, th := c.th } i _ _ (declare cfg c.sh) (Inv_declare cfg c h) hi rfl rfl rfl
            trivial (fun x => rfl) (fun x => rfl) (fun x => rfl) (no_fault_append hf (fun ev => by simp))
        | resolve =>
          simp only [stepThread]
          exact Inv_pop cfg hv c i rest log h hi
    | bindRead s b j ev =>
      simp only [stepThread]
      obtain ⟨hs, hj⟩ := hp
      by_cases hlt : j < s.len
      · simp only [hlt, if_true]
        rw [slotAt_eq hs hlt]
        have hjb : j < b.length := by rw [← hs.1]; exact hlt
        rw [List.getElem?_eq_getElem hjb]
        simp only
        exact Inv_update c i _ _ c.sh h hi rfl rfl rfl ⟨hs, List.getElem?_eq_getElem hjb⟩ (fun x => rfl) (fun x => rfl) (fun x => rfl) hf
      · simp only [hlt, if_false]
        have hjl : b.length ≤ j := by rw [← hs.1]; omega
        refine Inv_update c i _ _ c.sh h hi rfl rfl rfl ⟨hs, Nat.zero_le _⟩ (fun x => rfl) (fun x => ?_) (fun x => ?_) hf
        · simp only [bdone, List.take_of_length_le hjl]
        · simp only [rdone, List.take_zero]
    | bindSet s b j y ev =>
      simp only [stepThread]
      obtain ⟨hs, hy⟩ := hp
      have hjb : j < b.length := by
        rcases Nat.lt_or_ge j b.length with hlt | hge
        · exact hlt
        · rw [List.getElem?_eq_none hge] at hy; cases hy
      refine Inv_update c i _ _ { c.sh with bound := c.sh.bound ++ [y] } h hi rfl rfl rfl ⟨hs, by rw [hs.1]; omega⟩
        (fun x => rfl) (fun x => ?_) (fun x => rfl) hf
      simp only [bdone, take_succ_of_getElem? b j y hy, List.count_append]
      omega
    | resRead s b j ev =>
      simp only [stepThread]
      obtain ⟨hs, hj⟩ := hp
      by_cases hlt : j < s.len
      · simp only [hlt, if_true]
        rw [slotAt_eq hs hlt]
        have hjb : j < b.length := by rw [← hs.1]; exact hlt
        rw [List.getElem?_eq_getElem hjb]
        simp only
        exact Inv_update c i _ _ c.sh h hi rfl rfl rfl ⟨hs, List.getElem?_eq_getElem hjb⟩ (fun x => rfl) (fun x => rfl) (fun x => rfl) hf
      · simp only [hlt, if_false]
        have hjl : b.length ≤ j := by rw [← hs.1]; omega
        refine Inv_update c i _ _ { c.sh with fin := c.sh.fin ++ b } h hi rfl rfl rfl trivial (fun x => ?_) (fun x => ?_) (fun x => ?_)
          (no_fault_append hf (fun ev => by simp))
        · simp only [batch, List.count_append, List.count_nil]; omega
        · simp only [bdone, List.count_append, List.count_nil]; omega
        · simp only [rdone, List.take_of_length_le hjl, List.count_append, List.count_nil]; omega
    | resCall s b j y ev =>
      simp only [stepThread]
      obtain ⟨hs, hy⟩ := hp
      have hjb : j < b.length := by
        rcases Nat.lt_or_ge j b.length with hlt | hge
        · exact hlt
        · rw [List.getElem?_eq_none hge] at hy; cases hy
      refine Inv_update c i _ _ { c.sh with resolved := c.sh.resolved ++ [y] } h hi rfl rfl rfl ⟨hs, by rw [hs.1]; omega⟩
        (fun x => rfl) (fun x => rfl) (fun x => ?_) hf
      simp only [rdone, take_succ_of_getElem? b j y hy, List.count_append]
      omega

theorem Inv_reachable (cfg : Cfg) (hv : cfg.variant = .fresh) {c0 c : Config} (h0 : Inv c0) (hr : Reachable cfg c0 c) : Inv c := by
  induction hr with
  | init => exact h0
  | step i _ ih => exact Inv_step cfg hv _ i ih

theorem Inv_declareN (cfg : Cfg) (n : Nat) (sh : Shared) (th : List Thread) (h : Inv { sh := sh, th := th }) :
    Inv { sh := declareN cfg n sh, th := th } := by
  induction n generalizing sh with
  | zero => exact h
  | succ m ih => exact ih _ (Inv_declare cfg { sh := sh, th := th } h)

theorem Inv_init (cfg : Cfg) (pend : Nat) (progs : List (List QOp)) : Inv (Config.init cfg pend progs) := by
  apply Inv_declareN
  have hidle : ∀ t ∈ progs.map (fun p => ({ pc := .idle, ops := p, log := [] } : Thread)), t.pc = .idle := by
    intro t ht
    obtain ⟨p, _, rfl⟩ := List.mem_map.mp ht
    rfl
  refine { w1 := by simp [Shared.init], w2 := Nat.zero_le _, w3 := by simp [Shared.init, qItems, readSlice], p := ?_,
           a1 := ?_, a2 := ?_, a3 := ?_, f := ?_ }
  · intro t ht
    rw [hidle t ht]; trivial
  · intro x
    rw [occ_idle batch rfl x _ hidle]
    simp [Shared.init, qItems, readSlice]
  · intro x
    rw [occ_idle bdone rfl x _ hidle]
    simp [Shared.init]
  · intro x
    rw [occ_idle rdone rfl x _ hidle]
    simp [Shared.init]
  · intro t ht ev hm
    obtain ⟨p, _, rfl⟩ := List.mem_map.mp ht
    cases hm

/-! ### a table of sites that satisfies the discipline describes the `fresh` variant -/

theorem siteOK_facts (tbl : List QueueSite) (s : QueueSite) (hi : s.init = false) (h : siteOK tbl s = true) :
    (s.kind = .escape → rebindOK s.rebind = true) ∧ (s.kind = .reslice → escapes tbl s.var = false) ∧
    (s.rebind = .reslice → s.kind = .reslice) := by
  unfold siteOK at h
  rw [hi] at h
  cases hg : guardOf s.var with
  | none => rw [hg] at h; simp at h
  | some m =>
    rw [hg] at h
    cases hk : s.kind <;> cases hr : s.rebind <;> simp_all [rebindOK]

theorem variantOf_fresh (tbl : List QueueSite) (var : String) (h : queueSitesOK tbl = true) : variantOf tbl var = .fresh := by
  have hall := List.all_eq_true.mp h
  have hmine : ∀ s ∈ tbl.filter (fun s => s.var == var && !s.init), siteOK tbl s = true ∧ s.var = var ∧ s.init = false := by
    intro s hs
    obtain ⟨h1, h2⟩ := List.mem_filter.mp hs
    simp only [Bool.and_eq_true, beq_iff_eq, Bool.not_eq_true'] at h2
    exact ⟨hall s h1, h2.1, h2.2⟩
  unfold variantOf
  simp only
  rw [if_neg, if_pos]
  · rw [List.all_eq_true]
    intro s hs
    obtain ⟨ok, _, hi⟩ := hmine s hs
    have := (siteOK_facts tbl s hi ok).1
    cases hk : s.kind <;> simp_all
  · intro hcontra
    simp only [Bool.and_eq_true, List.any_eq_true] at hcontra
    obtain ⟨⟨s, hs, hsr⟩, hesc⟩ := hcontra
    obtain ⟨ok, hv, hi⟩ := hmine s hs
    obtain ⟨_, f2, f3⟩ := siteOK_facts tbl s hi ok
    have hk : s.kind = .reslice := by
      simp only [Bool.or_eq_true, beq_iff_eq] at hsr
      rcases hsr with hsr | hsr
      · exact hsr
      · exact f3 hsr
    have := f2 hk
    rw [hv, hesc] at this
    cases this

end Pcore.ConcQueue
