import Pcore.Proofs.LoaderConc
/-! The answer of a concurrent discovery: the invariant behind `C13_discover_sandwich`. -/
namespace Pcore.LoaderConc
open Pcore.LoaderSeq

/-- what a discovery under way knows: where it is on the chain; everything found so far is bound (now) at a level it has
    passed; everything that was bound at a passed level when the discovery began has been found; the snapshot is a past
    state of the shared state -/
def DiscOK (s : Sys) : PC → Prop
  | .discWalk l p todo passed found snap =>
    (chain s.ps l).reverse = passed.reverse ++ todo ∧
    (∀ k ∈ found, p k = true ∧ ∃ x ∈ passed, (bound s x k).isSome = true) ∧
    (∀ x ∈ passed, ∀ k, p k = true → (bound snap x k).isSome = true → k ∈ found) ∧
    Mono snap s ∧ WF snap
  | _ => True

theorem isSome_mono {s s' : Sys} (h : Mono s s') {l : Nat} {k : Key} (hb : (bound s l k).isSome = true) :
    (bound s' l k).isSome = true := by
  cases hv : bound s l k with
  | none => rw [hv] at hb; cases hb
  | some v => rw [h.2.2 l k v hv]; rfl

theorem DiscOK_mono {s s' : Sys} (h : Mono s s') (pc : PC) (hd : DiscOK s pc) : DiscOK s' pc := by
  cases pc with
  | discWalk l p todo passed found snap =>
    obtain ⟨h1, h2, h3, h4, h5⟩ := hd
    refine ⟨by rw [h.1]; exact h1, ?_, h3, h4.trans h, h5⟩
    intro k hk
    obtain ⟨hp, x, hx, hb⟩ := h2 k hk
    exact ⟨hp, x, hx, isSome_mono h hb⟩
  | _ => trivial

theorem mem_discLevel (s : Sys) (hwf : WF s) (x : Nat) (found : List Key) (p : Key → Bool) (k : Key) :
    k ∈ discLevel s.es x found p ↔ k ∈ found ∨ ((bound s x k).isSome = true ∧ k ∉ found ∧ p k = true) := by
  unfold discLevel
  split
  · rename_i he
    simp only [List.isEmpty_iff] at he
    constructor
    · exact Or.inl
    · rintro (h | h)
      · exact h
      · have := (mem_ownAdded s hwf x found p k).mpr h
        rw [he] at this; cases this
  · rw [mem_sortKeys, List.mem_append, mem_ownAdded s hwf]

/-- one level of a discovery keeps `DiscOK` -/
theorem DiscOK_level (s : Sys) (hwf : WF s) (l : Nat) (p : Key → Bool) (x : Nat) (todo passed : List Nat) (found : List Key)
    (snap : Sys) (hd : DiscOK s (.discWalk l p (x :: todo) passed found snap)) :
    DiscOK s (.discWalk l p todo (x :: passed) (discLevel s.es x found p) snap) := by
  obtain ⟨h1, h2, h3, h4, h5⟩ := hd
  refine ⟨?_, ?_, ?_, h4, h5⟩
  · rw [h1]; simp
  · intro k hk
    rcases (mem_discLevel s hwf x found p k).mp hk with hk | ⟨hb, _, hp⟩
    · obtain ⟨hp, y, hy, hb⟩ := h2 k hk
      exact ⟨hp, y, List.mem_cons_of_mem _ hy, hb⟩
    · exact ⟨hp, x, by simp, hb⟩
  · intro y hy k hp hb
    rw [mem_discLevel s hwf]
    rcases List.mem_cons.mp hy with rfl | hy
    · by_cases hf : k ∈ found
      · exact Or.inl hf
      · exact Or.inr ⟨isSome_mono h4 hb, hf, hp⟩
    · exact Or.inl (h3 y hy k hp hb)

theorem WF_missStep (s : Sys) (hwf : WF s) (l : Nat) (k : Key) : WF (missStep s l k).1 := by
  unfold missStep
  split
  · exact WF_setEnts s hwf l _ (setEntry_keys_nodup _ _ _ (WF_ents s hwf l))
  · exact WF_setEnts s hwf l _ (setEntry_keys_nodup _ _ _ (WF_ents s hwf l))
  · exact hwf

theorem WF_startOp (s : Sys) (hwf : WF s) (log : List (Ans × Src)) (rest : List Op) (op : Op) : WF (startOp s log rest op).1 := by
  cases op with
  | load l n => simp only [startOp]; split <;> exact hwf
  | define l n v => exact WF_step s (.define l n v) hwf
  | has l n => exact hwf
  | get l n => exact hwf
  | discover l p => exact hwf

theorem WF_stepThread (s : Sys) (hwf : WF s) (t : Thread) : WF (stepThread s t).1 := by
  unfold stepThread
  split
  · split
    · exact hwf
    · exact WF_startOp s hwf _ _ _
  · exact hwf
  · exact hwf
  · exact hwf
  · exact hwf
  · exact WF_missStep s hwf _ _
  · split <;> exact hwf
  · exact hwf
  · exact hwf
  · split <;> exact hwf
  · exact hwf

theorem DiscOK_startOp (s : Sys) (hwf : WF s) (log : List (Ans × Src)) (rest : List Op) (op : Op) :
    DiscOK (startOp s log rest op).1 (startOp s log rest op).2.pc := by
  cases op with
  | load l n => simp only [startOp]; split <;> trivial
  | define l n v => trivial
  | has l n => trivial
  | get l n => trivial
  | discover l p =>
    show DiscOK s (.discWalk l p (chain s.ps l).reverse [] [] s)
    refine ⟨by simp, ?_, ?_, Mono.refl s, hwf⟩
    · intro k hk; cases hk
    · intro x hx; cases hx

/-- the stepping thread re-establishes `DiscOK` for its new continuation -/
theorem DiscOK_stepThread (s : Sys) (hwf : WF s) (t : Thread) (hd : DiscOK s t.pc) :
    DiscOK (stepThread s t).1 (stepThread s t).2.pc := by
  unfold stepThread
  split
  · split
    · rename_i hpc _ _; rw [hpc]; trivial
    · exact DiscOK_startOp s hwf _ _ _
  · trivial
  · trivial
  · trivial
  · trivial
  · trivial
  · split <;> trivial
  · trivial
  · trivial
  · rename_i l p x todo passed found snap hpc
    rw [hpc] at hd
    split
    · trivial
    · exact DiscOK_level s hwf l p x _ passed found snap hd
  · trivial

def DInv (c : Config) : Prop := Inv c ∧ WF c.sh ∧ ∀ t ∈ c.th, DiscOK c.sh t.pc

theorem DInv_step (c : Config) (i : Nat) (h : DInv c) : DInv (stepAt c i) := by
  obtain ⟨hi, hwf, hd⟩ := h
  refine ⟨Inv_step c i hi, ?_, ?_⟩
  · unfold stepAt
    cases ht : c.th[i]? with
    | none => exact hwf
    | some t => exact WF_stepThread c.sh hwf t
  · have hm := stepAt_mono c i hi
    unfold stepAt at hm ⊢
    cases ht : c.th[i]? with
    | none => exact hd
    | some t =>
      rw [ht] at hm
      intro t' ht'
      rcases List.mem_or_eq_of_mem_set ht' with h1 | rfl
      · exact DiscOK_mono hm _ (hd t' h1)
      · exact DiscOK_stepThread c.sh hwf t (hd t (List.mem_of_getElem? ht))

theorem DInv_init (ps : List (Option Nat)) (progs : List (List Op)) : DInv (Config.init ps progs) := by
  refine ⟨Inv_init ps progs, WF_init ps, ?_⟩
  intro t ht
  simp only [Config.init, List.mem_map] at ht
  obtain ⟨p, _, rfl⟩ := ht
  trivial

theorem DInv_reachable {c0 c : Config} (h0 : DInv c0) (h : Reachable c0 c) : DInv c := by
  induction h with
  | init => exact h0
  | step i _ ih => exact DInv_step _ i ih

end Pcore.LoaderConc
