import Pcore.Proofs.Files
/-!
C15, "each file is parsed at most once": the read log never holds a path twice.  The invariant ties every path to the
one cache entry (`Guards`) whose placeholder `instantiate` installs before the file is read.
-/
namespace Pcore.Files

/-- `(l, key)` is the cache entry under which `instantiate` is asked to read `p` -/
def Guards (cfg : Cfg) (l : Lid) (key : Key) (p : Path) : Prop :=
  l ≠ .d ∧
  (((idx cfg l key).head? = some p ∧ (isGlobalMod l.moduleName = false → key.length ≥ 2)) ∨
   (isGlobalMod l.moduleName = false ∧ key = [l.moduleName] ∧ (idx cfg l ["init_typeset"]).head? = some p))

def InvOnce (cfg : Cfg) (s : St) : Prop :=
  (∀ p, readCount s p ≤ 1) ∧
  (∀ l key p, Guards cfg l key p → s.get l key = none → readCount s p = 0)

theorem typedNames_single (sp : SmartPath) (rel : Path) : ∃ x, typedNames sp rel = [x] := by
  unfold typedNames
  simp only []
  split <;> exact ⟨_, rfl⟩

theorem fileKeys_single {sp : SmartPath} {p : Path} {k k' : Key}
    (h : k ∈ fileKeys sp p) (h' : k' ∈ fileKeys sp p) : k = k' := by
  unfold fileKeys at h h'
  cases hr : relOf sp.generic p with
  | none => rw [hr] at h; simp at h
  | some rel =>
    rw [hr] at h h'
    simp only [] at h h'
    cases hl : rel.getLast? with
    | none => rw [hl] at h; simp at h
    | some last =>
      rw [hl] at h h'
      simp only [] at h h'
      by_cases hs : hasSuffix last sp.extension = true
      · rw [if_pos hs] at h h'
        obtain ⟨x, hx⟩ := typedNames_single sp rel
        rw [hx] at h h'
        simp at h h'
        rw [h, h']
      · rw [if_neg hs] at h; simp at h

theorem generic_of_fileKeys {sp : SmartPath} {p : Path} {k : Key} (h : k ∈ fileKeys sp p) :
    sp.generic.isPrefixOf p = true := by
  unfold fileKeys at h
  cases hr : relOf sp.generic p with
  | none => rw [hr] at h; simp at h
  | some rel =>
    unfold relOf at hr
    by_cases hc : (sp.generic.isPrefixOf p && decide (p.length > sp.generic.length)) = true
    · simp only [Bool.and_eq_true] at hc; exact hc.1
    · rw [if_neg hc] at hr; cases hr

theorem mem_idx {cfg : Cfg} {l : Lid} {k : Key} {p : Path} (h : p ∈ idx cfg l k) : k ∈ fileKeys (spOf l) p := by
  unfold idx at h
  simp only [List.mem_map, List.mem_filter] at h
  obtain ⟨f, ⟨_, hf⟩, rfl⟩ := h
  simpa using hf

theorem mem_of_head? {α : Type} {xs : List α} {x : α} (h : xs.head? = some x) : x ∈ xs := by
  cases xs with
  | nil => cases h
  | cons a as => simp only [List.head?] at h; cases h; exact List.mem_cons_self ..

/-- a path is indexed by one loader only -/
theorem loader_unique {l l' : Lid} {p : Path} (hl : l ≠ .d) (hl' : l' ≠ .d)
    (h : (spOf l).generic.isPrefixOf p = true) (h' : (spOf l').generic.isPrefixOf p = true) : l = l' := by
  cases l with
  | d => exact absurd rfl hl
  | g =>
    cases l' with
    | d => exact absurd rfl hl'
    | g => rfl
    | m mod' =>
      simp only [spOf, SmartPath.generic] at h h'
      cases p with
      | nil => simp at h
      | cons a p1 =>
        simp at h h'
        have := h.1.trans h'.1.symm
        simp at this
  | m mod =>
    cases l' with
    | d => exact absurd rfl hl'
    | g =>
      simp only [spOf, SmartPath.generic] at h h'
      cases p with
      | nil => simp at h
      | cons a p1 =>
        simp at h h'
        have := h.1.trans h'.1.symm
        simp at this
    | m mod' =>
      simp only [spOf, SmartPath.generic] at h h'
      cases p with
      | nil => simp at h
      | cons a p1 =>
        cases p1 with
        | nil => simp at h
        | cons b p2 =>
          simp at h h'
          rw [h.2.1, h'.2.1]

/-- the guard of a path is unique -/
theorem guards_unique {cfg : Cfg} {l l' : Lid} {key key' : Key} {p : Path}
    (h : Guards cfg l key p) (h' : Guards cfg l' key' p) : l = l' ∧ key = key' := by
  obtain ⟨hl, h⟩ := h
  obtain ⟨hl', h'⟩ := h'
  -- the key under which `p` is indexed in each of the two loaders
  have hidx : ∀ {l : Lid} {key : Key},
      (((idx cfg l key).head? = some p ∧ (isGlobalMod l.moduleName = false → key.length ≥ 2)) ∨
       (isGlobalMod l.moduleName = false ∧ key = [l.moduleName] ∧ (idx cfg l ["init_typeset"]).head? = some p)) →
      ∃ k, k ∈ fileKeys (spOf l) p := by
    intro l key h
    cases h with
    | inl h => exact ⟨key, mem_idx (mem_of_head? h.1)⟩
    | inr h => exact ⟨_, mem_idx (mem_of_head? h.2.2)⟩
  obtain ⟨k1, hk1⟩ := hidx h
  obtain ⟨k2, hk2⟩ := hidx h'
  have hll : l = l' := loader_unique hl hl' (generic_of_fileKeys hk1) (generic_of_fileKeys hk2)
  subst hll
  refine ⟨rfl, ?_⟩
  cases h with
  | inl h =>
    cases h' with
    | inl h' => exact fileKeys_single (mem_idx (mem_of_head? h.1)) (mem_idx (mem_of_head? h'.1))
    | inr h' =>
      have : key = ["init_typeset"] := fileKeys_single (mem_idx (mem_of_head? h.1)) (mem_idx (mem_of_head? h'.2.2))
      have hlen := h.2 h'.1
      rw [this] at hlen; simp at hlen
  | inr h =>
    cases h' with
    | inl h' =>
      have : key' = ["init_typeset"] := fileKeys_single (mem_idx (mem_of_head? h'.1)) (mem_idx (mem_of_head? h.2.2))
      have hlen := h'.2 h.1
      rw [this] at hlen; simp at hlen
    | inr h' => rw [h.2.1, h'.2.1]

theorem readCount_addRead (s : St) (p p' : Path) :
    readCount (s.addRead p) p' = readCount s p' + (if p = p' then 1 else 0) := by
  unfold readCount
  simp only [reads_addRead, List.filter_append, List.length_append]
  by_cases h : p = p'
  · simp [h]
  · simp [h]

theorem readCount_put (s : St) (l : Lid) (k : Key) (e : Entry) (p : Path) :
    readCount (s.put l k e) p = readCount s p := rfl

theorem once_put {cfg : Cfg} {s : St} (h : InvOnce cfg s) (l : Lid) (k : Key) (e : Entry) :
    InvOnce cfg (s.put l k e) := by
  refine ⟨fun p => h.1 p, ?_⟩
  intro l' key' p hg hget
  rw [get_put] at hget
  by_cases hk : (l', key') = (l, k)
  · rw [if_pos hk] at hget; cases hget
  · rw [if_neg hk] at hget; exact h.2 l' key' p hg hget

/-- `setEntry` keeps the invariant, leaves the read log alone and the entry it was asked to set is never absent
    afterwards -/
theorem once_setEntry {cfg : Cfg} {s : St} (h : InvOnce cfg s) (l : Lid) (k : Key) (e : Entry) :
    wp (setEntry l k e) (fun _ s' => InvOnce cfg s' ∧ s'.get l k ≠ none ∧ s'.reads = s.reads) (InvOnce cfg) s := by
  rw [wp_setEntry]
  have hput : InvOnce cfg (s.put l k e) ∧ (s.put l k e).get l k ≠ none ∧ (s.put l k e).reads = s.reads := by
    refine ⟨once_put h l k e, ?_, rfl⟩
    rw [get_put, if_pos rfl]; exact fun h' => by cases h'
  cases hg : s.get l k with
  | none => exact hput
  | some o =>
    cases o with
    | none => exact hput
    | some old =>
      have hne : (some (some old) : Option Entry) ≠ none := by intro h'; cases h'
      cases e with
      | none => exact ⟨h, hne, rfl⟩
      | some new =>
        by_cases hd : defEquals old new = true
        · simp only [hd, if_true]; exact ⟨h, hne, trivial⟩
        · simp only [hd]; exact h

section
variable (cfg : Cfg)

abbrev SpecO {α : Type} (x : M α) : Prop :=
  ∀ s, InvOnce cfg s → wp x (fun _ s' => InvOnce cfg s') (InvOnce cfg) s

/-- the head of the origins has not been read yet and its guard entry is already in place -/
def HeadFresh (s : St) (origins : List Path) : Prop :=
  ∀ p, origins.head? = some p → readCount s p = 0 ∧ ∃ l key, Guards cfg l key p ∧ s.get l key ≠ none

structure AllOnce (n : Nat) : Prop where
  loadEntry : ∀ l name, SpecO cfg (loadEntry n cfg l name)
  fbLoadEntry : ∀ l name, l ≠ .d → SpecO cfg (fbLoadEntry n cfg l name)
  find : ∀ l name, l ≠ .d → SpecO cfg (find n cfg l name)
  findTail : ∀ l name, l ≠ .d → (isGlobalMod l.moduleName = false → qualified name = true) →
    SpecO cfg (findTail n cfg l name)
  parentSearch : ∀ l name ts, l ≠ .d → SpecO cfg (parentSearch n cfg l name ts)
  instantiate : ∀ l name origins, (∀ p, origins.head? = some p → Guards cfg l (keyOf name) p) →
    SpecO cfg (instantiate n cfg l name origins)
  instantiator : ∀ name origins s, InvOnce cfg s → HeadFresh cfg s origins →
    wp (instantiator n cfg name origins) (fun _ s' => InvOnce cfg s') (InvOnce cfg) s
  addTypes : ∀ d ts, SpecO cfg (addTypes n cfg d ts)
  resolveTS : ∀ tsName ts i, SpecO cfg (resolveTS n cfg tsName ts i)
  dLoadEntry : ∀ name, SpecO cfg (dLoadEntry n cfg name)
  dFind : ∀ name, SpecO cfg (dFind n cfg name)
  dMembers : ∀ name, SpecO cfg (dMembers n cfg name)
  dLoop : ∀ mods name, SpecO cfg (dLoop n cfg mods name)

variable {cfg}

theorem ostep_loadEntry {n : Nat} (ih : AllOnce cfg n) (l : Lid) (name : Name) :
    SpecO cfg (loadEntry (n+1) cfg l name) := by
  intro s hs
  cases l with
  | d => simp only [loadEntry]; exact ih.dLoadEntry name s hs
  | g => simp only [loadEntry]; exact ih.fbLoadEntry .g name (by intro h; cases h) s hs
  | m mod => simp only [loadEntry]; exact ih.fbLoadEntry (.m mod) name (by intro h; cases h) s hs

theorem ostep_fbLoadEntry {n : Nat} (ih : AllOnce cfg n) (l : Lid) (name : Name) (hl : l ≠ .d) :
    SpecO cfg (fbLoadEntry (n+1) cfg l name) := by
  intro s hs
  simp only [fbLoadEntry, wp_bind]
  have h1 : wp (match l with
      | .m _ => if cfg.flat then pure (sysLoad name) else fbLoadEntry n cfg .g name
      | _ => pure (sysLoad name))
      (fun _ s' => InvOnce cfg s') (InvOnce cfg) s := by
    cases l with
    | m mod =>
      simp only []
      by_cases hf : cfg.flat = true
      · rw [if_pos hf]; exact hs
      · rw [if_neg hf]; exact ih.fbLoadEntry .g name (by intro h; cases h) s hs
    | g => exact hs
    | d => exact hs
  refine wp_mono h1 ?_ (fun _ h => h)
  intro pe s1 hs1
  simp only [wp_getSt]
  have hrest : ∀ entry : Option Entry,
      wp (match entry with
          | some e => pure (some e)
          | none => do
            let r ← find n cfg l name
            match r with
              | some e => pure (some e)
              | none => do
                let e ← setEntry l (keyOf name) none
                pure (some e))
        (fun _ s' => InvOnce cfg s') (InvOnce cfg) s1 := by
    intro entry
    cases entry with
    | some e => exact hs1
    | none =>
      simp only [wp_bind]
      refine wp_mono (ih.find l name hl s1 hs1) ?_ (fun _ h => h)
      intro r s2 hs2
      cases r with
      | some e => exact hs2
      | none =>
        simp only [wp_bind]
        refine wp_mono (once_setEntry hs2 l (keyOf name) none) ?_ (fun _ h => h)
        intro e s3 hs3
        exact hs3.1
  exact hrest _

theorem ostep_instantiate {n : Nat} (ih : AllOnce cfg n) (l : Lid) (name : Name) (origins : List Path)
    (hg : ∀ p, origins.head? = some p → Guards cfg l (keyOf name) p) :
    SpecO cfg (instantiate (n+1) cfg l name origins) := by
  intro s hs
  simp only [instantiate, wp_bind, wp_getSt]
  cases hget : s.get l (keyOf name) with
  | some v =>
    simp only [wp_bind, wp_getSt, wp_pure]
    exact hs
  | none =>
    simp only [wp_bind]
    refine wp_mono (once_setEntry hs l (keyOf name) none) ?_ (fun _ h => h)
    intro _ s1 ⟨hs1, hne, hreads⟩
    have hfresh : HeadFresh cfg s1 origins := by
      intro p hp
      refine ⟨?_, l, keyOf name, hg p hp, hne⟩
      have : readCount s p = 0 := hs.2 l (keyOf name) p (hg p hp) hget
      unfold readCount at this ⊢
      rw [hreads]; exact this
    refine wp_mono (ih.instantiator name origins s1 hs1 hfresh) ?_ (fun _ h => h)
    intro _ s2 hs2
    simp only [wp_getSt, wp_pure]
    exact hs2

theorem ostep_instantiator {n : Nat} (ih : AllOnce cfg n) (name : Name) (origins : List Path) (s : St)
    (hs : InvOnce cfg s) (hf : HeadFresh cfg s origins) :
    wp (instantiator (n+1) cfg name origins) (fun _ s' => InvOnce cfg s') (InvOnce cfg) s := by
  cases origins with
  | nil => simp only [instantiator]; exact hs
  | cons p rest =>
    simp only [instantiator, wp_bind, wp_modifySt]
    obtain ⟨h0, l, key, hgd, hne⟩ := hf p rfl
    have hs1 : InvOnce cfg (s.addRead p) := by
      constructor
      · intro p'
        rw [readCount_addRead]
        by_cases hp : p = p'
        · subst hp; rw [h0]; simp
        · rw [if_neg hp]; exact hs.1 p'
      · intro l' key' p' hg' hget'
        rw [readCount_addRead]
        by_cases hp : p = p'
        · subst hp
          have := guards_unique hg' hgd
          rw [this.1, this.2] at hget'
          exact absurd (by simpa using hget') hne
        · rw [if_neg hp]; exact hs.2 l' key' p' hg' (by simpa using hget')
    cases hb : bodyAt cfg.tree p with
    | none => exact hs1
    | some b =>
      cases b with
      | unreadable => exact hs1
      | malformed ln => exact hs1
      | nodef => exact hs1
      | bare => exact ih.addTypes _ _ _ hs1
      | typ k nm ts =>
        simp only []
        by_cases hk : keyOf nm ≠ keyOf name
        · rw [if_pos hk]; exact hs1
        · rw [if_neg hk]; exact ih.addTypes _ _ _ hs1

theorem ostep_findTail {n : Nat} (ih : AllOnce cfg n) (l : Lid) (name : Name) (hl : l ≠ .d)
    (hq : isGlobalMod l.moduleName = false → qualified name = true) :
    SpecO cfg (findTail (n+1) cfg l name) := by
  intro s hs
  simp only [findTail]
  cases hi : idx cfg l (keyOf name) with
  | cons o os =>
    simp only []
    refine ih.instantiate l name (o :: os) ?_ s hs
    intro p hp
    refine ⟨hl, Or.inl ⟨by rw [hi]; exact hp, ?_⟩⟩
    intro hgm
    have := hq hgm
    unfold qualified at this
    simpa [keyOf] using this
  | nil =>
    simp only []
    by_cases hq' : qualified name = true
    · rw [if_pos hq']; exact ih.parentSearch l name name.dropLast hl s hs
    · rw [if_neg hq']; exact hs

theorem ostep_parentSearch {n : Nat} (ih : AllOnce cfg n) (l : Lid) (name ts : Name) (hl : l ≠ .d) :
    SpecO cfg (parentSearch (n+1) cfg l name ts) := by
  intro s hs
  cases ts with
  | nil => simp only [parentSearch]; exact hs
  | cons t rest =>
    simp only [parentSearch, wp_bind, wp_getSt]
    cases hg : s.get l (keyOf (t :: rest)) with
    | some v => simp only []; exact ih.parentSearch l name _ hl s hs
    | none =>
      simp only [wp_bind]
      refine wp_mono (ih.find l (t :: rest) hl s hs) ?_ (fun _ h => h)
      intro _ s1 hs1
      simp only [wp_getSt]
      cases hg1 : s1.get l (keyOf name) with
      | some te => exact hs1
      | none => simp only []; exact ih.parentSearch l name _ hl s1 hs1

theorem ostep_find (hgi : cfg.guardInit = true) {n : Nat} (ih : AllOnce cfg n) (l : Lid) (name : Name) (hl : l ≠ .d) :
    SpecO cfg (find (n+1) cfg l name) := by
  intro s hs
  simp only [find]
  by_cases hq : qualified name = true
  · rw [if_pos hq]
    by_cases hm : l.moduleName ≠ ""
    · rw [if_pos hm]
      simp only [wp_bind, wp_partsM]
      cases hp : partsOf name with
      | none => exact hs
      | some ps =>
        simp only []
        by_cases hh : some l.moduleName ≠ ps.head?
        · rw [if_pos hh]; exact hs
        · rw [if_neg hh]; exact ih.findTail l name hl (fun _ => hq) s hs
    · rw [if_neg hm]; exact ih.findTail l name hl (fun _ => hq) s hs
  · rw [if_neg hq]
    have hq' : qualified name = false := by simpa using hq
    by_cases hg : (!isGlobalMod l.moduleName) = true
    · rw [if_pos hg]
      have hgm : isGlobalMod l.moduleName = false := by simpa using hg
      simp only [wp_bind, wp_partsM]
      cases hp : partsOf name with
      | none => exact hs
      | some ps =>
        simp only []
        by_cases hh : some l.moduleName ≠ ps.head?
        · rw [if_pos hh]; exact hs
        · rw [if_neg hh]
          cases hi : idx cfg l ["init_typeset"] with
          | nil => exact hs
          | cons o os =>
            simp only []
            rw [if_pos hgi]
            have hk : keyOf name = [l.moduleName] := by
              have hps : ps = keyOf name := by
                unfold partsOf at hp
                by_cases hv : (keyOf name).all validPart = true
                · simp only [hv, if_true] at hp; exact (Option.some.inj hp).symm
                · simp only [hv] at hp; cases hp
              have hhead : (keyOf name).head? = some l.moduleName := by
                rw [← hps]
                by_cases h' : some l.moduleName = ps.head?
                · exact h'.symm
                · exact absurd h' hh
              unfold qualified at hq'
              cases name with
              | nil => simp [keyOf] at hhead
              | cons a rest =>
                cases rest with
                | nil => simpa [keyOf] using hhead
                | cons b rest' => simp at hq'
            have hgd : ∀ p, (o :: os).head? = some p → Guards cfg l (keyOf name) p := by
              intro p hp'
              exact ⟨hl, Or.inr ⟨hgm, hk, by rw [hi]; exact hp'⟩⟩
            simp only [wp_bind]
            refine wp_mono (ih.instantiate l name (o :: os) hgd s hs) ?_ (fun _ h => h)
            intro e s1 hs1
            match e with
            | some (some d) =>
              simp only []
              by_cases hk : d.kind = .typeset
              · rw [if_pos hk]; exact hs1
              · rw [if_neg hk]; exact hs1
            | some none => exact hs1
            | none => exact hs1
    · rw [if_neg hg]
      refine ih.findTail l name hl ?_ s hs
      intro hgm
      rw [hgm] at hg
      exact absurd rfl hg

theorem ostep_addTypes {n : Nat} (ih : AllOnce cfg n) (d : Def) (ts : List String) :
    SpecO cfg (addTypes (n+1) cfg d ts) := by
  intro s hs
  simp only [addTypes]
  have hset : ∀ s1, InvOnce cfg s1 → wp (do
      let _ ← setEntry cfg.via (keyOf d.name) (some d)
      pure ()) (fun _ s' => InvOnce cfg s') (InvOnce cfg) s1 := by
    intro s1 hs1
    simp only [wp_bind]
    refine wp_mono (once_setEntry hs1 cfg.via (keyOf d.name) (some d)) ?_ (fun _ h => h)
    intro _ s2 hs2
    exact hs2.1
  by_cases hk : d.kind = .typeset
  · rw [if_pos hk]
    simp only [wp_bind]
    refine wp_mono (ih.resolveTS d.name ts 0 s hs) ?_ (fun _ h => h)
    intro _ s1 hs1
    have := hset s1 hs1
    simpa only [wp_bind] using this
  · rw [if_neg hk]; exact hset s hs

theorem ostep_resolveTS {n : Nat} (ih : AllOnce cfg n) (tsName : Name) (ts : List String) (i : Nat) :
    SpecO cfg (resolveTS (n+1) cfg tsName ts i) := by
  intro s hs
  cases ts with
  | nil => simp only [resolveTS]; exact hs
  | cons t rest =>
    simp only [resolveTS, wp_bind]
    refine wp_mono (ih.loadEntry cfg.via (tsName ++ [t]) s hs) ?_ (fun _ h => h)
    intro le s1 hs1
    have hrest : ∀ s2, InvOnce cfg s2 →
        wp (resolveTS n cfg tsName rest (i + 1)) (fun _ s' => InvOnce cfg s') (InvOnce cfg) s2 :=
      fun s2 hs2 => ih.resolveTS tsName rest (i + 1) s2 hs2
    have hset : wp (do
        let _ ← setEntry cfg.via (keyOf (tsName ++ [t])) (some ⟨kindAt i, tsName ++ [t]⟩)
        pure ()) (fun _ s' => wp (resolveTS n cfg tsName rest (i + 1)) (fun _ s' => InvOnce cfg s') (InvOnce cfg) s')
        (InvOnce cfg) s1 := by
      simp only [wp_bind]
      refine wp_mono (once_setEntry hs1 cfg.via _ _) ?_ (fun _ h => h)
      intro _ s2 hs2
      exact hrest s2 hs2.1
    match le with
    | some (some d) => exact hrest s1 hs1
    | some none => simpa only [wp_bind, wp_pure] using hset
    | none => simpa only [wp_bind, wp_pure] using hset

theorem ostep_dLoop {n : Nat} (ih : AllOnce cfg n) (mods : List String) (name : Name) :
    SpecO cfg (dLoop (n+1) cfg mods name) := by
  intro s hs
  cases mods with
  | nil =>
    simp only [dLoop, wp_bind, wp_getSt, wp_pure]
    exact hs
  | cons m rest =>
    simp only [dLoop, wp_bind]
    refine wp_mono (ih.fbLoadEntry (.m m) name (by intro h; cases h) s hs) ?_ (fun _ h => h)
    intro e s1 hs1
    match e with
    | some (some d) => exact hs1
    | some none => exact ih.dLoop rest name s1 hs1
    | none => exact ih.dLoop rest name s1 hs1

theorem ostep_dFind {n : Nat} (ih : AllOnce cfg n) (name : Name) :
    SpecO cfg (dFind (n+1) cfg name) := by
  intro s hs
  simp only [dFind]
  by_cases hc : (!cfg.mods.isEmpty && qualified name) = true
  · rw [if_pos hc]
    simp only [wp_bind, wp_partsM]
    cases hp : partsOf name with
    | none => exact hs
    | some ps =>
      simp only []
      cases hh : ps.head? with
      | none => exact ih.dMembers name s hs
      | some h =>
        simp only []
        by_cases hm : cfg.mods.contains h = true
        · rw [if_pos hm]; exact ih.fbLoadEntry (.m h) name (by intro h'; cases h') s hs
        · rw [if_neg hm]; exact ih.dMembers name s hs
  · rw [if_neg hc]; exact ih.dMembers name s hs

theorem ostep_dMembers {n : Nat} (ih : AllOnce cfg n) (name : Name) :
    SpecO cfg (dMembers (n+1) cfg name) := by
  intro s hs
  simp only [dMembers]
  by_cases hf : cfg.flat = true
  · rw [if_pos hf]
    simp only [wp_bind]
    refine wp_mono (ih.fbLoadEntry .g name (by intro h; cases h) s hs) ?_ (fun _ h => h)
    intro e s1 hs1
    match e with
    | some (some d) => exact hs1
    | some none => exact ih.dLoop cfg.mods name s1 hs1
    | none => exact ih.dLoop cfg.mods name s1 hs1
  · rw [if_neg hf]; exact ih.dLoop cfg.mods name s hs

theorem ostep_dLoadEntry {n : Nat} (ih : AllOnce cfg n) (name : Name) :
    SpecO cfg (dLoadEntry (n+1) cfg name) := by
  intro s hs
  simp only [dLoadEntry, wp_bind, wp_getSt]
  have hbody : ∀ own : Option Entry,
      wp (do
        let r ← dFind n cfg name
        let st ← getSt
        match r, st.get .d (keyOf name) with
        | some (some d), some (some d') =>
          if d = d' then pure (some (some d))
          else do
            let e ← setEntry .d (keyOf name) (some d)
            pure (some e)
        | some (some d), _ => do
          let e ← setEntry .d (keyOf name) (some d)
          pure (some e)
        | _, _ =>
          match own with
          | none => do
            let e ← setEntry .d (keyOf name) none
            pure (some e)
          | some o => pure (some o)) (fun _ s' => InvOnce cfg s') (InvOnce cfg) s := by
    intro own
    simp only [wp_bind]
    refine wp_mono (ih.dFind name s hs) ?_ (fun _ h => h)
    intro r s1 hs1
    simp only [wp_getSt]
    have hset : ∀ e : Entry, wp (do
        let e ← setEntry .d (keyOf name) e
        pure (some e)) (fun _ s' => InvOnce cfg s') (InvOnce cfg) s1 := by
      intro e
      simp only [wp_bind]
      refine wp_mono (once_setEntry hs1 .d (keyOf name) e) ?_ (fun _ h => h)
      intro e s2 hs2
      exact hs2.1
    have hgen : wp (match own with
        | none => do
          let e ← setEntry .d (keyOf name) none
          pure (some e)
        | some o => pure (some o)) (fun _ s' => InvOnce cfg s') (InvOnce cfg) s1 := by
      cases own with
      | none => exact hset none
      | some o => exact hs1
    match r, s1.get .d (keyOf name) with
    | some (some d), some (some d') =>
      simp only []
      by_cases hdd : d = d'
      · rw [if_pos hdd]; exact hs1
      · rw [if_neg hdd]; exact hset (some d)
    | some (some d), some none => exact hset _
    | some (some d), none => exact hset _
    | some none, _ => exact hgen
    | none, _ => exact hgen
  match s.get .d (keyOf name) with
  | some (some d) => simp only [wp_pure]; exact hs
  | some none => exact hbody (some none)
  | none => exact hbody none

theorem allOnce (hgi : cfg.guardInit = true) : ∀ n, AllOnce cfg n
  | 0 => by
    constructor <;> intros <;> (try intro s hs) <;>
      simp only [loadEntry, fbLoadEntry, find, findTail, parentSearch, instantiate, instantiator, addTypes, resolveTS,
        dLoadEntry, dFind, dMembers, dLoop, wp_raise] <;> assumption
  | n+1 =>
    have ih := allOnce hgi n
    { loadEntry := ostep_loadEntry ih
      fbLoadEntry := ostep_fbLoadEntry ih
      find := ostep_find hgi ih
      findTail := ostep_findTail ih
      parentSearch := ostep_parentSearch ih
      instantiate := ostep_instantiate ih
      instantiator := ostep_instantiator ih
      addTypes := ostep_addTypes ih
      resolveTS := ostep_resolveTS ih
      dLoadEntry := ostep_dLoadEntry ih
      dFind := ostep_dFind ih
      dMembers := ostep_dMembers ih
      dLoop := ostep_dLoop ih }

theorem once_load (hgi : cfg.guardInit = true) (fuel : Nat) (name : Name) : SpecO cfg (load fuel cfg name) := by
  intro s hs
  unfold load
  simp only [wp_bind]
  refine wp_mono ((allOnce hgi fuel).loadEntry cfg.via name s hs) ?_ (fun _ h => h)
  intro e s1 hs1
  match e with
  | none =>
    simp only [wp_bind]
    refine wp_mono (once_setEntry hs1 cfg.via (keyOf name) none) ?_ (fun _ h => h)
    intro _ s2 hs2
    exact hs2.1
  | some none => exact hs1
  | some (some d) => exact hs1

theorem once_loadS (hgi : cfg.guardInit = true) (fuel : Nat) (s : St) (name : Name) (hs : InvOnce cfg s) :
    InvOnce cfg (loadS fuel cfg s name).2 := by
  have h := once_load hgi fuel name s hs
  unfold wp at h
  unfold loadS
  cases hx : load fuel cfg name s with
  | ok a s' => rw [hx] at h; exact h
  | fail e s' => rw [hx] at h; exact h

theorem once_runLoads (hgi : cfg.guardInit = true) (fuel : Nat) :
    ∀ (names : List Name) (s : St), InvOnce cfg s → InvOnce cfg (runLoads fuel cfg s names).2
  | [], s, hs => hs
  | n :: ns, s, hs => by
    simp only [runLoads]
    exact once_runLoads hgi fuel ns _ (once_loadS hgi fuel s n hs)

theorem once_init : InvOnce cfg {} := ⟨fun _ => Nat.zero_le _, fun _ _ _ _ _ => rfl⟩

end

end Pcore.Files
