import Pcore.Proofs.Dispatch
/-!
The dispatch builder's bookkeeping (`types`, `min`, `max`, block type and flag) against the *declaration* — the list of
builder calls read positionally.  Core Lean only.
-/
namespace Pcore.Dispatch

/-- the kind of a declared parameter -/
inductive PKind where
  | req | opt | rep | reqrep
  deriving Repr, DecidableEq

def PKind.required : PKind → Bool
  | .req | .reqrep => true
  | _ => false

def PKind.repeated : PKind → Bool
  | .rep | .reqrep => true
  | _ => false

section
variable {T BT : Type}

def BOp.param? : BOp T BT → Option (PKind × T)
  | .param t => some (.req, t)
  | .optional t => some (.opt, t)
  | .repeated t => some (.rep, t)
  | .requiredRepeated t => some (.reqrep, t)
  | _ => none

def BOp.block? : BOp T BT → Option (BlockReq BT)
  | .block b => some (.required b)
  | .optionalBlock b => some (.optional b)
  | _ => none

/-- the declared parameters, in order of declaration -/
def paramsOf (ops : List (BOp T BT)) : List (PKind × T) := ops.filterMap BOp.param?

/-- the declared block requirements, in order of declaration -/
def blocksOf (ops : List (BOp T BT)) : List (BlockReq BT) := ops.filterMap BOp.block?

/-- what may follow the required and optional parameters -/
inductive Tail where
  | none | rep | reqrep
  deriving Repr, DecidableEq

def Tail.kinds : Tail → List PKind
  | .none => []
  | .rep => [.rep]
  | .reqrep => [.reqrep]

/-- the grammar of a declaration: `a` required, `o` optional parameters, then at most one repeated one -/
def shapeKinds (a o : Nat) (tl : Tail) : List PKind :=
  List.replicate a .req ++ (List.replicate o .opt ++ tl.kinds)

def tailMin : Tail → Nat
  | .reqrep => 1
  | _ => 0

def tailMax (n : Nat) : Tail → Option Nat
  | .none => some n
  | _ => none

/-- invariant of the builder state after the declared parameters `ps` -/
def ParamInv (b : Builder T BT) (ps : List (PKind × T)) : Prop :=
  b.types = ps.map (·.2) ∧
  ∃ a o tl, ps.map (·.1) = shapeKinds a o tl ∧ (tl = .reqrep → o = 0) ∧
    b.min = a + tailMin tl ∧ b.max = tailMax (a + o) tl

/-- invariant of the block fields after the declared blocks `rs` -/
def BlockInv (b : Builder T BT) : List (BlockReq BT) → Prop
  | [] => b.blockType = none ∧ b.optionalBlock = false
  | [.required bt] => b.blockType = some bt ∧ b.optionalBlock = false
  | [.optional bt] => b.blockType = some bt ∧ b.optionalBlock = true
  | _ => False

theorem blockInv_cases {b : Builder T BT} {rs : List (BlockReq BT)} (h : BlockInv b rs) :
    (rs = [] ∧ b.blockType = none ∧ b.optionalBlock = false) ∨
    (∃ bt, rs = [.required bt] ∧ b.blockType = some bt ∧ b.optionalBlock = false) ∨
    (∃ bt, rs = [.optional bt] ∧ b.blockType = some bt ∧ b.optionalBlock = true) := by
  match rs, h with
  | [], h => exact Or.inl ⟨rfl, h.1, h.2⟩
  | [.required bt], h => exact Or.inr (Or.inl ⟨bt, rfl, h.1, h.2⟩)
  | [.optional bt], h => exact Or.inr (Or.inr ⟨bt, rfl, h.1, h.2⟩)
  | .none :: _, h => exact h.elim
  | _ :: _ :: _, h => simp [BlockInv] at h

theorem paramInv_init : ParamInv (Builder.init : Builder T BT) [] :=
  ⟨rfl, 0, 0, .none, rfl, (by intro h; cases h), rfl, rfl⟩

theorem blockInv_init : BlockInv (Builder.init : Builder T BT) [] := ⟨rfl, rfl⟩

theorem replicate_snoc {α : Type} (n : Nat) (x : α) : List.replicate n x ++ [x] = List.replicate (n + 1) x := by
  induction n with
  | zero => rfl
  | succ n ih => simp [List.replicate_succ, ih]

theorem step_paramInv (b b' : Builder T BT) (ps : List (PKind × T)) (op : BOp T BT)
    (hinv : ParamInv b ps) (hs : step b op = .ok b') : ParamInv b' (ps ++ (BOp.param? op).toList) := by
  obtain ⟨hty, a, o, tl, hk, hro, hmin, hmax⟩ := hinv
  cases op with
  | param t =>
    simp only [step] at hs
    cases tl with
    | none =>
      simp [hmax, tailMax, Option.isNone] at hs
      split at hs
      · cases hs
      · rename_i hlt
        simp [ltMax, hmin, tailMin] at hlt
        have ho : o = 0 := by omega
        subst ho
        cases hs
        refine ⟨by simp [BOp.param?, hty], a + 1, 0, .none, ?_, (by intro h; cases h), ?_, ?_⟩
        · simp [BOp.param?, hk, shapeKinds, Tail.kinds, replicate_snoc]
        · simp [hmin, tailMin]
        · simp [succMax, tailMax]
    | rep => simp [hmax, tailMax] at hs
    | reqrep => simp [hmax, tailMax] at hs
  | optional t =>
    simp only [step] at hs
    cases tl with
    | none =>
      simp [hmax, tailMax] at hs
      cases hs
      refine ⟨by simp [BOp.param?, hty], a, o + 1, .none, ?_, (by intro h; cases h), ?_, ?_⟩
      · simp [BOp.param?, hk, shapeKinds, Tail.kinds, replicate_snoc]
      · simp [hmin, tailMin]
      · simp [succMax, tailMax]; omega
    | rep => simp [hmax, tailMax] at hs
    | reqrep => simp [hmax, tailMax] at hs
  | repeated t =>
    simp only [step] at hs
    cases tl with
    | none =>
      simp [hmax, tailMax] at hs
      cases hs
      refine ⟨by simp [BOp.param?, hty], a, o, .rep, ?_, (by intro h; cases h), ?_, ?_⟩
      · simp [BOp.param?, hk, shapeKinds, Tail.kinds]
      · simp [hmin, tailMin]
      · simp [tailMax]
    | rep => simp [hmax, tailMax] at hs
    | reqrep => simp [hmax, tailMax] at hs
  | requiredRepeated t =>
    simp only [step] at hs
    cases tl with
    | none =>
      simp [hmax, tailMax, Option.isNone] at hs
      split at hs
      · cases hs
      · rename_i hlt
        simp [ltMax, hmin, tailMin] at hlt
        have ho : o = 0 := by omega
        subst ho
        cases hs
        refine ⟨by simp [BOp.param?, hty], a, 0, .reqrep, ?_, (by intro _; rfl), ?_, ?_⟩
        · simp [BOp.param?, hk, shapeKinds, Tail.kinds]
        · simp [hmin, tailMin]
        · simp [tailMax]
    | rep => simp [hmax, tailMax] at hs
    | reqrep => simp [hmax, tailMax] at hs
  | block bt =>
    simp only [step, block2] at hs
    split at hs
    · cases hs
    · cases hs
      exact ⟨by simpa [BOp.param?] using hty, a, o, tl, by simpa [BOp.param?] using hk, hro, hmin, hmax⟩
  | optionalBlock bt =>
    simp only [step, block2] at hs
    split at hs
    · cases hs
    · simp [Except.map] at hs
      cases hs
      exact ⟨by simpa [BOp.param?] using hty, a, o, tl, by simpa [BOp.param?] using hk, hro, hmin, hmax⟩
  | returns t =>
    simp only [step] at hs
    split at hs
    · cases hs
    · cases hs
      exact ⟨by simpa [BOp.param?] using hty, a, o, tl, by simpa [BOp.param?] using hk, hro, hmin, hmax⟩

theorem step_blockInv (b b' : Builder T BT) (rs : List (BlockReq BT)) (op : BOp T BT)
    (hinv : BlockInv b rs) (hs : step b op = .ok b') : BlockInv b' (rs ++ (BOp.block? op).toList) := by
  have keep : ∀ b'' : Builder T BT, b''.blockType = b.blockType → b''.optionalBlock = b.optionalBlock → BlockInv b'' rs := by
    intro b'' h1 h2
    match rs, hinv with
    | [], h => exact ⟨by rw [h1]; exact h.1, by rw [h2]; exact h.2⟩
    | [.required bt], h => exact ⟨by rw [h1]; exact h.1, by rw [h2]; exact h.2⟩
    | [.optional bt], h => exact ⟨by rw [h1]; exact h.1, by rw [h2]; exact h.2⟩
    | .none :: _, h => exact h.elim
    | _ :: _ :: _, h => simp [BlockInv] at h
  cases op with
  | param t =>
    simp only [step] at hs
    split at hs
    · cases hs
    · split at hs
      · cases hs
      · cases hs; simp only [BOp.block?, Option.toList, List.append_nil]; exact keep _ rfl rfl
  | optional t =>
    simp only [step] at hs
    split at hs
    · cases hs
    · cases hs; simp only [BOp.block?, Option.toList, List.append_nil]; exact keep _ rfl rfl
  | repeated t =>
    simp only [step] at hs
    split at hs
    · cases hs
    · cases hs; simp only [BOp.block?, Option.toList, List.append_nil]; exact keep _ rfl rfl
  | requiredRepeated t =>
    simp only [step] at hs
    split at hs
    · cases hs
    · split at hs
      · cases hs
      · cases hs; simp only [BOp.block?, Option.toList, List.append_nil]; exact keep _ rfl rfl
  | returns t =>
    simp only [step] at hs
    split at hs
    · cases hs
    · cases hs; simp only [BOp.block?, Option.toList, List.append_nil]; exact keep _ rfl rfl
  | block bt =>
    simp only [step, block2] at hs
    split at hs
    · cases hs
    · rename_i hb
      cases hs
      match rs, hinv with
      | [], h => simp [BOp.block?, BlockInv, h.2]
      | [.required _], h => simp [h.1] at hb
      | [.optional _], h => simp [h.1] at hb
      | .none :: _, h => exact h.elim
      | _ :: _ :: _, h => simp [BlockInv] at h
  | optionalBlock bt =>
    simp only [step, block2] at hs
    split at hs
    · cases hs
    · rename_i hb
      simp [Except.map] at hs
      cases hs
      match rs, hinv with
      | [], h => simp [BOp.block?, BlockInv]
      | [.required _], h => simp [h.1] at hb
      | [.optional _], h => simp [h.1] at hb
      | .none :: _, h => exact h.elim
      | _ :: _ :: _, h => simp [BlockInv] at h

theorem steps_inv (ops : List (BOp T BT)) : ∀ (b b' : Builder T BT) (ps : List (PKind × T)) (rs : List (BlockReq BT)),
    ParamInv b ps → BlockInv b rs → steps b ops = .ok b' →
      ParamInv b' (ps ++ paramsOf ops) ∧ BlockInv b' (rs ++ blocksOf ops) := by
  induction ops with
  | nil =>
    intro b b' ps rs hp hb hs
    simp [steps] at hs; cases hs
    simpa [paramsOf, blocksOf] using And.intro hp hb
  | cons op ops ih =>
    intro b b' ps rs hp hb hs
    simp only [steps] at hs
    cases h1 : step b op with
    | error p => simp [h1] at hs
    | ok b1 =>
      simp [h1] at hs
      have := ih b1 b' _ _ (step_paramInv b b1 ps op hp h1) (step_blockInv b b1 rs op hb h1) hs
      cases hop : BOp.param? op <;> cases hob : BOp.block? op <;>
        simpa [paramsOf, blocksOf, List.filterMap_cons, hop, hob] using this

/-! ### indexing into a declaration of the grammar's shape -/

theorem shape_get_req {a o : Nat} {tl : Tail} {j : Nat} (h : j < a) : (shapeKinds a o tl)[j]? = some .req := by
  simp [shapeKinds, List.getElem?_append_left, h]

theorem shape_length (a o : Nat) (tl : Tail) : (shapeKinds a o tl).length = a + o + tl.kinds.length := by
  simp [shapeKinds]; omega

/-- a required parameter of a well-shaped declaration sits below `a + tailMin tl` -/
theorem shape_required_lt {a o : Nat} {tl : Tail} (hro : tl = .reqrep → o = 0) {j : Nat} {k : PKind}
    (hj : (shapeKinds a o tl)[j]? = some k) (hk : k.required = true) : j < a + tailMin tl := by
  by_cases h1 : j < a
  · omega
  · have h1' : a ≤ j := by omega
    simp only [shapeKinds] at hj
    rw [List.getElem?_append_right (by simpa using h1')] at hj
    simp only [List.length_replicate] at hj
    by_cases h2 : j - a < o
    · rw [List.getElem?_append_left (by simpa using h2)] at hj
      simp [h2] at hj
      subst hj; simp [PKind.required] at hk
    · rw [List.getElem?_append_right (by simpa using Nat.le_of_not_lt h2)] at hj
      simp only [List.length_replicate] at hj
      cases tl with
      | none => simp [Tail.kinds] at hj
      | rep =>
        simp only [Tail.kinds] at hj
        cases hji : j - a - o with
        | zero => rw [hji] at hj; simp at hj; subst hj; simp [PKind.required] at hk
        | succ n => rw [hji] at hj; simp at hj
      | reqrep =>
        have ho := hro rfl
        subst ho
        simp only [Tail.kinds] at hj
        cases hji : j - a - 0 with
        | zero => simp [tailMin]; omega
        | succ n => rw [hji] at hj; simp at hj

/-- a repeated parameter occurs iff the tail is not empty -/
theorem shape_no_repeated {a o : Nat} {tl : Tail} :
    (∀ k ∈ shapeKinds a o tl, k.repeated = false) ↔ tl = .none := by
  constructor
  · intro h
    cases tl with
    | none => rfl
    | rep => have := h .rep (by simp [shapeKinds, Tail.kinds]); simp [PKind.repeated] at this
    | reqrep => have := h .reqrep (by simp [shapeKinds, Tail.kinds]); simp [PKind.repeated] at this
  · intro h k hk
    subst h
    simp [shapeKinds, Tail.kinds] at hk
    rcases hk with ⟨_, rfl⟩ | ⟨_, rfl⟩ <;> rfl

end

end Pcore.Dispatch
