import Pcore.Proofs.ValueEqBytes
import Pcore.Proofs.ValueEqVerStr
/-! Helper lemmas for C07: equality of types as values is an equivalence relation. -/
namespace Pcore.ValueEq

theorem beq_swap {α : Type} [BEq α] [LawfulBEq α] (a b : α) : (a == b) = (b == a) := by
  cases h : (a == b) <;> cases h' : (b == a) <;> simp_all

theorem feq_comm (a b : Nat) : feq a b = feq b a := by
  unfold feq
  rw [beq_swap a b]
  cases fIsNaN a <;> cases fIsNaN b <;> simp [Bool.and_comm]

mutual
def TyWF : Ty → Bool
  | .int lo hi => (minInt ≤ lo && lo ≤ maxInt) && (minInt ≤ hi && hi ≤ maxInt)
  | .flt lo hi => (lo < 18446744073709551616 && !fIsNaN lo) && (hi < 18446744073709551616 && !fIsNaN hi)
  | .arr e lo hi => TyWF e && ((minInt ≤ lo && lo ≤ maxInt) && (minInt ≤ hi && hi ≤ maxInt))
  | .enum _ vs => decide (vs.length < 9223372036854775807)              -- a Go slice length is an int (the flag counts as a parameter)
  | .var ts => TyWFL ts && decide (ts.length ≤ 9223372036854775807)
  | .tup ts sz => (TyWFL ts && (match sz with
      | some (lo, hi) => (minInt ≤ lo && lo ≤ maxInt) && (minInt ≤ hi && hi ≤ maxInt)
      | none => true)) && decide ((ts.length : Int) ≤ maxInt)   -- a Go slice length is an int
  | .opt t => TyWF t
  | .typ t => TyWF t
  | .coll lo hi => (minInt ≤ lo && lo ≤ maxInt) && (minInt ≤ hi && hi ≤ maxInt)
  | .un _ t => TyWF t
  | .strSize lo hi => (0 ≤ lo && lo ≤ maxInt) && (minInt ≤ hi && hi ≤ maxInt)   -- `NewStringType`: a length is never negative
  | .pattern ps => decide (ps.length ≤ 9223372036854775807)
  | .strVal v => !v.isEmpty                    -- `NewStringType`: an empty value is the default String
  | .semverT _ rs => rs.all arOk               -- versions as `NewVersion3` makes them (and `semver.Min`)
  | .hash k v lo hi => (TyWF k && TyWF v) && ((minInt ≤ lo && lo ≤ maxInt) && (minInt ≤ hi && hi ≤ maxInt))
  | .like b _ => TyWF b
  | .callable h ts hr r hb b =>     -- the parameter Tuple (a Go slice length is an int), the return type, the block type
      (!h || (TyWFL ts && decide ((ts.length : Int) ≤ maxInt))) && ((!hr || TyWF r) && (!hb || TyWF b))
  | .struct es => TyWFS es && decide (es.length ≤ 9223372036854775807)
  | .init h t => !h || TyWF t
  | _ => true
def TyWFL : List Ty → Bool
  | [] => true
  | t :: ts => TyWF t && TyWFL ts
def TyWFS : List (Bytes × Bool × Ty) → Bool
  | [] => true
  | (_, _, v) :: es => TyWF v && TyWFS es
end

/-! ### `a.Equals(b)` computed on `a` and computed on `b` agree -/

theorem anyL_eq (ts : List Ty) (v : Ty) : anyL ts v = ts.any (fun ov => tyEq ov v) := by
  induction ts with
  | nil => simp [anyL]
  | cons t ts ih => simp [anyL, ih]

theorem inclR_eq (ts us : List Ty) : inclR ts us = ts.all (fun v => us.any (fun ov => tyEqR v ov)) := by
  induction ts with
  | nil => simp [inclR]
  | cons t ts ih => simp [inclR, ih]

mutual
theorem tyEq_eq_R : ∀ a b : Ty, tyEq a b = tyEqR a b
  | .any, b => by cases b <;> simp [tyEq, tyEqR]
  | .undef, b => by cases b <;> simp [tyEq, tyEqR]
  | .str, b => by cases b <;> simp [tyEq, tyEqR]
  | .int lo hi, b => by
      cases b <;> simp only [tyEq, tyEqR]
      rename_i lo' hi'
      rw [beq_swap lo lo', beq_swap hi hi']
  | .flt lo hi, b => by cases b <;> simp [tyEq, tyEqR, feq_comm]
  | .enum ci vs, b => by
      cases b <;> simp only [tyEq, tyEqR]
      rename_i ci' vs'
      rw [beq_swap ci ci', beq_swap vs.length vs'.length]
      ac_rfl
  | .arr e lo hi, b => by
      cases b <;> simp only [tyEq, tyEqR]
      rename_i e' lo' hi'
      rw [tyEq_eq_R e e', beq_swap lo lo', beq_swap hi hi']
  | .var ts, b => by
      cases b <;> simp only [tyEq, tyEqR]
      rename_i us
      rw [beq_swap ts.length us.length]
      ac_rfl
  | .tup ts sz, b => by
      cases b <;> simp only [tyEq, tyEqR]
      rename_i us sz'
      rw [tyEqL_eq_R ts us, beq_swap ts.length us.length, beq_swap (goaSize ts.length sz) (goaSize us.length sz')]
  | .opt t, b => by cases b <;> simp [tyEq, tyEqR]; exact tyEq_eq_R t _
  | .typ t, b => by cases b <;> simp [tyEq, tyEqR]; exact tyEq_eq_R t _
  | .nul k, b => by cases b <;> simp [tyEq, tyEqR, beq_swap k]
  | .bool v, b => by cases b <;> simp [tyEq, tyEqR, beq_swap v]
  | .coll lo hi, b => by
      cases b <;> simp only [tyEq, tyEqR]
      rename_i lo' hi'
      rw [beq_swap lo lo', beq_swap hi hi']
  | .un k t, b => by
      cases b <;> simp only [tyEq, tyEqR]
      rename_i k' u
      rw [tyEq_eq_R t u, beq_swap k k']
  | .strSize lo hi, b => by
      cases b <;> simp only [tyEq, tyEqR]
      rename_i lo' hi'
      rw [beq_swap lo lo', beq_swap hi hi']
  | .strVal v, b => by cases b <;> simp [tyEq, tyEqR, beq_swap v]
  | .rx p, b => by cases b <;> simp [tyEq, tyEqR, beq_swap p]
  | .pattern ps, b => by
      cases b <;> simp only [tyEq, tyEqR]
      rename_i ps'
      rw [beq_swap ps.length ps'.length]
      ac_rfl
  | .tref s, b => by cases b <;> simp [tyEq, tyEqR, beq_swap s]
  | .semverT _ rs, b => by cases b <;> simp [tyEq, tyEqR, rangesEq_comm rs]
  | .hash k v lo hi, b => by
      cases b <;> simp only [tyEq, tyEqR]
      rename_i k' v' lo' hi'
      rw [tyEq_eq_R k k', tyEq_eq_R v v', beq_swap lo lo', beq_swap hi hi']
  | .like t n, b => by
      cases b <;> simp only [tyEq, tyEqR]
      rename_i t' n'
      rw [tyEq_eq_R t t', beq_swap n n']
  | .callable h ts hr r hb bl, b => by
      cases b with
      | callable h' us hr' r' hb' bl' =>
        simp only [tyEq, tyEqR]
        rw [tyEqL_eq_R ts us, beq_swap ts.length us.length, beq_swap h h', tyEq_eq_R r r', tyEq_eq_R bl bl', beq_swap hr hr',
          beq_swap hb hb']
      | _ => simp [tyEq, tyEqR]
  | .runtime rt n p, b => by cases b <;> simp [tyEq, tyEqR, beq_swap rt, beq_swap n, beq_swap p]
  | .struct es, b => by
      cases b <;> simp only [tyEq, tyEqR]
      rename_i fs
      rw [tyEqS_eq_R es fs, beq_swap es.length fs.length]
  | .init h t, b => by
      cases b with
      | init h' u => simp only [tyEq, tyEqR]; rw [tyEq_eq_R t u, beq_swap h h']
      | _ => simp [tyEq, tyEqR]
theorem tyEqS_eq_R : ∀ es fs : List (Bytes × Bool × Ty), tyEqS es fs = tyEqRS es fs
  | [], _ => by simp [tyEqS, tyEqRS]
  | (n, o, v) :: es, fs => by
      cases fs with
      | nil => simp [tyEqS, tyEqRS]
      | cons f fs =>
        obtain ⟨n', o', v'⟩ := f
        simp only [tyEqS, tyEqRS]
        rw [tyEq_eq_R v v', tyEqS_eq_R es fs, beq_swap n n', beq_swap o o']
theorem tyEqL_eq_R : ∀ ts us : List Ty, tyEqL ts us = tyEqRL ts us
  | [], _ => by simp [tyEqL, tyEqRL]
  | t :: ts, us => by
      cases us with
      | nil => simp [tyEqL, tyEqRL]
      | cons u us => simp [tyEqL, tyEqRL, tyEq_eq_R t u, tyEqL_eq_R ts us]
end

/-! ### symmetry -/

theorem optEq_swap (x y p q : Bool) (hpq : p = q) : (y == x && (!x || p)) = (y == x && (!y || q)) := by
  cases x <;> cases y <;> simp [hpq]

mutual
theorem tyEqR_swap : ∀ a b : Ty, tyEqR a b = tyEq b a
  | .any, b => by cases b <;> simp [tyEq, tyEqR]
  | .undef, b => by cases b <;> simp [tyEq, tyEqR]
  | .str, b => by cases b <;> simp [tyEq, tyEqR]
  | .int lo hi, b => by cases b <;> simp [tyEq, tyEqR]
  | .flt lo hi, b => by cases b <;> simp [tyEq, tyEqR]
  | .enum ci vs, b => by cases b <;> simp [tyEq, tyEqR]
  | .arr e lo hi, b => by
      cases b <;> simp only [tyEq, tyEqR]
      rw [tyEqR_swap e _]
  | .var ts, b => by
      cases b <;> simp only [tyEq, tyEqR]
      rename_i us
      rw [inclR_swap ts us, inclR_eq us ts]
      congr 2
      apply List.all_congr rfl
      exact fun v => anyL_swap ts v
  | .tup ts sz, b => by
      cases b <;> simp only [tyEq, tyEqR]
      rename_i us sz'
      cases h : (us.length == ts.length)
      · simp
      · simp only [Bool.true_and]
        have hl : us.length = ts.length := by simpa using h
        rw [tyEqRL_swap ts us hl.symm]
  | .opt t, b => by cases b <;> simp only [tyEq, tyEqR]; exact tyEqR_swap t _
  | .typ t, b => by cases b <;> simp only [tyEq, tyEqR]; exact tyEqR_swap t _
  | .nul k, b => by cases b <;> simp [tyEq, tyEqR]
  | .bool v, b => by cases b <;> simp [tyEq, tyEqR]
  | .coll lo hi, b => by cases b <;> simp [tyEq, tyEqR]
  | .un k t, b => by
      cases b <;> simp only [tyEq, tyEqR]
      rw [tyEqR_swap t _]
  | .strSize lo hi, b => by cases b <;> simp [tyEq, tyEqR]
  | .strVal v, b => by cases b <;> simp [tyEq, tyEqR]
  | .rx p, b => by cases b <;> simp [tyEq, tyEqR]
  | .pattern ps, b => by cases b <;> simp [tyEq, tyEqR]
  | .tref s, b => by cases b <;> simp [tyEq, tyEqR]
  | .semverT _ rs, b => by cases b <;> simp [tyEq, tyEqR]
  | .hash k v lo hi, b => by
      cases b <;> simp only [tyEq, tyEqR]
      rw [tyEqR_swap k _, tyEqR_swap v _]
  | .like t n, b => by
      cases b <;> simp only [tyEq, tyEqR]
      rw [tyEqR_swap t _]
  | .callable h ts hr r hb bl, b => by
      cases b with
      | callable h' us hr' r' hb' bl' =>
        simp only [tyEq, tyEqR]
        have hp : (us.length == ts.length && tyEqRL ts us) = (us.length == ts.length && tyEqL us ts) := by
          cases hl : (us.length == ts.length)
          · simp
          · have hl' : us.length = ts.length := by simpa using hl
            simp only [Bool.true_and]
            exact tyEqRL_swap ts us hl'.symm
        rw [optEq_swap h h' _ _ hp, optEq_swap hr hr' _ _ (tyEqR_swap r r'), optEq_swap hb hb' _ _ (tyEqR_swap bl bl')]
      | _ => simp [tyEq, tyEqR]
  | .runtime rt n p, b => by cases b <;> simp [tyEq, tyEqR]
  | .struct es, b => by
      cases b <;> simp only [tyEq, tyEqR]
      rename_i fs
      cases h : (fs.length == es.length)
      · simp
      · simp only [Bool.true_and]
        have hl : fs.length = es.length := by simpa using h
        rw [tyEqRS_swap es fs hl.symm]
  | .init h t, b => by
      cases b with
      | init h' u => simp only [tyEq, tyEqR]; rw [optEq_swap h h' _ _ (tyEqR_swap t u)]
      | _ => simp [tyEq, tyEqR]
theorem tyEqRS_swap : ∀ es fs : List (Bytes × Bool × Ty), es.length = fs.length → tyEqRS es fs = tyEqS fs es
  | [], fs => fun h => by
      cases fs with
      | nil => simp [tyEqS, tyEqRS]
      | cons f fs => simp at h
  | (n, o, v) :: es, fs => fun h => by
      cases fs with
      | nil => simp at h
      | cons f fs =>
        obtain ⟨n', o', v'⟩ := f
        simp only [tyEqS, tyEqRS]
        rw [tyEqR_swap v v', tyEqRS_swap es fs (by simpa using h)]
theorem tyEqRL_swap : ∀ ts us : List Ty, ts.length = us.length → tyEqRL ts us = tyEqL us ts
  | [], us => fun h => by
      cases us with
      | nil => simp [tyEqL, tyEqRL]
      | cons u us => simp at h
  | t :: ts, us => fun h => by
      cases us with
      | nil => simp at h
      | cons u us =>
        simp only [tyEqL, tyEqRL]
        rw [tyEqR_swap t u, tyEqRL_swap ts us (by simpa using h)]
theorem inclR_swap : ∀ ts us : List Ty, inclR ts us = ts.all (fun v => anyL us v)
  | [], us => by simp [inclR]
  | t :: ts, us => by
      simp only [inclR, List.all_cons]
      rw [inclR_swap ts us, anyL_eq us t]
      congr 2
      funext ov
      exact tyEqR_swap t ov
theorem anyL_swap : ∀ (ts : List Ty) (v : Ty), anyL ts v = ts.any (fun ov => tyEqR v ov)
  | [], v => by simp [anyL]
  | t :: ts, v => by
      simp only [anyL, List.any_cons]
      rw [anyL_swap ts v, tyEq_eq_R t v, tyEqR_swap t v, tyEq_eq_R v t]
end

/-- `a.Equals(b) = b.Equals(a)` for types -/
theorem tyEq_symm (a b : Ty) : tyEq a b = tyEq b a := by rw [tyEq_eq_R a b, tyEqR_swap a b]

/-- Variant equality, as a statement about the two member lists -/
theorem tyEq_var (ts us : List Ty) :
    tyEq (.var ts) (.var us) = true ↔
      ts.length = us.length ∧ (∀ v ∈ ts, ∃ u ∈ us, tyEq v u = true) ∧ (∀ u ∈ us, ∃ v ∈ ts, tyEq v u = true) := by
  simp only [tyEq, inclR_eq, Bool.and_eq_true, beq_iff_eq, List.all_eq_true, List.any_eq_true, anyL_eq]
  constructor
  · rintro ⟨⟨h1, h2⟩, h3⟩
    refine ⟨h1, fun v hv => ?_, h3⟩
    obtain ⟨u, hu, h⟩ := h2 v hv
    exact ⟨u, hu, by rw [tyEq_symm, ← tyEqR_swap]; exact h⟩
  · rintro ⟨h1, h2, h3⟩
    refine ⟨⟨h1, fun v hv => ?_⟩, h3⟩
    obtain ⟨u, hu, h⟩ := h2 v hv
    exact ⟨u, hu, by rw [tyEqR_swap, tyEq_symm]; exact h⟩

theorem feq_refl {a : Nat} (h : fIsNaN a = false) : feq a a = true := by simp [feq, h]

theorem feq_trans {a b c : Nat} (h1 : feq a b = true) (h2 : feq b c = true) : feq a c = true := by
  simp only [feq, Bool.and_eq_true, Bool.not_eq_true', Bool.or_eq_true, beq_iff_eq] at *
  obtain ⟨⟨ha, hb⟩, h1⟩ := h1
  obtain ⟨⟨_, hc⟩, h2⟩ := h2
  refine ⟨⟨ha, hc⟩, ?_⟩
  rcases h1 with h1 | h1 <;> rcases h2 with h2 | h2
  · left; omega
  · right; subst h1; exact h2
  · right; subst h2; exact h1
  · right; exact ⟨h1.1, h2.2⟩

theorem containsAll_refl (vs : List Bytes) : containsAll vs vs = true := by
  simp [containsAll]

theorem containsAll_trans {a b c : List Bytes} (h1 : containsAll a b = true) (h2 : containsAll b c = true) :
    containsAll a c = true := by
  simp only [containsAll, List.all_eq_true, List.contains_iff_mem] at *
  exact fun s hs => h1 s (h2 s hs)

/-! ### reflexivity -/

mutual
theorem tyEq_refl : ∀ a : Ty, TyWF a = true → tyEq a a = true
  | .any, _ => by simp [tyEq]
  | .undef, _ => by simp [tyEq]
  | .str, _ => by simp [tyEq]
  | .int _ _, _ => by simp [tyEq]
  | .flt lo hi, h => by
      simp only [TyWF, Bool.and_eq_true, Bool.not_eq_true', decide_eq_true_eq] at h
      simp [tyEq, feq_refl h.1.2, feq_refl h.2.2]
  | .enum _ vs, _ => by simp [tyEq, containsAll_refl]
  | .arr e _ _, h => by
      simp only [TyWF, Bool.and_eq_true] at h
      simp [tyEq, tyEq_refl e h.1]
  | .var ts, h => by
      rw [tyEq_var]
      simp only [TyWF, Bool.and_eq_true] at h
      exact ⟨rfl, fun v hv => ⟨v, hv, tyEq_refl_all ts h.1 v hv⟩, fun v hv => ⟨v, hv, tyEq_refl_all ts h.1 v hv⟩⟩
  | .tup ts _, h => by
      simp only [TyWF, Bool.and_eq_true] at h
      simp [tyEq, tyEqL_refl ts h.1.1]
  | .opt t, h => by simp only [TyWF] at h; simp [tyEq, tyEq_refl t h]
  | .typ t, h => by simp only [TyWF] at h; simp [tyEq, tyEq_refl t h]
  | .nul _, _ => by simp [tyEq]
  | .bool _, _ => by simp [tyEq]
  | .coll _ _, _ => by simp [tyEq]
  | .un _ t, h => by simp only [TyWF] at h; simp [tyEq, tyEq_refl t h]
  | .strSize _ _, _ => by simp [tyEq]
  | .strVal _, _ => by simp [tyEq]
  | .rx _, _ => by simp [tyEq]
  | .pattern _, _ => by simp [tyEq, containsAll_refl]
  | .tref _, _ => by simp [tyEq]
  | .semverT _ _, _ => by simp [tyEq, rangesEq_iff]
  | .hash k v _ _, h => by
      simp only [TyWF, Bool.and_eq_true] at h
      simp [tyEq, tyEq_refl k h.1.1, tyEq_refl v h.1.2]
  | .like t _, h => by simp only [TyWF] at h; simp [tyEq, tyEq_refl t h]
  | .callable hh ts hr r hb bl, h => by
      simp only [TyWF, Bool.and_eq_true, Bool.or_eq_true, Bool.not_eq_true'] at h
      simp only [tyEq, beq_self_eq_true, Bool.true_and, Bool.and_eq_true, Bool.or_eq_true, Bool.not_eq_true']
      refine ⟨?_, ?_, ?_⟩
      · rcases h.1 with h1 | h1
        · exact Or.inl h1
        · exact Or.inr (by simp [tyEqL_refl ts h1.1])
      · rcases h.2.1 with h1 | h1
        · exact Or.inl h1
        · exact Or.inr (tyEq_refl r h1)
      · rcases h.2.2 with h1 | h1
        · exact Or.inl h1
        · exact Or.inr (tyEq_refl bl h1)
  | .runtime _ _ _, _ => by simp [tyEq]
  | .struct es, h => by
      simp only [TyWF, Bool.and_eq_true] at h
      simp [tyEq, tyEqS_refl es h.1]
  | .init hh t, h => by
      cases hh
      · simp [tyEq]
      · simp only [TyWF, Bool.not_true, Bool.false_or] at h
        simp [tyEq, tyEq_refl t h]
theorem tyEqS_refl : ∀ es : List (Bytes × Bool × Ty), TyWFS es = true → tyEqS es es = true
  | [], _ => by simp [tyEqS]
  | (n, o, v) :: es, h => by
      simp only [TyWFS, Bool.and_eq_true] at h
      simp [tyEqS, tyEq_refl v h.1, tyEqS_refl es h.2]
theorem tyEq_refl_all : ∀ ts : List Ty, TyWFL ts = true → ∀ v ∈ ts, tyEq v v = true
  | [], _ => by simp
  | t :: ts, h => by
      simp only [TyWFL, Bool.and_eq_true] at h
      intro v hv
      rcases List.mem_cons.mp hv with e | hv
      · rw [e]; exact tyEq_refl t h.1
      · exact tyEq_refl_all ts h.2 v hv
theorem tyEqL_refl : ∀ ts : List Ty, TyWFL ts = true → tyEqL ts ts = true
  | [], _ => by simp [tyEqL]
  | t :: ts, h => by
      simp only [TyWFL, Bool.and_eq_true] at h
      simp [tyEqL, tyEq_refl t h.1, tyEqL_refl ts h.2]
end

/-! ### transitivity -/

mutual
theorem tyEq_trans : ∀ a b c : Ty, tyEq a b = true → tyEq b c = true → tyEq a c = true
  | .any, b, c => by
      cases b <;> (try (intro h; simp [tyEq] at h; done))
      cases c <;> simp [tyEq]
  | .undef, b, c => by
      cases b <;> (try (intro h; simp [tyEq] at h; done))
      cases c <;> simp [tyEq]
  | .str, b, c => by
      cases b <;> (try (intro h; simp [tyEq] at h; done))
      cases c <;> simp [tyEq]
  | .int _ _, b, c => by
      cases b <;> (try (intro h; simp [tyEq] at h; done))
      cases c <;> simp [tyEq]
      intro h1 h2 h3 h4; exact ⟨h1.trans h3, h2.trans h4⟩
  | .flt _ _, b, c => by
      cases b <;> (try (intro h; simp [tyEq] at h; done))
      cases c <;> simp [tyEq]
      intro h1 h2 h3 h4; exact ⟨feq_trans h1 h3, feq_trans h2 h4⟩
  | .enum _ _, b, c => by
      cases b <;> (try (intro h; simp [tyEq] at h; done))
      cases c <;> simp [tyEq]
      intro h1 h2 h3 h4 h5 h6 h7 h8
      exact ⟨⟨⟨h1.trans h5, h2.trans h6⟩, containsAll_trans h3 h7⟩, containsAll_trans h8 h4⟩
  | .arr e _ _, b, c => by
      cases b <;> (try (intro h; simp [tyEq] at h; done))
      cases c <;> simp [tyEq]
      intro h1 h2 h3 h4 h5 h6
      exact ⟨⟨h1.trans h4, h2.trans h5⟩, tyEq_trans e _ _ h3 h6⟩
  | .var ts, b, c => by
      cases b with
      | var us =>
        cases c with
        | var ws =>
          rw [tyEq_var, tyEq_var, tyEq_var]
          rintro ⟨l1, f1, g1⟩ ⟨l2, f2, g2⟩
          refine ⟨l1.trans l2, fun v hv => ?_, fun w hw => ?_⟩
          · obtain ⟨u, hu, h1⟩ := f1 v hv
            obtain ⟨w, hw, h2⟩ := f2 u hu
            exact ⟨w, hw, tyEq_trans_all ts v hv u w h1 h2⟩
          · obtain ⟨u, hu, h2⟩ := g2 w hw
            obtain ⟨v, hv, h1⟩ := g1 u hu
            exact ⟨v, hv, tyEq_trans_all ts v hv u w h1 h2⟩
        | _ => simp [tyEq]
      | _ => simp [tyEq]
  | .tup ts _, b, c => by
      cases b <;> (try (intro h; simp [tyEq] at h; done))
      cases c <;> simp [tyEq]
      intro h1 h2 h3 h4 h5 h6
      exact ⟨⟨h1.trans h4, h2.trans h5⟩, tyEqL_trans ts _ _ h3 h6⟩
  | .opt t, b, c => by
      cases b <;> (try (intro h; simp [tyEq] at h; done))
      cases c <;> simp [tyEq]
      exact tyEq_trans t _ _
  | .typ t, b, c => by
      cases b <;> (try (intro h; simp [tyEq] at h; done))
      cases c <;> simp [tyEq]
      exact tyEq_trans t _ _
  | .nul _, b, c => by
      cases b <;> (try (intro h; simp [tyEq] at h; done))
      cases c <;> simp [tyEq]
      intro h1 h2; exact h1.trans h2
  | .bool _, b, c => by
      cases b <;> (try (intro h; simp [tyEq] at h; done))
      cases c <;> simp [tyEq]
      intro h1 h2; exact h1.trans h2
  | .coll _ _, b, c => by
      cases b <;> (try (intro h; simp [tyEq] at h; done))
      cases c <;> simp [tyEq]
      intro h1 h2 h3 h4; exact ⟨h1.trans h3, h2.trans h4⟩
  | .un _ t, b, c => by
      cases b <;> (try (intro h; simp [tyEq] at h; done))
      cases c <;> simp [tyEq]
      intro h1 h2 h3 h4; exact ⟨h1.trans h3, tyEq_trans t _ _ h2 h4⟩
  | .strSize _ _, b, c => by
      cases b <;> (try (intro h; simp [tyEq] at h; done))
      cases c <;> simp [tyEq]
      intro h1 h2 h3 h4; exact ⟨h1.trans h3, h2.trans h4⟩
  | .strVal _, b, c => by
      cases b <;> (try (intro h; simp [tyEq] at h; done))
      cases c <;> simp [tyEq]
      intro h1 h2; exact h1.trans h2
  | .rx _, b, c => by
      cases b <;> (try (intro h; simp [tyEq] at h; done))
      cases c <;> simp [tyEq]
      intro h1 h2; exact h1.trans h2
  | .pattern _, b, c => by
      cases b <;> (try (intro h; simp [tyEq] at h; done))
      cases c <;> simp [tyEq]
      intro h1 h2 h3 h4 h5 h6
      exact ⟨⟨h1.trans h4, containsAll_trans h2 h5⟩, containsAll_trans h6 h3⟩
  | .tref _, b, c => by
      cases b <;> (try (intro h; simp [tyEq] at h; done))
      cases c <;> simp [tyEq]
      intro h1 h2; exact h1.trans h2
  | .semverT _ _, b, c => by
      cases b <;> (try (intro h; simp [tyEq] at h; done))
      cases c <;> simp [tyEq, rangesEq_iff]
      intro h1 h2; exact h1.trans h2
  | .hash k v _ _, b, c => by
      cases b <;> (try (intro h; simp [tyEq] at h; done))
      cases c <;> simp [tyEq]
      intro h1 h2 h3 h4 h5 h6 h7 h8
      exact ⟨⟨⟨h1.trans h5, h2.trans h6⟩, tyEq_trans k _ _ h3 h7⟩, tyEq_trans v _ _ h4 h8⟩
  | .like t _, b, c => by
      cases b <;> (try (intro h; simp [tyEq] at h; done))
      cases c <;> simp [tyEq]
      intro h1 h2 h3 h4; exact ⟨h1.trans h3, tyEq_trans t _ _ h2 h4⟩
  | .callable hh ts hr r hb bl, b, c => by
      cases b with
      | callable h' us hr' r' hb' bl' =>
        cases c with
        | callable h'' ws hr'' r'' hb'' bl'' =>
          simp only [tyEq, Bool.and_eq_true, beq_iff_eq, Bool.or_eq_true, Bool.not_eq_true']
          rintro ⟨⟨e1, p1⟩, ⟨e2, p2⟩, e3, p3⟩ ⟨⟨f1, q1⟩, ⟨f2, q2⟩, f3, q3⟩
          subst e1; subst f1; subst e2; subst f2; subst e3; subst f3
          refine ⟨⟨rfl, ?_⟩, ⟨rfl, ?_⟩, rfl, ?_⟩
          · rcases p1 with p1 | p1
            · exact Or.inl p1
            · rcases q1 with q1 | q1
              · exact Or.inl q1
              · exact Or.inr ⟨p1.1.trans q1.1, tyEqL_trans ts _ _ p1.2 q1.2⟩
          · rcases p2 with p2 | p2
            · exact Or.inl p2
            · rcases q2 with q2 | q2
              · exact Or.inl q2
              · exact Or.inr (tyEq_trans r _ _ p2 q2)
          · rcases p3 with p3 | p3
            · exact Or.inl p3
            · rcases q3 with q3 | q3
              · exact Or.inl q3
              · exact Or.inr (tyEq_trans bl _ _ p3 q3)
        | _ => intro _ h; simp [tyEq] at h
      | _ => intro h; simp [tyEq] at h
  | .runtime _ _ _, b, c => by
      cases b <;> (try (intro h; simp [tyEq] at h; done))
      cases c <;> simp [tyEq]
      intro h1 h2 h3 h4 h5 h6; exact ⟨⟨h1.trans h4, h2.trans h5⟩, h3.trans h6⟩
  | .struct es, b, c => by
      cases b <;> (try (intro h; simp [tyEq] at h; done))
      cases c <;> simp [tyEq]
      intro h1 h2 h3 h4; exact ⟨h1.trans h3, tyEqS_trans es _ _ h2 h4⟩
  | .init hh t, b, c => by
      cases b with
      | init h' u =>
        cases c with
        | init h'' w =>
          simp only [tyEq, Bool.and_eq_true, beq_iff_eq, Bool.or_eq_true, Bool.not_eq_true']
          rintro ⟨e1, p1⟩ ⟨f1, q1⟩
          subst e1; subst f1
          refine ⟨rfl, ?_⟩
          rcases p1 with p1 | p1
          · exact Or.inl p1
          · rcases q1 with q1 | q1
            · exact Or.inl q1
            · exact Or.inr (tyEq_trans t _ _ p1 q1)
        | _ => intro _ h; simp [tyEq] at h
      | _ => intro h; simp [tyEq] at h
theorem tyEqS_trans : ∀ es fs gs : List (Bytes × Bool × Ty), tyEqS es fs = true → tyEqS fs gs = true → tyEqS es gs = true
  | [], _, _ => by simp [tyEqS]
  | (n, o, v) :: es, fs, gs => by
      cases fs with
      | nil => simp [tyEqS]
      | cons f fs =>
        obtain ⟨n', o', v'⟩ := f
        cases gs with
        | nil => simp [tyEqS]
        | cons g gs =>
          obtain ⟨n'', o'', v''⟩ := g
          simp only [tyEqS, Bool.and_eq_true, beq_iff_eq]
          rintro ⟨⟨⟨e1, e2⟩, h1⟩, h2⟩ ⟨⟨⟨f1, f2⟩, g1⟩, g2⟩
          exact ⟨⟨⟨e1.trans f1, e2.trans f2⟩, tyEq_trans v _ _ h1 g1⟩, tyEqS_trans es _ _ h2 g2⟩
theorem tyEq_trans_all : ∀ ts : List Ty, ∀ v ∈ ts, ∀ b c : Ty, tyEq v b = true → tyEq b c = true → tyEq v c = true
  | [], _, h => by simp at h
  | t :: ts, v, hv => by
      rcases List.mem_cons.mp hv with e | hv
      · rw [e]; exact tyEq_trans t
      · exact tyEq_trans_all ts v hv
theorem tyEqL_trans : ∀ ts us ws : List Ty, tyEqL ts us = true → tyEqL us ws = true → tyEqL ts ws = true
  | [], _, _ => by simp [tyEqL]
  | t :: ts, us, ws => by
      cases us <;> cases ws <;> simp [tyEqL]
      intro h1 h2 h3 h4
      exact ⟨tyEq_trans t _ _ h1 h3, tyEqL_trans ts _ _ h2 h4⟩
end

end Pcore.ValueEq
