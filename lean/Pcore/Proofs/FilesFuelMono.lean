import Pcore.Model.Files
/-!
C15, the fuel is immaterial: a function of the model that does not run out of fuel answers the same — result and state —
with any larger fuel.  (Panics are never caught inside the 13 functions, so a result other than `diverges` means no call
below it diverged.)  One induction on the fuel over all 13 functions, with a small calculus for "`y` agrees with `x`
wherever `x` does not diverge".
-/
namespace Pcore.Files

def NotDiv {α : Type} : R α → Prop
  | .fail .diverges _ => False
  | _ => True

/-- `y` agrees with `x` wherever `x` does not diverge -/
def Le {α : Type} (x y : M α) : Prop := ∀ s, NotDiv (x s) → y s = x s

theorem Le.refl {α : Type} (x : M α) : Le x x := fun _ _ => rfl

theorem Le.trans {α : Type} {x y z : M α} (h1 : Le x y) (h2 : Le y z) : Le x z := by
  intro s hs
  have e1 := h1 s hs
  rw [← e1] at hs
  rw [h2 s hs, e1]

theorem le_bind {α β : Type} {x x' : M α} {f f' : α → M β} (hx : Le x x') (hf : ∀ a, Le (f a) (f' a)) :
    Le (x >>= f) (x' >>= f') := by
  intro s hs
  simp only [bind] at hs ⊢
  cases hxs : x s with
  | fail e s' =>
    rw [hxs] at hs
    change NotDiv (R.fail e s') at hs
    have : NotDiv (x s) := by
      rw [hxs]
      cases e with
      | diverges => exact hs
      | reported c f l => trivial
    rw [hx s this, hxs]
  | ok a s' =>
    rw [hxs] at hs
    have : NotDiv (x s) := by rw [hxs]; trivial
    rw [hx s this, hxs]
    change NotDiv (f a s') at hs
    exact hf a s' hs

theorem le_div {α : Type} (y : M α) : Le (raise .diverges) y := fun _ h => absurd h (by simp [raise, NotDiv])

theorem le_of_div {α : Type} {x y : M α} (h : ∀ s, x s = .fail .diverges s) : Le x y := by
  intro s hs
  rw [h s] at hs
  exact absurd hs (by simp [NotDiv])

theorem le_ite {α : Type} {c : Prop} [Decidable c] {a a' b b' : M α} (ha : Le a a') (hb : Le b b') :
    Le (if c then a else b) (if c then a' else b') := by
  by_cases h : c
  · simp only [h, if_true]; exact ha
  · simp only [h, if_false]; exact hb

variable (cfg : Cfg)

structure AllLe (n : Nat) : Prop where
  loadEntry : ∀ l name, Le (loadEntry n cfg l name) (loadEntry (n+1) cfg l name)
  fbLoadEntry : ∀ l name, Le (fbLoadEntry n cfg l name) (fbLoadEntry (n+1) cfg l name)
  find : ∀ l name, Le (find n cfg l name) (find (n+1) cfg l name)
  findTail : ∀ l name, Le (findTail n cfg l name) (findTail (n+1) cfg l name)
  parentSearch : ∀ l name ts, Le (parentSearch n cfg l name ts) (parentSearch (n+1) cfg l name ts)
  instantiate : ∀ l name os, Le (instantiate n cfg l name os) (instantiate (n+1) cfg l name os)
  instantiator : ∀ name os, Le (instantiator n cfg name os) (instantiator (n+1) cfg name os)
  addTypes : ∀ d ts, Le (addTypes n cfg d ts) (addTypes (n+1) cfg d ts)
  resolveTS : ∀ nm ts i, Le (resolveTS n cfg nm ts i) (resolveTS (n+1) cfg nm ts i)
  dLoadEntry : ∀ name, Le (dLoadEntry n cfg name) (dLoadEntry (n+1) cfg name)
  dFind : ∀ name, Le (dFind n cfg name) (dFind (n+1) cfg name)
  dMembers : ∀ name, Le (dMembers n cfg name) (dMembers (n+1) cfg name)
  dLoop : ∀ mods name, Le (dLoop n cfg mods name) (dLoop (n+1) cfg mods name)

variable {cfg}

theorem lstep_loadEntry {n : Nat} (ih : AllLe cfg n) (l : Lid) (name : Name) :
    Le (loadEntry (n+1) cfg l name) (loadEntry (n+2) cfg l name) := by
  cases l with
  | d => simp only [loadEntry]; exact ih.dLoadEntry name
  | g => simp only [loadEntry]; exact ih.fbLoadEntry .g name
  | m mod => simp only [loadEntry]; exact ih.fbLoadEntry (.m mod) name

theorem lstep_fbLoadEntry {n : Nat} (ih : AllLe cfg n) (l : Lid) (name : Name) :
    Le (fbLoadEntry (n+1) cfg l name) (fbLoadEntry (n+2) cfg l name) := by
  simp only [fbLoadEntry]
  refine le_bind ?_ ?_
  · cases l with
    | m mod => exact le_ite (Le.refl _) (ih.fbLoadEntry .g name)
    | g => exact Le.refl _
    | d => exact Le.refl _
  · intro pe
    refine le_bind (Le.refl _) ?_
    intro st
    have hrest : ∀ entry : Option Entry,
        Le (match entry with
            | some e => pure (some e)
            | none => do
              let r ← find n cfg l name
              match r with
                | some e => pure (some e)
                | none => do
                  let e ← setEntry l (keyOf name) none
                  pure (some e))
          (match entry with
            | some e => pure (some e)
            | none => do
              let r ← find (n+1) cfg l name
              match r with
                | some e => pure (some e)
                | none => do
                  let e ← setEntry l (keyOf name) none
                  pure (some e)) := by
      intro entry
      cases entry with
      | some e => exact Le.refl _
      | none => exact le_bind (ih.find l name) (fun _ => Le.refl _)
    match pe with
    | some (some d) => exact hrest (some (some d))
    | some none => exact hrest (st.get l (keyOf name))
    | none => exact hrest (st.get l (keyOf name))

theorem lstep_findTail {n : Nat} (ih : AllLe cfg n) (l : Lid) (name : Name) :
    Le (findTail (n+1) cfg l name) (findTail (n+2) cfg l name) := by
  simp only [findTail]
  cases idx cfg l (keyOf name) with
  | cons o os => exact ih.instantiate l name (o :: os)
  | nil => exact le_ite (ih.parentSearch l name name.dropLast) (Le.refl _)

theorem lstep_parentSearch {n : Nat} (ih : AllLe cfg n) (l : Lid) (name ts : Name) :
    Le (parentSearch (n+1) cfg l name ts) (parentSearch (n+2) cfg l name ts) := by
  cases ts with
  | nil => simp only [parentSearch]; exact Le.refl _
  | cons t rest =>
    simp only [parentSearch]
    refine le_bind (Le.refl _) ?_
    intro st
    cases st.get l (keyOf (t :: rest)) with
    | some v => exact ih.parentSearch l name _
    | none =>
      refine le_bind (ih.find l (t :: rest)) ?_
      intro _
      refine le_bind (Le.refl _) ?_
      intro st1
      cases st1.get l (keyOf name) with
      | some te => exact Le.refl _
      | none => exact ih.parentSearch l name _

theorem lstep_instantiate {n : Nat} (ih : AllLe cfg n) (l : Lid) (name : Name) (os : List Path) :
    Le (instantiate (n+1) cfg l name os) (instantiate (n+2) cfg l name os) := by
  simp only [instantiate]
  refine le_bind (Le.refl _) ?_
  intro st
  cases st.get l (keyOf name) with
  | some v => exact Le.refl _
  | none => exact le_bind (Le.refl _) (fun _ => le_bind (ih.instantiator name os) (fun _ => Le.refl _))

theorem lstep_instantiator {n : Nat} (ih : AllLe cfg n) (name : Name) (os : List Path) :
    Le (instantiator (n+1) cfg name os) (instantiator (n+2) cfg name os) := by
  cases os with
  | nil => simp only [instantiator]; exact Le.refl _
  | cons p rest =>
    simp only [instantiator]
    refine le_bind (Le.refl _) ?_
    intro _
    cases bodyAt cfg.tree p with
    | none => exact Le.refl _
    | some b =>
      cases b with
      | unreadable => exact Le.refl _
      | malformed ln => exact Le.refl _
      | nodef => exact Le.refl _
      | bare => exact ih.addTypes _ _
      | typ k nm ts => exact le_ite (Le.refl _) (ih.addTypes _ _)

theorem lstep_addTypes {n : Nat} (ih : AllLe cfg n) (d : Def) (ts : List String) :
    Le (addTypes (n+1) cfg d ts) (addTypes (n+2) cfg d ts) := by
  simp only [addTypes]
  exact le_ite (le_bind (ih.resolveTS d.name ts 0) (fun _ => Le.refl _)) (Le.refl _)

theorem lstep_resolveTS {n : Nat} (ih : AllLe cfg n) (nm : Name) (ts : List String) (i : Nat) :
    Le (resolveTS (n+1) cfg nm ts i) (resolveTS (n+2) cfg nm ts i) := by
  cases ts with
  | nil => simp only [resolveTS]; exact Le.refl _
  | cons t rest =>
    simp only [resolveTS]
    refine le_bind (ih.loadEntry cfg.via (nm ++ [t])) ?_
    intro le
    match le with
    | some (some d) => exact ih.resolveTS nm rest (i+1)
    | some none => exact le_bind (Le.refl _) (fun _ => ih.resolveTS nm rest (i+1))
    | none => exact le_bind (Le.refl _) (fun _ => ih.resolveTS nm rest (i+1))

theorem lstep_find {n : Nat} (ih : AllLe cfg n) (l : Lid) (name : Name) :
    Le (find (n+1) cfg l name) (find (n+2) cfg l name) := by
  have htail := ih.findTail l name
  simp only [find]
  refine le_ite (le_ite ?_ htail) (le_ite ?_ htail)
  · refine le_bind (Le.refl _) ?_
    intro ps
    exact le_ite (Le.refl _) htail
  · refine le_bind (Le.refl _) ?_
    intro ps
    refine le_ite (Le.refl _) ?_
    cases idx cfg l ["init_typeset"] with
    | nil => exact Le.refl _
    | cons o os =>
      refine le_ite ?_ ?_
      · exact le_bind (ih.instantiate l name (o :: os)) (fun _ => Le.refl _)
      · exact le_bind (ih.instantiator name (o :: os)) (fun _ => Le.refl _)

theorem lstep_dLoop {n : Nat} (ih : AllLe cfg n) (mods : List String) (name : Name) :
    Le (dLoop (n+1) cfg mods name) (dLoop (n+2) cfg mods name) := by
  cases mods with
  | nil => simp only [dLoop]; exact Le.refl _
  | cons m rest =>
    simp only [dLoop]
    refine le_bind (ih.fbLoadEntry (.m m) name) ?_
    intro e
    match e with
    | some (some d) => exact Le.refl _
    | some none => exact ih.dLoop rest name
    | none => exact ih.dLoop rest name

theorem lstep_dMembers {n : Nat} (ih : AllLe cfg n) (name : Name) :
    Le (dMembers (n+1) cfg name) (dMembers (n+2) cfg name) := by
  simp only [dMembers]
  refine le_ite ?_ (ih.dLoop cfg.mods name)
  refine le_bind (ih.fbLoadEntry .g name) ?_
  intro e
  match e with
  | some (some d) => exact Le.refl _
  | some none => exact ih.dLoop cfg.mods name
  | none => exact ih.dLoop cfg.mods name

theorem lstep_dFind {n : Nat} (ih : AllLe cfg n) (name : Name) :
    Le (dFind (n+1) cfg name) (dFind (n+2) cfg name) := by
  simp only [dFind]
  refine le_ite ?_ (ih.dMembers name)
  refine le_bind (Le.refl _) ?_
  intro ps
  cases ps.head? with
  | none => exact ih.dMembers name
  | some h => exact le_ite (ih.fbLoadEntry (.m h) name) (ih.dMembers name)

theorem lstep_dLoadEntry {n : Nat} (ih : AllLe cfg n) (name : Name) :
    Le (dLoadEntry (n+1) cfg name) (dLoadEntry (n+2) cfg name) := by
  simp only [dLoadEntry]
  refine le_bind (Le.refl _) ?_
  intro st
  match st.get .d (keyOf name) with
  | some (some d) => exact Le.refl _
  | some none => exact le_bind (ih.dFind name) (fun _ => Le.refl _)
  | none => exact le_bind (ih.dFind name) (fun _ => Le.refl _)

theorem allLe : ∀ n, AllLe cfg n
  | 0 => by
    constructor <;> intros <;> refine le_of_div (fun s => ?_) <;>
      simp only [loadEntry, fbLoadEntry, find, findTail, parentSearch, instantiate, instantiator, addTypes, resolveTS,
        dLoadEntry, dFind, dMembers, dLoop, raise]
  | n+1 =>
    have ih := allLe n
    { loadEntry := lstep_loadEntry ih
      fbLoadEntry := lstep_fbLoadEntry ih
      find := lstep_find ih
      findTail := lstep_findTail ih
      parentSearch := lstep_parentSearch ih
      instantiate := lstep_instantiate ih
      instantiator := lstep_instantiator ih
      addTypes := lstep_addTypes ih
      resolveTS := lstep_resolveTS ih
      dLoadEntry := lstep_dLoadEntry ih
      dFind := lstep_dFind ih
      dMembers := lstep_dMembers ih
      dLoop := lstep_dLoop ih }

theorem loadEntry_le (n m : Nat) (h : n ≤ m) (l : Lid) (name : Name) :
    Le (loadEntry n cfg l name) (loadEntry m cfg l name) := by
  induction m with
  | zero =>
    have : n = 0 := by omega
    subst this; exact Le.refl _
  | succ k ih =>
    by_cases hk : n ≤ k
    · exact (ih hk).trans ((allLe k).loadEntry l name)
    · have : n = k + 1 := by omega
      subst this; exact Le.refl _

/-- a lookup that does not run out of fuel answers the same — outcome and state — with any larger fuel -/
theorem loadS_fuel_mono (cfg : Cfg) (s : St) (name : Name) (n m : Nat) (hnm : n ≤ m)
    (h : (loadS n cfg s name).1 ≠ .failed .diverges) : loadS m cfg s name = loadS n cfg s name := by
  have hle : Le (load n cfg name) (load m cfg name) := by
    unfold load
    exact le_bind (loadEntry_le n m hnm cfg.via name) (fun _ => Le.refl _)
  have hnd : NotDiv (load n cfg name s) := by
    unfold loadS at h
    cases hx : load n cfg name s with
    | ok o s' => trivial
    | fail e s' =>
      rw [hx] at h
      cases e with
      | diverges => exact absurd rfl h
      | reported c f l => trivial
  unfold loadS
  rw [hle s hnd]

theorem runLoads_fuel_mono (cfg : Cfg) (n m : Nat) (hnm : n ≤ m) : ∀ (names : List Name) (s : St),
    (∀ o ∈ (runLoads n cfg s names).1, o ≠ .failed .diverges) → runLoads m cfg s names = runLoads n cfg s names
  | [], _, _ => rfl
  | x :: xs, s, h => by
    have h1 : (loadS n cfg s x).1 ≠ .failed .diverges := h _ (by simp [runLoads])
    have e1 := loadS_fuel_mono cfg s x n m hnm h1
    have h2 : ∀ o ∈ (runLoads n cfg (loadS n cfg s x).2 xs).1, o ≠ .failed .diverges := by
      intro o ho
      exact h o (by simp only [runLoads, List.mem_cons]; exact Or.inr ho)
    have e2 := runLoads_fuel_mono cfg n m hnm xs _ h2
    simp only [runLoads, e1, e2]

end Pcore.Files
