import Pcore.Model.Dispatch
/-!
Helper lemmas for C16 (core Lean only): `callFrom` is "first match", `instLoop` is "argument j against type min(j,last)".
-/
namespace Pcore.Dispatch

section Call
variable {T BT V B : Type} (inst : T → V → Bool) (binst : BT → B → Bool)

theorem callFrom_ran (ds : List (Dispatch T BT)) (args : List V) (blk : Option B) :
    ∀ (k i : Nat), callFrom inst binst k ds args blk = .ran i →
      k ≤ i ∧ ∃ d, ds[i - k]? = some d ∧ callableWith inst binst d args blk = true ∧
        ∀ j, j < i - k → ∀ d', ds[j]? = some d' → callableWith inst binst d' args blk = false := by
  induction ds with
  | nil => intro k i h; simp [callFrom] at h
  | cons d ds ih =>
    intro k i h
    unfold callFrom at h
    by_cases hc : callableWith inst binst d args blk = true
    · simp [hc] at h
      subst h
      refine ⟨Nat.le_refl _, d, by simp, hc, ?_⟩
      intro j hj; simp at hj
    · simp [hc] at h
      obtain ⟨hk, d0, hd0, hc0, hall⟩ := ih (k + 1) i h
      have hik : i - k = (i - (k + 1)) + 1 := by omega
      refine ⟨by omega, d0, ?_, hc0, ?_⟩
      · rw [hik]; simpa using hd0
      · intro j hj d' hd'
        cases j with
        | zero => simp at hd'; subst hd'; simpa using hc
        | succ j' =>
          simp at hd'
          exact hall j' (by omega) d' hd'

theorem callFrom_reported (ds : List (Dispatch T BT)) (args : List V) (blk : Option B) :
    ∀ k, callFrom inst binst k ds args blk = .reported ↔ ∀ d ∈ ds, callableWith inst binst d args blk = false := by
  induction ds with
  | nil => intro k; simp [callFrom]
  | cons d ds ih =>
    intro k
    unfold callFrom
    by_cases hc : callableWith inst binst d args blk = true
    · simp [hc]
    · simp [hc, ih (k + 1)]

theorem callFrom_first (ds : List (Dispatch T BT)) (args : List V) (blk : Option B) :
    ∀ (k n : Nat) (d : Dispatch T BT), ds[n]? = some d → callableWith inst binst d args blk = true →
      (∀ j, j < n → ∀ d', ds[j]? = some d' → callableWith inst binst d' args blk = false) →
      callFrom inst binst k ds args blk = .ran (k + n) := by
  induction ds with
  | nil => intro k n d h; simp at h
  | cons d0 ds ih =>
    intro k n d hd hc hall
    unfold callFrom
    cases n with
    | zero =>
      simp at hd; subst hd; simp [hc]
    | succ n' =>
      have h0 : callableWith inst binst d0 args blk = false := hall 0 (by omega) d0 (by simp)
      simp [h0]
      simp at hd
      have := ih (k + 1) n' d hd hc (fun j hj d' hd' => hall (j + 1) (by omega) d' (by simpa using hd'))
      rw [this]; congr 1; omega

/-- position `j` of the argument list is tested against `(t :: ts)[min j ts.length]` -/
theorem instLoop_iff (args : List V) : ∀ (t : T) (ts : List T),
    instLoop inst t ts args = true ↔
      ∀ j v, args[j]? = some v → ∃ t', (t :: ts)[min j ts.length]? = some t' ∧ inst t' v = true := by
  induction args with
  | nil => intro t ts; simp [instLoop]
  | cons a as ih =>
    intro t ts
    cases ts with
    | nil =>
      simp only [instLoop, Bool.and_eq_true, ih t []]
      constructor
      · rintro ⟨h0, hr⟩ j v hj
        cases j with
        | zero => simp at hj; subst hj; exact ⟨t, by simp, h0⟩
        | succ j' =>
          simp at hj
          obtain ⟨t', ht', hi⟩ := hr j' v hj
          exact ⟨t', by simpa using ht', hi⟩
      · intro h
        refine ⟨?_, ?_⟩
        · obtain ⟨t', ht', hi⟩ := h 0 a (by simp)
          simp at ht'; subst ht'; exact hi
        · intro j v hj
          obtain ⟨t', ht', hi⟩ := h (j + 1) v (by simpa using hj)
          exact ⟨t', by simpa using ht', hi⟩
    | cons t1 ts1 =>
      simp only [instLoop, Bool.and_eq_true, ih t1 ts1]
      constructor
      · rintro ⟨h0, hr⟩ j v hj
        cases j with
        | zero => simp at hj; subst hj; exact ⟨t, by simp, h0⟩
        | succ j' =>
          simp at hj
          obtain ⟨t', ht', hi⟩ := hr j' v hj
          refine ⟨t', ?_, hi⟩
          have : min (j' + 1) (ts1.length + 1) = min j' ts1.length + 1 := by omega
          simp only [List.length_cons, this, List.getElem?_cons_succ]
          exact ht'
      · intro h
        refine ⟨?_, ?_⟩
        · obtain ⟨t', ht', hi⟩ := h 0 a (by simp)
          simp at ht'; subst ht'; exact hi
        · intro j v hj
          obtain ⟨t', ht', hi⟩ := h (j + 1) v (by simpa using hj)
          refine ⟨t', ?_, hi⟩
          have : min (j + 1) (ts1.length + 1) = min j ts1.length + 1 := by omega
          simp only [List.length_cons, this, List.getElem?_cons_succ] at ht'
          exact ht'

end Call

end Pcore.Dispatch
