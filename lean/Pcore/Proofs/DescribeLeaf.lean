import Pcore.Proofs.DescribePos
set_option linter.unusedSimpArgs false
set_option linter.unusedVariables false
/-!
  C19 helper lemmas: for an expected type without Variant / Data / RichData below any position the describer can reach
  (`noMerge`), nothing is ever merged, and every size / count mismatch is reported with exactly the two ranges the code compared:
  the actual range is not inside the expected one.
-/
namespace Pcore.Desc
open Pcore.Lat

mutual
/-- no Variant and no alias at any position `internalDescribe` can reach (it never descends into NotUndef / Type / Sensitive /
    Iterable) -/
def noMerge : Ty → Bool
  | .variant _ | .data | .richData => false
  | .callable _ _ _ => false      -- (kept outside: the parameter tuples are described under the Callable's own path)
  | .array e _ => noMerge e
  | .hash k v _ => noMerge k && noMerge v
  | .tuple ts _ => noMergeL ts
  | .struct ms => noMergeM ms
  | .optional t => noMerge t
  | _ => true
def noMergeL : List Ty → Bool
  | [] => true
  | t :: ts => noMerge t && noMergeL ts
def noMergeM : List Member → Bool
  | [] => true
  | (_, _, t) :: ms => noMerge t && noMergeM ms
end

theorem noMergeL_mem {ts : List Ty} {t : Ty} (h : noMergeL ts = true) (hin : t ∈ ts) : noMerge t = true := by
  induction ts with
  | nil => cases hin
  | cons x xs ih =>
    simp only [noMergeL, Bool.and_eq_true] at h
    rcases List.mem_cons.mp hin with rfl | hin
    · exact h.1
    · exact ih h.2 hin

theorem noMergeM_mem {ms : List Member} {n : String} {o : Bool} {t : Ty} (h : noMergeM ms = true) (hin : (n, o, t) ∈ ms) :
    noMerge t = true := by
  induction ms with
  | nil => cases hin
  | cons x xs ih =>
    obtain ⟨xn, xo, xt⟩ := x
    simp only [noMergeM, Bool.and_eq_true] at h
    rcases List.mem_cons.mp hin with heq | hin
    · simp only [Prod.mk.injEq] at heq; rw [heq.2.2]; exact h.1
    · exact ih h.2 hin

/-- a size / count mismatch carries an actual range that is NOT inside the expected one -/
def SizeReal : Mismatch → Prop
  | .sizeMismatch _ er ar => er.sub ar = false
  | .countMismatch _ er ar => er.sub ar = false
  | _ => True

def ItemNM : Item → Prop
  | .leaf m => SizeReal m
  | .sub e2 _ _ _ => noMerge e2 = true

theorem itemNM_struct (p : Path) (ms ms' : List Member) (h : noMergeM ms = true) : ∀ it ∈ structItems p ms ms', ItemNM it := by
  intro it hit
  rcases structItems_spec p ms ms' it hit with ⟨k, rfl, _, _⟩ | ⟨k, rfl, _, _⟩ | ⟨n, o, t, m', hin, _, _, rfl | rfl⟩
  · trivial
  · trivial
  · simp [ItemNM, noMerge]
  · exact noMergeM_mem h hin

theorem itemNM_hash (k v : Ty) (ms' : List Member) (hk : noMerge k = true) (hv : noMerge v = true) :
    ∀ it ∈ hashItems k v ms', ItemNM it := by
  intro it hit
  obtain ⟨m', _, rfl | rfl⟩ := hashItems_spec k v ms' it hit
  · exact hk
  · exact hv

theorem itemNM_arrTup (et : Ty) (ts' : List Ty) (h : noMerge et = true) : ∀ it ∈ arrTupItems et ts' 0, ItemNM it := by
  intro it hit
  obtain ⟨j, t', _, rfl⟩ := arrTupItems_spec et ts' 0 it hit
  exact h

theorem itemNM_tupArr (e' : Ty) (ts : List Ty) (h : noMergeL ts = true) : ∀ it ∈ tupArrItems e' ts 0, ItemNM it := by
  intro it hit
  obtain ⟨j, t, hj, rfl⟩ := tupArrItems_spec e' ts 0 it hit
  exact noMergeL_mem h (List.mem_of_getElem? hj)

theorem itemNM_tupTup (ext : Ty) (ts ts' : List Ty) (hl : ts.getLast? = some ext) (h : noMergeL ts = true) :
    ∀ it ∈ tupTupItems ext ts.length ts' 0, ItemNM it := by
  intro it hit
  obtain ⟨j, t', _, _, rfl⟩ := tupTupItems_spec ext ts.length ts' 0 it hit
  exact noMergeL_mem h (List.mem_of_getLast? hl)

section
variable (cfg : Cfg) (sfh : Bool)

theorem describe_sizeReal :
    (∀ e o a p, noMerge e = true → ∀ r, internalDescribe cfg sfh e o a p = .ok r → ∀ m ∈ r, SizeReal m) ∧
    (∀ items p, (∀ it ∈ items, ItemNM it) → ∀ r, descAll cfg sfh items p = .ok r → ∀ m ∈ r, SizeReal m) ∧
    (∀ (xs : List Atom) (u : Bool) (i : Nat) (a : Ty) (p : Path), True) := by
  apply internalDescribe.mutual_induct cfg sfh
    (fun e o a p => noMerge e = true → ∀ r, internalDescribe cfg sfh e o a p = .ok r → ∀ m ∈ r, SizeReal m)
    (fun items p => (∀ it ∈ items, ItemNM it) → ∀ r, descAll cfg sfh items p = .ok r → ∀ m ∈ r, SizeReal m)
    (fun _ _ _ _ _ => True)
  all_goals intros
  all_goals try trivial
  all_goals try (
    rename_i hnm r hr m hm
    simp only [noMerge, Bool.and_eq_true, reduceCtorEq, Bool.false_eq_true] at hnm
    simp only [internalDescribe, *, if_true, if_false, Bool.false_eq_true, Bool.or_true, Bool.true_or, Bool.or_false,
      Bool.not_true, not_false_eq_true, imp_self, implies_true, Res.ok.injEq, reduceCtorEq] at hr
    first
      | (subst hr; exact absurd hm List.not_mem_nil)
      | (subst hr; simp only [List.mem_singleton] at hm; subst hm
         first
          | exact trivial
          | (simp only [SizeReal]; simp_all))
      | (rename_i ih; exact ih (itemNM_struct _ _ _ hnm) r hr m hm)
      | (rename_i ih; exact ih (itemNM_hash _ _ _ hnm.1 hnm.2) r hr m hm)
      | (rename_i ih; exact ih (itemNM_arrTup _ _ hnm) r hr m hm)
      | (rename_i ih; exact ih (itemNM_tupArr _ _ hnm) r hr m hm)
      | (rename_i hl _ ih; exact ih (itemNM_tupTup _ _ _ hl hnm) r hr m hm)
      | (rename_i ih; exact ih hnm r (by simpa using hr) m hm)
      | skip)
  -- the remaining cases, told apart by the shape of the goal (not by their number: a new `Ty` constructor renumbers them)
  all_goals first
    | (rename_i hnm _ _ _ _; simp [noMerge] at hnm; done)
    | (rename_i _ r hr m hm; simp [descAll] at hr; subst hr; cases hm; done)
    | (rename_i ih hI r hr m hm
       simp only [descAll] at hr
       obtain ⟨x, y, hx, hy, rfl⟩ := Res.append_eq_ok hr
       simp only [Res.ok.injEq] at hx; subst hx
       rcases List.mem_append.mp hm with hm | hm
       · simp only [List.mem_singleton] at hm; subst hm; exact hI _ List.mem_cons_self
       · exact ih (fun it h => hI it (List.mem_cons_of_mem _ h)) y hy m hm
       done)
    | (rename_i h ih hI r hr m hm
       simp only [descAll, h, if_true] at hr
       exact ih (fun it h => hI it (List.mem_cons_of_mem _ h)) r hr m hm
       done)
    | (rename_i h ih2 ih1 hI r hr m hm
       simp only [descAll, h, if_false, Bool.false_eq_true] at hr
       obtain ⟨x, y, hx, hy, rfl⟩ := Res.append_eq_ok hr
       rcases List.mem_append.mp hm with hm | hm
       · exact ih2 (hI _ List.mem_cons_self) x hx m hm
       · exact ih1 (fun it h => hI it (List.mem_cons_of_mem _ h)) y hy m hm
       done)
    | (rename_i ih2 ih1 hI r hr m hm
       simp only [descAll] at hr
       obtain ⟨x, y, hx, hy, rfl⟩ := Res.append_eq_ok hr
       rcases List.mem_append.mp hm with hm | hm
       · exact ih2 (hI _ List.mem_cons_self) x hx m hm
       · exact ih1 (fun it h => hI it (List.mem_cons_of_mem _ h)) y hy m hm
       done)

/-- for an expectation without Variant / alias, every size or count mismatch `describe` reports is real -/
theorem describe_sizeReal_top (e a : Ty) (p : Path) (ms : List Mismatch) (hnm : noMerge e = true)
    (h : describe cfg sfh e a p = .ok ms) : ∀ m ∈ ms, SizeReal m := by
  unfold describe at h
  split at h
  · simp only [Res.ok.injEq] at h; subst h; intro m hm; cases hm
  · cases hr : internalDescribe cfg sfh e e a p with
    | fault k => rw [hr] at h; cases h
    | ok r =>
      rw [hr] at h
      have hj := (describe_sizeReal cfg sfh).1 e e a p hnm r hr
      cases r with
      | nil =>
        simp only [Res.ok.injEq] at h; subst h
        intro m hm; simp only [List.mem_singleton] at hm; subst hm; trivial
      | cons d ds => simp only [Res.ok.injEq] at h; subst h; exact hj
end
end Pcore.Desc
