import Pcore.Model.LoaderSeq
import Pcore.Proofs.LoaderCase
/-! Helper lemmas for C12 (and reused by C13): entry maps, `setEntry`, chains, `findSome?`, sorting. -/
namespace Pcore.LoaderSeq

/-! ### entry maps -/

theorem lk_put_same (k : Key) (e : Option V) (es : Ents) : lk k (put k e es) = some e := by
  induction es with
  | nil => simp [put, lk]
  | cons h t ih =>
    obtain ⟨k', e'⟩ := h
    by_cases hk : k' = k <;> simp [put, lk, hk, ih]

theorem lk_put_other {k k' : Key} (h : k' ≠ k) (e : Option V) (es : Ents) : lk k' (put k e es) = lk k' es := by
  induction es with
  | nil => simp [put, lk, Ne.symm h]
  | cons hd t ih =>
    obtain ⟨k0, e0⟩ := hd
    by_cases hk : k0 = k
    · subst hk; simp [put, lk, Ne.symm h]
    · by_cases hk' : k0 = k'
      · subst hk'; simp [put, lk, hk]
      · simp [put, lk, hk, hk', ih]

/-- keys of an entry map -/
def keysOf (es : Ents) : List Key := es.map (·.1)

theorem lk_none_iff (k : Key) (es : Ents) : lk k es = none ↔ k ∉ keysOf es := by
  induction es with
  | nil => simp [lk, keysOf]
  | cons h t ih =>
    obtain ⟨k', e'⟩ := h
    by_cases hk : k' = k
    · simp [lk, keysOf, hk]
    · simp only [lk, hk, if_false, ih, keysOf, List.map_cons, List.mem_cons, not_or]
      exact ⟨fun h => ⟨Ne.symm hk, h⟩, fun h => h.2⟩

theorem keysOf_put (k : Key) (e : Option V) (es : Ents) :
    keysOf (put k e es) = if k ∈ keysOf es then keysOf es else keysOf es ++ [k] := by
  induction es with
  | nil => simp [put, keysOf]
  | cons h t ih =>
    obtain ⟨k', e'⟩ := h
    by_cases hk : k' = k
    · subst hk; simp [put, keysOf]
    · have ih' : List.map (fun x => x.1) (put k e t) =
          if k ∈ List.map (fun x => x.1) t then List.map (fun x => x.1) t else List.map (fun x => x.1) t ++ [k] := ih
      simp only [put, hk, if_false, keysOf, List.map_cons, List.mem_cons, ih']
      have : ¬ k = k' := Ne.symm hk
      by_cases hm : k ∈ List.map (fun x => x.1) t <;> simp [hm, this]

theorem keysOf_put_nodup (k : Key) (e : Option V) (es : Ents) (h : (keysOf es).Nodup) : (keysOf (put k e es)).Nodup := by
  rw [keysOf_put]
  split
  · exact h
  · rename_i hk
    exact List.nodup_append.mpr ⟨h, by simp, by intro a ha b hb; simp at hb; subst hb; intro hab; subst hab; exact hk ha⟩

/-- with unique keys, membership of a pair is what `lk` answers -/
theorem mem_iff_lk {k : Key} {e : Option V} {es : Ents} (h : (keysOf es).Nodup) : (k, e) ∈ es ↔ lk k es = some e := by
  induction es with
  | nil => simp [lk]
  | cons hd t ih =>
    obtain ⟨k', e'⟩ := hd
    simp only [keysOf, List.map_cons, List.nodup_cons] at h
    by_cases hk : k' = k
    · subst hk
      simp only [List.mem_cons, Prod.mk.injEq, true_and, lk, if_true, Option.some.injEq]
      constructor
      · rintro (h1 | h1)
        · exact h1.symm
        · exact absurd (List.mem_map_of_mem (f := fun x => x.1) h1) h.1
      · intro h1; exact Or.inl h1.symm
    · simp only [List.mem_cons, Prod.mk.injEq, lk, hk, if_false]
      rw [← ih h.2]
      constructor
      · rintro (⟨h1, _⟩ | h1)
        · exact absurd h1.symm hk
        · exact h1
      · exact Or.inr

/-! ### `setEntry`: placeholders are never values, values are never overwritten -/

theorem setEntry_lk_other {k k' : Key} (h : k' ≠ k) (es : Ents) (nv : Option V) :
    lk k' (setEntry es k nv).1 = lk k' es := by
  unfold setEntry
  split
  · exact lk_put_other h _ _
  · split
    · rfl
    · split
      · rfl
      · split <;> rfl
  · exact lk_put_other h _ _

/-- a bound value survives every `SetEntry` -/
theorem setEntry_bound_mono (es : Ents) (k k' : Key) (nv : Option V) (v : V)
    (h : (lk k' es).join = some v) : (lk k' (setEntry es k nv).1).join = some v := by
  by_cases hk : k' = k
  · subst hk
    unfold setEntry
    split
    · rename_i h1; rw [h1] at h; simp at h
    · split
      · exact h
      · split
        · exact h
        · split <;> exact h
    · rename_i h1; rw [h1] at h; simp at h
  · rw [setEntry_lk_other hk]; exact h

/-- an unbound name stays unbound unless a value is stored under exactly that key -/
theorem setEntry_bound_none (es : Ents) (k k' : Key) (nv : Option V)
    (h : (lk k' es).join = none) (hn : nv = none ∨ k' ≠ k) : (lk k' (setEntry es k nv).1).join = none := by
  by_cases hk : k' = k
  · subst hk
    rcases hn with rfl | hn
    · unfold setEntry
      split
      · rw [lk_put_same]; rfl
      · exact h
      · rw [lk_put_same]; rfl
    · exact absurd rfl hn
  · rw [setEntry_lk_other hk]; exact h

/-- defining an unbound name stores the value -/
theorem setEntry_unbound (es : Ents) (k : Key) (v : V) (h : (lk k es).join = none) :
    setEntry es k (some v) = (put k (some v) es, .stored) := by
  unfold setEntry
  split
  · rfl
  · rename_i ov h1; rw [h1] at h; simp at h
  · rfl

/-- re-defining a bound name never changes the map; equal value: kept, different value: one of the two errors -/
theorem setEntry_bound (es : Ents) (k : Key) (v v' : V) (h : (lk k es).join = some v) :
    (setEntry es k (some v')).1 = es ∧
    (v' = v → (setEntry es k (some v')).2 = .kept) ∧
    (v' ≠ v → (setEntry es k (some v')).2 = .redefineType ∨ (setEntry es k (some v')).2 = .redefine) := by
  unfold setEntry
  split
  · rename_i h1; rw [h1] at h; simp at h
  · rename_i ov h1
    rw [h1] at h; simp at h; subst h
    by_cases hv : ov = v'
    · subst hv; simp
    · have hv' : ¬ v' = ov := fun h => hv h.symm
      by_cases ht : (ov.isType && v'.isType) = true <;> simp [hv, hv', ht]
  · rename_i h1; rw [h1] at h; simp at h

theorem setEntry_keys_nodup (es : Ents) (k : Key) (nv : Option V) (h : (keysOf es).Nodup) :
    (keysOf (setEntry es k nv).1).Nodup := by
  unfold setEntry
  split
  · exact keysOf_put_nodup _ _ _ h
  · split
    · exact h
    · split
      · exact h
      · split <;> exact h
  · exact keysOf_put_nodup _ _ _ h

/-! ### systems -/

theorem ents_setEnts (s : Sys) (l l' : Nat) (e : Ents) :
    (s.setEnts l' e).ents l = if l = l' ∧ l' < s.es.length then e else s.ents l := by
  simp only [Sys.ents, Sys.setEnts, List.getD_eq_getElem?_getD, List.getElem?_set]
  by_cases h : l' = l
  · subst h
    by_cases hl : l' < s.es.length
    · simp [hl]
    · simp [hl]
  · have : ¬ l = l' := fun h' => h h'.symm
    simp [h, this]

@[simp] theorem setEnts_ps (s : Sys) (l : Nat) (e : Ents) : (s.setEnts l e).ps = s.ps := rfl

@[simp] theorem setEnts_length (s : Sys) (l : Nat) (e : Ents) : (s.setEnts l e).es.length = s.es.length := by
  simp [Sys.setEnts]

/-- writing back what is there changes nothing observable -/
theorem bound_setEnts_setEntry_mono (s : Sys) (l l' : Nat) (k k' : Key) (nv : Option V) (v : V)
    (h : bound s l k = some v) : bound (s.setEnts l' (setEntry (s.ents l') k' nv).1) l k = some v := by
  unfold bound at *
  rw [ents_setEnts]
  split
  · rename_i hc; obtain ⟨rfl, _⟩ := hc
    exact setEntry_bound_mono _ _ _ _ _ h
  · exact h

theorem bound_setEnts_setEntry_none (s : Sys) (l l' : Nat) (k k' : Key) (nv : Option V)
    (h : bound s l k = none) (hn : nv = none ∨ l ≠ l' ∨ k ≠ k') :
    bound (s.setEnts l' (setEntry (s.ents l') k' nv).1) l k = none := by
  unfold bound at *
  rw [ents_setEnts]
  split
  · rename_i hc; obtain ⟨rfl, _⟩ := hc
    apply setEntry_bound_none _ _ _ _ h
    rcases hn with h1 | h1 | h1
    · exact Or.inl h1
    · exact absurd rfl h1
    · exact Or.inr h1
  · exact h

/-! ### chains -/

theorem chain_cons (ps : List (Option Nat)) (l : Nat) : ∃ anc, chain ps l = l :: anc := by
  unfold chain; exact ⟨_, rfl⟩

/-- proper ancestors, nearest first -/
def ancestors (ps : List (Option Nat)) (l : Nat) : List Nat := (chain ps l).tail

theorem chain_eq (ps : List (Option Nat)) (l : Nat) : chain ps l = l :: ancestors ps l := by
  obtain ⟨anc, h⟩ := chain_cons ps l
  simp [ancestors, h]

/-! ### resolution along a chain -/

theorem loadEntryC_join (s : Sys) (ch : List Nat) (k : Key) :
    (loadEntryC s.es ch k).join = ch.reverse.findSome? fun a => bound s a k := by
  induction ch with
  | nil => simp [loadEntryC]
  | cons l anc ih =>
    simp only [List.reverse_cons, List.findSome?_append, ← ih, loadEntryC]
    cases h : loadEntryC s.es anc k with
    | none => simp [bound, Sys.ents]
    | some o =>
      cases o with
      | none => simp [bound, Sys.ents]
      | some v => simp

theorem ownHas_eq (s : Sys) (l : Nat) (k : Key) : ownHas s.es l k = (bound s l k).isSome := by
  unfold ownHas bound Sys.ents
  cases h : lk k (s.es.getD l []) with
  | none => simp
  | some o => cases o <;> simp

theorem hasC_iff (s : Sys) (ch : List Nat) (k : Key) :
    hasC s.es ch k = true ↔ ∃ a ∈ ch, (bound s a k).isSome = true := by
  induction ch with
  | nil => simp [hasC]
  | cons l anc ih =>
    simp only [hasC, Bool.or_eq_true, ih, ownHas_eq, List.mem_cons, exists_eq_or_imp]
    exact Or.comm

theorem hasC_eq (s : Sys) (ch : List Nat) (k : Key) :
    hasC s.es ch k = (ch.reverse.findSome? fun a => bound s a k).isSome := by
  rw [Bool.eq_iff_iff, hasC_iff, List.findSome?_isSome_iff]
  simp

/-! ### `findSome?` along `ancestors ++ [own]` -/

theorem findSome?_stable {α β : Type} (f g : α → Option β) (xs : List α) (last : α) (v : β)
    (h : (xs ++ [last]).findSome? f = some v)
    (hmono : ∀ x ∈ xs ++ [last], ∀ w, f x = some w → g x = some w)
    (hnone : ∀ x ∈ xs, f x = none → g x = none) :
    (xs ++ [last]).findSome? g = some v := by
  induction xs with
  | nil =>
    simp only [List.nil_append, List.findSome?_cons, List.findSome?_nil] at h ⊢
    cases hf : f last with
    | none => simp [hf] at h
    | some w => simp [hf] at h; subst h; simp [hmono last (by simp) w hf]
  | cons x xs ih =>
    cases hf : f x with
    | some w =>
      simp only [List.cons_append, List.findSome?_cons, hf, Option.some.injEq] at h ⊢
      subst h
      simp [hmono x (by simp) w hf]
    | none =>
      simp only [List.cons_append, List.findSome?_cons, hf] at h ⊢
      simp only [hnone x (by simp) hf]
      exact ih h (fun y hy => hmono y (List.mem_cons_of_mem _ hy)) (fun y hy => hnone y (List.mem_cons_of_mem _ hy))

theorem findSome?_last {α β : Type} (g : α → Option β) (xs : List α) (last : α) (v : β)
    (hx : ∀ x ∈ xs, g x = none ∨ g x = some v) (hl : g last = some v) :
    (xs ++ [last]).findSome? g = some v := by
  induction xs with
  | nil => simp [hl]
  | cons x xs ih =>
    simp only [List.cons_append, List.findSome?_cons]
    rcases hx x (by simp) with h | h
    · simp only [h]; exact ih (fun y hy => hx y (by simp [hy]))
    · simp [h]

/-! ### sorting keys -/

theorem leCodes_trans : ∀ a b c : List Nat, leCodes a b = true → leCodes b c = true → leCodes a c = true
  | [], _, _, _, _ => by simp [leCodes]
  | _ :: _, [], _, h, _ => by simp [leCodes] at h
  | _ :: _, _ :: _, [], _, h => by simp [leCodes] at h
  | a :: as, b :: bs, c :: cs, h1, h2 => by
    simp only [leCodes, Bool.or_eq_true, decide_eq_true_eq, Bool.and_eq_true, beq_iff_eq] at h1 h2 ⊢
    rcases h1 with h1 | ⟨h1, h1'⟩ <;> rcases h2 with h2 | ⟨h2, h2'⟩
    · left; omega
    · left; omega
    · left; omega
    · right; exact ⟨by omega, leCodes_trans as bs cs h1' h2'⟩

theorem leCodes_total : ∀ a b : List Nat, (leCodes a b || leCodes b a) = true
  | [], _ => by simp [leCodes]
  | _ :: _, [] => by simp [leCodes]
  | a :: as, b :: bs => by
    have ih := leCodes_total as bs
    simp only [leCodes, Bool.or_eq_true, decide_eq_true_eq, Bool.and_eq_true, beq_iff_eq] at ih ⊢
    by_cases h1 : a < b
    · exact Or.inl (Or.inl h1)
    · by_cases h2 : b < a
      · exact Or.inr (Or.inl h2)
      · have : a = b := by omega
        rcases ih with ih | ih
        · exact Or.inl (Or.inr ⟨this, ih⟩)
        · exact Or.inr (Or.inr ⟨this.symm, ih⟩)

theorem keyLe_trans (a b c : Key) : keyLe a b = true → keyLe b c = true → keyLe a c = true := leCodes_trans _ _ _
theorem keyLe_total (a b : Key) : keyLe a b = true ∨ keyLe b a = true := by
  have := leCodes_total (a.toList.map Char.toNat) (b.toList.map Char.toNat)
  simpa [keyLe] using this

theorem insertKey_perm (k : Key) (l : List Key) : (insertKey k l).Perm (k :: l) := by
  induction l with
  | nil => simp [insertKey]
  | cons a r ih =>
    simp only [insertKey]
    split
    · exact List.Perm.refl _
    · exact (List.Perm.cons a ih).trans (List.Perm.swap k a r)

theorem sortKeys_perm (ks : List Key) : (sortKeys ks).Perm ks := by
  induction ks with
  | nil => simp [sortKeys]
  | cons k r ih => exact (insertKey_perm k _).trans (List.Perm.cons k ih)

theorem mem_sortKeys (k : Key) (ks : List Key) : k ∈ sortKeys ks ↔ k ∈ ks := (sortKeys_perm ks).mem_iff

theorem insertKey_pairwise (k : Key) (l : List Key) (h : l.Pairwise fun a b => keyLe a b = true) :
    (insertKey k l).Pairwise fun a b => keyLe a b = true := by
  induction l with
  | nil => simp [insertKey]
  | cons a r ih =>
    simp only [insertKey]
    have ⟨h1, h2⟩ := List.pairwise_cons.mp h
    split
    · rename_i hka
      refine List.pairwise_cons.mpr ⟨?_, h⟩
      intro b hb
      rcases List.mem_cons.mp hb with rfl | hb
      · exact hka
      · exact keyLe_trans _ _ _ hka (h1 b hb)
    · rename_i hka
      have hak : keyLe a k = true := by
        rcases keyLe_total k a with h' | h'
        · exact absurd h' hka
        · exact h'
      refine List.pairwise_cons.mpr ⟨?_, ih h2⟩
      intro b hb
      rcases List.mem_cons.mp ((insertKey_perm k r).mem_iff.mp hb) with rfl | hb
      · exact hak
      · exact h1 b hb

theorem sortKeys_pairwise (ks : List Key) : (sortKeys ks).Pairwise fun a b => keyLe a b = true := by
  induction ks with
  | nil => simp [sortKeys]
  | cons k r ih => exact insertKey_pairwise k _ ih

/-! ### steps -/

@[simp] theorem step_ps (s : Sys) (op : Op) : (step s op).1.ps = s.ps := by
  cases op <;> simp only [step, load, define]
  · split
    · rfl
    · split <;> rfl
  · split <;> rfl

@[simp] theorem step_length (s : Sys) (op : Op) : (step s op).1.es.length = s.es.length := by
  cases op <;> simp only [step, load, define]
  · split
    · rfl
    · split <;> simp
  · split <;> simp

theorem run_cons (s : Sys) (op : Op) (ops : List Op) :
    run s (op :: ops) = ((run (step s op).1 ops).1, (step s op).2 :: (run (step s op).1 ops).2) := rfl

@[simp] theorem run_ps (s : Sys) (ops : List Op) : (run s ops).1.ps = s.ps := by
  induction ops generalizing s with
  | nil => rfl
  | cons op ops ih => rw [run_cons]; simp [ih]

@[simp] theorem run_length (s : Sys) (ops : List Op) : (run s ops).1.es.length = s.es.length := by
  induction ops generalizing s with
  | nil => rfl
  | cons op ops ih => rw [run_cons]; simp [ih]

/-- a lookup changes no binding of any loader (it can only leave a placeholder) -/
theorem load_bound (s : Sys) (l : Nat) (n : Name) (l' : Nat) (k' : Key) :
    bound (load s l n).1 l' k' = bound s l' k' := by
  unfold load
  split
  · rfl
  · split
    · cases h : bound s l' k' with
      | none => exact bound_setEnts_setEntry_none s l' l k' (canon n) none h (Or.inl rfl)
      | some v => exact bound_setEnts_setEntry_mono s l' l k' (canon n) none v h
    · rfl
    · rfl

/-- values are never overwritten: a binding survives every operation -/
theorem bound_step_mono (s : Sys) (op : Op) (l : Nat) (k : Key) (v : V) (h : bound s l k = some v) :
    bound (step s op).1 l k = some v := by
  cases op with
  | load l' n => simp only [step]; rw [load_bound]; exact h
  | define l' n v' =>
    simp only [step, define]
    split
    · rename_i es' heq
      have : es' = (setEntry (s.ents l') (canon n) (some v')).1 := by rw [heq]
      rw [this]; exact bound_setEnts_setEntry_mono s l l' k (canon n) _ v h
    · exact h
    · exact h
    · exact h
  | has _ _ => exact h
  | get _ _ => exact h
  | discover _ _ => exact h

/-- an unbound name of a loader stays unbound under every operation except a definition of that name in that loader -/
theorem bound_step_none (s : Sys) (op : Op) (l : Nat) (k : Key) (h : bound s l k = none)
    (hop : ∀ n v, op = .define l n v → canon n ≠ k) : bound (step s op).1 l k = none := by
  cases op with
  | load l' n => simp only [step]; rw [load_bound]; exact h
  | define l' n v' =>
    simp only [step, define]
    split
    · rename_i es' heq
      have : es' = (setEntry (s.ents l') (canon n) (some v')).1 := by rw [heq]
      rw [this]
      apply bound_setEnts_setEntry_none s l l' k (canon n) _ h
      by_cases hl : l = l'
      · subst hl; exact Or.inr (Or.inr (fun hk => hop n v' rfl hk.symm))
      · exact Or.inr (Or.inl hl)
    · exact h
    · exact h
    · exact h
  | has _ _ => exact h
  | get _ _ => exact h
  | discover _ _ => exact h

theorem bound_run_mono (s : Sys) (ops : List Op) (l : Nat) (k : Key) (v : V) (h : bound s l k = some v) :
    bound (run s ops).1 l k = some v := by
  induction ops generalizing s with
  | nil => exact h
  | cons op ops ih => rw [run_cons]; exact ih _ (bound_step_mono s op l k v h)

theorem bound_run_none (s : Sys) (ops : List Op) (l : Nat) (k : Key) (h : bound s l k = none)
    (hop : ∀ op ∈ ops, ∀ n v, op = .define l n v → canon n ≠ k) : bound (run s ops).1 l k = none := by
  induction ops generalizing s with
  | nil => exact h
  | cons op ops ih =>
    rw [run_cons]
    exact ih _ (bound_step_none s op l k h (hop op (by simp))) (fun o ho => hop o (by simp [ho]))

/-- defining an unbound name of a valid loader binds it there and nowhere else -/
theorem define_unbound (s : Sys) (l : Nat) (n : Name) (v : V) (hl : l < s.es.length) (h : bound s l (canon n) = none) :
    (define s l n v).2 = .ok ∧ bound (define s l n v).1 l (canon n) = some v ∧
    ∀ l' k', (l' ≠ l ∨ k' ≠ canon n) → bound (define s l n v).1 l' k' = bound s l' k' := by
  have hs := setEntry_unbound (s.ents l) (canon n) v h
  unfold define
  rw [hs]
  refine ⟨rfl, ?_, ?_⟩
  · simp only [bound, ents_setEnts, hl, and_self, if_true, lk_put_same]; rfl
  · intro l' k' hne
    simp only [bound, ents_setEnts]
    split
    · rename_i hc; obtain ⟨rfl, _⟩ := hc
      rcases hne with hne | hne
      · exact absurd rfl hne
      · rw [lk_put_other hne]
    · rfl

/-! ### well-formed states: every entry map has unique keys (a Go map cannot hold a key twice) -/

def WF (s : Sys) : Prop := ∀ e ∈ s.es, (keysOf e).Nodup

theorem WF_init (ps : List (Option Nat)) : WF (Sys.init ps) := by
  intro e he
  simp [Sys.init] at he
  obtain ⟨_, _, rfl⟩ := he
  simp [keysOf]

theorem WF_ents (s : Sys) (h : WF s) (l : Nat) : (keysOf (s.ents l)).Nodup := by
  unfold Sys.ents
  rw [List.getD_eq_getElem?_getD]
  cases hl : s.es[l]? with
  | none => simp [keysOf]
  | some e => exact h e (List.mem_of_getElem? hl)

theorem WF_setEnts (s : Sys) (h : WF s) (l : Nat) (e : Ents) (he : (keysOf e).Nodup) : WF (s.setEnts l e) := by
  intro e' he'
  simp only [Sys.setEnts] at he'
  rcases List.mem_or_eq_of_mem_set he' with h1 | rfl
  · exact h _ h1
  · exact he

theorem WF_step (s : Sys) (op : Op) (h : WF s) : WF (step s op).1 := by
  cases op with
  | load l n =>
    simp only [step, load]
    split
    · exact h
    · split
      · exact WF_setEnts s h l _ (setEntry_keys_nodup _ _ _ (WF_ents s h l))
      · exact h
      · exact h
  | define l n v =>
    simp only [step, define]
    split
    · rename_i es' heq
      have : es' = (setEntry (s.ents l) (canon n) (some v)).1 := by rw [heq]
      rw [this]; exact WF_setEnts s h l _ (setEntry_keys_nodup _ _ _ (WF_ents s h l))
    · exact h
    · exact h
    · exact h
  | has _ _ => exact h
  | get _ _ => exact h
  | discover _ _ => exact h

theorem WF_run (s : Sys) (ops : List Op) (h : WF s) : WF (run s ops).1 := by
  induction ops generalizing s with
  | nil => exact h
  | cons op ops ih => rw [run_cons]; exact ih _ (WF_step s op h)

/-! ### discovery -/

theorem mem_ownAdded (s : Sys) (h : WF s) (l : Nat) (found : List Key) (p : Key → Bool) (k : Key) :
    k ∈ ownAdded s.es l found p ↔ (bound s l k).isSome = true ∧ k ∉ found ∧ p k = true := by
  have hn := WF_ents s h l
  unfold ownAdded
  simp only [List.mem_filterMap, Prod.exists]
  constructor
  · rintro ⟨k', e, hmem, hif⟩
    split at hif
    · rename_i hc
      simp only [Option.some.injEq] at hif; subst hif
      simp only [Bool.and_eq_true, Bool.not_eq_true', List.contains_eq_mem, decide_eq_false_iff_not] at hc
      obtain ⟨⟨h1, h2⟩, h3⟩ := hc
      refine ⟨?_, h2, h3⟩
      have := (mem_iff_lk hn).mp hmem
      simp only [bound, Sys.ents] at this ⊢
      rw [this]
      cases e <;> simp_all
    · cases hif
  · rintro ⟨h1, h2, h3⟩
    simp only [bound] at h1
    cases hlk : lk k (s.ents l) with
    | none => simp [hlk] at h1
    | some o =>
      cases o with
      | none => simp [hlk] at h1
      | some v =>
        refine ⟨k, some v, (mem_iff_lk hn).mpr hlk, ?_⟩
        simp [h2, h3]

theorem ownAdded_nodup (s : Sys) (h : WF s) (l : Nat) (found : List Key) (p : Key → Bool) :
    (ownAdded s.es l found p).Nodup := by
  have hn := WF_ents s h l
  unfold ownAdded
  unfold Sys.ents keysOf at hn
  generalize s.es.getD l [] = es at hn
  induction es with
  | nil => simp
  | cons hd t ih =>
    obtain ⟨k, e⟩ := hd
    simp only [List.map_cons, List.nodup_cons] at hn
    simp only [List.filterMap_cons]
    split
    · exact ih hn.2
    · rename_i k' hk'
      split at hk'
      · simp only [Option.some.injEq] at hk'; subst hk'
        refine List.nodup_cons.mpr ⟨?_, ih hn.2⟩
        intro hmem
        simp only [List.mem_filterMap, Prod.exists] at hmem
        obtain ⟨k2, e2, hm, hif⟩ := hmem
        split at hif
        · simp only [Option.some.injEq] at hif; subst hif
          exact hn.1 (List.mem_map_of_mem (f := fun x => x.1) hm)
        · cases hif
      · cases hk'

theorem mem_discC (s : Sys) (h : WF s) (p : Key → Bool) (ch : List Nat) (k : Key) :
    k ∈ discC s.es p ch ↔ p k = true ∧ ∃ a ∈ ch, (bound s a k).isSome = true := by
  induction ch with
  | nil => simp [discC]
  | cons l anc ih =>
    have hmem : k ∈ discC s.es p (l :: anc) ↔ k ∈ discC s.es p anc ∨ k ∈ ownAdded s.es l (discC s.es p anc) p := by
      simp only [discC]
      split
      · rename_i he
        simp only [List.isEmpty_iff] at he
        simp [he]
      · simp [mem_sortKeys]
    rw [hmem, mem_ownAdded s h, ih]
    constructor
    · rintro (⟨h1, a, ha, h2⟩ | ⟨h1, _, h3⟩)
      · exact ⟨h1, a, List.mem_cons_of_mem _ ha, h2⟩
      · exact ⟨h3, l, by simp, h1⟩
    · rintro ⟨h1, a, ha, h2⟩
      by_cases hc : ∃ a ∈ anc, (bound s a k).isSome = true
      · exact Or.inl ⟨h1, hc⟩
      · rcases List.mem_cons.mp ha with rfl | ha
        · exact Or.inr ⟨h2, fun hf => hc hf.2, h1⟩
        · exact absurd ⟨a, ha, h2⟩ hc

theorem discC_nodup (s : Sys) (h : WF s) (p : Key → Bool) (ch : List Nat) : (discC s.es p ch).Nodup := by
  induction ch with
  | nil => simp [discC]
  | cons l anc ih =>
    simp only [discC]
    split
    · exact ih
    · refine ((sortKeys_perm _).nodup_iff).mpr (List.nodup_append.mpr ⟨ih, ownAdded_nodup s h l _ p, ?_⟩)
      intro a ha b hb hab
      subst hab
      exact ((mem_ownAdded s h l _ p a).mp hb).2.1 ha

theorem discC_sorted (s : Sys) (p : Key → Bool) (ch : List Nat) :
    (discC s.es p ch).Pairwise fun a b => keyLe a b = true := by
  induction ch with
  | nil => simp [discC]
  | cons l anc ih =>
    simp only [discC]
    split
    · exact ih
    · exact sortKeys_pairwise _

/-! ### letter case -/

theorem lowerChar_idem (c : Char) : lowerChar (lowerChar c) = lowerChar c :=
  Pcore.UnicodeCase.toLower_idem Pcore.Generated.caseRanges Pcore.Generated.caseRanges_lowerOK c

theorem lower_append (a b : String) : lower (a ++ b) = lower a ++ lower b := by
  apply String.toList_inj.mp
  simp [lower, String.toList_append, String.toList_ofList]

theorem lower_idem (a : String) : lower (lower a) = lower a := by
  apply String.toList_inj.mp
  simp [lower, String.toList_ofList, lowerChar_idem]

end Pcore.LoaderSeq
