import Pcore.Proofs.FilesTypesetChild
/-!
C15, names whose PARENT exists, through a module's loader in the default topology: `Mod::A::B` is requested, it has no file,
`Mod::A` has one below the module.  The global loader misses completely; the module loader's parent search loads
`Mod::A` (reads its file, defines it — the module loader is the context's defining loader) and, `Mod::A` being no type
set, `Mod::A::B` stays absent: two placeholders (global, module).  A defective `Mod::A` file is the error of the lookup of
`Mod::A::B`.
-/
namespace Pcore.Files

/-- after the parent has been cached in loader `l`, the child is quiet there -/
theorem quietAnc_child_l {cfg : Cfg} {l : Lid} {s s2 : St} {name : Name} (hqual : qualified name = true)
    (hqa : QuietAnc cfg l s name.dropLast) (hvalid : l.moduleName = "" ∨ (partsOf name).isSome)
    (hfresh : s2.get l (keyOf name) = none)
    (hsame : ∀ k, k ≠ keyOf name.dropLast → k ≠ keyOf name → s2.get l k = s.get l k)
    (hpar : s2.get l (keyOf name.dropLast) ≠ none) : QuietAnc cfg l s2 name := by
  have hlen : name.length ≥ 2 := by simpa [qualified] using hqual
  have hdl : name.dropLast.length = name.length - 1 := List.length_dropLast
  have hpne : name.dropLast ≠ [] := by
    intro h; rw [h] at hdl; simp at hdl; omega
  have htake : name.take 1 = name.dropLast.take 1 := (take_one_prefix hpne (List.dropLast_prefix name)).symm
  refine ⟨hfresh, hvalid, ?_, ?_⟩
  · rw [htake]
    rcases hqa.init with h | h | h
    · exact Or.inl h
    · exact Or.inr (Or.inl h)
    · refine Or.inr (Or.inr ?_)
      by_cases hk : keyOf (name.dropLast.take 1) = keyOf name.dropLast
      · rw [hk]; exact hpar
      · rw [hsame _ hk (keyOf_ne_of_length (by simp; omega))]; exact h
  · intro nm hne hp hneq
    have hp' := proper_prefix_dropLast hp hneq
    by_cases heq : nm = name.dropLast
    · left; rw [heq]; exact hpar
    · rcases hqa.ancestors nm hne hp' heq with h | h
      · left
        have hl := length_lt_of_proper_prefix hp' heq
        rw [hsame _ (keyOf_ne_of_length (by omega)) (keyOf_ne_of_length (by omega))]
        exact h
      · exact Or.inr h

/-- the child is absent everywhere, its parent has a plain file below the module that defines the parent -/
theorem ancestor_module_good (cfg : Cfg) (mod : String) (hv : cfg.via = .m mod) (hflat : cfg.flat = false)
    (name : Name) (hqual : qualified name = true) (s : St) (m : Nat) (hfuel : 3 * name.length ≤ m + 8)
    (hsys : sysLoad name = none)
    (hqg : QuietAnc cfg .g s name) (hig : idx cfg .g (keyOf name) = [])
    (hroute : Routed (.m mod) name) (hroutep : Routed (.m mod) name.dropLast)
    (hvalid : (partsOf name).isSome)
    (hfresh : s.get (.m mod) (keyOf name) = none) (hi : idx cfg (.m mod) (keyOf name) = [])
    (hqa : QuietAnc cfg (.m mod) s name.dropLast)
    (p : Path) (ps : List Path) (hip : idx cfg (.m mod) (keyOf name.dropLast) = p :: ps)
    (b : Body) (d : Def) (hb : bodyAt cfg.tree p = some b) (hd : definedBy b name.dropLast = some d)
    (hk : d.kind ≠ .typeset) :
    loadS (m+13) cfg s name =
      (.notfound, (((((s.put .g (keyOf name) none).put (.m mod) (keyOf name.dropLast) none).addRead p).put (.m mod)
        (keyOf name.dropLast) (some d)).put (.m mod) (keyOf name) none)) := by
  have hlen : name.length ≥ 2 := by simpa [qualified] using hqual
  have hne : name ≠ [] := by intro h; rw [h] at hlen; simp at hlen
  have hdl : name.dropLast.length = name.length - 1 := List.length_dropLast
  have hpne : name.dropLast ≠ [] := by
    intro h; rw [h] at hdl; simp at hdl; omega
  have hgm : ∀ k0 k1 : Key, (Lid.g, k0) ≠ (Lid.m mod, k1) := by intro _ _ h; cases h
  have hmg : ∀ k0 k1 : Key, (Lid.m mod, k0) ≠ (Lid.g, k1) := by intro _ _ h; cases h
  have hkne : keyOf name.dropLast ≠ keyOf name := keyOf_ne_of_length (by omega)
  have hfg := find_miss cfg .g s name hne hqg hig (m+10) (by omega)
  -- the state after the global loader's miss
  let s0 := s.put .g (keyOf name) none
  have hqa0 : QuietAnc cfg (.m mod) s0 name.dropLast := quietAnc_put_other hqa (by intro h; cases h) _ _
  have hinst := instantiate_good cfg (m+2) (.m mod) hv name.dropLast p ps s0 b d hb hd hk hqa0.fresh
  let s2 := ((s0.put (.m mod) (keyOf name.dropLast) none).addRead p).put (.m mod) (keyOf name.dropLast) (some d)
  have hfresh2 : s2.get (.m mod) (keyOf name) = none := by
    show (((s0.put (.m mod) _ none).addRead p).put (.m mod) _ _).get (.m mod) _ = none
    rw [get_put, if_neg (by intro h; injection h with _ h2; exact hkne h2.symm), get_addRead, get_put,
      if_neg (by intro h; injection h with _ h2; exact hkne h2.symm)]
    show (s.put .g _ none).get (.m mod) _ = none
    rw [get_put, if_neg (hmg _ _)]; exact hfresh
  have hsame : ∀ k, k ≠ keyOf name.dropLast → k ≠ keyOf name → s2.get (.m mod) k = s.get (.m mod) k := by
    intro k hk1 _
    show (((s0.put (.m mod) _ none).addRead p).put (.m mod) _ _).get (.m mod) k = _
    rw [get_put, if_neg (by intro h; injection h with _ h2; exact hk1 h2), get_addRead, get_put,
      if_neg (by intro h; injection h with _ h2; exact hk1 h2)]
    show (s.put .g _ none).get (.m mod) _ = _
    rw [get_put, if_neg (hmg _ _)]
  have hpar : s2.get (.m mod) (keyOf name.dropLast) ≠ none := by
    show (((s0.put (.m mod) _ none).addRead p).put (.m mod) _ _).get (.m mod) _ ≠ none
    rw [get_put, if_pos rfl]; intro h; cases h
  have hq2 : QuietAnc cfg (.m mod) s2 name := quietAnc_child_l hqual hqa (Or.inr hvalid) hfresh2 hsame hpar
  have hdd := dropLast_proper hpne
  have hps2 := parentSearch_miss cfg (.m mod) s2 name name.dropLast.dropLast hq2
    (hdd.1.trans (List.dropLast_prefix name))
    (by
      intro h
      have := congrArg List.length h
      rw [List.length_dropLast, List.length_dropLast] at this
      omega)
    (m+8) (by rw [List.length_dropLast, List.length_dropLast]; omega)
  have hps : parentSearch (m+9) cfg (.m mod) name name.dropLast s0 = .ok none s2 := by
    rw [parentSearch_ne _ _ _ _ _ hpne]
    simp only [bind, getSt, hqa0.fresh, find_routed _ _ _ _ hroutep, findTail, hip, hinst]
    show (match s2.get (.m mod) (keyOf name) with
      | some te => pure (some te)
      | none => parentSearch (m+8) _ (.m mod) name name.dropLast.dropLast) s2 = _
    rw [hfresh2]
    exact hps2
  have hgfresh := hqg.fresh
  have hget0 : s0.get (.m mod) (keyOf name) = none := by
    show (s.put .g _ none).get (.m mod) _ = none
    rw [get_put, if_neg (hmg _ _)]; exact hfresh
  obtain ⟨mods, tree, via, gi, fl⟩ := cfg
  simp only at hv hflat
  subst hv
  subst hflat
  unfold loadS load
  simp only [loadEntry, fbLoadEntry, bind, pure, getSt, Bool.false_eq_true, if_false, hsys, hgfresh, hfg]
  simp only [setEntry, hgfresh, get_put, hfresh, hmg, if_false, find_routed _ _ _ _ hroute, findTail, hi, hqual, if_true]
  rw [show parentSearch (m+9) _ (.m mod) name name.dropLast (s.put .g (keyOf name) none) = _ from hps]
  simp only [hfresh2]
  rfl

/-- the child is absent everywhere, its parent's file below the module is defective: the CHILD's lookup reports the error
    that names the parent's file; nothing is bound but the placeholders -/
theorem ancestor_module_defective (cfg : Cfg) (mod : String) (hv : cfg.via = .m mod) (hflat : cfg.flat = false)
    (name : Name) (hqual : qualified name = true) (s : St) (m : Nat) (hfuel : 3 * name.length ≤ m + 8)
    (hsys : sysLoad name = none)
    (hqg : QuietAnc cfg .g s name) (hig : idx cfg .g (keyOf name) = [])
    (hroute : Routed (.m mod) name) (hroutep : Routed (.m mod) name.dropLast)
    (hfresh : s.get (.m mod) (keyOf name) = none) (hi : idx cfg (.m mod) (keyOf name) = [])
    (hpfresh : s.get (.m mod) (keyOf name.dropLast) = none)
    (p : Path) (ps : List Path) (hip : idx cfg (.m mod) (keyOf name.dropLast) = p :: ps)
    (b : Body) (hb : bodyAt cfg.tree p = some b) (hd : Defective b name.dropLast) :
    loadS (m+13) cfg s name =
      (.failed (defectErr p b), ((s.put .g (keyOf name) none).put (.m mod) (keyOf name.dropLast) none).addRead p) := by
  have hlen : name.length ≥ 2 := by simpa [qualified] using hqual
  have hne : name ≠ [] := by intro h; rw [h] at hlen; simp at hlen
  have hdl : name.dropLast.length = name.length - 1 := List.length_dropLast
  have hpne : name.dropLast ≠ [] := by
    intro h; rw [h] at hdl; simp at hdl; omega
  have hmg : ∀ k0 k1 : Key, (Lid.m mod, k0) ≠ (Lid.g, k1) := by intro _ _ h; cases h
  have hfg := find_miss cfg .g s name hne hqg hig (m+10) (by omega)
  let s0 := s.put .g (keyOf name) none
  have hpfresh0 : s0.get (.m mod) (keyOf name.dropLast) = none := by
    show (s.put .g _ none).get (.m mod) _ = none
    rw [get_put, if_neg (hmg _ _)]; exact hpfresh
  have hinst : instantiate (m+6) cfg (.m mod) name.dropLast (p :: ps) s0 = _ :=
    instantiate_defective cfg (m+4) (.m mod) name.dropLast p ps s0 b hb hd hpfresh0
  have hps : parentSearch (m+9) cfg (.m mod) name name.dropLast s0 =
      .fail (defectErr p b) ((s0.put (.m mod) (keyOf name.dropLast) none).addRead p) := by
    rw [parentSearch_ne _ _ _ _ _ hpne]
    simp only [bind, getSt, hpfresh0, find_routed _ _ _ _ hroutep, findTail, hip, hinst]
  have hgfresh := hqg.fresh
  obtain ⟨mods, tree, via, gi, fl⟩ := cfg
  simp only at hv hflat
  subst hv
  subst hflat
  unfold loadS load
  simp only [loadEntry, fbLoadEntry, bind, pure, getSt, Bool.false_eq_true, if_false, hsys, hgfresh, hfg]
  simp only [setEntry, hgfresh, get_put, hfresh, hmg, if_false, find_routed _ _ _ _ hroute, findTail, hi, hqual, if_true]
  rw [show parentSearch (m+9) _ (.m mod) name name.dropLast (s.put .g (keyOf name) none) = _ from hps]

end Pcore.Files
