import Pcore.Model.LatticeDen
/-! Helper lemmas about `inst` and its list helpers (used by C02, C01, C04). -/
namespace Pcore.Lat
variable (cfg : Cfg) (sfh : Bool)

theorem instAll_iff (e : Ty) (vs : List Val) :
    instAll cfg sfh e vs = true ↔ ∀ x ∈ vs, inst cfg sfh e x = true := by
  induction vs with
  | nil => unfold instAll; simp
  | cons v vs ih => unfold instAll; simp [ih]

theorem instEntries_iff (k x : Ty) (es : List (Val × Val)) :
    instEntries cfg sfh k x es = true ↔ ∀ e ∈ es, inst cfg sfh k e.1 = true ∧ inst cfg sfh x e.2 = true := by
  induction es with
  | nil => unfold instEntries; simp
  | cons e es ih => obtain ⟨a, b⟩ := e; unfold instEntries; simp [ih, and_assoc]

theorem instAny_iff (ts : List Ty) (v : Val) :
    instAny cfg sfh ts v = true ↔ ∃ t ∈ ts, inst cfg sfh t v = true := by
  induction ts with
  | nil => unfold instAny; simp
  | cons t ts ih => unfold instAny; simp [ih]

/-- the "last type repeats" walk, stated by positions -/
theorem instZip_iff (ts : List Ty) (vs : List Val) (hts : ts ≠ []) :
    instZip cfg sfh ts vs = true ↔
      ∀ (i : Nat) (t : Ty) (x : Val), ts[min i (ts.length - 1)]? = some t → vs[i]? = some x → inst cfg sfh t x = true := by
  induction vs generalizing ts with
  | nil => unfold instZip; simp
  | cons v vs ih =>
    match ts, hts with
    | [t], _ =>
      unfold instZip
      simp only [Bool.and_eq_true]
      rw [ih [t] (by simp)]
      constructor
      · rintro ⟨h0, h⟩ i t' x ht hx
        cases i with
        | zero => simp at ht hx; subst ht; subst hx; exact h0
        | succ j => simp at ht hx; exact h j t' x (by simp [ht]) hx
      · intro h
        refine ⟨h 0 t v (by simp) (by simp), ?_⟩
        intro i t' x ht hx
        exact h (i + 1) t' x (by simpa using ht) (by simpa using hx)
    | t :: t' :: ts', _ =>
      unfold instZip
      simp only [Bool.and_eq_true]
      rw [ih (t' :: ts') (by simp)]
      constructor
      · rintro ⟨h0, h⟩ i u x ht hx
        cases i with
        | zero => simp at ht hx; subst ht; subst hx; exact h0
        | succ j =>
          simp at hx
          apply h j u x _ hx
          have : min (j + 1) ((t :: t' :: ts').length - 1) = min j ((t' :: ts').length - 1) + 1 := by
            simp
          rw [this] at ht
          simpa using ht
      · intro h
        refine ⟨h 0 t v (by simp) (by simp), ?_⟩
        intro i u x ht hx
        apply h (i + 1) u x _ (by simpa using hx)
        have : min (i + 1) ((t :: t' :: ts').length - 1) = min i ((t' :: ts').length - 1) + 1 := by
          simp
        rw [this]; simpa using ht

end Pcore.Lat

namespace Pcore.Lat
variable (cfg : Cfg) (sfh : Bool)

/-! ### the Struct counting argument -/
def keyIs (n : String) (e : Val × Val) : Bool := keyIsStr n e.1

theorem keyIs_iff (n : String) (e : Val × Val) : keyIs n e = true ↔ e.1 = .str n := by
  unfold keyIs keyIsStr; cases h : e.1 <;> simp

/-- string keys of a hash value are pairwise different -/
def KeysNodup (es : List (Val × Val)) : Prop := ∀ n, es.countP (keyIs n) ≤ 1

theorem KeysNodup.tail {e : Val × Val} {es : List (Val × Val)} (h : KeysNodup (e :: es)) : KeysNodup es := by
  intro n; have := h n; rw [List.countP_cons] at this; omega

theorem hashGetW_none (n : String) (t : Ty) (es : List (Val × Val)) :
    hashGetW cfg sfh n t es = none ↔ es.countP (keyIs n) = 0 := by
  induction es with
  | nil => unfold hashGetW; simp
  | cons e es ih =>
    obtain ⟨k, v⟩ := e
    unfold hashGetW
    rw [List.countP_cons]
    have hk : keyIsStr n k = keyIs n (k, v) := rfl
    rw [hk]
    cases hh : keyIs n (k, v) <;> simp [ih]

theorem hashGetW_mem (n : String) (t : Ty) (es : List (Val × Val)) (hn : KeysNodup es)
    (e : Val × Val) (he : e ∈ es) (hk : e.1 = .str n) :
    hashGetW cfg sfh n t es = some (inst cfg sfh t e.2) := by
  induction es with
  | nil => cases he
  | cons e' es ih =>
    obtain ⟨k, v⟩ := e'
    unfold hashGetW
    have hkk : keyIsStr n k = keyIs n (k, v) := rfl
    rw [hkk]
    cases he with
    | head => have : keyIs n (k, v) = true := (keyIs_iff n _).2 hk
              simp [this]
    | tail _ he' =>
      have h1 := hn n
      rw [List.countP_cons] at h1
      have hpos : 0 < es.countP (keyIs n) := List.countP_pos_iff.2 ⟨e, he', (keyIs_iff n e).2 hk⟩
      have : keyIs n (k, v) = false := by
        cases hh : keyIs n (k, v) with
        | false => rfl
        | true => simp only [hh, if_true] at h1; omega
      simp [this]
      exact ih hn.tail he'

theorem hashGetW_some (n : String) (t : Ty) (es : List (Val × Val)) (b : Bool)
    (h : hashGetW cfg sfh n t es = some b) : ∃ e ∈ es, e.1 = .str n ∧ b = inst cfg sfh t e.2 := by
  induction es with
  | nil => unfold hashGetW at h; cases h
  | cons e' es ih =>
    obtain ⟨k, v⟩ := e'
    unfold hashGetW at h
    have hkk : keyIsStr n k = keyIs n (k, v) := rfl
    rw [hkk] at h
    cases hh : keyIs n (k, v) with
    | true =>
      simp [hh] at h
      exact ⟨(k, v), by simp, (keyIs_iff n _).1 hh, h.symm⟩
    | false =>
      simp [hh] at h
      obtain ⟨e, he, h1, h2⟩ := ih h
      exact ⟨e, by simp [he], h1, h2⟩

/-- sum over the members of the number of entries keyed by the member's name -/
def foundCount (ms : List Member) (es : List (Val × Val)) : Nat :=
  match ms with
  | [] => 0
  | m :: ms => es.countP (keyIs m.1) + foundCount ms es

/-- per-member condition of `StructType.IsInstance` -/
def MemberOK (es : List (Val × Val)) (m : Member) : Prop :=
  match hashGetW cfg sfh m.1 m.2.2 es with
  | none => m.2.1 = true
  | some b => b = true

theorem instStruct_iff (ms : List Member) (es : List (Val × Val)) (hn : KeysNodup es) (k : Nat) :
    instStruct cfg sfh ms es = some k ↔ (∀ m ∈ ms, MemberOK cfg sfh es m) ∧ k = foundCount ms es := by
  induction ms generalizing k with
  | nil => unfold instStruct; simp [foundCount]; exact eq_comm
  | cons m ms ih =>
    obtain ⟨n, o, t⟩ := m
    unfold instStruct
    rw [List.forall_mem_cons]
    simp only [foundCount]
    cases hg : hashGetW cfg sfh n t es with
    | none =>
      have h0 := (hashGetW_none cfg sfh n t es).1 hg
      have hm : MemberOK cfg sfh es (n, o, t) ↔ o = true := by simp [MemberOK, hg]
      rw [hm]
      simp only [h0, Nat.zero_add]
      cases o with
      | true => simp [ih]
      | false => simp
    | some b =>
      obtain ⟨e, he, hk, _⟩ := hashGetW_some cfg sfh n t es b hg
      have h1 : es.countP (keyIs n) = 1 := by
        have := hn n
        have hpos : 0 < es.countP (keyIs n) := List.countP_pos_iff.2 ⟨e, he, (keyIs_iff n e).2 hk⟩
        omega
      have hm : MemberOK cfg sfh es (n, o, t) ↔ b = true := by simp [MemberOK, hg]
      rw [hm]
      simp only [h1]
      cases b with
      | false => simp
      | true =>
        simp only [if_true, Option.map_eq_some_iff, true_and]
        constructor
        · rintro ⟨k', hk', rfl⟩
          obtain ⟨h2, h3⟩ := (ih k').1 hk'
          exact ⟨h2, by omega⟩
        · rintro ⟨h2, h3⟩
          refine ⟨foundCount ms es, (ih _).2 ⟨h2, rfl⟩, by omega⟩

theorem mem_unique_name {ms : List Member} (hnd : (ms.map (·.1)).Nodup) {m m' : Member}
    (hm : m ∈ ms) (hm' : m' ∈ ms) (hname : m.1 = m'.1) : m' = m := by
  induction ms with
  | nil => cases hm
  | cons a as iha =>
    simp only [List.map_cons, List.nodup_cons] at hnd
    cases hm with
    | head =>
      cases hm' with
      | head => rfl
      | tail _ h2 => exact absurd (by rw [hname]; exact List.mem_map_of_mem h2) hnd.1
    | tail _ h1 =>
      cases hm' with
      | head => exact absurd (by rw [← hname]; exact List.mem_map_of_mem h1) hnd.1
      | tail _ h2 => exact iha hnd.2 h1 h2

def keyIn (ms : List Member) (e : Val × Val) : Bool := ms.any (fun m => keyIs m.1 e)

theorem keyIs_unique {n n' : String} {e : Val × Val} (h : keyIs n e = true) (h' : keyIs n' e = true) : n = n' := by
  rw [keyIs_iff] at h h'; rw [h] at h'; cases h'; rfl

theorem foundCount_eq (ms : List Member) (es : List (Val × Val)) (hnd : (ms.map (·.1)).Nodup) :
    foundCount ms es = es.countP (keyIn ms) := by
  induction ms with
  | nil =>
    show 0 = _
    symm; apply List.countP_eq_zero.2; intro e _; simp [keyIn]
  | cons m ms ih =>
    simp only [List.map_cons, List.nodup_cons] at hnd
    rw [foundCount, ih hnd.2]
    -- disjoint predicates add up
    clear ih
    induction es with
    | nil => simp
    | cons e es ihe =>
      simp only [List.countP_cons]
      have hdis : keyIs m.1 e = true → keyIn ms e = false := by
        intro h1
        cases h2 : keyIn ms e with
        | false => rfl
        | true =>
          exfalso
          simp only [keyIn, List.any_eq_true] at h2
          obtain ⟨m', hm', hk'⟩ := h2
          have := keyIs_unique h1 hk'
          exact hnd.1 (by rw [this]; exact List.mem_map_of_mem hm')
      have hor : keyIn (m :: ms) e = (keyIs m.1 e || keyIn ms e) := by simp [keyIn]
      rw [hor]
      cases h1 : keyIs m.1 e with
      | true => simp [hdis h1]; omega
      | false => simp; omega

/-- `StructType.IsInstance` says what the denotation says: every present key is declared with a conforming value, every
    required member is present (names of the Struct pairwise different, string keys of the hash pairwise different) -/
theorem instStruct_den (ms : List Member) (es : List (Val × Val)) (hn : KeysNodup es)
    (hnd : (ms.map (·.1)).Nodup) :
    instStruct cfg sfh ms es = some es.length ↔
      (∀ e ∈ es, ∃ m, ∃ (_ : m ∈ ms), e.1 = .str m.1 ∧ inst cfg sfh m.2.2 e.2 = true) ∧
      (∀ m ∈ ms, m.2.1 = false → ∃ e ∈ es, e.1 = .str m.1) := by
  rw [instStruct_iff cfg sfh ms es hn, foundCount_eq ms es hnd]
  constructor
  · rintro ⟨hok, hc⟩
    have hall : ∀ e ∈ es, keyIn ms e = true := List.countP_eq_length.1 hc.symm
    constructor
    · intro e he
      have := hall e he
      simp only [keyIn, List.any_eq_true] at this
      obtain ⟨m, hm, hk⟩ := this
      have hk' := (keyIs_iff _ _).1 hk
      refine ⟨m, hm, hk', ?_⟩
      have h1 := hok m hm
      rw [MemberOK, hashGetW_mem cfg sfh m.1 m.2.2 es hn e he hk'] at h1
      exact h1
    · intro m hm hopt
      have h1 := hok m hm
      rw [MemberOK] at h1
      cases hg : hashGetW cfg sfh m.1 m.2.2 es with
      | none => rw [hg] at h1; simp [hopt] at h1
      | some b =>
        obtain ⟨e, he, hk, _⟩ := hashGetW_some cfg sfh _ _ _ _ hg
        exact ⟨e, he, hk⟩
  · rintro ⟨hdecl, hreq⟩
    constructor
    · intro m hm
      rw [MemberOK]
      cases hg : hashGetW cfg sfh m.1 m.2.2 es with
      | none =>
        cases ho : m.2.1 with
        | true => rfl
        | false =>
          obtain ⟨e, he, hk⟩ := hreq m hm ho
          have := (hashGetW_none cfg sfh _ _ _).1 hg
          have hpos : 0 < es.countP (keyIs m.1) := List.countP_pos_iff.2 ⟨e, he, (keyIs_iff _ e).2 hk⟩
          omega
      | some b =>
        obtain ⟨e, he, hk, hb⟩ := hashGetW_some cfg sfh _ _ _ _ hg
        obtain ⟨m', hm', hk', hi⟩ := hdecl e he
        rw [hk] at hk'
        have hname : m.1 = m'.1 := by injection hk'
        have hmm : m' = m := mem_unique_name hnd hm hm' hname
        subst hmm
        rw [hb]; exact hi
    · symm
      apply List.countP_eq_length.2
      intro e he
      obtain ⟨m, hm, hk, _⟩ := hdecl e he
      simp only [keyIn, List.any_eq_true]
      exact ⟨m, hm, (keyIs_iff _ _).2 hk⟩

end Pcore.Lat
