import Pcore.Proofs.FilesTypesetDep
/-!
C15, a module's OWN name (`Mod`, unqualified) through the dependency loader in the default topology — the lookup that loads
`modules/mod/types/init_typeset.pp`.  An unqualified name is not routed: `dependencyLoader.find` offers it to every module
loader in turn; each asks the global loader first (a miss and a placeholder the first time, the placeholder afterwards);
a module of another name refuses it (placeholder); the module of that name takes the `init_typeset` route and resolves the
type set into the dependency loader, answering its own placeholder — so the loop goes on over the remaining modules and
ends with the entry the dependency loader holds by then.
-/
namespace Pcore.Files

theorem putEnt_same (l : Lid) (k : Key) (e : Entry) : ∀ xs : List ((Lid × Key) × Entry),
    (match xs.find? (fun x => x.1 = (l, k)) with
      | some x => some x.2
      | none => none) = some e → putEnt l k e xs = xs
  | [], h => by simp at h
  | x :: xs, h => by
    unfold putEnt
    by_cases hx : x.1 = (l, k)
    · simp only [List.find?, hx, decide_true] at h
      simp only [hx, if_true]
      obtain ⟨x1, x2⟩ := x
      simp only at hx h
      simp only [Option.some.injEq] at h
      rw [hx, h]
    · simp only [List.find?, hx, decide_false] at h
      simp only [hx, if_false]
      rw [putEnt_same l k e xs h]

theorem put_same (s : St) (l : Lid) (k : Key) (e : Entry) (h : s.get l k = some e) : s.put l k e = s := by
  unfold St.get at h
  unfold St.put
  rw [putEnt_same l k e s.ents h]

/-- placeholders for `key` in the loaders of the modules `ms` -/
def skipMods (key : Key) : List String → St → St
  | [], σ => σ
  | m :: ms, σ => skipMods key ms (σ.put (.m m) key none)

theorem skipMods_get_other (key : Key) (l : Lid) (k : Key) : ∀ (ms : List String) (σ : St),
    (∀ m ∈ ms, (l, k) ≠ (Lid.m m, key)) → (skipMods key ms σ).get l k = σ.get l k
  | [], _, _ => rfl
  | m :: ms, σ, h => by
    simp only [skipMods]
    rw [skipMods_get_other key l k ms _ (fun x hx => h x (List.mem_cons_of_mem _ hx)), get_put,
      if_neg (h m List.mem_cons_self)]

theorem skipMods_reads (key : Key) : ∀ (ms : List String) (σ : St), (skipMods key ms σ).reads = σ.reads
  | [], _ => rfl
  | m :: ms, σ => by simp only [skipMods]; rw [skipMods_reads key ms]; rfl

section
variable (cfg : Cfg) (mod a : String)

/-- the global loader either holds the placeholder of the name already, or has nothing and no file for it -/
def GState (σ : St) : Prop :=
  σ.get .g [mod] = some none ∨ (σ.get .g [mod] = none ∧ idx cfg .g [mod] = [])

variable {cfg mod a}

/-- a module of ANOTHER name is offered the unqualified name: the global loader first, then a refusal — placeholders -/
theorem other_step (hflat : cfg.flat = false) (m : String) (hm : m ≠ mod) (hmg : isGlobalMod m = false)
    (hkey1 : keyOf [a] = [mod]) (hparts : partsOf [a] = some [mod]) (hsys : sysLoad [a] = none)
    (σ : St) (hg : GState cfg mod σ) (hget : σ.get (.m m) [mod] = none) (n : Nat) :
    fbLoadEntry (n+4) cfg (.m m) [a] σ = .ok (some none) ((σ.put .g [mod] none).put (.m m) [mod] none) := by
  have hq1 : qualified [a] = false := rfl
  have hne : (Lid.m m, ([mod] : Key)) ≠ (Lid.g, [mod]) := by intro h; cases h
  have hhead : some (Lid.m m).moduleName ≠ ([mod] : Key).head? := by
    intro h; simp [Lid.moduleName] at h; exact hm h
  have hfind : ∀ σ' : St, find (n+3) cfg (.m m) [a] σ' = .ok none σ' := by
    intro σ'
    simp only [find, hq1, bind, pure, partsM, hparts, Bool.false_eq_true, if_false]
    rw [if_pos (by simp [Lid.moduleName, hmg])]
    simp only [if_pos hhead]
  rcases hg with hg | ⟨hg, hig⟩
  · simp only [fbLoadEntry, bind, pure, getSt, hflat, Bool.false_eq_true, if_false, hsys, hkey1, hg, hget, hfind]
    simp only [setEntry, hget]
    rw [put_same σ .g [mod] none hg]
  · simp only [fbLoadEntry, find_g, findTail, bind, pure, getSt, hflat, Bool.false_eq_true, if_false, hsys, hkey1, hg, hig,
      hq1]
    simp only [setEntry, hg, get_put, hne, if_false, hget, hfind]

theorem gstate_after (σ : St) (l : Lid) (hl : l ≠ .g) (k : Key) (e : Entry) :
    GState cfg mod ((σ.put .g [mod] none).put l k e) := by
  left
  rw [get_put, if_neg (by intro h; injection h with h1 _; exact hl h1.symm), get_put, if_pos rfl]

/-- the loop over modules of other names, the global loader holding the placeholder -/
theorem dLoop_skip (hflat : cfg.flat = false) (hkey1 : keyOf [a] = [mod]) (hparts : partsOf [a] = some [mod])
    (hsys : sysLoad [a] = none) : ∀ (ms rest : List String) (σ : St) (f : Nat), ms.length + 5 ≤ f →
      (∀ m ∈ ms, m ≠ mod ∧ isGlobalMod m = false) → ms.Nodup → (∀ m ∈ ms, σ.get (.m m) [mod] = none) →
      σ.get .g [mod] = some none →
      dLoop f cfg (ms ++ rest) [a] σ = dLoop (f - ms.length) cfg rest [a] (skipMods [mod] ms σ)
  | [], rest, σ, f, _, _, _, _, _ => by simp [skipMods]
  | m :: ms, rest, σ, f, hf, hoth, hnd, hfresh, hg => by
    simp only [List.length_cons] at hf
    obtain ⟨f', rfl⟩ : ∃ f', f = f' + 1 := ⟨f - 1, by omega⟩
    obtain ⟨n, hn⟩ : ∃ n, f' = n + 4 := ⟨f' - 4, by omega⟩
    have hstep := other_step (cfg := cfg) (a := a) hflat m (hoth m List.mem_cons_self).1 (hoth m List.mem_cons_self).2 hkey1
      hparts hsys σ (Or.inl hg) (hfresh m List.mem_cons_self) n
    rw [put_same σ .g [mod] none hg] at hstep
    have hnd' := List.nodup_cons.mp hnd
    have hfresh' : ∀ x ∈ ms, (σ.put (.m m) [mod] none).get (.m x) [mod] = none := by
      intro x hx
      rw [get_put, if_neg (by
        intro h; injection h with h1 _; injection h1 with h2
        exact hnd'.1 (h2 ▸ hx))]
      exact hfresh x (List.mem_cons_of_mem _ hx)
    have hg' : (σ.put (.m m) [mod] none).get .g [mod] = some none := by
      rw [get_put, if_neg (by intro h; cases h)]; exact hg
    have ih := dLoop_skip hflat hkey1 hparts hsys ms rest (σ.put (.m m) [mod] none) f' (by omega)
      (fun x hx => hoth x (List.mem_cons_of_mem _ hx)) hnd'.2 hfresh' hg'
    simp only [List.cons_append, dLoop, bind, hn ▸ hstep, skipMods]
    rw [ih]
    congr 1
    simp only [List.length_cons]
    omega

/-- the module of that name: the `init_typeset` route, the type set is resolved into the dependency loader, the module
    loader answers its own placeholder -/
theorem mod_step (hv : cfg.via = .d) (hflat : cfg.flat = false) (hguard : cfg.guardInit = true)
    (hmods : cfg.mods.contains mod = true) (hmg : isGlobalMod mod = false)
    (hkey1 : keyOf [a] = [mod]) (hparts : partsOf [a] = some [mod]) (hsys : sysLoad [a] = none)
    (nm : Name) (ts : List String) (o : Path) (os : List Path) (σ : St) (hg : GState cfg mod σ) (k : Nat)
    (hk : 3 * (nm.length + 1) + ts.length ≤ k)
    (hi : idx cfg (.m mod) ["init_typeset"] = o :: os)
    (hb : bodyAt cfg.tree o = some (.typ .typeset nm ts)) (hkey : keyOf nm = [mod])
    (hgetm : σ.get (.m mod) [mod] = none) (hgetd : σ.get .d [mod] = none)
    (hhg : MemHyp cfg .g nm (((σ.put .g [mod] none).put (.m mod) [mod] none).addRead o) ts)
    (hhm : MemHyp cfg (.m mod) nm (((σ.put .g [mod] none).put (.m mod) [mod] none).addRead o) ts)
    (hfreshg : ∀ t ∈ ts, σ.get .g (keyOf (nm ++ [t])) = none)
    (hfreshm : ∀ t ∈ ts, σ.get (.m mod) (keyOf (nm ++ [t])) = none)
    (hfreshd : ∀ t ∈ ts, σ.get .d (keyOf (nm ++ [t])) = none) :
    fbLoadEntry (k+11) cfg (.m mod) [a] σ =
      .ok (some none) (typesetState3 mod [a] nm ts o (σ.put .g [mod] none)) := by
  have hmne : mod ≠ "" := by intro h; rw [h] at hmg; simp [isGlobalMod] at hmg
  have hq1 : qualified [a] = false := rfl
  have hmgk : ∀ k0 k1 : Key, (Lid.m mod, k0) ≠ (Lid.g, k1) := by intro _ _ h; cases h
  have hdgk : ∀ k0 k1 : Key, (Lid.d, k0) ≠ (Lid.g, k1) := by intro _ _ h; cases h
  have hne' : ∀ t, keyOf (nm ++ [t]) ≠ [mod] := by
    intro t h2
    rw [← hkey] at h2
    exact keyOf_ne_of_length (by simp) h2
  have hinst := instantiate_typeset_dep cfg mod hv hflat hmods hmne [a] nm ts o os (σ.put .g [mod] none) k hk hb
    (by rw [hkey, hkey1]) (by rw [hkey]; rfl)
    (by rw [hkey1, get_put, if_neg (hmgk _ _)]; exact hgetm) (by rw [hkey1, get_put, if_pos rfl])
    (by rw [hkey1, get_put, if_neg (hdgk _ _)]; exact hgetd) (by rw [hkey1]; exact hhg) (by rw [hkey1]; exact hhm)
    (fun t ht => by rw [get_put, if_neg (by intro h; injection h with _ h2; exact hne' t h2)]; exact hfreshg t ht)
    (fun t ht => by rw [get_put, if_neg (hmgk _ _)]; exact hfreshm t ht)
    (fun t ht => by rw [get_put, if_neg (hdgk _ _)]; exact hfreshd t ht)
  have hfind : find (k+10) cfg (.m mod) [a] (σ.put .g [mod] none) =
      .ok (some none) (typesetState3 mod [a] nm ts o (σ.put .g [mod] none)) := by
    have hhead : ¬ (some (Lid.m mod).moduleName ≠ ([mod] : Key).head?) := fun h => h rfl
    simp only [find, hq1, bind, pure, partsM, hparts, hi, hguard, Bool.false_eq_true, if_false]
    rw [if_pos (by simp [Lid.moduleName, hmg])]
    simp only [if_neg hhead, hinst, if_true]
  have hgetm' : (σ.put .g [mod] none).get (.m mod) [mod] = none := by
    rw [get_put, if_neg (hmgk _ _)]; exact hgetm
  rcases hg with hg | ⟨hg, hig⟩
  · have hsame := put_same σ .g [mod] none hg
    rw [hsame] at hfind hgetm' ⊢
    simp only [fbLoadEntry, bind, pure, getSt, hflat, Bool.false_eq_true, if_false, hsys, hkey1, hg, hgetm, hfind]
  · simp only [fbLoadEntry, find_g, findTail, bind, pure, getSt, hflat, Bool.false_eq_true, if_false, hsys, hkey1, hg, hig,
      hq1]
    simp only [setEntry, hg, get_put, hmgk, if_false, hgetm, hfind]

theorem defineMembers3_get_loader (nm : Name) (l' : Lid) (k0 : Key) (h1 : l' ≠ .g) (h2 : l' ≠ .m mod) (h3 : l' ≠ .d) :
    ∀ (ts : List String) (i : Nat) (σ : St), (defineMembers3 mod nm ts i σ).get l' k0 = σ.get l' k0
  | [], _, _ => rfl
  | t :: rest, i, σ => by
    simp only [defineMembers3]
    rw [defineMembers3_get_loader nm l' k0 h1 h2 h3 rest (i+1), get_put,
      if_neg (by intro h; injection h with h' _; exact h3 h'), get_put,
      if_neg (by intro h; injection h with h' _; exact h2 h'), get_put,
      if_neg (by intro h; injection h with h' _; exact h1 h')]

/-- from the module of that name to the end of the member list -/
theorem loop_from_mod (hv : cfg.via = .d) (hflat : cfg.flat = false) (hguard : cfg.guardInit = true)
    (hmods : cfg.mods.contains mod = true) (hmg : isGlobalMod mod = false)
    (hkey1 : keyOf [a] = [mod]) (hparts : partsOf [a] = some [mod]) (hsys : sysLoad [a] = none)
    (nm : Name) (ts : List String) (o : Path) (os : List Path) (σ : St) (hg : GState cfg mod σ) (k : Nat)
    (hk : 3 * (nm.length + 1) + ts.length ≤ k)
    (hi : idx cfg (.m mod) ["init_typeset"] = o :: os)
    (hb : bodyAt cfg.tree o = some (.typ .typeset nm ts)) (hkey : keyOf nm = [mod])
    (hgetm : σ.get (.m mod) [mod] = none) (hgetd : σ.get .d [mod] = none)
    (hhg : MemHyp cfg .g nm (((σ.put .g [mod] none).put (.m mod) [mod] none).addRead o) ts)
    (hhm : MemHyp cfg (.m mod) nm (((σ.put .g [mod] none).put (.m mod) [mod] none).addRead o) ts)
    (hfreshg : ∀ t ∈ ts, σ.get .g (keyOf (nm ++ [t])) = none)
    (hfreshm : ∀ t ∈ ts, σ.get (.m mod) (keyOf (nm ++ [t])) = none)
    (hfreshd : ∀ t ∈ ts, σ.get .d (keyOf (nm ++ [t])) = none)
    (after : List String) (hoth : ∀ m ∈ after, m ≠ mod ∧ isGlobalMod m = false) (hnd : after.Nodup)
    (hfa : ∀ m ∈ after, σ.get (.m m) [mod] = none) :
    dLoop (k + after.length + 13) cfg (mod :: after) [a] σ =
      .ok (some (some ⟨.typeset, nm⟩))
        (skipMods [mod] after (typesetState3 mod [a] nm ts o (σ.put .g [mod] none))) := by
  have hne' : ∀ t, [mod] ≠ keyOf (nm ++ [t]) := by
    intro t h2
    rw [← hkey] at h2
    exact keyOf_ne_of_length (by simp) h2.symm
  have hstep := mod_step hv hflat hguard hmods hmg hkey1 hparts hsys nm ts o os σ hg (k + after.length + 1) (by omega) hi hb
    hkey hgetm hgetd hhg hhm hfreshg hfreshm hfreshd
  let σ2 := typesetState3 mod [a] nm ts o (σ.put .g [mod] none)
  have hfa2 : ∀ m ∈ after, σ2.get (.m m) [mod] = none := by
    intro m hm
    have hmm : Lid.m m ≠ Lid.m mod := by intro h; injection h with h'; exact (hoth m hm).1 h'
    show (typesetState3 mod [a] nm ts o (σ.put .g [mod] none)).get (.m m) [mod] = none
    unfold typesetState3
    rw [get_put, if_neg (by intro h; cases h),
      defineMembers3_get_loader nm (.m m) [mod] (by intro h; cases h) hmm (by intro h; cases h), get_addRead, get_put,
      if_neg (by intro h; injection h with h' _; exact hmm h'), get_put, if_neg (by intro h; cases h)]
    exact hfa m hm
  have hg2 : σ2.get .g [mod] = some none := by
    show (typesetState3 mod [a] nm ts o (σ.put .g [mod] none)).get .g [mod] = some none
    unfold typesetState3
    rw [get_put, if_neg (by intro h; cases h), defineMembers3_get_other mod nm .g [mod] ts 0 _ (fun t _ => hne' t),
      get_addRead, get_put, if_neg (by intro h; cases h), get_put, if_pos rfl]
  have hskip := dLoop_skip (cfg := cfg) (a := a) hflat hkey1 hparts hsys after [] σ2 (k + after.length + 12) (by omega) hoth hnd
    hfa2 hg2
  have hd3 : (skipMods [mod] after σ2).get .d [mod] = some (some ⟨.typeset, nm⟩) := by
    rw [skipMods_get_other [mod] .d [mod] after σ2 (fun m _ h => by cases h)]
    show (typesetState3 mod [a] nm ts o (σ.put .g [mod] none)).get .d [mod] = _
    unfold typesetState3
    rw [hkey1, get_put, if_pos rfl]
  have hfuel : k + after.length + 12 - after.length = (k + 11) + 1 := by omega
  have e1 : k + after.length + 13 = (k + after.length + 1 + 11) + 1 := by omega
  rw [e1]
  simp only [dLoop, bind, hstep]
  have e2 : k + after.length + 1 + 11 = k + after.length + 12 := by omega
  rw [e2]
  have hskip' : dLoop (k + after.length + 12) cfg after [a] σ2 =
      dLoop (k + after.length + 12 - after.length) cfg [] [a] (skipMods [mod] after σ2) := by
    simpa using hskip
  show dLoop (k + after.length + 12) cfg after [a] σ2 = _
  rw [hskip', hfuel]
  simp only [dLoop, bind, pure, getSt, hkey1, hd3]
  rfl

end

/-- a module's own name through the dependency loader (default topology): found; `init_typeset.pp` is the only read; the
    modules listed before and after it get a placeholder each -/
theorem init_typeset_dep (cfg : Cfg) (mod a : String) (hv : cfg.via = .d) (hflat : cfg.flat = false)
    (hguard : cfg.guardInit = true) (before after : List String) (hmodsEq : cfg.mods = before ++ mod :: after)
    (hnd : cfg.mods.Nodup) (hoth : ∀ m ∈ before ++ after, isGlobalMod m = false) (hmg : isGlobalMod mod = false)
    (hparts : partsOf [a] = some [mod]) (hsys : sysLoad [a] = none)
    (nm : Name) (ts : List String) (o : Path) (os : List Path) (s : St) (k : Nat)
    (hk : 3 * (nm.length + 1) + ts.length ≤ k)
    (hi : idx cfg (.m mod) ["init_typeset"] = o :: os)
    (hb : bodyAt cfg.tree o = some (.typ .typeset nm ts)) (hkey : keyOf nm = [mod])
    (hd : s.get .d [mod] = none) (hgs : s.get .g [mod] = none) (hig : idx cfg .g [mod] = [])
    (hfm : ∀ m ∈ cfg.mods, s.get (.m m) [mod] = none)
    (hhg : MemHyp cfg .g nm (((skipMods [mod] before (s.put .g [mod] none)).put (.m mod) [mod] none).addRead o) ts)
    (hhm : MemHyp cfg (.m mod) nm (((skipMods [mod] before (s.put .g [mod] none)).put (.m mod) [mod] none).addRead o) ts)
    (hfreshg : ∀ t ∈ ts, s.get .g (keyOf (nm ++ [t])) = none)
    (hfreshm : ∀ t ∈ ts, s.get (.m mod) (keyOf (nm ++ [t])) = none)
    (hfreshd : ∀ t ∈ ts, s.get .d (keyOf (nm ++ [t])) = none) :
    loadS (k + cfg.mods.length + 16) cfg s [a] =
      (.found ⟨.typeset, nm⟩,
        skipMods [mod] after (typesetState3 mod [a] nm ts o (skipMods [mod] before (s.put .g [mod] none)))) := by
  have hkey1 : keyOf [a] = [mod] := by
    unfold partsOf at hparts
    by_cases hvv : (keyOf [a]).all validPart = true
    · simp only [hvv, if_true] at hparts; exact Option.some.inj hparts
    · simp only [hvv] at hparts; cases hparts
  have hq1 : qualified [a] = false := rfl
  have hmods : cfg.mods.contains mod = true := by rw [hmodsEq]; simp
  rw [hmodsEq] at hnd
  have hnd1 := List.nodup_append.mp hnd
  have hnd2 := List.nodup_cons.mp hnd1.2.1
  have hne_before : ∀ m ∈ before, m ≠ mod := by
    intro m hm h
    exact hnd1.2.2 m hm mod List.mem_cons_self h
  have hne_after : ∀ m ∈ after, m ≠ mod := by
    intro m hm h; exact hnd2.1 (h ▸ hm)
  have hoth_after : ∀ m ∈ after, m ≠ mod ∧ isGlobalMod m = false :=
    fun m hm => ⟨hne_after m hm, hoth m (List.mem_append_right _ hm)⟩
  have hlenmem : ∀ t, keyOf (nm ++ [t]) ≠ [mod] := by
    intro t h2
    rw [← hkey] at h2
    exact keyOf_ne_of_length (by simp) h2
  -- the loop over the members, from whatever state the modules before `mod` leave
  have hloop : dLoop (k + cfg.mods.length + 12) cfg cfg.mods [a] s =
      .ok (some (some ⟨.typeset, nm⟩))
        (skipMods [mod] after (typesetState3 mod [a] nm ts o (skipMods [mod] before (s.put .g [mod] none)))) := by
    rw [hmodsEq]
    cases before with
    | nil =>
      simp only [List.nil_append, List.length_cons, skipMods] at hhg hhm ⊢
      have := loop_from_mod hv hflat hguard hmods hmg hkey1 hparts hsys nm ts o os s (Or.inr ⟨hgs, hig⟩) k hk hi hb hkey
        (hfm mod (by rw [hmodsEq]; simp)) hd hhg hhm hfreshg hfreshm hfreshd after hoth_after hnd2.2
        (fun m hm => hfm m (by rw [hmodsEq]; simp [hm]))
      have e : k + (after.length + 1) + 12 = k + after.length + 13 := by omega
      rw [e]; exact this
    | cons b bs =>
      have hbne : b ≠ mod := hne_before b List.mem_cons_self
      have hbg : isGlobalMod b = false := hoth b (by simp)
      let σb := (s.put .g [mod] none).put (.m b) [mod] none
      have hstepb : ∀ n, fbLoadEntry (n+4) cfg (.m b) [a] s = .ok (some none) σb := fun n =>
        other_step (cfg := cfg) (a := a) hflat b hbne hbg hkey1 hparts hsys s (Or.inr ⟨hgs, hig⟩)
          (hfm b (by rw [hmodsEq]; simp)) n
      have hndb := List.nodup_cons.mp hnd1.1
      have hgb : σb.get .g [mod] = some none := by
        show ((s.put .g [mod] none).put (.m b) [mod] none).get .g [mod] = _
        rw [get_put, if_neg (by intro h; cases h), get_put, if_pos rfl]
      have hfbs : ∀ m ∈ bs, σb.get (.m m) [mod] = none := by
        intro m hm
        show ((s.put .g [mod] none).put (.m b) [mod] none).get (.m m) [mod] = none
        rw [get_put, if_neg (by
          intro h; injection h with h1 _; injection h1 with h2
          exact hndb.1 (h2 ▸ hm)), get_put, if_neg (by intro h; cases h)]
        exact hfm m (by rw [hmodsEq]; simp [hm])
      have hskip := dLoop_skip (cfg := cfg) (a := a) hflat hkey1 hparts hsys bs (mod :: after) σb
        (k + bs.length + after.length + 13) (by omega)
        (fun m hm => ⟨hne_before m (List.mem_cons_of_mem _ hm), hoth m (by simp [hm])⟩) hndb.2 hfbs hgb
      -- the state in which `mod` is reached
      let σ1 := skipMods [mod] bs σb
      have hg1 : σ1.get .g [mod] = some none := by
        show (skipMods [mod] bs σb).get .g [mod] = _
        rw [skipMods_get_other [mod] .g [mod] bs σb (fun m _ h => by cases h)]; exact hgb
      have hsame : σ1.put .g [mod] none = σ1 := put_same σ1 .g [mod] none hg1
      have hmodfresh : ∀ (l : Lid) (k0 : Key), (l = .m mod ∨ l = .d ∨ k0 ≠ [mod]) → σ1.get l k0 = (s.put .g [mod] none).get l k0 := by
        intro l k0 hl
        show (skipMods [mod] bs σb).get l k0 = _
        rw [skipMods_get_other [mod] l k0 bs σb (by
          intro m hm h; injection h with h1 h2
          rcases hl with hl | hl | hl
          · rw [hl] at h1; injection h1 with h3
            exact hne_before m (List.mem_cons_of_mem _ hm) h3.symm
          · rw [hl] at h1; cases h1
          · exact hl h2)]
        show ((s.put .g [mod] none).put (.m b) [mod] none).get l k0 = _
        rw [get_put, if_neg (by
          intro h; injection h with h1 h2
          rcases hl with hl | hl | hl
          · rw [hl] at h1; injection h1 with h3; exact hbne h3.symm
          · rw [hl] at h1; cases h1
          · exact hl h2)]
      have hgput : ∀ (l : Lid) (k0 : Key), (l ≠ .g ∨ k0 ≠ [mod]) → (s.put .g [mod] none).get l k0 = s.get l k0 := by
        intro l k0 hl
        rw [get_put, if_neg (by
          intro h; injection h with h1 h2
          rcases hl with hl | hl
          · exact hl h1
          · exact hl h2)]
      have hthis := loop_from_mod hv hflat hguard hmods hmg hkey1 hparts hsys nm ts o os σ1 (Or.inl hg1) k hk hi hb hkey
        (by rw [hmodfresh _ _ (Or.inl rfl), hgput _ _ (Or.inl (by intro h; cases h))]; exact hfm mod (by rw [hmodsEq]; simp))
        (by rw [hmodfresh _ _ (Or.inr (Or.inl rfl)), hgput _ _ (Or.inl (by intro h; cases h))]; exact hd)
        (by rw [hsame]; exact hhg) (by rw [hsame]; exact hhm)
        (fun t ht => by
          rw [hmodfresh _ _ (Or.inr (Or.inr (hlenmem t))), hgput _ _ (Or.inr (hlenmem t))]; exact hfreshg t ht)
        (fun t ht => by
          rw [hmodfresh _ _ (Or.inl rfl), hgput _ _ (Or.inl (by intro h; cases h))]; exact hfreshm t ht)
        (fun t ht => by
          rw [hmodfresh _ _ (Or.inr (Or.inl rfl)), hgput _ _ (Or.inl (by intro h; cases h))]; exact hfreshd t ht)
        after hoth_after hnd2.2
        (fun m hm => by
          show (skipMods [mod] bs σb).get (.m m) [mod] = none
          rw [skipMods_get_other [mod] (.m m) [mod] bs σb (by
            intro x hx h; injection h with h1 _; injection h1 with h2
            exact hnd1.2.2 x (List.mem_cons_of_mem _ hx) m (List.mem_cons_of_mem _ hm) h2.symm)]
          show ((s.put .g [mod] none).put (.m b) [mod] none).get (.m m) [mod] = none
          rw [get_put, if_neg (by
            intro h; injection h with h1 _; injection h1 with h2
            exact hnd1.2.2 b List.mem_cons_self m (List.mem_cons_of_mem _ hm) h2.symm), get_put,
            if_neg (by intro h; cases h)]
          exact hfm m (by rw [hmodsEq]; simp [hm]))
      rw [hsame] at hthis
      have e1 : k + ((b :: bs) ++ mod :: after).length + 12 = (k + bs.length + after.length + 9 + 4) + 1 := by
        simp only [List.length_append, List.length_cons]; omega
      rw [e1]
      simp only [List.cons_append, dLoop, bind, hstepb]
      have e2 : k + bs.length + after.length + 9 + 4 = k + bs.length + after.length + 13 := by omega
      rw [e2]
      show dLoop (k + bs.length + after.length + 13) cfg (bs ++ mod :: after) [a] σb = _
      rw [hskip]
      have e3 : k + bs.length + after.length + 13 - bs.length = k + after.length + 13 := by omega
      rw [e3]
      exact hthis
  have hmods' : cfg.mods.isEmpty = false := by rw [hmodsEq]; cases before <;> rfl
  have hfin : (skipMods [mod] after (typesetState3 mod [a] nm ts o (skipMods [mod] before (s.put .g [mod] none)))).get .d
      [mod] = some (some ⟨.typeset, nm⟩) := by
    rw [skipMods_get_other [mod] .d [mod] after _ (fun m _ h => by cases h)]
    unfold typesetState3
    rw [hkey1, get_put, if_pos rfl]
  have e0 : k + cfg.mods.length + 16 = (k + cfg.mods.length + 12) + 4 := by omega
  rw [e0]
  obtain ⟨mods, tree, via, gi, fl⟩ := cfg
  simp only at hv hflat
  subst hv
  subst hflat
  simp only at hloop hmods'
  unfold loadS load
  simp only [loadEntry, dLoadEntry, dFind, dMembers, bind, pure, getSt, hkey1, hd, hq1, Bool.and_false, Bool.false_eq_true,
    if_false, hloop, hfin, if_true]

end Pcore.Files
