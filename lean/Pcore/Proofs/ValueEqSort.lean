import Pcore.Proofs.ValueEqBytes
/-! Helper lemmas for C07: `sort.Strings` (model: `sortB`) yields the same list exactly for permutations. -/
namespace Pcore.ValueEq

theorem u8_lt_iff (a b : UInt8) : a < b ↔ a.toNat < b.toNat := UInt8.lt_iff_toNat_lt

theorem u8_eq_of_not_lt {a b : UInt8} (h1 : ¬ a < b) (h2 : ¬ b < a) : a = b := by
  rw [u8_lt_iff] at h1 h2
  exact UInt8.toNat_inj.mp (by omega)

theorem bytesLe_total : ∀ a b : Bytes, bytesLe a b = true ∨ bytesLe b a = true
  | [], _ => by simp [bytesLe]
  | _ :: _, [] => by simp [bytesLe]
  | a :: as, b :: bs => by
      simp only [bytesLe]
      by_cases h1 : a < b
      · simp [h1]
      · by_cases h2 : b < a
        · simp [h2]
        · simp only [h1, h2, if_false]
          exact bytesLe_total as bs

theorem bytesLe_antisymm : ∀ a b : Bytes, bytesLe a b = true → bytesLe b a = true → a = b
  | [], [], _, _ => rfl
  | [], _ :: _, _, h => by simp [bytesLe] at h
  | _ :: _, [], h, _ => by simp [bytesLe] at h
  | a :: as, b :: bs, h1, h2 => by
      simp only [bytesLe] at h1 h2
      by_cases l1 : a < b
      · have : ¬ b < a := by rw [u8_lt_iff] at l1 ⊢; omega
        simp [l1, this] at h2
      · by_cases l2 : b < a
        · simp [l1, l2] at h1
        · simp only [l1, l2, if_false] at h1 h2
          rw [u8_eq_of_not_lt l1 l2, bytesLe_antisymm as bs h1 h2]

theorem bytesLe_trans : ∀ a b c : Bytes, bytesLe a b = true → bytesLe b c = true → bytesLe a c = true
  | [], _, _, _, _ => by simp [bytesLe]
  | _ :: _, [], _, h, _ => by simp [bytesLe] at h
  | _ :: _, _ :: _, [], _, h => by simp [bytesLe] at h
  | a :: as, b :: bs, c :: cs, h1, h2 => by
      simp only [bytesLe] at h1 h2 ⊢
      by_cases ab : a < b
      · by_cases bc : b < c
        · have : a < c := by rw [u8_lt_iff] at *; omega
          simp [this]
        · by_cases cb : c < b
          · simp [bc, cb] at h2
          · have e := u8_eq_of_not_lt bc cb
            subst e; simp [ab]
      · by_cases ba : b < a
        · simp [ab, ba] at h1
        · have e := u8_eq_of_not_lt ab ba
          subst e
          by_cases bc : a < c
          · simp [bc]
          · by_cases cb : c < a
            · simp [bc, cb] at h2
            · simp only [ab, bc, cb, if_false] at h1 h2 ⊢
              exact bytesLe_trans as bs cs h1 h2

theorem insertB_perm (x : Bytes) : ∀ l : List Bytes, (insertB x l).Perm (x :: l)
  | [] => List.Perm.refl _
  | y :: ys => by
      simp only [insertB]
      split
      · exact List.Perm.refl _
      · exact ((insertB_perm x ys).cons y).trans (List.Perm.swap x y ys)

theorem sortB_perm : ∀ l : List Bytes, (sortB l).Perm l
  | [] => List.Perm.refl _
  | x :: xs => (insertB_perm x (sortB xs)).trans ((sortB_perm xs).cons x)

theorem insertB_sorted (x : Bytes) : ∀ l : List Bytes, l.Pairwise (fun a b => bytesLe a b = true) →
    (insertB x l).Pairwise (fun a b => bytesLe a b = true)
  | [], _ => by simp [insertB]
  | y :: ys, h => by
      simp only [insertB]
      split
      · rename_i hxy
        refine List.Pairwise.cons ?_ h
        intro z hz
        rcases List.mem_cons.mp hz with e | hz
        · rw [e]; exact hxy
        · exact bytesLe_trans _ _ _ hxy (List.rel_of_pairwise_cons h hz)
      · rename_i hxy
        have hyx : bytesLe y x = true := (bytesLe_total x y).resolve_left hxy
        refine List.Pairwise.cons ?_ (insertB_sorted x ys h.tail)
        intro z hz
        rcases List.mem_cons.mp ((insertB_perm x ys).subset hz) with e | hz
        · rw [e]; exact hyx
        · exact List.rel_of_pairwise_cons h hz

theorem sortB_sorted : ∀ l : List Bytes, (sortB l).Pairwise (fun a b => bytesLe a b = true)
  | [] => List.Pairwise.nil
  | x :: xs => insertB_sorted x _ (sortB_sorted xs)

/-- sorting forgets exactly the order -/
theorem sortB_eq_iff (a b : List Bytes) : sortB a = sortB b ↔ a.Perm b := by
  constructor
  · intro h
    exact (sortB_perm a).symm.trans (h ▸ sortB_perm b)
  · intro h
    exact List.Perm.eq_of_pairwise (fun x y _ _ => bytesLe_antisymm x y) (sortB_sorted a) (sortB_sorted b)
      ((sortB_perm a).trans (h.trans (sortB_perm b).symm))

/-! ### the distinct members of a sorted list: a canonical form of the SET of members -/

theorem dedupS_mem : ∀ (l : List Bytes) (x : Bytes), x ∈ dedupS l ↔ x ∈ l
  | [], _ => by simp [dedupS]
  | [_], _ => by simp [dedupS]
  | a :: b :: r, x => by
      simp only [dedupS]
      split
      · rename_i h
        have e : a = b := by simpa using h
        rw [dedupS_mem (b :: r) x]; subst e; simp
      · rw [List.mem_cons, dedupS_mem (b :: r) x, List.mem_cons (a := x) (b := a)]

theorem dedupS_strict : ∀ (l : List Bytes), l.Pairwise (fun a b => bytesLe a b = true) →
    (dedupS l).Pairwise (fun a b => bytesLe a b = true ∧ a ≠ b)
  | [], _ => by simp [dedupS]
  | [_], _ => by simp [dedupS]
  | a :: b :: r, h => by
      simp only [dedupS]
      split
      · exact dedupS_strict (b :: r) h.tail
      · rename_i hab
        have hne : a ≠ b := by simpa using hab
        refine List.Pairwise.cons ?_ (dedupS_strict (b :: r) h.tail)
        intro z hz
        have hz' : z ∈ b :: r := (dedupS_mem (b :: r) z).mp hz
        refine ⟨List.rel_of_pairwise_cons h hz', ?_⟩
        intro e
        subst e
        rcases List.mem_cons.mp hz' with e | hz''
        · exact hne e
        · have h1 : bytesLe b a = true := List.rel_of_pairwise_cons h.tail hz''
          have h2 : bytesLe a b = true := List.rel_of_pairwise_cons h List.mem_cons_self
          exact hne (bytesLe_antisymm a b h2 h1)

/-- sorting and dropping repetitions forgets exactly the order and the multiplicities -/
theorem dedupS_sortB_eq_iff (a b : List Bytes) : dedupS (sortB a) = dedupS (sortB b) ↔ ∀ x, x ∈ a ↔ x ∈ b := by
  have mem : ∀ (l : List Bytes) (x : Bytes), x ∈ dedupS (sortB l) ↔ x ∈ l := fun l x => by
    rw [dedupS_mem]; exact (sortB_perm l).mem_iff
  constructor
  · intro h x
    rw [← mem a x, ← mem b x, h]
  · intro h
    have sa := dedupS_strict _ (sortB_sorted a)
    have sb := dedupS_strict _ (sortB_sorted b)
    have pm : (dedupS (sortB a)).Perm (dedupS (sortB b)) :=
      (List.perm_ext_iff_of_nodup (sa.imp (fun h => h.2)) (sb.imp (fun h => h.2))).mpr
        (fun x => by rw [mem a x, mem b x]; exact h x)
    exact List.Perm.eq_of_pairwise (fun x y _ _ hxy hyx => bytesLe_antisymm x y hxy.1 hyx.1) sa sb pm

/-- a concatenation of frames determines the frames -/
theorem flat_inj_of_frames : ∀ (as bs : List Bytes), (∀ a ∈ as, ∃ x, a = frame x) → (∀ b ∈ bs, ∃ y, b = frame y) →
    flat as = flat bs → as = bs
  | [], [], _, _, _ => rfl
  | [], b :: bs, _, hb, h => by
      obtain ⟨y, rfl⟩ := hb b List.mem_cons_self
      simp only [flat] at h
      exact absurd (List.append_eq_nil_iff.mp h.symm).1 (frame_ne_nil y)
  | a :: as, [], ha, _, h => by
      obtain ⟨x, rfl⟩ := ha a List.mem_cons_self
      simp only [flat] at h
      exact absurd (List.append_eq_nil_iff.mp h).1 (frame_ne_nil x)
  | a :: as, b :: bs, ha, hb, h => by
      obtain ⟨x, rfl⟩ := ha a List.mem_cons_self
      obtain ⟨y, rfl⟩ := hb b List.mem_cons_self
      simp only [flat] at h
      have h1 := frame_decode h
      rw [h1.1, flat_inj_of_frames as bs (fun a h => ha a (List.mem_cons_of_mem _ h))
        (fun b h => hb b (List.mem_cons_of_mem _ h)) h1.2]

end Pcore.ValueEq
