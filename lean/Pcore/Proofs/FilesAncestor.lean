import Pcore.Proofs.FilesDeep
import Pcore.Proofs.FilesError
/-!
C15, names whose ancestors exist (global loader as the context's loader).  `Ns::A::B` is requested, there is no file for
it, but its parent `Ns::A` has one: the parent type-set search loads the parent (reads its file, defines it) and — the
parent being no type set — the child stays absent.  A defective parent file surfaces as the error of the CHILD's lookup,
naming the parent's file.  Vice versa (`Ns::A` requested, only `Ns::A::B` has a file) nothing below the name is touched:
that is `C15_absent` / `find_miss` (files deeper than the name are never consulted).
-/
namespace Pcore.Files

/-- the definition a non-defective file yields for the requested name -/
def definedBy (b : Body) (name : Name) : Option Def :=
  match b with
  | .typ k nm _ => if keyOf nm = keyOf name then some ⟨k, nm⟩ else none
  | .bare => some ⟨.alias, name⟩
  | _ => none

theorem definedBy_key {b : Body} {name : Name} {d : Def} (h : definedBy b name = some d) : keyOf d.name = keyOf name := by
  cases b with
  | typ k nm ts =>
    simp only [definedBy] at h
    by_cases hk : keyOf nm = keyOf name
    · rw [if_pos hk] at h; cases h; exact hk
    · rw [if_neg hk] at h; cases h
  | bare => simp only [definedBy] at h; cases h; rfl
  | malformed ln => cases h
  | nodef => cases h
  | unreadable => cases h

/-- `instantiate` of a plain (non type-set) file that defines the requested name, by the loader that is the context's
    defining loader: placeholder, read, definition over the placeholder -/
theorem instantiate_good (cfg : Cfg) (n : Nat) (l : Lid) (hv : cfg.via = l) (name : Name) (p : Path) (ps : List Path)
    (s : St) (b : Body) (d : Def) (hb : bodyAt cfg.tree p = some b) (hd : definedBy b name = some d)
    (hk : d.kind ≠ .typeset) (hget : s.get l (keyOf name) = none) :
    instantiate (n+4) cfg l name (p :: ps) s =
      .ok (some (some d)) (((s.put l (keyOf name) none).addRead p).put l (keyOf name) (some d)) := by
  have hkey := definedBy_key hd
  obtain ⟨mods, tree, via, gi, fl⟩ := cfg
  simp only at hv
  subst hv
  simp only at hb
  cases b with
  | typ k nm ts =>
    simp only [definedBy] at hd
    by_cases hkn : keyOf nm = keyOf name
    · rw [if_pos hkn] at hd
      cases hd
      have hkt : k ≠ .typeset := hk
      simp [instantiate, bind, pure, getSt, hget, setEntry, instantiator, modifySt, hb, hkn, addTypes, hkt, get_put]
    · rw [if_neg hkn] at hd; cases hd
  | bare =>
    simp only [definedBy] at hd
    cases hd
    simp [instantiate, bind, pure, getSt, hget, setEntry, instantiator, modifySt, hb, addTypes, get_put]
  | malformed ln => cases hd
  | nodef => cases hd
  | unreadable => cases hd

theorem keyOf_length (n : Name) : (keyOf n).length = n.length := by simp [keyOf]

theorem keyOf_ne_of_length {a b : Name} (h : a.length ≠ b.length) : keyOf a ≠ keyOf b := by
  intro hk
  have := congrArg List.length hk
  rw [keyOf_length, keyOf_length] at this
  exact h this

theorem proper_prefix_dropLast {nm name : Name} (hp : nm <+: name) (hneq : nm ≠ name) : nm <+: name.dropLast := by
  have hlt := length_lt_of_proper_prefix hp hneq
  rw [List.prefix_iff_eq_take] at hp ⊢
  rw [List.dropLast_eq_take, List.take_take, hp]
  congr 1
  simp only [List.length_take]
  omega

/-- one iteration of the parent search, without destructuring the prefix -/
theorem parentSearch_ne (n : Nat) (cfg : Cfg) (l : Lid) (name ts : Name) (hne : ts ≠ []) :
    parentSearch (n+1) cfg l name ts = (do
      let st ← getSt
      match st.get l (keyOf ts) with
      | some _ => parentSearch n cfg l name ts.dropLast
      | none =>
        let _ ← find n cfg l ts
        let st ← getSt
        match st.get l (keyOf name) with
        | some te => pure (some te)
        | none => parentSearch n cfg l name ts.dropLast) := by
  cases ts with
  | nil => exact absurd rfl hne
  | cons t rest =>
    simp only [parentSearch]
    funext s
    simp only [bind, getSt]
    cases s.get l (keyOf (t :: rest)) with
    | some v => rfl
    | none =>
      simp only []
      cases find n cfg l (t :: rest) s with
      | fail e s' => rfl
      | ok a s' =>
        simp only []
        cases s'.get l (keyOf name) <;> rfl

/-- after the parent has been cached, the child is quiet: its parent is skipped, the grandparents are as before -/
theorem quietAnc_child {cfg : Cfg} {s s2 : St} {name : Name} (hqual : qualified name = true)
    (hqa : QuietAnc cfg .g s name.dropLast) (hfresh : s.get .g (keyOf name) = none)
    (hsame : ∀ k, k ≠ keyOf name.dropLast → s2.get .g k = s.get .g k)
    (hpar : s2.get .g (keyOf name.dropLast) ≠ none) : QuietAnc cfg .g s2 name := by
  have hlen : name.length ≥ 2 := by simpa [qualified] using hqual
  have hdl : name.dropLast.length = name.length - 1 := List.length_dropLast
  refine ⟨?_, Or.inl rfl, Or.inl rfl, ?_⟩
  · rw [hsame _ (keyOf_ne_of_length (by omega))]; exact hfresh
  · intro nm hne hp hneq
    have hp' := proper_prefix_dropLast hp hneq
    by_cases heq : nm = name.dropLast
    · left; rw [heq]; exact hpar
    · rcases hqa.ancestors nm hne hp' heq with h | h
      · left
        have hl := length_lt_of_proper_prefix hp' heq
        rw [hsame _ (keyOf_ne_of_length (by omega))]
        exact h
      · exact Or.inr h

/-- the child is absent, its parent has a plain file that defines the parent: the parent is loaded on the way (one read,
    one definition), the child gets a placeholder and the answer is `notfound` -/
theorem ancestor_global_good (cfg : Cfg) (hv : cfg.via = .g) (name : Name) (hqual : qualified name = true) (s : St)
    (m : Nat) (hfuel : 3 * name.length ≤ m + 8)
    (hsys : sysLoad name = none) (hfresh : s.get .g (keyOf name) = none) (hi : idx cfg .g (keyOf name) = [])
    (hqa : QuietAnc cfg .g s name.dropLast)
    (p : Path) (ps : List Path) (hip : idx cfg .g (keyOf name.dropLast) = p :: ps)
    (b : Body) (d : Def) (hb : bodyAt cfg.tree p = some b) (hd : definedBy b name.dropLast = some d)
    (hk : d.kind ≠ .typeset) :
    loadS (m+11) cfg s name =
      (.notfound, ((((s.put .g (keyOf name.dropLast) none).addRead p).put .g (keyOf name.dropLast) (some d)).put .g
        (keyOf name) none)) := by
  have hlen : name.length ≥ 2 := by simpa [qualified] using hqual
  have hdl : name.dropLast.length = name.length - 1 := List.length_dropLast
  have hpne : name.dropLast ≠ [] := by
    intro h; rw [h] at hdl; simp at hdl; omega
  have hinst := instantiate_good cfg m .g hv name.dropLast p ps s b d hb hd hk hqa.fresh
  let s2 := ((s.put .g (keyOf name.dropLast) none).addRead p).put .g (keyOf name.dropLast) (some d)
  have hsame : ∀ k, k ≠ keyOf name.dropLast → s2.get .g k = s.get .g k := by
    intro k hk'
    have hne' : (Lid.g, k) ≠ (Lid.g, keyOf name.dropLast) := by
      intro h; injection h with _ h2; exact hk' h2
    show (((s.put .g (keyOf name.dropLast) none).addRead p).put .g (keyOf name.dropLast) (some d)).get .g k = _
    rw [get_put, if_neg hne', get_addRead, get_put, if_neg hne']
  have hpar : s2.get .g (keyOf name.dropLast) ≠ none := by
    show (((s.put .g (keyOf name.dropLast) none).addRead p).put .g (keyOf name.dropLast) (some d)).get .g _ ≠ none
    rw [get_put, if_pos rfl]; intro h; cases h
  have hq2 : QuietAnc cfg .g s2 name := quietAnc_child hqual hqa hfresh hsame hpar
  have hdd := dropLast_proper hpne
  have hps2 := parentSearch_miss cfg .g s2 name name.dropLast.dropLast hq2
    (hdd.1.trans (List.dropLast_prefix name))
    (by
      intro h
      have := congrArg List.length h
      rw [List.length_dropLast, List.length_dropLast] at this
      omega)
    (m+6) (by rw [List.length_dropLast, List.length_dropLast]; omega)
  have hget2 : s2.get .g (keyOf name) = none := hq2.fresh
  obtain ⟨mods, tree, via, gi, fl⟩ := cfg
  simp only at hv
  subst hv
  have hps : parentSearch (m+7) ⟨mods, tree, .g, gi, fl⟩ .g name name.dropLast s = .ok none s2 := by
    rw [parentSearch_ne _ _ _ _ _ hpne]
    simp only [bind, getSt, hqa.fresh, find_g, findTail, hip, hinst]
    show (match s2.get .g (keyOf name) with
      | some te => pure (some te)
      | none => parentSearch (m+6) _ .g name name.dropLast.dropLast) s2 = _
    rw [hget2]
    exact hps2
  unfold loadS load
  simp only [loadEntry, fbLoadEntry, find_g, findTail, bind, pure, getSt, hsys, hfresh, hi, hqual, if_true, hps]
  simp [setEntry, hget2]
  rfl

/-- the child is absent, its parent's file is defective: the CHILD's lookup reports the error that names the parent's
    file; nothing is bound -/
theorem ancestor_global_defective (cfg : Cfg) (hv : cfg.via = .g) (name : Name) (hqual : qualified name = true) (s : St)
    (m : Nat)
    (hsys : sysLoad name = none) (hfresh : s.get .g (keyOf name) = none) (hi : idx cfg .g (keyOf name) = [])
    (hpfresh : s.get .g (keyOf name.dropLast) = none)
    (p : Path) (ps : List Path) (hip : idx cfg .g (keyOf name.dropLast) = p :: ps)
    (b : Body) (hb : bodyAt cfg.tree p = some b) (hd : Defective b name.dropLast) :
    loadS (m+11) cfg s name = (.failed (defectErr p b), (s.put .g (keyOf name.dropLast) none).addRead p) := by
  have hlen : name.length ≥ 2 := by simpa [qualified] using hqual
  have hdl : name.dropLast.length = name.length - 1 := List.length_dropLast
  have hpne : name.dropLast ≠ [] := by
    intro h; rw [h] at hdl; simp at hdl; omega
  have hinst : instantiate (m+4) cfg .g name.dropLast (p :: ps) s = _ :=
    instantiate_defective cfg (m+2) .g name.dropLast p ps s b hb hd hpfresh
  obtain ⟨mods, tree, via, gi, fl⟩ := cfg
  simp only at hv
  subst hv
  have hps : parentSearch (m+7) ⟨mods, tree, .g, gi, fl⟩ .g name name.dropLast s =
      .fail (defectErr p b) ((s.put .g (keyOf name.dropLast) none).addRead p) := by
    rw [parentSearch_ne _ _ _ _ _ hpne]
    simp only [bind, getSt, hpfresh, find_g, findTail, hip, hinst]
  unfold loadS load
  simp only [loadEntry, fbLoadEntry, find_g, findTail, bind, pure, getSt, hsys, hfresh, hi, hqual, if_true, hps]

end Pcore.Files
