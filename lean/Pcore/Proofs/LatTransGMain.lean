import Pcore.Proofs.LatTransIter
set_option linter.unusedSimpArgs false
set_option linter.unusedVariables false
/-! C03: transitivity on `Ty.TG sfh` (stage 3), the receiver rules. -/
namespace Pcore.Lat
variable (cfg : Cfg) (sfh : Bool)

theorem narG (t : Ty) (h : t.TG sfh) : t.NoAliasR := Ty.TG.noAliasR sfh t.w t (Nat.le_refl _) h

/-- receiver `a`'s rule accepts plain `b`, and `b` accepts plain `c` -/
theorem trG_recv (hl : ∀ s, (cfg.lower s).length = s.length) (n : Nat) (ih : TransG cfg sfh n) (a b c : Ty)
    (hw : a.w + b.w + c.w ≤ n + 1) (H : GHyp cfg sfh a b c) (hb : b.plainR = true) (hc : c.plainR = true)
    (h1 : asgRecv cfg sfh a b = true) (h2 : asg cfg sfh b c = true) : asg cfg sfh a c = true := by
  -- b's own rule on c (or b and c are the same shared singleton, or b is Any)
  have h2' : asgRecv cfg sfh b c = true ∨ b = c := by
    rw [asg_plain_r cfg sfh b c hc] at h2
    simp only [Bool.or_eq_true] at h2
    rcases h2 with (h | h) | h
    · left; cases b <;> simp [Ty.isAny] at h; unfold asgRecv; rfl
    · right; exact sameNullary_eq h
    · left; exact h
  rcases h2' with h2' | rfl
  case inr => exact recv_to_asg cfg sfh a b hb h1
  cases a with
  | any => exact asg_any_l cfg sfh c
  | unit => have := H.fa; unfold Ty.TG at this; exact absurd this id
  | callable _ _ _ => have := H.fa; unfold Ty.TG at this; exact absurd this id
  | data => have := H.fa; unfold Ty.TG at this; exact absurd this id
  | richData => have := H.fa; unfold Ty.TG at this; exact absurd this id
  | tuple ts g => exact recv_to_asg cfg sfh _ c hc (trG_tuple cfg sfh n ih ts g b c hw H h1 h2')
  | struct ms => exact recv_to_asg cfg sfh _ c hc (trG_struct cfg sfh n ih ms b c hw H h1 h2')
  | iterable x => exact recv_to_asg cfg sfh _ c hc (trG_iterable cfg sfh n ih x b c hw H h1 h2')
  | scalar => exact trG_scalar cfg sfh n ih b c hw H hc h1 h2
  | scalarData => exact trG_scalarData cfg sfh n ih b c hw H hc h1 h2
  | coll r => exact recv_to_asg cfg sfh _ c hc (trG_coll cfg sfh r b c H.fb H.fc h1 h2')
  | array e r => exact recv_to_asg cfg sfh _ c hc (trG_array cfg sfh n ih e r b c hw H h1 h2')
  | hash k v r => exact recv_to_asg cfg sfh _ c hc (trG_hash cfg sfh n ih k v r b c hw H h1 h2')
  | typ x => exact recv_to_asg cfg sfh _ c hc (trG_typ cfg sfh n ih x b c hw H h1 h2')
  | sensitive x => exact recv_to_asg cfg sfh _ c hc (trG_sensitive cfg sfh n ih x b c hw H h1 h2')
  | iterator x => exact recv_to_asg cfg sfh _ c hc (trG_iterator cfg sfh n ih x b c hw H h1 h2')
  | variant as =>
    have fa := H.fa; unfold Ty.TG at fa
    simp only [Ty.w] at hw
    unfold asgRecv at h1
    rw [asgAnyL_iff] at h1
    obtain ⟨m, hm, hmb⟩ := h1
    have := ih m b c (by have := Ty.w_lt_wl hm; omega) ⟨fa m hm, H.fb, H.fc, H.wb, H.wc⟩ hmb h2
    exact weaken_variant cfg sfh m as hm c (narG sfh c H.fc) this
  | optional x =>
    have fa := H.fa; unfold Ty.TG at fa
    simp only [Ty.w] at hw
    unfold asgRecv at h1
    simp only [Bool.or_eq_true] at h1
    rcases h1 with h1 | h1
    · -- b is Undef (plain and accepted by Undef), so c is Undef
      have hbu : b = .undef := by
        rw [asg_plain_r cfg sfh _ b hb] at h1
        simp only [Bool.or_eq_true, Ty.isAny, Bool.false_eq_true, false_or] at h1
        rcases h1 with h1 | h1
        · exact (sameNullary_eq h1).symm
        · unfold asgRecv at h1; cases b <;> simp at h1; rfl
      subst hbu
      unfold asgRecv at h2'; cases c <;> simp at h2'
      exact asg_optional_undef cfg sfh x
    · have := ih x b c (by omega) ⟨fa, H.fb, H.fc, H.wb, H.wc⟩ h1 h2
      exact weaken_optional cfg sfh x c (narG sfh c H.fc) this
  | notUndef x =>
    have fa := H.fa; unfold Ty.TG at fa
    simp only [Ty.w] at hw
    unfold asgRecv at h1
    have h1' : asg cfg sfh b .undef = false ∧ asg cfg sfh x b = true := by
      cases b <;> simp [Ty.plainR] at hb <;> simpa using h1
    have hxc := ih x b c (by omega) ⟨fa, H.fb, H.fc, H.wb, H.wc⟩ h1'.2 h2
    have hcu : asg cfg sfh c .undef = false := by
      cases hh : asg cfg sfh c .undef with
      | false => rfl
      | true =>
        have := ih b c .undef (by simp [Ty.w]; omega) ⟨H.fb, H.fc, by unfold Ty.TG; trivial, H.wc, by unfold Ty.WF; trivial⟩ h2 hh
        rw [this] at h1'; exact absurd h1'.1 (by simp)
    exact nu_accepts cfg sfh x c.w c (Nat.le_refl _) hcu hxc
  | _ =>
    apply recv_to_asg cfg sfh _ c hc
    exact tr_leaf cfg sfh hl _ b c hc H.wb trivial h1 h2'

/-- which receivers answer true for a NotUndef right-hand side whose content accepts Undef -/
theorem recvNUG_cases (a nb : Ty) (fa : a.TG sfh) (hnb : asg cfg sfh nb .undef = true)
    (h : asgRecv cfg sfh a (.notUndef nb) = true) :
    a = .any ∨ (∃ as m, a = .variant as ∧ m ∈ as ∧ asg cfg sfh m (.notUndef nb) = true) ∨
    (∃ x, a = .optional x ∧ asg cfg sfh x (.notUndef nb) = true) ∨
    (∃ x, a = .notUndef x ∧ (asg cfg sfh x nb = true ∨ asg cfg sfh x (.notUndef nb) = true)) := by
  have leafF : ∀ t : Ty, t.isAny = false → asgRecv cfg sfh t (.notUndef nb) = false → asg cfg sfh t (.notUndef nb) = false := by
    intro t h1 h2; rw [asg_notUndef_r, hnb]; simp [h1, h2]
  cases a with
  | any => left; rfl
  | unit => unfold Ty.TG at fa; exact absurd fa id
  | data => unfold Ty.TG at fa; exact absurd fa id
  | richData => unfold Ty.TG at fa; exact absurd fa id
  | variant as =>
    right; left
    unfold asgRecv at h; rw [asgAnyL_iff] at h
    obtain ⟨m, hm, h⟩ := h
    exact ⟨as, m, rfl, hm, h⟩
  | optional x =>
    right; right; left
    unfold asgRecv at h
    simp only [Bool.or_eq_true] at h
    rcases h with h | h
    · rw [leafF .undef rfl (by unfold asgRecv; rfl)] at h; cases h
    · exact ⟨x, rfl, h⟩
  | notUndef x =>
    right; right; right
    unfold asgRecv at h
    simp only [Bool.or_eq_true] at h
    exact ⟨x, rfl, h⟩
  | scalar =>
    exfalso
    unfold asgRecv at h
    simp only [Bool.or_eq_true] at h
    rcases h with ((((h | h) | h) | h) | h) | h
    · rw [leafF .str rfl (by unfold asgRecv; rfl)] at h; cases h
    · rw [leafF .numeric rfl (by unfold asgRecv; rfl)] at h; cases h
    · rw [leafF (.bool none) rfl (by unfold asgRecv; rfl)] at h; cases h
    · rw [leafF (.regexp "") rfl (by unfold asgRecv; rfl)] at h; cases h
    · rw [leafF (.tspan Rng.all) rfl (by unfold asgRecv; rfl)] at h; cases h
    · rw [leafF (.tstamp tstampAll) rfl (by unfold asgRecv; rfl)] at h; cases h
  | scalarData =>
    exfalso
    unfold asgRecv at h
    simp only [Bool.or_eq_true] at h
    rcases h with ((h | h) | h) | h
    · rw [leafF .str rfl (by unfold asgRecv; rfl)] at h; cases h
    · rw [leafF (.int Rng.all) rfl (by unfold asgRecv; rfl)] at h; cases h
    · rw [leafF (.bool none) rfl (by unfold asgRecv; rfl)] at h; cases h
    · rw [leafF floatAll rfl (by unfold floatAll asgRecv; rfl)] at h; cases h
  | enum vs ci => exfalso; unfold asgRecv at h; split at h <;> simp [isStringFamily] at h
  | _ => exfalso; unfold asgRecv at h; simp [isStringFamily] at h

/-- whatever accepts Any accepts everything -/
theorem acceptsG_any : ∀ (n : Nat) (a : Ty), a.w ≤ n → a.TG sfh → asg cfg sfh a .any = true →
    ∀ c, c.NoAliasR → asg cfg sfh a c = true := by
  intro n
  induction n with
  | zero => intro a h; have := Ty.w_pos a; omega
  | succ n ih =>
    intro a hw fa h c hc
    rw [asg_plain_r cfg sfh a .any rfl] at h
    simp only [Bool.or_eq_true] at h
    rcases h with (h | h) | h
    · exact asg_of_isAny cfg sfh h c
    · have := sameNullary_eq h; subst this; exact asg_any_l cfg sfh c
    · cases a with
      | any => exact asg_any_l cfg sfh c
      | unit => unfold Ty.TG at fa; exact absurd fa id
      | data => unfold Ty.TG at fa; exact absurd fa id
      | richData => unfold Ty.TG at fa; exact absurd fa id
                  | variant as =>
        unfold Ty.TG at fa; simp only [Ty.w] at hw
        unfold asgRecv at h; rw [asgAnyL_iff] at h
        obtain ⟨m, hm, h⟩ := h
        exact weaken_variant cfg sfh m as hm c hc (ih m (by have := Ty.w_lt_wl hm; omega) (fa m hm) h c hc)
      | optional x =>
        unfold Ty.TG at fa; simp only [Ty.w] at hw
        unfold asgRecv at h
        simp only [Bool.or_eq_true] at h
        rcases h with h | h
        · rw [asg_plain_r cfg sfh .undef .any rfl] at h; simp [Ty.isAny, sameNullary, asgRecv] at h
        · exact weaken_optional cfg sfh x c hc (ih x (by omega) fa h c hc)
      | notUndef x =>
        unfold asgRecv at h
        simp [asg_any_l] at h
      | scalar =>
        exfalso; unfold asgRecv at h
        simp only [Bool.or_eq_true] at h
        rcases h with ((((h | h) | h) | h) | h) | h <;>
          (rw [asg_plain_r cfg sfh _ .any rfl] at h; simp [Ty.isAny, sameNullary, asgRecv, isStringFamily] at h)
      | scalarData =>
        exfalso; unfold asgRecv at h
        simp only [Bool.or_eq_true] at h
        rcases h with ((h | h) | h) | h <;>
          (rw [asg_plain_r cfg sfh _ .any rfl] at h; simp [Ty.isAny, sameNullary, asgRecv, isStringFamily, floatAll] at h)
      | enum vs ci => exfalso; unfold asgRecv at h; split at h <;> simp [isStringFamily] at h
      | _ => exfalso; unfold asgRecv at h; simp [isStringFamily] at h

end Pcore.Lat
