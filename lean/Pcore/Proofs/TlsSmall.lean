import Pcore.Model.TlsSmall
import Pcore.Proofs.TlsDefs
/-!
Invariants of the small-step interleaving semantics (`Model/TlsSmall.lean`) for C14: `CInv` holds in every configuration
reachable by ANY sequence of micro-steps of ANY goroutines (`cinv_step`).  The world-level facts reuse `Inv`/`Step` of the
big-step development (the small-step worlds have no `pending` goroutines: they live in `Cfg.gs`).
-/
namespace Pcore.Tls

/-! ## locality of a goroutine's step: other goroutines' tables, and which contexts it installs -/

structure Loc (g : Gid) (x0 : Option CtxId) (w w' : World) : Prop where
  tls : ∀ g', g' ≠ g → w'.tls g' = w.tls g'
  est : ∀ e ∈ w'.estab, e ∈ w.estab ∨ (e.1 = g ∧ (w.nextCtx ≤ e.2 ∨ some e.2 = x0))
  pend : w'.pending = w.pending

theorem Loc.refl {g x0 w} : Loc g x0 w w := ⟨fun _ _ => rfl, fun _ h => Or.inl h, rfl⟩

theorem Loc.trans {g x0 w w1 w2} (l1 : Loc g x0 w w1) (l2 : Loc g x0 w1 w2) (hm : w.nextCtx ≤ w1.nextCtx) : Loc g x0 w w2 where
  tls := fun g' h => by rw [l2.tls g' h, l1.tls g' h]
  est := by
    intro e he
    rcases l2.est e he with h | ⟨h1, h2⟩
    · exact l1.est e h
    · refine Or.inr ⟨h1, ?_⟩
      rcases h2 with h2 | h2
      · exact Or.inl (Nat.le_trans hm h2)
      · exact Or.inr h2
  pend := by rw [l2.pend, l1.pend]

theorem Loc.of_same {g x0 w w'} (h1 : w'.tls = w.tls) (h2 : w'.estab = w.estab) (h3 : w'.pending = w.pending) : Loc g x0 w w' :=
  ⟨fun _ _ => by rw [h1], fun e he => Or.inl (by rw [← h2]; exact he), h3⟩

/-- a fresh exception can be dropped -/
theorem Loc.fresh {g cx w w'} (l : Loc g (some cx) w w') (h : w.nextCtx ≤ cx) : Loc g none w w' :=
  ⟨l.tls, fun e he => by
    rcases l.est e he with h1 | ⟨h1, h2⟩
    · exact Or.inl h1
    · refine Or.inr ⟨h1, Or.inl ?_⟩
      rcases h2 with h2 | h2
      · exact h2
      · have : e.2 = cx := by simpa using h2
        rw [this]; exact h, l.pend⟩

theorem Loc.weaken {g x0 w w'} (l : Loc g none w w') : Loc g x0 w w' :=
  ⟨l.tls, fun e he => by
    rcases l.est e he with h1 | ⟨h1, h2⟩
    · exact Or.inl h1
    · refine Or.inr ⟨h1, ?_⟩
      rcases h2 with h2 | h2
      · exact Or.inl h2
      · simp at h2, l.pend⟩

theorem not_pend_of_nil {w : World} (h : w.pending = []) (g : Gid) : g ∉ pendGids w := by simp [pendGids, h]
theorem not_pendc_of_nil {w : World} (h : w.pending = []) (c : CtxId) : c ∉ pendCtxs w := by simp [pendCtxs, h]

theorem tlPut_loc {g : Gid} {x0 : Option CtxId} {t : List (String × CtxId)} {w : World} : Loc g x0 w (tlPut g t w) :=
  ⟨fun g' h => by simp [tlPut, h], fun _ h => Or.inl h, rfl⟩

theorem tlFresh_loc {g : Gid} {x0 : Option CtxId} {v : CtxId} {w : World} : Loc g x0 w (tlFresh g v w) :=
  ⟨fun g' h => by simp [tlFresh, h], fun _ h => Or.inl h, rfl⟩

theorem tlCleanup_loc {g : Gid} {x0 : Option CtxId} {w : World} : Loc g x0 w (tlCleanup g w) :=
  ⟨fun g' h => by simp [tlCleanup, h], fun _ h => Or.inl h, rfl⟩

theorem note_loc {g : Gid} {c : CtxId} {w : World} : Loc g (some c) w (note g c w) :=
  ⟨fun _ _ => rfl, fun e he => by
    simp only [note, List.mem_append, List.mem_singleton] at he
    rcases he with he | he
    · exact Or.inl he
    · subst he; exact Or.inr ⟨rfl, Or.inr rfl⟩, rfl⟩

/-! ## DoWithContext entry and exit -/

structure EnterSpec (g : Gid) (cx : CtxId) (w : World) (save : Option CtxId) (w2 : World) : Prop where
  s : Step none w w2
  l : Loc g (some cx) w w2
  cur : tlGet g ctxKey w2 = some cx
  est : (g, cx) ∈ w2.estab
  save : save = tlGet g ctxKey w
  ctxs : w2.ctxs = w.ctxs
  defs : w2.defs = w.defs
  nl : w2.nextLoader = w.nextLoader
  nc : w2.nextCtx = w.nextCtx
  ng : w2.nextGid = w.nextGid

theorem dwcEnter_spec {g cx : Nat} {w : World} (hinv : Inv w) (hp : w.pending = []) (hg : g < w.nextGid)
    (hcx : cx < w.nextCtx) (hne : ∀ g', (g', cx) ∉ w.estab) :
    ∃ save w2, dwcEnter g cx w = some (save, w2) ∧ EnterSpec g cx w save w2 := by
  have hgp := not_pend_of_nil hp g
  have hnp := not_pendc_of_nil hp cx
  unfold dwcEnter
  cases hget : tlGet g ctxKey w with
  | some save =>
    obtain ⟨t, ht, _⟩ : ∃ t, w.tls g = some t ∧ aget ctxKey t = some save := by
      unfold tlGet at hget
      cases h : w.tls g with
      | none => simp [h] at hget
      | some t => exact ⟨t, rfl, by simpa [h] using hget⟩
    have hset := tlSet_eq (v := cx) ht
    have s1 : Step none w (tlPut g (aset ctxKey cx t) w) := tlSet_step hinv hg hgp hset
    have s2 := note_step (g := g) s1.inv hcx hnp hne
    refine ⟨some save, note g cx (tlPut g (aset ctxKey cx t) w), by simp [hset], ?_⟩
    exact {
      s := s1.trans s2 (fun _ _ h => h)
      l := (tlPut_loc).trans note_loc (Nat.le_refl _)
      cur := by simp [tlGet, note, tlPut, aget_aset_same]
      est := by simp [note]
      save := hget.symm
      ctxs := rfl, defs := rfl, nl := rfl, nc := rfl, ng := rfl }
  | none =>
    have s1 : Step none w (tlFresh g cx w) := tlFresh_step hinv hg hgp
    have s2 := note_step (g := g) s1.inv hcx hnp hne
    refine ⟨none, note g cx (tlFresh g cx w), by simp [tlSet_tlInit], ?_⟩
    exact {
      s := s1.trans s2 (fun _ _ h => h)
      l := (tlFresh_loc).trans note_loc (Nat.le_refl _)
      cur := by simp [tlGet, note, tlFresh, aget]
      est := by simp [note]
      save := hget.symm
      ctxs := rfl, defs := rfl, nl := rfl, nc := rfl, ng := rfl }

structure ExitSpec (g : Gid) (w : World) (save : Option CtxId) (w1 : World) : Prop where
  s : Step none w w1
  l : Loc g none w w1
  cur : tlGet g ctxKey w1 = save
  none_tls : save = none → w1.tls g = none
  ctxs : w1.ctxs = w.ctxs
  defs : w1.defs = w.defs
  nl : w1.nextLoader = w.nextLoader
  nc : w1.nextCtx = w.nextCtx
  ng : w1.nextGid = w.nextGid
  est : w1.estab = w.estab

theorem dwcExit_spec {g : Nat} {save : Option CtxId} {w : World} (hinv : Inv w) (hp : w.pending = []) (hg : g < w.nextGid)
    (hcur : (tlGet g ctxKey w).isSome) : ∃ w1, dwcExit g save w = some w1 ∧ ExitSpec g w save w1 := by
  have hgp := not_pend_of_nil hp g
  cases save with
  | some s =>
    obtain ⟨t, ht⟩ : ∃ t, w.tls g = some t := by
      unfold tlGet at hcur
      cases h : w.tls g with
      | none => simp [h] at hcur
      | some t => exact ⟨t, rfl⟩
    have hset := tlSet_eq (v := s) ht
    refine ⟨tlPut g (aset ctxKey s t) w, by simp [dwcExit, hset], ?_⟩
    exact {
      s := tlSet_step hinv hg hgp hset
      l := tlPut_loc
      cur := by simp [tlGet, tlPut, aget_aset_same]
      none_tls := by intro h; cases h
      ctxs := rfl, defs := rfl, nl := rfl, nc := rfl, ng := rfl, est := rfl }
  | none =>
    refine ⟨tlCleanup g w, rfl, ?_⟩
    exact {
      s := tlCleanup_step hinv hg hgp
      l := tlCleanup_loc
      cur := by simp [tlGet, tlCleanup]
      none_tls := by intro _; simp [tlCleanup]
      ctxs := rfl, defs := rfl, nl := rfl, nc := rfl, ng := rfl, est := rfl }

/-! ## the continuation of a goroutine and its current context -/

/-- `cur` is what `threadlocal.Get(PuppetContextKey)` answers on the goroutine now; the continuation is consistent with it:
    a body runs with the context it was handed as the current one, a deferred restore puts back the context the frames
    below it expect, and every context the goroutine works on was installed for it -/
def StackOK (gid : Gid) (est : List (Gid × CtxId)) : Option CtxId → List Frame → Prop
  | cur, [] => cur = none
  | cur, .run _ c :: k => cur = some c ∧ (gid, c) ∈ est ∧ StackOK gid est cur k
  | cur, .parent _ _ _ root :: k => cur = some root ∧ (gid, root) ∈ est ∧ StackOK gid est cur k
  | cur, .restoreCtx save :: k => cur.isSome = true ∧ StackOK gid est save k
  | cur, .restoreLoader c _ :: k => (gid, c) ∈ est ∧ StackOK gid est cur k
  | cur, .catchK :: k => StackOK gid est cur k
  | _, .endG :: k => k = []
  | cur, .endRoot :: k => k = [] ∧ cur = none

theorem StackOK.mono {gid : Gid} {est est' : List (Gid × CtxId)} (hm : ∀ e ∈ est, e ∈ est') :
    ∀ {k : List Frame} {cur : Option CtxId}, StackOK gid est cur k → StackOK gid est' cur k := by
  intro k
  induction k with
  | nil => intro cur h; exact h
  | cons f k ih =>
    intro cur h
    cases f with
    | run p c => exact ⟨h.1, hm _ h.2.1, ih h.2.2⟩
    | parent id ctch p root => exact ⟨h.1, hm _ h.2.1, ih h.2.2⟩
    | restoreCtx save => exact ⟨h.1, ih h.2⟩
    | restoreLoader c l => exact ⟨hm _ h.1, ih h.2⟩
    | catchK => exact ih h
    | endG => exact h
    | endRoot => exact h

structure GOK (w : World) (g : GS) : Prop where
  glt : g.gid < w.nextGid
  unst : g.started = false → w.tls g.gid = none ∧ g.ctx0 < w.nextCtx ∧ (∀ g', (g', g.ctx0) ∉ w.estab) ∧
    g.panicking = false ∧ ∃ p, g.k = [.run p g.ctx0, .endG]
  st : g.started = true → StackOK g.gid w.estab (tlGet g.gid ctxKey w) g.k

/-- what one micro-step of goroutine `g` guarantees -/
structure GSpec (g : GS) (w : World) (r : StepR) : Prop where
  inv : Inv r.w
  pend : r.w.pending = []
  ctxMono : w.nextCtx ≤ r.w.nextCtx
  ldMono : w.nextLoader ≤ r.w.nextLoader
  estMono : ∀ e ∈ w.estab, e ∈ r.w.estab
  loc : Loc g.gid (if g.started = true then none else some g.ctx0) w r.w
  logOK : LogOK w → LogOK r.w
  /-- only context objects installed for this goroutine (or made for it, before it starts) are written -/
  frame : ∀ i, i < w.nextCtx → (g.gid, i) ∉ w.estab → ¬(g.started = false ∧ i = g.ctx0) → r.w.ctxs i = w.ctxs i
  gid : r.g.gid = g.gid
  ctx0 : r.g.ctx0 = g.ctx0
  gok : GOK r.w r.g
  started : r.g.started = true
  nextGid : r.w.nextGid = w.nextGid + (if r.spawned.isSome then 1 else 0)
  spawned : ∀ n, r.spawned = some n → n.gid = w.nextGid ∧ GOK r.w n ∧ n.started = false ∧ n.ctx0 = w.nextCtx ∧
    (r.w.ctxs n.ctx0).vars = (w.ctxs (match g.k with | .run _ c :: _ => c | _ => 0)).vars ∧
    (r.w.ctxs n.ctx0).stack = (w.ctxs (match g.k with | .run _ c :: _ => c | _ => 0)).stack

theorem mkSpec {g : GS} {w w' : World} {x : Option CtxId} {g' : GS}
    (hp : w.pending = [])
    (s : Step x w w') (l : Loc g.gid (if g.started = true then none else some g.ctx0) w w')
    (hld : w.nextLoader ≤ w'.nextLoader)
    (hx : ∀ i, x = some i → i < w.nextCtx → (g.gid, i) ∈ w.estab ∨ (g.started = false ∧ i = g.ctx0))
    (hgid : g'.gid = g.gid) (hc0 : g'.ctx0 = g.ctx0) (hng : w'.nextGid = w.nextGid) (hgl : g.gid < w.nextGid)
    (hst : g'.started = true) (hk : StackOK g.gid w'.estab (tlGet g.gid ctxKey w') g'.k) :
    GSpec g w { g := g', w := w', spawned := none } where
  inv := s.inv
  pend := by rw [l.pend, hp]
  ctxMono := s.ctxMono
  ldMono := hld
  estMono := s.estMono
  loc := l
  logOK := s.logOK
  frame := by
    intro i hi hne hn0
    apply s.frame i hi ?_ (Or.inl (not_pendc_of_nil hp i))
    intro hxe
    rcases hx i hxe.symm hi with h | h
    · exact hne h
    · exact hn0 h
  gid := hgid
  ctx0 := hc0
  gok := ⟨by rw [hgid, hng]; exact hgl, fun h => (by rw [hst] at h; cases h), fun _ => (by rw [hgid]; exact hk)⟩
  started := hst
  nextGid := by simp [hng]
  spawned := by intro n h; cases h

@[simp] theorem setEntry_estab (l : LoaderId) (n : String) (b : Bool) (w : World) : (setEntry l n b w).estab = w.estab := by
  unfold setEntry; split <;> rfl
@[simp] theorem setEntry_pending (l : LoaderId) (n : String) (b : Bool) (w : World) : (setEntry l n b w).pending = w.pending := by
  unfold setEntry; split <;> rfl
@[simp] theorem setEntry_nextGid (l : LoaderId) (n : String) (b : Bool) (w : World) : (setEntry l n b w).nextGid = w.nextGid := by
  unfold setEntry; split <;> rfl
@[simp] theorem setEntry_nextLoader (l : LoaderId) (n : String) (b : Bool) (w : World) : (setEntry l n b w).nextLoader = w.nextLoader := by
  unfold setEntry; split <;> rfl

theorem leafStep_est (g : Gid) (c : CtxId) (l : Leaf) (w : World) :
    (leafStep g c l w).2.estab = w.estab ∧ (leafStep g c l w).2.pending = w.pending ∧
    (leafStep g c l w).2.nextGid = w.nextGid ∧ (leafStep g c l w).2.nextLoader = w.nextLoader := by
  cases l with
  | obs => cases h : tlGet g ctxKey w <;> simp [leafStep, h, emit]
  | set k x => exact ⟨rfl, rfl, rfl, rfl⟩
  | get k => exact ⟨rfl, rfl, rfl, rfl⟩
  | del k => exact ⟨rfl, rfl, rfl, rfl⟩
  | push l => exact ⟨rfl, rfl, rfl, rfl⟩
  | pop => cases h : (w.ctxs c).stack <;> simp [leafStep, h, ctxUpd]
  | deftype n => cases h : (w.ctxs c).loader <;> simp [leafStep, h]
  | load n =>
    cases h2 : (w.ctxs c).loader <;> cases h1 : loadEntry w.defs (w.ctxs c).loader n <;> rw [h2] at h1 <;>
      simp [leafStep, h1, h2, emit]
  | panic => exact ⟨rfl, rfl, rfl, rfl⟩

theorem stepG_spec_start {gid ctx0 : Nat} {pn : Bool} {k : List Frame} {w : World}
    (hinv : Inv w) (hp : w.pending = []) (hg : GOK w ⟨gid, ctx0, false, pn, k⟩) :
    GSpec ⟨gid, ctx0, false, pn, k⟩ w (stepG ⟨gid, ctx0, false, pn, k⟩ w) := by
  obtain ⟨_, hc0, hne, hpn, p, hk⟩ := hg.unst rfl
  have hgl := hg.glt
  simp only at hgl hc0 hne hpn hk
  have e : stepG ⟨gid, ctx0, false, pn, k⟩ w =
      { g := ⟨gid, ctx0, true, pn, k⟩, w := setTag ctx0 (1000 + gid) (note gid ctx0 (tlFresh gid ctx0 w)) } := by
    simp [stepG, tlSet_tlInit]
  rw [e]
  have s1 : Step none w (tlFresh gid ctx0 w) := tlFresh_step hinv hgl (not_pend_of_nil hp _)
  have s2 := note_step (g := gid) s1.inv hc0 (not_pendc_of_nil hp _) hne
  have s3 := setTag_step (c := ctx0) (x := 1000 + gid) s2.inv
  refine mkSpec (x := some ctx0) hp (((s1.trans s2 (fun _ _ h => h)).weaken).trans s3 (fun _ _ h => h)) ?_ (Nat.le_refl _)
    ?_ rfl rfl rfl hgl rfl ?_
  · simp only [Bool.false_eq_true, if_false]
    exact ((tlFresh_loc).trans note_loc (Nat.le_refl _)).trans (Loc.of_same rfl rfl rfl) (Nat.le_refl _)
  · intro i hi _
    have : i = ctx0 := by simpa using hi.symm
    exact Or.inr ⟨rfl, this⟩
  · subst hk
    refine ⟨by simp [tlGet, setVar, setTag, ctxUpd, note, tlFresh, aget], by simp [setVar, setTag, ctxUpd, note], rfl⟩

theorem mkSpecS {gid ctx0 : Nat} {pn : Bool} {k : List Frame} {w w' : World} {x : Option CtxId} {pn' : Bool} {k' : List Frame}
    (hp : w.pending = []) (hgl : gid < w.nextGid) (s : Step x w w') (l : Loc gid none w w')
    (hld : w.nextLoader ≤ w'.nextLoader)
    (hx : ∀ i, x = some i → i < w.nextCtx → (gid, i) ∈ w.estab)
    (hng : w'.nextGid = w.nextGid)
    (hk : StackOK gid w'.estab (tlGet gid ctxKey w') k') :
    GSpec ⟨gid, ctx0, true, pn, k⟩ w { g := ⟨gid, ctx0, true, pn', k'⟩, w := w' } :=
  mkSpec (x := x) hp s (by simpa using l) hld (fun i hi hlt => Or.inl (hx i hi hlt)) rfl rfl hng hgl rfl hk

theorem tlGet_emit (g g' : Gid) (e : Ev) (w : World) : tlGet g ctxKey (emit g' e w) = tlGet g ctxKey w := rfl
theorem tlGet_ctxUpd (g : Gid) (c : CtxId) (f : Ctx → Ctx) (w : World) : tlGet g ctxKey (ctxUpd c f w) = tlGet g ctxKey w := rfl

theorem stepG_spec_panic {gid ctx0 : Nat} {k : List Frame} {w : World}
    (hinv : Inv w) (hp : w.pending = []) (hg : GOK w ⟨gid, ctx0, true, true, k⟩) :
    GSpec ⟨gid, ctx0, true, true, k⟩ w (stepG ⟨gid, ctx0, true, true, k⟩ w) := by
  have hst := hg.st rfl
  have hgl := hg.glt
  simp only at hst hgl
  cases k with
  | nil =>
    have e : stepG ⟨gid, ctx0, true, true, []⟩ w = { g := ⟨gid, ctx0, true, false, []⟩, w := w } := by simp [stepG]
    rw [e]
    exact mkSpecS (x := none) hp hgl (Step.refl hinv) Loc.refl (Nat.le_refl _) (fun _ h => by cases h) rfl hst
  | cons f k =>
    cases f with
    | run p c =>
      have e : stepG ⟨gid, ctx0, true, true, .run p c :: k⟩ w = { g := ⟨gid, ctx0, true, true, k⟩, w := w } := by simp [stepG]
      rw [e]
      exact mkSpecS (x := none) hp hgl (Step.refl hinv) Loc.refl (Nat.le_refl _) (fun _ h => by cases h) rfl hst.2.2
    | parent id ctch p root =>
      have e : stepG ⟨gid, ctx0, true, true, .parent id ctch p root :: k⟩ w = { g := ⟨gid, ctx0, true, true, k⟩, w := w } := by
        simp [stepG]
      rw [e]
      exact mkSpecS (x := none) hp hgl (Step.refl hinv) Loc.refl (Nat.le_refl _) (fun _ h => by cases h) rfl hst.2.2
    | restoreCtx save =>
      obtain ⟨w1, he, sp⟩ := dwcExit_spec (save := save) hinv hp hgl hst.1
      have e : stepG ⟨gid, ctx0, true, true, .restoreCtx save :: k⟩ w = { g := ⟨gid, ctx0, true, true, k⟩, w := w1 } := by
        simp [stepG, he]
      rw [e]
      refine mkSpecS (x := none) hp hgl sp.s sp.l (by rw [sp.nl]; exact Nat.le_refl _) (fun _ h => by cases h) sp.ng ?_
      rw [sp.cur, sp.est]; exact hst.2
    | restoreLoader c l =>
      have e : stepG ⟨gid, ctx0, true, true, .restoreLoader c l :: k⟩ w =
          { g := ⟨gid, ctx0, true, true, k⟩, w := ctxUpd c (fun y => { y with loader := l }) w } := by simp [stepG]
      rw [e]
      refine mkSpecS (x := some c) hp hgl (ctxUpd_step hinv) (Loc.of_same rfl rfl rfl) (Nat.le_refl _) ?_ rfl hst.2
      intro i hi _
      have : i = c := by simpa using hi.symm
      rw [this]; exact hst.1
    | catchK =>
      have e : stepG ⟨gid, ctx0, true, true, .catchK :: k⟩ w =
          { g := ⟨gid, ctx0, true, false, k⟩, w := emit gid .recovered w } := by simp [stepG]
      rw [e]
      exact mkSpecS (x := none) hp hgl (emit_step hinv EvOK.recovered) (Loc.of_same rfl rfl rfl) (Nat.le_refl _)
        (fun _ h => by cases h) rfl hst
    | endG =>
      have e : stepG ⟨gid, ctx0, true, true, .endG :: k⟩ w =
          { g := ⟨gid, ctx0, true, false, []⟩, w := tlCleanup gid (emit gid (.done .panicked) w) } := by simp [stepG]
      rw [e]
      have s1 := emit_step (g := gid) (e := .done .panicked) hinv EvOK.done
      have s2 := tlCleanup_step (g := gid) s1.inv hgl (not_pend_of_nil hp _)
      refine mkSpecS (x := none) hp hgl (s1.trans s2 (fun _ _ h => h))
        (Loc.trans (w := w) (w1 := emit gid (.done .panicked) w) (Loc.of_same rfl rfl rfl) tlCleanup_loc (Nat.le_refl _))
        (Nat.le_refl _) (fun _ h => by cases h) rfl ?_
      simp [StackOK, tlGet, tlCleanup]
    | endRoot =>
      have e : stepG ⟨gid, ctx0, true, true, .endRoot :: k⟩ w =
          { g := ⟨gid, ctx0, true, false, []⟩, w := emit gid (.done .panicked) w } := by simp [stepG]
      rw [e]
      refine mkSpecS (x := none) hp hgl (emit_step hinv EvOK.done) (Loc.of_same rfl rfl rfl) (Nat.le_refl _)
        (fun _ h => by cases h) rfl ?_
      exact hst.2

theorem bump_step {w : World} (h : Inv w) : Step none w { w with nextGid := w.nextGid + 1 } where
  inv := ⟨fun g hg => h.tlsFresh g (Nat.le_of_succ_le hg), h.pendNone, fun t ht => Nat.lt_succ_of_lt (h.pendLt t ht),
          h.pendNodup, h.hasKey, h.estabLt, h.pendCtxLt, h.pendCtxNodup, h.pendNotEstab, h.estabUniq⟩
  gidMono := Nat.le_succ _
  ctxMono := Nat.le_refl _
  estMono := fun _ h => h
  pendStay := fun _ h => Or.inl h
  logOK := logOK_same rfl rfl
  frame := fun _ _ _ _ => rfl

/-- `px.Fork` / `px.Go` as a micro-step: the new goroutine is there, not started, with a context of its own that holds
    the caller's variables and stack of this moment -/
theorem spawnS_spec {gid ctx0 : Nat} {k : List Frame} {c : CtxId} {p pq : Prog} {w : World}
    (hinv : Inv w) (hp : w.pending = []) (hg : GOK w ⟨gid, ctx0, true, false, .run pq c :: k⟩) :
    GSpec ⟨gid, ctx0, true, false, .run pq c :: k⟩ w (spawnS ⟨gid, ctx0, true, false, .run pq c :: k⟩ k c p w) := by
  have hst := hg.st rfl
  simp only at hst
  have s1 : Step none w (forkCtx c w).2 := forkCtx_step hinv
  have s2 := bump_step s1.inv
  have s := s1.trans s2 (fun _ _ h => h)
  simp only [spawnS]
  exact {
    inv := s.inv
    pend := hp
    ctxMono := s.ctxMono
    ldMono := Nat.le_succ _
    estMono := s.estMono
    loc := Loc.of_same rfl rfl rfl
    logOK := s.logOK
    frame := fun i hi _ _ => s.frame i hi (by simp) (Or.inl (not_pendc_of_nil hp i))
    gid := rfl
    ctx0 := rfl
    gok := ⟨Nat.lt_succ_of_lt hg.glt, fun h => (by cases h), fun _ => hst.2.2⟩
    started := rfl
    nextGid := by simp
    spawned := by
      intro n hn
      simp only [Option.some.injEq] at hn
      subst hn
      refine ⟨rfl, ⟨Nat.lt_succ_self _, fun _ => ⟨hinv.tlsFresh _ (Nat.le_refl _), Nat.lt_succ_self _,
        fun g' hc => Nat.lt_irrefl _ (hinv.estabLt g' _ hc), rfl, p, rfl⟩, fun h => (by cases h)⟩, rfl, rfl, ?_, ?_⟩
      · simp [forkCtx, newCtx, newLoader]
      · simp [forkCtx, newCtx, newLoader] }

/-- `pcore.Do` / `pcore.Try` up to the call of `DoWithParent` (any current context, also none) -/
theorem doEnter_spec {gid ctx0 : Nat} {k0 k : List Frame} {id : Nat} {ctch : Bool} {p : Prog} {w : World}
    (hinv : Inv w) (hp : w.pending = []) (hgl : gid < w.nextGid)
    (hk : StackOK gid w.estab (tlGet gid ctxKey w) k) :
    GSpec ⟨gid, ctx0, true, false, k0⟩ w (doEnter ⟨gid, ctx0, true, false, k0⟩ k id ctch p w) := by
  have s0 : Step none w (newCtx { loader := [0] } w).2 := newCtx_step hinv
  obtain ⟨save, w2, he, sp⟩ := dwcEnter_spec (g := gid) (cx := w.nextCtx) (w := (newCtx { loader := [0] } w).2)
    s0.inv hp hgl (Nat.lt_succ_self _) (fun g' => ctx_fresh_not_estab hinv g')
  have hroot : (newCtx { loader := [0] } w).1 = w.nextCtx := rfl
  have e : doEnter ⟨gid, ctx0, true, false, k0⟩ k id ctch p w =
      { g := ⟨gid, ctx0, true, false, .parent id ctch p w.nextCtx :: .restoreCtx save :: k⟩, w := w2 } := by
    simp [doEnter, hroot, he]
  rw [e]
  have sAll : Step none w w2 := s0.trans sp.s (fun _ _ h => h)
  refine mkSpecS (x := none) hp hgl sAll ?_ ?_ (fun _ h => by cases h) ?_ ?_
  · refine Loc.fresh (cx := w.nextCtx) ?_ (Nat.le_refl _)
    exact (Loc.trans (w := w) (w1 := (newCtx { loader := [0] } w).2) (Loc.of_same rfl rfl rfl) sp.l (Nat.le_succ _))
  · rw [sp.nl]; exact Nat.le_refl _
  · rw [sp.ng]; rfl
  · refine ⟨sp.cur, sp.est, ?_, ?_⟩
    · rw [sp.cur]; rfl
    · have : save = tlGet gid ctxKey w := sp.save
      rw [this]
      exact StackOK.mono sAll.estMono hk

theorem stepG_spec_run {gid ctx0 : Nat} {k : List Frame} {p : Prog} {c : CtxId} {w : World}
    (hinv : Inv w) (hp : w.pending = []) (hg : GOK w ⟨gid, ctx0, true, false, .run p c :: k⟩) :
    GSpec ⟨gid, ctx0, true, false, .run p c :: k⟩ w (stepG ⟨gid, ctx0, true, false, .run p c :: k⟩ w) := by
  have hst := hg.st rfl
  have hgl := hg.glt
  simp only at hst hgl
  obtain ⟨hcur, hest, hk⟩ := hst
  have hgp := not_pend_of_nil hp gid
  cases p with
  | skip =>
    have e : stepG ⟨gid, ctx0, true, false, .run .skip c :: k⟩ w = { g := ⟨gid, ctx0, true, false, k⟩, w := w } := by simp [stepG]
    rw [e]
    exact mkSpecS (x := none) hp hgl (Step.refl hinv) Loc.refl (Nat.le_refl _) (fun _ h => by cases h) rfl hk
  | seq p q =>
    have e : stepG ⟨gid, ctx0, true, false, .run (.seq p q) c :: k⟩ w =
        { g := ⟨gid, ctx0, true, false, .run p c :: .run q c :: k⟩, w := w } := by simp [stepG]
    rw [e]
    exact mkSpecS (x := none) hp hgl (Step.refl hinv) Loc.refl (Nat.le_refl _) (fun _ h => by cases h) rfl
      ⟨hcur, hest, hcur, hest, hk⟩
  | recover p =>
    have e : stepG ⟨gid, ctx0, true, false, .run (.recover p) c :: k⟩ w =
        { g := ⟨gid, ctx0, true, false, .run p c :: .catchK :: k⟩, w := w } := by simp [stepG]
    rw [e]
    exact mkSpecS (x := none) hp hgl (Step.refl hinv) Loc.refl (Nat.le_refl _) (fun _ h => by cases h) rfl
      ⟨hcur, hest, hk⟩
  | leaf l =>
    have hpre : Pre gid c w := ⟨hinv, hcur, hgl, hgp, hest⟩
    obtain ⟨sl, tl⟩ := leafStep_step (l := l) hpre
    obtain ⟨e1, e2, e3, e4⟩ := leafStep_est gid c l w
    have e : stepG ⟨gid, ctx0, true, false, .run (.leaf l) c :: k⟩ w =
        { g := ⟨gid, ctx0, true, decide ((leafStep gid c l w).1 = .panicked), k⟩, w := (leafStep gid c l w).2 } := by
      by_cases h : (leafStep gid c l w).1 = .panicked <;> simp [stepG, panicS, h]
    rw [e]
    refine mkSpecS (x := some c) hp hgl sl (Loc.of_same tl e1 e2) (by rw [e4]; exact Nat.le_refl _) ?_ e3 ?_
    · intro i hi _
      have : i = c := by simpa using hi.symm
      rw [this]; exact hest
    · simp only [tlGet, tl, e1]; exact hk
  | doctx id p =>
    have sF : Step none w (forkCtx c w).2 := forkCtx_step hinv
    have sV : Step (some w.nextCtx) (forkCtx c w).2 (setTag w.nextCtx id (forkCtx c w).2) := setTag_step sF.inv
    obtain ⟨save, w2, he, sp⟩ := dwcEnter_spec (g := gid) (cx := w.nextCtx) (w := setTag w.nextCtx id (forkCtx c w).2)
      sV.inv hp hgl (Nat.lt_succ_self _) (fun g' => ctx_fresh_not_estab hinv g')
    have e : stepG ⟨gid, ctx0, true, false, .run (.doctx id p) c :: k⟩ w =
        { g := ⟨gid, ctx0, true, false, .run p w.nextCtx :: .restoreCtx save :: k⟩, w := w2 } := by
      simp [stepG, he]
    rw [e]
    have sAll : Step (some w.nextCtx) w w2 :=
      (sF.weaken.trans sV (fun _ _ h => h)).trans sp.s (fun _ _ _ => by simp)
    refine mkSpecS (x := some w.nextCtx) hp hgl sAll ?_ ?_ ?_ ?_ ?_
    · refine Loc.fresh (cx := w.nextCtx) ?_ (Nat.le_refl _)
      exact (Loc.trans (w := w) (w1 := setTag w.nextCtx id (forkCtx c w).2) (Loc.of_same rfl rfl rfl) sp.l
        (Nat.le_succ _))
    · rw [sp.nl]; exact Nat.le_succ _
    · intro i hi hlt
      have : i = w.nextCtx := by simpa using hi.symm
      rw [this] at hlt; exact absurd hlt (Nat.lt_irrefl _)
    · rw [sp.ng]; rfl
    · refine ⟨sp.cur, sp.est, ?_, ?_⟩
      · rw [sp.cur]; rfl
      · have : save = tlGet gid ctxKey w := sp.save
        rw [this, hcur]
        exact StackOK.mono sAll.estMono (hcur ▸ hk)
  | dodo id p =>
    have e : stepG ⟨gid, ctx0, true, false, .run (.dodo id p) c :: k⟩ w =
        doEnter ⟨gid, ctx0, true, false, .run (.dodo id p) c :: k⟩ k id false p w := by simp [stepG]
    rw [e]
    exact doEnter_spec hinv hp hgl (hcur ▸ hk)
  | dotry id p =>
    have e : stepG ⟨gid, ctx0, true, false, .run (.dotry id p) c :: k⟩ w =
        doEnter ⟨gid, ctx0, true, false, .run (.dotry id p) c :: k⟩ k id true p w := by simp [stepG]
    rw [e]
    exact doEnter_spec hinv hp hgl (hcur ▸ hk)
  | doloader p =>
    have e : stepG ⟨gid, ctx0, true, false, .run (.doloader p) c :: k⟩ w =
        { g := ⟨gid, ctx0, true, false, .run p c :: .restoreLoader c (w.ctxs c).loader :: k⟩,
          w := ctxUpd c (fun y => { y with loader := (newLoader w).1 :: (w.ctxs c).loader }) (newLoader w).2 } := by
      simp [stepG]
    rw [e]
    have s1 : Step none w (newLoader w).2 := newLoader_step hinv
    have s2 := ctxUpd_step (c := c) (f := fun y => { y with loader := (newLoader w).1 :: (w.ctxs c).loader }) s1.inv
    refine mkSpecS (x := some c) hp hgl (s1.weaken.trans s2 (fun _ _ h => h)) (Loc.of_same rfl rfl rfl) (Nat.le_succ _) ?_ rfl ?_
    · intro i hi _
      have : i = c := by simpa using hi.symm
      rw [this]; exact hest
    · exact ⟨hcur, hest, hest, hk⟩
  | fork p =>
    have e : stepG ⟨gid, ctx0, true, false, .run (.fork p) c :: k⟩ w =
        spawnS ⟨gid, ctx0, true, false, .run (.fork p) c :: k⟩ k c p w := by simp [stepG]
    rw [e]
    exact spawnS_spec hinv hp hg
  | go p =>
    have e : stepG ⟨gid, ctx0, true, false, .run (.go p) c :: k⟩ w =
        spawnS ⟨gid, ctx0, true, false, .run (.go p) c :: k⟩ k c p w := by simp [stepG, hcur]
    rw [e]
    exact spawnS_spec hinv hp hg

theorem stepG_spec_normal {gid ctx0 : Nat} {k : List Frame} {w : World}
    (hinv : Inv w) (hp : w.pending = []) (hg : GOK w ⟨gid, ctx0, true, false, k⟩) :
    GSpec ⟨gid, ctx0, true, false, k⟩ w (stepG ⟨gid, ctx0, true, false, k⟩ w) := by
  have hst := hg.st rfl
  have hgl := hg.glt
  simp only at hst hgl
  cases k with
  | nil =>
    have e : stepG ⟨gid, ctx0, true, false, []⟩ w = { g := ⟨gid, ctx0, true, false, []⟩, w := w } := by simp [stepG]
    rw [e]
    exact mkSpecS (x := none) hp hgl (Step.refl hinv) Loc.refl (Nat.le_refl _) (fun _ h => by cases h) rfl hst
  | cons f k =>
    cases f with
    | run p c => exact stepG_spec_run hinv hp hg
    | parent id ctch p root =>
      obtain ⟨hcur, hest, hk⟩ := hst
      have sF : Step none w (forkCtx root w).2 := forkCtx_step hinv
      obtain ⟨save, w2, he, sp⟩ := dwcEnter_spec (g := gid) (cx := w.nextCtx) (w := (forkCtx root w).2)
        sF.inv hp hgl (Nat.lt_succ_self _) (fun g' => ctx_fresh_not_estab hinv g')
      have sV := setTag_step (c := w.nextCtx) (x := id) sp.s.inv
      have e : stepG ⟨gid, ctx0, true, false, .parent id ctch p root :: k⟩ w =
          { g := ⟨gid, ctx0, true, false, .run p w.nextCtx :: .restoreCtx save :: ((if ctch then [Frame.catchK] else []) ++ k)⟩,
            w := setTag w.nextCtx id w2 } := by
        simp [stepG, he]
      rw [e]
      have sAll : Step (some w.nextCtx) w (setTag w.nextCtx id w2) :=
        ((sF.trans sp.s (fun _ _ h => h)).weaken).trans sV (fun _ _ h => h)
      refine mkSpecS (x := some w.nextCtx) hp hgl sAll ?_ ?_ ?_ ?_ ?_
      · refine Loc.fresh (cx := w.nextCtx) ?_ (Nat.le_refl _)
        exact Loc.trans (w := w) (w1 := w2)
          (Loc.trans (w := w) (w1 := (forkCtx root w).2) (Loc.of_same rfl rfl rfl) sp.l (Nat.le_succ _))
          (Loc.of_same rfl rfl rfl) sAll.ctxMono
      · show w.nextLoader ≤ w2.nextLoader
        rw [sp.nl]; exact Nat.le_succ _
      · intro i hi hlt
        have : i = w.nextCtx := by simpa using hi.symm
        rw [this] at hlt; exact absurd hlt (Nat.lt_irrefl _)
      · show w2.nextGid = w.nextGid
        rw [sp.ng]; rfl
      · have hsave : save = some root := by rw [sp.save]; exact hcur
        refine ⟨sp.cur, sp.est, ?_, ?_⟩
        · show (tlGet gid ctxKey w2).isSome = true
          rw [sp.cur]; rfl
        · rw [hsave]
          have hk' : StackOK gid (setTag w.nextCtx id w2).estab (some root) k :=
            StackOK.mono sAll.estMono (hcur ▸ hk)
          cases ctch
          · exact hk'
          · exact hk'
    | restoreCtx save =>
      obtain ⟨w1, he, sp⟩ := dwcExit_spec (save := save) hinv hp hgl hst.1
      have e : stepG ⟨gid, ctx0, true, false, .restoreCtx save :: k⟩ w = { g := ⟨gid, ctx0, true, false, k⟩, w := w1 } := by
        simp [stepG, he]
      rw [e]
      refine mkSpecS (x := none) hp hgl sp.s sp.l (by rw [sp.nl]; exact Nat.le_refl _) (fun _ h => by cases h) sp.ng ?_
      rw [sp.cur, sp.est]; exact hst.2
    | restoreLoader c l =>
      have e : stepG ⟨gid, ctx0, true, false, .restoreLoader c l :: k⟩ w =
          { g := ⟨gid, ctx0, true, false, k⟩, w := ctxUpd c (fun y => { y with loader := l }) w } := by simp [stepG]
      rw [e]
      refine mkSpecS (x := some c) hp hgl (ctxUpd_step hinv) (Loc.of_same rfl rfl rfl) (Nat.le_refl _) ?_ rfl hst.2
      intro i hi _
      have : i = c := by simpa using hi.symm
      rw [this]; exact hst.1
    | catchK =>
      have e : stepG ⟨gid, ctx0, true, false, .catchK :: k⟩ w = { g := ⟨gid, ctx0, true, false, k⟩, w := w } := by simp [stepG]
      rw [e]
      exact mkSpecS (x := none) hp hgl (Step.refl hinv) Loc.refl (Nat.le_refl _) (fun _ h => by cases h) rfl hst
    | endG =>
      have e : stepG ⟨gid, ctx0, true, false, .endG :: k⟩ w =
          { g := ⟨gid, ctx0, true, false, []⟩, w := tlCleanup gid (emit gid (.done .normal) w) } := by simp [stepG]
      rw [e]
      have s1 := emit_step (g := gid) (e := .done .normal) hinv EvOK.done
      have s2 := tlCleanup_step (g := gid) s1.inv hgl (not_pend_of_nil hp _)
      refine mkSpecS (x := none) hp hgl (s1.trans s2 (fun _ _ h => h))
        (Loc.trans (w := w) (w1 := emit gid (.done .normal) w) (Loc.of_same rfl rfl rfl) tlCleanup_loc (Nat.le_refl _))
        (Nat.le_refl _) (fun _ h => by cases h) rfl ?_
      simp [StackOK, tlGet, tlCleanup]
    | endRoot =>
      have e : stepG ⟨gid, ctx0, true, false, .endRoot :: k⟩ w =
          { g := ⟨gid, ctx0, true, false, []⟩, w := emit gid (.done .normal) w } := by simp [stepG]
      rw [e]
      refine mkSpecS (x := none) hp hgl (emit_step hinv EvOK.done) (Loc.of_same rfl rfl rfl) (Nat.le_refl _)
        (fun _ h => by cases h) rfl ?_
      exact hst.2

/-- every micro-step of every goroutine in a well-formed world -/
theorem stepG_spec {g : GS} {w : World} (hinv : Inv w) (hp : w.pending = []) (hg : GOK w g) : GSpec g w (stepG g w) := by
  obtain ⟨gid, ctx0, started, pn, k⟩ := g
  cases started with
  | false => exact stepG_spec_start hinv hp hg
  | true =>
    cases pn with
    | true => exact stepG_spec_panic hinv hp hg
    | false => exact stepG_spec_normal hinv hp hg

end Pcore.Tls
