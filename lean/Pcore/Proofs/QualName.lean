import Pcore.Proofs.Tokens
/-!
Layer 2 of C05 for QUALIFIED type names (`My::Thing`, `A::B::C`): the lexer reads the text of a qualified name back as one
`name` token.  Used for the written form of object instances (`My::Pt('x' => 1)`).
-/
namespace Pcore.Syntax

/-- one segment of a qualified name: an upper-case letter followed by word characters (no `:`) -/
def Seg (p : Char × Str) : Prop := isUpper p.1 = true ∧ ∀ d ∈ p.2, isWord d = true ∧ d ≠ ':' ∧ d ≠ runeError

/-- the text of the segments after the first: `::Seg::Seg…` -/
def qrest : List (Char × Str) → Str
  | [] => []
  | (c, w) :: r => ':' :: ':' :: c :: (w ++ qrest r)

/-- a qualified name: first segment and the following ones -/
def qname (c : Char) (w : Str) (r : List (Char × Str)) : Str := c :: (w ++ qrest r)

/-- word characters are consumed one by one -/
theorem lexIdent_word_prefix (u : Bool) (w acc : Str) (r : List Sym)
    (hw : ∀ c ∈ w, isWord c = true ∧ c ≠ ':' ∧ c ≠ runeError) :
    lexIdent u .body acc (syms w ++ r) = lexIdent u .body (w.reverse ++ acc) r := by
  induction w generalizing acc with
  | nil => simp
  | cons c cs ih =>
    obtain ⟨h1, h2, h3⟩ := hw c (by simp)
    simp only [syms_cons, List.cons_append]
    rw [lexIdent, rune_chr h3]; simp only [h2, if_false, h1, if_true]
    rw [ih _ (fun d hd => hw d (by simp [hd]))]
    simp

theorem upper_rune {c : Char} (hc : isUpper c = true) : (Sym.chr c).rune = some c ∧ c ≠ ':' := by
  have hn : 65 ≤ c.toNat ∧ c.toNat ≤ 90 := by
    simp only [isUpper, Bool.and_eq_true, decide_eq_true_eq] at hc
    exact ⟨hc.1, hc.2⟩
  have ne : ∀ d : Char, (d.toNat < 65 ∨ 90 < d.toNat) → c ≠ d := by
    intro d hd e; subst e; omega
  exact ⟨rune_chr (ne _ (by decide)), ne _ (by decide)⟩

theorem lexIdent_qual (r : List (Char × Str)) : ∀ (w acc : Str) (k : List Sym),
    (∀ c ∈ w, isWord c = true ∧ c ≠ ':' ∧ c ≠ runeError) → (∀ p ∈ r, Seg p) → identStop k →
    lexIdent true .body acc (syms (w ++ qrest r) ++ k) = .tok ⟨.name, acc.reverse ++ (w ++ qrest r)⟩ k false := by
  induction r with
  | nil =>
    intro w acc k hw _ hk
    simpa [qrest] using lexIdent_word' true w acc k hw hk
  | cons p r ih =>
    intro w acc k hw hr hk
    obtain ⟨c, w'⟩ := p
    obtain ⟨hc, hw'⟩ : Seg (c, w') := hr (c, w') (by simp)
    obtain ⟨hrune, hcol⟩ := upper_rune hc
    have hcolon : (Sym.chr ':').rune = some ':' := by decide
    simp only [qrest, syms_append, syms_cons, List.append_assoc, List.cons_append]
    rw [lexIdent_word_prefix true w acc _ hw]
    have hc' : isUpper c = true := hc
    have hrune' : (Sym.chr c).rune = some c := hrune
    have step : ∀ (a : Str) (tl : List Sym),
        lexIdent true .body a (.chr ':' :: .chr ':' :: .chr c :: tl) = lexIdent true .body (c :: ':' :: ':' :: a) tl := by
      intro a tl
      rw [lexIdent, hcolon]; simp only [if_true]
      rw [lexIdent.eq_def]; simp only [hcolon, if_true]
      rw [lexIdent.eq_def]; simp only [hrune', hc', if_true]
    rw [step]
    have := ih w' (c :: ':' :: ':' :: (w.reverse ++ acc)) k hw' (fun q hq => hr q (by simp [hq])) hk
    simp only [syms_append, List.append_assoc] at this
    rw [this]
    simp

/-- a qualified type name is read back as one name token -/
theorem nextToken_qname (il : Char → Bool) (c : Char) (w : Str) (r : List (Char × Str)) (k : List Sym)
    (hc : isUpper c = true) (hw : ∀ d ∈ w, isWord d = true ∧ d ≠ ':' ∧ d ≠ runeError) (hr : ∀ p ∈ r, Seg p)
    (hk : identStop k) :
    nextToken il (syms (qname c w r) ++ k) = .tok ⟨.name, qname c w r⟩ k false := by
  have hn : 65 ≤ c.toNat ∧ c.toNat ≤ 90 := by
    simp only [isUpper, Bool.and_eq_true, decide_eq_true_eq] at hc
    exact ⟨hc.1, hc.2⟩
  have ne : ∀ d : Char, (d.toNat < 65 ∨ 90 < d.toNat) → c ≠ d := by
    intro d hd e; subst e; omega
  have h1 : (Sym.chr c).rune = some c := rune_chr (ne _ (by decide))
  have h3 : ¬(c = ' ' ∨ c = '\t' ∨ c = '\n') := by intro h; rcases h with h | h | h <;> exact ne _ (by decide) h
  have h5 : ¬(c = '\'' ∨ c = '"') := by intro h; rcases h with h | h <;> exact ne _ (by decide) h
  have h7 : punctTok c = (fun _ => none) := by
    funext tl
    simp [punctTok, ne '{' (by decide), ne '}' (by decide), ne '[' (by decide), ne ']' (by decide),
      ne '(' (by decide), ne ')' (by decide), ne ',' (by decide), ne '.' (by decide)]
  have h9 : ¬(c = '-' ∨ c = '+') := by intro h; rcases h with h | h <;> exact ne _ (by decide) h
  have h10 : isDigit c = false := by
    simp only [isDigit, Bool.and_eq_false_imp, decide_eq_true_eq, decide_eq_false_iff_not]
    intro _; show ¬ c.toNat ≤ 57; omega
  unfold nextToken qname
  simp only [syms_cons, List.cons_append]
  rw [nextTok, h1]; simp only [Bool.false_eq_true, if_false, ne '\x00' (by decide), h3, ne '#' (by decide)]
  unfold startTok
  simp only [h5, ne '/' (by decide), if_false, h7, ne '=' (by decide), h9, h10, Bool.false_eq_true, hc, if_true]
  have := lexIdent_qual r w [c] k hw hr hk
  simpa using this

end Pcore.Syntax
