import Pcore.Model.Format
/-! Helper lemmas for C20: lengths of padded strings, digits. (Property theorems are in `Pcore/Props/C20.lean`.) -/
namespace Pcore.Format

@[simp] theorem spaces_length (n : Nat) : (spaces n).length = n := by simp [spaces]
@[simp] theorem zeros_length (n : Nat) : (zeros n).length = n := by simp [zeros]

theorem goPad_length_ge (minus zero : Bool) (w : Nat) (s : Str) : w ≤ (goPad minus zero (some w) s).length := by
  cases minus <;> cases zero <;> simp [goPad] <;> omega

theorem goPad_none (minus zero : Bool) (s : Str) : goPad minus zero none s = s := rfl

end Pcore.Format
