import Pcore.Model.Format
/-! Helper lemmas for C20: lengths of padded strings, digits. (Property theorems are in `Pcore/Props/C20.lean`.) -/
namespace Pcore.Format

instance : DecidableEq (Except Code Fmt) := fun a b =>
  match a, b with
  | .ok x, .ok y => if h : x = y then isTrue (by rw [h]) else isFalse (fun e => h (by cases e; rfl))
  | .error x, .error y => if h : x = y then isTrue (by rw [h]) else isFalse (fun e => h (by cases e; rfl))
  | .ok _, .error _ => isFalse (fun e => by cases e)
  | .error _, .ok _ => isFalse (fun e => by cases e)

/-- the Format record of a directive text (for examples; `simpleFmt 's'` when the text is not a directive) -/
def parsed (d : String) : Fmt :=
  match newFormat d.toList with
  | .ok f => f
  | .error _ => simpleFmt 's'

@[simp] theorem spaces_length (n : Nat) : (spaces n).length = n := by simp [spaces]
@[simp] theorem zeros_length (n : Nat) : (zeros n).length = n := by simp [zeros]

theorem goPad_length_ge (minus zero : Bool) (w : Nat) (s : Str) : w ≤ (goPad minus zero (some w) s).length := by
  cases minus <;> cases zero <;> simp [goPad] <;> omega

theorem goPad_none (minus zero : Bool) (s : Str) : goPad minus zero none s = s := rfl

end Pcore.Format
