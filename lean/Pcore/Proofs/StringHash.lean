import Pcore.Model.CollSpec
import Pcore.Proofs.GoMap
import Pcore.Proofs.OMap
/-!
`hash.StringHash`: the invariant (index = positions, keys unique), its preservation by every operation, and
the refinement of every operation to the specification `stepSpec`.
-/
namespace Pcore.Coll
open OMap

variable {β : Type}

/-- the index answers exactly the position of every key, and no key occurs twice -/
def SInv (h : SH β) : Prop :=
  (keys id h.entries).Nodup ∧ ∀ k, GoMap.get h.index k = idx id h.entries k

/-- abstraction: forget the index -/
def SH.abs (h : SH β) : SSpec β := ⟨h.entries, h.frozen⟩

theorem SInv_new : SInv (SH.new : SH β) := by simp [SInv, SH.new, keys, GoMap.get, idx]
theorem SInv_emptyFrozen : SInv (SH.emptyFrozen : SH β) := by simp [SInv, SH.emptyFrozen, keys, GoMap.get, idx]

theorem idx_congr {α' β' κ' : Type} [DecidableEq κ'] {key : α' → κ'} {m m' : List (α' × β')}
    (h : keys key m' = keys key m) (k : κ') : idx key m' k = idx key m k := by
  rw [idx_eq_kidx, idx_eq_kidx, h]

/-- the entry the index points to -/
theorem SInv.entry {h : SH β} (hi : SInv h) {k : String} {p : Nat} (hp : GoMap.get h.index k = some p) :
    ∃ e, h.entries[p]? = some e ∧ e.1 = k := by
  rw [hi.2] at hp
  have := idx_key hp
  cases he : h.entries[p]? with
  | none => simp [he] at this
  | some e => exact ⟨e, rfl, by simpa [he] using this⟩

theorem SInv.append {h : SH β} (hi : SInv h) {k : String} (hk : GoMap.get h.index k = none) (v : β) :
    SInv (h.append k v) ∧ (h.append k v).entries = put id h.entries (k, v) := by
  have hnone : idx id h.entries k = none := by rw [← hi.2]; exact hk
  have hnotin := idx_eq_none.mp hnone
  refine ⟨⟨?_, ?_⟩, ?_⟩
  · simp only [SH.append, keys, List.map_append, List.map_cons, List.map_nil, id]
    rw [List.nodup_append]
    refine ⟨hi.1, by simp, ?_⟩
    intro a ha b hb
    simp at hb; subst hb
    intro hab; subst hab; exact hnotin ha
  · intro k'
    simp only [SH.append, GoMap.get_set, hi.2]
    rw [idx_eq_kidx, idx_eq_kidx]
    simp only [keys, List.map_append, List.map_cons, List.map_nil, id]
    rw [kidx_append]
    have hl : (List.map (fun e : String × β => e.1) h.entries).length = h.entries.length := by simp
    by_cases hkk : k = k'
    · subst hkk
      rw [idx_eq_kidx] at hnone
      simp only [keys, id] at hnone
      simp [hnone]
    · simp only [hkk, if_false]
      cases kidx (List.map (fun e : String × β => e.1) h.entries) k' <;> rfl
  · simp [SH.append, put_eq, hnone]

theorem SInv.put {h : SH β} (hi : SInv h) (k : String) (v : β) :
    SInv (h.put k v).1 ∧ stepSpec h.abs (.put k v) = ((h.put k v).1.abs, (h.put k v).2) := by
  unfold SH.put
  by_cases hf : h.frozen = true
  · simp [hf, hi, stepSpec, SH.abs]
  · simp only [hf, if_false, Bool.false_eq_true]
    cases hp : GoMap.get h.index k with
    | none =>
      have := hi.append hp v
      have hnone : idx id h.entries k = none := by rw [← hi.2]; exact hp
      have hg := get_of_idx_none hnone
      have hfr : h.frozen = false := by simpa using hf
      refine ⟨this.1, ?_⟩
      rw [SH.abs, SH.abs, this.2]
      simp [stepSpec, hfr, hg, optOut, SH.append]
    | some p =>
      obtain ⟨e, he, hek⟩ := hi.entry hp
      have hidx : idx id h.entries k = some p := by rw [← hi.2]; exact hp
      have hks : keys id (h.entries.set p (k, v)) = keys id h.entries := keys_set (e := (k, v)) hidx
      have hg := get_of_idx_some hidx he
      subst hek
      simp only [he]
      refine ⟨⟨by simpa [hks] using hi.1, fun k' => ?_⟩, ?_⟩
      · simp only [idx_congr hks]; exact hi.2 k'
      · simp [stepSpec, SH.abs, hf, put_eq, hidx, hg, optOut]

theorem keys_eraseIdx {α' β' κ' : Type} (key : α' → κ') (m : List (α' × β')) (p : Nat) :
    keys key (m.eraseIdx p) = (keys key m).eraseIdx p := by
  induction m generalizing p with
  | nil => simp [keys]
  | cons x xs ih => cases p <;> simp_all [keys]

theorem SInv.delete {h : SH β} (hi : SInv h) (k : String) :
    SInv (h.delete k).1 ∧ stepSpec h.abs (.delete k) = ((h.delete k).1.abs, (h.delete k).2) := by
  unfold SH.delete
  by_cases hf : h.frozen = true
  · simp [hf, hi, stepSpec, SH.abs]
  · simp only [hf, if_false, Bool.false_eq_true]
    cases hp : GoMap.get h.index k with
    | none =>
      have hnone : idx id h.entries k = none := by rw [← hi.2]; exact hp
      have hg := get_of_idx_none hnone
      simp [hi, stepSpec, SH.abs, hf, delete_of_idx_none hnone, hg, optOut]
    | some p =>
      obtain ⟨e, he, hek⟩ := hi.entry hp
      have hidx : idx id h.entries k = some p := by rw [← hi.2]; exact hp
      have hg := get_of_idx_some hidx he
      simp only [he]
      refine ⟨⟨?_, fun k' => ?_⟩, ?_⟩
      · simp only [keys_eraseIdx]
        exact List.Nodup.sublist (List.eraseIdx_sublist _ _) hi.1
      · simp only [GoMap.get_mapVals, GoMap.get_erase, hi.2]
        rw [idx_eq_kidx id (h.entries.eraseIdx p) k', keys_eraseIdx]
        rw [idx_eq_kidx] at hidx
        rw [kidx_eraseIdx hi.1 hidx k', idx_eq_kidx]
        by_cases hk : k' = k
        · simp [hk]
        · simp only [hk, if_false]
          cases kidx (keys id h.entries) k' <;> simp [renum]
      · simp [stepSpec, SH.abs, hf, delete_of_idx_some hi.1 hidx, hg, optOut]

theorem SInv.get {h : SH β} (hi : SInv h) (k : String) : h.get k = optOut (OMap.get id h.entries k) := by
  unfold SH.get
  cases hp : GoMap.get h.index k with
  | none =>
    have hnone : idx id h.entries k = none := by rw [← hi.2]; exact hp
    simp [get_of_idx_none hnone, optOut]
  | some p =>
    obtain ⟨e, he, _⟩ := hi.entry hp
    have hidx : idx id h.entries k = some p := by rw [← hi.2]; exact hp
    simp [he, get_of_idx_some hidx he, optOut]

theorem SInv.includes {h : SH β} (hi : SInv h) (k : String) : h.includes k = OMap.includes id h.entries k := by
  unfold SH.includes
  cases hp : GoMap.get h.index k with
  | none =>
    have hnone : idx id h.entries k = none := by rw [← hi.2]; exact hp
    simp [includes_of_idx_none hnone]
  | some p =>
    obtain ⟨e, he, _⟩ := hi.entry hp
    have hidx : idx id h.entries k = some p := by rw [← hi.2]; exact hp
    simp [includes_of_idx_some hidx he]

theorem SInv.cia {h : SH β} (hi : SInv h) (k : String) (v : β) :
    SInv (h.computeIfAbsent k v).1 ∧
      stepSpec h.abs (.cia k v) = ((h.computeIfAbsent k v).1.abs, (h.computeIfAbsent k v).2) := by
  unfold SH.computeIfAbsent
  cases hp : GoMap.get h.index k with
  | none =>
    have hnone : idx id h.entries k = none := by rw [← hi.2]; exact hp
    have hg := get_of_idx_none hnone
    by_cases hf : h.frozen = true
    · simp [hf, hi, stepSpec, SH.abs, hg]
    · have := hi.append hp v
      have hfr : h.frozen = false := by simpa using hf
      refine ⟨by simpa [hfr] using this.1, ?_⟩
      simp only [hfr, Bool.false_eq_true, if_false]
      rw [SH.abs, SH.abs, this.2]
      simp [stepSpec, hfr, hg, SH.append]
  | some p =>
    obtain ⟨e, he, _⟩ := hi.entry hp
    have hidx : idx id h.entries k = some p := by rw [← hi.2]; exact hp
    have hg := get_of_idx_some hidx he
    simp [he, hi, stepSpec, SH.abs, hg]

theorem SH.put_frozen (h : SH β) (k : String) (v : β) : (h.put k v).1.frozen = h.frozen := by
  unfold SH.put
  split
  · rfl
  · split
    · split <;> rfl
    · rfl

theorem SInv.putAll {h : SH β} (hi : SInv h) (hf : h.frozen = false) (es : List (String × β)) :
    SInv (h.putAll es).1 ∧ (h.putAll es).2 = .unit ∧ (h.putAll es).1.frozen = false ∧
      (h.putAll es).1.entries = merge id h.entries es := by
  induction es generalizing h with
  | nil => simp [SH.putAll, hi, hf, merge]
  | cons e es ih =>
    have hp := hi.put e.1 e.2
    have hfr := SH.put_frozen h e.1 e.2
    have hspec : stepSpec h.abs (.put e.1 e.2) =
        (⟨OMap.put id h.entries (e.1, e.2), false⟩, optOut (OMap.get id h.entries e.1)) := by
      simp [stepSpec, SH.abs, hf]
    rw [hp.2] at hspec
    have h1 : (h.put e.1 e.2).1.entries = OMap.put id h.entries e := by
      have := congrArg (fun x => x.1.m) hspec; simpa [SH.abs] using this
    have h2 : (h.put e.1 e.2).2 = optOut (OMap.get id h.entries e.1) := by
      have := congrArg (fun x => x.2) hspec; simpa using this
    have ih' := ih hp.1 (by rw [hfr]; exact hf)
    have key : h.putAll (e :: es) = (h.put e.1 e.2).1.putAll es := by
      rw [SH.putAll]
      generalize hr : h.put e.1 e.2 = r at h2 ⊢
      obtain ⟨h', o⟩ := r
      simp only at h2
      cases hg : OMap.get id h.entries e.1 <;> simp [hg, optOut] at h2 <;> subst h2 <;> rfl
    rw [key]
    refine ⟨ih'.1, ih'.2.1, ih'.2.2.1, ?_⟩
    rw [ih'.2.2.2, h1]; rfl

/-- every operation preserves the invariant and answers what the specification answers -/
theorem SInv.step {h : SH β} (hi : SInv h) (op : SOp β) :
    SInv (stepSH h op).1 ∧ stepSpec h.abs op = ((stepSH h op).1.abs, (stepSH h op).2) := by
  cases op with
  | put k v => exact hi.put k v
  | delete k => exact hi.delete k
  | get k => simp [stepSH, hi, stepSpec, SH.abs, hi.get k]
  | includes k =>
    refine ⟨hi, ?_⟩
    simp only [stepSH, stepSpec, SH.abs, hi.includes k]
  | cia k v => exact hi.cia k v
  | copy => exact ⟨⟨hi.1, hi.2⟩, by simp [stepSH, stepSpec, SH.abs, SH.copy]⟩
  | freeze => exact ⟨⟨hi.1, hi.2⟩, by simp [stepSH, stepSpec, SH.abs, SH.freeze]⟩
  | merge o =>
    have hc : SInv h.copy := ⟨hi.1, hi.2⟩
    have := hc.putAll (by simp [SH.copy]) o
    refine ⟨this.1, ?_⟩
    simp only [stepSH, SH.merge, stepSpec, SH.abs]
    rw [this.2.1, this.2.2.1, this.2.2.2]; rfl
  | putAll o =>
    by_cases hf : h.frozen = true
    · cases o with
      | nil => simp [stepSH, SH.putAll, hi, stepSpec, SH.abs, merge]
      | cons e es =>
        have : h.put e.1 e.2 = (h, .rejected) := by simp [SH.put, hf]
        simp [stepSH, SH.putAll, this, hi, stepSpec, SH.abs, hf]
    · have hf' : h.frozen = false := by simpa using hf
      have := hi.putAll hf' o
      refine ⟨this.1, ?_⟩
      simp only [stepSH, stepSpec, SH.abs, hf']
      rw [this.2.1, this.2.2.1, this.2.2.2]; simp

/-! ### whole histories (fixed model; `Props/C09.lean` restates these for the fact-driven model) -/

/-- the invariant holds after ANY operation sequence -/
theorem sh_inv (h : SH β) (hi : SInv h) (ops : List (SOp β)) : SInv (runSH h ops).2 := by
  induction ops generalizing h with
  | nil => exact hi
  | cons op ops ih => exact ih _ (hi.step op).1

theorem sh_inv_new (ops : List (SOp β)) : SInv (runSH (SH.new : SH β) ops).2 := sh_inv _ SInv_new ops

/-- the invariant in the form of DESIGN.md: `index k = some i ↔ entries[i].key = k` -/
theorem sh_index_iff {h : SH β} (hi : SInv h) (k : String) (i : Nat) :
    GoMap.get h.index k = some i ↔ (h.entries[i]?).map (·.1) = some k := by
  rw [hi.2, idx_iff hi.1]; rfl

/-- every observation of every step equals the specification's, for ANY operation sequence -/
theorem sh_refine (h : SH β) (hi : SInv h) (ops : List (SOp β)) :
    (runSH h ops).1 = (runSpec h.abs ops).1 ∧ (runSH h ops).2.abs = (runSpec h.abs ops).2 := by
  induction ops generalizing h with
  | nil => exact ⟨rfl, rfl⟩
  | cons op ops ih =>
    have hs := hi.step op
    have := ih _ hs.1
    simp only [runSH, runSpec, hs.2]
    exact ⟨by rw [this.1]; rfl, this.2⟩

theorem sh_refine_new (ops : List (SOp β)) :
    (runSH (SH.new : SH β) ops).1 = (runSpec ⟨[], false⟩ ops).1 := (sh_refine _ SInv_new ops).1

theorem stepSpec_ne_fault (s : SSpec β) (op : SOp β) : (stepSpec s op).2 ≠ .fault := by
  cases op <;> simp only [stepSpec] <;> (try split) <;> (try split) <;> simp [optOut, boolOut] <;>
    (try (split <;> simp))

/-- no step of any history ends in a Go runtime fault (index out of range) -/
theorem sh_no_fault (h : SH β) (hi : SInv h) (op : SOp β) : (stepSH h op).2 ≠ .fault := by
  have := (hi.step op).2
  have h2 : (stepSH h op).2 = (stepSpec h.abs op).2 := by rw [this]
  rw [h2]; exact stepSpec_ne_fault _ _

/-- deletion keeps every other entry reachable, with its value -/
theorem sh_delete_keeps_reachable {h : SH β} (hi : SInv h) (k k' : String) (hne : k' ≠ k) :
    (h.delete k).1.get k' = h.get k' := by
  have hd := hi.delete k
  by_cases hf : h.frozen = true
  · simp [SH.delete, hf]
  · have hf' : h.frozen = false := by simpa using hf
    have he : (h.delete k).1.entries = delete id h.entries k := by
      have := congrArg (fun x => x.1.m) hd.2
      simpa [stepSpec, SH.abs, hf'] using this.symm
    rw [hd.1.get, hi.get, he, get_delete]; simp [hne]

/-- once frozen, no operation on that hash changes it (`copy`/`merge` build a new hash) -/
theorem sh_frozen (h : SH β) (hf : h.frozen = true) (op : SOp β)
    (hop : ∀ o, op ≠ .merge o) (hc : op ≠ .copy) : (stepSH h op).1 = h := by
  cases op with
  | put k v => simp [stepSH, SH.put, hf]
  | delete k => simp [stepSH, SH.delete, hf]
  | get k => rfl
  | includes k => rfl
  | cia k v =>
    simp only [stepSH, SH.computeIfAbsent, hf]
    split
    · split <;> rfl
    · simp
  | copy => exact absurd rfl hc
  | merge o => exact absurd rfl (hop o)
  | putAll o =>
    cases o with
    | nil => rfl
    | cons e es => simp [stepSH, SH.putAll, SH.put, hf]
  | freeze => cases h; simp_all [stepSH, SH.freeze]

/-- once frozen, every mutating operation is rejected — unless it would not have changed anything even on an
    unfrozen hash (`ComputeIfAbsent` of a present key, `PutAll` of nothing) -/
theorem sh_frozen_rejected (h : SH β) (hi : SInv h) (hf : h.frozen = true) (op : SOp β) (hm : op.mutates = true) :
    (stepSH h op).2 = .rejected ∨ (stepSpec ⟨h.entries, false⟩ op).1.m = h.entries := by
  cases op with
  | put k v => left; simp [stepSH, SH.put, hf]
  | delete k => left; simp [stepSH, SH.delete, hf]
  | cia k v =>
    have := (hi.cia k v).2
    cases hg : OMap.get id h.entries k with
    | some o => right; simp [stepSpec, hg]
    | none =>
      left
      have h2 : (stepSH h (.cia k v)).2 = (stepSpec h.abs (.cia k v)).2 := by rw [this]; rfl
      rw [h2]; simp [stepSpec, SH.abs, hg, hf]
  | putAll o =>
    cases o with
    | nil => right; simp [stepSpec, merge]
    | cons e es => left; simp [stepSH, SH.putAll, SH.put, hf]
  | get k => simp [SOp.mutates] at hm
  | includes k => simp [SOp.mutates] at hm
  | copy => simp [SOp.mutates] at hm
  | merge o => simp [SOp.mutates] at hm
  | freeze => simp [SOp.mutates] at hm

/-- `Keys`, `Values`, `Len` are projections of the iteration order that `sh_refine` pins down -/
theorem sh_views (h : SH β) :
    h.keys = h.pairs.map (·.1) ∧ h.values = h.pairs.map (·.2) ∧ h.len = h.pairs.length := ⟨rfl, rfl, rfl⟩


end Pcore.Coll

namespace Pcore.Coll
open OMap
variable {β : Type} [DecidableEq β]

/-- what `Equals` must answer: as many entries, and every entry of the first map is in the second with an equal value -/
def equalsSpec (a b : List (String × β)) : Bool :=
  decide (a.length = b.length) && a.all fun e => decide (OMap.get id b e.1 = some e.2)

theorem SInv.equalsLoop {o : SH β} (ho : SInv o) (es : List (String × β)) :
    SH.equalsLoop o es = some (es.all fun e => decide (OMap.get id o.entries e.1 = some e.2)) := by
  induction es with
  | nil => rfl
  | cons e es ih =>
    simp only [SH.equalsLoop, List.all_cons]
    cases hp : GoMap.get o.index e.1 with
    | none =>
      have hnone : idx id o.entries e.1 = none := by rw [← ho.2]; exact hp
      simp [get_of_idx_none hnone]
    | some p =>
      obtain ⟨x, hx, _⟩ := ho.entry hp
      have hidx : idx id o.entries e.1 = some p := by rw [← ho.2]; exact hp
      simp only [hx, get_of_idx_some hidx hx, ih]
      by_cases hv : x.2 = e.2 <;> simp [hv]

/-- `Equals` never faults and answers the order-insensitive comparison of the two maps -/
theorem SInv.equals {h o : SH β} (ho : SInv o) : h.equals o = some (equalsSpec h.entries o.entries) := by
  simp only [SH.equals, equalsSpec, ho.equalsLoop]
  by_cases hl : h.entries.length = o.entries.length <;> simp [hl]

end Pcore.Coll

namespace Pcore.Coll
open OMap

/-- pigeonhole: a duplicate-free list inside a list that is not longer contains all of it -/
theorem subset_of_nodup_subset_length {γ : Type} [DecidableEq γ] {l₁ l₂ : List γ} (hn : l₁.Nodup) (hs : l₁ ⊆ l₂)
    (hl : l₂.length ≤ l₁.length) : l₂ ⊆ l₁ := by
  induction l₁ generalizing l₂ with
  | nil =>
    have : l₂ = [] := List.eq_nil_of_length_eq_zero (by simpa using hl)
    simp [this]
  | cons x t ih =>
    have hx : x ∈ l₂ := hs (by simp)
    have hn' := List.nodup_cons.mp hn
    have hsub : t ⊆ l₂.erase x := by
      intro y hy
      have hne : y ≠ x := fun e => hn'.1 (e ▸ hy)
      exact (List.mem_erase_of_ne hne).mpr (hs (List.mem_cons_of_mem _ hy))
    have hlen : (l₂.erase x).length ≤ t.length := by
      rw [List.length_erase_of_mem hx]; simp at hl; omega
    have := ih hn'.2 hsub hlen
    intro y hy
    by_cases hyx : y = x
    · simp [hyx]
    · exact List.mem_cons_of_mem _ (this ((List.mem_erase_of_ne hyx).mpr hy))

theorem nodup_length_le {γ : Type} [DecidableEq γ] {l₁ l₂ : List γ} (hn : l₁.Nodup) (hs : l₁ ⊆ l₂) :
    l₁.length ≤ l₂.length := by
  induction l₁ generalizing l₂ with
  | nil => simp
  | cons x t ih =>
    have hx : x ∈ l₂ := hs (by simp)
    have hn' := List.nodup_cons.mp hn
    have hsub : t ⊆ l₂.erase x := by
      intro y hy
      have hne : y ≠ x := fun e => hn'.1 (e ▸ hy)
      exact (List.mem_erase_of_ne hne).mpr (hs (List.mem_cons_of_mem _ hy))
    have := ih hn'.2 hsub
    rw [List.length_erase_of_mem hx] at this
    have : 0 < l₂.length := List.length_pos_of_mem hx
    simp; omega

variable {β : Type} [DecidableEq β]

theorem get_eq_some_of_mem {a : List (String × β)} (hn : (keys id a).Nodup) {e : String × β} (he : e ∈ a) :
    OMap.get id a e.1 = some e.2 := by
  induction a with
  | nil => simp at he
  | cons x xs ih =>
    have hn' : x.1 ∉ keys id xs ∧ (keys id xs).Nodup := by simpa [keys] using hn
    rcases List.mem_cons.mp he with rfl | he
    · simp [OMap.get, getEntry]
    · have hne : ¬ x.1 = e.1 := by
        intro h
        apply hn'.1
        simp only [keys, List.mem_map, id]
        exact ⟨e, he, h.symm⟩
      have := ih hn'.2 he
      simpa [OMap.get, getEntry, hne] using this

theorem get_eq_none_of_not_mem {a : List (String × β)} {k : String} (h : k ∉ keys id a) : OMap.get id a k = none :=
  get_of_idx_none (idx_eq_none.mpr h)

theorem mem_keys_of_get {a : List (String × β)} {k : String} {v : β} (h : OMap.get id a k = some v) : k ∈ keys id a := by
  by_cases hk : k ∈ keys id a
  · exact hk
  · rw [get_eq_none_of_not_mem hk] at h; cases h

/-- for maps (unique keys) `Equals` is extensional equality of the lookups: the order of the entries is ignored -/
theorem equalsSpec_iff {a b : List (String × β)} (ha : (keys id a).Nodup) (hb : (keys id b).Nodup) :
    equalsSpec a b = true ↔ ∀ k, OMap.get id a k = OMap.get id b k := by
  simp only [equalsSpec, Bool.and_eq_true, decide_eq_true_eq, List.all_eq_true]
  constructor
  · rintro ⟨hl, hall⟩ k
    have hsub : keys id a ⊆ keys id b := by
      intro k hk
      obtain ⟨e, he, rfl⟩ := List.mem_map.mp hk
      exact mem_keys_of_get (hall e he)
    have hback := subset_of_nodup_subset_length ha hsub (by simp [keys, hl])
    by_cases hk : k ∈ keys id a
    · obtain ⟨e, he, rfl⟩ := List.mem_map.mp hk
      rw [show id e.1 = e.1 from rfl, get_eq_some_of_mem ha he, hall e he]
    · have hkb : k ∉ keys id b := fun h => hk (hback h)
      rw [get_eq_none_of_not_mem hk, get_eq_none_of_not_mem hkb]
  · intro h
    have hsub : keys id a ⊆ keys id b := by
      intro k hk
      obtain ⟨e, he, rfl⟩ := List.mem_map.mp hk
      exact mem_keys_of_get (v := e.2) (by rw [← h]; exact get_eq_some_of_mem ha he)
    have hsub' : keys id b ⊆ keys id a := by
      intro k hk
      obtain ⟨e, he, rfl⟩ := List.mem_map.mp hk
      exact mem_keys_of_get (v := e.2) (by rw [h]; exact get_eq_some_of_mem hb he)
    refine ⟨?_, fun e he => by rw [← h]; exact get_eq_some_of_mem ha he⟩
    have h1 := nodup_length_le ha hsub
    have h2 := nodup_length_le hb hsub'
    have : (keys id a).length = (keys id b).length := by omega
    simpa [keys] using this

end Pcore.Coll
