import Pcore.Model.Format
/-!
# Helper lemmas for the per-type format maps (`mergeFormats`, types/format.go after fix 77ca16d)

* the relation on key types (`Key.sub`) is a partial order and `Key.accepts` is monotone along it;
* insertion sort by a strict weak order answers a sorted permutation;
* a key has strictly more acceptors than every key that strictly accepts it, so in the merged map it comes first;
* hence the first accepting entry of the merged map is the entry of the most specific accepting key.
-/
namespace Pcore.Format

/-- the position of `Key.name` in the alphabet of the 16 names -/
def Key.nameIdx : Key → Nat
  | .any => 0 | .arr => 1 | .bin => 2 | .bool => 3 | .coll => 4 | .dflt => 5 | .float => 6 | .hash => 7 | .int => 8
  | .numeric => 9 | .obj => 10 | .regexp => 11 | .scalar => 12 | .str => 13 | .typ => 14 | .undef => 15

theorem Key.name_lt_iff (a b : Key) : decide (a.name < b.name) = decide (a.nameIdx < b.nameIdx) := by
  cases a <;> cases b <;> decide
theorem Key.nameIdx_inj (a b : Key) : a.nameIdx = b.nameIdx → a = b := by cases a <;> cases b <;> decide
theorem Key.sub_refl (a : Key) : Key.sub a a = true := by cases a <;> decide
theorem Key.sub_trans (a b c : Key) : Key.sub a b = true → Key.sub b c = true → Key.sub a c = true := by
  cases a <;> cases b <;> cases c <;> decide
theorem Key.sub_antisymm (a b : Key) : Key.sub a b = true → Key.sub b a = true → a = b := by
  cases a <;> cases b <;> decide
theorem Key.accepts_mono (a b : Key) (k : Kind) : Key.sub a b = true → b.accepts k = true → a.accepts k = true := by
  cases a <;> cases b <;> cases k <;> decide
/-- every key type that has the values of a kind as instances accepts the exact type of that kind -/
theorem Key.accepts_sub_exact (a : Key) (k : Kind) : a.accepts k = true → Key.sub a k.key = true := by
  cases a <;> cases k <;> decide
theorem Kind.key_accepts (k : Kind) : k.key.accepts k = true := by cases k <;> decide

/-! ### the order of the merged map -/

theorem entryLess_eq (keys : List Key) (a b : Key) :
    entryLess keys a b =
      (if acceptors keys a ≠ acceptors keys b then decide (acceptors keys a > acceptors keys b)
       else if a.rank ≠ b.rank then decide (a.rank < b.rank) else decide (a.nameIdx < b.nameIdx)) := by
  unfold entryLess
  simp only [bne_iff_ne, ne_eq, Key.name_lt_iff]

theorem entryLess_asymm (keys : List Key) (a b : Key) : entryLess keys a b = true → entryLess keys b a = false := by
  rw [entryLess_eq, entryLess_eq]
  by_cases h1 : acceptors keys a = acceptors keys b <;> by_cases h2 : a.rank = b.rank
  · simp only [h1, h2, ne_eq, not_true_eq_false, if_false, decide_eq_true_eq, decide_eq_false_iff_not]; omega
  · have h2' : ¬ b.rank = a.rank := fun h => h2 h.symm
    simp only [h1, h2, h2', ne_eq, not_true_eq_false, not_false_eq_true, if_false, if_true, decide_eq_true_eq, decide_eq_false_iff_not]; omega
  · have h1' : ¬ acceptors keys b = acceptors keys a := fun h => h1 h.symm
    simp only [h1, h1', ne_eq, not_false_eq_true, if_true, decide_eq_true_eq, decide_eq_false_iff_not, gt_iff_lt]; omega
  · have h1' : ¬ acceptors keys b = acceptors keys a := fun h => h1 h.symm
    simp only [h1, h1', ne_eq, not_false_eq_true, if_true, decide_eq_true_eq, decide_eq_false_iff_not, gt_iff_lt]; omega

/-- the three components as one number triple -/
theorem entryLess_false_iff (keys : List Key) (a b : Key) :
    entryLess keys a b = false ↔
      (acceptors keys a < acceptors keys b ∨
       (acceptors keys a = acceptors keys b ∧ (b.rank < a.rank ∨ (a.rank = b.rank ∧ b.nameIdx ≤ a.nameIdx)))) := by
  rw [entryLess_eq]
  by_cases h1 : acceptors keys a = acceptors keys b <;> by_cases h2 : a.rank = b.rank
  · rw [if_neg (by simpa using h1), if_neg (by simpa using h2), decide_eq_false_iff_not]
    constructor <;> intro h <;> omega
  · rw [if_neg (by simpa using h1), if_pos (by simpa using h2), decide_eq_false_iff_not]
    constructor <;> intro h <;> omega
  · rw [if_pos (by simpa using h1), decide_eq_false_iff_not]
    constructor <;> intro h <;> omega
  · rw [if_pos (by simpa using h1), decide_eq_false_iff_not]
    constructor <;> intro h <;> omega

theorem entryLess_negtrans (keys : List Key) (a b c : Key) :
    entryLess keys a b = false → entryLess keys b c = false → entryLess keys a c = false := by
  rw [entryLess_false_iff, entryLess_false_iff, entryLess_false_iff]
  omega

/-! ### insertion sort -/

theorem mem_insSorted {α} (less : α → α → Bool) (x z : α) : ∀ l, z ∈ insSorted less x l ↔ z = x ∨ z ∈ l
  | [] => by simp [insSorted]
  | y :: ys => by
      unfold insSorted
      split
      · simp
      · simp only [List.mem_cons, mem_insSorted less x z ys]
        constructor <;> (intro h; rcases h with h | h | h <;> simp [h])

theorem mem_insertionSort {α} (less : α → α → Bool) (z : α) : ∀ l, z ∈ insertionSort less l ↔ z ∈ l
  | [] => by simp [insertionSort]
  | x :: xs => by
      have ih := mem_insertionSort less z xs
      unfold insertionSort at *
      simp only [List.foldr_cons, mem_insSorted, ih, List.mem_cons]

/-- sorted: no later element is `less` than an earlier one -/
def Sorted {α} (less : α → α → Bool) (l : List α) : Prop := l.Pairwise (fun x y => less y x = false)

theorem insSorted_sorted {α} (less : α → α → Bool)
    (asym : ∀ a b, less a b = true → less b a = false)
    (nt : ∀ a b c, less a b = false → less b c = false → less a c = false) (x : α) :
    ∀ l, Sorted less l → Sorted less (insSorted less x l)
  | [], _ => by simp [insSorted, Sorted]
  | y :: ys, h => by
      unfold Sorted at h
      rw [List.pairwise_cons] at h
      unfold insSorted
      split
      · rename_i hxy
        unfold Sorted
        rw [List.pairwise_cons, List.pairwise_cons]
        refine ⟨?_, h.1, h.2⟩
        intro z hz
        rcases List.mem_cons.1 hz with rfl | hz
        · exact asym _ _ hxy
        · exact nt _ _ _ (h.1 z hz) (asym _ _ hxy)
      · rename_i hxy
        have hxy' : less x y = false := by simpa using hxy
        unfold Sorted
        rw [List.pairwise_cons]
        refine ⟨?_, insSorted_sorted less asym nt x ys h.2⟩
        intro z hz
        rcases (mem_insSorted less x z ys).1 hz with rfl | hz
        · exact hxy'
        · exact h.1 z hz

theorem insertionSort_sorted {α} (less : α → α → Bool)
    (asym : ∀ a b, less a b = true → less b a = false)
    (nt : ∀ a b c, less a b = false → less b c = false → less a c = false) :
    ∀ l, Sorted less (insertionSort less l)
  | [] => by simp [insertionSort, Sorted]
  | x :: xs => by
      have ih := insertionSort_sorted less asym nt xs
      unfold insertionSort at *
      simp only [List.foldr_cons]
      exact insSorted_sorted less asym nt x _ ih

/-! ### acceptors -/

theorem filter_length_lt {α} (p q : α → Bool) (a : α) :
    ∀ l : List α, (∀ x ∈ l, p x = true → q x = true) → a ∈ l → q a = true → p a = false →
      (l.filter p).length < (l.filter q).length
  | [], _, ha, _, _ => by cases ha
  | x :: xs, himp, ha, qa, pa => by
      have hle : ∀ l : List α, (∀ x ∈ l, p x = true → q x = true) → (l.filter p).length ≤ (l.filter q).length := by
        intro l
        induction l with
        | nil => intro _; simp
        | cons y ys ih =>
          intro h
          have ih' := ih (fun z hz => h z (List.mem_cons_of_mem _ hz))
          have hy := h y (List.mem_cons_self ..)
          simp only [List.filter_cons]
          cases hp : p y <;> cases hq : q y <;> simp_all <;> omega
      have himp' : ∀ z ∈ xs, p z = true → q z = true := fun z hz => himp z (List.mem_cons_of_mem _ hz)
      rcases List.mem_cons.1 ha with rfl | ha'
      · have := hle xs himp'
        simp only [List.filter_cons, qa, pa]
        simp
        omega
      · have ih := filter_length_lt p q a xs himp' ha' qa pa
        have hx := himp x (List.mem_cons_self ..)
        simp only [List.filter_cons]
        cases hp : p x <;> cases hq : q x <;> simp_all <;> omega

/-- a key has strictly more acceptors than a key that strictly accepts it -/
theorem acceptors_lt (keys : List Key) (a b : Key) (ha : a ∈ keys) (hba : Key.sub b a = true) (hab : Key.sub a b = false) :
    acceptors keys b < acceptors keys a := by
  unfold acceptors
  exact filter_length_lt _ _ a keys (fun o _ ho => Key.sub_trans o b a ho hba) ha (Key.sub_refl a) hab

theorem entryLess_of_strict (keys : List Key) (a b : Key) (ha : a ∈ keys) (hba : Key.sub b a = true) (hab : Key.sub a b = false) :
    entryLess keys a b = true := by
  have := acceptors_lt keys a b ha hba hab
  rw [entryLess_eq]
  split <;> simp_all <;> omega

/-! ### the first accepting entry of a sorted map is the entry of the least accepting key -/

theorem getFormat_sorted_least (keys : List Key) (L : List (Key × FTree))
    (hs : Sorted (fun (x y : Key × FTree) => entryLess keys x.1 y.1) L)
    (K : Key) (t : FTree) (k : Kind) (hK : K ∈ keys) (hm : (K, t) ∈ L) (hacc : K.accepts k = true)
    (hleast : ∀ e ∈ L, e.1.accepts k = true → Key.sub e.1 K = true)
    (huniq : ∀ e ∈ L, e.1 = K → e = (K, t)) :
    getFormat L k = t := by
  unfold getFormat
  cases hf : L.find? (fun e => e.1.accepts k) with
  | none =>
    have := List.find?_eq_none.1 hf (K, t) hm
    simp [hacc] at this
  | some e =>
    simp only
    obtain ⟨hp, as, bs, hL, has⟩ := List.find?_eq_some_iff_append.1 hf
    have heL : e ∈ L := by rw [hL]; simp
    by_cases hk : e.1 = K
    · rw [huniq e heL hk]
    · exfalso
      have hsub : Key.sub e.1 K = true := hleast e heL (by simpa using hp)
      have hnot : Key.sub K e.1 = false := by
        cases h : Key.sub K e.1 with
        | false => rfl
        | true => exact absurd (Key.sub_antisymm _ _ hsub h) hk
      have hless : entryLess keys K e.1 = true := entryLess_of_strict keys K e.1 hK hsub hnot
      -- (K, t) lies after e
      rw [hL] at hm
      rcases List.mem_append.1 hm with h1 | h1
      · have := has _ h1
        simp [hacc] at this
      · rcases List.mem_cons.1 h1 with h2 | h2
        · exact hk (by rw [← h2])
        · unfold Sorted at hs
          rw [hL, List.pairwise_append] at hs
          have := (List.pairwise_cons.1 hs.2.1).1 (K, t) h2
          simp only at this
          rw [hless] at this
          exact absurd this (by decide)

/-! ### dedupKeys -/
theorem mem_dedupKeys (k : Key) : ∀ l, k ∈ dedupKeys l ↔ k ∈ l
  | [] => by simp [dedupKeys]
  | x :: xs => by
      simp only [dedupKeys, List.mem_cons, List.mem_filter, mem_dedupKeys k xs, bne_iff_ne, ne_eq]
      by_cases h : k = x <;> simp [h]

theorem nodup_dedupKeys : ∀ l, (dedupKeys l).Nodup
  | [] => by simp [dedupKeys]
  | x :: xs => by
      simp only [dedupKeys, List.nodup_cons, List.mem_filter, bne_self_eq_false, Bool.false_eq_true, and_false,
        not_false_eq_true, true_and]
      exact (nodup_dedupKeys xs).filter _

end Pcore.Format

namespace Pcore.Format

/-! ### the merged map: keys are pairwise different, membership, order -/

theorem lookupKey_some_mem (m : List (Key × FTree)) (k : Key) (t : FTree) (h : lookupKey m k = some t) : (k, t) ∈ m := by
  unfold lookupKey at h
  cases hf : m.find? (fun e => e.1 = k) with
  | none => simp [hf] at h
  | some e =>
    simp [hf] at h
    have hm := List.mem_of_find?_eq_some hf
    have hp := List.find?_some hf
    have : e = (k, t) := by
      cases e with | mk a b => simp at hp h; simp [hp, h]
    rw [← this]; exact hm

theorem mergedEntries_fst (mt : FTree → FTree → FTree) (lo hi : List (Key × FTree)) (k : Key) (e : Key × FTree)
    (h : (match lookupKey (normLowerOf lo hi) k, lookupKey hi k with
      | some l, some h => some (k, mt l h)
      | some l, none => some (k, l)
      | none, some h => some (k, h)
      | none, none => none) = some e) : e.1 = k := by
  split at h <;> simp at h <;> (try rw [← h])

theorem filterMap_keys_nodup (f : Key → Option (Key × FTree)) (hf : ∀ k e, f k = some e → e.1 = k) :
    ∀ ks : List Key, ks.Nodup → ((ks.filterMap f).map (·.1)).Nodup
  | [], _ => by simp
  | k :: ks, h => by
      have hn := List.nodup_cons.1 h
      have ih := filterMap_keys_nodup f hf ks hn.2
      cases hk : f k with
      | none => simpa [List.filterMap_cons, hk] using ih
      | some e =>
        simp only [List.filterMap_cons, hk, List.map_cons, List.nodup_cons]
        refine ⟨?_, ih⟩
        intro hmem
        obtain ⟨e', he', hfst⟩ := List.mem_map.1 hmem
        obtain ⟨k', hk', hfk'⟩ := List.mem_filterMap.1 he'
        have h1 := hf k' e' hfk'
        have h2 := hf k e hk
        have : k' = k := by rw [← h1, hfst, h2]
        exact hn.1 (this ▸ hk')

theorem mergedEntries_keys_nodup (mt : FTree → FTree → FTree) (lo hi : List (Key × FTree)) :
    ((mergedEntries mt lo hi).map (·.1)).Nodup := by
  unfold mergedEntries
  exact filterMap_keys_nodup _ (fun k e h => mergedEntries_fst mt lo hi k e h) _ (nodup_dedupKeys _)

theorem sortEntries_mem (m : List (Key × FTree)) (e : Key × FTree) : e ∈ sortEntries m ↔ e ∈ m := by
  unfold sortEntries; exact mem_insertionSort _ e m

theorem sortEntries_sorted (m : List (Key × FTree)) :
    Sorted (fun (x y : Key × FTree) => entryLess (m.map (·.1)) x.1 y.1) (sortEntries m) := by
  unfold sortEntries
  exact insertionSort_sorted _ (fun a b => entryLess_asymm _ a.1 b.1) (fun a b c => entryLess_negtrans _ a.1 b.1 c.1) m

/-- in a list whose keys are pairwise different an entry is determined by its key -/
theorem entry_unique (m : List (Key × FTree)) (hn : (m.map (·.1)).Nodup) (e e' : Key × FTree) (he : e ∈ m) (he' : e' ∈ m)
    (hk : e.1 = e'.1) : e = e' := by
  induction m with
  | nil => cases he
  | cons x xs ih =>
    simp only [List.map_cons, List.nodup_cons] at hn
    rcases List.mem_cons.1 he with rfl | he1 <;> rcases List.mem_cons.1 he' with rfl | he2
    · rfl
    · exact absurd (List.mem_map.2 ⟨e', he2, hk.symm⟩) hn.1
    · exact absurd (List.mem_map.2 ⟨e, he1, hk⟩) hn.1
    · exact ih hn.2 he1 he2

/-- THE LOOKUP LAW of a merged map: the format applied to a kind is the entry of the most specific key that accepts the kind -/
theorem getFormat_sortEntries_least (m : List (Key × FTree)) (hn : (m.map (·.1)).Nodup)
    (K : Key) (t : FTree) (k : Kind) (hm : (K, t) ∈ m) (hacc : K.accepts k = true)
    (hleast : ∀ e ∈ m, e.1.accepts k = true → Key.sub e.1 K = true) :
    getFormat (sortEntries m) k = t := by
  refine getFormat_sorted_least (m.map (·.1)) (sortEntries m) (sortEntries_sorted m) K t k
    (List.mem_map.2 ⟨(K, t), hm, rfl⟩) ((sortEntries_mem m _).2 hm) hacc ?_ ?_
  · intro e he; exact hleast e ((sortEntries_mem m e).1 he)
  · intro e he hk
    exact entry_unique m hn e (K, t) ((sortEntries_mem m e).1 he) hm hk

/-- the entry of the exact key of a kind, when the map has one, is the one applied -/
theorem getFormat_sortEntries_exact (m : List (Key × FTree)) (hn : (m.map (·.1)).Nodup) (k : Kind) (t : FTree)
    (hm : (k.key, t) ∈ m) : getFormat (sortEntries m) k = t :=
  getFormat_sortEntries_least m hn k.key t k hm (Kind.key_accepts k) (fun e _ h => Key.accepts_sub_exact e.1 k h)

/-! ### which entries the merged map holds -/

theorem lookupKey_filter (m : List (Key × FTree)) (p : Key × FTree → Bool) (k : Key) (t : FTree)
    (h : lookupKey m k = some t) (hp : ∀ e ∈ m, e.1 = k → p e = true) : lookupKey (m.filter p) k = some t := by
  unfold lookupKey at *
  induction m with
  | nil => simp at h
  | cons x xs ih =>
    simp only [List.find?_cons] at h
    by_cases hx : x.1 = k
    · have hpx := hp x (List.mem_cons_self ..) hx
      simp [hx] at h
      simp [hpx, hx, h]
    · have hx' : decide (x.1 = k) = false := by simpa using hx
      rw [hx'] at h
      have ih' := ih h (fun e he => hp e (List.mem_cons_of_mem _ he))
      simp only [List.filter_cons]
      split
      · simp only [List.find?_cons, hx']; exact ih'
      · exact ih'

/-- a default entry whose key the user maps too — and that no OTHER user key accepts — is merged with the user's entry:
    the user's directive, the default's separators where the user gives none, the container formats merged -/
theorem mergedEntries_both (mt : FTree → FTree → FTree) (lo hi : List (Key × FTree)) (K : Key) (l h : FTree)
    (hl : lookupKey lo K = some l) (hh : lookupKey hi K = some h)
    (hno : ∀ K' ∈ hi.map (·.1), K' ≠ K → Key.sub K' K = false) :
    (K, mt l h) ∈ mergedEntries mt lo hi := by
  have hnl : lookupKey (normLowerOf lo hi) K = some l := by
    unfold normLowerOf
    apply lookupKey_filter lo _ K l hl
    intro e _ hek
    simp only [Bool.not_eq_true', List.any_eq_false, Bool.and_eq_true, bne_iff_ne, ne_eq, not_and, Bool.not_eq_true]
    intro K' hK' hne
    rw [hek] at hne ⊢
    exact hno K' hK' hne
  unfold mergedEntries
  refine List.mem_filterMap.2 ⟨K, ?_, ?_⟩
  · unfold mergedKeys
    rw [mem_dedupKeys]
    refine List.mem_append_right _ ?_
    have := lookupKey_some_mem hi K h hh
    exact List.mem_map.2 ⟨(K, h), this, rfl⟩
  · simp [hnl, hh]

/-- a user entry whose key is not among the remaining defaults is taken as it is -/
theorem mergedEntries_user_only (mt : FTree → FTree → FTree) (lo hi : List (Key × FTree)) (K : Key) (h : FTree)
    (hl : lookupKey (normLowerOf lo hi) K = none) (hh : lookupKey hi K = some h) :
    (K, h) ∈ mergedEntries mt lo hi := by
  unfold mergedEntries
  refine List.mem_filterMap.2 ⟨K, ?_, ?_⟩
  · unfold mergedKeys
    rw [mem_dedupKeys]
    exact List.mem_append_right _ (List.mem_map.2 ⟨(K, h), lookupKey_some_mem hi K h hh, rfl⟩)
  · simp [hl, hh]

theorem mergeMaps_both (fuel : Nat) (x : Key × FTree) (xs : List (Key × FTree)) (y : Key × FTree) (ys : List (Key × FTree)) :
    mergeMaps (fuel + 1) (some (x :: xs)) (some (y :: ys)) =
      some (sortEntries (mergedEntries (mergeTree fuel) (x :: xs) (y :: ys))) := by
  simp [mergeMaps]

/-- no container formats given by the user: the default's (non-empty) container formats stay -/
theorem mergeMaps_nil_right (fuel : Nat) (x : Key × FTree) (xs : List (Key × FTree)) :
    mergeMaps (fuel + 1) (some (x :: xs)) none = some (x :: xs) := by
  simp [mergeMaps]

theorem mergeTree_letter (fuel : Nat) (l h : FTree) : (mergeTree fuel l h).f.letter = h.f.letter := by
  cases fuel <;> simp [mergeTree, FTree.f]

theorem mergeTree_cf (fuel : Nat) (l h : FTree) : (mergeTree (fuel + 1) l h).cf = mergeMaps fuel l.cf h.cf := by
  simp [mergeTree, FTree.cf]

end Pcore.Format
