import Pcore.Proofs.FormatXEmbed
import Pcore.Proofs.FormatMergeG
/-!
# The 16-key model of `mergeFormats` IS the general one on the 16 default keys

`Format.lean` models the merge of a user's map with the defaults over the 16-key table (`contextMap`, `mergeMaps`, `sortEntries`, …);
`FormatMergeG.lean` models it over any key order (`contextMapG`, …).  Here: on maps keyed by the 16 default types, re-keyed by
`XKey.base`, the general definitions instantiated with `xkeyOrd` compute the same map entry by entry (`MapEq`), at every level of
nesting — hence (with `fmtX_embed`) `new(String, v, map)` of the 16-key model and of the general model agree.
-/
namespace Pcore.Format

mutual
/-- the same tree, keys re-keyed by `XKey.base` -/
inductive TreeEq : FTree → GTree XKey → Prop
  | leaf (f : Fmt) : TreeEq (.mk f none) (.mk f none)
  | node (f : Fmt) (m : FMap) (m' : GMap XKey) : MapEq m m' → TreeEq (.mk f (some m)) (.mk f (some m'))
inductive MapEq : FMap → GMap XKey → Prop
  | nil : MapEq [] []
  | cons (k : Key) (t : FTree) (t' : GTree XKey) (m : FMap) (m' : GMap XKey) :
      TreeEq t t' → MapEq m m' → MapEq ((k, t) :: m) ((.base k, t') :: m')
end

mutual
theorem TreeEq.toRel : ∀ {t : FTree} {t' : GTree XKey}, TreeEq t t' → TreeRel t t'
  | _, _, .leaf f => TreeRel.leaf f
  | _, _, .node f m m' h => TreeRel.node f m m' (MapEq.toRel h)
theorem MapEq.toRel : ∀ {m : FMap} {m' : GMap XKey}, MapEq m m' → MapRel m m'
  | _, _, .nil => MapRel.nil
  | _, _, .cons k t t' m m' ht hm => MapRel.cons k t t' m m' (TreeEq.toRel ht) (MapEq.toRel hm)
end

theorem TreeEq.f_eq {t : FTree} {t' : GTree XKey} (h : TreeEq t t') : t'.f = t.f := by cases h <;> rfl

/-- the container formats of related trees are related (`none` with `none`) -/
inductive OptMapEq : Option FMap → Option (GMap XKey) → Prop
  | none : OptMapEq none none
  | some (m : FMap) (m' : GMap XKey) : MapEq m m' → OptMapEq (some m) (some m')

theorem TreeEq.cf {t : FTree} {t' : GTree XKey} (h : TreeEq t t') : OptMapEq t.cf t'.cf := by
  cases h with
  | leaf f => exact OptMapEq.none
  | node f m m' hm => exact OptMapEq.some m m' hm

theorem TreeEq.mk' (f : Fmt) {cf : Option FMap} {cf' : Option (GMap XKey)} (h : OptMapEq cf cf') : TreeEq (.mk f cf) (.mk f cf') := by
  cases h with
  | none => exact TreeEq.leaf f
  | some m m' hm => exact TreeEq.node f m m' hm

/-! ### keys -/

theorem MapEq.keys : ∀ {m : FMap} {m' : GMap XKey}, MapEq m m' → m'.map (·.1) = (m.map (·.1)).map XKey.base
  | _, _, .nil => rfl
  | _, _, .cons k t t' m m' _ hm => by simp [MapEq.keys hm]

theorem MapEq.length : ∀ {m : FMap} {m' : GMap XKey}, MapEq m m' → m'.length = m.length
  | _, _, .nil => rfl
  | _, _, .cons k t t' m m' _ hm => by simp [MapEq.length hm]

theorem xkeyOrd_sub_base (a b : Key) : xkeyOrd.sub (.base a) (.base b) = Key.sub a b := rfl
theorem xkeyOrd_eqv_base (a b : Key) : xkeyOrd.eqv (.base a) (.base b) = (a == b) := by
  simp only [xkeyOrd]
  cases h : (a == b) with
  | true => have : a = b := by simpa using h
            subst this; simp
  | false => have : a ≠ b := by simpa using h
             simp [this]
theorem xkeyOrd_rank_base (a : Key) : xkeyOrd.rank (.base a) = a.rank := rfl
theorem xkeyOrd_name_base (a : Key) : xkeyOrd.name (.base a) = a.name := rfl

/-! ### lookup -/

theorem lookup_eq : ∀ {m : FMap} {m' : GMap XKey}, MapEq m m' → ∀ k : Key,
    (lookupKey m k = none ∧ lookupG xkeyOrd m' (.base k) = none) ∨
    (∃ t t', lookupKey m k = some t ∧ lookupG xkeyOrd m' (.base k) = some t' ∧ TreeEq t t')
  | _, _, .nil, k => Or.inl ⟨rfl, rfl⟩
  | _, _, .cons k0 t t' m m' ht hm, k => by
    unfold lookupKey lookupG
    simp only [List.find?_cons, xkeyOrd_eqv_base]
    by_cases h : k0 = k
    · subst h
      simp only [decide_true, beq_self_eq_true, Option.map_some]
      exact Or.inr ⟨t, t', rfl, rfl, ht⟩
    · have h1 : decide (k0 = k) = false := by simpa using h
      have h2 : (k0 == k) = false := by simpa using h
      simp only [h1, h2]
      have ih := lookup_eq hm k
      unfold lookupKey lookupG at ih
      exact ih

/-! ### the remaining defaults -/

theorem any_sub_eq (hi : List Key) (k : Key) :
    ((hi.map XKey.base).any (fun h => !xkeyOrd.eqv h (.base k) && xkeyOrd.sub h (.base k))) =
      hi.any (fun h => h != k && Key.sub h k) := by
  induction hi with
  | nil => rfl
  | cons x xs ih =>
    simp only [List.map_cons, List.any_cons, ih, xkeyOrd_eqv_base, xkeyOrd_sub_base]
    rfl

theorem normLower_eq : ∀ {lo : FMap} {lo' : GMap XKey}, MapEq lo lo' → ∀ {hi : FMap} {hi' : GMap XKey}, MapEq hi hi' →
    MapEq (normLowerOf lo hi) (normLowerOfG xkeyOrd lo' hi')
  | _, _, .nil, _, _, _ => MapEq.nil
  | _, _, .cons k t t' m m' ht hm, hi, hi', hh => by
    have ih := normLower_eq hm hh
    have hkeys := MapEq.keys hh
    unfold normLowerOf normLowerOfG at *
    simp only [List.filter_cons, hkeys, any_sub_eq] at ih ⊢
    split
    · exact MapEq.cons k t t' _ _ ht ih
    · exact ih

/-! ### the keys of the merged map -/

theorem filter_ne_base (k : Key) (l : List Key) :
    (l.map XKey.base).filter (fun o => !xkeyOrd.eqv o (.base k)) = (l.filter (fun o => o != k)).map XKey.base := by
  induction l with
  | nil => rfl
  | cons x xs ih =>
    simp only [List.map_cons, List.filter_cons, xkeyOrd_eqv_base, ih]
    cases h : (x == k) <;> simp [h, bne]

theorem dedup_eq (l : List Key) : dedupG xkeyOrd (l.map XKey.base) = (dedupKeys l).map XKey.base := by
  induction l with
  | nil => rfl
  | cons x xs ih => simp only [List.map_cons, dedupG, dedupKeys, ih, filter_ne_base]

theorem mergedKeys_eq {lo : FMap} {lo' : GMap XKey} (hl : MapEq lo lo') {hi : FMap} {hi' : GMap XKey} (hh : MapEq hi hi') :
    mergedKeysG xkeyOrd lo' hi' = (mergedKeys lo hi).map XKey.base := by
  unfold mergedKeysG mergedKeys
  rw [MapEq.keys (normLower_eq hl hh), MapEq.keys hh, ← List.map_append, dedup_eq]

/-! ### the merged entries -/

theorem mergedEntries_eq (mt : FTree → FTree → FTree) (mt' : GTree XKey → GTree XKey → GTree XKey)
    (hmt : ∀ l h l' h', TreeEq l l' → TreeEq h h' → TreeEq (mt l h) (mt' l' h'))
    {lo : FMap} {lo' : GMap XKey} (hl : MapEq lo lo') {hi : FMap} {hi' : GMap XKey} (hh : MapEq hi hi') :
    MapEq (mergedEntries mt lo hi) (mergedEntriesG xkeyOrd mt' lo' hi') := by
  unfold mergedEntries mergedEntriesG
  rw [mergedKeys_eq hl hh]
  generalize mergedKeys lo hi = ks
  induction ks with
  | nil => exact MapEq.nil
  | cons k ks ih =>
    simp only [List.map_cons, List.filterMap_cons]
    rcases lookup_eq (normLower_eq hl hh) k with ⟨h1, h1'⟩ | ⟨l, l', h1, h1', hl1⟩ <;>
      rcases lookup_eq hh k with ⟨h2, h2'⟩ | ⟨h, h', h2, h2', hh2⟩ <;> simp only [h1, h1', h2, h2']
    · exact ih
    · exact MapEq.cons k h h' _ _ hh2 ih
    · exact MapEq.cons k l l' _ _ hl1 ih
    · exact MapEq.cons k _ _ _ _ (hmt l h l' h' hl1 hh2) ih

/-! ### the order -/

theorem acceptors_eq (keys : List Key) (k : Key) : acceptorsG xkeyOrd (keys.map XKey.base) (.base k) = acceptors keys k := by
  unfold acceptorsG acceptors
  induction keys with
  | nil => rfl
  | cons x xs ih =>
    simp only [List.map_cons, List.filter_cons, xkeyOrd_sub_base]
    by_cases h : Key.sub x k = true
    · simp only [h, if_true, List.length_cons, ih]
    · simp only [h, Bool.false_eq_true, if_false, ih]

theorem entryLess_eq_G (keys : List Key) (a b : Key) :
    entryLessG xkeyOrd (keys.map XKey.base) (.base a) (.base b) = entryLess keys a b := by
  unfold entryLessG entryLess
  simp only [acceptors_eq, xkeyOrd_rank_base, xkeyOrd_name_base]
  rfl

theorem insSorted_eq (keys : List Key) (k : Key) (t : FTree) (t' : GTree XKey) (ht : TreeEq t t') :
    ∀ {m : FMap} {m' : GMap XKey}, MapEq m m' →
      MapEq (insSorted (fun a b => entryLess keys a.1 b.1) (k, t) m)
        (insSorted (fun a b => entryLessG xkeyOrd (keys.map XKey.base) a.1 b.1) (.base k, t') m')
  | _, _, .nil => MapEq.cons k t t' [] [] ht MapEq.nil
  | _, _, .cons k0 t0 t0' m m' ht0 hm => by
    simp only [insSorted, entryLess_eq_G]
    split
    · exact MapEq.cons k t t' _ _ ht (MapEq.cons k0 t0 t0' m m' ht0 hm)
    · exact MapEq.cons k0 t0 t0' _ _ ht0 (insSorted_eq keys k t t' ht hm)

theorem insertionSort_eq (keys : List Key) : ∀ {m : FMap} {m' : GMap XKey}, MapEq m m' →
    MapEq (insertionSort (fun a b => entryLess keys a.1 b.1) m)
      (insertionSort (fun a b => entryLessG xkeyOrd (keys.map XKey.base) a.1 b.1) m')
  | _, _, .nil => MapEq.nil
  | _, _, .cons k t t' m m' ht hm => by
    simp only [insertionSort, List.foldr_cons]
    exact insSorted_eq keys k t t' ht (insertionSort_eq keys hm)

theorem sortEntries_eq {m : FMap} {m' : GMap XKey} (h : MapEq m m') : MapEq (sortEntries m) (sortEntriesG xkeyOrd m') := by
  unfold sortEntries sortEntriesG
  rw [MapEq.keys h]
  exact insertionSort_eq _ h

/-! ### merge, at every level -/

theorem mergeTree_mergeMaps_eq : ∀ (fuel : Nat),
    (∀ l h l' h', TreeEq l l' → TreeEq h h' → TreeEq (mergeTree fuel l h) (mergeTreeG xkeyOrd fuel l' h')) ∧
    (∀ lo hi lo' hi', OptMapEq lo lo' → OptMapEq hi hi' → OptMapEq (mergeMaps fuel lo hi) (mergeMapsG xkeyOrd fuel lo' hi'))
  | 0 => ⟨fun _ _ _ _ _ hh => by simpa [mergeTree, mergeTreeG] using hh,
          fun _ _ _ _ _ hh => by simpa [mergeMaps, mergeMapsG] using hh⟩
  | fuel + 1 => by
    have ih := mergeTree_mergeMaps_eq fuel
    constructor
    · intro l h l' h' hl hh
      simp only [mergeTree, mergeTreeG, hl.f_eq, hh.f_eq]
      exact TreeEq.mk' _ (ih.2 _ _ _ _ hl.cf hh.cf)
    · intro lo hi lo' hi' hl hh
      cases hl with
      | none => simpa [mergeMaps, mergeMapsG] using hh
      | some lm lm' hlm =>
        cases hlm with
        | nil => simpa [mergeMaps, mergeMapsG] using hh
        | cons k t t' m m' ht hm =>
          cases hh with
          | none => simpa [mergeMaps, mergeMapsG] using OptMapEq.some _ _ (MapEq.cons k t t' m m' ht hm)
          | some hm0 hm0' hhm =>
            cases hhm with
            | nil => simpa [mergeMaps, mergeMapsG] using OptMapEq.some _ _ (MapEq.cons k t t' m m' ht hm)
            | cons k2 t2 t2' m2 m2' ht2 hm2 =>
              simp only [mergeMaps, mergeMapsG]
              exact OptMapEq.some _ _ (sortEntries_eq (mergedEntries_eq _ _ ih.1
                (MapEq.cons k t t' m m' ht hm) (MapEq.cons k2 t2 t2' m2 m2' ht2 hm2)))

/-! ### the default tables -/

theorem dcf_eq : ∀ n, MapEq (dcf n) (dcfG XKey.base n)
  | 0 => by
    simp only [dcf, dcfG, defaultCFG]
    repeat (first | exact MapEq.nil | refine MapEq.cons _ _ _ _ _ (TreeEq.leaf _) ?_)
  | n + 1 => by
    have ih := dcf_eq n
    simp only [dcf, dcfG]
    refine MapEq.cons _ _ _ _ _ (TreeEq.node _ _ _ ih) ?_
    refine MapEq.cons _ _ _ _ _ (TreeEq.node _ _ _ ih) ?_
    refine MapEq.cons _ _ _ _ _ (TreeEq.leaf _) ?_
    refine MapEq.cons _ _ _ _ _ (TreeEq.leaf _) ?_
    refine MapEq.cons _ _ _ _ _ (TreeEq.node _ _ _ ih) ?_
    refine MapEq.cons _ _ _ _ _ (TreeEq.node _ _ _ ih) ?_
    refine MapEq.cons _ _ _ _ _ (TreeEq.leaf _) ?_
    refine MapEq.cons _ _ _ _ _ (TreeEq.leaf _) ?_
    exact MapEq.nil

theorem defaultFormats_eq (n : Nat) : MapEq (defaultFormats n) (defaultFormatsG XKey.base n) := by
  have ih := dcf_eq n
  simp only [defaultFormats, defaultFormatsG]
  refine MapEq.cons _ _ _ _ _ (TreeEq.node _ _ _ ih) ?_
  refine MapEq.cons _ _ _ _ _ (TreeEq.node _ _ _ ih) ?_
  refine MapEq.cons _ _ _ _ _ (TreeEq.leaf _) ?_
  refine MapEq.cons _ _ _ _ _ (TreeEq.leaf _) ?_
  refine MapEq.cons _ _ _ _ _ (TreeEq.node _ _ _ ih) ?_
  refine MapEq.cons _ _ _ _ _ (TreeEq.node _ _ _ ih) ?_
  refine MapEq.cons _ _ _ _ _ (TreeEq.leaf _) ?_
  refine MapEq.cons _ _ _ _ _ (TreeEq.leaf _) ?_
  exact MapEq.nil

/-- `newFormatContext3`: the 16-key model and the general model build the same map -/
theorem contextMap_eq {user : FMap} {user' : GMap XKey} (h : MapEq user user') :
    MapEq (contextMap user) (contextMapG xkeyOrd XKey.base user') := by
  unfold contextMap contextMapG
  have := (mergeTree_mergeMaps_eq (2 * mergeDepth + 2)).2 _ _ _ _ (OptMapEq.some _ _ (defaultFormats_eq mergeDepth))
    (OptMapEq.some _ _ h)
  generalize mergeMaps (2 * mergeDepth + 2) (some (defaultFormats mergeDepth)) (some user) = r at this
  generalize mergeMapsG xkeyOrd (2 * mergeDepth + 2) (some (defaultFormatsG XKey.base mergeDepth)) (some user') = r' at this
  cases this with
  | none => exact MapEq.nil
  | some m m' hm => exact hm

end Pcore.Format
