import Pcore.Model.Ser
/-! Helper lemma for C10: the model's base64 decoder inverts its encoder (`unb64 (b64 bs) = some bs`). -/
namespace Pcore.Ser

theorem b64Digit_spec : ∀ n, n < 64 → b64Val (b64Digit n) = some n ∧ b64Digit n ≠ '=' := by decide

theorem b64Char_val (n : Nat) : b64Val (b64Char n) = some (n % 64) :=
  (b64Digit_spec (n % 64) (Nat.mod_lt _ (by decide))).1

theorem b64Char_ne (n : Nat) : b64Char n ≠ '=' :=
  (b64Digit_spec (n % 64) (Nat.mod_lt _ (by decide))).2

theorem u8_ofNat_toNat (a : UInt8) : UInt8.ofNat a.toNat = a := by simp

theorem unb64Chars_b64Chars : ∀ (bs : List UInt8), unb64Chars (b64Chars bs) = some bs
  | [] => rfl
  | [a] => by
      have ha := a.toNat_lt
      simp only [b64Chars, unb64Chars, b64Char_val, b64Char_ne, if_true, if_false, ne_eq, not_true_eq_false]
      have h1 : (a.toNat * 65536 / 262144 % 64 * 262144 + a.toNat * 65536 / 4096 % 64 * 4096) = a.toNat * 65536 := by omega
      rw [h1]
      have h2 : a.toNat * 65536 % 65536 = 0 := by omega
      have h3 : a.toNat * 65536 / 65536 = a.toNat := by omega
      simp [h2, h3]
  | [a, b] => by
      have ha := a.toNat_lt
      have hb := b.toNat_lt
      simp only [b64Chars, unb64Chars, b64Char_val, b64Char_ne, if_true, if_false, ne_eq, not_true_eq_false]
      have h1 : ((a.toNat * 65536 + b.toNat * 256) / 262144 % 64 * 262144 +
          (a.toNat * 65536 + b.toNat * 256) / 4096 % 64 * 4096 + (a.toNat * 65536 + b.toNat * 256) / 64 % 64 * 64) =
          a.toNat * 65536 + b.toNat * 256 := by omega
      rw [h1]
      have h2 : (a.toNat * 65536 + b.toNat * 256) % 256 = 0 := by omega
      have h3 : (a.toNat * 65536 + b.toNat * 256) / 65536 = a.toNat := by omega
      have h4 : (a.toNat * 65536 + b.toNat * 256) / 256 % 256 = b.toNat := by omega
      simp [h2, h3, h4]
  | a :: b :: c :: rest => by
      have ha := a.toNat_lt
      have hb := b.toNat_lt
      have hc := c.toNat_lt
      have ih := unb64Chars_b64Chars rest
      simp only [b64Chars, unb64Chars, b64Char_val, b64Char_ne, if_false, ih]
      have h1 : ((a.toNat * 65536 + b.toNat * 256 + c.toNat) / 262144 % 64 * 262144 +
          (a.toNat * 65536 + b.toNat * 256 + c.toNat) / 4096 % 64 * 4096 +
          (a.toNat * 65536 + b.toNat * 256 + c.toNat) / 64 % 64 * 64 +
          (a.toNat * 65536 + b.toNat * 256 + c.toNat) % 64) = a.toNat * 65536 + b.toNat * 256 + c.toNat := by omega
      rw [h1]
      have h3 : (a.toNat * 65536 + b.toNat * 256 + c.toNat) / 65536 = a.toNat := by omega
      have h4 : (a.toNat * 65536 + b.toNat * 256 + c.toNat) / 256 % 256 = b.toNat := by omega
      have h5 : (a.toNat * 65536 + b.toNat * 256 + c.toNat) % 256 = c.toNat := by omega
      simp [h3, h4, h5]

/-- the Binary leaf codec of the model inverts -/
theorem unb64_b64 (bs : List UInt8) : unb64 (b64 bs) = some bs := by
  simp [unb64, b64, unb64Chars_b64Chars]

end Pcore.Ser
