import Pcore.Proofs.LatTransG
set_option linter.unusedSimpArgs false
set_option linter.unusedVariables false
/-! C03, transitivity stage 3: `Iterable[x]` as the receiver (rules as repaired in /repo f8eabd3: Struct, Enum and Pattern arms).
    On the positional types Iterable's rule is the position loop `tupZip [x] …` without a size test; on Hash types it asks about the entry
    type `Tuple[k, v]`, on a Struct about the entry type `Tuple[String[name], t]` of every member; these synthesized tuples are lighter
    than the Hash / Struct member they come from (the weights 8 of `Ty.w`), so the induction hypothesis applies to them. -/
namespace Pcore.Lat
variable (cfg : Cfg) (sfh : Bool)

theorem iterMembers_iff (x : Ty) (ms : List Member) :
    iterMembers cfg sfh x ms = true ↔ ∀ m ∈ ms, asg cfg sfh x (.tuple [.strVal m.1, m.2.2] none) = true := by
  induction ms with
  | nil => unfold iterMembers; simp
  | cons m ms ih => obtain ⟨n, o, t⟩ := m; unfold iterMembers; simp [ih]

theorem Ty.wm_ge {m : Member} {ms : List Member} (h : m ∈ ms) : 8 + m.2.2.w ≤ Ty.wm ms := by
  induction ms with
  | nil => cases h
  | cons a as ih =>
    obtain ⟨n, o, t⟩ := a
    simp only [Ty.wm]
    cases h with
    | head => simp
    | tail _ h' => have := ih h'; omega

/-- entry tuples: `Tuple[k, v] ⊒ Tuple[k', v']` is `k ⊒ k'` and `v ⊒ v'` -/
theorem entry_asg (k v k' v' : Ty) :
    asg cfg sfh (.tuple [k, v] none) (.tuple [k', v'] none) = (asg cfg sfh k k' && asg cfg sfh v v') := by
  rw [asg_plain_r cfg sfh _ _ rfl]
  simp only [Ty.isAny, sameNullary, Bool.false_or]
  unfold asgRecv
  simp only [tupleSize, Rng.exact, Rng.sub, List.isEmpty_cons, List.length_cons, List.length_nil, Bool.false_or]
  unfold tupZip
  simp only []
  unfold tupZip
  simp

theorem tg_entry {k v : Ty} (hk : k.TG sfh) (hv : v.TG sfh) : (Ty.tuple [k, v] none).TG sfh := by
  unfold Ty.TG
  intro t ht
  simp only [List.mem_cons, List.mem_singleton, List.not_mem_nil, or_false] at ht
  rcases ht with rfl | rfl <;> assumption

theorem wf_entry {k v : Ty} (hk : Ty.WF cfg k) (hv : Ty.WF cfg v) : Ty.WF cfg (.tuple [k, v] none) := by
  unfold Ty.WF
  intro t ht
  simp only [List.mem_cons, List.mem_singleton, List.not_mem_nil, or_false] at ht
  rcases ht with rfl | rfl <;> assumption

theorem w_entry (k v : Ty) : (Ty.tuple [k, v] none).w = 6 + k.w + v.w := by simp only [Ty.w, Ty.wl]; omega

/-- Iterable's rule on a positional type: the position loop, no size test -/
theorem recv_iter_pos (x c : Ty) (pc : c.isPos = true) :
    asgRecv cfg sfh (.iterable x) c = tupZip cfg sfh [x] (posTypes c) (posSize c).hi := by
  cases c <;> simp [Ty.isPos] at pc
  · rename_i e r
    unfold asgRecv; simp only [posSize, posTypes, tupZip_single]
  · rename_i ts g
    unfold asgRecv; simp only [posSize, posTypes]
    by_cases hz : (tupleSize ts g).hi ≤ 0
    · simp [hz, tupZip_nonpos]
    · by_cases hts : ts.isEmpty = true
      · simp [hz, hts, tupZip_single]
      · simp [hz, hts]

/-- Iterable's rule on a member of the String family -/
theorem recv_iter_family (x c : Ty) (hc : isStringFamily c = true) :
    asgRecv cfg sfh (.iterable x) c = asg cfg sfh x (.strSz ⟨1, 1⟩) := by
  cases c <;> simp [isStringFamily] at hc <;> (unfold asgRecv; rfl)

theorem family_not_others {b : Ty} (hb : isStringFamily b = true) : b.isPos = false := by
  cases b <;> simp [isStringFamily] at hb <;> rfl

/-- `Iterable[x] ⊒ b ⊒ c` for plain `b`, `c` -/
theorem trG_iterable (n : Nat) (ih : TransG cfg sfh n) (x : Ty) (b c : Ty) (hw : (Ty.iterable x).w + b.w + c.w ≤ n + 1)
    (H : GHyp cfg sfh (.iterable x) b c)
    (h1 : asgRecv cfg sfh (.iterable x) b = true) (h2 : asgRecv cfg sfh b c = true) : asgRecv cfg sfh (.iterable x) c = true := by
  have fa := H.fa; unfold Ty.TG at fa
  simp only [Ty.w] at hw
  by_cases pb : b.isPos = true
  · -- positional middle type: the loop `[x]` against b's types, then b's against c's
    have pc := pos_closed cfg sfh b c pb h2
    rw [recv_iter_pos cfg sfh x b pb] at h1
    rw [recv_pos cfg sfh b c pb pc, Bool.and_eq_true] at h2
    rw [recv_iter_pos cfg sfh x c pc]
    have hk : (posSize c).hi ≤ (posSize b).hi := by
      have := h2.1; simp [Rng.sub] at this; omega
    apply tupZip_trans cfg sfh _ _ _ _ _ hk (by simp) (posTypes_ne b pb) (posTypes_ne c pc) ?_ h1 h2.2
    intro a' ha' b' hb' c' hc'
    simp only [List.mem_singleton] at ha'; subst ha'
    obtain ⟨wb', fb', wfb'⟩ := posG_elem cfg sfh b pb b' hb'
    obtain ⟨wc', fc', wfc'⟩ := posG_elem cfg sfh c pc c' hc'
    exact ih a' b' c' (by omega) ⟨fa, fb' H.fb, fc' H.fc, wfb' H.wb, wfc' H.wc⟩
  by_cases sb : isStringFamily b = true
  · have sc := family_closed cfg sfh sb h2
    rw [recv_iter_family cfg sfh x b sb] at h1
    rw [recv_iter_family cfg sfh x c sc]; exact h1
  cases b with
  | array _ _ => simp [Ty.isPos] at pb
  | tuple _ _ => simp [Ty.isPos] at pb
  | str => simp [isStringFamily] at sb
  | strSz _ => simp [isStringFamily] at sb
  | strVal _ => simp [isStringFamily] at sb
  | enum _ _ => simp [isStringFamily] at sb
  | pattern _ => simp [isStringFamily] at sb
  | bin =>
    unfold asgRecv at h2; cases c <;> simp only [] at h2 <;> (first | contradiction | skip)
    exact h1
  | hash k' v' r' =>
    have fb := H.fb; unfold Ty.TG at fb
    have wb := H.wb; unfold Ty.WF at wb
    unfold asgRecv at h1
    simp only [Bool.or_eq_true, decide_eq_true_eq] at h1
    unfold asgRecv at h2; cases c <;> simp only [] at h2 <;> (first | contradiction | skip)
    · rename_i k'' v'' r''
      have fc := H.fc; unfold Ty.TG at fc
      have wc := H.wc; unfold Ty.WF at wc
      simp only [Ty.w] at hw
      rw [Bool.and_eq_true] at h2
      unfold asgRecv
      simp only [Bool.or_eq_true, decide_eq_true_eq]
      by_cases hz : r''.hi ≤ 0
      · left; exact hz
      · right
        have hz' : ¬ r'.hi ≤ 0 := by
          have := h2.1; simp [Rng.sub] at this; omega
        have hB := h2.2
        simp only [Bool.or_eq_true, decide_eq_true_eq] at hB
        have hB' := hB.resolve_left hz
        have hA := h1.resolve_left hz'
        apply ih x (.tuple [k', v'] none) (.tuple [k'', v''] none) (by rw [w_entry, w_entry]; omega)
          ⟨fa, tg_entry sfh fb.1 fb.2, tg_entry sfh fc.1 fc.2, wf_entry cfg wb.1 wb.2, wf_entry cfg wc.1 wc.2⟩ hA
        rw [entry_asg]; exact hB'
    · rename_i ms''
      have fc := H.fc; unfold Ty.TG at fc
      have wc := H.wc; unfold Ty.WF at wc
      simp only [Ty.w] at hw
      rw [Bool.and_eq_true] at h2
      unfold asgRecv
      rw [iterMembers_iff]
      intro m'' hm''
      have hz : ¬ (structSize ms'').hi ≤ 0 := struct_size_hi_pos hm''
      have hz' : ¬ r'.hi ≤ 0 := by
        have := h2.1; simp [Rng.sub] at this; omega
      have hA := h1.resolve_left hz'
      have hB := (asgMembers_iff cfg sfh k' v' ms'').1 h2.2 m'' hm''
      have := Ty.wm_ge hm''
      apply ih x (.tuple [k', v'] none) (.tuple [.strVal m''.1, m''.2.2] none) (by rw [w_entry, w_entry]; simp only [Ty.w]; omega)
        ⟨fa, tg_entry sfh fb.1 fb.2, tg_entry sfh (tg_leaf sfh _ trivial) (fc.2.2 m'' hm''), wf_entry cfg wb.1 wb.2,
         wf_entry cfg (wf_leaf cfg _ trivial) (wc.2 m'' hm'')⟩ hA
      rw [entry_asg, hB.1, hB.2]; rfl
  | struct ms' =>
    have fb := H.fb; unfold Ty.TG at fb
    have wb := H.wb; unfold Ty.WF at wb
    obtain ⟨ms'', rfl⟩ := struct_closed cfg sfh ms' c fb.1 h2
    have fc := H.fc; unfold Ty.TG at fc
    have wc := H.wc; unfold Ty.WF at wc
    simp only [Ty.w] at hw
    obtain ⟨b1, b2⟩ := (struct_recv_iff cfg sfh ms' ms'' fb.2.1 fc.2.1).1 h2
    unfold asgRecv at h1 ⊢
    rw [iterMembers_iff] at h1 ⊢
    intro m'' hm''
    obtain ⟨m', hm', hk'⟩ := b2 m'' hm''
    have hB := (b1 m' hm').1 m'' hm'' hk'.symm
    have := Ty.wm_ge hm'; have := Ty.wm_ge hm''
    apply ih x (.tuple [.strVal m'.1, m'.2.2] none) (.tuple [.strVal m''.1, m''.2.2] none)
      (by rw [w_entry, w_entry]; simp only [Ty.w]; omega)
      ⟨fa, tg_entry sfh (tg_leaf sfh _ trivial) (fb.2.2 m' hm'), tg_entry sfh (tg_leaf sfh _ trivial) (fc.2.2 m'' hm''),
       wf_entry cfg (wf_leaf cfg _ trivial) (wb.2 m' hm'), wf_entry cfg (wf_leaf cfg _ trivial) (wc.2 m'' hm'')⟩ (h1 m' hm')
    rw [entry_asg, hB.2, hk']
    rw [asg_plain_r cfg sfh _ _ rfl]; simp [asgRecv]
  | iterable y =>
    have fb := H.fb; unfold Ty.TG at fb
    have wb := H.wb; unfold Ty.WF at wb
    have hxy : asg cfg sfh x y = true := by unfold asgRecv at h1; exact h1
    simp only [Ty.w] at hw
    by_cases pc : c.isPos = true
    · rw [recv_iter_pos cfg sfh y c pc, tupZipL_iff cfg sfh y _ _ (posTypes_ne c pc)] at h2
      rw [recv_iter_pos cfg sfh x c pc, tupZipL_iff cfg sfh x _ _ (posTypes_ne c pc)]
      intro j t hj ht
      obtain ⟨wc', fc', wfc'⟩ := posG_elem cfg sfh c pc t (List.mem_of_getElem? ht)
      exact ih x y t (by omega) ⟨fa, fb, fc' H.fc, wb, wfc' H.wc⟩ hxy (h2 j t hj ht)
    by_cases sc : isStringFamily c = true
    · rw [recv_iter_family cfg sfh y c sc] at h2
      rw [recv_iter_family cfg sfh x c sc]
      exact ih x y _ (by simp only [Ty.w]; omega) ⟨fa, fb, tg_leaf sfh _ trivial, wb, wf_leaf cfg _ trivial⟩ hxy h2
    cases c with
    | array _ _ => simp [Ty.isPos] at pc
    | tuple _ _ => simp [Ty.isPos] at pc
    | str => simp [isStringFamily] at sc
    | strSz _ => simp [isStringFamily] at sc
    | strVal _ => simp [isStringFamily] at sc
    | enum _ _ => simp [isStringFamily] at sc
    | pattern _ => simp [isStringFamily] at sc
    | bin =>
      unfold asgRecv at h2 ⊢
      exact ih x y _ (by simp only [Ty.w]; omega) ⟨fa, fb, tg_leaf sfh _ trivial, wb, wf_leaf cfg _ trivial⟩ hxy h2
    | hash k'' v'' r'' =>
      have fc := H.fc; unfold Ty.TG at fc
      have wc := H.wc; unfold Ty.WF at wc
      simp only [Ty.w] at hw
      unfold asgRecv at h2 ⊢
      simp only [Bool.or_eq_true, decide_eq_true_eq] at h2 ⊢
      rcases h2 with h2 | h2
      · left; exact h2
      · right
        exact ih x y _ (by rw [w_entry]; omega) ⟨fa, fb, tg_entry sfh fc.1 fc.2, wb, wf_entry cfg wc.1 wc.2⟩ hxy h2
    | struct ms'' =>
      have fc := H.fc; unfold Ty.TG at fc
      have wc := H.wc; unfold Ty.WF at wc
      simp only [Ty.w] at hw
      unfold asgRecv at h2 ⊢
      rw [iterMembers_iff] at h2 ⊢
      intro m'' hm''
      have := Ty.wm_ge hm''
      exact ih x y _ (by rw [w_entry]; simp only [Ty.w]; omega)
        ⟨fa, fb, tg_entry sfh (tg_leaf sfh _ trivial) (fc.2.2 m'' hm''), wb, wf_entry cfg (wf_leaf cfg _ trivial) (wc.2 m'' hm'')⟩
        hxy (h2 m'' hm'')
    | iterable z =>
      have fc := H.fc; unfold Ty.TG at fc
      have wc := H.wc; unfold Ty.WF at wc
      simp only [Ty.w] at hw
      unfold asgRecv at h2 ⊢
      exact ih x y z (by omega) ⟨fa, fb, fc, wb, wc⟩ hxy h2
    | _ => unfold asgRecv at h2; simp only [] at h2; contradiction
  | _ => unfold asgRecv at h1; simp only [] at h1; contradiction

end Pcore.Lat
